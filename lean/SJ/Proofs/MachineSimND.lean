import SJ.Proofs.MachineSimDoc
set_option linter.unusedVariables false
set_option linter.unusedSimpArgs false
/-
ND mode: the lines of the message as windows, and the induction over the lines (`Spec.ndText.go`).
-/
namespace SJ.TokenSim
open SJ SJ.ParseDefs SJ.Generated SJ.Layout SJ.Tables SJ.MachineSim

variable {E : Env}

/-! ## lines by position -/

/-- `Spec.splitLines` as a structural recursion (current line reversed in `cur`) -/
def linesC : List UInt8 → List UInt8 → List (List UInt8)
  | [], cur => [cur.reverse]
  | c :: r, cur => if c == 10 then cur.reverse :: linesC r [] else linesC r (c :: cur)

theorem splitLines_go (s : List UInt8) : ∀ (cur : List UInt8) (acc : List (List UInt8)),
    Spec.splitLines.go s cur acc = acc.reverse ++ linesC s cur := by
  induction s with
  | nil => intro cur acc; simp [Spec.splitLines.go, linesC]
  | cons c r ih =>
    intro cur acc
    simp only [Spec.splitLines.go, linesC]
    split
    · rw [ih]; simp
    · rw [ih]

theorem splitLines_eq (s : List UInt8) : Spec.splitLines s = linesC s [] := by
  unfold Spec.splitLines; rw [splitLines_go]; rfl

theorem exists_win (hnd : E.nd = true) : ∀ (k a : Nat), E.msg.size - a = k → a ≤ E.msg.size → ∃ e, Win E a e := by
  intro k
  induction k with
  | zero =>
    intro a hk ha
    have : a = E.msg.size := by omega
    subst this
    exact ⟨_, Nat.le_refl _, Nat.le_refl _, Or.inl rfl, fun _ j h1 h2 => by omega⟩
  | succ k ih =>
    intro a hk ha
    by_cases hb : E.b a = 10
    · exact ⟨a, Nat.le_refl _, ha, Or.inr ⟨hnd, hb⟩, fun _ j h1 h2 => by omega⟩
    · obtain ⟨e, W⟩ := ih (a + 1) (by omega) (by omega)
      refine ⟨e, by have := W.le; omega, W.he, W.stop, ?_⟩
      intro h j h1 h2
      by_cases hj : j = a
      · subst hj; exact hb
      · exact W.noNL h j (by omega) h2

theorem seg_snoc {p a : Nat} (hap : a ≤ p) (hp : p < E.msg.size) : E.seg (p + 1) a = E.seg p a ++ [E.b p] := by
  unfold Env.seg
  have h1 : E.msg.toList.take (p + 1) = E.msg.toList.take p ++ [E.b p] := by
    rw [List.take_add_one]
    congr 1
    have : E.msg.toList[p]? = some (E.b p) := by
      rw [List.getElem?_eq_getElem (by simpa using hp), Array.getElem_toList]
      exact congrArg some (byteAt_eq _ _ hp).symm
    rw [this]; rfl
  rw [h1, List.drop_append_of_le_length (by rw [List.length_take]; simp; omega)]

/-- the lines of the message from a line start `a`: the window, then the lines after its line feed -/
theorem linesC_win {a e : Nat} (W : Win E a e) (hnd : E.nd = true) :
    linesC (E.msg.toList.drop a) [] =
      E.seg e a :: (if e < E.msg.size then linesC (E.msg.toList.drop (e + 1)) [] else []) := by
  have key : ∀ (k p : Nat) (cur : List UInt8), e - p = k → a ≤ p → p ≤ e → cur.reverse = E.seg p a →
      linesC (E.msg.toList.drop p) cur =
        E.seg e a :: (if e < E.msg.size then linesC (E.msg.toList.drop (e + 1)) [] else []) := by
    intro k
    induction k with
    | zero =>
      intro p cur hk hap hpe hcur
      have : p = e := by omega
      subst this
      by_cases hes : p < E.msg.size
      · have hb : E.b p = 10 := by
          rcases W.stop with h | ⟨_, h⟩
          · omega
          · exact h
        have := seg_cons (E := E) (e := E.msg.size) hes (Nat.le_refl _)
        rw [seg_full, seg_full] at this
        rw [this, hb, if_pos hes]
        simp only [linesC, beq_self_eq_true, if_true, hcur]
      · have hpe : p = E.msg.size := by have := W.he; omega
        rw [List.drop_eq_nil_of_le (by simp; omega), if_neg hes]
        simp only [linesC, hcur]
    | succ k ih =>
      intro p cur hk hap hpe hcur
      have hlt : p < e := by omega
      have hps : p < E.msg.size := Nat.lt_of_lt_of_le hlt W.he
      have := seg_cons (E := E) (e := E.msg.size) hps (Nat.le_refl _)
      rw [seg_full, seg_full] at this
      have hb : (E.b p == 10) = false := by
        have := W.noNL hnd p hap hlt
        simpa using this
      rw [this]
      simp only [linesC, hb, Bool.false_eq_true, if_false]
      apply ih (p + 1) (E.b p :: cur) (by omega) (by omega) (by omega)
      rw [List.reverse_cons, hcur, seg_snoc hap hps]
  exact key (e - a) a [] rfl (Nat.le_refl _) W.le (by rw [seg_nil (Nat.le_refl _)]; rfl)


theorem skipWs_nil_iff (l : List UInt8) : Spec.skipWs l = [] ↔ Spec.isBlank l = true := by
  induction l with
  | nil => simp [Spec.skipWs, Spec.isBlank]
  | cons c r ih =>
    rw [skipWs_cons]
    unfold Spec.isBlank at ih ⊢
    by_cases hc : Spec.isWs c = true
    · rw [if_pos hc, ih]; simp [hc]
    · rw [if_neg hc]; simp [hc]

/-- the non-blank lines from the line start `a` on -/
def nbLines (E : Env) (a : Nat) : List (List UInt8) :=
  (linesC (E.msg.toList.drop a) []).filter (fun l => !Spec.isBlank l)

theorem nbLines_win {a e : Nat} (W : Win E a e) (hnd : E.nd = true) :
    nbLines E a = (if Spec.skipWs (E.seg e a) = [] then [] else [E.seg e a]) ++
      (if e < E.msg.size then nbLines E (e + 1) else []) := by
  unfold nbLines
  rw [linesC_win W hnd, List.filter_cons]
  by_cases hb : Spec.skipWs (E.seg e a) = []
  · rw [if_pos hb]
    have : Spec.isBlank (E.seg e a) = true := (skipWs_nil_iff _).mp hb
    simp only [this, Bool.not_true, Bool.false_eq_true, if_false, List.nil_append]
    split <;> simp
  · rw [if_neg hb]
    have : Spec.isBlank (E.seg e a) = false := by
      cases h : Spec.isBlank (E.seg e a) with
      | false => rfl
      | true => exact absurd ((skipWs_nil_iff _).mpr h) hb
    simp only [this, Bool.not_false, if_true, List.cons_append, List.nil_append]
    split <;> simp

theorem skipWs_nil_all {a e : Nat} (he : e ≤ E.msg.size) : ∀ (k : Nat), e - a = k → Spec.skipWs (E.seg e a) = [] →
    ∀ j, a ≤ j → j < e → Spec.isWs (E.b j) = true := by
  intro k
  induction k generalizing a with
  | zero => intro hk _ j h1 h2; omega
  | succ k ih =>
    intro hk h j h1 h2
    have hlt : a < e := by omega
    rw [seg_cons hlt he, skipWs_cons] at h
    by_cases hw : Spec.isWs (E.b a) = true
    · rw [if_pos hw] at h
      by_cases hj : j = a
      · subst hj; exact hw
      · exact ih (a := a + 1) (by omega) h j (by omega) h2
    · rw [if_neg hw] at h; cases h

/-! ## the line feed between two lines -/

theorem nl_step {e : Nat} (he : e < E.msg.size) (hr : E.Rdy e) (hnd : E.nd = true) (hb : E.b e = 10)
    {m m2 : M} (g : Ghost) (hstep : ∀ pk, m.step E.cfg E.msg e pk = some m2) (hg : ∀ pk, gstep m g E.msg e pk = g) :
    run E m g (E.c e) = run E m2 g (E.c (e + 1)) ∧ E.Rdy (e + 1) ∧ E.err (e + 1) = E.err e ∧
      E.c (e + 1) = E.c e + 1 := by
  obtain ⟨k1, k2, k3⟩ := E.SF.nl e he hr hnd hb
  obtain ⟨pk, h1, h2, _⟩ := drop_at he k1
  refine ⟨?_, k2, k3, h2⟩
  rw [run_step g h1 (hstep pk), hg pk, h2]; rfl

/-! ## the ghost's roots -/

theorem roots_next (m0 : M) (g0 : Ghost) (lv : LVal) (h : m0.st = .rootStart → g0 = {}) :
    ((rootGhost m0 g0).addVal lv).roots = g0.roots ++ [lv] := by
  unfold rootGhost
  by_cases hs : m0.st = .rootStart
  · rw [if_pos hs, h hs]; rfl
  · rw [if_neg hs]
    simp only [Ghost.nextRoot, Ghost.addVal, Ghost.roots]
    cases g0.rootVal <;> simp

/-! ## the induction over the lines -/

/-- the walk over a line the specification calls `outside` (proved in `MachineSimWalk`) -/
def OutsideWalk (E : Env) : Prop :=
  ∀ (a e : Nat) (m0 : M) (g0 : Ghost) (ent0 : UInt64), Win E a e → E.Rdy a → RootSt E m0 g0 a ent0 →
    Spec.skipWs (E.seg e a) ≠ [] → Spec.containerText (E.seg e a) = .outside →
    Dead E m0 (E.c a) ∨
      ∃ m' g' ent0', run E m0 g0 (E.c a) = run E m' g' (E.c e) ∧ m'.st = .startContinue ∧ m'.stack = [ent0'] ∧
        StkOK m' ∧ E.Rdy e ∧ Prog E m0 a m' e

/-- result of the remaining lines from line start `a` -/
def NDRes (E : Env) (a : Nat) (m0 : M) (g0 : Ghost) (R : Spec.Verdict) : Prop :=
  match R with
  | .accept v => ∃ m' g' ent', run E m0 g0 (E.c a) = run E m' g' (E.c E.msg.size) ∧ m'.stack = [ent'] ∧ StkOK m' ∧
      E.Rdy E.msg.size ∧ E.err E.msg.size = E.err a ∧ LastClose E E.msg.size ∧
      ∃ vs, v = .arr vs ∧ g'.roots.map erase = vs.map ofSpec
  | .reject => Dead E m0 (E.c a)
  | .outside => True

theorem ndRes_of_run {a a' : Nat} {m m1 : M} {g g1 : Ghost} {R : Spec.Verdict}
    (hrun : run E m g (E.c a) = run E m1 g1 (E.c a')) (herr : E.err a' = E.err a) (h : NDRes E a' m1 g1 R) :
    NDRes E a m g R := by
  cases R with
  | outside => trivial
  | reject => exact dead_of_run hrun h
  | accept v =>
    obtain ⟨m', g', ent', k1, k2, k3, k4, k5, k6, k7⟩ := h
    exact ⟨m', g', ent', hrun.trans k1, k2, k3, k4, k5.trans herr, k6, k7⟩

theorem go_outside : ∀ (ls : List (List UInt8)) (acc : List Spec.JVal),
    Spec.ndText.go ls acc true = .reject ∨ Spec.ndText.go ls acc true = .outside
  | [], acc => by right; simp [Spec.ndText.go]
  | l :: r, acc => by
    rw [Spec.ndText.go]
    cases Spec.containerText l with
    | accept v => exact go_outside r (v :: acc)
    | reject => left; rfl
    | outside => exact go_outside r acc

theorem ndRes_dead {a : Nat} {m : M} {g : Ghost} (ls : List (List UInt8)) (acc : List Spec.JVal)
    (h : Dead E m (E.c a)) : NDRes E a m g (Spec.ndText.go ls acc true) := by
  rcases go_outside ls acc with h1 | h1 <;> rw [h1]
  · exact h
  · trivial

theorem ndRes_of_run_out {a a' : Nat} {m m1 : M} {g g1 : Ghost} (ls : List (List UInt8)) (acc : List Spec.JVal)
    (hrun : run E m g (E.c a) = run E m1 g1 (E.c a')) (h : NDRes E a' m1 g1 (Spec.ndText.go ls acc true)) :
    NDRes E a m g (Spec.ndText.go ls acc true) := by
  rcases go_outside ls acc with h1 | h1 <;> rw [h1] at h ⊢
  · exact dead_of_run hrun h
  · trivial

theorem ws_nl : Spec.isWs 10 = true := by decide

theorem nd_sim (hnd : E.nd = true) (OW : OutsideWalk E)
    (hlast : 0 < E.msg.size ∧ Spec.isWs (E.b (E.msg.size - 1)) = false) :
    ∀ (k a : Nat) (m0 : M) (g0 : Ghost) (ent0 : UInt64) (acc : List Spec.JVal) (outside : Bool),
      E.msg.size - a = k → a < E.msg.size → E.Rdy a → RootSt E m0 g0 a ent0 →
      (m0.st = .rootStart → Spec.isWs (E.b a) = false ∧ g0 = {}) →
      (outside = false → g0.roots.map erase = acc.reverse.map ofSpec) →
      NDRes E a m0 g0 (Spec.ndText.go (nbLines E a) acc outside) := by
  intro k
  induction k using Nat.strongRecOn with
  | ind k ih =>
    intro a m0 g0 ent0 acc outside hk ha hr R hrs hacc
    obtain ⟨e, W⟩ := exists_win hnd _ a rfl (Nat.le_of_lt ha)
    have hae := W.le
    have hbe : e < E.msg.size → E.b e = 10 := by
      intro h
      rcases W.stop with h' | ⟨_, h'⟩
      · omega
      · exact h'
    have hnext : e < E.msg.size → e + 1 < E.msg.size := by
      intro h
      apply Nat.lt_of_le_of_ne (by omega)
      intro heq
      have h1 := hlast.2
      rw [show E.msg.size - 1 = e by omega, hbe h, ws_nl] at h1
      cases h1
    rw [nbLines_win W hnd]
    rcases line_sim W hr R with ⟨h1, h2, h3, h4⟩ | ⟨h1, h2⟩
    · -- a blank line
      rw [if_pos h1, List.nil_append]
      have hst : m0.st = .ndSkip := by
        rcases R.st with hs | hs
        · exfalso
          have hw := (hrs hs).1
          by_cases hlt : a < e
          · rw [skipWs_nil_all W.he _ rfl h1 a (Nat.le_refl _) hlt] at hw; cases hw
          · have : a = e := by omega
            rw [this, hbe (by omega), ws_nl] at hw; cases hw
        · exact hs
      have hes : e < E.msg.size := by
        apply Nat.lt_of_not_le
        intro hle
        have : e = E.msg.size := by have := W.he; omega
        have h5 := skipWs_nil_all W.he _ rfl h1 (E.msg.size - 1) (by omega) (by omega)
        rw [hlast.2] at h5; cases h5
      rw [if_pos hes]
      have hbe' : E.msg.getD e 0 = 10 := hbe hes
      obtain ⟨r1, r2, r3, r4⟩ := nl_step hes h2 hnd (hbe hes) (m := m0) (m2 := m0) g0
        (fun pk => step_nd_nl hst hbe') (fun pk => gstep_nd_nl g0 hst hbe')
      have R' : RootSt E m0 g0 (e + 1) ent0 :=
        ⟨R.st, R.stack, R.loc, by have := R.tape; rw [r4, h3]; omega, R.fr⟩
      have := ih (E.msg.size - (e + 1)) (by omega) (e + 1) m0 g0 ent0 acc outside rfl (hnext hes) r2 R'
        (fun hs => by rw [hst] at hs; cases hs) hacc
      exact ndRes_of_run (by rw [← h3]; exact r1) (by rw [r3, h4]) this
    · -- a document line
      rw [if_neg h1]
      simp only [List.cons_append, List.nil_append]
      rw [Spec.ndText.go]
      cases hct : Spec.containerText (E.seg e a) with
      | reject => rw [hct] at h2; exact h2
      | accept v =>
        rw [hct] at h2
        obtain ⟨m', lv, ent0', k1, k2, k3, k4, k5, k6, k7, k8, k9, k10⟩ := h2
        dsimp only
        have hroots : outside = false →
            ((rootGhost m0 g0).addVal lv).roots.map erase = (v :: acc).reverse.map ofSpec := by
          intro ho
          rw [roots_next m0 g0 lv (fun hs => (hrs hs).2), List.map_append, hacc ho]
          simp [k2]
        by_cases hes : e < E.msg.size
        · rw [if_pos hes]
          have hbe' : E.msg.getD e 0 = 10 := hbe hes
          obtain ⟨r1, r2, r3, r4⟩ := nl_step hes k3 hnd (hbe hes) (m := m') (m2 := { m' with st := .ndSkip })
            ((rootGhost m0 g0).addVal lv) (fun pk => step_sc k5 hbe') (fun pk => gstep_sc _ k5)
          have R' : RootSt E { m' with st := St.ndSkip } ((rootGhost m0 g0).addVal lv) (e + 1) ent0' :=
            ⟨Or.inr rfl, k6, k7 ent0' (by rw [k6]; simp),
              by have := R.tape; have := k8.2.2; simp only; rw [r4]; omega, fun hs => by cases hs⟩
          have := ih (E.msg.size - (e + 1)) (by omega) (e + 1) _ _ ent0' (v :: acc) outside rfl (hnext hes) r2 R'
            (fun hs => by cases hs) hroots
          exact ndRes_of_run (k1.trans r1) (by rw [r3, k4]) this
        · rw [if_neg hes]
          have hes' : e = E.msg.size := by have := W.he; omega
          rw [Spec.ndText.go]
          cases outside with
          | true => trivial
          | false =>
            simp only [Bool.false_eq_true, if_false]
            rw [hes'] at k1 k3 k4 k10
            exact ⟨m', _, ent0', k1, k6, k7, k3, k4, k10, (v :: acc).reverse, rfl, hroots rfl⟩
      | outside =>
        dsimp only
        rcases OW a e m0 g0 ent0 W hr R h1 hct with hd | ⟨m', g', ent0', w1, w2, w3, w4, w5, w6⟩
        · exact ndRes_dead _ _ hd
        · by_cases hes : e < E.msg.size
          · rw [if_pos hes]
            have hbe' : E.msg.getD e 0 = 10 := hbe hes
            obtain ⟨r1, r2, r3, r4⟩ := nl_step hes w5 hnd (hbe hes) (m := m') (m2 := { m' with st := .ndSkip })
              g' (fun pk => step_sc w2 hbe') (fun pk => gstep_sc _ w2)
            have R' : RootSt E { m' with st := St.ndSkip } g' (e + 1) ent0' :=
              ⟨Or.inr rfl, w3, w4 ent0' (by rw [w3]; simp),
                by have := R.tape; have := w6.2.2; simp only; rw [r4]; omega, fun hs => by cases hs⟩
            have := ih (E.msg.size - (e + 1)) (by omega) (e + 1) _ _ ent0' acc true rfl (hnext hes) r2 R'
              (fun hs => by cases hs) (fun h => by cases h)
            exact ndRes_of_run_out _ _ (w1.trans r1) this
          · rw [if_neg hes, Spec.ndText.go]
            trivial

end SJ.TokenSim
