import SJ.Model.Serialize
import SJ.Proofs.Facts
/-
C19 — `Serializer.Deserialize` never panics on corrupt or truncated bytes.

Everything below is about the model functions of `SJ/Model/Serialize.lean` themselves
(`flushSkips`, `rebStep`, `rebLoop`, `rebuild`, `deserializeSections`, `readUvarint`, `decBlock`,
`deserialize`).  The helper definitions `flushPhase`, `dispatch` (the two halves of `rebStep`) and
`uvBody` (the loop body of `readUvarint`) are proved equal to the model code (`rebStep_eq` by `rfl`,
`readUvarint_eq`), so every main theorem is a statement about the model function.
-/
namespace SJ.Rebuild
open SJ SJ.Generated

/-- "neither a panic nor a non-terminating run" as a proposition -/
def NoPanic {α} (r : Res α) : Prop := r ≠ .panic ∧ r ≠ .diverge

theorem noPanic_ok {α} (a : α) : NoPanic (Res.ok a) := ⟨by simp, by simp⟩
theorem noPanic_error {α} (e : Err) : NoPanic (Res.error e : Res α) := ⟨by simp, by simp⟩

theorem noPanic_iff_safe {α} (r : Res α) : NoPanic r ↔ r.safe = true := by
  cases r <;> simp [NoPanic, Res.safe]

/-- lift a statement checked for every `Fin 256` to every byte (as in `SJ.Tables.forall_u8`) -/
theorem forall_u8 {P : UInt8 → Prop} (h : ∀ n : Fin 256, P (UInt8.ofNat n.val)) (b : UInt8) : P b := by
  have := h ⟨b.toNat, b.toNat_lt⟩
  simpa using this

-- checked accessors ---------------------------------------------------------------------------------------

theorem wr_ok {α} (a : Array α) (i : Nat) (v : α) (h : i < a.size) : wr a i v = .ok (a.set i v h) := by
  simp only [wr, h, dite_true]

theorem rd_ok {α} (a : Array α) (i : Nat) (h : i < a.size) : rd a i = .ok a[i] := by
  simp only [rd, Array.getElem?_eq_getElem h]

theorem wr_ok' {α} (a : Array α) (i : Nat) (v : α) (h : i < a.size) :
    ∃ tp, wr a i v = .ok tp ∧ tp.size = a.size :=
  ⟨_, wr_ok a i v h, Array.size_set ..⟩

-- 1. flushSkips -------------------------------------------------------------------------------------------

theorem flushSkips_ok (tape : Array UInt64) (off n k : Nat) (h : off + k ≤ tape.size) :
    ∃ tape', flushSkips tape off n k = .ok (tape', off + k) ∧ tape'.size = tape.size := by
  induction k generalizing tape off with
  | zero => exact ⟨tape, rfl, rfl⟩
  | succ k ih =>
    have hlt : off < tape.size := by omega
    obtain ⟨tp, h1, h2⟩ := ih (tape.set off (mkWord tagNop (UInt64.ofNat (k + 1))) hlt) (off + 1)
      (by simp only [Array.size_set]; omega)
    refine ⟨tp, ?_, ?_⟩
    · simp only [flushSkips, wr_ok _ _ _ hlt, Res.bind_ok, h1]
      congr 2; omega
    · simpa only [Array.size_set] using h2

-- the two-entry guard covers every two-entry clause of the reconstruction switch -----------------------------

/-- Every tag of clauses 1, 2, 3 of the reconstruction switch (string; float/int/uint; float with
    flag) is in the two-entry guard (clause 0 of switch 0).  This is the only place where the
    concrete case lists matter for the no-panic claim. -/
theorem two_entry_guard_covers (t : UInt8)
    (h : inCase (caseOfSw swDeserialize 1 1) t = true ∨ inCase (caseOfSw swDeserialize 1 2) t = true ∨
         inCase (caseOfSw swDeserialize 1 3) t = true) :
    inCase (caseOfSw swDeserialize 0 0) t = true := by
  revert h
  rw [Facts.deserialize_cases]
  revert t
  exact forall_u8 (by decide +kernel)

-- 2. rebStep ----------------------------------------------------------------------------------------------

/-- the "flush owed skips" phase of `rebStep` -/
def flushPhase (s : RebState) (t : UInt8) : Res RebState :=
  if s.nSkips > 0 ∧ !(inCase (caseOfSw swDeserialize 1 0) t) then
    if s.nSkips ≥ s.tape.size - s.off then .error .generic else do
    let (tp, off) ← flushSkips s.tape s.off s.nSkips s.nSkips
    .ok { s with tape := tp, off := off, nSkips := 0 }
  else .ok s

/-- the dispatch of `rebStep` after the flush phase -/
def dispatch (values : Bytes) (t : UInt8) (s : RebState) : Res RebState :=
  let tagDst : UInt64 := t.toUInt64 <<< 56
  let sw := caseOfSw swDeserialize 1
  let two := inCase (caseOfSw swDeserialize 0 0) t
  if two ∧ s.off + 1 ≥ s.tape.size then .error .generic else
  let left := values.size - s.vpos
  if inCase (sw 0) t then .ok { s with nSkips := s.nSkips + 1 }
  else if inCase (sw 1) t then   -- string
    if left < 16 then .error .generic else do
    let tp ← wr s.tape s.off (tagDst ||| rdLE64 values s.vpos)
    let tp ← wr tp (s.off + 1) (rdLE64 values (s.vpos + 8))
    .ok { s with tape := tp, off := s.off + 2, vpos := s.vpos + 16 }
  else if inCase (sw 2) t then   -- float, int, uint
    if left < 8 then .error .generic else do
    let tp ← wr s.tape s.off tagDst
    let tp ← wr tp (s.off + 1) (rdLE64 values s.vpos)
    .ok { s with tape := tp, off := s.off + 2, vpos := s.vpos + 8 }
  else if inCase (sw 3) t then   -- float with flag
    if left < 16 then .error .generic else do
    let tp ← wr s.tape s.off (rdLE64 values s.vpos)
    let tp ← wr tp (s.off + 1) (rdLE64 values (s.vpos + 8))
    .ok { s with tape := tp, off := s.off + 2, vpos := s.vpos + 16 }
  else if inCase (sw 4) t then do  -- null, true, false, end
    let tp ← wr s.tape s.off tagDst
    .ok { s with tape := tp, off := s.off + 1 }
  else if inCase (sw 5) t then   -- { [
    if left < 8 then .error .generic else
    let val := rdLE64 values s.vpos + UInt64.ofNat s.off
    if val.toNat > s.tape.size ∨ val.toNat < s.off + 2 then .error .generic else do
    let tp ← wr s.tape s.off (tagDst ||| val)
    let tp ← wr tp (val.toNat - 1) (((openToClose t).toUInt64 <<< 56) ||| UInt64.ofNat s.off)
    .ok { s with tape := tp, off := s.off + 1, vpos := s.vpos + 8 }
  else if inCase (sw 6) t then   -- root
    if left < 8 then .error .generic else
    let val := rdLE64 values s.vpos + UInt64.ofNat s.off
    if val.toNat > s.tape.size then .error .generic else do
    let tp ← wr s.tape s.off (tagDst ||| val)
    .ok { s with tape := tp, off := s.off + 1, vpos := s.vpos + 8 }
  else if inCase (sw 7) t then do  -- } ]
    let cur ← rd s.tape s.off
    if cur &&& wJSONTAGMASK != tagDst then .error .generic
    else .ok { s with off := s.off + 1 }
  else .error .generic

/-- `rebStep` is literally the two phases in sequence (definitional unfolding). -/
theorem rebStep_eq (values : Bytes) (s : RebState) (t : UInt8) :
    rebStep values s t =
      if s.off == s.tape.size then .error .generic else flushPhase s t >>= dispatch values t := rfl

/-- post-condition of one reconstruction step -/
def StepPost (s : RebState) (r : Res RebState) : Prop :=
  (∃ s', r = .ok s' ∧ s'.tape.size = s.tape.size ∧ s'.off ≤ s'.tape.size) ∨ (∃ e, r = .error e)

theorem flushPhase_spec (s : RebState) (t : UInt8) (h : s.off < s.tape.size) :
    (∃ s1, flushPhase s t = .ok s1 ∧ s1.tape.size = s.tape.size ∧ s1.off < s1.tape.size) ∨
    flushPhase s t = .error .generic := by
  unfold flushPhase
  split
  · split
    · exact Or.inr rfl
    · next hk =>
      obtain ⟨tp, h1, h2⟩ := flushSkips_ok s.tape s.off s.nSkips s.nSkips (by omega)
      refine Or.inl ⟨{ s with tape := tp, off := s.off + s.nSkips, nSkips := 0 }, ?_, h2, ?_⟩
      · simp only [h1, Res.bind_ok]
      · show s.off + s.nSkips < tp.size
        omega
  · exact Or.inl ⟨s, rfl, rfl, h⟩

theorem dispatch_spec (values : Bytes) (t : UInt8) (s : RebState) (h : s.off < s.tape.size) :
    StepPost s (dispatch values t s) := by
  have hc := two_entry_guard_covers t
  unfold dispatch
  simp only []
  generalize inCase (caseOfSw swDeserialize 0 0) t = two at hc ⊢
  generalize inCase (caseOfSw swDeserialize 1 0) t = c0
  generalize inCase (caseOfSw swDeserialize 1 1) t = c1 at hc ⊢
  generalize inCase (caseOfSw swDeserialize 1 2) t = c2 at hc ⊢
  generalize inCase (caseOfSw swDeserialize 1 3) t = c3 at hc ⊢
  generalize inCase (caseOfSw swDeserialize 1 4) t = c4
  generalize inCase (caseOfSw swDeserialize 1 5) t = c5
  generalize inCase (caseOfSw swDeserialize 1 6) t = c6
  generalize inCase (caseOfSw swDeserialize 1 7) t = c7
  by_cases hg : two = true ∧ s.off + 1 ≥ s.tape.size
  · rw [if_pos hg]; exact Or.inr ⟨_, rfl⟩
  rw [if_neg hg]
  -- one write at `off`
  have one : ∀ v, ∃ tp, wr s.tape s.off v = .ok tp ∧ tp.size = s.tape.size := fun v => wr_ok' _ _ v h
  -- two writes at `off`, `off + 1` (needs the two-entry guard)
  have twoWr : two = true → ∀ (v w : UInt64) (vp : Nat),
      StepPost s (do
        let tp ← wr s.tape s.off v
        let tp ← wr tp (s.off + 1) w
        .ok { s with tape := tp, off := s.off + 2, vpos := vp }) := by
    intro ht v w vp
    have h2 : s.off + 1 < s.tape.size := by
      simp only [ht, true_and, ge_iff_le, Nat.not_le] at hg; exact hg
    obtain ⟨tp1, e1, z1⟩ := one v
    obtain ⟨tp2, e2, z2⟩ := wr_ok' tp1 (s.off + 1) w (by omega)
    simp only [e1, e2, Res.bind_ok]
    exact Or.inl ⟨_, rfl, by show tp2.size = _; omega, by show s.off + 2 ≤ tp2.size; omega⟩
  have ff : ¬ (false = true) := by decide
  -- clause 0: nop
  cases c0
  case true => rw [if_pos rfl]; exact Or.inl ⟨_, rfl, rfl, Nat.le_of_lt h⟩
  rw [if_neg ff]
  -- clause 1: string
  cases c1
  case true =>
    rw [if_pos rfl]
    by_cases hl : values.size - s.vpos < 16
    · rw [if_pos hl]; exact Or.inr ⟨_, rfl⟩
    · rw [if_neg hl]; exact twoWr (hc (Or.inl rfl)) _ _ _
  rw [if_neg ff]
  -- clause 2: float, int, uint
  cases c2
  case true =>
    rw [if_pos rfl]
    by_cases hl : values.size - s.vpos < 8
    · rw [if_pos hl]; exact Or.inr ⟨_, rfl⟩
    · rw [if_neg hl]; exact twoWr (hc (Or.inr (Or.inl rfl))) _ _ _
  rw [if_neg ff]
  -- clause 3: float with flag
  cases c3
  case true =>
    rw [if_pos rfl]
    by_cases hl : values.size - s.vpos < 16
    · rw [if_pos hl]; exact Or.inr ⟨_, rfl⟩
    · rw [if_neg hl]; exact twoWr (hc (Or.inr (Or.inr rfl))) _ _ _
  rw [if_neg ff]
  -- clause 4: null, true, false, end
  cases c4
  case true =>
    rw [if_pos rfl]
    obtain ⟨tp1, e1, z1⟩ := one (t.toUInt64 <<< 56)
    simp only [e1, Res.bind_ok]
    exact Or.inl ⟨_, rfl, z1, by show s.off + 1 ≤ tp1.size; omega⟩
  rw [if_neg ff]
  -- clause 5: { [
  cases c5
  case true =>
    rw [if_pos rfl]
    by_cases hl : values.size - s.vpos < 8
    · rw [if_pos hl]; exact Or.inr ⟨_, rfl⟩
    rw [if_neg hl]
    generalize rdLE64 values s.vpos + UInt64.ofNat s.off = val
    by_cases hv : val.toNat > s.tape.size ∨ val.toNat < s.off + 2
    · rw [if_pos hv]; exact Or.inr ⟨_, rfl⟩
    rw [if_neg hv]
    simp only [not_or, Nat.not_lt, gt_iff_lt] at hv
    obtain ⟨tp1, e1, z1⟩ := one (t.toUInt64 <<< 56 ||| val)
    obtain ⟨tp2, e2, z2⟩ := wr_ok' tp1 (val.toNat - 1)
      ((openToClose t).toUInt64 <<< 56 ||| UInt64.ofNat s.off) (by omega)
    simp only [e1, e2, Res.bind_ok]
    exact Or.inl ⟨_, rfl, by show tp2.size = _; omega, by show s.off + 1 ≤ tp2.size; omega⟩
  rw [if_neg ff]
  -- clause 6: root
  cases c6
  case true =>
    rw [if_pos rfl]
    by_cases hl : values.size - s.vpos < 8
    · rw [if_pos hl]; exact Or.inr ⟨_, rfl⟩
    rw [if_neg hl]
    generalize rdLE64 values s.vpos + UInt64.ofNat s.off = val
    by_cases hv : val.toNat > s.tape.size
    · rw [if_pos hv]; exact Or.inr ⟨_, rfl⟩
    rw [if_neg hv]
    obtain ⟨tp1, e1, z1⟩ := one (t.toUInt64 <<< 56 ||| val)
    simp only [e1, Res.bind_ok]
    exact Or.inl ⟨_, rfl, z1, by show s.off + 1 ≤ tp1.size; omega⟩
  rw [if_neg ff]
  -- clause 7: } ]
  cases c7
  case true =>
    rw [if_pos rfl]
    simp only [rd_ok _ _ h, Res.bind_ok]
    by_cases hm : (s.tape[s.off] &&& wJSONTAGMASK != t.toUInt64 <<< 56) = true
    · rw [if_pos hm]; exact Or.inr ⟨_, rfl⟩
    · rw [if_neg hm]; exact Or.inl ⟨_, rfl, rfl, h⟩
  rw [if_neg ff]
  exact Or.inr ⟨_, rfl⟩

/-- **rebStep never panics**: from a state with `off ≤ len(tape)` one step either returns an error or
    a state over a tape of the same length, again with `off ≤ len(tape)`. -/
theorem rebStep_spec (values : Bytes) (s : RebState) (t : UInt8) (h : s.off ≤ s.tape.size) :
    StepPost s (rebStep values s t) := by
  rw [rebStep_eq]
  by_cases he : (s.off == s.tape.size) = true
  · rw [if_pos he]; exact Or.inr ⟨_, rfl⟩
  rw [if_neg he]
  have hlt : s.off < s.tape.size := by
    simp only [beq_iff_eq] at he; omega
  rcases flushPhase_spec s t hlt with ⟨s1, e1, z1, o1⟩ | e1
  · rw [e1, Res.bind_ok]
    rcases dispatch_spec values t s1 o1 with ⟨s2, e2, z2, o2⟩ | ⟨e, e2⟩
    · exact Or.inl ⟨s2, e2, by omega, o2⟩
    · exact Or.inr ⟨e, e2⟩
  · rw [e1]; exact Or.inr ⟨_, rfl⟩

theorem rebStep_no_panic (values : Bytes) (s : RebState) (t : UInt8) (h : s.off ≤ s.tape.size) :
    (∃ s', rebStep values s t = .ok s' ∧ s'.tape.size = s.tape.size ∧ s'.off ≤ s'.tape.size) ∨
    (∃ e, rebStep values s t = .error e) := rebStep_spec values s t h

theorem rebStep_ne_panic (values : Bytes) (s : RebState) (t : UInt8) (h : s.off ≤ s.tape.size) :
    NoPanic (rebStep values s t) := by
  rcases rebStep_spec values s t h with ⟨s', e, _⟩ | ⟨e', e⟩ <;> rw [e]
  · exact noPanic_ok _
  · exact noPanic_error _

-- 3. rebLoop, rebuild -----------------------------------------------------------------------------------------

theorem rebLoop_spec (values : Bytes) (tags : List UInt8) (s : RebState) (h : s.off ≤ s.tape.size) :
    StepPost s (rebLoop values s tags) := by
  induction tags generalizing s with
  | nil => exact Or.inl ⟨s, rfl, rfl, h⟩
  | cons t ts ih =>
    unfold rebLoop
    rcases rebStep_spec values s t h with ⟨s1, e1, z1, o1⟩ | ⟨e, e1⟩
    · rw [e1, Res.bind_ok]
      rcases ih s1 o1 with ⟨s2, e2, z2, o2⟩ | ⟨e, e2⟩
      · exact Or.inl ⟨s2, e2, by omega, o2⟩
      · exact Or.inr ⟨e, e2⟩
    · rw [e1]; exact Or.inr ⟨e, rfl⟩

theorem rebLoop_no_panic (values : Bytes) (tags : List UInt8) (s : RebState) (h : s.off ≤ s.tape.size) :
    rebLoop values s tags ≠ .panic ∧ rebLoop values s tags ≠ .diverge ∧
    ∀ s', rebLoop values s tags = .ok s' → s'.tape.size = s.tape.size ∧ s'.off ≤ s'.tape.size := by
  rcases rebLoop_spec values tags s h with ⟨s1, e1, z1, o1⟩ | ⟨e, e1⟩ <;> rw [e1]
  · refine ⟨by simp, by simp, ?_⟩
    intro s' hs
    cases hs
    exact ⟨z1, o1⟩
  · exact ⟨by simp, by simp, by simp⟩

/-- `rebuild` returns an error or a tape of exactly the length of `init`. -/
theorem rebuild_spec (init : Array UInt64) (tags values : Bytes) :
    (∃ tp, rebuild init tags values = .ok tp ∧ tp.size = init.size) ∨
    (∃ e, rebuild init tags values = .error e) := by
  unfold rebuild
  rcases rebLoop_spec values tags.toList { tape := init } (Nat.zero_le _) with ⟨s, e1, z1, o1⟩ | ⟨e, e1⟩
  · rw [e1, Res.bind_ok]
    replace z1 : s.tape.size = init.size := z1
    -- the final flush
    have hf : (∃ tp off, (if s.nSkips > 0 then
          if s.nSkips > s.tape.size - s.off then (.error .generic : Res (Array UInt64 × Nat))
          else flushSkips s.tape s.off s.nSkips s.nSkips
        else .ok (s.tape, s.off)) = .ok (tp, off) ∧ tp.size = init.size) ∨
        (if s.nSkips > 0 then
          if s.nSkips > s.tape.size - s.off then (.error .generic : Res (Array UInt64 × Nat))
          else flushSkips s.tape s.off s.nSkips s.nSkips
        else .ok (s.tape, s.off)) = .error .generic := by
      by_cases hk : s.nSkips > 0
      · rw [if_pos hk]
        by_cases hg : s.nSkips > s.tape.size - s.off
        · rw [if_pos hg]; exact Or.inr rfl
        · rw [if_neg hg]
          obtain ⟨tp, h1, h2⟩ := flushSkips_ok s.tape s.off s.nSkips s.nSkips (by omega)
          exact Or.inl ⟨tp, _, h1, by omega⟩
      · rw [if_neg hk]; exact Or.inl ⟨_, _, rfl, z1⟩
    rcases hf with ⟨tp, off, e2, z2⟩ | e2
    · rw [e2, Res.bind_ok]
      dsimp only
      by_cases c1 : (off != tp.size) = true
      · rw [if_pos c1]; exact Or.inr ⟨_, rfl⟩
      rw [if_neg c1]
      by_cases c2 : values.size - s.vpos > 0
      · rw [if_pos c2]; exact Or.inr ⟨_, rfl⟩
      rw [if_neg c2]
      exact Or.inl ⟨tp, rfl, z2⟩
    · rw [e2]; exact Or.inr ⟨_, rfl⟩
  · rw [e1]; exact Or.inr ⟨e, rfl⟩

/-- **rebuild never panics** and keeps the declared tape length. -/
theorem rebuild_no_panic (init : Array UInt64) (tags values : Bytes) :
    rebuild init tags values ≠ .panic ∧ rebuild init tags values ≠ .diverge ∧
    ∀ tp, rebuild init tags values = .ok tp → tp.size = init.size := by
  rcases rebuild_spec init tags values with ⟨tp, e, z⟩ | ⟨e', e⟩ <;> rw [e]
  · refine ⟨by simp, by simp, ?_⟩
    intro tp' hs
    cases hs
    exact z
  · exact ⟨by simp, by simp, by simp⟩

theorem rebuild_ok_size (init : Array UInt64) (tags values : Bytes) (tp : Array UInt64)
    (h : rebuild init tags values = .ok tp) : tp.size = init.size :=
  (rebuild_no_panic init tags values).2.2 tp h

theorem deserializeSections_no_panic (sec : Sections) (init : Array UInt64) :
    deserializeSections sec init ≠ .panic ∧ deserializeSections sec init ≠ .diverge ∧
    ∀ pj, deserializeSections sec init = .ok pj →
      pj.tape.size = init.size ∧ pj.strings = sec.strings ∧ pj.msg = sec.msg := by
  unfold deserializeSections
  rcases rebuild_spec init sec.tags sec.values with ⟨tp, e, z⟩ | ⟨e', e⟩ <;> rw [e]
  · refine ⟨by simp, by simp, ?_⟩
    intro pj hs
    simp only [Res.bind_ok, Res.ok.injEq] at hs
    subst hs
    exact ⟨z, rfl, rfl⟩
  · exact ⟨by simp, by simp, by simp⟩

-- 4. deserialize ------------------------------------------------------------------------------------------------

theorem deserialize_no_panic (codec : Codec) (src : Bytes) (prior : Array UInt64) :
    deserialize codec src prior ≠ .panic ∧ deserialize codec src prior ≠ .diverge := by
  unfold deserialize
  repeat' split
  all_goals first | exact noPanic_error _ | skip
  -- the four remaining goals are the `.data values, .data tags` arm: the outcome of `rebuild`
  all_goals dsimp only
  all_goals split
  all_goals first
    | exact noPanic_error _
    | exact noPanic_ok _
    | (rename_i heq; exact absurd heq (rebuild_no_panic _ _ _).1)
    | (rename_i heq; exact absurd heq (rebuild_no_panic _ _ _).2.1)

/-- the destination tape handed to `rebuild` has exactly the declared number of entries -/
theorem init_size (prior : Array UInt64) (n : Nat) :
    (prior.extract 0 n ++ Array.replicate (n - prior.size) (0 : UInt64)).size = n := by
  simp only [Array.size_append, Array.size_extract, Array.size_replicate]
  omega

/-- A successful `Deserialize` yields a tape of exactly the declared size (the third uvarint of the
    header, after the version byte and the compressed-size uvarint). -/
theorem deserialize_ok_tape_size (codec : Codec) (src : Bytes) (prior : Array UInt64) (pj : PJ)
    (h : deserialize codec src prior = .ok pj) :
    ∃ c p1 ts p2, readUvarint src 1 = some (c, p1) ∧ readUvarint src p1 = some (ts, p2) ∧
      pj.tape.size = ts.toNat := by
  unfold deserialize at h
  repeat' split at h
  all_goals first | (cases h; done) | skip
  -- the remaining goals are the `.data values, .data tags` arm
  all_goals dsimp only at h
  all_goals split at h
  all_goals first | (cases h; done) | skip
  all_goals
    rename_i hreb
    cases h
    refine ⟨_, _, _, _, by assumption, by assumption, ?_⟩
    dsimp only
    rw [rebuild_ok_size _ _ _ _ hreb, init_size]

-- 5. framing: `readUvarint`, `decBlock` (pure functions: they cannot panic by construction; the facts below
--    show that their totalised byte accesses stay inside the input) -------------------------------------------

/-- invariant rule for a `for` loop over a list in the `Id` monad -/
theorem forIn_list_inv {σ : Type} (Inv : σ → Prop) (Q : Nat → Prop) (f : Nat → σ → Id (ForInStep σ))
    (hf : ∀ i s, Q i → Inv s → ∀ b, ((f i s).run = .done b ∨ (f i s).run = .yield b) → Inv b) :
    ∀ (l : List Nat), (∀ i ∈ l, Q i) → ∀ init, Inv init → Inv (forIn l init f : Id σ).run := by
  intro l
  induction l with
  | nil => intro _ init h; exact h
  | cons i l ih =>
    intro hq init h
    rw [List.forIn_cons]
    have hi := hf i init (hq i (List.mem_cons_self ..)) h
    cases hfi : (f i init).run with
    | done b =>
      have : Inv b := hi b (Or.inl hfi)
      simp only [Id.run_bind, hfi]
      exact this
    | yield b =>
      have : Inv b := hi b (Or.inr hfi)
      simp only [Id.run_bind, hfi]
      exact ih (fun j hj => hq j (List.mem_cons_of_mem _ hj)) b this

abbrev UvState := Option (Option (UInt64 × Nat)) × UInt64 × Nat

/-- the body of the `for` loop of `readUvarint` (state: early-return slot, `x`, `s`) -/
def uvBody (b : Bytes) (pos : Nat) (i : Nat) (st : UvState) : Id (ForInStep UvState) :=
  if pos + i ≥ b.size then pure (.done (some none, st.2.1, st.2.2))
  else if b.getD (pos + i) 0 < 128 then
    if (i == 9) = true ∧ b.getD (pos + i) 0 > 1 then pure (.done (some none, st.2.1, st.2.2))
    else pure (.done (some (some (st.2.1 ||| (b.getD (pos + i) 0).toUInt64 <<< UInt64.ofNat st.2.2, pos + i + 1)),
                      st.2.1, st.2.2))
  else pure (.yield (none, st.2.1 ||| (b.getD (pos + i) 0 &&& 127).toUInt64 <<< UInt64.ofNat st.2.2, st.2.2 + 7))

theorem readUvarint_eq (b : Bytes) (pos : Nat) :
    readUvarint b pos =
      match (forIn (m := Id) (List.range' 0 10) ((none, 0, 0) : UvState) (uvBody b pos)).run.1 with
      | some r => r
      | none => none := by
  unfold readUvarint
  simp only [Std.Legacy.Range.forIn_eq_forIn_range', Std.Legacy.Range.size, Nat.sub_zero, Nat.reduceAdd,
    Nat.add_one_sub_one, Nat.div_one, Id.run_bind]
  unfold uvBody
  generalize (forIn (m := Id) (List.range' 0 10) ((none, 0, 0) : UvState) _).run = S
  rcases S with ⟨r, _, _⟩
  cases r <;> rfl

theorem readUvarint_bounds (b : Bytes) (pos : Nat) (x : UInt64) (p : Nat)
    (h : readUvarint b pos = some (x, p)) : pos < p ∧ p ≤ b.size ∧ p ≤ pos + 10 := by
  rw [readUvarint_eq] at h
  let Inv : UvState → Prop :=
    fun σ => ∀ x p, σ.1 = some (some (x, p)) → pos < p ∧ p ≤ b.size ∧ p ≤ pos + 10
  have key := forIn_list_inv Inv (fun i => i < 10) (uvBody b pos) ?_ (List.range' 0 10) ?_ (none, 0, 0) ?_
  · generalize (forIn (m := Id) (List.range' 0 10) ((none, 0, 0) : UvState) (uvBody b pos)).run = S at h key
    rcases S with ⟨r, _, _⟩
    cases r with
    | none => cases h
    | some r => exact key x p (by simpa using h)
  · intro i st hi hinv r hr
    intro x p hx
    unfold uvBody at hr
    by_cases c1 : pos + i ≥ b.size
    · rw [if_pos c1] at hr
      rcases hr with hr | hr <;> cases hr <;> cases hx
    rw [if_neg c1] at hr
    by_cases c2 : b.getD (pos + i) 0 < 128
    · rw [if_pos c2] at hr
      by_cases c3 : (i == 9) = true ∧ b.getD (pos + i) 0 > 1
      · rw [if_pos c3] at hr
        rcases hr with hr | hr <;> cases hr <;> cases hx
      · rw [if_neg c3] at hr
        rcases hr with hr | hr <;> cases hr
        cases hx
        omega
    · rw [if_neg c2] at hr
      rcases hr with hr | hr <;> cases hr <;> cases hx
  · intro i hi
    simp only [List.mem_range'_1] at hi; omega
  · intro x p hx; cases hx

/-- `decBlock` only moves the read position forward and never past the end of the input: the
    block-type byte `b[pos]` and the slice `b[pos+1 : pos+size]` it takes are inside `b`
    (the model reads them with the total `getD`/`extract`; this shows the totalisation is never used
    out of range, i.e. a truncated block is reported as `.fail`, not read past the end). -/
theorem decBlock_pos (codec : Codec) (b : Bytes) (pos want : Nat) (r : BlockRes) (p : Nat)
    (h : decBlock codec b pos want = (r, p)) : pos ≤ p ∧ (pos ≤ b.size → p ≤ b.size) := by
  unfold decBlock at h
  split at h
  · cases h; exact ⟨Nat.le_refl _, id⟩
  · next size pos1 hu =>
    have hb := readUvarint_bounds b pos size pos1 hu
    dsimp only at h
    repeat' split at h
    all_goals cases h
    all_goals refine ⟨by omega, fun _ => by omega⟩

end SJ.Rebuild
