import SJ.Properties.C13
import SJ.Properties.C14
import SJ.Properties.C17
import SJ.Properties.C19
import SJ.Properties.C11
import SJ.Properties.C02
set_option linter.unusedVariables false
/-
SourceLevelB — property theorems stated directly about the MEANING OF THE GO SOURCE.

Each theorem here chains a source tie (`*_follows_source`: the hand model is the meaning, under `GoSem.runFun goFuns <tree> fuel
⟨store, tape⟩`, of a syntax tree regenerated from the Go source on every run) with a property theorem about the hand model
(`SJ/Properties/C13, C14, C17, C19, C11, C02`).  The conclusions mention no function of the hand model: they speak of the outcome
`runFun … = .ret s vals`, of the tape `s.tape` and store `s.env` the run leaves, and of what that tape DENOTES
(`Ok pj' doc`: the located document `doc` is held by `pj'`; `WF pj' d`: the tape denotes the documents `d`).  Where a run does not
write the string buffer or the message, the tape it leaves is read together with the unchanged buffers:
`{ tape := s.tape, strings := pj.strings, msg := pj.msg }`.

For every theorem the doc comment lists which premises of the tie were discharged from the property's premises and which remain.
Recurring remaining premises:
* `i.lim ≤ pj.tape.size` — the iterator's view is a prefix of the tape.  In Go a slice cannot be longer than its array; in the
  store the view length `i.lim` is a variable of its own, so the ties ask for it, and the property theorems (which bound
  `off` against `lim` only) do not imply it.
* `BufOK pj` — `Message` and the string buffer are shorter than 2^63 bytes (Go `int`); `Ok`/`WF` do not bound the buffers.
* interpreter fuel (the interpreter is total by fuel; each tie says how much its loops need).
-/
namespace SJ.SourceLevelB
open SJ SJ.Generated SJ.GoSem SJ.GoIter SJ.GoSet SJ.Layout

/-! ## C13 -/

/-- a source tie (`SimSet`) chained with a property of the model's result -/
theorem set_compose {pj : PJ} {i : Iter} {o : Out} {r : Res (PJ × Iter)} {doc : LVal} {strs : Bytes}
    (hs : SimSet pj i o r)
    (hp : ∃ pj' i', r = .ok (pj', i') ∧ Ok pj' doc ∧ pj'.strings = strs ∧ pj'.msg = pj.msg ∧
      pj'.tape.size = pj.tape.size) :
    ∃ s, o = .ret s [.bool false] ∧ Ok { tape := s.tape, strings := strs, msg := pj.msg } doc ∧
      s.env.get "Strings.B" = some (.bytes strs) ∧ s.tape.size = pj.tape.size ∧ ∃ i', iterAt s.env "i" = some i' := by
  obtain ⟨pj', i', rfl, hok, h1, h2, h3⟩ := hp
  obtain ⟨s, ho, ht, hstr, hi, _⟩ := hs
  refine ⟨s, ho, ?_, by rw [hstr, h1], by rw [ht, h3], i', hi⟩
  have : pj' = { tape := s.tape, strings := strs, msg := pj.msg } := by
    cases pj'; simp only at ht h1 h2; subst ht h1 h2; rfl
  rw [← this]; exact hok

theorem set_refuse {pj : PJ} {i : Iter} {o : Out} {r : Res (PJ × Iter)} (hs : SimSet pj i o r) (hp : r = .error .generic) :
    ∃ s, o = .ret s [.bool true] ∧ s.tape = pj.tape ∧ s.env.get "Strings.B" = some (.bytes pj.strings) ∧
      iterAt s.env "i" = some i := by
  subst hp; exact hs


open SJ.Properties.C13 in
/-- **`SetInt`, source level.** On a tape holding the located document `v`, with the receiver on the two-word scalar node at
    `q` whose tag passes the gate: running the regenerated syntax tree `goIter_SetInt` (any fuel) returns `nil`, and the tape it
    leaves holds `v` with exactly that node replaced by the integer — everything else is the same tree; string buffer and tape
    length unchanged; the receiver is still a complete iterator.  `hl` is the one hypothesis of the tie that does not follow
    from the property's: the view is a prefix of the tape (in Go a slice cannot be longer than its array; in the store the
    view length is a separate variable). -/
theorem C13_source_setInt (pj : PJ) (v : LVal) (hok : Ok pj v) (q : Nat) (hnode : HasNode q (q + 2) v) (i : Iter)
    (hoff : i.off = q + 1) (hview : i.off < i.lim) (hl : i.lim ≤ pj.tape.size)
    (ht : inCase (caseOf swSetInt 0) i.t = true) (z : Int) (fuel : Nat) :
    ∃ s, runFun goFuns goIter_SetInt fuel
        { env := envOf "i" i ++ [("Strings.B", .bytes pj.strings), ("v", .int z)], tape := pj.tape } = .ret s [.bool false] ∧
      Ok { tape := s.tape, strings := pj.strings, msg := pj.msg } (substV q (.int (ofInt64 z) q) v) ∧
      s.env.get "Strings.B" = some (.bytes pj.strings) ∧ s.tape.size = pj.tape.size ∧ ∃ i', iterAt s.env "i" = some i' :=
  set_compose ((C13_set_follows_source pj i hl fuel).2.1 z) (C13_setInt pj v hok q hnode i hoff hview ht z)

open SJ.Properties.C13 in
/-- **`SetUInt`, source level** (as `C13_source_setInt`). -/
theorem C13_source_setUInt (pj : PJ) (v : LVal) (hok : Ok pj v) (q : Nat) (hnode : HasNode q (q + 2) v) (i : Iter)
    (hoff : i.off = q + 1) (hview : i.off < i.lim) (hl : i.lim ≤ pj.tape.size)
    (ht : inCase (caseOf swSetUInt 0) i.t = true) (z : UInt64) (fuel : Nat) :
    ∃ s, runFun goFuns goIter_SetUInt fuel
        { env := envOf "i" i ++ [("Strings.B", .bytes pj.strings), ("v", .u64 z)], tape := pj.tape } = .ret s [.bool false] ∧
      Ok { tape := s.tape, strings := pj.strings, msg := pj.msg } (substV q (.uint z q) v) ∧
      s.env.get "Strings.B" = some (.bytes pj.strings) ∧ s.tape.size = pj.tape.size ∧ ∃ i', iterAt s.env "i" = some i' :=
  set_compose ((C13_set_follows_source pj i hl fuel).2.2.1 z) (C13_setUInt pj v hok q hnode i hoff hview ht z)

open SJ.Properties.C13 in
/-- **`SetFloat`, source level**; `bits = math.Float64bits(v)` of the argument (the float flag of the new node is 0). -/
theorem C13_source_setFloat (pj : PJ) (v : LVal) (hok : Ok pj v) (q : Nat) (hnode : HasNode q (q + 2) v) (i : Iter)
    (hoff : i.off = q + 1) (hview : i.off < i.lim) (hl : i.lim ≤ pj.tape.size)
    (ht : inCase (caseOf swSetFloat 0) i.t = true) (bits : UInt64) (fuel : Nat) :
    ∃ s, runFun goFuns goIter_SetFloat fuel
        { env := envOf "i" i ++ [("Strings.B", .bytes pj.strings), ("v", .u64 bits)], tape := pj.tape } = .ret s [.bool false] ∧
      Ok { tape := s.tape, strings := pj.strings, msg := pj.msg } (substV q (.float bits 0 q) v) ∧
      s.env.get "Strings.B" = some (.bytes pj.strings) ∧ s.tape.size = pj.tape.size ∧ ∃ i', iterAt s.env "i" = some i' :=
  set_compose ((C13_set_follows_source pj i hl fuel).1 bits) (C13_setFloat pj v hok q hnode i hoff hview ht bits)

open SJ.Properties.C13 in
/-- **`SetBool`, source level**: the node is one word (`true`/`false`/`null`), so the view only has to reach it (`off ≤ lim`). -/
theorem C13_source_setBool (pj : PJ) (v : LVal) (hok : Ok pj v) (q : Nat) (hnode : HasNode q (q + 1) v) (i : Iter)
    (hoff : i.off = q + 1) (hview : i.off ≤ i.lim) (hl : i.lim ≤ pj.tape.size)
    (ht : inCase (caseOf swSetBool 0) i.t = true) (b : Bool) (fuel : Nat) :
    ∃ s, runFun goFuns goIter_SetBool fuel
        { env := envOf "i" i ++ [("Strings.B", .bytes pj.strings), ("v", .bool b)], tape := pj.tape } = .ret s [.bool false] ∧
      Ok { tape := s.tape, strings := pj.strings, msg := pj.msg } (substV q (.bool b q) v) ∧
      s.env.get "Strings.B" = some (.bytes pj.strings) ∧ s.tape.size = pj.tape.size ∧ ∃ i', iterAt s.env "i" = some i' :=
  set_compose ((C13_set_follows_source pj i hl fuel).2.2.2.2.1 b) (C13_setBool pj v hok q hnode i hoff hview ht b)

open SJ.Properties.C13 in
/-- **`SetNull` on a two-word scalar, source level.**  The tie's premise `cur < 2^63` is asked for container tags only and is
    vacuous here (the tag is in the scalar clause).  The fuel premise is the tie's uniform bound for `SetNull` (its container
    clause loops up to `i.cur`); the scalar clause does not loop, but the tie is stated once for all clauses. -/
theorem C13_source_setNull_scalar (pj : PJ) (v : LVal) (hok : Ok pj v) (q : Nat) (hnode : HasNode q (q + 2) v) (i : Iter)
    (hoff : i.off = q + 1) (hview : i.off < i.lim) (hl : i.lim ≤ pj.tape.size)
    (ht0 : inCase (caseOf swSetNull 0) i.t = false) (ht : inCase (caseOf swSetNull 1) i.t = true)
    (fuel : Nat) (hf : i.cur.toNat - i.off + 2 ≤ fuel) :
    ∃ s, runFun goFuns goIter_SetNull fuel
        { env := envOf "i" i ++ [("Strings.B", .bytes pj.strings)], tape := pj.tape } = .ret s [.bool false] ∧
      Ok { tape := s.tape, strings := pj.strings, msg := pj.msg } (substV q (.null q) v) ∧
      s.env.get "Strings.B" = some (.bytes pj.strings) ∧ s.tape.size = pj.tape.size ∧ ∃ i', iterAt s.env "i" = some i' := by
  have hcur : i.t = tagObjectStart ∨ i.t = tagArrayStart ∨ i.t = tagRoot → i.cur.toNat < 2^63 := by
    intro h; exfalso
    rcases h with h | h | h <;> (rw [h] at ht; revert ht; decide)
  exact set_compose ((C13_set_follows_source pj i hl fuel).2.2.2.2.2 hcur hf)
    (C13_setNull_scalar pj v hok q hnode i hoff hview ht0 ht)

open SJ.Properties.C13 in
/-- **`SetString` / `SetStringBytes`, source level**: the string buffer the run leaves is the old one with exactly the new
    bytes appended, and with it the tape holds `v` with exactly the node at `q` replaced by that string. -/
theorem C13_source_setString (pj : PJ) (v : LVal) (hok : Ok pj v) (q : Nat) (hnode : HasNode q (q + 2) v) (i : Iter)
    (hoff : i.off = q + 1) (hview : i.off < i.lim) (hl : i.lim ≤ pj.tape.size)
    (ht : inCase (caseOf swSetStringBytes 0) i.t = true) (sv : Bytes) (hsmall : pj.strings.size + sv.size < 2^55) (fuel : Nat) :
    ∃ s, runFun goFuns goIter_SetStringBytes fuel
        { env := envOf "i" i ++ [("Strings.B", .bytes pj.strings), ("v", .bytes sv)], tape := pj.tape } = .ret s [.bool false] ∧
      Ok { tape := s.tape, strings := pj.strings ++ sv, msg := pj.msg } (substV q (.str sv.toList q) v) ∧
      s.env.get "Strings.B" = some (.bytes (pj.strings ++ sv)) ∧ s.tape.size = pj.tape.size ∧
      ∃ i', iterAt s.env "i" = some i' :=
  set_compose ((C13_set_follows_source pj i hl fuel).2.2.2.1 sv) (C13_setString pj v hok q hnode i hoff hview ht sv hsmall)

open SJ.Properties.C13 in
/-- **A disallowed `SetInt`, source level**: on a tag the gate refuses, the run returns a non-nil error and tape, string
    buffer and receiver are exactly what they were. -/
theorem C13_source_gate_int (pj : PJ) (i : Iter) (hl : i.lim ≤ pj.tape.size) (z : Int)
    (ht : inCase (caseOf swSetInt 0) i.t = false) (fuel : Nat) :
    ∃ s, runFun goFuns goIter_SetInt fuel
        { env := envOf "i" i ++ [("Strings.B", .bytes pj.strings), ("v", .int z)], tape := pj.tape } = .ret s [.bool true] ∧
      s.tape = pj.tape ∧ s.env.get "Strings.B" = some (.bytes pj.strings) ∧ iterAt s.env "i" = some i :=
  set_refuse ((C13_set_follows_source pj i hl fuel).2.1 z) (C13_gate_int pj i z ht)

open SJ.Properties.C13 in
theorem C13_source_gate_bool (pj : PJ) (i : Iter) (hl : i.lim ≤ pj.tape.size) (b : Bool)
    (ht : inCase (caseOf swSetBool 0) i.t = false) (fuel : Nat) :
    ∃ s, runFun goFuns goIter_SetBool fuel
        { env := envOf "i" i ++ [("Strings.B", .bytes pj.strings), ("v", .bool b)], tape := pj.tape } = .ret s [.bool true] ∧
      s.tape = pj.tape ∧ s.env.get "Strings.B" = some (.bytes pj.strings) ∧ iterAt s.env "i" = some i :=
  set_refuse ((C13_set_follows_source pj i hl fuel).2.2.2.2.1 b) (C13_gate_bool pj i b ht)

open SJ.Properties.C13 in
theorem C13_source_gate_string (pj : PJ) (i : Iter) (hl : i.lim ≤ pj.tape.size) (sv : Bytes)
    (ht : inCase (caseOf swSetStringBytes 0) i.t = false) (fuel : Nat) :
    ∃ s, runFun goFuns goIter_SetStringBytes fuel
        { env := envOf "i" i ++ [("Strings.B", .bytes pj.strings), ("v", .bytes sv)], tape := pj.tape } = .ret s [.bool true] ∧
      s.tape = pj.tape ∧ s.env.get "Strings.B" = some (.bytes pj.strings) ∧ iterAt s.env "i" = some i :=
  set_refuse ((C13_set_follows_source pj i hl fuel).2.2.2.1 sv) (C13_gate_string pj i sv ht)

open SJ.Properties.C13 in
/-- `SetNull` on a tag in none of its three clauses (end tags, NOP, unknown).  `cur < 2^63` is vacuous (not a container
    tag); the fuel premise is the tie's uniform bound. -/
theorem C13_source_gate_null (pj : PJ) (i : Iter) (hl : i.lim ≤ pj.tape.size)
    (h0 : inCase (caseOf swSetNull 0) i.t = false) (h1 : inCase (caseOf swSetNull 1) i.t = false)
    (h2 : inCase (caseOf swSetNull 2) i.t = false) (fuel : Nat) (hf : i.cur.toNat - i.off + 2 ≤ fuel) :
    ∃ s, runFun goFuns goIter_SetNull fuel
        { env := envOf "i" i ++ [("Strings.B", .bytes pj.strings)], tape := pj.tape } = .ret s [.bool true] ∧
      s.tape = pj.tape ∧ s.env.get "Strings.B" = some (.bytes pj.strings) ∧ iterAt s.env "i" = some i := by
  have hcur : i.t = tagObjectStart ∨ i.t = tagArrayStart ∨ i.t = tagRoot → i.cur.toNat < 2^63 := by
    intro h; exfalso
    rcases h with h | h | h <;> (rw [h] at h2; revert h2; decide)
  exact set_refuse ((C13_set_follows_source pj i hl fuel).2.2.2.2.2 hcur hf) (C13_gate_null pj i h0 h1 h2)

open SJ.Properties.C14 in
/-- **`SetNull` on a container, source level** (the writer of gaps): the object or array node `[q, e)` becomes `null`
    followed by a gap ending exactly at `e`; nothing else changes.  Discharged from the property's hypotheses: `cur < 2^63`
    (`cur = e ≤ lim ≤ len(tape) < 2^56`).  Fuel: one unit per word of the container, plus two. -/
theorem C14_source_setNull_container (pj : PJ) (v : LVal) (hok : Ok pj v) (q e : Nat) (hnode : HasNode q e v) (hqe : q + 2 ≤ e)
    (hsmall : pj.tape.size < 2^56) (i : Iter) (hoff : i.off = q + 1) (hcur : i.cur.toNat = e)
    (hview : i.cur.toNat ≤ i.lim) (hl : i.lim ≤ pj.tape.size)
    (ht0 : inCase (caseOf swSetNull 0) i.t = false) (ht1 : inCase (caseOf swSetNull 1) i.t = false)
    (ht : inCase (caseOf swSetNull 2) i.t = true) (fuel : Nat) (hf : e - q + 1 ≤ fuel) :
    ∃ s, runFun goFuns goIter_SetNull fuel
        { env := envOf "i" i ++ [("Strings.B", .bytes pj.strings)], tape := pj.tape } = .ret s [.bool false] ∧
      Ok { tape := s.tape, strings := pj.strings, msg := pj.msg } (substV q (.null q) v) ∧
      s.env.get "Strings.B" = some (.bytes pj.strings) ∧ s.tape.size = pj.tape.size ∧ ∃ i', iterAt s.env "i" = some i' :=
  set_compose ((SJ.Properties.C13.C13_set_follows_source pj i hl fuel).2.2.2.2.2 (fun _ => by omega) (by omega))
    (C14_setNull_container pj v hok q e hnode hqe hsmall i hoff hcur hview ht0 ht1 ht)

/-! ## C14 -/

/-- a container node of a located document ends inside the tape -/
theorem arr_end_le {pj : PJ} {p e : Nat} {es : LVals} (hok : Ok pj (.arr p e es)) : p + 2 ≤ e ∧ e ≤ pj.tape.size := by
  simp only [Ok] at hok
  obtain ⟨hpe, _, ⟨c, hc, _⟩, _⟩ := hok
  have := WalkLayout.word_lt hc
  omega

theorem obj_end_le {pj : PJ} {p e : Nat} {ms : LMems} (hok : Ok pj (.obj p e ms)) : p + 2 ≤ e ∧ e ≤ pj.tape.size := by
  simp only [Ok] at hok
  obtain ⟨hpe, _, ⟨c, hc, _⟩, _⟩ := hok
  have := WalkLayout.word_lt hc
  omega

theorem pj_eta {pj' : PJ} {tp : Array UInt64} {pj : PJ} (h1 : tp = pj'.tape) (h2 : pj'.strings = pj.strings)
    (h3 : pj'.msg = pj.msg) : pj' = { tape := tp, strings := pj.strings, msg := pj.msg } := by
  cases pj'; simp only at h1 h2 h3; subst h1 h2 h3; rfl

open SJ.Properties.C14 SJ.GoDelete SJ.GoObject SJ.DeleteDoc SJ.WalkLayout in
/-- **`Array.DeleteElems`, source level.**  `doc` is a located document held by the tape, `[p, e)` one of its array nodes,
    `q k` the answer the callback will give to its `k`-th call (`N` answers queued, at least one per word of the array's
    interior, as the tie asks).  Running the regenerated `goArray_DeleteElems` on the array's view returns; the log shows that the
    callback was made once per element, in order, each time with an iterator standing on that element (`Stands`); exactly
    `lenVs es` answers were consumed; and the tape left holds `doc` with exactly that array replaced by the elements for which
    deletion was not requested, at their old positions — tape length unchanged (strings and message are not written by this
    function: they are not outputs of the run).
    Discharged from the property's hypotheses: the view lies inside the tape (`e ≤ len(tape)` because the end tag of the array is a
    word of the tape), the model fuel.  `BufOK` is not needed for arrays.  Remaining: interpreter fuel `2·e + 7`. -/
theorem C14_source_array_delete (pj : PJ) (doc : LVal) (hdoc : Ok pj doc) (p e : Nat) (es : LVals) (q : Nat → Bool)
    (hnode : HasNode p e doc) (hok : Ok pj (.arr p e es)) (hsmall : pj.tape.size < 2^56)
    (N : Nat) (hN : e - (p + 1) ≤ N) (fuel : Nat) (hf : 2 * e + 7 ≤ fuel) :
    ∃ s its, runFun goFuns goArray_DeleteElems fuel
        ⟨arrStore pj { lim := e, off := p + 1 } [("fn.results", .bools (answers N q)), ("fn.log", .ints [])], pj.tape⟩ =
          .ret s [] ∧
      Ok { tape := s.tape, strings := pj.strings, msg := pj.msg } (substV p (.arr p e (filterVs q 0 es)) doc) ∧
      s.tape.size = pj.tape.size ∧
      logOf s.env = encIters its ∧ its.size = lenVs es ∧ Stands pj e es its.toList ∧
      s.env.get "fn.results" = some (.bools ((answers N q).drop (lenVs es))) := by
  obtain ⟨hpe, hle⟩ := arr_end_le hok
  have hlen : lenVs es < e := by
    have h := hok; simp only [Ok] at h
    have := lenVs_le pj es (p + 1) (e - 1) h.2.2.2
    omega
  obtain ⟨pj', its, hr, hok', hs, hm, hz, hsize, hst⟩ :=
    C14_array_delete pj doc hdoc p e es q 0 tagEnd e hnode hok hsmall hlen
  have htie := arrDeleteElems_exact pj { lim := e, off := p + 1 } hle
    (arrStore pj { lim := e, off := p + 1 } [("fn.results", .bools (answers N q)), ("fn.log", .ints [])])
    (RecvIn_arrStore pj _ _)
    (by simp [logOf, arrStore, bufEnv, Env.get]) q N (by simp [arrStore, bufEnv, Env.get]) hN fuel e
    (by show e - (p + 1) + 1 ≤ e; omega) hf
  have hr' : View.arrDeleteElems pj q (View.iter { lim := e, off := p + 1 }) 0 #[] e = .ok (pj', its) := hr
  rw [hr'] at htie
  obtain ⟨s, ho, ht, hlog, hres⟩ := htie
  refine ⟨s, its, ho, ?_, by rw [ht, hz], hlog, hsize, hst, by rw [hres, hsize]⟩
  rw [← pj_eta ht hs hm]; exact hok'

open SJ.Properties.C14 SJ.GoDelete SJ.GoObject SJ.DeleteDoc SJ.WalkLayout in
/-- **`Object.DeleteElems(fn, onlyKeys)`, source level**, callback answers `q` (the `k`-th call answers `q k`).  On a tape
    holding the located document `doc` with the object node `[p, e)`: running the regenerated `goObject_DeleteElems` on the
    object's view returns `nil`; the log shows one callback per member whose key passes the filter `ks` (all members if `ks` is
    empty), in order, each with the key's length and an iterator standing on the member's value (`StandsM`); exactly that many
    answers were consumed; the tape left holds `doc` with the object replaced by the survivors (`filterMs`: the `n`-th visited
    member is dropped iff `q n`; unvisited members stay); tape length unchanged.
    Discharged: the view lies inside the tape, model fuel.  Remaining: `BufOK pj` — the two string buffers are shorter than 2^63
    bytes (Go `int`; the keys are compared through `stringByteAt`, which the model does over `Nat`): a located document does not
    bound the length of its buffers; interpreter fuel `2·e + 7`; `N ≥ e - (p+1)` queued answers. -/
theorem C14_source_object_delete (pj : PJ) (doc : LVal) (hdoc : Ok pj doc) (p e : Nat) (ms : LMems) (q : Nat → Bool)
    (ks : List Bytes) (hnode : HasNode p e doc) (hok : Ok pj (.obj p e ms)) (hsmall : pj.tape.size < 2^56)
    (hb : BufOK pj) (N : Nat) (hN : e - (p + 1) ≤ N) (fuel : Nat) (hf : 2 * e + 7 ≤ fuel) :
    ∃ s cbs, runFun goFuns goObject_DeleteElems fuel
        ⟨objStore pj { lim := e, off := p + 1 } ks
          [("fn==nil", .bool false), ("fn.results", .bools (answers N q)), ("fn.log", .ints [])], pj.tape⟩ =
          .ret s [.bool false] ∧
      Ok { tape := s.tape, strings := pj.strings, msg := pj.msg }
        (substV p (.obj p e (filterMs (fun k _ => q k) ks 0 ms)) doc) ∧
      s.tape.size = pj.tape.size ∧
      logOf s.env = encNIs cbs ∧ cbs.size = (visitedMs ks 0 ms).length ∧ StandsM pj e (visitedMs ks 0 ms) cbs.toList ∧
      s.env.get "fn.results" = some (.bools ((answers N q).drop (visitedMs ks 0 ms).length)) := by
  obtain ⟨hpe, hle⟩ := obj_end_le hok
  have hlen : lenMs ms < e := by
    have h := hok; simp only [Ok] at h
    have := lenMs_le pj ms (p + 1) (e - 1) h.2.2.2
    omega
  obtain ⟨pj', cbs, hr, hok', hs, hm, hz, hsize, hst⟩ :=
    C14_object_delete pj doc hdoc p e ms (fun k _ => q k) ks 0 tagEnd e hnode hok hsmall hlen
  have htie := (C14_delete_code_follows_source pj hb { lim := e, off := p + 1 } hle ks q N hN fuel e
    (by show e - (p + 1) + 1 ≤ e; omega) hf).2.2.2.2.2
  have hr' : View.deleteElems pj (fun k _ => q k) ks (View.iter { lim := e, off := p + 1 }) 0 #[] e = .ok (pj', cbs) := hr
  rw [hr'] at htie
  obtain ⟨s, ho, ht, hcb⟩ := htie
  simp only [CbInv, Bool.false_eq_true, if_false] at hcb
  refine ⟨s, cbs, ho, ?_, by rw [ht, hz], hcb.1, hsize, hst, by rw [hcb.2, hsize]⟩
  rw [← pj_eta ht hs hm]; exact hok'

open SJ.DeleteDoc in
/-- `filterMs` only consults the predicate at the (index, key) pairs of the visited members -/
theorem filterMs_congr (pred pred' : Nat → Bytes → Bool) (ks : List Bytes) : ∀ (ms : LMems) (n : Nat),
    (∀ j k v, (visitedMs ks n ms)[j]? = some (k, v) → pred (n + j) k.toArray = pred' (n + j) k.toArray) →
    filterMs pred ks n ms = filterMs pred' ks n ms
  | .nil, _, _ => rfl
  | .cons pk k v ms, n, h => by
    simp only [filterMs]
    by_cases hc : ks.length > 0 ∧ (!ks.contains k.toArray) = true
    · rw [if_pos hc, if_pos hc, filterMs_congr pred pred' ks ms n (fun j k' v' hj => h j k' v' (by
        simp only [visitedMs, if_pos hc]; exact hj))]
    · rw [if_neg hc, if_neg hc]
      have h0 := h 0 k v (by simp only [visitedMs, if_neg hc]; rfl)
      simp only [Nat.add_zero] at h0
      rw [h0, filterMs_congr pred pred' ks ms (n + 1) (fun j k' v' hj => by
        have := h (j + 1) k' v' (by simp only [visitedMs, if_neg hc]; simpa using hj)
        rw [show n + 1 + j = n + (j + 1) by omega]; exact this)]

open SJ.DeleteDoc in
/-- the answers a key-dependent callback `pred` gives on the object `ms` under the key filter `ks`: its `n`-th call is made
    for the `n`-th visited member -/
def cbAnswers (pred : Nat → Bytes → Bool) (ks : List Bytes) (ms : LMems) (n : Nat) : Bool :=
  match (visitedMs ks 0 ms)[n]? with
  | some (k, _) => pred n k.toArray
  | none => false

open SJ.Properties.C14 SJ.GoDelete SJ.GoObject SJ.DeleteDoc SJ.WalkLayout in
/-- **`Object.DeleteElems`, source level, for a callback that looks at the key** — the full generality of `C14_object_delete`:
    `pred n key` is what the callback answers when called the `n`-th time, with `key`.  The callback of the interpreter answers
    from a queue; the queue that `pred` produces on this object is `cbAnswers pred ks ms`, and with it the run deletes exactly
    the members `filterMs pred` deletes. -/
theorem C14_source_object_delete_pred (pj : PJ) (doc : LVal) (hdoc : Ok pj doc) (p e : Nat) (ms : LMems)
    (pred : Nat → Bytes → Bool) (ks : List Bytes) (hnode : HasNode p e doc) (hok : Ok pj (.obj p e ms))
    (hsmall : pj.tape.size < 2^56) (hb : BufOK pj) (N : Nat) (hN : e - (p + 1) ≤ N) (fuel : Nat) (hf : 2 * e + 7 ≤ fuel) :
    ∃ s cbs, runFun goFuns goObject_DeleteElems fuel
        ⟨objStore pj { lim := e, off := p + 1 } ks
          [("fn==nil", .bool false), ("fn.results", .bools (answers N (cbAnswers pred ks ms))), ("fn.log", .ints [])],
          pj.tape⟩ = .ret s [.bool false] ∧
      Ok { tape := s.tape, strings := pj.strings, msg := pj.msg } (substV p (.obj p e (filterMs pred ks 0 ms)) doc) ∧
      s.tape.size = pj.tape.size ∧
      logOf s.env = encNIs cbs ∧ cbs.size = (visitedMs ks 0 ms).length ∧ StandsM pj e (visitedMs ks 0 ms) cbs.toList ∧
      s.env.get "fn.results" =
        some (.bools ((answers N (cbAnswers pred ks ms)).drop (visitedMs ks 0 ms).length)) := by
  have hf' : filterMs pred ks 0 ms = filterMs (fun k _ => cbAnswers pred ks ms k) ks 0 ms :=
    filterMs_congr _ _ ks ms 0 (fun j k v hj => by
      simp only [Nat.zero_add, cbAnswers, hj])
  rw [hf']
  exact C14_source_object_delete pj doc hdoc p e ms (cbAnswers pred ks ms) ks hnode hok hsmall hb N hN fuel hf

open SJ.Properties.C14 SJ.GoDelete SJ.GoObject SJ.DeleteDoc SJ.WalkLayout in
/-- **`Object.DeleteElems(nil, onlyKeys)`, source level**: "all elements in onlyKeys will be deleted; if both are nil all
    elements are deleted" — the run returns `nil`, makes no callback (the log stays empty), and leaves a tape on which the
    object is exactly `nilFnResult ks ms`, the document is `doc` with that object in place, and every word outside the object's
    interior is what it was (`AgreeOut`).  `BufOK` as in `C14_source_object_delete`. -/
theorem C14_source_object_delete_nil_fn (pj : PJ) (doc : LVal) (hdoc : Ok pj doc) (p e : Nat) (ms : LMems)
    (ks : List Bytes) (hnode : HasNode p e doc) (hok : Ok pj (.obj p e ms)) (hsmall : pj.tape.size < 2^56)
    (hb : BufOK pj) (fuel : Nat) (hf : 2 * e + 7 ≤ fuel) :
    ∃ s, runFun goFuns goObject_DeleteElems fuel
        ⟨objStore pj { lim := e, off := p + 1 } ks [("fn==nil", .bool true)], pj.tape⟩ = .ret s [.bool false] ∧
      Ok { tape := s.tape, strings := pj.strings, msg := pj.msg } (.obj p e (nilFnResult ks ms)) ∧
      Ok { tape := s.tape, strings := pj.strings, msg := pj.msg } (substV p (.obj p e (nilFnResult ks ms)) doc) ∧
      AgreeOut pj { tape := s.tape, strings := pj.strings, msg := pj.msg } (p + 1) (e - 1) ∧
      s.tape.size = pj.tape.size ∧ logOf s.env = [] := by
  obtain ⟨hpe, hle⟩ := obj_end_le hok
  have hlen : lenMs ms < e := by
    have h := hok; simp only [Ok] at h
    have := lenMs_le pj ms (p + 1) (e - 1) h.2.2.2
    omega
  obtain ⟨pj', cbs, hr, hok1, hok2, hA, hs, hm, hz, _, _⟩ :=
    C14_object_delete_nil_fn pj doc hdoc p e ms ks 0 tagEnd e hnode hok hsmall hlen
  have htie := (C14_delete_code_follows_source pj hb { lim := e, off := p + 1 } hle ks (fun _ => false) (e - (p + 1))
    (Nat.le_refl _) fuel e (by show e - (p + 1) + 1 ≤ e; omega) hf).2.2.2.2.1
  have hr' : View.deleteElems pj (fun _ _ => true) ks (View.iter { lim := e, off := p + 1 }) 0 #[] e = .ok (pj', cbs) := hr
  rw [hr'] at htie
  obtain ⟨s, ho, ht, hcb⟩ := htie
  simp only [CbInv, if_true] at hcb
  have he := pj_eta ht hs hm
  refine ⟨s, ho, ?_, ?_, ?_, by rw [ht, hz], hcb⟩
  · rw [← he]; exact hok1
  · rw [← he]; exact hok2
  · rw [← he]; exact hA

/-- the `off` register of the starting iterator is dead in the NOP-skipping loops: the offset is their explicit argument,
    and every exit overwrites the field -/
theorem advanceLoop_off (pj : PJ) : ∀ (n : Nat) (i : Iter) (off y : Nat), i.lim - off = n →
    Iter.advanceLoop pj { i with off := y } off = Iter.advanceLoop pj i off := by
  intro n
  induction n using Nat.strongRecOn with
  | _ n ih =>
    intro i off y hn
    rw [Iter.advanceLoop.eq_1 pj i off, Iter.advanceLoop.eq_1 pj { i with off := y } off]
    by_cases h : off ≥ i.lim
    · simp only [h, dite_true]
    · simp only [h, dite_false]
      congr 1
      funext v
      split
      · split
        · rfl
        · exact ih _ (by subst hn; show i.lim - _ < _; omega) { i with cur := payloadOf v, t := tagOf v } _ y rfl
      · rfl

theorem advanceIntoLoop_off (pj : PJ) : ∀ (n : Nat) (i : Iter) (off y : Nat), i.lim - off = n →
    Iter.advanceIntoLoop pj { i with off := y } off = Iter.advanceIntoLoop pj i off := by
  intro n
  induction n using Nat.strongRecOn with
  | _ n ih =>
    intro i off y hn
    rw [Iter.advanceIntoLoop.eq_1 pj i off, Iter.advanceIntoLoop.eq_1 pj { i with off := y } off]
    by_cases h : off ≥ i.lim
    · simp only [h, dite_true]
    · simp only [h, dite_false]
      congr 1
      funext v
      split
      · split
        · rfl
        · rename_i hc
          have := u64_ne_zero_toNat hc
          exact ih _ (by subst hn; show i.lim - _ < _; omega) { i with cur := payloadOf v, t := tagOf v } _ y rfl
      · rfl

theorem advanceIterLoop_off (pj : PJ) : ∀ (n : Nat) (i : Iter) (off y : Nat), i.lim - off = n →
    Iter.advanceIterLoop pj { i with off := y } off = Iter.advanceIterLoop pj i off := by
  intro n
  induction n using Nat.strongRecOn with
  | _ n ih =>
    intro i off y hn
    rw [Iter.advanceIterLoop.eq_1 pj i off, Iter.advanceIterLoop.eq_1 pj { i with off := y } off]
    by_cases h : off = i.lim
    · simp only [h, if_true]
    · simp only [h, if_false]
      by_cases h' : off > i.lim
      · simp only [h', dite_true]
      · simp only [h', dite_false]
        congr 1
        funext v
        split
        · split
          · rfl
          · exact ih _ (by subst hn; show i.lim - _ < _; omega) { i with cur := payloadOf v, t := tagOf v } _ y rfl
        · rfl

theorem bump_eq (i : Iter) (n : Nat) (h : (i.off : Int) + i.addNext = n) : i.bump = .ok n := by
  simp only [Iter.bump, h]
  simp


/-- two outcomes are the same for the caller: both panic, or both return the same values, leave the same tape and the same
    iterators under the listed prefixes (the receiver `i`, the destination `dst`) -/
def SameOut (recv : List String) (o o' : Out) : Prop :=
  (o = .panic ∧ o' = .panic) ∨
  ∃ s s' vs, o = .ret s vs ∧ o' = .ret s' vs ∧ s.tape = s'.tape ∧ ∀ p ∈ recv, iterAt s.env p = iterAt s'.env p

/-- … or, for `AdvanceIter`, both return a non-nil error (the tie leaves the `Type` returned beside an error unspecified) -/
def SameIterOut (o o' : Out) : Prop :=
  SameOut ["i", "dst"] o o' ∨ ∃ s s' v v', o = .ret s [v, .bool true] ∧ o' = .ret s' [v', .bool true]

theorem sameOut_of_simT {tape : Array UInt64} {o o' : Out} {r : Res (Iter × UInt8)} (h : SimT tape o r)
    (h' : SimT tape o' r) : SameOut ["i"] o o' := by
  cases r with
  | ok x =>
    obtain ⟨i', t⟩ := x
    obtain ⟨s, ho, ht, hi⟩ := h
    obtain ⟨s', ho', ht', hi'⟩ := h'
    refine Or.inr ⟨s, s', _, ho, ho', by rw [ht, ht'], fun p hp => ?_⟩
    simp only [List.mem_singleton] at hp; subst hp; rw [hi, hi']
  | panic => exact Or.inl ⟨h, h'⟩
  | error e => exact h.elim
  | diverge => exact h.elim

theorem sameOut_of_simV {tape : Array UInt64} {i j : Iter} {o o' : Out} {r : Res UInt8} (h : SimV tape i o r)
    (h' : SimV tape j o' r) : SameOut [] o o' := by
  cases r with
  | ok t =>
    obtain ⟨s, ho, ht, hi⟩ := h
    obtain ⟨s', ho', ht', hi'⟩ := h'
    exact Or.inr ⟨s, s', _, ho, ho', by rw [ht, ht'], fun p hp => by simp at hp⟩
  | panic => exact Or.inl ⟨h, h'⟩
  | error e => exact h.elim
  | diverge => exact h.elim

theorem sameIterOut_of_simIter {tape : Array UInt64} {o o' : Out} {r : Res (Iter × Iter × UInt8)} (h : SimIter tape o r)
    (h' : SimIter tape o' r) : SameIterOut o o' := by
  cases r with
  | ok x =>
    obtain ⟨i', d', t⟩ := x
    obtain ⟨s, ho, ht, hi, hd⟩ := h
    obtain ⟨s', ho', ht', hi', hd'⟩ := h'
    refine Or.inl (Or.inr ⟨s, s', _, ho, ho', by rw [ht, ht'], fun p hp => ?_⟩)
    simp only [List.mem_cons, List.not_mem_nil, or_false] at hp
    rcases hp with rfl | rfl
    · rw [hi, hi']
    · rw [hd, hd']
  | panic => exact Or.inl (Or.inl ⟨h, h'⟩)
  | error e =>
    obtain ⟨s, v, ho⟩ := h
    obtain ⟨s', v', ho'⟩ := h'
    exact Or.inr ⟨s, s', v, v', ho, ho'⟩
  | diverge => exact h.elim

open SJ.Properties.C14 in
/-- **No reader misreads a gap, source level.**  `[a, b)` is a gap of the tape (NOP words whose skips stay inside) ending inside
    the view of `i`, and `i` is about to read at `a` (`off + addNext = a`).  Then running the regenerated `Advance`,
    `AdvanceInto`, `AdvanceIter`, `PeekNextTag` from `i` gives the caller exactly what running them from the same iterator
    placed at the END of the gap gives (`j`: the same fields, `off` moved by `b - a`, and the payload register `cur` holding the
    skip count `c` of the last NOP word of the gap — Go's loops overwrite `i.cur` on every iteration; `c = i.cur` for the empty
    gap): the same returned values, the same tape, the same receiver (and destination) afterwards; a panic iff a panic.
    Discharged: nothing is asked beyond the tie's own premises (`hl`: the view is a prefix of the tape; fuel `lim + 8`). -/
theorem C14_source_gap_skipped (pj : PJ) (i dst : Iter) {a b : Nat} (g : Gap pj a b) (hb : b ≤ i.lim)
    (hl : i.lim ≤ pj.tape.size) (ha : (i.off : Int) + i.addNext = a) (fuel : Nat) (hf : fuelFor i ≤ fuel) :
    ∃ c, (a = b → c = i.cur) ∧
      SameOut ["i"] (runFun goFuns goIter_Advance fuel { env := envOf "i" i, tape := pj.tape })
        (runFun goFuns goIter_Advance fuel
          { env := envOf "i" { i with off := i.off + (b - a), cur := c }, tape := pj.tape }) ∧
      SameOut ["i"] (runFun goFuns goIter_AdvanceInto fuel { env := envOf "i" i, tape := pj.tape })
        (runFun goFuns goIter_AdvanceInto fuel
          { env := envOf "i" { i with off := i.off + (b - a), cur := c }, tape := pj.tape }) ∧
      SameIterOut (runFun goFuns goIter_AdvanceIter fuel
          { env := envOf "i" i ++ envOf "dst" dst ++ [("i!=dst", .bool true)], tape := pj.tape })
        (runFun goFuns goIter_AdvanceIter fuel
          { env := envOf "i" { i with off := i.off + (b - a), cur := c } ++ envOf "dst" dst ++ [("i!=dst", .bool true)],
            tape := pj.tape }) ∧
      SameOut [] (runFun goFuns goIter_PeekNextTag fuel { env := envOf "i" i, tape := pj.tape })
        (runFun goFuns goIter_PeekNextTag fuel
          { env := envOf "i" { i with off := i.off + (b - a), cur := c }, tape := pj.tape }) := by
  obtain ⟨c, hc, e1, e2, e3, e4⟩ := C14_gap_skipped pj i g hb
  have hab := g.1
  have hbi : i.bump = .ok a := bump_eq i a ha
  have hbj : ({ i with off := i.off + (b - a), cur := c } : Iter).bump = .ok b :=
    bump_eq _ b (by show ((i.off + (b - a) : Nat) : Int) + i.addNext = b; omega)
  have m1 : Iter.advance pj { i with off := i.off + (b - a), cur := c } = Iter.advance pj i := by
    simp only [Iter.advance, hbi, hbj, Res.bind_ok]
    rw [e1, ← advanceLoop_off pj _ { i with cur := c } b (i.off + (b - a)) rfl]
  have m2 : Iter.advanceInto pj { i with off := i.off + (b - a), cur := c } = Iter.advanceInto pj i := by
    simp only [Iter.advanceInto, hbi, hbj, Res.bind_ok]
    rw [e2, ← advanceIntoLoop_off pj _ { i with cur := c } b (i.off + (b - a)) rfl]
  have m3 : Iter.advanceIter pj { i with off := i.off + (b - a), cur := c } dst = Iter.advanceIter pj i dst := by
    simp only [Iter.advanceIter, hbi, hbj, Res.bind_ok]
    rw [e3, ← advanceIterLoop_off pj _ { i with cur := c } b (i.off + (b - a)) rfl]
  have m4 : Iter.peekNextTag pj { i with off := i.off + (b - a), cur := c } = Iter.peekNextTag pj i := by
    simp only [Iter.peekNextTag, hbi, hbj, Res.bind_ok]
    exact e4.symm
  obtain ⟨t1, t2, t3, t4, _⟩ := C14_gap_code_follows_source pj i dst hl fuel hf
  obtain ⟨u1, u2, u3, u4, _⟩ := C14_gap_code_follows_source pj { i with off := i.off + (b - a), cur := c } dst hl fuel hf
  rw [m4] at u1; rw [m1] at u2; rw [m2] at u3; rw [m3] at u4
  exact ⟨c, hc, sameOut_of_simT t2 u2, sameOut_of_simT t3 u3, sameIterOut_of_simIter t4 u4, sameOut_of_simV t1 u1⟩

/-! ## C17 / C11 / C19 -/

/-- the format's own size limit bounds the two string buffers as soon as the tape is not empty -/
theorem bufOK_of_bound {pj : PJ} (h0 : 0 < pj.tape.size) (hb : pj.tape.size * max pj.msg.size pj.strings.size < 2^55) :
    GoObject.BufOK pj := by
  have h1 : max pj.msg.size pj.strings.size ≤ pj.tape.size * max pj.msg.size pj.strings.size :=
    Nat.le_mul_of_pos_left _ h0
  have h2 : pj.msg.size ≤ max pj.msg.size pj.strings.size := Nat.le_max_left _ _
  have h3 : pj.strings.size ≤ max pj.msg.size pj.strings.size := Nat.le_max_right _ _
  constructor <;> omega

open SJ.Properties.C17 SJ.Properties.C19 SJ.Properties.C11 SJ.GoSerialize SJ.GoObject SJ.GoRebuild in
/-- **Serialize → Deserialize round trip, source level**, at the level where the two translated blocks meet: the tag stream
    and the value stream.  For every tape that denotes a document `d` (C17's format, gaps included), within the format's size
    limits, every hash function (`runtime.memhash` answers), every `s.tagsBuf` of `tagBufSize` bytes and any `s.valuesBuf`:
    running the regenerated tape loop of `Serialize` (`goSerialize_loop`) falls off its end with the tape untouched, having
    handed byte streams `tags`, `values` and the deduplicated string buffer `msg` to the three block writers; and running the
    regenerated reconstruction loop of `Deserialize` (`goDeserialize_rebuild`) on exactly those two streams, over ANY prior
    destination tape of the declared size, returns `dst, nil` with a tape that — read with `msg` as its `Message` and no string
    buffer, as `Deserialize` sets them — denotes the same `d`, has the same length, and in which every NOP skip count is
    exactly the distance to the end of its run (`C17_deser_nops_exact`).
    Route: loop = `serLoop` (tie), `C11_roundtrip` / `C17_deser_nops_exact` on the model, `rebuild` = source (tie).
    Discharged: the rebuild tie's `init.size < 2^56` (from `init.size = len(tape) < 2^56`).  Remaining, each a premise of the
    serialize tie that the round-trip premises do not imply: `BufOK pj` (buffers shorter than 2^63; implied by `hb` when the
    tape is not empty, `bufOK_of_bound`, but `WF` allows the empty tape) and `NoMaxLenString pj` (no string of length
    ≡ 2^32 − 1 mod 2^32: there Go's `indexString` panics and the model does not — a recorded difference).  Both follow from
    `StrShort pj` (buffers shorter than 4 GiB − 1).  Fuel: `len(tape) + 2` and `len(tape) + 8`. -/
theorem C17_source_roundtrip (pj : PJ) (d : List JVal) (hash : Bytes → Nat) (hwf : WF pj d) (hsz : pj.tape.size < 2^56)
    (hb : pj.tape.size * max pj.msg.size pj.strings.size < 2^55) (hbuf : BufOK pj) (hnm : NoMaxLenString pj)
    (tb vb : Bytes) (htb : tb.size = 65536) (F : Nat) (hF : pj.tape.size + 2 ≤ F) :
    ∃ s tags values msg, runFun goFuns goSerialize_loop F (loopStore pj hash tb vb) = .ret s [] ∧ s.tape = pj.tape ∧
      s.env.get "tagWr.out" = some (.bytes tags) ∧ s.env.get "valWr.out" = some (.bytes values) ∧
      s.env.get "s.stringWr.out" = some (.bytes msg) ∧
      ∀ (init : Array UInt64), init.size = pj.tape.size → ∀ (fuel : Nat), init.size + 8 ≤ fuel →
        ∃ s', runFun goFuns goDeserialize_rebuild fuel (rebStore init tags values) = .ret s' [.bool true, .bool false] ∧
          WF { tape := s'.tape, strings := #[], msg := msg } d ∧ s'.tape.size = pj.tape.size ∧
          nopsExact { tape := s'.tape, strings := #[], msg := msg } = none := by
  obtain ⟨sec, hser, htsz, hrt⟩ := C11_roundtrip pj d hash hwf hsz hb
  have htie := C17_serialize_follows_source.1 pj hash tb vb F hbuf hnm htb hF
  have hser' := hser
  unfold serialize at hser'
  cases hL : serLoop pj hash {} 0 (pj.tape.size + 1) with
  | ok st =>
    rw [hL] at hser' htie
    simp only [Res.bind_ok, Res.ok.injEq] at hser'
    obtain ⟨s, ho, ht, hfin⟩ := htie
    refine ⟨s, st.tags, st.values, st.stringBuf, ho, ht, hfin.tags, hfin.values, hfin.swr, fun init hi fuel hf => ?_⟩
    obtain ⟨pj', hd, hwf', hsz', hstr', hmsg'⟩ := hrt init (by rw [htsz]; exact hi)
    have hnop := C17_deser_nops_exact pj d hash hwf hsz hb sec hser init (by rw [htsz]; exact hi) pj' hd
    have hreb := C19_rebuild_follows_source init st.tags st.values (by omega) fuel hf
    subst hser'
    unfold deserializeSections at hd
    simp only at hd
    cases hR : rebuild init st.tags st.values with
    | ok tp =>
      rw [hR] at hd hreb
      simp only [Res.bind_ok, Res.ok.injEq] at hd
      obtain ⟨s', ho', ht'⟩ := hreb
      subst hd
      refine ⟨s', ho', ?_, by rw [ht']; exact hsz', ?_⟩
      · rw [ht']; exact hwf'
      · rw [ht']; exact hnop
    | error e => rw [hR] at hd; cases hd
    | panic => rw [hR] at hd; cases hd
    | diverge => rw [hR] at hd; cases hd
  | error e => rw [hL] at hser'; cases hser'
  | panic => rw [hL] at hser'; cases hser'
  | diverge => rw [hL] at hser'; cases hser'

/-! ## C02 -/

theorem forall2_length {α β : Type} {R : α → β → Prop} {l₁ : List α} {l₂ : List β} (h : WalkLayout.Forall2 R l₁ l₂) :
    l₂.length = l₁.length := by
  induction h with
  | nil => rfl
  | cons _ _ ih => simp only [List.length_cons, ih]

open SJ.Properties.C02 SJ.GoPJForEach in
/-- **`ParsedJson.ForEach`, source level.**  If the tape holds the located root values `vs` (gaps allowed), then running the
    regenerated `goParsedJson_ForEach` with a callback that always answers `nil` (`N ≥ len(tape)` answers queued) returns `nil`,
    leaves the tape alone, and the log of what the callback was handed is the encoding of exactly one iterator per root value,
    in order, each standing on its value (`RootIter`: the value is located there, the iterator is on its first word with the
    word's tag and payload, its view contains the value and lies inside the tape); exactly `vs.length` answers were consumed.
    Nothing is asked beyond the tie's premises (answers and fuel `2·len(tape) + 11`). -/
theorem C02_source_forEach (pj : PJ) (vs : List LVal) (h : WalkLayout.OkRoots pj vs 0) (N F : Nat)
    (hN : pj.tape.size ≤ N) (hF : 2 * pj.tape.size + 11 ≤ F) :
    ∃ s its, runFun goFuns goParsedJson_ForEach F ⟨feStore pj (List.replicate N false), pj.tape⟩ = .ret s [.bool false] ∧
      s.tape = pj.tape ∧ GoPJForEach.logOf s.env = GoPJForEach.encIters its ∧
      WalkLayout.Forall2 (WalkLayout.RootIter pj) vs its ∧
      s.env.get "fn.results" = some (.bools (List.replicate (N - vs.length) false)) := by
  obtain ⟨its, hits, hall⟩ := WalkLayout.pjForEach_roots pj (fuelOf pj) vs (Iter.ofPJ pj) #[] 0 h rfl (Int.le_refl _) rfl
    (by unfold fuelOf Iter.ofPJ; simp only; omega)
  have htie := C02_forEach_follows_source pj N F hN hF
  rw [hits] at htie
  obtain ⟨s, ho, ht, hlog, hres⟩ := htie
  refine ⟨s, its, ho, ht, ?_, hall, ?_⟩
  · rw [hlog]; simp
  · rw [hres]; simp [forall2_length hall]

open SJ.Properties.C02 SJ.GoPJForEach SJ.ParseDefs in
/-- **`ForEach` on the tape `Parse` / `ParseND` returned, source level.**  For every accepted input (shorter than 2^50 bytes):
    the tape holds a located, tight document `lvs` — the one the reference decoder reads off the tape — and running the
    regenerated `ForEach` on that tape hands the callback exactly one iterator per root value of `lvs`, in order, each standing
    on its value. -/
theorem C02_source_forEach_parse (cfg : Cfg) (nd : Bool) (input : Bytes) (pj : PJ) (hsz : SizeOK (trimSpace input))
    (h : parseAny cfg nd input = .ok pj) (N F : Nat) (hN : pj.tape.size ≤ N) (hF : 2 * pj.tape.size + 11 ≤ F) :
    ∃ lvs : List LVal, WalkLayout.OkRoots pj lvs 0 ∧ (∀ v ∈ lvs, WalkLayout.Tight v) ∧
      decodeTapeD pj = some ((lvs.map erase).map DecodeSound.toOVal) ∧
      ∃ s its, runFun goFuns goParsedJson_ForEach F ⟨feStore pj (List.replicate N false), pj.tape⟩ = .ret s [.bool false] ∧
        s.tape = pj.tape ∧ GoPJForEach.logOf s.env = GoPJForEach.encIters its ∧
        WalkLayout.Forall2 (WalkLayout.RootIter pj) lvs its ∧
        s.env.get "fn.results" = some (.bools (List.replicate (N - lvs.length) false)) := by
  obtain ⟨lvs, h1, h2, ds, _, hd, hds⟩ := C02_parse_readback cfg nd input pj hsz h
  exact ⟨lvs, h1, h2, by rw [hd, hds], C02_source_forEach pj lvs h1 N F hN hF⟩

open SJ.Properties.C02 SJ.GoPJForEach SJ.ParseDefs SJ.TrimEdge in
/-- **Accepted text → what `ForEach` hands out, source level.**  If the specification accepts the text as the document `v`,
    `Parse` succeeds and running the regenerated `ForEach` on its tape makes exactly one callback, with an iterator standing on
    a located value `lv` whose content is exactly `ofSpec v`.  (Through `ParseIff.parse_accepts`, the theorem behind
    `C02_parse_value`, which also names the located value.) -/
theorem C02_source_forEach_value (cfg : Cfg) (input : Bytes) (he : EdgeOK input) (hsz : SizeOK (trimSpace input))
    (v : Spec.JVal) (h : Spec.containerText (jsonTrim input).toList = .accept v) :
    ∃ pj lv, parse cfg input = .ok pj ∧ erase lv = ofSpec v ∧ WF pj [ofSpec v] ∧
      ∀ (N F : Nat), pj.tape.size ≤ N → 2 * pj.tape.size + 11 ≤ F →
        ∃ s it, runFun goFuns goParsedJson_ForEach F ⟨feStore pj (List.replicate N false), pj.tape⟩ = .ret s [.bool false] ∧
          s.tape = pj.tape ∧ GoPJForEach.logOf s.env = GoPJForEach.encIter it ∧ WalkLayout.RootIter pj lv it ∧
          s.env.get "fn.results" = some (.bools (List.replicate (N - 1) false)) := by
  obtain ⟨pj, lv, hp, hroots, _, her, _, hwf, _, _⟩ := SJ.ParseIff.parse_accepts cfg input he hsz v h
  refine ⟨pj, lv, hp, her, hwf, fun N F hN hF => ?_⟩
  obtain ⟨s, its, ho, ht, hlog, hall, hres⟩ := C02_source_forEach pj [lv] hroots N F hN hF
  cases hall with
  | cons hab htl =>
    cases htl
    exact ⟨s, _, ho, ht, by rw [hlog]; simp [GoPJForEach.encIters], hab, hres⟩

open SJ.Properties.C02 in
/-- **Arrays element by element, source level.**  `i` is about to read at `lo` (`off + addNext = lo`), the located elements
    `v :: vs` lie in `[lo, hi)` (gaps allowed before, between and after them) inside the view.  Running the regenerated
    `goIter_Advance` returns the type of `v` and leaves the tape alone and the receiver standing on `v` — same view, on `v`'s first
    word with its tag and payload, positioned (`off + addNext = v.fin`) for the rest `vs`.
    Remaining from the tie: `hl` (the view is a prefix of the tape) and fuel `lim + 8`. -/
theorem C02_source_advance_elem (pj : PJ) (i : Iter) (v : LVal) (vs : LVals) (lo hi : Nat)
    (h : OkElems pj (.cons v vs) lo hi) (hhi : hi ≤ i.lim) (ha : 0 ≤ i.addNext) (hlo : (i.off : Int) + i.addNext = lo)
    (hl : i.lim ≤ pj.tape.size) (fuel : Nat) (hf : fuelFor i ≤ fuel) :
    ∃ s i', runFun goFuns goIter_Advance fuel { env := envOf "i" i, tape := pj.tape } =
        .ret s [.u8 (tagToType (WalkLayout.tagOfL v))] ∧ s.tape = pj.tape ∧ iterAt s.env "i" = some i' ∧
      i'.lim = i.lim ∧ i'.off = v.pos + 1 ∧
      (∃ w, word pj v.pos = some w ∧ i'.t = tagOf w ∧ i'.cur = payloadOf w ∧ tagOf w = WalkLayout.tagOfL v) ∧
      0 ≤ i'.addNext ∧ (i'.off : Int) + i'.addNext = v.fin ∧ OkElems pj vs v.fin hi := by
  obtain ⟨i', hadv, rest⟩ := C02_advance_elem pj i v vs lo hi h hhi ha hlo
  have htie := (C02_cursor_follows_source pj i i hl fuel hf).2.2.1
  rw [hadv] at htie
  obtain ⟨s, ho, ht, hi⟩ := htie
  exact ⟨s, i', ho, ht, hi, rest⟩

end SJ.SourceLevelB
