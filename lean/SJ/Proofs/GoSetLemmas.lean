import SJ.Proofs.GoIterBase
import SJ.Model.Access
set_option linter.unusedVariables false
set_option linter.unusedSimpArgs false
/-
GoSetLemmas — vocabulary and loop lemmas for `GoSet.lean` (the in-place edits `Iter.Set*`).

* `SimSet` relates an outcome of the interpreter on a regenerated `Set*` syntax tree to a result of the hand model.
* Go bounds-checks `i.tape.Tape[k]` against the length of the iterator's view (`lim`); so does the hand model
  (`Iter.wrV`, used by `set2`, `setBool`, `setNull`, `nopFillV`), which keeps the check against the underlying array in
  addition.  With `lim ≤ tape.size` (the view is a prefix of the tape) the two agree on every index.
* arithmetic of the conversions (`uint64(int)`, `uint64(len(..))`, `i.cur - uint64(j)`).
* the model side of the writes (`set2_ok`, `set2_panic`, `wrV_ok`, `wrV_panic`, `nopFillV_*`).
* the `for j := i.off; j < int(i.cur); j++` loop of `SetNull` run by the interpreter (`nopLoop_ok`, `nopLoop_panic`).
-/
namespace SJ.GoSet
open SJ SJ.GoSem SJ.Generated SJ.GoIter

/-! ## vocabulary -/

/-- outcome of the interpreter on a `Set*` function vs result of the model, started from `pj`, `i`:
    * model `.ok (pj', i')`: the function returns `nil`; tape, string buffer and receiver are those of the model; the
      message is untouched;
    * model `.error _`: the function returns a non-nil error and has changed nothing (tape, string buffer, receiver);
    * model `.panic`: the interpreter panics (index out of range);
    * the interpreter is never `stuck` and never out of fuel. -/
def SimSet (pj : PJ) (i : Iter) (o : Out) (r : Res (PJ × Iter)) : Prop :=
  match r with
  | .ok (pj', i') => ∃ s, o = .ret s [.bool false] ∧ s.tape = pj'.tape ∧
      s.env.get "Strings.B" = some (.bytes pj'.strings) ∧ iterAt s.env "i" = some i' ∧ pj'.msg = pj.msg
  | .error _ => ∃ s, o = .ret s [.bool true] ∧ s.tape = pj.tape ∧
      s.env.get "Strings.B" = some (.bytes pj.strings) ∧ iterAt s.env "i" = some i
  | .panic => o = .panic
  | .diverge => False

/-! ## conversions -/

/-- Go's `uint64(v)` of the interpreter is the model's `ofInt64`, for every `Int` (no range hypothesis) -/
theorem ofInt_eq_ofInt64 (v : Int) : UInt64.ofInt v = ofInt64 v := rfl

/-- `uint64(len(b))` is `UInt64.ofNat b.size`, for every length (no `< 2^63` hypothesis: both wrap alike) -/
theorem ofInt_natCast (n : Nat) : UInt64.ofInt (n : Int) = UInt64.ofNat n := by
  apply UInt64.toNat_inj.mp
  simp [UInt64.ofInt]
  omega

/-- `i.cur - uint64(j)` below `i.cur` -/
theorem sub_ofNat (c : UInt64) (j : Nat) (h : j ≤ c.toNat) : c - UInt64.ofNat j = UInt64.ofNat (c.toNat - j) := by
  apply UInt64.toNat_inj.mp
  have := c.toNat_lt
  simp [UInt64.toNat_sub]
  omega

/-! ## the model's writes -/

theorem wr_ok {α} (a : Array α) (k : Nat) (v : α) (h : k < a.size) : wr a k v = .ok (a.set k v h) := by simp [wr, h]

theorem wr_panic {α} (a : Array α) (k : Nat) (v : α) (h : a.size ≤ k) : wr a k v = .panic := by
  have : ¬ k < a.size := by omega
  simp [wr, this]

/-- a write inside the view (and the array) -/
theorem wrV_ok (lim : Nat) (a : Array UInt64) (k : Nat) (v : UInt64) (hv : k < lim) (h : k < a.size) :
    Iter.wrV lim a k v = .ok (a.set k v h) := by simp [Iter.wrV, wr, hv, h]

/-- a write beyond the view (or beyond the array) panics -/
theorem wrV_panic (lim : Nat) (a : Array UInt64) (k : Nat) (v : UInt64) (h : lim ≤ k ∨ a.size ≤ k) :
    Iter.wrV lim a k v = .panic := by
  by_cases hv : k < lim
  · have : ¬ k < a.size := by omega
    simp [Iter.wrV, wr, hv, this]
  · simp [Iter.wrV, hv]

theorem set2_ok (pj : PJ) (i : Iter) (w0 w1 : UInt64) (h0 : 1 ≤ i.off) (hv : i.off < i.lim) (h : i.off < pj.tape.size) :
    Iter.set2 pj i w0 w1 =
      .ok { pj with tape := (pj.tape.set (i.off - 1) w0 (by omega)).set i.off w1 (by simp; omega) } := by
  have h1 : i.off - 1 < pj.tape.size := by omega
  have hv1 : i.off - 1 < i.lim := by omega
  have h2 : ¬ i.off = 0 := by omega
  simp [Iter.set2, Iter.wrV, wr, h, h1, h2, hv, hv1]

/-- `set2` panics as soon as its second index is outside the view (as Go does: at `off - 1` if that is outside too,
    else at `off`, after the first write) -/
theorem set2_panic (pj : PJ) (i : Iter) (w0 w1 : UInt64) (h : i.off = 0 ∨ i.lim ≤ i.off ∨ pj.tape.size ≤ i.off) :
    Iter.set2 pj i w0 w1 = .panic := by
  by_cases h0 : i.off = 0
  · simp [Iter.set2, h0]
  · simp only [Iter.set2, h0, if_false]
    by_cases h1 : i.off - 1 < i.lim ∧ i.off - 1 < pj.tape.size
    · rw [wrV_ok _ _ _ _ h1.1 h1.2]
      simp only [Res.bind_ok]
      rw [wrV_panic _ _ _ _ (by simp only [Array.size_set]; omega)]
      rfl
    · rw [wrV_panic _ _ _ _ (by omega)]
      rfl

theorem nopFillV_lt (lim : Nat) (tape : Array UInt64) (lo hi : Nat) (h : lo < hi) :
    Iter.nopFillV lim tape lo hi =
      (Iter.wrV lim tape lo (mkWord tagNop (UInt64.ofNat (hi - lo))) >>= fun t => Iter.nopFillV lim t (lo + 1) hi) := by
  rw [Iter.nopFillV]; simp [h]

theorem nopFillV_ge (lim : Nat) (tape : Array UInt64) (lo hi : Nat) (h : ¬ lo < hi) :
    Iter.nopFillV lim tape lo hi = .ok tape := by
  rw [Iter.nopFillV]; simp [h]

/-- a non-empty fill that reaches beyond the view panics (at the first index outside, after writing the earlier ones) -/
theorem nopFillV_panic (lim : Nat) : ∀ (n lo hi : Nat) (tape : Array UInt64), hi - lo ≤ n → lo < hi → lim < hi →
    Iter.nopFillV lim tape lo hi = .panic := by
  intro n
  induction n with
  | zero => intro lo hi tape h1 h2; omega
  | succ n ih =>
    intro lo hi tape h1 h2 h3
    rw [nopFillV_lt _ _ _ _ h2]
    by_cases hs : lo < lim ∧ lo < tape.size
    · rw [wrV_ok _ _ _ _ hs.1 hs.2]
      simp only [Res.bind_ok]
      exact ih _ _ _ (by omega) (by omega) h3
    · rw [wrV_panic _ _ _ _ (by omega)]; rfl

/-! ## the NOP fill loop of `SetNull`, run by the interpreter -/

-- simp set for symbolic execution of a concrete syntax tree (as in `GoIterBase`)
attribute [local simp] exec exec1 execCases evalE evalEs Env.get Env.set isOneOf binop convert ofE copyFields bindParams
  iterFields runFun tblLookup

/-- the loop of `goIter_SetNull` after its init statement has run (checked against the generated tree in
    `GoSet.setNull_sim`, where the residual statement must match this one syntactically) -/
def nopLoop : Stmt :=
  .forc [] (.bin .lt (.v "j") (.conv .int (.v "i.cur"))) [.assign "j" (.bin .add (.v "j") (.int 1))] [
    .tapeSet "i" (.v "j")
      (.bin .or (.bin .shl (.conv .u64 (.u8 78 /- TagNop -/)) (.int 56)) (.bin .sub (.v "i.cur") (.conv .u64 (.v "j"))))]

/-- the store while the loop runs: the receiver, the string buffer, the loop variable -/
def envL (i : Iter) (strs : Bytes) (j : Int) : Env :=
  [("i.off", .int i.off), ("i.addNext", .int i.addNext), ("i.cur", .u64 i.cur), ("i.t", .u8 i.t), ("i.lim", .int i.lim),
   ("Strings.B", .bytes strs), ("j", .int j)]

/-- the end of the fill lies in the view: the loop is the model's `nopFillV`; `cur - j + 1` units of fuel suffice -/
theorem nopLoop_ok (i : Iter) (strs : Bytes) (hcur : i.cur.toNat < 2^63) :
    ∀ (n j : Nat) (tape : Array UInt64) (fuel : Nat), i.cur.toNat - j ≤ n → n + 1 ≤ fuel →
      (j < i.cur.toNat → i.cur.toNat ≤ i.lim) → i.lim ≤ tape.size →
      ∃ t', Iter.nopFillV i.lim tape j i.cur.toNat = .ok t' ∧
        exec1 goFuns fuel nopLoop { env := envL i strs j, tape := tape } =
          .normal { env := envL i strs (max j i.cur.toNat : Nat), tape := t' } := by
  intro n
  induction n with
  | zero =>
    intro j tape fuel h1 h2 h3 h4
    obtain ⟨f, rfl⟩ : ∃ f, fuel = f + 1 := ⟨fuel - 1, by omega⟩
    have hj : ¬ j < i.cur.toNat := by omega
    have hj' : ¬ ((j : Int) < i.cur.toNat) := by omega
    refine ⟨tape, nopFillV_ge _ _ _ _ hj, ?_⟩
    have hm : max j i.cur.toNat = j := by omega
    simp [nopLoop, envL, toInt64_small _ hcur, hj', hm]
  | succ n ih =>
    intro j tape fuel h1 h2 h3 h4
    obtain ⟨f, rfl⟩ : ∃ f, fuel = f + 1 := ⟨fuel - 1, by omega⟩
    by_cases hj : j < i.cur.toNat
    · have hj' : ((j : Int) < i.cur.toNat) := by omega
      have hs : j < tape.size := by have := h3 hj; omega
      have hb : j < i.lim ∧ j < tape.size := by have := h3 hj; omega
      obtain ⟨t', ht', he⟩ := ih (j + 1) (tape.set j (mkWord tagNop (UInt64.ofNat (i.cur.toNat - j))) hs) f
        (by omega) (by omega) (fun _ => h3 hj) (by simpa using h4)
      refine ⟨t', ?_, ?_⟩
      · rw [nopFillV_lt _ _ _ _ hj, wrV_ok _ _ _ _ hb.1 hs]; exact ht'
      · have hm : max (j + 1) i.cur.toNat = max j i.cur.toNat := by omega
        rw [hm] at he
        simp only [nopLoop, envL] at he
        simp [nopLoop, envL, toInt64_small _ hcur, hj', hb, ofInt_natCast, sub_ofNat _ _ (Nat.le_of_lt hj)]
        simp [mkWord, tagNop] at he
        exact he
    · have hj' : ¬ ((j : Int) < i.cur.toNat) := by omega
      refine ⟨tape, nopFillV_ge _ _ _ _ hj, ?_⟩
      have hm : max j i.cur.toNat = j := by omega
      simp [nopLoop, envL, toInt64_small _ hcur, hj', hm]

/-- the end of a non-empty fill lies beyond the view: the loop panics (at index `lim`, or at once) -/
theorem nopLoop_panic (i : Iter) (strs : Bytes) (hcur : i.cur.toNat < 2^63) :
    ∀ (n j : Nat) (tape : Array UInt64) (fuel : Nat), i.cur.toNat - j ≤ n → n + 1 ≤ fuel →
      j < i.cur.toNat → i.lim < i.cur.toNat → i.lim ≤ tape.size →
      exec1 goFuns fuel nopLoop { env := envL i strs j, tape := tape } = .panic := by
  intro n
  induction n with
  | zero => intro j tape fuel h1 h2 h3; omega
  | succ n ih =>
    intro j tape fuel h1 h2 h3 h4 h5
    obtain ⟨f, rfl⟩ : ∃ f, fuel = f + 1 := ⟨fuel - 1, by omega⟩
    have hj' : ((j : Int) < i.cur.toNat) := by omega
    by_cases hb : j < i.lim ∧ j < tape.size
    · have he := ih (j + 1) (tape.set j (mkWord tagNop (UInt64.ofNat (i.cur.toNat - j))) hb.2) f (by omega) (by omega)
        (by omega) h4 (by simpa using h5)
      simp only [nopLoop, envL] at he
      simp [nopLoop, envL, toInt64_small _ hcur, hj', hb, ofInt_natCast, sub_ofNat _ _ (Nat.le_of_lt h3)]
      simp [mkWord, tagNop] at he
      exact he
    · simp [nopLoop, envL, toInt64_small _ hcur, hj', hb]

end SJ.GoSet
