import SJ.Generated.GoSrc
import SJ.Model.Marshal
import SJ.Proofs.GoIterLemmas
set_option linter.unusedVariables false
set_option linter.unusedSimpArgs false
/-
GoEscape — the hand model `escapeBytes` (a fold of `escapeByte` over the source bytes, `Model/Marshal.lean`) IS the
meaning of the regenerated syntax tree `goescapeBytes` (`parsed_json.go`, `escapeBytes`).

The Go function has a fast path the model does not have: a first loop scans for the first byte that needs escaping,
copies the clean prefix in one `append` and *re-slices `src`* to the rest; without such a byte the function is
`append(dst, src...)`.  The second loop then escapes the rest byte by byte.  The proof shows that the fold splits at the
first escaping byte (`escapeByte b = [b]` for clean bytes).
-/
namespace SJ.GoEscape
open SJ SJ.GoSem SJ.Generated SJ.GoIter

/-! ## the pieces of the syntax tree (pinned by `rfl`) -/

def scanBody : List Stmt :=
  match goescapeBytes.body with
  | _ :: .rangeIB _ _ _ b :: _ => b
  | _ => []

def escBody : List Stmt :=
  match goescapeBytes.body with
  | _ :: _ :: _ :: .rangeB _ _ b :: _ => b
  | _ => []

theorem body_eq : goescapeBytes.body =
    [.assign "esc" (.bool false),
     .rangeIB "i" "s" (.v "src") scanBody,
     .ite (.not (.v "esc")) [.ret [(.appendB (.v "dst") (.v "src"))]] [],
     .rangeB "s" (.v "src") escBody,
     .ret [(.v "dst")]] := rfl

/-! ## the model: the fold over a list, and its split at the first escaping byte -/

/-- one step of the model's fold -/
def stepB (acc : Bytes) (b : UInt8) : Bytes := acc ++ (escapeByte b).toArray

theorem escapeBytes_eq_foldl (dst src : Bytes) : escapeBytes dst src = src.toList.foldl stepB dst := by
  simp only [escapeBytes, Array.foldl_toList]; rfl

theorem escapeByte_clean (b : UInt8) (h : shouldEscape b = false) : escapeByte b = [b] := by
  simp [escapeByte, h]

/-- a clean run is copied verbatim -/
theorem foldl_clean (pre : List UInt8) (h : ∀ x ∈ pre, shouldEscape x = false) : ∀ d : Bytes,
    pre.foldl stepB d = d ++ pre.toArray := by
  induction pre with
  | nil => intro d; simp
  | cons x r ih =>
    intro d
    have hx := h x (by simp)
    rw [List.foldl_cons, ih (fun y hy => h y (by simp [hy]))]
    simp only [stepB, escapeByte_clean x hx]
    apply Array.toList_inj.mp
    simp


/-! ## the escaping loop = the fold -/

attribute [local simp] exec exec1 execCases evalE evalEs isOneOf binop convert ofE Env.get_set

theorem tbl_se (x : UInt8) : tblLookup "shouldEscape" x.toNat = some (.bool (shouldEscape x)) := rfl
theorem tbl_hex (x : UInt8) : tblLookup "valToHex" x.toNat = some (.u8 (valToHex x)) := rfl

theorem tbl_hex_shr (x : UInt8) : tblLookup "valToHex" (x.toNat >>> 4) = some (.u8 (valToHex (x >>> 4))) := by
  rw [← tbl_hex]; simp
theorem tbl_hex_and (x : UInt8) : tblLookup "valToHex" (x.toNat &&& 15) = some (.u8 (valToHex (x &&& 15))) := by
  rw [← tbl_hex]; simp

theorem push2 (d : Bytes) (a b : UInt8) : d ++ #[a, b] = (d.push a).push b := by
  apply Array.toList_inj.mp; simp
theorem push6 (d : Bytes) (a b c e f g : UInt8) :
    d ++ #[a, b, c, e, f, g] = (((((d.push a).push b).push c).push e).push f).push g := by
  apply Array.toList_inj.mp; simp

theorem tbl_se8 : tblLookup "shouldEscape" 8 = some (.bool true) := by decide +kernel
theorem tbl_se12 : tblLookup "shouldEscape" 12 = some (.bool true) := by decide +kernel
theorem tbl_se10 : tblLookup "shouldEscape" 10 = some (.bool true) := by decide +kernel
theorem tbl_se13 : tblLookup "shouldEscape" 13 = some (.bool true) := by decide +kernel
theorem tbl_se34 : tblLookup "shouldEscape" 34 = some (.bool true) := by decide +kernel
theorem tbl_se9 : tblLookup "shouldEscape" 9 = some (.bool true) := by decide +kernel
theorem tbl_se92 : tblLookup "shouldEscape" 92 = some (.bool true) := by decide +kernel

/-- one iteration of the second loop -/
theorem escBody_step (fuel : Nat) (st : St) (d : Bytes) (x : UInt8)
    (hd : st.env.get "dst" = some (.bytes d)) (hs : st.env.get "s" = some (.u8 x)) :
    (exec goFuns fuel escBody st = .normal ⟨st.env.set "dst" (.bytes (stepB d x)), st.tape⟩) ∨
    (exec goFuns fuel escBody st = .cont ⟨st.env.set "dst" (.bytes (stepB d x)), st.tape⟩) := by
  by_cases hc : shouldEscape x = true
  · left
    by_cases h1 : x = 8
    · subst h1; simp [escBody, goescapeBytes, hd, hs, tbl_se8, hc, stepB, escapeByte, push2]
    by_cases h2 : x = 12
    · subst h2; simp [escBody, goescapeBytes, hd, hs, tbl_se12, hc, stepB, escapeByte, push2]
    by_cases h3 : x = 10
    · subst h3; simp [escBody, goescapeBytes, hd, hs, tbl_se10, hc, stepB, escapeByte, push2]
    by_cases h4 : x = 13
    · subst h4; simp [escBody, goescapeBytes, hd, hs, tbl_se13, hc, stepB, escapeByte, push2]
    by_cases h5 : x = 34
    · subst h5; simp [escBody, goescapeBytes, hd, hs, tbl_se34, hc, stepB, escapeByte, push2]
    by_cases h6 : x = 9
    · subst h6; simp [escBody, goescapeBytes, hd, hs, tbl_se9, hc, stepB, escapeByte, push2]
    by_cases h7 : x = 92
    · subst h7; simp [escBody, goescapeBytes, hd, hs, tbl_se92, hc, stepB, escapeByte, push2]
    simp [escBody, goescapeBytes, hd, hs, tbl_se, tbl_hex_shr, tbl_hex_and, hc, stepB, escapeByte, push6, h1, h2, h3, h4, h5, h6, h7,
      Ne.symm h1, Ne.symm h2, Ne.symm h3, Ne.symm h4, Ne.symm h5, Ne.symm h6, Ne.symm h7]
  · right
    have hc' : shouldEscape x = false := by simpa using hc
    simp [escBody, goescapeBytes, hd, hs, tbl_se, hc', stepB, escapeByte_clean]

theorem execRange_nil (funs : String → Option FunDef) (fuel : Nat) (v : String) (body : List Stmt) (s : St) :
    execRange funs fuel v [] body s = .normal s := by rw [execRange]

theorem execRange_cons (funs : String → Option FunDef) (fuel : Nat) (v : String) (x : UInt8) (xs : List UInt8)
    (body : List Stmt) (s : St) :
    execRange funs fuel v (x :: xs) body s =
      match exec funs fuel body { s with env := s.env.set v (.u8 x) } with
      | .normal s' | .cont s' => execRange funs fuel v xs body s'
      | .brk s' => .normal s'
      | o => o := by
  rw [execRange]; cases exec funs fuel body _ <;> rfl

theorem execRangeI_nil (funs : String → Option FunDef) (fuel : Nat) (iv v : String) (k : Nat) (body : List Stmt) (s : St) :
    execRangeI funs fuel iv v k [] body s = .normal s := by rw [execRangeI]

theorem execRangeI_cons (funs : String → Option FunDef) (fuel : Nat) (iv v : String) (k : Nat) (x : UInt8)
    (xs : List UInt8) (body : List Stmt) (s : St) :
    execRangeI funs fuel iv v k (x :: xs) body s =
      match exec funs fuel body { s with env := (s.env.set iv (.int k)).set v (.u8 x) } with
      | .normal s' | .cont s' => execRangeI funs fuel iv v (k + 1) xs body s'
      | .brk s' => .normal s'
      | o => o := by
  rw [execRangeI]; cases exec funs fuel body _ <;> rfl

/-- the second loop: a fold of `stepB` over the bytes -/
theorem esc_loop (fuel : Nat) : ∀ (xs : List UInt8) (st : St) (d : Bytes), st.env.get "dst" = some (.bytes d) →
    ∃ st', execRange goFuns fuel "s" xs escBody st = .normal st' ∧ st'.tape = st.tape ∧
      st'.env.get "dst" = some (.bytes (xs.foldl stepB d)) := by
  intro xs
  induction xs with
  | nil => intro st d hd; exact ⟨st, execRange_nil .., rfl, hd⟩
  | cons x r ih =>
    intro st d hd
    have hg1 : (st.env.set "s" (.u8 x)).get "dst" = some (.bytes d) := by simp [hd]
    have hg2 : (st.env.set "s" (.u8 x)).get "s" = some (.u8 x) := by simp
    have hstep := escBody_step fuel ⟨st.env.set "s" (.u8 x), st.tape⟩ d x hg1 hg2
    obtain ⟨st', h1, h2, h3⟩ := ih ⟨(st.env.set "s" (.u8 x)).set "dst" (.bytes (stepB d x)), st.tape⟩ (stepB d x) (by simp)
    refine ⟨st', ?_, h2, by rw [List.foldl_cons]; exact h3⟩
    rw [execRange_cons]
    rcases hstep with h | h <;> rw [h] <;> exact h1


/-! ## the scanning loop: find the first byte that needs escaping, copy the clean prefix, re-slice `src` -/

/-- one iteration of the first loop on a clean byte -/
theorem scanBody_clean (fuel : Nat) (st : St) (x : UInt8) (hs : st.env.get "s" = some (.u8 x))
    (hc : shouldEscape x = false) : exec goFuns fuel scanBody st = .normal st := by
  simp [scanBody, goescapeBytes, hs, tbl_se, hc]

/-- one iteration of the first loop on a byte that needs escaping -/
theorem scanBody_esc (fuel : Nat) (st : St) (src dst : Bytes) (k : Nat) (x : UInt8)
    (hs : st.env.get "s" = some (.u8 x)) (hi : st.env.get "i" = some (.int k))
    (hsrc : st.env.get "src" = some (.bytes src)) (hdst : st.env.get "dst" = some (.bytes dst))
    (hk : k ≤ src.size) (hc : shouldEscape x = true) :
    ∃ e', exec goFuns fuel scanBody st = .brk ⟨e', st.tape⟩ ∧ e'.get "esc" = some (.bool true) ∧
      e'.get "dst" = some (.bytes (dst ++ src.extract 0 k)) ∧ e'.get "src" = some (.bytes (src.extract k src.size)) := by
  by_cases h0 : k = 0
  · subst h0
    refine ⟨st.env.set "esc" (.bool true), ?_, by simp, by simp [hdst], by simp [hsrc]⟩
    simp [scanBody, goescapeBytes, hs, hi, tbl_se, hc]
  · have hk0 : (0 : Int) < k := by omega
    have hk1 : (k : Int) ≤ src.size := by omega
    have hk2 : 0 < k := by omega
    refine ⟨((st.env.set "dst" (.bytes (dst ++ src.extract 0 k))).set "src" (.bytes (src.extract k src.size))).set "esc"
      (.bool true), ?_, by simp, by simp, by simp⟩
    simp [scanBody, goescapeBytes, hs, hi, hsrc, hdst, tbl_se, hc, hk0, hk1, hk2]


/-- the first loop, from index `k` over the remaining bytes `xs`: either every byte is clean and nothing changes, or the
    loop stops at the first escaping byte with the clean prefix appended to `dst` and `src` re-sliced -/
theorem scan_loop (fuel : Nat) (src dst : Bytes) : ∀ (xs : List UInt8) (k : Nat) (st : St),
    k + xs.length = src.size →
    st.env.get "src" = some (.bytes src) → st.env.get "dst" = some (.bytes dst) →
    st.env.get "esc" = some (.bool false) →
    ∃ st', execRangeI goFuns fuel "i" "s" k xs scanBody st = .normal st' ∧ st'.tape = st.tape ∧
      (((∀ x ∈ xs, shouldEscape x = false) ∧ st'.env.get "esc" = some (.bool false) ∧
          st'.env.get "dst" = some (.bytes dst) ∧ st'.env.get "src" = some (.bytes src)) ∨
       (∃ pre b post, xs = pre ++ b :: post ∧ (∀ x ∈ pre, shouldEscape x = false) ∧ shouldEscape b = true ∧
          st'.env.get "esc" = some (.bool true) ∧
          st'.env.get "dst" = some (.bytes (dst ++ src.extract 0 (k + pre.length))) ∧
          st'.env.get "src" = some (.bytes (src.extract (k + pre.length) src.size)))) := by
  intro xs
  induction xs with
  | nil =>
    intro k st hk h1 h2 h3
    exact ⟨st, execRangeI_nil .., rfl, .inl ⟨by simp, h3, h2, h1⟩⟩
  | cons x r ih =>
    intro k st hk h1 h2 h3
    have hg1 : ((st.env.set "i" (.int k)).set "s" (.u8 x)).get "s" = some (.u8 x) := by simp
    have hg2 : ((st.env.set "i" (.int k)).set "s" (.u8 x)).get "i" = some (.int k) := by simp
    have hg3 : ((st.env.set "i" (.int k)).set "s" (.u8 x)).get "src" = some (.bytes src) := by simp [h1]
    have hg4 : ((st.env.set "i" (.int k)).set "s" (.u8 x)).get "dst" = some (.bytes dst) := by simp [h2]
    have hg5 : ((st.env.set "i" (.int k)).set "s" (.u8 x)).get "esc" = some (.bool false) := by simp [h3]
    rw [execRangeI_cons]
    by_cases hc : shouldEscape x = true
    · obtain ⟨e', he, e1, e2, e3⟩ := scanBody_esc fuel ⟨(st.env.set "i" (.int k)).set "s" (.u8 x), st.tape⟩ src dst k x
        hg1 hg2 hg3 hg4 (by simp at hk; omega) hc
      rw [he]
      exact ⟨⟨e', st.tape⟩, rfl, rfl, .inr ⟨[], x, r, rfl, by simp, hc, e1, by simpa using e2, by simpa using e3⟩⟩
    · have hc' : shouldEscape x = false := by simpa using hc
      rw [scanBody_clean fuel ⟨(st.env.set "i" (.int k)).set "s" (.u8 x), st.tape⟩ x hg1 hc']
      obtain ⟨st', r1, r2, r3⟩ := ih (k + 1) ⟨(st.env.set "i" (.int k)).set "s" (.u8 x), st.tape⟩
        (by simp at hk ⊢; omega) hg3 hg4 hg5
      refine ⟨st', r1, r2, ?_⟩
      rcases r3 with ⟨a1, a2, a3, a4⟩ | ⟨pre, b, post, b1, b2, b3, b4, b5, b6⟩
      · left
        refine ⟨?_, a2, a3, a4⟩
        intro y hy
        rcases List.mem_cons.mp hy with rfl | hy
        · exact hc'
        · exact a1 y hy
      · right
        refine ⟨x :: pre, b, post, by simp [b1], ?_, b3, b4, ?_, ?_⟩
        · intro y hy
          rcases List.mem_cons.mp hy with rfl | hy
          · exact hc'
          · exact b2 y hy
        · rw [b5, List.length_cons, show k + 1 + pre.length = k + (pre.length + 1) by omega]
        · rw [b6, List.length_cons, show k + 1 + pre.length = k + (pre.length + 1) by omega]


/-! ## the whole function -/

theorem exec_cons (funs : String → Option FunDef) (fuel : Nat) (st : Stmt) (rest : List Stmt) (s : St) :
    exec funs fuel (st :: rest) s = match exec1 funs fuel st s with | .normal s' => exec funs fuel rest s' | o => o := by
  rw [exec]; cases exec1 funs fuel st s <;> rfl

theorem extract_prefix (pre post : List UInt8) : (pre ++ post).toArray.extract 0 pre.length = pre.toArray := by
  apply Array.toList_inj.mp
  simp

theorem extract_suffix (pre post : List UInt8) :
    ((pre ++ post).toArray.extract pre.length (pre ++ post).toArray.size).toList = post := by
  simp

/-- **`escapeBytes`**: the regenerated Go function, run on any `dst`, `src`, returns exactly the model's fold; it never
    panics, is never stuck and needs no fuel (both loops are `range` loops). -/
theorem escapeBytes_sim (dst src : Bytes) (fuel : Nat) (tape : Array UInt64) :
    ∃ s, runFun goFuns goescapeBytes fuel ⟨[("dst", .bytes dst), ("src", .bytes src)], tape⟩ =
      .ret s [.bytes (escapeBytes dst src)] ∧ s.tape = tape := by
  obtain ⟨st2, hrun, htape, hcase⟩ := scan_loop fuel src dst src.toList 0
    ⟨[("dst", .bytes dst), ("src", .bytes src), ("esc", .bool false)], tape⟩ (by simp) (by simp [Env.get]) (by simp [Env.get])
    (by simp [Env.get])
  have hA : exec1 goFuns fuel (.assign "esc" (.bool false)) ⟨[("dst", .bytes dst), ("src", .bytes src)], tape⟩ =
      .normal ⟨[("dst", .bytes dst), ("src", .bytes src), ("esc", .bool false)], tape⟩ := by
    simp [Env.set]
  have hB : exec1 goFuns fuel (.rangeIB "i" "s" (.v "src") scanBody)
      ⟨[("dst", .bytes dst), ("src", .bytes src), ("esc", .bool false)], tape⟩ = .normal st2 := by
    rw [exec1]; simp only [evalE, Env.get]; simpa using hrun
  rw [runFun, body_eq, exec_cons, hA]
  simp only []
  rw [exec_cons, hB]
  simp only []
  rw [exec_cons]
  rcases hcase with ⟨a1, a2, a3, a4⟩ | ⟨pre, b, post, b1, b2, b3, b4, b5, b6⟩
  · have hC : exec1 goFuns fuel (.ite (.not (.v "esc")) [.ret [(.appendB (.v "dst") (.v "src"))]] []) st2 =
        .ret st2 [.bytes (dst ++ src)] := by
      simp [a2, a3, a4]
    rw [hC]
    refine ⟨st2, ?_, htape⟩
    rw [escapeBytes_eq_foldl, foldl_clean _ a1]
  · have hC : exec1 goFuns fuel (.ite (.not (.v "esc")) [.ret [(.appendB (.v "dst") (.v "src"))]] []) st2 =
        .normal st2 := by
      simp [b4]
    rw [hC]
    simp only []
    obtain ⟨st3, c1, c2, c3⟩ := esc_loop fuel (src.extract (0 + pre.length) src.size).toList st2 _ b5
    have hD : exec1 goFuns fuel (.rangeB "s" (.v "src") escBody) st2 = .normal st3 := by
      rw [exec1]; simp only [evalE, b6]; exact c1
    rw [exec_cons, hD]
    simp only []
    refine ⟨st3, ?_, by rw [c2, htape]⟩
    have hsrc : src = (pre ++ b :: post).toArray := by rw [← b1]
    rw [escapeBytes_eq_foldl]
    rw [hsrc] at c3 ⊢
    rw [Nat.zero_add, extract_prefix, extract_suffix] at c3
    simp [c3, foldl_clean _ b2]

end SJ.GoEscape
