import SJ.Generated.GoSrc
import SJ.Model.Marshal
import SJ.Proofs.GoIterLemmas
set_option linter.unusedVariables false
set_option linter.unusedSimpArgs false
/-
GoEscape — the hand model `escapeBytes` (a fold of `escapeByte` over the source bytes, `Model/Marshal.lean`) IS the
meaning of the regenerated syntax tree `goescapeBytes` (`parsed_json.go`, `escapeBytes`).

The Go function has a fast path the model does not have: a first loop scans for the first byte that needs escaping,
copies the clean prefix in one `append` and *re-slices `src`* to the rest; without such a byte the function is
`append(dst, src...)`.  The second loop then escapes the rest byte by byte.  The proof shows that the fold splits at the
first escaping byte (`escapeByte b = [b]` for clean bytes).
-/
namespace SJ.GoEscape
open SJ SJ.GoSem SJ.Generated SJ.GoIter

/-! ## the pieces of the syntax tree (pinned by `rfl`) -/

def scanBody : List Stmt :=
  match goescapeBytes.body with
  | _ :: .rangeIB _ _ _ b :: _ => b
  | _ => []

def escBody : List Stmt :=
  match goescapeBytes.body with
  | _ :: _ :: _ :: .rangeB _ _ b :: _ => b
  | _ => []

theorem body_eq : goescapeBytes.body =
    [.assign "esc" (.bool false),
     .rangeIB "i" "s" (.v "src") scanBody,
     .ite (.not (.v "esc")) [.ret [(.appendB (.v "dst") (.v "src"))]] [],
     .rangeB "s" (.v "src") escBody,
     .ret [(.v "dst")]] := rfl

/-! ## the model: the fold over a list, and its split at the first escaping byte -/

/-- one step of the model's fold -/
def stepB (acc : Bytes) (b : UInt8) : Bytes := acc ++ (escapeByte b).toArray

theorem escapeBytes_eq_foldl (dst src : Bytes) : escapeBytes dst src = src.toList.foldl stepB dst := by
  simp only [escapeBytes, Array.foldl_toList]; rfl

theorem escapeByte_clean (b : UInt8) (h : shouldEscape b = false) : escapeByte b = [b] := by
  simp [escapeByte, h]

/-- a clean run is copied verbatim -/
theorem foldl_clean (pre : List UInt8) (h : ∀ x ∈ pre, shouldEscape x = false) : ∀ d : Bytes,
    pre.foldl stepB d = d ++ pre.toArray := by
  induction pre with
  | nil => intro d; simp
  | cons x r ih =>
    intro d
    have hx := h x (by simp)
    rw [List.foldl_cons, ih (fun y hy => h y (by simp [hy]))]
    simp only [stepB, escapeByte_clean x hx]
    apply Array.toList_inj.mp
    simp


/-! ## the escaping loop = the fold -/

attribute [local simp] exec exec1 execCases evalE evalEs isOneOf binop convert ofE Env.get_set

theorem tbl_se (x : UInt8) : tblLookup "shouldEscape" x.toNat = some (.bool (shouldEscape x)) := rfl
theorem tbl_hex (x : UInt8) : tblLookup "valToHex" x.toNat = some (.u8 (valToHex x)) := rfl

/-- one iteration of the second loop -/
theorem escBody_step (fuel : Nat) (st : St) (d : Bytes) (x : UInt8)
    (hd : st.env.get "dst" = some (.bytes d)) (hs : st.env.get "s" = some (.u8 x)) :
    (exec goFuns fuel escBody st = .normal ⟨st.env.set "dst" (.bytes (stepB d x)), st.tape⟩) ∨
    (exec goFuns fuel escBody st = .cont ⟨st.env.set "dst" (.bytes (stepB d x)), st.tape⟩) := by
  by_cases hc : shouldEscape x = true
  · left
    simp [escBody, goescapeBytes, hd, hs, tbl_se, tbl_hex, hc, stepB, escapeByte]
    trace_state
    sorry
  · right
    have hc' : shouldEscape x = false := by simpa using hc
    simp [escBody, goescapeBytes, hd, hs, tbl_se, hc', stepB, escapeByte_clean]
    trace_state
    sorry

end SJ.GoEscape
