import SJ.Proofs.Located
/-
Replacing one value of a located document: if the tape changes only inside the words of one node, and the
new words hold a new value (possibly shorter, followed by a gap), then the whole tape holds the document with
exactly that node replaced.  This is the frame theorem behind C13 (Set*) and C14 (SetNull on containers).
-/
namespace SJ.Layout
open SJ SJ.Generated

/-- `pj'` agrees with `pj` outside `[q, f)` and resolves every string reference of `pj` the same way -/
structure AgreeOut (pj pj' : PJ) (q f : Nat) : Prop where
  words : ∀ k, (k < q ∨ f ≤ k) → word pj' k = word pj k
  strs  : ∀ o l s, stringByteAt pj o l = .ok s → stringByteAt pj' o l = .ok s

theorem AgreeOut.below {pj pj' : PJ} {q f : Nat} (h : AgreeOut pj pj' q f) : Agree pj pj' 0 q :=
  ⟨fun k _ b => h.words k (Or.inl b), h.strs⟩
theorem AgreeOut.above {pj pj' : PJ} {q f : Nat} (h : AgreeOut pj pj' q f) (n : Nat) : Agree pj pj' f n :=
  ⟨fun k a _ => h.words k (Or.inr a), h.strs⟩

mutual
/-- replace the node at position `q` by `nv` -/
def substV (q : Nat) (nv : LVal) : LVal → LVal
  | .null p => if p = q then nv else .null p
  | .bool b p => if p = q then nv else .bool b p
  | .int w p => if p = q then nv else .int w p
  | .uint w p => if p = q then nv else .uint w p
  | .float b f p => if p = q then nv else .float b f p
  | .str s p => if p = q then nv else .str s p
  | .arr p e es => if p = q then nv else .arr p e (substVs q nv es)
  | .obj p e ms => if p = q then nv else .obj p e (substMs q nv ms)
def substVs (q : Nat) (nv : LVal) : LVals → LVals
  | .nil => .nil
  | .cons v vs => .cons (substV q nv v) (substVs q nv vs)
def substMs (q : Nat) (nv : LVal) : LMems → LMems
  | .nil => .nil
  | .cons pk k v ms => .cons pk k (substV q nv v) (substMs q nv ms)
end

mutual
/-- the tree has a node occupying exactly `[q, f)` -/
def HasNode (q f : Nat) : LVal → Prop
  | .arr p e es => (p = q ∧ e = f) ∨ HasNodeVs q f es
  | .obj p e ms => (p = q ∧ e = f) ∨ HasNodeMs q f ms
  | v => v.pos = q ∧ v.fin = f
def HasNodeVs (q f : Nat) : LVals → Prop
  | .nil => False
  | .cons v vs => HasNode q f v ∨ HasNodeVs q f vs
def HasNodeMs (q f : Nat) : LMems → Prop
  | .nil => False
  | .cons _ _ v ms => HasNode q f v ∨ HasNodeMs q f ms
end

mutual
/-- every node of an `Ok` tree lies within the tree's own extent -/
theorem node_within (pj : PJ) (q f : Nat) : ∀ v : LVal, Ok pj v → HasNode q f v → v.pos ≤ q ∧ f ≤ v.fin
  | .null p, _, h => by simp only [HasNode, LVal.pos, LVal.fin] at *; omega
  | .bool b p, _, h => by simp only [HasNode, LVal.pos, LVal.fin] at *; omega
  | .int w p, _, h => by simp only [HasNode, LVal.pos, LVal.fin] at *; omega
  | .uint w p, _, h => by simp only [HasNode, LVal.pos, LVal.fin] at *; omega
  | .float b g p, _, h => by simp only [HasNode, LVal.pos, LVal.fin] at *; omega
  | .str s p, _, h => by simp only [HasNode, LVal.pos, LVal.fin] at *; omega
  | .arr p e es, ho, h => by
    simp only [HasNode, LVal.pos, LVal.fin, Ok] at *
    rcases h with h | h
    · omega
    · have := nodes_within pj q f es (p+1) (e-1) ho.2.2.2 h; omega
  | .obj p e ms, ho, h => by
    simp only [HasNode, LVal.pos, LVal.fin, Ok] at *
    rcases h with h | h
    · omega
    · have := nodesM_within pj q f ms (p+1) (e-1) ho.2.2.2 h; omega
theorem nodes_within (pj : PJ) (q f : Nat) : ∀ (vs : LVals) (lo hi : Nat), OkElems pj vs lo hi → HasNodeVs q f vs → lo ≤ q ∧ f ≤ hi
  | .nil, _, _, _, h => by simp [HasNodeVs] at h
  | .cons v vs, lo, hi, ho, h => by
    simp only [OkElems, HasNodeVs] at *
    obtain ⟨g, hv, he, rest⟩ := ho
    have := gap_le g
    have := pos_lt_fin v pj hv
    rcases h with h | h
    · have := node_within pj q f v hv h; omega
    · have := nodes_within pj q f vs v.fin hi rest h; omega
theorem nodesM_within (pj : PJ) (q f : Nat) : ∀ (ms : LMems) (lo hi : Nat), OkMems pj ms lo hi → HasNodeMs q f ms → lo ≤ q ∧ f ≤ hi
  | .nil, _, _, _, h => by simp [HasNodeMs] at h
  | .cons pk k v ms, lo, hi, ho, h => by
    simp only [OkMems, HasNodeMs] at *
    obtain ⟨g1, hs, g2, hv, he, rest⟩ := ho
    have := gap_le g1
    have := gap_le g2
    have := pos_lt_fin v pj hv
    rcases h with h | h
    · have := node_within pj q f v hv h; omega
    · have := nodesM_within pj q f ms v.fin hi rest h; omega
end

mutual
/-- a tree lying entirely outside `[q, ∞)` or starting after `q` has no node at `q`: substitution is the identity -/
theorem subst_id (pj : PJ) (q : Nat) (nv : LVal) : ∀ v : LVal, Ok pj v → (v.fin ≤ q ∨ q < v.pos) → substV q nv v = v
  | .null p, _, h => by simp only [LVal.pos, LVal.fin] at h; simp only [substV]; rw [if_neg (by omega)]
  | .bool b p, _, h => by simp only [LVal.pos, LVal.fin] at h; simp only [substV]; rw [if_neg (by omega)]
  | .int w p, _, h => by simp only [LVal.pos, LVal.fin] at h; simp only [substV]; rw [if_neg (by omega)]
  | .uint w p, _, h => by simp only [LVal.pos, LVal.fin] at h; simp only [substV]; rw [if_neg (by omega)]
  | .float b g p, _, h => by simp only [LVal.pos, LVal.fin] at h; simp only [substV]; rw [if_neg (by omega)]
  | .str s p, _, h => by simp only [LVal.pos, LVal.fin] at h; simp only [substV]; rw [if_neg (by omega)]
  | .arr p e es, ho, h => by
    simp only [LVal.pos, LVal.fin, Ok] at h ho
    simp only [substV]
    rw [if_neg (by omega), substs_id pj q nv es (p+1) (e-1) ho.2.2.2 (by omega)]
  | .obj p e ms, ho, h => by
    simp only [LVal.pos, LVal.fin, Ok] at h ho
    simp only [substV]
    rw [if_neg (by omega), substsM_id pj q nv ms (p+1) (e-1) ho.2.2.2 (by omega)]
theorem substs_id (pj : PJ) (q : Nat) (nv : LVal) : ∀ (vs : LVals) (lo hi : Nat), OkElems pj vs lo hi → (hi ≤ q ∨ q < lo) → substVs q nv vs = vs
  | .nil, _, _, _, _ => by simp [substVs]
  | .cons v vs, lo, hi, ho, h => by
    simp only [OkElems] at ho
    obtain ⟨g, hv, he, rest⟩ := ho
    have := gap_le g
    have := pos_lt_fin v pj hv
    simp only [substVs]
    rw [subst_id pj q nv v hv (by omega), substs_id pj q nv vs v.fin hi rest (by omega)]
theorem substsM_id (pj : PJ) (q : Nat) (nv : LVal) : ∀ (ms : LMems) (lo hi : Nat), OkMems pj ms lo hi → (hi ≤ q ∨ q < lo) → substMs q nv ms = ms
  | .nil, _, _, _, _ => by simp [substMs]
  | .cons pk k v ms, lo, hi, ho, h => by
    simp only [OkMems] at ho
    obtain ⟨g1, hs, g2, hv, he, rest⟩ := ho
    have := gap_le g1
    have := gap_le g2
    have := pos_lt_fin v pj hv
    simp only [substMs]
    rw [subst_id pj q nv v hv (by omega), substsM_id pj q nv ms v.fin hi rest (by omega)]
end

theorem okElems_prepend_gap {pj : PJ} {a b hi : Nat} (g : Gap pj a b) : ∀ vs : LVals, OkElems pj vs b hi → OkElems pj vs a hi
  | .nil, h => by simp only [OkElems] at *; exact gap_trans g h
  | .cons v vs, h => by simp only [OkElems] at *; exact ⟨gap_trans g h.1, h.2⟩

theorem okMems_prepend_gap {pj : PJ} {a b hi : Nat} (g : Gap pj a b) : ∀ ms : LMems, OkMems pj ms b hi → OkMems pj ms a hi
  | .nil, h => by simp only [OkMems] at *; exact gap_trans g h
  | .cons pk k v ms, h => by simp only [OkMems] at *; exact ⟨gap_trans g h.1, h.2⟩

end SJ.Layout

namespace SJ.Layout
open SJ SJ.Generated

section Main
variable {pj pj' : PJ} {q f : Nat} {nv : LVal}
variable (hA : AgreeOut pj pj' q f) (hn : Ok pj' nv) (hq : nv.pos = q) (hf : nv.fin ≤ f) (hg : Gap pj' nv.fin f)
include hA hn hq hf hg

mutual
/-- Replacing the node that occupies `[q, f)`: the new tape holds the substituted tree; the root keeps its
    position, and its end can only move left, leaving a gap. -/
theorem subst_ok : ∀ v : LVal, Ok pj v → HasNode q f v →
    Ok pj' (substV q nv v) ∧ (substV q nv v).pos = v.pos ∧ (substV q nv v).fin ≤ v.fin ∧ Gap pj' (substV q nv v).fin v.fin
  | .null p, ho, h => by
    simp only [HasNode] at h
    have h1 : p = q := h.1
    have h2 : p + 1 = f := h.2
    simp only [substV, if_pos h1]
    refine ⟨hn, ?_, ?_, ?_⟩
    · show nv.pos = p; omega
    · show nv.fin ≤ p + 1; omega
    · show Gap pj' nv.fin (p + 1); rw [h2]; exact hg
  | .bool b p, ho, h => by
    simp only [HasNode] at h
    have h1 : p = q := h.1
    have h2 : p + 1 = f := h.2
    simp only [substV, if_pos h1]
    refine ⟨hn, ?_, ?_, ?_⟩
    · show nv.pos = p; omega
    · show nv.fin ≤ p + 1; omega
    · show Gap pj' nv.fin (p + 1); rw [h2]; exact hg
  | .int w p, ho, h => by
    simp only [HasNode] at h
    have h1 : p = q := h.1
    have h2 : p + 2 = f := h.2
    simp only [substV, if_pos h1]
    refine ⟨hn, ?_, ?_, ?_⟩
    · show nv.pos = p; omega
    · show nv.fin ≤ p + 2; omega
    · show Gap pj' nv.fin (p + 2); rw [h2]; exact hg
  | .uint w p, ho, h => by
    simp only [HasNode] at h
    have h1 : p = q := h.1
    have h2 : p + 2 = f := h.2
    simp only [substV, if_pos h1]
    refine ⟨hn, ?_, ?_, ?_⟩
    · show nv.pos = p; omega
    · show nv.fin ≤ p + 2; omega
    · show Gap pj' nv.fin (p + 2); rw [h2]; exact hg
  | .float b g p, ho, h => by
    simp only [HasNode] at h
    have h1 : p = q := h.1
    have h2 : p + 2 = f := h.2
    simp only [substV, if_pos h1]
    refine ⟨hn, ?_, ?_, ?_⟩
    · show nv.pos = p; omega
    · show nv.fin ≤ p + 2; omega
    · show Gap pj' nv.fin (p + 2); rw [h2]; exact hg
  | .str s p, ho, h => by
    simp only [HasNode] at h
    have h1 : p = q := h.1
    have h2 : p + 2 = f := h.2
    simp only [substV, if_pos h1]
    refine ⟨hn, ?_, ?_, ?_⟩
    · show nv.pos = p; omega
    · show nv.fin ≤ p + 2; omega
    · show Gap pj' nv.fin (p + 2); rw [h2]; exact hg
  | .arr p e es, ho, h => by
    have hqf : q < f := by have := pos_lt_fin nv pj' hn; omega
    simp only [HasNode] at h
    simp only [Ok] at ho
    obtain ⟨h1, ⟨w, hw1, hw2, hw3⟩, ⟨c, hc1, hc2, hc3⟩, hes⟩ := ho
    by_cases hp : p = q
    · -- the array itself is the node
      have hef : e = f := by
        rcases h with h | h
        · exact h.2
        · have := nodes_within pj q f es (p+1) (e-1) hes h; omega
      simp only [substV, if_pos hp]
      refine ⟨hn, ?_, ?_, ?_⟩
      · show nv.pos = p; omega
      · show nv.fin ≤ e; omega
      · show Gap pj' nv.fin e; rw [hef]; exact hg
    · have hin : HasNodeVs q f es := by
        rcases h with h | h
        · exact absurd h.1 hp
        · exact h
      have hw := nodes_within pj q f es (p+1) (e-1) hes hin
      simp only [substV, if_neg hp, LVal.pos, LVal.fin, Ok]
      refine ⟨⟨h1, ⟨w, ?_, hw2, hw3⟩, ⟨c, ?_, hc2, hc3⟩, substs_ok es (p+1) (e-1) hes hin⟩, trivial, Nat.le_refl _, gap_refl _ _⟩
      · rw [hA.words p (Or.inl (by omega))]; exact hw1
      · rw [hA.words (e-1) (Or.inr (by omega))]; exact hc1
  | .obj p e ms, ho, h => by
    have hqf : q < f := by have := pos_lt_fin nv pj' hn; omega
    simp only [HasNode] at h
    simp only [Ok] at ho
    obtain ⟨h1, ⟨w, hw1, hw2, hw3⟩, ⟨c, hc1, hc2, hc3⟩, hes⟩ := ho
    by_cases hp : p = q
    · have hef : e = f := by
        rcases h with h | h
        · exact h.2
        · have := nodesM_within pj q f ms (p+1) (e-1) hes h; omega
      simp only [substV, if_pos hp]
      refine ⟨hn, ?_, ?_, ?_⟩
      · show nv.pos = p; omega
      · show nv.fin ≤ e; omega
      · show Gap pj' nv.fin e; rw [hef]; exact hg
    · have hin : HasNodeMs q f ms := by
        rcases h with h | h
        · exact absurd h.1 hp
        · exact h
      have hw := nodesM_within pj q f ms (p+1) (e-1) hes hin
      simp only [substV, if_neg hp, LVal.pos, LVal.fin, Ok]
      refine ⟨⟨h1, ⟨w, ?_, hw2, hw3⟩, ⟨c, ?_, hc2, hc3⟩, substsM_ok ms (p+1) (e-1) hes hin⟩, trivial, Nat.le_refl _, gap_refl _ _⟩
      · rw [hA.words p (Or.inl (by omega))]; exact hw1
      · rw [hA.words (e-1) (Or.inr (by omega))]; exact hc1
theorem substs_ok : ∀ (vs : LVals) (lo hi : Nat), OkElems pj vs lo hi → HasNodeVs q f vs → OkElems pj' (substVs q nv vs) lo hi
  | .nil, _, _, _, h => by simp [HasNodeVs] at h
  | .cons v vs, lo, hi, ho, h => by
    have hqf : q < f := by have := pos_lt_fin nv pj' hn; omega
    simp only [OkElems] at ho
    obtain ⟨g, hv, he, rest⟩ := ho
    have hpf := pos_lt_fin v pj hv
    simp only [HasNodeVs] at h
    simp only [substVs, OkElems]
    rcases h with h | h
    · -- the node is inside (or is) v
      have hw := node_within pj q f v hv h
      obtain ⟨o1, o2, o3, o4⟩ := subst_ok v hv h
      refine ⟨?_, o1, by omega, ?_⟩
      · rw [o2]; exact gap_frame hA.below (Nat.zero_le _) hw.1 g
      · rw [substs_id pj q nv vs v.fin hi rest (Or.inr (by omega))]
        exact okElems_prepend_gap o4 vs (okElems_frame (hA.above hi) vs v.fin hi hw.2 (Nat.le_refl _) rest)
    · -- the node is in a later element
      have hw := nodes_within pj q f vs v.fin hi rest h
      rw [subst_id pj q nv v hv (Or.inl hw.1)]
      exact ⟨gap_frame hA.below (Nat.zero_le _) (by omega) g, ok_frame hA.below v (Nat.zero_le _) hw.1 hv, he,
        substs_ok vs v.fin hi rest h⟩
theorem substsM_ok : ∀ (ms : LMems) (lo hi : Nat), OkMems pj ms lo hi → HasNodeMs q f ms → OkMems pj' (substMs q nv ms) lo hi
  | .nil, _, _, _, h => by simp [HasNodeMs] at h
  | .cons pk k v ms, lo, hi, ho, h => by
    have hqf : q < f := by have := pos_lt_fin nv pj' hn; omega
    simp only [OkMems] at ho
    obtain ⟨g1, hs, g2, hv, he, rest⟩ := ho
    have hpf := pos_lt_fin v pj hv
    have hg2 := gap_le g2
    simp only [HasNodeMs] at h
    simp only [substMs, OkMems]
    rcases h with h | h
    · have hw := node_within pj q f v hv h
      obtain ⟨o1, o2, o3, o4⟩ := subst_ok v hv h
      refine ⟨gap_frame hA.below (Nat.zero_le _) (by omega) g1, strAt_frame hA.below (Nat.zero_le _) (by omega) hs, ?_, o1, by omega, ?_⟩
      · rw [o2]; exact gap_frame hA.below (Nat.zero_le _) hw.1 g2
      · rw [substsM_id pj q nv ms v.fin hi rest (Or.inr (by omega))]
        exact okMems_prepend_gap o4 ms (okMems_frame (hA.above hi) ms v.fin hi hw.2 (Nat.le_refl _) rest)
    · have hw := nodesM_within pj q f ms v.fin hi rest h
      rw [subst_id pj q nv v hv (Or.inl hw.1)]
      exact ⟨gap_frame hA.below (Nat.zero_le _) (by omega) g1, strAt_frame hA.below (Nat.zero_le _) (by omega) hs,
        gap_frame hA.below (Nat.zero_le _) (by omega) g2, ok_frame hA.below v (Nat.zero_le _) hw.1 hv, he,
        substsM_ok ms v.fin hi rest h⟩
end
end Main

end SJ.Layout
