import SJ.Proofs.GoInterface
import SJ.Proofs.GoArrStr
import SJ.Proofs.GoDeleteLemmas
import SJ.Proofs.GoElemsLemmas
set_option linter.unusedVariables false
set_option maxRecDepth 4096
/-
`Iter.Interface`, `Array.Interface`, `Object.Map` of /repo (mutually recursive; regenerated trees `goIter_Interface`,
`goArray_Interface`, `goObject_Map` in `Generated/GoSrc.lean`) against the hand model `Iter.interface`,
`View.arrInterface`, `View.objMap` (`Model/Object.lean`).

MAIN THEOREMS
* `go_interface_source_tie`: for every tape (`BufOK`, fewer than 2^63 words), every iterator / view inside the tape, every
  model fuel `mf` and interpreter fuel `F ≥ goFuel pj mf = 3·mf + len(tape) + 10`, the three regenerated functions compute
  what the FRAGMENT `interfaceV` / `arrV` / `mapV` computes (`.ok v` ⇔ `(v, nil)`, `.error` ⇔ non-nil error, `.panic` ⇔ panic,
  never stuck; tape and buffers unchanged; receiver of `Interface` / `Array.Interface` unchanged); where the fragment is
  `.diverge` nothing is claimed.
* `fragment_agrees`: wherever the fragment is definite (not `.diverge`), the hand model gives the same answer.
* `go_interface_follows_model`: the two combined for `Interface`.

THE FRAGMENT is the hand model with three cuts, each answering `.diverge` ("no claim"):
 1. the Root and None branches of `Interface` (not translated into proofs here; the trees are, and are executed in
    `GoInterfaceTests.lean`);
 2. an `Object` whose `NextElementBytes` fuel `fuel` is below `lim - off + 1` (the model then may run out of fuel);
 3. an Object branch on an iterator whose offset is ≥ 2^63 (no Go `int`).
Cut 1 is not only a matter of proof effort: with the Root branch the hand model and the source DIFFER (tape in
`GoInterfaceTests.lean`, replayed on the real library): `Array.Interface` calls `i.Interface()` on its own loop iterator,
the Root branch advances it, and `View.arrInterface` continues from the iterator as it was before the call.  On tapes
where no array element is a root word the difference cannot show.

PROOF: induction on the model fuel; per level `arr_loop`, `map_loop` (the two loops, by induction on the same fuel),
`arr_fun`, `map_fun`, `specI_step` (the switch of `Interface`: leaves by `interface_leaf_abs`, Array / Object by the call
lemmas `call_arrNew` / `call_objNew` for `i.Array(nil)` / `i.Object(nil)` — the fresh destination is the caller's variable
`arr#new` / `obj#new` — and `callFun_arrIf` / `callFun_objIf` for the forwarded calls).  Reusable: `call_iface`
(`t1, t2 = r.Interface()` from any store), `advance_lim`, `neb_lims`, `exec_cons`.
-/
namespace SJ.GoInterface
open SJ SJ.GoSem SJ.Generated SJ.GoIter SJ.GoObject SJ.GoMarshal
open SJ.GoFindElem (callFun_recv backR_ret recv_back)

/-! ## the fragment of the hand model that is tied here

`Iter.interface` / `View.arrInterface` / `View.objMap` of `Model/Object.lean` with the Root and None branches of
`Interface` cut out: on those the fragment answers `.diverge`, which the simulation relation reads as "no claim". -/
mutual
def interfaceV (pj : PJ) (i : Iter) : (fuel : Nat) → Res IVal
  | 0 => .diverge
  | fuel + 1 =>
    let ty := tagToType i.t
    if ty == typeUint then do let n ← i.uint pj; .ok (.uint n)
    else if ty == typeInt then do let n ← i.int pj; .ok (.int n)
    else if ty == typeFloat then do let b ← i.float pj; .ok (.float b)
    else if ty == typeNull then .ok .null
    else if ty == typeArray then do let a ← i.array; arrV pj a.iter [] fuel
    else if ty == typeString then do let s ← i.stringBytes pj; .ok (.str s)
    else if ty == typeObject then
      (if 2^63 ≤ i.off then .diverge    -- (the fragment: offsets are Go `int`s)
       else do let o ← i.object; let m ← mapV pj o [] fuel; .ok (.obj m))
    else if ty == typeBool then .ok (.bool (i.t == tagBoolTrue))
    else if ty == typeRoot then .diverge
    else if ty == typeNone then .diverge
    else .error .generic
def arrV (pj : PJ) (i : Iter) (acc : List IVal) : (fuel : Nat) → Res IVal
  | 0 => .diverge
  | fuel + 1 => do
    let (i', ty) ← i.advance pj
    if ty == typeNone then .ok (.arr acc.reverse) else do
    let elem ← interfaceV pj i' fuel
    arrV pj i' (elem :: acc) fuel
def mapV (pj : PJ) (o : View) (acc : List (Bytes × IVal)) : (fuel : Nat) → Res (List (Bytes × IVal))
  | 0 => .diverge
  | fuel + 1 =>
    if fuel < o.lim - o.off + 1 then .diverge else do   -- (the fragment: enough fuel for `NextElementBytes`)
    let (o', r) ← o.nextElementBytes pj fuel
    match r with
    | none => .ok acc
    | some (name, it, ty) =>
      if ty == typeNone then .ok acc else do
      let v ← interfaceV pj it fuel
      mapV pj o' (mapInsert acc name v) fuel
end

theorem interface_array (pj : PJ) (i : Iter) (fuel : Nat) (h : tagToType i.t = typeArray) :
    Iter.interface pj i (fuel + 1) = (do let a ← i.array; View.arrInterface pj a.iter [] fuel) := by
  rw [Iter.interface]; simp only [h]; rfl
theorem interface_object (pj : PJ) (i : Iter) (fuel : Nat) (h : tagToType i.t = typeObject) :
    Iter.interface pj i (fuel + 1) = (do let o ← i.object; let m ← View.objMap pj o [] fuel; .ok (.obj m)) := by
  rw [Iter.interface]; simp only [h]; rfl
theorem interfaceV_uint (pj : PJ) (i : Iter) (fuel : Nat) (h : tagToType i.t = typeUint) :
    interfaceV pj i (fuel + 1) = (do let n ← i.uint pj; .ok (.uint n)) := by
  rw [interfaceV]; simp only [h]; rfl
theorem interfaceV_int (pj : PJ) (i : Iter) (fuel : Nat) (h : tagToType i.t = typeInt) :
    interfaceV pj i (fuel + 1) = (do let n ← i.int pj; .ok (.int n)) := by
  rw [interfaceV]; simp only [h]; rfl
theorem interfaceV_float (pj : PJ) (i : Iter) (fuel : Nat) (h : tagToType i.t = typeFloat) :
    interfaceV pj i (fuel + 1) = (do let b ← i.float pj; .ok (.float b)) := by
  rw [interfaceV]; simp only [h]; rfl
theorem interfaceV_null (pj : PJ) (i : Iter) (fuel : Nat) (h : tagToType i.t = typeNull) :
    interfaceV pj i (fuel + 1) = .ok .null := by
  rw [interfaceV]; simp only [h]; rfl
theorem interfaceV_array (pj : PJ) (i : Iter) (fuel : Nat) (h : tagToType i.t = typeArray) :
    interfaceV pj i (fuel + 1) = (do let a ← i.array; arrV pj a.iter [] fuel) := by
  rw [interfaceV]; simp only [h]; rfl
theorem interfaceV_string (pj : PJ) (i : Iter) (fuel : Nat) (h : tagToType i.t = typeString) :
    interfaceV pj i (fuel + 1) = (do let s ← i.stringBytes pj; .ok (.str s)) := by
  rw [interfaceV]; simp only [h]; rfl
theorem interfaceV_object (pj : PJ) (i : Iter) (fuel : Nat) (h : tagToType i.t = typeObject) :
    interfaceV pj i (fuel + 1) =
      (if 2^63 ≤ i.off then .diverge else (do let o ← i.object; let m ← mapV pj o [] fuel; .ok (.obj m))) := by
  rw [interfaceV]; simp only [h]; rfl
theorem interfaceV_bool (pj : PJ) (i : Iter) (fuel : Nat) (h : tagToType i.t = typeBool) :
    interfaceV pj i (fuel + 1) = .ok (.bool (i.t == tagBoolTrue)) := by
  rw [interfaceV]; simp only [h]; rfl
theorem interfaceV_root (pj : PJ) (i : Iter) (fuel : Nat) (h : tagToType i.t = typeRoot) :
    interfaceV pj i (fuel + 1) = .diverge := by
  rw [interfaceV]; simp only [h]; rfl
theorem interfaceV_none (pj : PJ) (i : Iter) (fuel : Nat) (h : tagToType i.t = typeNone) :
    interfaceV pj i (fuel + 1) = .diverge := by
  rw [interfaceV]; simp only [h]; rfl
theorem interfaceV_other (pj : PJ) (i : Iter) (fuel : Nat) (h0 : tagToType i.t ≠ 0) (h1 : tagToType i.t ≠ 1)
    (h2 : tagToType i.t ≠ 2) (h3 : tagToType i.t ≠ 3) (h4 : tagToType i.t ≠ 4) (h5 : tagToType i.t ≠ 5)
    (h6 : tagToType i.t ≠ 6) (h7 : tagToType i.t ≠ 7) (h8 : tagToType i.t ≠ 8) (h9 : tagToType i.t ≠ 9) :
    interfaceV pj i (fuel + 1) = .error .generic := by
  rw [interfaceV]
  simp [typeUint, typeInt, typeFloat, typeNull, typeArray, typeString, typeObject, typeBool, typeRoot, typeNone, *]

/-- a definite answer of the fragment is the answer of the hand model -/
def Agrees {α : Type} (a b : Res α) : Prop :=
  match a with
  | .diverge => True
  | _ => b = a

theorem fragment_agrees (pj : PJ) : ∀ fuel : Nat,
    (∀ i, Agrees (interfaceV pj i fuel) (Iter.interface pj i fuel)) ∧
    (∀ i acc, Agrees (arrV pj i acc fuel) (View.arrInterface pj i acc fuel)) ∧
    (∀ o acc, Agrees (mapV pj o acc fuel) (View.objMap pj o acc fuel)) := by
  intro fuel
  induction fuel with
  | zero => refine ⟨fun i => ?_, fun i acc => ?_, fun o acc => ?_⟩ <;> simp [interfaceV, arrV, mapV, Agrees]
  | succ n ih =>
    obtain ⟨ihI, ihA, ihM⟩ := ih
    refine ⟨fun i => ?_, fun i acc => ?_, fun o acc => ?_⟩
    · by_cases h4 : tagToType i.t = typeUint
      · rw [interfaceV_uint pj i n h4, interface_uint pj i n h4]
        cases i.uint pj <;> simp [Agrees, bind, Res.bind]
      by_cases h3 : tagToType i.t = typeInt
      · rw [interfaceV_int pj i n h3, interface_int pj i n h3]
        cases i.int pj <;> simp [Agrees, bind, Res.bind]
      by_cases h5 : tagToType i.t = typeFloat
      · rw [interfaceV_float pj i n h5, interface_float pj i n h5]
        cases i.float pj <;> simp [Agrees, bind, Res.bind]
      by_cases h1 : tagToType i.t = typeNull
      · rw [interfaceV_null pj i n h1, interface_null pj i n h1]; simp [Agrees]
      by_cases h8 : tagToType i.t = typeArray
      · rw [interfaceV_array pj i n h8, interface_array pj i n h8]
        cases ha : i.array with
        | ok a => exact ihA a.iter []
        | error e => simp [Agrees, bind, Res.bind]
        | panic => simp [Agrees, bind, Res.bind]
        | diverge => simp [Agrees, bind, Res.bind]
      by_cases h2 : tagToType i.t = typeString
      · rw [interfaceV_string pj i n h2, interface_string pj i n h2]
        cases i.stringBytes pj <;> simp [Agrees, bind, Res.bind]
      by_cases h7 : tagToType i.t = typeObject
      · rw [interfaceV_object pj i n h7, interface_object pj i n h7]
        split
        · simp [Agrees]
        cases ho : i.object with
        | ok o =>
          have := ihM o []
          simp only [bind, Res.bind]
          cases hm : mapV pj o [] n with
          | ok m => rw [hm] at this; simp only [Agrees] at this; rw [this]; simp [Agrees]
          | error e => rw [hm] at this; simp only [Agrees] at this; rw [this]; simp [Agrees]
          | panic => rw [hm] at this; simp only [Agrees] at this; rw [this]; simp [Agrees]
          | diverge => simp [Agrees]
        | error e => simp [Agrees, bind, Res.bind]
        | panic => simp [Agrees, bind, Res.bind]
        | diverge => simp [Agrees, bind, Res.bind]
      by_cases h6 : tagToType i.t = typeBool
      · rw [interfaceV_bool pj i n h6, interface_bool pj i n h6]; simp [Agrees]
      by_cases h9 : tagToType i.t = typeRoot
      · rw [interfaceV_root pj i n h9]; simp [Agrees]
      by_cases h0 : tagToType i.t = typeNone
      · rw [interfaceV_none pj i n h0]; simp [Agrees]
      simp only [typeUint, typeInt, typeFloat, typeNull, typeArray, typeString, typeObject, typeBool, typeRoot, typeNone]
        at h0 h1 h2 h3 h4 h5 h6 h7 h8 h9
      rw [interfaceV_other pj i n h0 h1 h2 h3 h4 h5 h6 h7 h8 h9, interface_other pj i n h0 h1 h2 h3 h4 h5 h6 h7 h8 h9]
      simp [Agrees]
    · rw [arrV, View.arrInterface]
      cases hadv : i.advance pj with
      | ok r =>
        obtain ⟨i', ty⟩ := r
        simp only [bind, Res.bind]
        split
        · simp [Agrees]
        · have h1 := ihI i'
          cases hv : interfaceV pj i' n with
          | ok v => rw [hv] at h1; simp only [Agrees] at h1; rw [h1]; exact ihA i' (v :: acc)
          | error e => rw [hv] at h1; simp only [Agrees] at h1; rw [h1]; simp [Agrees]
          | panic => rw [hv] at h1; simp only [Agrees] at h1; rw [h1]; simp [Agrees]
          | diverge => simp [Agrees]
      | error e => simp [Agrees, bind, Res.bind]
      | panic => simp [Agrees, bind, Res.bind]
      | diverge => simp [Agrees, bind, Res.bind]
    · rw [mapV, View.objMap]
      split
      · simp [Agrees]
      cases hne : o.nextElementBytes pj n with
      | ok r =>
        obtain ⟨o', x⟩ := r
        simp only [bind, Res.bind]
        cases x with
        | none => simp [Agrees]
        | some y =>
          obtain ⟨name, it, ty⟩ := y
          simp only []
          split
          · simp [Agrees]
          · have h1 := ihI it
            cases hv : interfaceV pj it n with
            | ok v => rw [hv] at h1; simp only [Agrees] at h1; rw [h1]; exact ihM o' _
            | error e => rw [hv] at h1; simp only [Agrees] at h1; rw [h1]; simp [Agrees]
            | panic => rw [hv] at h1; simp only [Agrees] at h1; rw [h1]; simp [Agrees]
            | diverge => simp [Agrees]
      | error e => simp [Agrees, bind, Res.bind]
      | panic => simp [Agrees, bind, Res.bind]
      | diverge => simp [Agrees, bind, Res.bind]

/-! ## the simulation relation of the recursive tie: `.diverge` of the fragment (out of its own fuel, or a branch that
is not covered) makes no claim -/

def SimV (pj : PJ) (j : Iter) (o : Out) : Res IVal → Prop
  | .ok v => ∃ s, o = .ret s [.iface v, .bool false] ∧ Keeps pj s ∧ iterAt s.env "i" = some j
  | .error _ => ∃ s x, o = .ret s [.iface x, .bool true] ∧ Keeps pj s ∧ iterAt s.env "i" = some j
  | .panic => o = .panic
  | .diverge => True

theorem SimI.toV {pj : PJ} {j : Iter} {o : Out} {r : Res IVal} (h : SimI pj j o r) : SimV pj j o r := by
  cases r <;> first | exact h | trivial

/-- the body of `Interface` on any store that holds the receiver and the document -/
def SpecI (pj : PJ) (mf F : Nat) : Prop :=
  ∀ (s : GoSem.St) (j : Iter), iterAt s.env "i" = some j → Keeps pj s → j.lim ≤ pj.tape.size →
    SimV pj j (exec goFuns F goIter_Interface.body s) (interfaceV pj j mf)

/-- what a caller sees of `t1, t2 = r.Interface()` -/
def IfacePost (pj : PJ) (e : Env) (r t1 t2 : String) (j : Iter) (o : Out) : Res IVal → Prop
  | .ok v => ∃ e', o = .normal ⟨e', pj.tape⟩ ∧ e'.get t1 = some (.iface v) ∧ e'.get t2 = some (.bool false) ∧
      iterAt e' r = some j ∧ (∀ k, k ∉ t1 :: t2 :: fieldsOf r → e'.get k = e.get k)
  | .error _ => ∃ e' x, o = .normal ⟨e', pj.tape⟩ ∧ e'.get t1 = some (.iface x) ∧ e'.get t2 = some (.bool true) ∧
      iterAt e' r = some j ∧ (∀ k, k ∉ t1 :: t2 :: fieldsOf r → e'.get k = e.get k)
  | .panic => o = .panic
  | .diverge => True

theorem call_iface (pj : PJ) (e : Env) (r t1 t2 : String) (j : Iter) (f mf : Nat) (hP : SpecI pj mf f)
    (hE : iterAt e r = some j) (hS : e.get "Strings.B" = some (.bytes pj.strings))
    (hM : e.get "Message" = some (.bytes pj.msg)) (hl : j.lim ≤ pj.tape.size)
    (h1 : (t1 == "_") = false) (h2 : (t2 == "_") = false) (h12 : t1 ≠ t2)
    (hr : "Strings.B" ∉ fieldsOf r ∧ "Message" ∉ fieldsOf r) (hd : (fieldsOf r).Nodup)
    (ht1 : t1 ∉ fieldsOf r) (ht2 : t2 ∉ fieldsOf r) :
    IfacePost pj e r t1 t2 j (exec1 goFuns (f + 1) (.callAssign [t1, t2] r "Iter.Interface" [] []) ⟨e, pj.tape⟩)
      (interfaceV pj j mf) := by
  obtain ⟨hS0, hM0⟩ := GoArrStr.intoFrame_buf pj e j hS hM
  have hfn : goFuns "Iter.Interface" = some { recv := "i", params := [], body := goIter_Interface.body } := rfl
  rw [exec1, callFun_recv e pj.tape r "Iter.Interface" goIter_Interface.body j f hfn hE]
  have hsim := hP ⟨GoApi.intoFrame e j, pj.tape⟩ j (GoApi.intoFrame_iter e j) ⟨rfl, hS0, hM0⟩ hl
  have hback : ∀ (s : GoSem.St) (x y : Val), Keeps pj s → iterAt s.env "i" = some j →
      ∃ e', (match GoFindElem.backR e r (Out.ret s [x, y]) with
          | Out.ret s' vs => (match assignTargets [t1, t2] vs s'.env with
              | some e => Out.normal { s' with env := e }
              | none => Out.stuck "result arity")
          | o => o) = Out.normal ⟨e', pj.tape⟩ ∧ e'.get t1 = some x ∧ e'.get t2 = some y ∧
        iterAt e' r = some j ∧ (∀ k, k ∉ t1 :: t2 :: fieldsOf r → e'.get k = e.get k) := by
    intro s x y hK hI
    obtain ⟨k1, k2⟩ := recv_back e r j j s.env (fun k hk => by
      rcases hk with rfl | rfl
      · rw [hK.2.1, hS0]
      · rw [hK.2.2, hM0]) hr hd
    rw [backR_ret e r s _ j hI]
    simp only [assignTargets, hK.1, h1, h2, Bool.false_eq_true, if_false]
    refine ⟨_, rfl, ?_, Env.get_set_self _ _ _, ?_, ?_⟩
    · rw [Env.get_set_ne _ _ (Ne.symm h12)]; exact Env.get_set_self _ _ _
    · rw [iterAt_set_ne _ _ _ _ ht2, iterAt_set_ne _ _ _ _ ht1]; exact k1
    · intro k hk
      simp only [List.mem_cons, not_or] at hk
      rw [Env.get_set_ne _ _ (Ne.symm hk.2.1), Env.get_set_ne _ _ (Ne.symm hk.1)]
      exact k2 k (by simpa using hk.2.2)
  generalize exec goFuns f goIter_Interface.body ⟨GoApi.intoFrame e j, pj.tape⟩ = out at hsim ⊢
  cases hv : interfaceV pj j mf with
  | ok v =>
    rw [hv] at hsim
    obtain ⟨s, rfl, hK, hI⟩ := hsim
    obtain ⟨e', a1, a2, a3, a4, a5⟩ := hback s _ _ hK hI
    exact ⟨e', a1, a2, a3, a4, a5⟩
  | error er =>
    rw [hv] at hsim
    obtain ⟨s, x, rfl, hK, hI⟩ := hsim
    obtain ⟨e', a1, a2, a3, a4, a5⟩ := hback s _ _ hK hI
    exact ⟨e', x, a1, a2, a3, a4, a5⟩
  | panic =>
    rw [hv] at hsim
    simp only [SimV] at hsim
    subst hsim
    rfl
  | diverge => trivial

/-! ## `Advance` keeps the view -/

theorem calcNext_lim (a : Iter) (b : Bool) : (a.calcNext b).lim = a.lim := by
  unfold Iter.calcNext
  split
  · rfl
  · split
    · split <;> rfl
    · rfl

theorem advance_lim (pj : PJ) (i i' : Iter) (t : UInt8) (h : i.advance pj = .ok (i', t)) : i'.lim = i.lim := by
  unfold Iter.advance Iter.bump at h
  by_cases ho : (i.off : Int) + i.addNext < 0
  · simp [ho, bind, Res.bind] at h
  · simp only [ho, if_false, Res.bind_ok] at h
    cases hg : Iter.advanceLoop pj i ((i.off : Int) + i.addNext).toNat with
    | ok r =>
      obtain ⟨a, l⟩ := r
      rw [hg] at h
      have hl := (GoDelete.advanceLoop_facts pj _ i _ (Nat.le_refl _) a l hg).1
      cases l with
      | false =>
        simp only [Res.bind_ok, Bool.not_false, if_true, Res.ok.injEq, Prod.mk.injEq] at h
        rw [← h.1]; exact hl
      | true =>
        simp only [Res.bind_ok, Bool.not_true, Bool.false_eq_true, if_false] at h
        split at h
        · simp only [Res.ok.injEq, Prod.mk.injEq] at h
          rw [← h.1]; simp only [Iter.moveToEnd, calcNext_lim]; exact hl
        · simp only [Res.ok.injEq, Prod.mk.injEq] at h
          rw [← h.1, calcNext_lim]; exact hl
    | error e => rw [hg] at h; simp [bind, Res.bind] at h
    | panic => rw [hg] at h; simp [bind, Res.bind] at h
    | diverge => rw [hg] at h; simp [bind, Res.bind] at h

theorem exec_cons (funs : String → Option FunDef) (fuel : Nat) (st : Stmt) (rest : List Stmt) (s : GoSem.St) :
    exec funs fuel (st :: rest) s = (match exec1 funs fuel st s with | .normal s' => exec funs fuel rest s' | o => o) := by
  rw [exec]
  rfl

/-! ## the loop of `Array.Interface` -/

def arrBody : List Stmt := [
    .callAssign ["#c1"] "i" "Iter.Advance" [] [],
    .ite (.bin .ne (.v "#c1") (.u8 0)) [] [.brk],
    .callAssign ["elem", "err"] "i" "Iter.Interface" [] [],
    .ite (.bin .ne (.v "err") (.bool false)) [.ret [.nilA, (.v "err")]] [],
    .assign "dst" (.pushA (.v "dst") (.v "elem"))]

theorem arrBody_eq : (goArray_Interface.body.drop 8).headD .brk = .loop arrBody := rfl

def arrVars : List String := "#c1" :: "elem" :: "err" :: "dst" :: "Strings.B" :: "Message" :: fieldsOf "i"

/-- fuel of the interpreter for model fuel `mf` -/
def goFuel (pj : PJ) (mf : Nat) : Nat := 3 * mf + (pj.tape.size + 10)

def LoopPost (pj : PJ) (vars : List String) (e : Env) (o : Out) : Res IVal → Prop
  | .ok v => ∃ e', o = .normal ⟨e', pj.tape⟩ ∧ e'.get "dst" = some (.iface v) ∧
      e'.get "Strings.B" = some (.bytes pj.strings) ∧ e'.get "Message" = some (.bytes pj.msg) ∧
      (∀ k, k ∉ vars → e'.get k = e.get k)
  | .error _ => ∃ e' x, o = .ret ⟨e', pj.tape⟩ [.iface x, .bool true] ∧
      e'.get "Strings.B" = some (.bytes pj.strings) ∧ e'.get "Message" = some (.bytes pj.msg) ∧
      (∀ k, k ∉ vars → e'.get k = e.get k)
  | .panic => o = .panic
  | .diverge => True

theorem arr_loop (pj : PJ) : ∀ (mf F : Nat), goFuel pj mf ≤ F →
    (∀ m f, m < mf → goFuel pj m ≤ f → SpecI pj m f) →
    ∀ (e : Env) (j : Iter) (acc : List IVal), iterAt e "i" = some j → j.lim ≤ pj.tape.size →
      e.get "Strings.B" = some (.bytes pj.strings) → e.get "Message" = some (.bytes pj.msg) →
      e.get "dst" = some (.iface (.arr acc.reverse)) →
      LoopPost pj arrVars e (exec1 goFuns F (.loop arrBody) ⟨e, pj.tape⟩) (arrV pj j acc mf) := by
  intro mf
  induction mf with
  | zero => intro F hF hP e j acc hI hl hS hM hD; simp [arrV, LoopPost]
  | succ n ih =>
    intro F hF hP e j acc hI hl hS hM hD
    unfold goFuel at hF
    obtain ⟨F2, rfl⟩ : ∃ F2, F = F2 + 2 := ⟨F - 2, by omega⟩
    rw [arrV, exec1]
    -- i.Advance()
    have hadv := GoDelete.callFun_advance pj ⟨e, pj.tape⟩ "i" j F2 hl rfl hI hS hM (by omega)
    cases hr : j.advance pj with
    | error er => rw [hr] at hadv; exact hadv.elim
    | diverge => rw [hr] at hadv; exact hadv.elim
    | panic =>
      rw [hr] at hadv
      simp only [] at hadv
      have hE2 : exec1 goFuns (F2 + 1) (.callAssign ["#c1"] "i" "Iter.Advance" [] []) ⟨e, pj.tape⟩ = .panic := by
        rw [exec1, hadv]
      rw [arrBody, exec_cons, hE2]
      simp only [bind, Res.bind, LoopPost]
    | ok r =>
      obtain ⟨j', t⟩ := r
      rw [hr] at hadv
      simp only [] at hadv
      have hl' : j'.lim ≤ pj.tape.size := by rw [advance_lim pj j j' t hr]; exact hl
      simp only [bind, Res.bind]
      -- the store after `#c1 := i.Advance()`
      have hE2 : exec1 goFuns (F2 + 1) (.callAssign ["#c1"] "i" "Iter.Advance" [] []) ⟨e, pj.tape⟩ =
          .normal ⟨(((setIter e "i" j').set "Strings.B" (.bytes pj.strings)).set "Message" (.bytes pj.msg)).set "#c1" (.u8 t),
            pj.tape⟩ := by
        rw [exec1, hadv]; rfl
      generalize hE2d : (((setIter e "i" j').set "Strings.B" (.bytes pj.strings)).set "Message" (.bytes pj.msg)).set "#c1" (.u8 t)
        = E2 at hE2
      have g_c1 : E2.get "#c1" = some (.u8 t) := by rw [← hE2d]; exact Env.get_set_self _ _ _
      have g_S : E2.get "Strings.B" = some (.bytes pj.strings) := by
        rw [← hE2d, Env.get_set_ne _ _ (by decide), Env.get_set_ne _ _ (by decide)]; exact Env.get_set_self _ _ _
      have g_M : E2.get "Message" = some (.bytes pj.msg) := by
        rw [← hE2d, Env.get_set_ne _ _ (by decide)]; exact Env.get_set_self _ _ _
      have g_I : iterAt E2 "i" = some j' := by
        rw [← hE2d, iterAt_set_ne _ _ _ _ (by decide), iterAt_set_ne _ _ _ _ (by decide), iterAt_set_ne _ _ _ _ (by decide)]
        exact iterAt_setIter_i _ _
      have g_fr : ∀ k, k ∉ arrVars → E2.get k = e.get k := by
        intro k hk
        simp only [arrVars, List.mem_cons, not_or] at hk
        rw [← hE2d, Env.get_set_ne _ _ (Ne.symm hk.1), Env.get_set_ne _ _ (Ne.symm hk.2.2.2.2.2.1),
          Env.get_set_ne _ _ (Ne.symm hk.2.2.2.2.1), get_setIter_ne _ _ _ _ hk.2.2.2.2.2.2]
      have g_D : E2.get "dst" = some (.iface (.arr acc.reverse)) := by
        rw [← hE2d, Env.get_set_ne _ _ (by decide), Env.get_set_ne _ _ (by decide), Env.get_set_ne _ _ (by decide),
          get_setIter_ne _ _ _ _ (by decide), hD]
      by_cases ht : t = 0
      · -- TypeNone: the loop ends
        subst ht
        have hS2 : exec1 goFuns (F2 + 1) (.ite (.bin .ne (.v "#c1") (.u8 0)) [] [.brk]) ⟨E2, pj.tape⟩ = .brk ⟨E2, pj.tape⟩ := by
          simp only [exec1, evalE, g_c1, binop, UInt8.reduceOfNat, bne_self_eq_false, exec]
        rw [arrBody, exec_cons, hE2]
        simp only []
        rw [exec_cons, hS2]
        simp only [typeNone, beq_self_eq_true, if_true, LoopPost]
        exact ⟨E2, rfl, g_D, g_S, g_M, g_fr⟩
      · have htn : (t == typeNone) = false := by simp [typeNone, ht]
        have htb : (t != 0) = true := by simp [ht]
        simp only [htn, Bool.false_eq_true, if_false]
        have hci := call_iface pj E2 "i" "elem" "err" j' F2 n (hP n F2 (Nat.lt_succ_self n) (by unfold goFuel; omega)) g_I g_S g_M hl'
          (by decide) (by decide) (by decide) (by decide) (by decide) (by decide) (by decide)
        have hS2 : exec1 goFuns (F2 + 1) (.ite (.bin .ne (.v "#c1") (.u8 0)) [] [.brk]) ⟨E2, pj.tape⟩ = .normal ⟨E2, pj.tape⟩ := by
          simp only [exec1, evalE, g_c1, binop, UInt8.reduceOfNat, htb, exec]
        rw [arrBody, exec_cons, hE2]
        simp only []
        rw [exec_cons, hS2]
        simp only []
        rw [exec_cons]
        generalize exec1 goFuns (F2 + 1) (.callAssign ["elem", "err"] "i" "Iter.Interface" [] []) ⟨E2, pj.tape⟩ = o3 at hci ⊢
        cases hv : interfaceV pj j' n with
        | diverge => trivial
        | panic =>
          rw [hv] at hci
          simp only [IfacePost] at hci
          subst hci
          rfl
        | error er =>
          rw [hv] at hci
          obtain ⟨e3, x3, rfl, a1, a2, a3, a4⟩ := hci
          have h4 : exec1 goFuns (F2 + 1) (.ite (.bin .ne (.v "err") (.bool false)) [.ret [.nilA, (.v "err")]] []) ⟨e3, pj.tape⟩ =
              .ret ⟨e3, pj.tape⟩ [.iface (.arr []), .bool true] := by
            simp only [exec1, evalE, evalEs, a2, binop, exec]
            rfl
          simp only []
          rw [exec_cons, h4]
          refine ⟨e3, _, rfl, ?_, ?_, ?_⟩
          · rw [a4 _ (by decide)]; exact g_S
          · rw [a4 _ (by decide)]; exact g_M
          · intro k hk
            have hk' := hk
            simp only [arrVars, List.mem_cons, not_or] at hk'
            rw [a4 k (by simp only [List.mem_cons, not_or]; exact ⟨hk'.2.1, hk'.2.2.1, hk'.2.2.2.2.2.2⟩)]
            exact g_fr k hk
        | ok v =>
          rw [hv] at hci
          obtain ⟨e3, rfl, a1, a2, a3, a4⟩ := hci
          have d3 : e3.get "dst" = some (.iface (.arr acc.reverse)) := by rw [a4 _ (by decide)]; exact g_D
          have h4 : exec1 goFuns (F2 + 1) (.ite (.bin .ne (.v "err") (.bool false)) [.ret [.nilA, (.v "err")]] []) ⟨e3, pj.tape⟩ =
              .normal ⟨e3, pj.tape⟩ := by
            simp only [exec1, evalE, evalEs, a2, binop, exec]
            rfl
          have h5 : exec1 goFuns (F2 + 1) (.assign "dst" (.pushA (.v "dst") (.v "elem"))) ⟨e3, pj.tape⟩ =
              .normal ⟨e3.set "dst" (.iface (.arr (acc.reverse ++ [v]))), pj.tape⟩ := by
            simp only [exec1, evalE, d3, a1]
          simp only []
          rw [exec_cons, h4]
          simp only []
          rw [exec_cons, h5]
          simp only [exec]
          have hih := ih (F2 + 1) (by unfold goFuel; omega) (fun m f hm hf => hP m f (Nat.lt_succ_of_lt hm) hf)
            (e3.set "dst" (.iface (.arr (acc.reverse ++ [v])))) j' (v :: acc)
            (by rw [iterAt_set_ne _ _ _ _ (by decide)]; exact a3) hl'
            (by rw [Env.get_set_ne _ _ (by decide), a4 _ (by decide)]; exact g_S)
            (by rw [Env.get_set_ne _ _ (by decide), a4 _ (by decide)]; exact g_M)
            (by rw [Env.get_set_self]; simp)
          rw [arrBody] at hih
          have hfr : ∀ k, k ∉ arrVars → (e3.set "dst" (.iface (.arr (acc.reverse ++ [v])))).get k = e.get k := by
            intro k hk
            have hk' := hk
            simp only [arrVars, List.mem_cons, not_or] at hk'
            rw [Env.get_set_ne _ _ (Ne.symm hk'.2.2.2.1),
              a4 k (by simp only [List.mem_cons, not_or]; exact ⟨hk'.2.1, hk'.2.2.1, hk'.2.2.2.2.2.2⟩)]
            exact g_fr k hk
          cases hw : arrV pj j' (v :: acc) n with
          | diverge => trivial
          | panic => rw [hw] at hih; simp only [LoopPost] at hih; rw [hih]; rfl
          | error er =>
            rw [hw] at hih
            obtain ⟨e5, x, h0, b1, b2, b3⟩ := hih
            rw [h0]
            exact ⟨e5, x, rfl, b1, b2, fun k hk => by rw [b3 k hk, hfr k hk]⟩
          | ok w =>
            rw [hw] at hih
            obtain ⟨e5, h0, b0, b1, b2, b3⟩ := hih
            rw [h0]
            exact ⟨e5, rfl, b0, b1, b2, fun k hk => by rw [b3 k hk, hfr k hk]⟩

/-! ## `Array.Interface`: what is in front of the loop, and the whole function -/

def arrInit : List Stmt := goArray_Interface.body.take 8

theorem arr_split : goArray_Interface.body = arrInit ++ [.loop arrBody, .ret [(.v "dst"), (.bool false)]] := rfl

theorem arr_init (F : Nat) (e : Env) (a : View) (tape : Array UInt64) (h1 : e.get "a.off" = some (.int a.off))
    (h2 : e.get "a.lim" = some (.int a.lim)) :
    ∃ e1, exec goFuns F arrInit ⟨e, tape⟩ = .normal ⟨e1, tape⟩ ∧ iterAt e1 "i" = some a.iter ∧
      e1.get "dst" = some (.iface (.arr [])) ∧ (∀ k, k ∉ "lenEst" :: "dst" :: fieldsOf "i" → e1.get k = e.get k) := by
  have hfr : ∀ (E : Env) (x y : Val) (j : Iter) (k : String), k ∉ "lenEst" :: "dst" :: fieldsOf "i" →
      (∀ k, k ≠ "lenEst" → E.get k = e.get k) →
      ((((((E.set "dst" x).set "i.off" (.int j.off)).set "i.addNext" (.int j.addNext)).set "i.cur" (.u64 j.cur)).set "i.t"
        (.u8 j.t)).set "i.lim" (.int j.lim)).get k = e.get k := by
    intro E x y j k hk hE
    simp only [fieldsOf, List.mem_cons, List.not_mem_nil, or_false, not_or, String.reduceAppend] at hk
    rw [Env.get_set_ne _ _ (Ne.symm hk.2.2.2.2.2.2), Env.get_set_ne _ _ (Ne.symm hk.2.2.2.2.2.1),
      Env.get_set_ne _ _ (Ne.symm hk.2.2.2.2.1), Env.get_set_ne _ _ (Ne.symm hk.2.2.2.1),
      Env.get_set_ne _ _ (Ne.symm hk.2.2.1), Env.get_set_ne _ _ (Ne.symm hk.2.1), hE k hk.1]
  by_cases hx : Int.tdiv ((a.lim : Int) - a.off - 1) 2 < 0
  · simp only [arrInit, goArray_Interface, List.take, exec, exec1, evalE, String.reduceAppend, h1, h2, binop, Env.get_set_self,
      Env.get_set_ne _ _ (show "lenEst" ≠ "a.off" by decide), Env.get_set_ne _ _ (show "lenEst" ≠ "a.lim" by decide),
      Env.get_set_ne _ _ (show "dst" ≠ "a.off" by decide), Env.get_set_ne _ _ (show "dst" ≠ "a.lim" by decide),
      Env.get_set_ne _ _ (show "i.off" ≠ "a.lim" by decide), Env.get_set_ne _ _ (show "i.addNext" ≠ "a.lim" by decide),
      Env.get_set_ne _ _ (show "i.cur" ≠ "a.lim" by decide), Env.get_set_ne _ _ (show "i.t" ≠ "a.lim" by decide),
      show ((2 : Int) = 0) = False from by decide, if_false, hx, decide_true]
    refine ⟨_, rfl, ?_, ?_, ?_⟩
    · apply iterAt_of_gets <;> simp [Env.get_set, View.iter, tagEnd]
    · simp [Env.get_set]
    · intro k hk
      exact hfr _ _ (.int 0) a.iter k hk (fun k hk => by rw [Env.get_set_ne _ _ (Ne.symm hk), Env.get_set_ne _ _ (Ne.symm hk)])
  · simp only [arrInit, goArray_Interface, List.take, exec, exec1, evalE, String.reduceAppend, h1, h2, binop, Env.get_set_self,
      Env.get_set_ne _ _ (show "lenEst" ≠ "a.off" by decide), Env.get_set_ne _ _ (show "lenEst" ≠ "a.lim" by decide),
      Env.get_set_ne _ _ (show "dst" ≠ "a.off" by decide), Env.get_set_ne _ _ (show "dst" ≠ "a.lim" by decide),
      Env.get_set_ne _ _ (show "i.off" ≠ "a.lim" by decide), Env.get_set_ne _ _ (show "i.addNext" ≠ "a.lim" by decide),
      Env.get_set_ne _ _ (show "i.cur" ≠ "a.lim" by decide), Env.get_set_ne _ _ (show "i.t" ≠ "a.lim" by decide),
      show ((2 : Int) = 0) = False from by decide, if_false, hx, decide_false]
    refine ⟨_, rfl, ?_, ?_, ?_⟩
    · apply iterAt_of_gets <;> simp [Env.get_set, View.iter, tagEnd]
    · simp [Env.get_set]
    · intro k hk
      exact hfr _ _ (.int 0) a.iter k hk (fun k hk => by rw [Env.get_set_ne _ _ (Ne.symm hk)])

/-- `Array.Interface` on any store holding the receiver and the document -/
def SimA (pj : PJ) (a : View) (o : Out) : Res IVal → Prop
  | .ok v => ∃ s, o = .ret s [.iface v, .bool false] ∧ Keeps pj s ∧ viewAt s.env "a" = some a
  | .error _ => ∃ s x, o = .ret s [.iface x, .bool true] ∧ Keeps pj s ∧ viewAt s.env "a" = some a
  | .panic => o = .panic
  | .diverge => True

theorem arr_fun (pj : PJ) (mf F : Nat) (hF : goFuel pj mf ≤ F) (hP : ∀ m f, m < mf → goFuel pj m ≤ f → SpecI pj m f)
    (e : Env) (a : View) (hv : viewAt e "a" = some a) (hl : a.lim ≤ pj.tape.size)
    (hS : e.get "Strings.B" = some (.bytes pj.strings)) (hM : e.get "Message" = some (.bytes pj.msg)) :
    SimA pj a (exec goFuns F goArray_Interface.body ⟨e, pj.tape⟩) (arrV pj a.iter [] mf) := by
  obtain ⟨v1, v2⟩ := viewAt_get e "a" a hv
  simp only [String.reduceAppend] at v1 v2
  obtain ⟨e1, hx, hI1, hD1, hfr1⟩ := arr_init F e a pj.tape v1 v2
  have hS1 : e1.get "Strings.B" = some (.bytes pj.strings) := by rw [hfr1 _ (by decide)]; exact hS
  have hM1 : e1.get "Message" = some (.bytes pj.msg) := by rw [hfr1 _ (by decide)]; exact hM
  have hloop := arr_loop pj mf F hF hP e1 a.iter [] hI1 hl hS1 hM1 hD1
  have hview : ∀ e' : Env, (∀ k, k ∉ arrVars → e'.get k = e1.get k) → viewAt e' "a" = some a := by
    intro e' h
    apply viewAt_of_gets
    · simp only [String.reduceAppend]; rw [h _ (by decide), hfr1 _ (by decide)]; exact v1
    · simp only [String.reduceAppend]; rw [h _ (by decide), hfr1 _ (by decide)]; exact v2
  rw [arr_split, exec_append, hx]
  simp only []
  rw [exec_cons]
  cases hr : arrV pj a.iter [] mf with
  | diverge => trivial
  | panic => rw [hr] at hloop; simp only [LoopPost] at hloop; rw [hloop]; rfl
  | error er =>
    rw [hr] at hloop
    obtain ⟨e', x, h0, b1, b2, b3⟩ := hloop
    rw [h0]
    exact ⟨⟨e', pj.tape⟩, x, rfl, ⟨rfl, b1, b2⟩, hview e' b3⟩
  | ok w =>
    rw [hr] at hloop
    obtain ⟨e', h0, b0, b1, b2, b3⟩ := hloop
    rw [h0]
    simp only [exec, exec1, evalEs, evalE, b0]
    exact ⟨⟨e', pj.tape⟩, rfl, ⟨rfl, b1, b2⟩, hview e' b3⟩

/-! ## `NextElementBytes` keeps the view; the element's view lies inside it -/

theorem neb_lims (pj : PJ) : ∀ (fuel : Nat) (o o' : View) (r : Option (Bytes × Iter × UInt8)),
    View.nextElementBytes pj o fuel = .ok (o', r) →
    o'.lim = o.lim ∧ ∀ nm it ty, r = some (nm, it, ty) → it.lim ≤ o.lim := by
  intro fuel
  induction fuel with
  | zero => intro o o' r h; cases h
  | succ n ih =>
    intro o o' r h
    rw [View.nextElementBytes] at h
    split at h
    · simp only [Res.ok.injEq, Prod.mk.injEq] at h
      obtain ⟨rfl, rfl⟩ := h
      exact ⟨rfl, fun _ _ _ hh => by cases hh⟩
    · cases h0 : rd pj.tape o.off with
      | ok w =>
        rw [h0] at h
        simp only [Res.bind_ok] at h
        split at h
        · split at h
          · cases h
          · cases h1 : rd pj.tape (o.off + 1) with
            | ok len =>
              rw [h1] at h
              simp only [Res.bind_ok] at h
              cases h2 : stringByteAt pj (payloadOf w) len with
              | ok name =>
                rw [h2] at h
                simp only [Res.bind_ok] at h
                cases h3 : rd pj.tape (o.off + 2) with
                | ok w2 =>
                  rw [h3] at h
                  simp only [Res.bind_ok] at h
                  split at h
                  · cases h
                  · split at h
                    · cases h
                    · rename_i hgt
                      simp only [Res.ok.injEq, Prod.mk.injEq] at h
                      obtain ⟨rfl, rfl⟩ := h
                      refine ⟨rfl, fun nm it ty hh => ?_⟩
                      simp only [Option.some.injEq, Prod.mk.injEq] at hh
                      obtain ⟨_, hit, _⟩ := hh
                      rw [← hit]
                      simp only
                      omega
                | error e => rw [h3] at h; cases h
                | panic => rw [h3] at h; cases h
                | diverge => rw [h3] at h; cases h
              | error e => rw [h2] at h; cases h
              | panic => rw [h2] at h; cases h
              | diverge => rw [h2] at h; cases h
            | error e => rw [h1] at h; cases h
            | panic => rw [h1] at h; cases h
            | diverge => rw [h1] at h; cases h
        · split at h
          · simp only [Res.ok.injEq, Prod.mk.injEq] at h
            obtain ⟨rfl, rfl⟩ := h
            exact ⟨rfl, fun _ _ _ hh => by cases hh⟩
          · split at h
            · split at h
              · cases h
              · exact ih { lim := o.lim, off := o.off + (payloadOf w).toNat } o' r h
            · cases h
      | error e => rw [h0] at h; cases h
      | panic => rw [h0] at h; cases h
      | diverge => rw [h0] at h; cases h

/-! ## the loop of `Object.Map` -/

def mapBody : List Stmt := [
    GoElems.sNE,
    .ite (.bin .ne (.v "err") (.bool false)) [.ret [.nilM, (.v "err")]] [],
    .ite (.bin .eq (.v "t") (.u8 0)) [.brk] [],
    .callAssign ["#c1", "err"] "tmp" "Iter.Interface" [] [],
    .mapSetV "dst" (.v "name") (.v "#c1"),
    .ite (.bin .ne (.v "err") (.bool false)) [.ret [.nilM, (.bool true)]] []]

theorem mapBody_eq : (goObject_Map.body.drop 6).headD .brk = .loop mapBody := rfl

def neVars : List String := "name" :: "t" :: "err" :: "Strings.B" :: "Message" :: "o.off" :: "o.lim" :: fieldsOf "tmp"
def mapVars : List String := "#c1" :: "dst" :: neVars

theorem afterNE_facts (e : Env) (pj : PJ) (v' : View) (d' : Iter) (a b c : Val) :
    (GoElems.afterNE e pj v' d' a b c).get "err" = some c ∧ (GoElems.afterNE e pj v' d' a b c).get "t" = some b ∧
    (GoElems.afterNE e pj v' d' a b c).get "name" = some a ∧
    (GoElems.afterNE e pj v' d' a b c).get "Strings.B" = some (.bytes pj.strings) ∧
    (GoElems.afterNE e pj v' d' a b c).get "Message" = some (.bytes pj.msg) ∧
    viewAt (GoElems.afterNE e pj v' d' a b c) "o" = some v' ∧ iterAt (GoElems.afterNE e pj v' d' a b c) "tmp" = some d' ∧
    (∀ k, k ∉ neVars → (GoElems.afterNE e pj v' d' a b c).get k = e.get k) := by
  refine ⟨?_, ?_, ?_, ?_, ?_, ?_, ?_, ?_⟩
  · simp [GoElems.afterNE, Env.get_set]
  · simp [GoElems.afterNE, Env.get_set]
  · simp [GoElems.afterNE, Env.get_set]
  · simp [GoElems.afterNE, Env.get_set]
  · simp [GoElems.afterNE, Env.get_set]
  · apply viewAt_of_gets <;> simp [GoElems.afterNE, Env.get_set, setIter]
  · apply iterAt_of_gets <;> simp [GoElems.afterNE, Env.get_set, setIter]
  · intro k hk
    simp only [neVars, List.mem_cons, not_or] at hk
    obtain ⟨k1, k2, k3, k4, k5, k6, k7, k8⟩ := hk
    rw [GoElems.afterNE, Env.get_set_ne _ _ (Ne.symm k3), Env.get_set_ne _ _ (Ne.symm k2), Env.get_set_ne _ _ (Ne.symm k1),
      Env.get_set_ne _ _ (Ne.symm k5), Env.get_set_ne _ _ (Ne.symm k4), get_setIter_ne _ _ _ _ k8,
      Env.get_set_ne _ _ (Ne.symm k7), Env.get_set_ne _ _ (Ne.symm k6)]

def LoopPostM (pj : PJ) (e : Env) (o : Out) : Res (List (Bytes × IVal)) → Prop
  | .ok m => ∃ e', o = .normal ⟨e', pj.tape⟩ ∧ e'.get "dst" = some (.iface (.obj m)) ∧
      e'.get "Strings.B" = some (.bytes pj.strings) ∧ e'.get "Message" = some (.bytes pj.msg) ∧
      (∃ v, viewAt e' "o" = some v) ∧ (∀ k, k ∉ mapVars → e'.get k = e.get k)
  | .error _ => ∃ e' x, o = .ret ⟨e', pj.tape⟩ [.iface x, .bool true] ∧
      e'.get "Strings.B" = some (.bytes pj.strings) ∧ e'.get "Message" = some (.bytes pj.msg) ∧
      (∃ v, viewAt e' "o" = some v) ∧ (∀ k, k ∉ mapVars → e'.get k = e.get k)
  | .panic => o = .panic
  | .diverge => True

theorem viewAt_set_ne (e : Env) (k : String) (x : Val) (h1 : k ≠ "o.off") (h2 : k ≠ "o.lim") :
    viewAt (e.set k x) "o" = viewAt e "o" := by
  simp only [viewAt, String.reduceAppend, Env.get_set_ne _ _ h1, Env.get_set_ne _ _ h2]

theorem map_loop (pj : PJ) (hb : BufOK pj) : ∀ (mf F : Nat), goFuel pj mf ≤ F →
    (∀ m f, m < mf → goFuel pj m ≤ f → SpecI pj m f) →
    ∀ (e : Env) (o : View) (d : Iter) (acc : List (Bytes × IVal)), viewAt e "o" = some o → o.lim ≤ pj.tape.size →
      iterAt e "tmp" = some d →
      e.get "Strings.B" = some (.bytes pj.strings) → e.get "Message" = some (.bytes pj.msg) →
      e.get "dst" = some (.iface (.obj acc)) →
      LoopPostM pj e (exec1 goFuns F (.loop mapBody) ⟨e, pj.tape⟩) (mapV pj o acc mf) := by
  intro mf
  induction mf with
  | zero => intro F hF hP e o d acc hv hl hd hS hM hD; simp [mapV, LoopPostM]
  | succ n ih =>
    intro F hF hP e o d acc hv hl hd hS hM hD
    unfold goFuel at hF
    obtain ⟨F2, rfl⟩ : ∃ F2, F = F2 + 2 := ⟨F - 2, by omega⟩
    rw [mapV]
    by_cases hfu : n < o.lim - o.off + 1
    · simp only [hfu, if_true, LoopPostM]
    simp only [hfu, if_false]
    rw [exec1]
    have hne := GoElems.call_ne pj hb e o d (F2 + 1) n hl hv hd hS hM (by omega) (by omega)
    rw [mapBody, exec_cons]
    generalize exec1 goFuns (F2 + 1) GoElems.sNE ⟨e, pj.tape⟩ = o1 at hne ⊢
    cases hr : View.nextElementBytes pj o n with
    | diverge => rw [hr] at hne; exact hne.elim
    | panic => rw [hr] at hne; simp only [GoElems.NEPost] at hne; subst hne; rfl
    | error er =>
      rw [hr] at hne
      obtain ⟨v', d', rfl⟩ := hne
      obtain ⟨f1, f2, f3, f4, f5, f6, f7, f8⟩ := afterNE_facts e pj v' d' (.bytes #[]) (.u8 typeNone) (.bool true)
      generalize GoElems.afterNE e pj v' d' (.bytes #[]) (.u8 typeNone) (.bool true) = E at f1 f2 f3 f4 f5 f6 f7 f8 ⊢
      have h2 : exec1 goFuns (F2 + 1) (.ite (.bin .ne (.v "err") (.bool false)) [.ret [.nilM, (.v "err")]] []) ⟨E, pj.tape⟩ =
          .ret ⟨E, pj.tape⟩ [.iface (.obj []), .bool true] := by
        simp only [exec1, evalE, evalEs, f1, binop, exec]
        rfl
      simp only []
      rw [exec_cons, h2]
      exact ⟨E, _, rfl, f4, f5, ⟨v', f6⟩, fun k hk => f8 k (by simp only [mapVars, List.mem_cons, not_or] at hk; exact hk.2.2)⟩
    | ok r =>
      rw [hr] at hne
      obtain ⟨o', x⟩ := r
      obtain ⟨hlim', hit⟩ := neb_lims pj n o o' x hr
      have hl' : o'.lim ≤ pj.tape.size := by rw [hlim']; exact hl
      -- the two checks after `NextElement` on a store `E` that holds `err = nil`
      have h2 : ∀ E : Env, E.get "err" = some (.bool false) →
          exec1 goFuns (F2 + 1) (.ite (.bin .ne (.v "err") (.bool false)) [.ret [.nilM, (.v "err")]] []) ⟨E, pj.tape⟩ =
            .normal ⟨E, pj.tape⟩ := by
        intro E h
        simp only [exec1, evalE, evalEs, h, binop, exec]
        rfl
      have h3 : ∀ (E : Env) (ty : UInt8), E.get "t" = some (.u8 ty) →
          exec1 goFuns (F2 + 1) (.ite (.bin .eq (.v "t") (.u8 0)) [.brk] []) ⟨E, pj.tape⟩ =
            if ty = 0 then .brk ⟨E, pj.tape⟩ else .normal ⟨E, pj.tape⟩ := by
        intro E ty h
        by_cases h0 : ty = 0
        · subst h0; simp only [exec1, evalE, h, binop, UInt8.reduceOfNat, beq_self_eq_true, exec, exec1, if_true]
        · have : (ty == 0) = false := by simp [h0]
          simp only [exec1, evalE, h, binop, UInt8.reduceOfNat, this, exec, if_neg h0]
      have hfrM : ∀ (E : Env), (∀ k, k ∉ neVars → E.get k = e.get k) → ∀ k, k ∉ mapVars → E.get k = e.get k :=
        fun E h k hk => h k (by simp only [mapVars, List.mem_cons, not_or] at hk; exact hk.2.2)
      cases x with
      | none =>
        simp only [GoElems.NEPost] at hne
        subst hne
        obtain ⟨f1, f2, f3, f4, f5, f6, f7, f8⟩ := afterNE_facts e pj o' d (.bytes #[]) (.u8 typeNone) (.bool false)
        generalize GoElems.afterNE e pj o' d (.bytes #[]) (.u8 typeNone) (.bool false) = E at f1 f2 f3 f4 f5 f6 f7 f8 ⊢
        simp only []
        rw [exec_cons, h2 E f1]
        simp only []
        rw [exec_cons, h3 E _ f2]
        simp only [typeNone, if_true, bind, Res.bind, LoopPostM]
        exact ⟨E, rfl, by rw [f8 _ (by decide)]; exact hD, f4, f5, ⟨o', f6⟩, hfrM E f8⟩
      | some y =>
        obtain ⟨nm, it, ty⟩ := y
        simp only [GoElems.NEPost] at hne
        subst hne
        have hitl : it.lim ≤ pj.tape.size := Nat.le_trans (hit nm it ty rfl) hl
        obtain ⟨f1, f2, f3, f4, f5, f6, f7, f8⟩ := afterNE_facts e pj o' it (.bytes nm) (.u8 ty) (.bool false)
        generalize GoElems.afterNE e pj o' it (.bytes nm) (.u8 ty) (.bool false) = E at f1 f2 f3 f4 f5 f6 f7 f8 ⊢
        have fD : E.get "dst" = some (.iface (.obj acc)) := by rw [f8 _ (by decide)]; exact hD
        simp only []
        rw [exec_cons, h2 E f1]
        simp only []
        rw [exec_cons, h3 E _ f2]
        simp only [bind, Res.bind]
        by_cases hty : ty = 0
        · subst hty
          simp only [typeNone, if_true, beq_self_eq_true, LoopPostM]
          exact ⟨E, rfl, fD, f4, f5, ⟨o', f6⟩, hfrM E f8⟩
        · have htn : (ty == typeNone) = false := by simp [typeNone, hty]
          simp only [hty, if_false, htn, Bool.false_eq_true]
          have hci := call_iface pj E "tmp" "#c1" "err" it F2 n (hP n F2 (Nat.lt_succ_self n) (by unfold goFuel; omega)) f7 f4 f5
            hitl (by decide) (by decide) (by decide) (by decide) (by decide) (by decide) (by decide)
          rw [exec_cons]
          generalize exec1 goFuns (F2 + 1) (.callAssign ["#c1", "err"] "tmp" "Iter.Interface" [] []) ⟨E, pj.tape⟩ = o3 at hci ⊢
          cases hv' : interfaceV pj it n with
          | diverge => trivial
          | panic => rw [hv'] at hci; simp only [IfacePost] at hci; subst hci; rfl
          | error er =>
            rw [hv'] at hci
            obtain ⟨e3, x3, rfl, a1, a2, a3, a4⟩ := hci
            have d3 : e3.get "dst" = some (.iface (.obj acc)) := by rw [a4 _ (by decide)]; exact fD
            have n3 : e3.get "name" = some (.bytes nm) := by rw [a4 _ (by decide)]; exact f3
            have h5 : exec1 goFuns (F2 + 1) (.mapSetV "dst" (.v "name") (.v "#c1")) ⟨e3, pj.tape⟩ =
                .normal ⟨e3.set "dst" (.iface (.obj (mapInsert acc nm x3))), pj.tape⟩ := by
              simp only [exec1, evalE, d3, n3, a1]
            have h6 : exec1 goFuns (F2 + 1) (.ite (.bin .ne (.v "err") (.bool false)) [.ret [.nilM, (.bool true)]] [])
                ⟨e3.set "dst" (.iface (.obj (mapInsert acc nm x3))), pj.tape⟩ =
                .ret ⟨e3.set "dst" (.iface (.obj (mapInsert acc nm x3))), pj.tape⟩ [.iface (.obj []), .bool true] := by
              simp only [exec1, evalE, evalEs, Env.get_set_ne _ _ (show "dst" ≠ "err" by decide), a2, binop, exec]
              rfl
            simp only []
            rw [exec_cons, h5]
            simp only []
            rw [exec_cons, h6]
            refine ⟨_, _, rfl, ?_, ?_, ⟨o', ?_⟩, ?_⟩
            · rw [Env.get_set_ne _ _ (by decide), a4 _ (by decide)]; exact f4
            · rw [Env.get_set_ne _ _ (by decide), a4 _ (by decide)]; exact f5
            · rw [viewAt_set_ne _ _ _ (by decide) (by decide)]
              apply viewAt_of_gets
              · simp only [String.reduceAppend]; rw [a4 _ (by decide)]; exact (viewAt_get _ _ _ f6).1
              · simp only [String.reduceAppend]; rw [a4 _ (by decide)]; exact (viewAt_get _ _ _ f6).2
            · intro k hk
              have hk' := hk
              simp only [mapVars, neVars, List.mem_cons, not_or] at hk'
              rw [Env.get_set_ne _ _ (Ne.symm hk'.2.1),
                a4 k (by simp only [List.mem_cons, not_or]; exact ⟨hk'.1, hk'.2.2.2.2.1, hk'.2.2.2.2.2.2.2.2.2⟩)]
              exact hfrM E f8 k hk
          | ok v =>
            rw [hv'] at hci
            obtain ⟨e3, rfl, a1, a2, a3, a4⟩ := hci
            have d3 : e3.get "dst" = some (.iface (.obj acc)) := by rw [a4 _ (by decide)]; exact fD
            have n3 : e3.get "name" = some (.bytes nm) := by rw [a4 _ (by decide)]; exact f3
            have h5 : exec1 goFuns (F2 + 1) (.mapSetV "dst" (.v "name") (.v "#c1")) ⟨e3, pj.tape⟩ =
                .normal ⟨e3.set "dst" (.iface (.obj (mapInsert acc nm v))), pj.tape⟩ := by
              simp only [exec1, evalE, d3, n3, a1]
            have h6 : exec1 goFuns (F2 + 1) (.ite (.bin .ne (.v "err") (.bool false)) [.ret [.nilM, (.bool true)]] [])
                ⟨e3.set "dst" (.iface (.obj (mapInsert acc nm v))), pj.tape⟩ =
                .normal ⟨e3.set "dst" (.iface (.obj (mapInsert acc nm v))), pj.tape⟩ := by
              simp only [exec1, evalE, evalEs, Env.get_set_ne _ _ (show "dst" ≠ "err" by decide), a2, binop, exec]
              rfl
            simp only []
            rw [exec_cons, h5]
            simp only []
            rw [exec_cons, h6]
            simp only [exec]
            have hv3 : viewAt (e3.set "dst" (.iface (.obj (mapInsert acc nm v)))) "o" = some o' := by
              rw [viewAt_set_ne _ _ _ (by decide) (by decide)]
              apply viewAt_of_gets
              · simp only [String.reduceAppend]; rw [a4 _ (by decide)]; exact (viewAt_get _ _ _ f6).1
              · simp only [String.reduceAppend]; rw [a4 _ (by decide)]; exact (viewAt_get _ _ _ f6).2
            have hih := ih (F2 + 1) (by unfold goFuel; omega) (fun m f hm hf => hP m f (Nat.lt_succ_of_lt hm) hf)
              (e3.set "dst" (.iface (.obj (mapInsert acc nm v)))) o' it (mapInsert acc nm v) hv3 hl'
              (by rw [iterAt_set_ne _ _ _ _ (by decide)]; exact a3)
              (by rw [Env.get_set_ne _ _ (by decide), a4 _ (by decide)]; exact f4)
              (by rw [Env.get_set_ne _ _ (by decide), a4 _ (by decide)]; exact f5)
              (Env.get_set_self _ _ _)
            rw [mapBody] at hih
            have hfr : ∀ k, k ∉ mapVars → (e3.set "dst" (.iface (.obj (mapInsert acc nm v)))).get k = e.get k := by
              intro k hk
              have hk' := hk
              simp only [mapVars, neVars, List.mem_cons, not_or] at hk'
              rw [Env.get_set_ne _ _ (Ne.symm hk'.2.1),
                a4 k (by simp only [List.mem_cons, not_or]; exact ⟨hk'.1, hk'.2.2.2.2.1, hk'.2.2.2.2.2.2.2.2.2⟩)]
              exact hfrM E f8 k hk
            cases hw : mapV pj o' (mapInsert acc nm v) n with
            | diverge => trivial
            | panic => rw [hw] at hih; simp only [LoopPostM] at hih; rw [hih]; rfl
            | error er =>
              rw [hw] at hih
              obtain ⟨e5, x, h0, b1, b2, b3, b4⟩ := hih
              rw [h0]
              exact ⟨e5, x, rfl, b1, b2, b3, fun k hk => by rw [b4 k hk, hfr k hk]⟩
            | ok w =>
              rw [hw] at hih
              obtain ⟨e5, h0, b0, b1, b2, b3, b4⟩ := hih
              rw [h0]
              exact ⟨e5, rfl, b0, b1, b2, b3, fun k hk => by rw [b4 k hk, hfr k hk]⟩

/-! ## `Object.Map`: the whole function -/

def mapInit : List Stmt := goObject_Map.body.take 6

theorem map_split : goObject_Map.body = mapInit ++ [.loop mapBody, .ret [(.v "dst"), (.bool false)]] := rfl

def zeroIter : Iter := { lim := 0, off := 0, addNext := 0, cur := 0, t := 0 }

theorem map_init (F : Nat) (e : Env) (tape : Array UInt64) (b : Bool) (acc : List (Bytes × IVal))
    (hD : e.get "dst" = some (.iface (.obj acc))) (hN : e.get "dst==nil" = some (.bool b)) (hb0 : b = true → acc = []) :
    ∃ e1, exec goFuns F mapInit ⟨e, tape⟩ = .normal ⟨e1, tape⟩ ∧ iterAt e1 "tmp" = some zeroIter ∧
      e1.get "dst" = some (.iface (.obj acc)) ∧ (∀ k, k ∉ "dst==nil" :: "dst" :: fieldsOf "tmp" → e1.get k = e.get k) := by
  have hfr : ∀ (E : Env) (k : String), k ∉ "dst==nil" :: "dst" :: fieldsOf "tmp" →
      (∀ k, k ≠ "dst==nil" → k ≠ "dst" → E.get k = e.get k) →
      (((((E.set "tmp.off" (.int 0)).set "tmp.addNext" (.int 0)).set "tmp.cur" (.u64 (UInt64.ofNat 0))).set "tmp.t"
        (.u8 (UInt8.ofNat 0))).set "tmp.lim" (.int 0)).get k = e.get k := by
    intro E k hk hE
    simp only [fieldsOf, List.mem_cons, List.not_mem_nil, or_false, not_or, String.reduceAppend] at hk
    rw [Env.get_set_ne _ _ (Ne.symm hk.2.2.2.2.2.2), Env.get_set_ne _ _ (Ne.symm hk.2.2.2.2.2.1),
      Env.get_set_ne _ _ (Ne.symm hk.2.2.2.2.1), Env.get_set_ne _ _ (Ne.symm hk.2.2.2.1),
      Env.get_set_ne _ _ (Ne.symm hk.2.2.1), hE k hk.1 hk.2.1]
  cases b with
  | true =>
    have hacc := hb0 rfl
    subst hacc
    simp only [mapInit, goObject_Map, List.take, exec, exec1, evalE, hN]
    refine ⟨_, rfl, ?_, ?_, ?_⟩
    · apply iterAt_of_gets <;> simp [Env.get_set, zeroIter]
    · simp [Env.get_set]
    · intro k hk
      exact hfr _ k hk (fun k h1 h2 => by rw [Env.get_set_ne _ _ (Ne.symm h2), Env.get_set_ne _ _ (Ne.symm h1)])
  | false =>
    simp only [mapInit, goObject_Map, List.take, exec, exec1, evalE, hN]
    refine ⟨_, rfl, ?_, ?_, ?_⟩
    · apply iterAt_of_gets <;> simp [Env.get_set, zeroIter]
    · simp [Env.get_set, hD]
    · intro k hk
      exact hfr _ k hk (fun k h1 h2 => rfl)

/-- `Object.Map` on any store holding the receiver, the parameter and the document -/
def SimM (pj : PJ) (o : Out) : Res (List (Bytes × IVal)) → Prop
  | .ok m => ∃ s, o = .ret s [.iface (.obj m), .bool false] ∧ Keeps pj s ∧ ∃ v, viewAt s.env "o" = some v
  | .error _ => ∃ s x, o = .ret s [.iface x, .bool true] ∧ Keeps pj s ∧ ∃ v, viewAt s.env "o" = some v
  | .panic => o = .panic
  | .diverge => True

theorem map_fun (pj : PJ) (hb : BufOK pj) (mf F : Nat) (hF : goFuel pj mf ≤ F)
    (hP : ∀ m f, m < mf → goFuel pj m ≤ f → SpecI pj m f)
    (e : Env) (o : View) (b : Bool) (acc : List (Bytes × IVal)) (hv : viewAt e "o" = some o) (hl : o.lim ≤ pj.tape.size)
    (hS : e.get "Strings.B" = some (.bytes pj.strings)) (hM : e.get "Message" = some (.bytes pj.msg))
    (hD : e.get "dst" = some (.iface (.obj acc))) (hN : e.get "dst==nil" = some (.bool b)) (hb0 : b = true → acc = []) :
    SimM pj (exec goFuns F goObject_Map.body ⟨e, pj.tape⟩) (mapV pj o acc mf) := by
  obtain ⟨e1, hx, hI1, hD1, hfr1⟩ := map_init F e pj.tape b acc hD hN hb0
  have hS1 : e1.get "Strings.B" = some (.bytes pj.strings) := by rw [hfr1 _ (by decide)]; exact hS
  have hM1 : e1.get "Message" = some (.bytes pj.msg) := by rw [hfr1 _ (by decide)]; exact hM
  obtain ⟨v1, v2⟩ := viewAt_get e "o" o hv
  simp only [String.reduceAppend] at v1 v2
  have hv1 : viewAt e1 "o" = some o := by
    apply viewAt_of_gets
    · simp only [String.reduceAppend]; rw [hfr1 _ (by decide)]; exact v1
    · simp only [String.reduceAppend]; rw [hfr1 _ (by decide)]; exact v2
  have hloop := map_loop pj hb mf F hF hP e1 o zeroIter acc hv1 hl hI1 hS1 hM1 hD1
  rw [map_split, exec_append, hx]
  simp only []
  rw [exec_cons]
  cases hr : mapV pj o acc mf with
  | diverge => trivial
  | panic => rw [hr] at hloop; simp only [LoopPostM] at hloop; rw [hloop]; rfl
  | error er =>
    rw [hr] at hloop
    obtain ⟨e', x, h0, b1, b2, b3, b4⟩ := hloop
    rw [h0]
    exact ⟨⟨e', pj.tape⟩, x, rfl, ⟨rfl, b1, b2⟩, b3⟩
  | ok w =>
    rw [hr] at hloop
    obtain ⟨e', h0, b0, b1, b2, b3, b4⟩ := hloop
    rw [h0]
    simp only [exec, exec1, evalEs, evalE, b0]
    exact ⟨⟨e', pj.tape⟩, rfl, ⟨rfl, b1, b2⟩, b3⟩

/-- the callee's frame of `i.Array(nil)` / `i.Object(nil)` -/
def viewFrame (pj : PJ) (j : Iter) : Env :=
  envOf "i" j ++ [("dst.off", .int 0), ("dst.lim", .int 0)] ++ bufEnv pj ++ [("dst==nil", .bool true)]

/-! ## `arr, err := i.Array(nil)`: the fresh destination is the caller's variable `arr#new` -/

def arrCall : Stmt := .callAssign ["arr", "err"] "i" "Iter.Array" ["arr#new"] [(.bool true)]

def back_arr (e : Env) : Out → Out
  | .ret s' rs =>
    (match copyFields s'.env "i" e "i" ["off", "addNext", "cur", "t", "lim"] with
     | some e2 =>
       (match copyPtrsBack s'.env e2 ["arr#new"] [("dst", ["off", "lim"])] with
        | some e3 => .ret { env := copyGlobals s'.env e3 globalVars, tape := s'.tape } rs
        | none => .stuck "pointer arguments back")
     | none => .stuck "receiver back")
  | .normal s' =>
    (match copyFields s'.env "i" e "i" ["off", "addNext", "cur", "t", "lim"] with
     | some e2 =>
       (match copyPtrsBack s'.env e2 ["arr#new"] [("dst", ["off", "lim"])] with
        | some e3 => .ret { env := copyGlobals s'.env e3 globalVars, tape := s'.tape } []
        | none => .stuck "pointer arguments back")
     | none => .stuck "receiver back")
  | .brk _ | .cont _ => .stuck "break outside loop"
  | o => o

theorem callFun_arrNew (pj : PJ) (e : Env) (tape : Array UInt64) (f : Nat) (j : Iter) (hC : iterAt e "i" = some j)
    (hO1 : e.get "arr#new.off" = some (.int 0)) (hO2 : e.get "arr#new.lim" = some (.int 0))
    (hS : e.get "Strings.B" = some (.bytes pj.strings)) (hM : e.get "Message" = some (.bytes pj.msg)) :
    callFun goFuns f "i" "Iter.Array" ["arr#new"] [(.bool true)] ⟨e, tape⟩ =
      back_arr e (exec goFuns f goIter_Array.body ⟨viewFrame pj j, tape⟩) := by
  obtain ⟨c1, c2, c3, c4, c5⟩ := iterAt_get_i _ _ hC
  have hfn : goFuns "Iter.Array" = some {
      recv := "i"
      params := ["dst==nil"]
      ptrParams := [("dst", ["off", "lim"])]
      body := goIter_Array.body } := rfl
  rw [callFun]
  simp [hfn, c1, c2, c3, c4, c5, hO1, hO2, hS, hM, copyPtrs, copyFields, bindParams, evalEs, evalE, copyGlobals,
    globalVars, Env.set, Env.get, viewFrame, envOf, bufEnv, back_arr]
  generalize exec goFuns f _ _ = out
  cases out <;> rfl

theorem back_arr_ret (e : Env) (s : GoSem.St) (rs : List Val) (j : Iter) (a b : Int) (S M : Val)
    (hI : iterAt s.env "i" = some j) (ha : s.env.get "dst.off" = some (.int a)) (hb : s.env.get "dst.lim" = some (.int b))
    (hS : s.env.get "Strings.B" = some S) (hM : s.env.get "Message" = some M) :
    back_arr e (.ret s rs) =
      .ret ⟨((((setIter e "i" j).set "arr#new.off" (.int a)).set "arr#new.lim" (.int b)).set "Strings.B" S).set "Message" M,
        s.tape⟩ rs := by
  simp only [back_arr, GoFindElem.copyFields_recv_back s.env e "i" j hI]
  simp [copyPtrsBack, copyFields, ha, hb, copyGlobals, globalVars, hS, hM]

theorem call_arrNew (pj : PJ) (e : Env) (F : Nat) (j : Iter) (hC : iterAt e "i" = some j)
    (hO1 : e.get "arr#new.off" = some (.int 0)) (hO2 : e.get "arr#new.lim" = some (.int 0))
    (hS : e.get "Strings.B" = some (.bytes pj.strings)) (hM : e.get "Message" = some (.bytes pj.msg))
    (hlim : j.lim < 2^63) (hF : 1 ≤ F) :
    match j.array with
    | .ok v => ∃ e', exec1 goFuns F arrCall ⟨e, pj.tape⟩ = .normal ⟨e', pj.tape⟩ ∧ viewAt e' "arr#new" = some v ∧
        e'.get "err" = some (.bool false) ∧ iterAt e' "i" = some j ∧
        e'.get "Strings.B" = some (.bytes pj.strings) ∧ e'.get "Message" = some (.bytes pj.msg)
    | .error _ => ∃ e', exec1 goFuns F arrCall ⟨e, pj.tape⟩ = .normal ⟨e', pj.tape⟩ ∧
        e'.get "err" = some (.bool true) ∧ iterAt e' "i" = some j ∧
        e'.get "Strings.B" = some (.bytes pj.strings) ∧ e'.get "Message" = some (.bytes pj.msg)
    | .panic => exec1 goFuns F arrCall ⟨e, pj.tape⟩ = .panic
    | .diverge => False := by
  obtain ⟨f, rfl⟩ : ∃ f, F = f + 1 := ⟨F - 1, by omega⟩
  have hI0 : iterAt (viewFrame pj j) "i" = some j := by simp [viewFrame, envOf, bufEnv, Env.get, iterAt]
  have hsim := GoApi.array_sim j true (viewFrame pj j) pj.tape f hI0
    (by simp [viewFrame, envOf, bufEnv, Env.get]) hlim
  have hS0 : (viewFrame pj j).get "Strings.B" = some (.bytes pj.strings) := by simp [viewFrame, envOf, bufEnv, Env.get]
  have hM0 : (viewFrame pj j).get "Message" = some (.bytes pj.msg) := by simp [viewFrame, envOf, bufEnv, Env.get]
  have hpost : ∀ (a b : Int) (x y : Val),
      iterAt (((((((setIter e "i" j).set "arr#new.off" (.int a)).set "arr#new.lim" (.int b)).set "Strings.B" (.bytes pj.strings)).set
        "Message" (.bytes pj.msg)).set "arr" x).set "err" y) "i" = some j ∧
      (((((((setIter e "i" j).set "arr#new.off" (.int a)).set "arr#new.lim" (.int b)).set "Strings.B" (.bytes pj.strings)).set
        "Message" (.bytes pj.msg)).set "arr" x).set "err" y).get "Strings.B" = some (.bytes pj.strings) ∧
      (((((((setIter e "i" j).set "arr#new.off" (.int a)).set "arr#new.lim" (.int b)).set "Strings.B" (.bytes pj.strings)).set
        "Message" (.bytes pj.msg)).set "arr" x).set "err" y).get "Message" = some (.bytes pj.msg) := by
    intro a b x y
    refine ⟨?_, ?_, ?_⟩
    · rw [iterAt_set_ne _ _ _ _ (by decide), iterAt_set_ne _ _ _ _ (by decide), iterAt_set_ne _ _ _ _ (by decide),
        iterAt_set_ne _ _ _ _ (by decide), iterAt_set_ne _ _ _ _ (by decide), iterAt_set_ne _ _ _ _ (by decide)]
      exact iterAt_setIter_i _ _
    · simp [Env.get_set]
    · simp [Env.get_set]
  rw [arrCall, exec1, callFun_arrNew pj e pj.tape f j hC hO1 hO2 hS hM]
  cases hr : j.array with
  | ok v =>
    rw [hr] at hsim
    obtain ⟨s, hrun, hst, hI', hV', hN', hfr⟩ := hsim
    obtain ⟨v1, v2⟩ := viewAt_get _ _ _ hV'
    simp only [String.reduceAppend] at v1 v2
    rw [GoMarshal.runFun_ret_inv hrun (by simp),
      back_arr_ret e s _ j _ _ _ _ hI' v1 v2 (by rw [hfr _ (by decide)]; exact hS0) (by rw [hfr _ (by decide)]; exact hM0)]
    simp only [assignTargets, hst, show ("arr" == "_") = false from by decide, show ("err" == "_") = false from by decide,
      Bool.false_eq_true, if_false]
    obtain ⟨p1, p2, p3⟩ := hpost v.off v.lim (.bool true) (.bool false)
    refine ⟨_, rfl, ?_, Env.get_set_self _ _ _, p1, p2, p3⟩
    apply viewAt_of_gets <;> simp [Env.get_set]
  | error err =>
    rw [hr] at hsim
    obtain ⟨s, hrun, hst, hfr⟩ := hsim
    have hI' : iterAt s.env "i" = some j := by
      rw [iterAt_congr (viewFrame pj j) s.env "i" (fun k hk => hfr k (by revert k; decide))]; exact hI0
    rw [GoMarshal.runFun_ret_inv hrun (by simp),
      back_arr_ret e s _ j 0 0 _ _ hI' (by rw [hfr _ (by decide)]; simp [viewFrame, envOf, bufEnv, Env.get])
        (by rw [hfr _ (by decide)]; simp [viewFrame, envOf, bufEnv, Env.get])
        (by rw [hfr _ (by decide)]; exact hS0) (by rw [hfr _ (by decide)]; exact hM0)]
    simp only [assignTargets, hst, show ("arr" == "_") = false from by decide, show ("err" == "_") = false from by decide,
      Bool.false_eq_true, if_false]
    obtain ⟨p1, p2, p3⟩ := hpost 0 0 (.bool false) (.bool true)
    exact ⟨_, rfl, Env.get_set_self _ _ _, p1, p2, p3⟩
  | panic =>
    rw [hr] at hsim
    simp only [GoApi.SimView] at hsim
    rw [GoMarshal.runFun_panic_inv hsim]
    rfl
  | diverge => rw [hr] at hsim; exact hsim.elim

/-! ## `obj, err := i.Object(nil)`: the fresh destination is the caller's variable `obj#new` -/

def objCall : Stmt := .callAssign ["obj", "err"] "i" "Iter.Object" ["obj#new"] [(.bool true)]

def back_obj (e : Env) : Out → Out
  | .ret s' rs =>
    (match copyFields s'.env "i" e "i" ["off", "addNext", "cur", "t", "lim"] with
     | some e2 =>
       (match copyPtrsBack s'.env e2 ["obj#new"] [("dst", ["off", "lim"])] with
        | some e3 => .ret { env := copyGlobals s'.env e3 globalVars, tape := s'.tape } rs
        | none => .stuck "pointer arguments back")
     | none => .stuck "receiver back")
  | .normal s' =>
    (match copyFields s'.env "i" e "i" ["off", "addNext", "cur", "t", "lim"] with
     | some e2 =>
       (match copyPtrsBack s'.env e2 ["obj#new"] [("dst", ["off", "lim"])] with
        | some e3 => .ret { env := copyGlobals s'.env e3 globalVars, tape := s'.tape } []
        | none => .stuck "pointer arguments back")
     | none => .stuck "receiver back")
  | .brk _ | .cont _ => .stuck "break outside loop"
  | o => o

theorem callFun_objNew (pj : PJ) (e : Env) (tape : Array UInt64) (f : Nat) (j : Iter) (hC : iterAt e "i" = some j)
    (hO1 : e.get "obj#new.off" = some (.int 0)) (hO2 : e.get "obj#new.lim" = some (.int 0))
    (hS : e.get "Strings.B" = some (.bytes pj.strings)) (hM : e.get "Message" = some (.bytes pj.msg)) :
    callFun goFuns f "i" "Iter.Object" ["obj#new"] [(.bool true)] ⟨e, tape⟩ =
      back_obj e (exec goFuns f goIter_Object.body ⟨viewFrame pj j, tape⟩) := by
  obtain ⟨c1, c2, c3, c4, c5⟩ := iterAt_get_i _ _ hC
  have hfn : goFuns "Iter.Object" = some {
      recv := "i"
      params := ["dst==nil"]
      ptrParams := [("dst", ["off", "lim"])]
      body := goIter_Object.body } := rfl
  rw [callFun]
  simp [hfn, c1, c2, c3, c4, c5, hO1, hO2, hS, hM, copyPtrs, copyFields, bindParams, evalEs, evalE, copyGlobals,
    globalVars, Env.set, Env.get, viewFrame, envOf, bufEnv, back_obj]
  generalize exec goFuns f _ _ = out
  cases out <;> rfl

theorem back_obj_ret (e : Env) (s : GoSem.St) (rs : List Val) (j : Iter) (a b : Int) (S M : Val)
    (hI : iterAt s.env "i" = some j) (ha : s.env.get "dst.off" = some (.int a)) (hb : s.env.get "dst.lim" = some (.int b))
    (hS : s.env.get "Strings.B" = some S) (hM : s.env.get "Message" = some M) :
    back_obj e (.ret s rs) =
      .ret ⟨((((setIter e "i" j).set "obj#new.off" (.int a)).set "obj#new.lim" (.int b)).set "Strings.B" S).set "Message" M,
        s.tape⟩ rs := by
  simp only [back_obj, GoFindElem.copyFields_recv_back s.env e "i" j hI]
  simp [copyPtrsBack, copyFields, ha, hb, copyGlobals, globalVars, hS, hM]

theorem call_objNew (pj : PJ) (e : Env) (F : Nat) (j : Iter) (hC : iterAt e "i" = some j)
    (hO1 : e.get "obj#new.off" = some (.int 0)) (hO2 : e.get "obj#new.lim" = some (.int 0))
    (hS : e.get "Strings.B" = some (.bytes pj.strings)) (hM : e.get "Message" = some (.bytes pj.msg))
    (hlim : j.lim < 2^63) (hoff : j.off < 2^63) (hF : 1 ≤ F) :
    match j.object with
    | .ok v => ∃ e', exec1 goFuns F objCall ⟨e, pj.tape⟩ = .normal ⟨e', pj.tape⟩ ∧ viewAt e' "obj#new" = some v ∧
        e'.get "err" = some (.bool false) ∧ iterAt e' "i" = some j ∧
        e'.get "Strings.B" = some (.bytes pj.strings) ∧ e'.get "Message" = some (.bytes pj.msg)
    | .error _ => ∃ e', exec1 goFuns F objCall ⟨e, pj.tape⟩ = .normal ⟨e', pj.tape⟩ ∧
        e'.get "err" = some (.bool true) ∧ iterAt e' "i" = some j ∧
        e'.get "Strings.B" = some (.bytes pj.strings) ∧ e'.get "Message" = some (.bytes pj.msg)
    | .panic => exec1 goFuns F objCall ⟨e, pj.tape⟩ = .panic
    | .diverge => False := by
  obtain ⟨f, rfl⟩ : ∃ f, F = f + 1 := ⟨F - 1, by omega⟩
  have hI0 : iterAt (viewFrame pj j) "i" = some j := by simp [viewFrame, envOf, bufEnv, Env.get, iterAt]
  have hsim := GoApi.object_sim j true (viewFrame pj j) pj.tape f hI0
    (by simp [viewFrame, envOf, bufEnv, Env.get]) hlim hoff
  have hS0 : (viewFrame pj j).get "Strings.B" = some (.bytes pj.strings) := by simp [viewFrame, envOf, bufEnv, Env.get]
  have hM0 : (viewFrame pj j).get "Message" = some (.bytes pj.msg) := by simp [viewFrame, envOf, bufEnv, Env.get]
  have hpost : ∀ (a b : Int) (x y : Val),
      iterAt (((((((setIter e "i" j).set "obj#new.off" (.int a)).set "obj#new.lim" (.int b)).set "Strings.B" (.bytes pj.strings)).set
        "Message" (.bytes pj.msg)).set "obj" x).set "err" y) "i" = some j ∧
      (((((((setIter e "i" j).set "obj#new.off" (.int a)).set "obj#new.lim" (.int b)).set "Strings.B" (.bytes pj.strings)).set
        "Message" (.bytes pj.msg)).set "obj" x).set "err" y).get "Strings.B" = some (.bytes pj.strings) ∧
      (((((((setIter e "i" j).set "obj#new.off" (.int a)).set "obj#new.lim" (.int b)).set "Strings.B" (.bytes pj.strings)).set
        "Message" (.bytes pj.msg)).set "obj" x).set "err" y).get "Message" = some (.bytes pj.msg) := by
    intro a b x y
    refine ⟨?_, ?_, ?_⟩
    · rw [iterAt_set_ne _ _ _ _ (by decide), iterAt_set_ne _ _ _ _ (by decide), iterAt_set_ne _ _ _ _ (by decide),
        iterAt_set_ne _ _ _ _ (by decide), iterAt_set_ne _ _ _ _ (by decide), iterAt_set_ne _ _ _ _ (by decide)]
      exact iterAt_setIter_i _ _
    · simp [Env.get_set]
    · simp [Env.get_set]
  rw [objCall, exec1, callFun_objNew pj e pj.tape f j hC hO1 hO2 hS hM]
  cases hr : j.object with
  | ok v =>
    rw [hr] at hsim
    obtain ⟨s, hrun, hst, hI', hV', hN', hfr⟩ := hsim
    obtain ⟨v1, v2⟩ := viewAt_get _ _ _ hV'
    simp only [String.reduceAppend] at v1 v2
    rw [GoMarshal.runFun_ret_inv hrun (by simp),
      back_obj_ret e s _ j _ _ _ _ hI' v1 v2 (by rw [hfr _ (by decide)]; exact hS0) (by rw [hfr _ (by decide)]; exact hM0)]
    simp only [assignTargets, hst, show ("obj" == "_") = false from by decide, show ("err" == "_") = false from by decide,
      Bool.false_eq_true, if_false]
    obtain ⟨p1, p2, p3⟩ := hpost v.off v.lim (.bool true) (.bool false)
    refine ⟨_, rfl, ?_, Env.get_set_self _ _ _, p1, p2, p3⟩
    apply viewAt_of_gets <;> simp [Env.get_set]
  | error err =>
    rw [hr] at hsim
    obtain ⟨s, hrun, hst, hfr⟩ := hsim
    have hI' : iterAt s.env "i" = some j := by
      rw [iterAt_congr (viewFrame pj j) s.env "i" (fun k hk => hfr k (by revert k; decide))]; exact hI0
    rw [GoMarshal.runFun_ret_inv hrun (by simp),
      back_obj_ret e s _ j 0 0 _ _ hI' (by rw [hfr _ (by decide)]; simp [viewFrame, envOf, bufEnv, Env.get])
        (by rw [hfr _ (by decide)]; simp [viewFrame, envOf, bufEnv, Env.get])
        (by rw [hfr _ (by decide)]; exact hS0) (by rw [hfr _ (by decide)]; exact hM0)]
    simp only [assignTargets, hst, show ("obj" == "_") = false from by decide, show ("err" == "_") = false from by decide,
      Bool.false_eq_true, if_false]
    obtain ⟨p1, p2, p3⟩ := hpost 0 0 (.bool false) (.bool true)
    exact ⟨_, rfl, Env.get_set_self _ _ _, p1, p2, p3⟩
  | panic =>
    rw [hr] at hsim
    simp only [GoApi.SimView] at hsim
    rw [GoMarshal.runFun_panic_inv hsim]
    rfl
  | diverge => rw [hr] at hsim; exact hsim.elim

/-! ## `return arr.Interface()` -/

def arrIfFrame (pj : PJ) (v : View) : Env :=
  [("a.off", .int v.off), ("a.lim", .int v.lim)] ++ bufEnv pj ++ []

def backIf_arr (e : Env) : Out → Out
  | .ret s' rs =>
    (match copyFields s'.env "a" e "arr#new" ["off", "lim"] with
     | some e2 => .ret { env := copyGlobals s'.env e2 globalVars, tape := s'.tape } rs
     | none => .stuck "receiver back")
  | .normal s' =>
    (match copyFields s'.env "a" e "arr#new" ["off", "lim"] with
     | some e2 => .ret { env := copyGlobals s'.env e2 globalVars, tape := s'.tape } []
     | none => .stuck "receiver back")
  | .brk _ | .cont _ => .stuck "break outside loop"
  | o => o

theorem callFun_arrIf (pj : PJ) (e : Env) (tape : Array UInt64) (f : Nat) (v : View) (hV : viewAt e "arr#new" = some v)
    (hS : e.get "Strings.B" = some (.bytes pj.strings)) (hM : e.get "Message" = some (.bytes pj.msg)) :
    callFun goFuns f "arr#new" "Array.Interface" [] [] ⟨e, tape⟩ =
      backIf_arr e (exec goFuns f goArray_Interface.body ⟨arrIfFrame pj v, tape⟩) := by
  obtain ⟨c1, c2⟩ := viewAt_get _ _ _ hV
  simp only [String.reduceAppend] at c1 c2
  have hfn : goFuns "Array.Interface" = some goArray_Interface := rfl
  rw [callFun]
  simp [hfn, goArray_Interface, c1, c2, hS, hM, copyPtrs, copyPtrsBack, copyFields, bindParams, evalEs, evalE, copyGlobals,
    globalVars, Env.set, Env.get, arrIfFrame, bufEnv, backIf_arr]
  generalize exec goFuns f _ _ = out
  cases out <;> rfl

theorem backIf_arr_ret (pj : PJ) (e : Env) (s : GoSem.St) (rs : List Val) (j : Iter) (w : View) (hK : Keeps pj s)
    (hW : viewAt s.env "a" = some w) (hI : iterAt e "i" = some j) :
    ∃ e', backIf_arr e (.ret s rs) = .ret ⟨e', pj.tape⟩ rs ∧ Keeps pj ⟨e', pj.tape⟩ ∧ iterAt e' "i" = some j := by
  obtain ⟨c1, c2⟩ := viewAt_get _ _ _ hW
  simp only [String.reduceAppend] at c1 c2
  refine ⟨copyGlobals s.env ((e.set "arr#new.off" (.int w.off)).set "arr#new.lim" (.int w.lim)) globalVars, ?_, ⟨rfl, ?_, ?_⟩, ?_⟩
  · simp only [backIf_arr, copyFields, String.reduceAppend, c1, c2, hK.1]
  · show (copyGlobals _ _ _).get _ = _
    rw [GoApi.copyGlobals_get, if_pos (Or.inl rfl), hK.2.1]
  · show (copyGlobals _ _ _).get _ = _
    rw [GoApi.copyGlobals_get, if_pos (Or.inr rfl), hK.2.2]
  · rw [iterAt_congr ((e.set "arr#new.off" (.int w.off)).set "arr#new.lim" (.int w.lim)) _ "i" (fun k hk =>
      GoPJForEach.copyGlobals_get_ne _ _ _ _ (by revert k; decide)),
      iterAt_set_ne _ _ _ _ (by decide), iterAt_set_ne _ _ _ _ (by decide)]
    exact hI

/-! ## `return obj.Map(nil)` -/

def objIfFrame (pj : PJ) (v : View) : Env :=
  [("o.off", .int v.off), ("o.lim", .int v.lim)] ++ bufEnv pj ++ [("dst", .iface (.obj [])), ("dst==nil", .bool true)]

def backIf_obj (e : Env) : Out → Out
  | .ret s' rs =>
    (match copyFields s'.env "o" e "obj#new" ["off", "lim"] with
     | some e2 => .ret { env := copyGlobals s'.env e2 globalVars, tape := s'.tape } rs
     | none => .stuck "receiver back")
  | .normal s' =>
    (match copyFields s'.env "o" e "obj#new" ["off", "lim"] with
     | some e2 => .ret { env := copyGlobals s'.env e2 globalVars, tape := s'.tape } []
     | none => .stuck "receiver back")
  | .brk _ | .cont _ => .stuck "break outside loop"
  | o => o

theorem callFun_objIf (pj : PJ) (e : Env) (tape : Array UInt64) (f : Nat) (v : View) (hV : viewAt e "obj#new" = some v)
    (hS : e.get "Strings.B" = some (.bytes pj.strings)) (hM : e.get "Message" = some (.bytes pj.msg)) :
    callFun goFuns f "obj#new" "Object.Map" [] [.nilM, (.bool true)] ⟨e, tape⟩ =
      backIf_obj e (exec goFuns f goObject_Map.body ⟨objIfFrame pj v, tape⟩) := by
  obtain ⟨c1, c2⟩ := viewAt_get _ _ _ hV
  simp only [String.reduceAppend] at c1 c2
  have hfn : goFuns "Object.Map" = some goObject_Map := rfl
  rw [callFun]
  simp [hfn, goObject_Map, c1, c2, hS, hM, copyPtrs, copyPtrsBack, copyFields, bindParams, evalEs, evalE, copyGlobals,
    globalVars, Env.set, Env.get, objIfFrame, bufEnv, backIf_obj]
  generalize exec goFuns f _ _ = out
  cases out <;> rfl

theorem backIf_obj_ret (pj : PJ) (e : Env) (s : GoSem.St) (rs : List Val) (j : Iter) (w : View) (hK : Keeps pj s)
    (hW : viewAt s.env "o" = some w) (hI : iterAt e "i" = some j) :
    ∃ e', backIf_obj e (.ret s rs) = .ret ⟨e', pj.tape⟩ rs ∧ Keeps pj ⟨e', pj.tape⟩ ∧ iterAt e' "i" = some j := by
  obtain ⟨c1, c2⟩ := viewAt_get _ _ _ hW
  simp only [String.reduceAppend] at c1 c2
  refine ⟨copyGlobals s.env ((e.set "obj#new.off" (.int w.off)).set "obj#new.lim" (.int w.lim)) globalVars, ?_, ⟨rfl, ?_, ?_⟩, ?_⟩
  · simp only [backIf_obj, copyFields, String.reduceAppend, c1, c2, hK.1]
  · show (copyGlobals _ _ _).get _ = _
    rw [GoApi.copyGlobals_get, if_pos (Or.inl rfl), hK.2.1]
  · show (copyGlobals _ _ _).get _ = _
    rw [GoApi.copyGlobals_get, if_pos (Or.inr rfl), hK.2.2]
  · rw [iterAt_congr ((e.set "obj#new.off" (.int w.off)).set "obj#new.lim" (.int w.lim)) _ "i" (fun k hk =>
      GoPJForEach.copyGlobals_get_ne _ _ _ _ (by revert k; decide)),
      iterAt_set_ne _ _ _ _ (by decide), iterAt_set_ne _ _ _ _ (by decide)]
    exact hI

/-! ## `Iter.Interface`: one level, given the levels below -/

theorem array_ok_lim (j : Iter) (v : View) (h : j.array = .ok v) : v.lim ≤ j.lim := by
  unfold Iter.array at h
  split at h
  · cases h
  · dsimp only at h
    split at h
    · cases h
    · simp only [Res.ok.injEq] at h; subst h; simp only; omega

theorem object_ok_lim (j : Iter) (v : View) (h : j.object = .ok v) : v.lim ≤ j.lim := by
  unfold Iter.object at h
  split at h
  · cases h
  · dsimp only at h
    split at h
    · cases h
    · split at h
      · cases h
      · simp only [Res.ok.injEq] at h; subst h; simp only; omega

theorem interfaceV_leaf (pj : PJ) (i : Iter) (n : Nat) (hA : tagToType i.t ≠ typeArray) (hO : tagToType i.t ≠ typeObject)
    (hR : tagToType i.t ≠ typeRoot) (hN : tagToType i.t ≠ typeNone) :
    interfaceV pj i (n + 1) = Iter.interface pj i (n + 1) := by
  by_cases h4 : tagToType i.t = typeUint
  · rw [interfaceV_uint pj i n h4, interface_uint pj i n h4]
  by_cases h3 : tagToType i.t = typeInt
  · rw [interfaceV_int pj i n h3, interface_int pj i n h3]
  by_cases h5 : tagToType i.t = typeFloat
  · rw [interfaceV_float pj i n h5, interface_float pj i n h5]
  by_cases h1 : tagToType i.t = typeNull
  · rw [interfaceV_null pj i n h1, interface_null pj i n h1]
  by_cases h2 : tagToType i.t = typeString
  · rw [interfaceV_string pj i n h2, interface_string pj i n h2]
  by_cases h6 : tagToType i.t = typeBool
  · rw [interfaceV_bool pj i n h6, interface_bool pj i n h6]
  simp only [typeUint, typeInt, typeFloat, typeNull, typeArray, typeString, typeObject, typeBool, typeRoot, typeNone]
    at hN h1 h2 h3 h4 h5 h6 hO hA hR
  rw [interfaceV_other pj i n hN h1 h2 h3 h4 h5 h6 hO hA hR, interface_other pj i n hN h1 h2 h3 h4 h5 h6 hO hA hR]

theorem specI_step (pj : PJ) (hb : BufOK pj) (hsz : pj.tape.size < 2^63) (n F : Nat) (hF : goFuel pj (n + 1) ≤ F)
    (hP : ∀ m f, m < n + 1 → goFuel pj m ≤ f → SpecI pj m f) : SpecI pj (n + 1) F := by
  intro s j hI hK hl
  unfold goFuel at hF
  obtain ⟨f, rfl⟩ : ∃ f, F = f + 1 := ⟨F - 1, by omega⟩
  have hPn : ∀ m f, m < n → goFuel pj m ≤ f → SpecI pj m f := fun m f hm hf => hP m f (Nat.lt_succ_of_lt hm) hf
  by_cases hR : tagToType j.t = typeRoot
  · rw [interfaceV_root pj j n hR]; trivial
  by_cases hN : tagToType j.t = typeNone
  · rw [interfaceV_none pj j n hN]; trivial
  by_cases hA : tagToType j.t = typeArray
  · -- Array
    rw [interfaceV_array pj j n hA]
    obtain ⟨e, tp⟩ := s
    obtain ⟨ht, hS, hM⟩ := hK
    simp only at ht hS hM hI
    subst ht
    have hget' : e.get "i.t" = some (.u8 j.t) := (iterAt_get_i _ _ hI).2.2.2.1
    have htag : evalE ⟨e, pj.tape⟩ (.tbl "TagToType" (.v "i.t")) = .val (.u8 (tagToType j.t)) := by
      simp only [evalE, hget', tblLookup]
      rfl
    rw [goIter_Interface]
    simp only []
    rw [exec, exec1, htag]
    simp only [execCases, evalEs, evalE, isOneOf_u8, UInt8.reduceOfNat]
    simp only [typeArray] at hA
    simp (config := { decide := true }) only [hA, if_true, if_false, decide_true, decide_false, Bool.false_eq_true]
    -- the fresh destination
    have h1 : exec1 goFuns (f + 1) (.assign "arr#new.off" (.int 0)) ⟨e, pj.tape⟩ =
        .normal ⟨e.set "arr#new.off" (.int 0), pj.tape⟩ := by simp only [exec1, evalE]
    have h2 : exec1 goFuns (f + 1) (.assign "arr#new.lim" (.int 0)) ⟨e.set "arr#new.off" (.int 0), pj.tape⟩ =
        .normal ⟨(e.set "arr#new.off" (.int 0)).set "arr#new.lim" (.int 0), pj.tape⟩ := by simp only [exec1, evalE]
    rw [exec_cons, h1]
    simp only []
    rw [exec_cons, h2]
    simp only []
    generalize hE1 : (e.set "arr#new.off" (.int 0)).set "arr#new.lim" (.int 0) = e1
    have g1 : iterAt e1 "i" = some j := by
      rw [← hE1, iterAt_set_ne _ _ _ _ (by decide), iterAt_set_ne _ _ _ _ (by decide)]; exact hI
    have g2 : e1.get "arr#new.off" = some (.int 0) := by
      rw [← hE1, Env.get_set_ne _ _ (by decide)]; exact Env.get_set_self _ _ _
    have g3 : e1.get "arr#new.lim" = some (.int 0) := by rw [← hE1]; exact Env.get_set_self _ _ _
    have g4 : e1.get "Strings.B" = some (.bytes pj.strings) := by
      rw [← hE1, Env.get_set_ne _ _ (by decide), Env.get_set_ne _ _ (by decide)]; exact hS
    have g5 : e1.get "Message" = some (.bytes pj.msg) := by
      rw [← hE1, Env.get_set_ne _ _ (by decide), Env.get_set_ne _ _ (by decide)]; exact hM
    have hcall := call_arrNew pj e1 (f + 1) j g1 g2 g3 g4 g5 (by omega) (by omega)
    rw [exec_cons]
    rw [arrCall] at hcall
    cases hr : j.array with
    | diverge => rw [hr] at hcall; exact hcall.elim
    | panic => rw [hr] at hcall; simp only [] at hcall; rw [hcall]; rfl
    | error er =>
      rw [hr] at hcall
      obtain ⟨e', h0, a1, a2, a3, a4⟩ := hcall
      rw [h0]
      simp only []
      have h4 : exec1 goFuns (f + 1) (.ite (.bin .ne (.v "err") (.bool false)) [.ret [.nilV, (.v "err")]] []) ⟨e', pj.tape⟩ =
          .ret ⟨e', pj.tape⟩ [.iface .null, .bool true] := by
        simp only [exec1, evalE, evalEs, a1, binop, exec]
        rfl
      rw [exec_cons, h4]
      exact ⟨⟨e', pj.tape⟩, _, rfl, ⟨rfl, a3, a4⟩, a2⟩
    | ok v =>
      rw [hr] at hcall
      obtain ⟨e', h0, a0, a1, a2, a3, a4⟩ := hcall
      rw [h0]
      simp only []
      have h4 : exec1 goFuns (f + 1) (.ite (.bin .ne (.v "err") (.bool false)) [.ret [.nilV, (.v "err")]] []) ⟨e', pj.tape⟩ =
          .normal ⟨e', pj.tape⟩ := by
        simp only [exec1, evalE, evalEs, a1, binop, exec]
        rfl
      rw [exec_cons, h4]
      simp only []
      rw [exec_cons, exec1, callFun_arrIf pj e' pj.tape f v a0 a3 a4]
      have hvl : v.lim ≤ pj.tape.size := Nat.le_trans (array_ok_lim j v hr) hl
      have hfun := arr_fun pj n f (by unfold goFuel; omega) hPn (arrIfFrame pj v) v
        (by apply viewAt_of_gets <;> simp [arrIfFrame, bufEnv, Env.get]) hvl
        (by simp [arrIfFrame, bufEnv, Env.get]) (by simp [arrIfFrame, bufEnv, Env.get])
      simp only [bind, Res.bind]
      generalize exec goFuns f goArray_Interface.body ⟨arrIfFrame pj v, pj.tape⟩ = o5 at hfun ⊢
      cases hw : arrV pj v.iter [] n with
      | diverge => trivial
      | panic => rw [hw] at hfun; simp only [SimA] at hfun; subst hfun; rfl
      | error er =>
        rw [hw] at hfun
        obtain ⟨s5, x, rfl, k1, k2⟩ := hfun
        obtain ⟨e'', q1, q2, q3⟩ := backIf_arr_ret pj e' s5 [.iface x, .bool true] j v k1 k2 a2
        rw [q1]
        exact ⟨⟨e'', pj.tape⟩, x, rfl, q2, q3⟩
      | ok w =>
        rw [hw] at hfun
        obtain ⟨s5, rfl, k1, k2⟩ := hfun
        obtain ⟨e'', q1, q2, q3⟩ := backIf_arr_ret pj e' s5 [.iface w, .bool false] j v k1 k2 a2
        rw [q1]
        exact ⟨⟨e'', pj.tape⟩, rfl, q2, q3⟩
  by_cases hO : tagToType j.t = typeObject
  · -- Object
    rw [interfaceV_object pj j n hO]
    by_cases hoff : 2^63 ≤ j.off
    · simp only [hoff, if_true]; trivial
    simp only [hoff, if_false]
    obtain ⟨e, tp⟩ := s
    obtain ⟨ht, hS, hM⟩ := hK
    simp only at ht hS hM hI
    subst ht
    have hget' : e.get "i.t" = some (.u8 j.t) := (iterAt_get_i _ _ hI).2.2.2.1
    have htag : evalE ⟨e, pj.tape⟩ (.tbl "TagToType" (.v "i.t")) = .val (.u8 (tagToType j.t)) := by
      simp only [evalE, hget', tblLookup]
      rfl
    rw [goIter_Interface]
    simp only []
    rw [exec, exec1, htag]
    simp only [execCases, evalEs, evalE, isOneOf_u8, UInt8.reduceOfNat]
    simp only [typeObject] at hO
    simp (config := { decide := true }) only [hO, if_true, if_false, decide_true, decide_false, Bool.false_eq_true]
    -- the fresh destination
    have h1 : exec1 goFuns (f + 1) (.assign "obj#new.off" (.int 0)) ⟨e, pj.tape⟩ =
        .normal ⟨e.set "obj#new.off" (.int 0), pj.tape⟩ := by simp only [exec1, evalE]
    have h2 : exec1 goFuns (f + 1) (.assign "obj#new.lim" (.int 0)) ⟨e.set "obj#new.off" (.int 0), pj.tape⟩ =
        .normal ⟨(e.set "obj#new.off" (.int 0)).set "obj#new.lim" (.int 0), pj.tape⟩ := by simp only [exec1, evalE]
    rw [exec_cons, h1]
    simp only []
    rw [exec_cons, h2]
    simp only []
    generalize hE1 : (e.set "obj#new.off" (.int 0)).set "obj#new.lim" (.int 0) = e1
    have g1 : iterAt e1 "i" = some j := by
      rw [← hE1, iterAt_set_ne _ _ _ _ (by decide), iterAt_set_ne _ _ _ _ (by decide)]; exact hI
    have g2 : e1.get "obj#new.off" = some (.int 0) := by
      rw [← hE1, Env.get_set_ne _ _ (by decide)]; exact Env.get_set_self _ _ _
    have g3 : e1.get "obj#new.lim" = some (.int 0) := by rw [← hE1]; exact Env.get_set_self _ _ _
    have g4 : e1.get "Strings.B" = some (.bytes pj.strings) := by
      rw [← hE1, Env.get_set_ne _ _ (by decide), Env.get_set_ne _ _ (by decide)]; exact hS
    have g5 : e1.get "Message" = some (.bytes pj.msg) := by
      rw [← hE1, Env.get_set_ne _ _ (by decide), Env.get_set_ne _ _ (by decide)]; exact hM
    have hcall := call_objNew pj e1 (f + 1) j g1 g2 g3 g4 g5 (by omega) (by omega) (by omega)
    rw [exec_cons]
    rw [objCall] at hcall
    cases hr : j.object with
    | diverge => rw [hr] at hcall; exact hcall.elim
    | panic => rw [hr] at hcall; simp only [] at hcall; rw [hcall]; rfl
    | error er =>
      rw [hr] at hcall
      obtain ⟨e', h0, a1, a2, a3, a4⟩ := hcall
      rw [h0]
      simp only []
      have h4 : exec1 goFuns (f + 1) (.ite (.bin .ne (.v "err") (.bool false)) [.ret [.nilV, (.v "err")]] []) ⟨e', pj.tape⟩ =
          .ret ⟨e', pj.tape⟩ [.iface .null, .bool true] := by
        simp only [exec1, evalE, evalEs, a1, binop, exec]
        rfl
      rw [exec_cons, h4]
      exact ⟨⟨e', pj.tape⟩, _, rfl, ⟨rfl, a3, a4⟩, a2⟩
    | ok v =>
      rw [hr] at hcall
      obtain ⟨e', h0, a0, a1, a2, a3, a4⟩ := hcall
      rw [h0]
      simp only []
      have h4 : exec1 goFuns (f + 1) (.ite (.bin .ne (.v "err") (.bool false)) [.ret [.nilV, (.v "err")]] []) ⟨e', pj.tape⟩ =
          .normal ⟨e', pj.tape⟩ := by
        simp only [exec1, evalE, evalEs, a1, binop, exec]
        rfl
      rw [exec_cons, h4]
      simp only []
      rw [exec_cons, exec1, callFun_objIf pj e' pj.tape f v a0 a3 a4]
      have hvl : v.lim ≤ pj.tape.size := Nat.le_trans (object_ok_lim j v hr) hl
      have hfun := map_fun pj hb n f (by unfold goFuel; omega) hPn (objIfFrame pj v) v true []
        (by apply viewAt_of_gets <;> simp [objIfFrame, bufEnv, Env.get]) hvl
        (by simp [objIfFrame, bufEnv, Env.get]) (by simp [objIfFrame, bufEnv, Env.get])
        (by simp [objIfFrame, bufEnv, Env.get]) (by simp [objIfFrame, bufEnv, Env.get]) (fun _ => rfl)
      simp only [bind, Res.bind]
      generalize exec goFuns f goObject_Map.body ⟨objIfFrame pj v, pj.tape⟩ = o5 at hfun ⊢
      cases hw : mapV pj v [] n with
      | diverge => trivial
      | panic => rw [hw] at hfun; simp only [SimM] at hfun; subst hfun; rfl
      | error er =>
        rw [hw] at hfun
        obtain ⟨s5, x, rfl, k1, w', k2⟩ := hfun
        obtain ⟨e'', q1, q2, q3⟩ := backIf_obj_ret pj e' s5 [.iface x, .bool true] j w' k1 k2 a2
        rw [q1]
        exact ⟨⟨e'', pj.tape⟩, x, rfl, q2, q3⟩
      | ok w =>
        rw [hw] at hfun
        obtain ⟨s5, rfl, k1, w', k2⟩ := hfun
        obtain ⟨e'', q1, q2, q3⟩ := backIf_obj_ret pj e' s5 [.iface (.obj w), .bool false] j w' k1 k2 a2
        rw [q1]
        exact ⟨⟨e'', pj.tape⟩, rfl, q2, q3⟩
  · rw [interfaceV_leaf pj j n hA hO hR hN]
    exact (interface_leaf_abs pj hb s j hI hK hl hA hO hR hN f n (by omega)).toV

/-! ## the tie -/

theorem specI_all (pj : PJ) (hb : BufOK pj) (hsz : pj.tape.size < 2^63) :
    ∀ (mf F : Nat), goFuel pj mf ≤ F → SpecI pj mf F := by
  have key : ∀ N, ∀ mf, mf < N → ∀ F, goFuel pj mf ≤ F → SpecI pj mf F := by
    intro N
    induction N with
    | zero => intro mf h; omega
    | succ N ih =>
      intro mf hmf F hF
      cases mf with
      | zero => intro s j _ _ _; simp only [interfaceV]; trivial
      | succ n => exact specI_step pj hb hsz n F hF (fun m f hm hf => ih m (by omega) f hf)
  intro mf F hF
  exact key (mf + 1) mf (Nat.lt_succ_self _) F hF

/-- **`Iter.Interface`, `Array.Interface`, `Object.Map` of /repo are the fragment `interfaceV` / `arrV` / `mapV` of the hand
    model**: for every tape (`BufOK`, fewer than 2^63 words), every iterator / view inside the tape, every model fuel
    `mf` and interpreter fuel `F ≥ 3·mf + len(tape) + 10`, running the regenerated tree gives what the fragment
    computes — `.ok v` ⇔ `(v, nil)`; `.error` ⇔ `(_, non-nil error)`; `.panic` ⇔ panic — with tape and buffers unchanged
    and the receiver of `Interface` / `Array.Interface` as before.  Where the fragment answers `.diverge` (its own fuel
    is used up, a Root or None branch of `Interface` is reached, an offset is no Go `int`) nothing is claimed. -/
theorem go_interface_source_tie (pj : PJ) (hb : BufOK pj) (hsz : pj.tape.size < 2^63) (mf F : Nat)
    (hF : goFuel pj mf ≤ F) :
    (∀ (i : Iter), i.lim ≤ pj.tape.size →
      SimV pj i (runFun goFuns goIter_Interface F ⟨envOf "i" i ++ bufEnv pj, pj.tape⟩) (interfaceV pj i mf)) ∧
    (∀ (a : View), a.lim ≤ pj.tape.size →
      SimA pj a (runFun goFuns goArray_Interface F ⟨[("a.off", .int a.off), ("a.lim", .int a.lim)] ++ bufEnv pj, pj.tape⟩)
        (arrV pj a.iter [] mf)) ∧
    (∀ (o : View) (acc : List (Bytes × IVal)) (b : Bool), o.lim ≤ pj.tape.size → (b = true → acc = []) →
      SimM pj (runFun goFuns goObject_Map F
        ⟨[("o.off", .int o.off), ("o.lim", .int o.lim), ("dst", .iface (.obj acc)), ("dst==nil", .bool b)] ++ bufEnv pj,
          pj.tape⟩) (mapV pj o acc mf)) := by
  have hP : ∀ m f, m < mf → goFuel pj m ≤ f → SpecI pj m f := fun m f _ hf => specI_all pj hb hsz m f hf
  refine ⟨fun i hl => ?_, fun a hl => ?_, fun o acc b hl hb0 => ?_⟩
  · have h := specI_all pj hb hsz mf F hF ⟨envOf "i" i ++ bufEnv pj, pj.tape⟩ i (frame_iter pj i) (frame_keeps pj i) hl
    rw [runFun]
    generalize exec goFuns F goIter_Interface.body ⟨envOf "i" i ++ bufEnv pj, pj.tape⟩ = o at h ⊢
    cases hr : interfaceV pj i mf with
    | diverge => trivial
    | panic => rw [hr] at h; simp only [SimV] at h; subst h; rfl
    | error er => rw [hr] at h; obtain ⟨s, x, rfl, k⟩ := h; exact ⟨s, x, rfl, k⟩
    | ok v => rw [hr] at h; obtain ⟨s, rfl, k⟩ := h; exact ⟨s, rfl, k⟩
  · have h := arr_fun pj mf F hF hP ([("a.off", .int a.off), ("a.lim", .int a.lim)] ++ bufEnv pj) a
      (by apply viewAt_of_gets <;> simp [bufEnv, Env.get]) hl (by simp [bufEnv, Env.get]) (by simp [bufEnv, Env.get])
    rw [runFun]
    generalize exec goFuns F goArray_Interface.body _ = o at h ⊢
    cases hr : arrV pj a.iter [] mf with
    | diverge => trivial
    | panic => rw [hr] at h; simp only [SimA] at h; subst h; rfl
    | error er => rw [hr] at h; obtain ⟨s, x, rfl, k⟩ := h; exact ⟨s, x, rfl, k⟩
    | ok v => rw [hr] at h; obtain ⟨s, rfl, k⟩ := h; exact ⟨s, rfl, k⟩
  · have h := map_fun pj hb mf F hF hP
      ([("o.off", .int o.off), ("o.lim", .int o.lim), ("dst", .iface (.obj acc)), ("dst==nil", .bool b)] ++ bufEnv pj) o b acc
      (by apply viewAt_of_gets <;> simp [bufEnv, Env.get]) hl (by simp [bufEnv, Env.get]) (by simp [bufEnv, Env.get])
      (by simp [bufEnv, Env.get]) (by simp [bufEnv, Env.get]) hb0
    rw [runFun]
    generalize exec goFuns F goObject_Map.body _ = o' at h ⊢
    cases hr : mapV pj o acc mf with
    | diverge => trivial
    | panic => rw [hr] at h; simp only [SimM] at h; subst h; rfl
    | error er => rw [hr] at h; obtain ⟨s, x, rfl, k⟩ := h; exact ⟨s, x, rfl, k⟩
    | ok v => rw [hr] at h; obtain ⟨s, rfl, k⟩ := h; exact ⟨s, rfl, k⟩

/-- … and against the hand model itself: whenever the fragment is definite, the hand model `Iter.interface` has the same
    answer (`fragment_agrees`), and so has the source. -/
theorem go_interface_follows_model (pj : PJ) (hb : BufOK pj) (hsz : pj.tape.size < 2^63) (i : Iter)
    (hl : i.lim ≤ pj.tape.size) (mf F : Nat) (hF : goFuel pj mf ≤ F) (v : IVal) (h : interfaceV pj i mf = .ok v) :
    Iter.interface pj i mf = .ok v ∧
    ∃ s, runFun goFuns goIter_Interface F ⟨envOf "i" i ++ bufEnv pj, pj.tape⟩ = .ret s [.iface v, .bool false] ∧
      s.tape = pj.tape ∧ iterAt s.env "i" = some i := by
  constructor
  · have := (fragment_agrees pj mf).1 i
    rw [h] at this
    exact this
  · have := (go_interface_source_tie pj hb hsz mf F hF).1 i hl
    rw [h] at this
    obtain ⟨s, h1, h2, h3⟩ := this
    exact ⟨s, h1, h2.1, h3⟩

end SJ.GoInterface

#print axioms SJ.GoInterface.go_interface_source_tie
#print axioms SJ.GoInterface.go_interface_follows_model
#print axioms SJ.GoInterface.fragment_agrees
