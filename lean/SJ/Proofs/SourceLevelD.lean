import SJ.Properties.C12
import SJ.Properties.C14
import SJ.Properties.C01
import SJ.Properties.C10
import SJ.Properties.C02
import SJ.Proofs.SourceLevelA
import SJ.Proofs.SourceLevelB
import SJ.Proofs.SourceLevelC
import SJ.Proofs.MachineSimScalar
set_option autoImplicit false
set_option linter.unusedVariables false
/-
SourceLevelD — property theorems stated directly about the MEANING OF THE GO SOURCE (continuation of SourceLevelA/B/C).

Each theorem chains a source tie (`*_follows_source` / the `_sim` theorem behind it: the hand model is the meaning, under
`GoSem.runFun goFuns <tree> fuel ⟨store, tape⟩`, of a syntax tree regenerated from the Go source on every run) with a
property theorem about the hand model.  The conclusions mention no function of the hand model: they speak of the outcome of
`runFun`, of the store it leaves, of what the tape DENOTES (`Ok pj doc`, `OkRoots pj docs 0`) and of the specification
(`Spec.numberLit`, `Spec.ndText`, `followSet`).  Plain data records of the model (`PJ`, `Iter`, `View`) occur as carriers of
the stores' contents; `elemIter pj v` / `Iter.ofPJ pj` / `iterOn pj q` are explicit records of five fields.
-/
namespace SJ.SourceLevelD
open SJ SJ.Generated SJ.GoSem SJ.GoIter SJ.Layout

/-! ## C14 — the reader after a deletion history -/

section C14
open SJ.EditHistory SJ.WalkLayout SJ.DeleteDoc SJ.GoObject SJ.GoMarshal SJ.MarshalExact SJ.RenderParse SJ.SourceLevelC

/-- a valid history keeps the string buffer a Go slice -/
theorem appendedAllD_small : ∀ (ops : List DOp) (ssz tsz : Nat) (v : LVal), ValidSeqDA ssz tsz v ops → ssz < 2^63 →
    ssz + (appendedAllD ops).size < 2^63 := by
  intro ops
  induction ops with
  | nil => intro ssz tsz v _ h; simpa [appendedAllD] using h
  | cons op r ih =>
    intro ssz tsz v hv h
    obtain ⟨hv1, hv2⟩ := hv
    have h1 := appended_small ssz tsz v op hv1 h
    have h2 := ih _ tsz _ hv2 h1
    simp only [appendedAllD, Array.size_append]
    omega

/-- **After any valid history of deletions and replacements, the source-side reader prints exactly the edited document**
    (the source-level counterpart of `C14_history_readback`, whose reader `owalkValue` is a walker of the model; the
    analogue of `C13_source_history_readback`).  `ops` is any finite sequence of `Array.DeleteElems`, `Object.DeleteElems`
    and `Set*` calls, each valid in the document as it is when the call is made (`ValidSeqDA`).  Running the regenerated
    syntax trees one after the other (`srcDOps`) returns without error at every step; and then running the regenerated
    `Iter.MarshalJSONBuffer(dst)` on the tape and string buffer that run returned, from the iterator standing on the
    document's first word (which has not moved), returns `dst ++ renderJ (erase (absDOps v ops))` — the canonical text of
    the original document with the selected members removed and the addressed values replaced, no survivor skipped, no
    deleted member resurrected, no gap misread — and `nil`; the tape is untouched by the reader.
    Discharged: every premise of the marshal tie (`OnNode`, the view, `cur < 2^63`, `BufOK` of the final buffers) and of the
    deletion ties (see `C14_source_history`).  Remaining: `FloatsOk` of the edited document (a `SetFloat(NaN)` has no JSON
    text: `MarshalJSONBuffer` then returns an error, `C10_source_marshal_error`); `BufOK pj` at the start (Go `int` lengths);
    `len(tape) < 2^56` (see `C14_source_history`); interpreter fuel. -/
theorem C14_source_history_readback (ops : List DOp) (pj : PJ) (v : LVal) (hok : Ok pj v) (ht : Tight v)
    (hv : ValidSeqDA pj.strings.size pj.tape.size v ops) (hfl : FloatsOk (absDOps v ops)) (hb : BufOK pj)
    (hsz : pj.tape.size < 2^56) (fuel : Nat) (hf : 2 * pj.tape.size + 7 ≤ fuel) (dst : Bytes)
    (F : Nat) (hF : 3 * pj.tape.size + 25 ≤ F) :
    ∃ pj', srcDOps fuel pj v ops = some pj' ∧
      ∃ st, runFun goFuns goIter_MarshalJSONBuffer F ⟨initEnv pj' (iterOn pj' v.pos) dst, pj'.tape⟩ =
          .ret st [.bytes (dst ++ renderJ (erase (absDOps v ops))), .bool false] ∧ st.tape = pj'.tape := by
  obtain ⟨pj', hs, hok', _, hm, hsz', hss⟩ := C14_source_history ops pj v hok ht hv hb hsz fuel hf
  refine ⟨pj', hs, ?_⟩
  have hon := iterOn_onNode pj' _ hok'
  rw [absDOps_pos] at hon
  have hb' : BufOK pj' :=
    ⟨by rw [hm]; exact hb.1, by rw [hss, Array.size_append]; exact appendedAllD_small ops _ _ v hv hb.2⟩
  exact (SJ.SourceLevelA.C10_source_marshal_exact pj' (absDOps v ops) (iterOn pj' v.pos) dst hok' hfl hon hb'
    (by rw [iterOn_lim]; exact Nat.le_refl _) F (by rw [iterOn_lim, hsz']; omega)).2

end C14

/-! ## C10 — several roots (ND): `ForEach` + `MarshalJSONBuffer` -/

section C10
open SJ.WalkLayout SJ.MarshalExact SJ.RenderParse SJ.GoObject SJ.GoMarshal SJ.ParseDefs SJ.Properties.C10

theorem forall2_imp {α β : Type} {R S : α → β → Prop} : ∀ {l₁ : List α} {l₂ : List β}, Forall2 R l₁ l₂ →
    (∀ a b, a ∈ l₁ → R a b → S a b) → Forall2 S l₁ l₂ := by
  intro l₁ l₂ h
  induction h with
  | nil => intro _; exact Forall2.nil
  | cons hab _ ih =>
    intro hi
    exact Forall2.cons (hi _ _ (List.mem_cons_self ..) hab) (ih fun a b ha => hi a b (List.mem_cons_of_mem _ ha))

/-- **The root iterator prints all roots, source level** (`C10_marshal_roots` on the source).  If the tape holds the located
    root values `v :: vs` (root entries one after the other, gaps allowed anywhere) and all their floats are finite, then
    running the regenerated `Iter.MarshalJSONBuffer(dst)` from the iterator `ParsedJson.Iter()` builds (`Iter.ofPJ`: view =
    the whole tape, offset 0) returns `dst ++` the canonical texts of the root values, in order, separated by newlines
    (`renderJRoots`: a function of the abstract documents only), and `nil`; the tape is untouched.
    Discharged: the view premise (`lim = len(tape)`), `cur < 2^63` (`cur = 0`), non-divergence of the model (the property
    computes the result).  Remaining: `BufOK pj` (Go `int` buffer lengths; `OkRoots` does not bound the buffers' total size)
    and the interpreter's loop budget. -/
theorem C10_source_roots_marshal_all (pj : PJ) (v : LVal) (vs : List LVal) (dst : Bytes) (h : OkRoots pj (v :: vs) 0)
    (hfs : ∀ x ∈ v :: vs, FloatsOk x) (hb : BufOK pj) (F : Nat) (hF : 3 * pj.tape.size + 25 ≤ F) :
    ∃ st, runFun goFuns goIter_MarshalJSONBuffer F ⟨initEnv pj (Iter.ofPJ pj) dst, pj.tape⟩ =
        .ret st [.bytes (dst ++ renderJRoots ((v :: vs).map erase)), .bool false] ∧ st.tape = pj.tape := by
  have hm := C10_marshal_roots pj v vs dst h hfs
  rw [renderRoots_erase] at hm
  have hcur : (Iter.ofPJ pj).cur.toNat < 2^63 := by simp [Iter.ofPJ]
  have hnd : (Iter.ofPJ pj).marshalBuf pj dst ≠ .diverge := by rw [hm]; exact fun h => by cases h
  exact ((go_marshal_source_tie pj hb (Iter.ofPJ pj) (Nat.le_refl _) hcur dst F
    (by unfold fuelOf; show 2 * pj.tape.size + 16 + pj.tape.size + 9 ≤ F; omega) hnd).1 _).mp hm

/-- **`ForEach` hands out the roots and each prints its own document, source level** (`C02_source_forEach` ∘
    `C10_source_marshal_exact`).  If the tape holds the located root values `vs` with finite floats, then running the
    regenerated `ParsedJson.ForEach` (callback always answering `nil`) returns `nil`, leaves the tape alone, and the log of
    what the callback was handed is the encoding of exactly one iterator per root value, in order (`Forall2`); each such
    iterator stands on its value (`RootIter`), and running the regenerated `Iter.MarshalJSONBuffer(dst)` from it returns, for
    every `dst`, `dst ++ renderJ (erase v)` — the canonical text of that root value — and `nil`.
    Discharged: for every handed-out iterator the marshal tie's `OnNode`, view-inside-the-tape (`RootIter` says so) and
    `cur < 2^63`.  Remaining: `BufOK pj`, the answers queue (`N ≥ len(tape)`) and fuel `3·len(tape) + 25`. -/
theorem C10_source_roots_marshal (pj : PJ) (vs : List LVal) (h : OkRoots pj vs 0) (hfs : ∀ x ∈ vs, FloatsOk x)
    (hb : BufOK pj) (N F : Nat) (hN : pj.tape.size ≤ N) (hF : 3 * pj.tape.size + 25 ≤ F) :
    ∃ s its, runFun goFuns goParsedJson_ForEach F ⟨GoPJForEach.feStore pj (List.replicate N false), pj.tape⟩ =
        .ret s [.bool false] ∧
      s.tape = pj.tape ∧ GoPJForEach.logOf s.env = GoPJForEach.encIters its ∧
      Forall2 (fun v it => RootIter pj v it ∧
        ∀ dst : Bytes, ∃ st, runFun goFuns goIter_MarshalJSONBuffer F ⟨initEnv pj it dst, pj.tape⟩ =
          .ret st [.bytes (dst ++ renderJ (erase v)), .bool false] ∧ st.tape = pj.tape) vs its := by
  obtain ⟨s, its, ho, ht, hlog, hall, _⟩ := SJ.SourceLevelB.C02_source_forEach pj vs h N F hN (by omega)
  refine ⟨s, its, ho, ht, hlog, forall2_imp hall fun v it hv hr => ⟨hr, fun dst => ?_⟩⟩
  obtain ⟨hok, hon, hl⟩ := hr
  exact (SJ.SourceLevelA.C10_source_marshal_exact pj v it dst hok (hfs v hv) hon hb hl F (by omega)).2

/-- **… and the text the root iterator returns is ND-JSON for the same documents** (`C10_roots_roundtrip` on what the source
    returns).  If moreover every root value is a container with well-formed UTF-8 strings and finite floats (`Clean`,
    `IsRoot`), the bytes `pj.Iter().MarshalJSONBuffer(nil)` returns are accepted by the per-line grammar `Spec.ndText` as the
    same documents in order (`RootsRel NumSame`: same nesting, member order, keys, strings, numerically equal numbers); and
    when no document contains `-0.0` re-rendering what the grammar read is a fixed point. -/
theorem C10_source_roots_read_back (pj : PJ) (v : LVal) (vs : List LVal) (h : OkRoots pj (v :: vs) 0)
    (hfs : ∀ x ∈ v :: vs, FloatsOk x) (hc : ∀ x ∈ (v :: vs).map erase, Clean x ∧ IsRoot x) (hb : BufOK pj) (F : Nat)
    (hF : 3 * pj.tape.size + 25 ≤ F) :
    ∃ txt st, runFun goFuns goIter_MarshalJSONBuffer F ⟨initEnv pj (Iter.ofPJ pj) #[], pj.tape⟩ =
        .ret st [.bytes txt, .bool false] ∧ st.tape = pj.tape ∧
      (∃ l, Spec.ndText txt.toList = .accept (.arr l) ∧ RootsRel NumSame ((v :: vs).map erase) l) ∧
      ((∀ x ∈ (v :: vs).map erase, NoNegZero x) →
        ∃ l, Spec.ndText txt.toList = .accept (.arr l) ∧ renderJRoots (l.map ofSpec) = txt) := by
  obtain ⟨st, hrun, htape⟩ := C10_source_roots_marshal_all pj v vs #[] h hfs hb F hF
  obtain ⟨h1, h2⟩ := C10_roots_roundtrip ((v :: vs).map erase) (by simp) hc
  refine ⟨_, st, hrun, htape, ?_, ?_⟩
  · simpa using h1
  · intro hz
    simpa using h2 hz

end C10

/-! ## C01 — the atom validators and `parseNumber` -/

section C01
open SJ.Tables SJ.TokenSim SJ.NumberProofs SJ.GoNumber SJ.Properties.C01

private theorem extract_all (b : Bytes) : b.extract 0 b.size = b := by simp

/-- "the buffer starts with the four bytes `x0 x1 x2 x3` and a fifth byte satisfying `P`", in the index form of the
    validators' characterisation and in list form -/
theorem prefix4_iff (b : Bytes) (x0 x1 x2 x3 : UInt8) (P : UInt8 → Prop) :
    (0 + 5 ≤ b.size ∧ (b.getD 0 0 = x0 ∧ b.getD (0 + 1) 0 = x1 ∧ b.getD (0 + 2) 0 = x2 ∧ b.getD (0 + 3) 0 = x3) ∧
      P (b.getD (0 + 4) 0)) ↔
    ∃ c rest, b.toList = x0 :: x1 :: x2 :: x3 :: c :: rest ∧ P c := by
  obtain ⟨l⟩ := b
  match l with
  | a0 :: a1 :: a2 :: a3 :: a4 :: r =>
    simp only [Array.getD, List.size_toArray, List.length_cons, Nat.zero_add]
    constructor
    · rintro ⟨_, ⟨h0, h1, h2, h3⟩, h4⟩
      simp at h0 h1 h2 h3 h4
      exact ⟨a4, r, by simp [h0, h1, h2, h3], h4⟩
    · rintro ⟨c, rest, he, hp⟩
      simp at he
      obtain ⟨rfl, rfl, rfl, rfl, rfl, rfl⟩ := he
      simp
      exact hp
  | [] => simp
  | [_] => simp
  | [_, _] => simp
  | [_, _, _] => simp
  | [_, _, _, _] => simp

/-- the same with five fixed bytes (`false`) -/
theorem prefix5_iff (b : Bytes) (x0 x1 x2 x3 x4 : UInt8) (P : UInt8 → Prop) :
    (0 + 6 ≤ b.size ∧ (b.getD 0 0 = x0 ∧ b.getD (0 + 1) 0 = x1 ∧ b.getD (0 + 2) 0 = x2 ∧ b.getD (0 + 3) 0 = x3 ∧
      b.getD (0 + 4) 0 = x4) ∧ P (b.getD (0 + 5) 0)) ↔
    ∃ c rest, b.toList = x0 :: x1 :: x2 :: x3 :: x4 :: c :: rest ∧ P c := by
  obtain ⟨l⟩ := b
  match l with
  | a0 :: a1 :: a2 :: a3 :: a4 :: a5 :: r =>
    simp only [Array.getD, List.size_toArray, List.length_cons, Nat.zero_add]
    constructor
    · rintro ⟨_, ⟨h0, h1, h2, h3, h4⟩, h5⟩
      simp at h0 h1 h2 h3 h4 h5
      exact ⟨a5, r, by simp [h0, h1, h2, h3, h4], h5⟩
    · rintro ⟨c, rest, he, hp⟩
      simp at he
      obtain ⟨rfl, rfl, rfl, rfl, rfl, rfl, rfl⟩ := he
      simp
      exact hp
  | [] => simp
  | [_] => simp
  | [_, _] => simp
  | [_, _, _] => simp
  | [_, _, _, _] => simp
  | [_, _, _, _, _] => simp

/-- **`isValidTrueAtom`, source level.**  Running the regenerated `isValidTrueAtom(buf)` (`parse_json_amd64.go`: the
    little-endian 32-bit load compared with `0x65757274`, the length guard, the look-up of the fifth byte in
    `isValidFollow…`) on ANY buffer returns a boolean, and `true` exactly when the buffer starts with the four bytes `true`
    followed by one of the ten bytes that may end a value — the six structural characters `, : [ ] { }` and the four JSON
    white-space characters (`followSet`; in particular not NUL, not a letter, and not the end of the buffer: on fewer than
    five bytes the function returns `false`).  Every fuel, every tape; the tape is untouched.  The tie has no hypothesis. -/
theorem C01_source_trueAtom_iff (b : Bytes) (fuel : Nat) (tape : Array UInt64) :
    ∃ r s, runFun goFuns goisValidTrueAtom fuel ⟨[("buf", .bytes b)], tape⟩ = .ret s [.bool r] ∧ s.tape = tape ∧
      (r = true ↔ ∃ c rest, b.toList = 116 :: 114 :: 117 :: 101 :: c :: rest ∧ followSet c = true) := by
  obtain ⟨⟨s, hrun, htape⟩, _⟩ := C01_atoms_and_numbers_follow_source b 0 fuel tape
  rw [extract_all] at hrun
  refine ⟨_, s, hrun, htape, ?_⟩
  rw [validTrue_iff, prefix4_iff b 116 114 117 101 (fun c => isFollow c = true)]
  simp only [C01_follow_set]

/-- **`isValidNullAtom`, source level**: `true` exactly when the buffer starts with `null` followed by one of the ten
    follow bytes (as `C01_source_trueAtom_iff`). -/
theorem C01_source_nullAtom_iff (b : Bytes) (fuel : Nat) (tape : Array UInt64) :
    ∃ r s, runFun goFuns goisValidNullAtom fuel ⟨[("buf", .bytes b)], tape⟩ = .ret s [.bool r] ∧ s.tape = tape ∧
      (r = true ↔ ∃ c rest, b.toList = 110 :: 117 :: 108 :: 108 :: c :: rest ∧ followSet c = true) := by
  obtain ⟨_, _, ⟨s, hrun, htape⟩, _⟩ := C01_atoms_and_numbers_follow_source b 0 fuel tape
  rw [extract_all] at hrun
  refine ⟨_, s, hrun, htape, ?_⟩
  rw [validNull_iff, prefix4_iff b 110 117 108 108 (fun c => isFollow c = true)]
  simp only [C01_follow_set]

/-- **`isValidFalseAtom`, source level**: `true` exactly when the buffer starts with the five bytes `false` followed by one
    of the ten follow bytes — on both paths of the Go function (the masked 64-bit load when at least eight bytes are left,
    the byte-wise comparison `bytes.Equal(buf[:5], "false")` on six or seven; `false` on fewer than six). -/
theorem C01_source_falseAtom_iff (b : Bytes) (fuel : Nat) (tape : Array UInt64) :
    ∃ r s, runFun goFuns goisValidFalseAtom fuel ⟨[("buf", .bytes b)], tape⟩ = .ret s [.bool r] ∧ s.tape = tape ∧
      (r = true ↔ ∃ c rest, b.toList = 102 :: 97 :: 108 :: 115 :: 101 :: c :: rest ∧ followSet c = true) := by
  obtain ⟨_, ⟨s, hrun, htape⟩, _⟩ := C01_atoms_and_numbers_follow_source b 0 fuel tape
  rw [extract_all] at hrun
  refine ⟨_, s, hrun, htape, ?_⟩
  rw [validFalse_iff, prefix5_iff b 102 97 108 115 101 (fun c => isFollow c = true)]
  simp only [C01_follow_set]

/-- **`parseNumber` accepts exactly the RFC 8259 numbers, source level** (`C01_number_iff` on the source).  For every buffer
    whose first byte is `-` or a digit (the only ones the stage-2 dispatcher hands over), running the regenerated
    `parseNumber(buf)` (`parse_number_amd64.go`) returns two words, and
    * it returns a NON-ZERO tag `id` with value word `val` exactly when the RFC number grammar reads a literal `l` off the
      front of the buffer (`Spec.numberLit`), what follows is the end of the buffer or an end-of-value byte (`Stop`), the
      literal has a finite value `n` (`Spec.numValue`: int64, else uint64, else the correctly rounded float64) and
      `(id, val)` is the encoding of `n`;
    * it returns tag 0 (which the caller turns into a parse error) exactly when there is no such literal — no literal at
      all, a literal followed by a byte that cannot end a value, or a literal that rounds to ±Inf.
    Every fuel, every tape; the tape is untouched.  The tie has no hypothesis; `NumStart` is the property's. -/
theorem C01_source_number_iff (b : Bytes) (hstart : NumStart b.toList) (fuel : Nat) (tape : Array UInt64) :
    (∃ s id val, runFun goFuns goparseNumber fuel ⟨[("buf", .bytes b)], tape⟩ = .ret s [.u64 id, .u64 val] ∧
      s.tape = tape) ∧
    (∀ id val, id ≠ 0 →
      ((∃ s, runFun goFuns goparseNumber fuel ⟨[("buf", .bytes b)], tape⟩ = .ret s [.u64 id, .u64 val]) ↔
        ∃ l r n, Spec.numberLit b.toList = some (l, r) ∧ Stop r ∧ Spec.numValue l = some n ∧ encode n = (id, val))) ∧
    ((∃ s, runFun goFuns goparseNumber fuel ⟨[("buf", .bytes b)], tape⟩ = .ret s [.u64 0, .u64 0]) ↔
      ¬ ∃ l r n, Spec.numberLit b.toList = some (l, r) ∧ Stop r ∧ Spec.numValue l = some n) := by
  obtain ⟨_, _, _, ⟨s, hrun, htape⟩, hsome, hnone⟩ := C01_atoms_and_numbers_follow_source b 0 fuel tape
  rw [extract_all] at hrun hsome hnone
  have hp := C01_number_iff b 0 (by simpa using hstart)
  rw [List.drop_zero] at hp
  have key1 : ∀ id val, parseNumber b 0 = some (id, val) ↔
      ∃ l r n, Spec.numberLit b.toList = some (l, r) ∧ Stop r ∧ Spec.numValue l = some n ∧ encode n = (id, val) := by
    intro id val
    rw [hp]
    cases hl : Spec.numberLit b.toList with
    | none => simp
    | some lr =>
      obtain ⟨l, r⟩ := lr
      simp only []
      by_cases hs : Stop r
      · rw [if_pos hs]
        cases hn : Spec.numValue l with
        | none => simp [hn]
        | some n =>
          simp only [Option.map_some, Option.some.injEq]
          constructor
          · intro h; exact ⟨l, r, n, rfl, hs, hn.symm ▸ rfl, h⟩
          · rintro ⟨l', r', n', h1, _, h3, h4⟩
            simp only [Prod.mk.injEq] at h1
            obtain ⟨rfl, rfl⟩ := h1
            rw [hn] at h3
            cases h3
            exact h4
      · rw [if_neg hs]
        constructor
        · intro h; cases h
        · rintro ⟨l', r', n', h1, h2, _⟩
          simp only [Option.some.injEq, Prod.mk.injEq] at h1
          obtain ⟨rfl, rfl⟩ := h1
          exact absurd h2 hs
  refine ⟨?_, fun id val hid => ?_, ?_⟩
  · cases hx : parseNumber b 0 with
    | none => rw [hx] at hrun; exact ⟨s, 0, 0, hrun, htape⟩
    | some x => obtain ⟨id, val⟩ := x; rw [hx] at hrun; exact ⟨s, id, val, hrun, htape⟩
  · rw [← key1, hsome]
    exact ⟨fun h => ⟨hid, h⟩, fun h => h.2⟩
  · rw [← hnone]
    constructor
    · rintro h ⟨l, r, n, h1, h2, h3⟩
      have := (key1 (encode n).1 (encode n).2).mpr ⟨l, r, n, h1, h2, h3, rfl⟩
      rw [h] at this
      cases this
    · intro h
      cases hx : parseNumber b 0 with
      | none => rfl
      | some x =>
        obtain ⟨id, val⟩ := x
        obtain ⟨l, r, n, h1, h2, h3, _⟩ := (key1 id val).mp hx
        exact absurd ⟨l, r, n, h1, h2, h3⟩ h

end C01

/-! ## C12 — `Iter.FindElement` -/

section C12find
open SJ.Tables SJ.WalkLayout SJ.Lookup SJ.GoObject SJ.GoFind SJ.GoFindElem SJ.Properties.C12

theorem elemIter_ne_default (pj : PJ) (v : LVal) : elemIter pj v ≠ default := by
  intro h
  have : (elemIter pj v).off = (default : Iter).off := by rw [h]
  exact absurd this (by show v.pos + 1 ≠ 0; omega)

theorem pathSpec_ne_panic : ∀ (rest : List Bytes) (key : Bytes) (ms : LMems), pathSpec key rest ms ≠ .panic := by
  intro rest
  induction rest with
  | nil =>
    intro key ms h
    unfold pathSpec at h
    split at h <;> cases h
  | cons k rest ih =>
    intro key ms h
    unfold pathSpec at h
    split at h
    · cases h
    · simp only at h
      split at h
      · exact ih _ _ h
      · cases h

/-- what `FindElement` leaves in the caller's hands, in terms of the path specification `pathSpec`: the shared conclusion
    of the two theorems below -/
theorem findElement_post (pj : PJ) (p e : Nat) (ms : LMems) (key : Bytes) (rest : List Bytes) (i : Iter) (nil : Bool)
    (d0 : Iter) (o : Out) (hok : Ok pj (.obj p e ms))
    (hm : ∃ mf, FEPost pj (pathLast (key :: rest)) nil (D0 nil d0) i o (Iter.findElement pj (key :: rest) i mf) ∧
      Iter.findElement pj (key :: rest) i mf = mapRes (elemOf pj) (pathSpec key rest ms)) :
    match pathSpec key rest ms with
    | .ok v =>
      ∃ e', o = .ret ⟨e', pj.tape⟩ [.bool true, .bool false] ∧
        e'.get "dst.Type" = some (.u8 (tagToTypeSpec (tagOfL v))) ∧
        e'.get "dst.Name" = some (.bytes (rest.getLastD key)) ∧
        iterAt e' "dst.Iter" = some (elemIter pj v) ∧ iterAt e' "i" = some i ∧ Ok pj v ∧ OnNode pj v (elemIter pj v)
    | .error _ => ∃ e' b, o = .ret ⟨e', pj.tape⟩ [.bool b, .bool true] ∧ (nil = false → b = true) ∧ iterAt e' "i" = some i
    | .panic => False
    | .diverge => False := by
  obtain ⟨mf, ht, hm⟩ := hm
  rw [hm] at ht
  have hms : OkMems pj ms (p + 1) (e - 1) := by
    have hok' := hok
    simp only [Ok] at hok'
    exact hok'.2.2.2
  cases hps : pathSpec key rest ms with
  | ok v =>
    rw [hps] at ht
    obtain ⟨e', h1, h2, h3, h4, _, h6⟩ := ht
    have h4' : iterAt e' "dst.Iter" = some (elemIter pj v) := by
      rw [h4]; exact congrArg some (if_neg (elemIter_ne_default pj v))
    have h3' : e'.get "dst.Name" = some (.bytes (rest.getLastD key)) := by
      rw [h3]; show some (Val.bytes (lastKey key rest)) = _; rw [lastKey_eq_getLastD]
    have hv : Ok pj v := pathSpec_ok pj rest key ms _ _ hms v hps
    rw [tagToType_spec] at h2
    exact ⟨e', h1, h2, h3', h4', h6, hv, (elemIter_onNode pj v hv).1⟩
  | error er => rw [hps] at ht; exact ht
  | panic => exact pathSpec_ne_panic rest key ms hps
  | diverge => rw [hps] at ht; exact ht

/-- `AdvanceInto` lands on a root word after a gap: positioned to step INTO the root entry (`addNext = 0`) -/
theorem advanceInto_rootword (pj : PJ) (i : Iter) (lo q : Nat) (w : UInt64) (g : Gap pj lo q) (hw : word pj q = some w)
    (ht : tagOf w = tagRoot) (hq : q < i.lim) (ha : 0 ≤ i.addNext) (hlo : (i.off : Int) + i.addNext = lo) :
    Iter.advanceInto pj i =
      .ok ({ lim := i.lim, off := q + 1, addNext := 0, cur := payloadOf w, t := tagRoot }, tagRoot) := by
  unfold Iter.advanceInto
  rw [bump_to i lo ha hlo]
  simp only [Res.bind_ok]
  rw [advanceIntoLoop_gap pj i g hq, advanceIntoLoop_live pj i hw (by rw [ht]; decide) hq]
  simp only [Res.bind_ok, Bool.not_true, Bool.false_eq_true, if_false]
  rw [(calcNext_root { i with off := q + 1, cur := payloadOf w, t := tagOf w } ht).2]
  simp only [Int.lt_irrefl, if_false, ht]

/-- **The model's `FindElement` from the document iterator**, on a tape whose first root value is the object
    `.obj p e ms`: the end-of-view turn steps onto the root word (`AdvanceInto`), the root turn steps into the root entry
    (`Root` on itself), the object turn is `findElement_obj`. -/
theorem findElement_doc (pj : PJ) (p e : Nat) (ms : LMems) (vs : List LVal) (key : Bytes) (rest : List Bytes)
    (hkeys : ∀ k ∈ key :: rest, k.size < 2 ^ 63) (h : OkRoots pj (.obj p e ms :: vs) 0) (n : Nat) :
    Iter.findElement pj (key :: rest) (Iter.ofPJ pj) (n + 3) = mapRes (elemOf pj) (pathSpec key rest ms) := by
  simp only [OkRoots] at h
  obtain ⟨q, re, g, ⟨hqe, ⟨w, hw, hwt, hwp⟩, ⟨c, hc, _⟩, g1, hok, g2⟩, _⟩ := h
  have hce := word_lt hc
  have hg2 := g2.1
  simp only [LVal.pos, LVal.fin] at g1 hg2
  have hadv := advanceInto_rootword pj (Iter.ofPJ pj) 0 q w g hw hwt (by show q < pj.tape.size; omega) (Int.le_refl 0) rfl
  have hlim0 : (Iter.ofPJ pj).lim = pj.tape.size := rfl
  rw [hlim0] at hadv
  rw [Iter.findElement]
  have ht0 : (Iter.ofPJ pj).t = tagEnd := rfl
  simp only [List.isEmpty_cons, Bool.false_eq_true, if_false, ht0, show (tagEnd == tagObjectStart) = false from by decide,
    show (tagEnd == tagRoot) = false from by decide, beq_self_eq_true, if_true, hadv, Res.bind_ok,
    show (tagRoot == tagEnd) = false from by decide]
  rw [Iter.findElement]
  simp only [List.isEmpty_cons, Bool.false_eq_true, if_false, show (tagRoot == tagObjectStart) = false from by decide,
    beq_self_eq_true, if_true]
  obtain ⟨x, hx, hxt, hin⟩ := advanceInto_node pj
    { lim := re - 1, off := q + 1, addNext := 0, cur := payloadOf w, t := tagRoot } (q + 1) (.obj p e ms) g1 hok
    (by show e ≤ re - 1; exact hg2) (Int.le_refl 0) (by show ((q + 1 : Nat) : Int) + 0 = _; omega)
  have hroot : Iter.root pj { lim := pj.tape.size, off := q + 1, addNext := 0, cur := payloadOf w, t := tagRoot } =
      .ok (tagToType (tagOf x), Iter.mk (re - 1) (p + 1) (intoNext (.obj p e ms)) (payloadOf x) (tagOf x)) := by
    unfold Iter.root
    have hne : (payloadOf w == 0) = false := by
      cases hz : (payloadOf w == 0) with
      | false => rfl
      | true =>
        have : payloadOf w = 0 := by simpa using hz
        rw [this] at hwp
        have : re = 0 := by simpa using hwp.symm
        omega
    have hgt : ¬ (re > pj.tape.size ∨ False) := by
      rintro (h | h)
      · omega
      · exact h
    simp only [bne_self_eq_false, Bool.false_eq_true, if_false, hne, hwp]
    rw [hin, if_neg hgt]
    rfl
  rw [hroot]
  simp only [Res.bind_ok]
  have hon : OnNode pj (.obj p e ms) (Iter.mk (re - 1) (p + 1) (intoNext (.obj p e ms)) (payloadOf x) (tagOf x)) := by
    have hi := intoNext_le pj _ hok
    simp only [LVal.pos, LVal.fin] at hi
    exact ⟨rfl, ⟨x, hx, rfl, rfl⟩, hg2, by simp only; omega⟩
  exact findElement_obj pj p e ms _ key rest hkeys n hok hon

/-- **`Iter.FindElement` on an iterator standing on an object, source level** (`C12_findPath` through the public entry
    point).  On a tape that holds the located object `.obj p e ms` (gaps anywhere), with the receiver standing on it
    (`OnNode`: what `ForEach`, `Root`, `Advance`/`AdvanceInto` or a previous `FindElement` hand out), running
    `i.FindElement(dst, key, rest...)` of `parsed_json.go` (as printed from /repo) — which copies the receiver, builds the
    object's view with `Iter.Object` and hands it to `Object.FindPath` with the caller's `dst` and its nil flag:
    * if taking the FIRST member with each key of the path in turn reaches a value `v` (`pathSpec … = .ok v`): returns
      `(dst, nil)` with `dst` non-nil, `dst.Name` = the last key of the path, `dst.Type` = the type of `v`, `dst.Iter` = the
      cursor restricted to the words of `v` and standing on it;
    * if some key is absent, or the path continues through a value that is not an object (`pathSpec … = .error _`):
      returns a non-nil error (and a non-nil `dst` when the caller supplied one);
    * nothing else happens: no panic, no divergence, never stuck.
    The tape and the receiver `i` are untouched.
    Discharged: the model fuel, `i.off < 2^63` (from `off ≤ lim`), the exception of `FEPost` ("`dst.Iter` left alone at the
    end of the view": the cursor on an `Ok` value is never the zero iterator).  Kept: `BufOK pj` (buffer lengths are Go
    `int`s), `i.lim ≤ len(tape)` (`OnNode` bounds the view from below only), `i.lim < 2^63` (a Go `int`; the model's field
    is a `Nat`), `key.size < 2^63` for every key (of the property), the interpreter's budget `4·lim + 17`.  Not stated (the
    tie does not distinguish error values): WHICH error is returned, although `pathSpec` names it. -/
theorem C12_source_findElement_on (pj : PJ) (p e : Nat) (ms : LMems) (i : Iter) (key : Bytes) (rest : List Bytes)
    (hkeys : ∀ k ∈ key :: rest, k.size < 2 ^ 63) (hok : Ok pj (.obj p e ms)) (hon : OnNode pj (.obj p e ms) i)
    (hb : BufOK pj) (hl : i.lim ≤ pj.tape.size) (hlim : i.lim < 2^63) (nil : Bool) (nm tv : Val) (d0 : Iter) (extra : Env)
    (fuel : Nat) (hf : 4 * i.lim + 17 ≤ fuel) :
    match pathSpec key rest ms with
    | .ok v =>
      ∃ e', runFun goFuns goIter_FindElement fuel ⟨feStore pj i (key :: rest) nil nm tv d0 extra, pj.tape⟩ =
          .ret ⟨e', pj.tape⟩ [.bool true, .bool false] ∧
        e'.get "dst.Type" = some (.u8 (tagToTypeSpec (tagOfL v))) ∧
        e'.get "dst.Name" = some (.bytes (rest.getLastD key)) ∧
        iterAt e' "dst.Iter" = some (elemIter pj v) ∧ iterAt e' "i" = some i ∧ Ok pj v ∧ OnNode pj v (elemIter pj v)
    | .error _ =>
      ∃ e' b, runFun goFuns goIter_FindElement fuel ⟨feStore pj i (key :: rest) nil nm tv d0 extra, pj.tape⟩ =
          .ret ⟨e', pj.tape⟩ [.bool b, .bool true] ∧ (nil = false → b = true) ∧ iterAt e' "i" = some i
    | .panic => False
    | .diverge => False := by
  have hoff : i.off < 2^63 := by
    obtain ⟨h1, _, h3, _⟩ := hon
    have := (SJ.SourceLevelB.obj_end_le hok).1
    simp only [LVal.pos, LVal.fin] at h1 h3
    omega
  have ht := (C12_findElement_follows_source pj hb i hl hlim hoff (key :: rest) nil nm tv d0 extra fuel hf).2.1
  exact findElement_post pj p e ms key rest i nil d0 _ hok
    ⟨fuelOf pj, ht, by
      have : fuelOf pj = (2 * pj.tape.size + 15) + 1 := rfl
      rw [this]; exact findElement_obj pj p e ms i key rest hkeys _ hok hon⟩

/-- **`Iter.FindElement` from the document's iterator, source level.**  On a tape denoting a document whose (first) root
    value is the object `.obj p e ms` (`OkRoots`: root entries, gaps anywhere), running `i.FindElement(dst, key, rest...)`
    of `parsed_json.go` (as printed from /repo) from the iterator `ParsedJson.Iter()` builds (`Iter.ofPJ`: view = the whole
    tape, offset 0, nothing read yet) — the loop of `FindElement` steps over the end-of-view state with `AdvanceInto`, into
    the root entry with `Root` on its own copy, builds the object's view and calls `Object.FindPath` — returns the element
    at that path (type, name = the last key, an iterator restricted to the value and standing on it) and `nil` when
    `pathSpec` finds it, and a non-nil error when it does not; no panic, no divergence; tape and receiver untouched.
    Discharged: everything about the receiver (`lim = len(tape)`, `off = 0`), the model fuel.  Kept: `BufOK pj`,
    `len(tape) < 2^63` (a Go `int`), `key.size < 2^63` for every key, the interpreter's budget `4·len(tape) + 17`. -/
theorem C12_source_findElement (pj : PJ) (p e : Nat) (ms : LMems) (vs : List LVal) (key : Bytes) (rest : List Bytes)
    (hkeys : ∀ k ∈ key :: rest, k.size < 2 ^ 63) (hroots : OkRoots pj (.obj p e ms :: vs) 0) (hb : BufOK pj)
    (hsz : pj.tape.size < 2^63) (nil : Bool) (nm tv : Val) (d0 : Iter) (extra : Env) (fuel : Nat)
    (hf : 4 * pj.tape.size + 17 ≤ fuel) :
    match pathSpec key rest ms with
    | .ok v =>
      ∃ e', runFun goFuns goIter_FindElement fuel
            ⟨feStore pj (Iter.ofPJ pj) (key :: rest) nil nm tv d0 extra, pj.tape⟩ =
          .ret ⟨e', pj.tape⟩ [.bool true, .bool false] ∧
        e'.get "dst.Type" = some (.u8 (tagToTypeSpec (tagOfL v))) ∧
        e'.get "dst.Name" = some (.bytes (rest.getLastD key)) ∧
        iterAt e' "dst.Iter" = some (elemIter pj v) ∧ iterAt e' "i" = some (Iter.ofPJ pj) ∧ Ok pj v ∧
        OnNode pj v (elemIter pj v)
    | .error _ =>
      ∃ e' b, runFun goFuns goIter_FindElement fuel
            ⟨feStore pj (Iter.ofPJ pj) (key :: rest) nil nm tv d0 extra, pj.tape⟩ =
          .ret ⟨e', pj.tape⟩ [.bool b, .bool true] ∧ (nil = false → b = true) ∧ iterAt e' "i" = some (Iter.ofPJ pj)
    | .panic => False
    | .diverge => False := by
  have hok : Ok pj (.obj p e ms) := by
    have h := hroots
    simp only [OkRoots] at h
    obtain ⟨_, _, _, ⟨_, _, _, _, hok, _⟩, _⟩ := h
    exact hok
  have ht := (C12_findElement_follows_source pj hb (Iter.ofPJ pj) (Nat.le_refl _) hsz (by show 0 < 2^63; omega)
    (key :: rest) nil nm tv d0 extra fuel hf).2.1
  exact findElement_post pj p e ms key rest _ nil d0 _ hok
    ⟨fuelOf pj, ht, by
      have : fuelOf pj = (2 * pj.tape.size + 13) + 3 := rfl
      rw [this]; exact findElement_doc pj p e ms vs key rest hkeys hroots _⟩

/-- The premises of `C12_source_findElement_on` are satisfiable: on the tape of `{"a":{"b":7}}` (`Lookup.nestPJ`), from
    the iterator standing on the outer object, `FindElement(nil, "a", "b")` run on the source returns `(dst, nil)` with
    `dst.Iter` on the integer at tape position 6, `dst.Name = "b"`. -/
example : ∃ e', runFun goFuns goIter_FindElement 100
      ⟨feStore nestPJ (SJ.EditHistory.iterOn nestPJ 0) [#[97], #[98]] true (.bytes #[]) (.u8 0) default [], nestPJ.tape⟩ =
        .ret ⟨e', nestPJ.tape⟩ [.bool true, .bool false] ∧
      e'.get "dst.Name" = some (.bytes #[98]) ∧ iterAt e' "dst.Iter" = some (elemIter nestPJ (.int 7 6)) := by
  have h := C12_source_findElement_on nestPJ 0 10 nestMems (SJ.EditHistory.iterOn nestPJ 0) #[97] [#[98]] (by decide) nest_ok
    (SJ.EditHistory.iterOn_onNode nestPJ _ nest_ok) ⟨by decide, by decide⟩
    (by rw [SJ.EditHistory.iterOn_lim]; exact Nat.le_refl _) (by rw [SJ.EditHistory.iterOn_lim]; decide) true (.bytes #[]) (.u8 0)
    default [] 100 (by rw [SJ.EditHistory.iterOn_lim]; decide)
  rw [pathSpec_obj #[97] #[98] [] nestMems 1 3 9 nestInner rfl, pathSpec_last #[98] nestInner 4 (.int 7 6) rfl] at h
  obtain ⟨e', h1, _, h3, h4, _⟩ := h
  exact ⟨e', h1, h3, h4⟩

/-- a whole document: `{"a":null}` between its two root words -/
def docPJ : PJ :=
  { tape := #[mkWord tagRoot 7, mkWord tagObjectStart 6, mkWord tagString 0, 1, mkWord tagNull 0, mkWord tagObjectEnd 1,
              mkWord tagRoot 0],
    strings := #[], msg := #[97] }
def docMems : LMems := .cons 2 [97] (.null 4) .nil

theorem docRoots : OkRoots docPJ [.obj 1 6 docMems] 0 := by
  simp only [OkRoots, OkRoot, docMems, Ok, OkMems, StrAt, LVal.pos, LVal.fin]
  exact ⟨0, 7, gap_refl _ _, ⟨by omega, ⟨_, rfl, by decide, by decide⟩, ⟨_, rfl, by decide, by decide⟩, gap_refl _ _,
    ⟨by omega, ⟨_, rfl, by decide, by decide⟩, ⟨_, rfl, by decide, by decide⟩, gap_refl _ _,
      ⟨_, _, rfl, rfl, by decide, rfl⟩, gap_refl _ _, ⟨_, rfl, by decide⟩, by omega, gap_refl _ _⟩, gap_refl _ _⟩,
    gap_refl _ _⟩

/-- The premises of `C12_source_findElement` are satisfiable: from the document iterator of `docPJ`,
    `FindElement(nil, "a")` run on the source finds the `null` at tape position 4; `FindElement(nil, "b")` returns an error. -/
example : (∃ e', runFun goFuns goIter_FindElement 100
        ⟨feStore docPJ (Iter.ofPJ docPJ) [#[97]] true (.bytes #[]) (.u8 0) default [], docPJ.tape⟩ =
          .ret ⟨e', docPJ.tape⟩ [.bool true, .bool false] ∧
        e'.get "dst.Type" = some (.u8 (tagToTypeSpec tagNull)) ∧ iterAt e' "dst.Iter" = some (elemIter docPJ (.null 4))) ∧
    (∃ e' b, runFun goFuns goIter_FindElement 100
        ⟨feStore docPJ (Iter.ofPJ docPJ) [#[98]] true (.bytes #[]) (.u8 0) default [], docPJ.tape⟩ =
          .ret ⟨e', docPJ.tape⟩ [.bool b, .bool true]) := by
  constructor
  · have h := C12_source_findElement docPJ 1 6 docMems [] #[97] [] (by decide) docRoots ⟨by decide, by decide⟩ (by decide) true
      (.bytes #[]) (.u8 0) default [] 100 (by decide)
    rw [pathSpec_last #[97] docMems 2 (.null 4) rfl] at h
    obtain ⟨e', h1, h2, _, h4, _⟩ := h
    exact ⟨e', h1, h2, h4⟩
  · have h := C12_source_findElement docPJ 1 6 docMems [] #[98] [] (by decide) docRoots ⟨by decide, by decide⟩ (by decide) true
      (.bytes #[]) (.u8 0) default [] 100 (by decide)
    rw [pathSpec_none #[98] [] docMems rfl] at h
    obtain ⟨e', b, h1, _⟩ := h
    exact ⟨e', b, h1⟩

end C12find

/-! ## C12 — `Array.AsString` -/

section C12str
open SJ.Tables SJ.WalkLayout SJ.Lookup SJ.GoObject SJ.GoArrStr

/-- the strings of a located array all of whose elements are strings; `none` as soon as one element is not a string -/
def strsOf : LVals → Option (List (List UInt8))
  | .nil => some []
  | .cons (.str s _) vs => (strsOf vs).map (s :: ·)
  | .cons _ _ => none

/-- the abstract array elements that are the strings `ss` -/
def jstrs : List (List UInt8) → JVals
  | [] => .nil
  | s :: r => .cons (.str s) (jstrs r)

/-- `strsOf es = some ss` says exactly that the array DENOTES the array of strings `ss` -/
theorem strsOf_erase : ∀ (es : LVals) (ss : List (List UInt8)), strsOf es = some ss ↔ eraseVals es = jstrs ss
  | .nil, ss => by cases ss <;> simp [strsOf, eraseVals, jstrs]
  | .cons v vs, ss => by
    have ih := strsOf_erase vs
    cases v <;> cases ss <;> simp [strsOf, eraseVals, erase, jstrs, ih]
    exact And.comm

/-- `AdvanceIter` onto the closing bracket of an array (after a gap): `TypeNone` -/
theorem advanceIter_arrayEnd (pj : PJ) (i d : Iter) (lo hi : Nat) (c : UInt64) (g : Gap pj lo hi) (hc : word pj hi = some c)
    (hct : tagOf c = tagArrayEnd) (hlt : hi < i.lim) (ha : 0 ≤ i.addNext) (hlo : (i.off : Int) + i.addNext = lo) :
    ∃ i' d', Iter.advanceIter pj i d = .ok (i', d', typeNone) := by
  have hcalc : ∀ (j : Iter) (b : Bool), j.t = tagArrayEnd → j.calcNext b = { j with addNext := 0 } := by
    intro j b hj
    unfold Iter.calcNext
    rw [hj]
    simp only [show inCase (caseOf swCalcNext 0) tagArrayEnd = false from by decide,
      show inCase (caseOf swCalcNext 1) tagArrayEnd = false from by decide, Bool.false_eq_true, if_false]
  unfold Iter.advanceIter
  rw [bump_to i lo ha hlo]
  simp only [Res.bind_ok]
  rw [advanceIterLoop_gap pj i g hlt, advanceIterLoop_live pj i hc (by rw [hct]; decide) hlt]
  simp only [Res.bind_ok, Bool.not_true, Bool.false_eq_true, if_false]
  rw [hcalc _ false hct]
  simp only [Int.lt_irrefl, if_false]
  rw [hcalc _ true hct]
  have e3 : ¬ (hi + 1 + (0 : Int).toNat > i.lim) := by simp; omega
  simp only [Int.lt_irrefl, if_false, e3, hct, tt_arrayEnd]
  exact ⟨_, _, rfl⟩

/-- `Iter.String` on the cursor `AdvanceIter` hands out for a string node: the string -/
theorem stringBytes_elemIter (pj : PJ) (s : List UInt8) (p : Nat) (hok : Ok pj (.str s p)) :
    (elemIter pj (.str s p)).stringBytes pj = .ok s.toArray := by
  have hok' := hok
  simp only [Ok] at hok'
  obtain ⟨w, len, hw, hlen, ht, hstr⟩ := hok'
  have hh : headWord pj (.str s p) = w := headWord_eq hw
  unfold Iter.stringBytes
  have h1 : (elemIter pj (.str s p)).t = tagString := by show tagOf (headWord pj _) = _; rw [hh, ht]
  have h2 : (elemIter pj (.str s p)).cur = payloadOf w := by show payloadOf (headWord pj _) = _; rw [hh]
  rw [h1, h2, valWord_of pj (elemIter pj (.str s p)) (by show p + 1 < p + 2; omega) (by show word pj (p + 1) = _; exact hlen)]
  simp only [bne_self_eq_false, Bool.false_eq_true, if_false, Res.bind_ok, hstr]

theorem tt_not_string (v : LVal) (h : ∀ s p, v ≠ .str s p) : (tagToType (tagOfL v) == typeString) = false := by
  cases v with
  | null _ => simp only [tagOfL, tt_null]; decide
  | bool b _ => cases b <;> simp only [tagOfL, if_true, Bool.false_eq_true, if_false, tt_true, tt_false] <;> decide
  | int _ _ => simp only [tagOfL, tt_int]; decide
  | uint _ _ => simp only [tagOfL, tt_uint]; decide
  | float _ _ _ => simp only [tagOfL, tt_float]; decide
  | str s p => exact absurd rfl (h s p)
  | arr _ _ _ => simp only [tagOfL, tt_array]; decide
  | obj _ _ _ => simp only [tagOfL, tt_object]; decide

/-- **The model's `AsString` loop on located elements**: all strings → exactly those strings, in order; otherwise an error -/
theorem asString_elems (pj : PJ) (hi : Nat) (c : UInt64) (hc : word pj hi = some c) (hct : tagOf c = tagArrayEnd) :
    ∀ (vs : LVals) (i : Iter) (acc : Array Bytes) (lo fuel : Nat), OkElems pj vs lo hi → hi < i.lim →
      0 ≤ i.addNext → (i.off : Int) + i.addNext = lo → hi + 1 - lo ≤ fuel →
      match strsOf vs with
      | some ss => View.asString pj i acc fuel = .ok (acc ++ (ss.map List.toArray).toArray)
      | none => ∃ er, View.asString pj i acc fuel = .error er
  | .nil, i, acc, lo, fuel, h, hlt, ha, hlo, hfuel => by
    simp only [OkElems] at h
    have hle := h.1
    obtain ⟨f, rfl⟩ : ∃ f, fuel = f + 1 := ⟨fuel - 1, by omega⟩
    obtain ⟨i', d', hadv⟩ := advanceIter_arrayEnd pj i default lo hi c h hc hct hlt ha hlo
    simp only [strsOf]
    rw [View.asString, hadv]
    simp
  | .cons v vs, i, acc, lo, fuel, h, hlt, ha, hlo, hfuel => by
    have ih := asString_elems pj hi c hc hct vs
    simp only [OkElems] at h
    obtain ⟨g, hok, hfin, rest⟩ := h
    have hpf := pos_lt_fin v pj hok
    have hg := g.1
    obtain ⟨f, rfl⟩ : ∃ f, fuel = f + 1 := ⟨fuel - 1, by omega⟩
    have hadv := advanceIter_node pj i default lo v g hok (by omega) ha hlo
    obtain ⟨n1, n2, n3⟩ := skipIter_next pj i.lim v hok
    rw [View.asString, hadv]
    simp only [Res.bind_ok, tagToType_tagOfL_ne_none v, Bool.false_eq_true, if_false]
    by_cases hs : ∃ s p, v = .str s p
    · obtain ⟨s, p, rfl⟩ := hs
      have hrec := ih (skipIter pj i.lim (.str s p)) (acc.push s.toArray) (LVal.fin (.str s p)) f rest (by rw [n3]; exact hlt)
        n1 n2 (by omega)
      simp only [tagOfL, tt_string, beq_self_eq_true, if_true, stringBytes_elemIter pj s p hok, Res.bind_ok, strsOf]
      cases hss : strsOf vs with
      | none =>
        rw [hss] at hrec
        simpa using hrec
      | some ss =>
        rw [hss] at hrec
        simp only [Option.map_some] at hrec ⊢
        rw [hrec]
        congr 1
        apply Array.toList_inj.mp
        simp
    · have hno : ∀ s p, v ≠ .str s p := fun s p hh => hs ⟨s, p, hh⟩
      have hso : strsOf (.cons v vs) = none := by
        cases v with
        | str s p => exact absurd rfl (hno s p)
        | _ => rfl
      rw [hso]
      simp only [tt_not_string v hno, Bool.false_eq_true, if_false]
      exact ⟨_, rfl⟩

/-- **`Array.AsString`, source level.**  There is no property theorem about `AsString` in `Properties/C12`; the statement
    is made against the document directly (`asString_elems` above is the model-level half, proved here).  On a tape that
    holds the located array `.arr p e es` (gaps anywhere), running `Array.AsString()` of `parsed_array.go` (as printed from
    /repo: the loop `AdvanceIter` / `switch t` / `elem.String()` / `append`) on the array's view (`off = p+1`, `lim = e`,
    what `Iter.Array` returns):
    * if every element is a string (`strsOf es = some ss`, i.e. the array DENOTES the array of strings `ss`:
      `strsOf_erase`): returns exactly those strings, in order, and `nil` — each string
      being the bytes the tape denotes for it (from `Message` or the string buffer, as `Ok` reads them); the tape is untouched;
    * if some element is not a string (`strsOf es = none`): returns `nil` and a non-nil error;
    * nothing else: no panic, no divergence, never stuck.
    Tie used: `GoArrStr.asString_sim`, the theorem behind the first half of `C12_string_accessors_follow_source` (the bundle
    asks for the larger loop budget of `AsStringCvt`, a function of the tape's float words; `AsString` alone needs
    `fuelOf + lim + 13`).  Discharged: `v.lim ≤ len(tape)` (the closing bracket of an `Ok` array is a word of the tape), the
    model fuel.  Kept: `BufOK pj` (Go `int` buffer lengths) and the interpreter's budget. -/
theorem C12_source_asString (pj : PJ) (p e : Nat) (es : LVals) (hok : Ok pj (.arr p e es)) (hb : BufOK pj) (extra : Env)
    (F : Nat) (hF : 3 * pj.tape.size + 29 ≤ F) :
    match strsOf es with
    | some ss =>
      ∃ st, runFun goFuns goArray_AsString F ⟨arrStore pj { lim := e, off := p + 1 } extra, pj.tape⟩ =
          .ret st [.keys (ss.map List.toArray), .bool false] ∧ st.tape = pj.tape
    | none =>
      ∃ st, runFun goFuns goArray_AsString F ⟨arrStore pj { lim := e, off := p + 1 } extra, pj.tape⟩ =
          .ret st [.keys [], .bool true] := by
  obtain ⟨hpe, hle⟩ := SJ.SourceLevelB.arr_end_le hok
  have hsim := asString_sim pj hb { lim := e, off := p + 1 } hle _ (RecvIn_arrStore pj _ extra) (fuelOf pj) F
    (by unfold fuelOf; show 2 * pj.tape.size + 16 + e + 13 ≤ F; omega)
  have hok' := hok
  simp only [Ok] at hok'
  obtain ⟨_, _, ⟨c, hc, hct, _⟩, hes⟩ := hok'
  have hm := asString_elems pj (e - 1) c hc hct es (View.iter { lim := e, off := p + 1 }) #[] (p + 1) (fuelOf pj) hes
    (by show e - 1 < e; omega) (Int.le_refl 0) (by show ((p + 1 : Nat) : Int) + 0 = _; omega) (by unfold fuelOf; omega)
  cases hss : strsOf es with
  | some ss =>
    rw [hss] at hm
    simp only [] at hm
    rw [hm] at hsim
    obtain ⟨st, ho, ht⟩ := hsim
    refine ⟨st, ?_, ht⟩
    rw [ho]
    simp
  | none =>
    rw [hss] at hm
    obtain ⟨er, hm⟩ := hm
    rw [hm] at hsim
    exact hsim

/-- the array `["a","b"]` -/
def arrPJ : PJ :=
  { tape := #[mkWord tagArrayStart 6, mkWord tagString 0, 1, mkWord tagString 1, 1, mkWord tagArrayEnd 0],
    strings := #[], msg := #[97, 98] }
def arrElems : LVals := .cons (.str [97] 1) (.cons (.str [98] 3) .nil)

theorem arr_ok : Ok arrPJ (.arr 0 6 arrElems) := by
  simp only [arrElems, Ok, OkElems, StrAt, LVal.pos, LVal.fin]
  exact ⟨by omega, ⟨_, rfl, by decide, by decide⟩, ⟨_, rfl, by decide, by decide⟩, gap_refl _ _,
    ⟨_, _, rfl, rfl, by decide, rfl⟩, by omega, gap_refl _ _, ⟨_, _, rfl, rfl, by decide, rfl⟩, by omega, gap_refl _ _⟩

/-- The premises of `C12_source_asString` are satisfiable: `AsString` run on the source over `["a","b"]` returns
    `["a","b"]` and `nil`. -/
example : ∃ st, runFun goFuns goArray_AsString 100 ⟨arrStore arrPJ { lim := 6, off := 1 } [], arrPJ.tape⟩ =
    .ret st [.keys [#[97], #[98]], .bool false] ∧ st.tape = arrPJ.tape :=
  C12_source_asString arrPJ 0 6 arrElems arr_ok ⟨by decide, by decide⟩ [] 100 (by decide)

end C12str

end SJ.SourceLevelD
