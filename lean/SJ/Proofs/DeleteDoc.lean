import SJ.Model.Object
import SJ.Proofs.Edit
import SJ.Proofs.WalkLayout
set_option linter.unusedVariables false

/-
DeleteDoc — "DeleteElems removes exactly the selected members; the tape then denotes the original document
minus those members".

`View.arrDeleteElems` (model of `Array.DeleteElems`) and `View.deleteElems` (model of `Object.DeleteElems`)
as statements about located documents (`SJ.Layout.LVal`, `Ok`, `OkElems`, `OkMems`):

* the run succeeds (no error, no panic, enough fuel = one unit per member plus one),
* the new tape holds the same container with exactly the members selected by the callback removed, every
  surviving member at its old position (`OkElems pj' (filterVs …)`, `OkMems pj' (filterMs …)`),
* nothing outside the container's interior `[p+1, e-1)` changes (`AgreeOut`), hence (`subst_ok`) the whole
  enclosing document is `Ok` with just that container node replaced,
* the callbacks are made once per visited member, in order, each with an iterator standing on the member's
  value (`Stands`, `StandsM`).

No `Tight` hypothesis (value directly after key) is needed: `DeleteElems` walks with `Advance`, which skips
NOPs also between a key and its value.  `Tight` is preserved by deletion (`tight_filterVs`, `tight_filterMs`).
-/
namespace SJ.DeleteDoc
open SJ SJ.Generated SJ.Layout SJ.WalkLayout SJ.WalkSafe

/-! ## Generalities -/

def lenVs : LVals → Nat
  | .nil => 0
  | .cons _ vs => lenVs vs + 1

def lenMs : LMems → Nat
  | .nil => 0
  | .cons _ _ _ ms => lenMs ms + 1

theorem _root_.SJ.Layout.AgreeOut.refl (pj : PJ) (q f : Nat) : AgreeOut pj pj q f := ⟨fun _ _ => rfl, fun _ _ _ h => h⟩

theorem _root_.SJ.Layout.AgreeOut.widen {pj pj' : PJ} {q f q' f' : Nat} (h : AgreeOut pj pj' q f) (h1 : q' ≤ q) (h2 : f ≤ f') :
    AgreeOut pj pj' q' f' :=
  ⟨fun k hk => h.words k (by omega), h.strs⟩

theorem _root_.SJ.Layout.AgreeOut.trans {pj pj1 pj2 : PJ} {q f : Nat} (h1 : AgreeOut pj pj1 q f) (h2 : AgreeOut pj1 pj2 q f) :
    AgreeOut pj pj2 q f :=
  ⟨fun k hk => by rw [h2.words k hk, h1.words k hk], fun o l s h => h2.strs o l s (h1.strs o l s h)⟩

/-- every element occupies at least one word -/
theorem lenVs_le (pj : PJ) : ∀ (vs : LVals) (lo hi : Nat), OkElems pj vs lo hi → lenVs vs ≤ hi - lo
  | .nil, _, _, _ => by simp [lenVs]
  | .cons v vs, lo, hi, h => by
    simp only [OkElems] at h
    obtain ⟨g, hv, he, rest⟩ := h
    have := gap_le g
    have := pos_lt_fin v pj hv
    have := lenVs_le pj vs v.fin hi rest
    simp only [lenVs]
    omega

theorem lenMs_le (pj : PJ) : ∀ (ms : LMems) (lo hi : Nat), OkMems pj ms lo hi → lenMs ms ≤ hi - lo
  | .nil, _, _, _ => by simp [lenMs]
  | .cons pk k v ms, lo, hi, h => by
    simp only [OkMems] at h
    obtain ⟨g1, hs, g2, hv, he, rest⟩ := h
    have := gap_le g1
    have := gap_le g2
    have := pos_lt_fin v pj hv
    have := lenMs_le pj ms v.fin hi rest
    simp only [lenMs]
    omega

/-- packing and unpacking of tape words, proved arithmetically (Edit.lean has `bv_decide` versions; these keep
    this file free of the `bv_decide` axioms) -/
theorem mkWord_toNat (t : UInt8) (v : UInt64) (h : v.toNat < 2^56) : (mkWord t v).toNat = t.toNat * 2^56 + v.toNat := by
  unfold mkWord
  have ht := t.toNat_lt
  simp only [UInt64.toNat_or, UInt64.toNat_shiftLeft, UInt8.toNat_toUInt64]
  have e1 : (56 : UInt64).toNat % 64 = 56 := by decide
  rw [e1, Nat.shiftLeft_eq, Nat.mod_eq_of_lt (by omega), ← Nat.shiftLeft_eq]
  exact (Nat.shiftLeft_add_eq_or_of_lt h _).symm

theorem tagOf_mkWord_small (t : UInt8) (v : UInt64) (h : v.toNat < 2^56) : tagOf (mkWord t v) = t := by
  apply UInt8.toNat_inj.mp
  unfold tagOf
  have ht := t.toNat_lt
  simp only [UInt64.toNat_toUInt8, UInt64.toNat_shiftRight, mkWord_toNat t v h]
  have e1 : (56 : UInt64).toNat % 64 = 56 := by decide
  rw [e1, Nat.shiftRight_eq_div_pow]
  omega

theorem payloadOf_mkWord_small (t : UInt8) (v : UInt64) (h : v.toNat < 2^56) : payloadOf (mkWord t v) = v := by
  apply UInt64.toNat_inj.mp
  unfold payloadOf
  have e2 : wJSONVALUEMASK.toNat = 2^56 - 1 := by decide
  simp only [UInt64.toNat_and, mkWord_toNat t v h, e2, Nat.and_two_pow_sub_one_eq_mod]
  omega

/-- after the fill, `[lo, hi)` is a gap (as `Layout.gap_of_fill`, without `bv_decide`) -/
theorem gap_of_fill' {pj' : PJ} {lo hi : Nat} (hh : hi < 2^56)
    (h : ∀ k, lo ≤ k → k < hi → word pj' k = some (mkWord tagNop (UInt64.ofNat (hi - k)))) (hle : lo ≤ hi) : Gap pj' lo hi := by
  refine ⟨hle, fun k a b => ?_⟩
  have hs : hi - k < 2^56 := by omega
  have hn : (UInt64.ofNat (hi - k)).toNat = hi - k := ofNat_toNat_small hs
  have hsm : (UInt64.ofNat (hi - k)).toNat < 2^56 := by rw [hn]; exact hs
  refine ⟨mkWord tagNop (UInt64.ofNat (hi - k)), h k a b, tagOf_mkWord_small tagNop _ hsm, ?_, ?_⟩
  · rw [payloadOf_mkWord_small _ _ hsm, hn]; omega
  · rw [payloadOf_mkWord_small _ _ hsm, hn]; omega

/-- The NOP fill of `[a, b)` used by both `DeleteElems` (through a view of length `lim` that contains the range:
    `b ≤ lim`, so the view-checked `nopFillV` is the array-checked `nopFill`): it succeeds, the range becomes a gap
    (skip counts `b - k`), nothing else changes. -/
theorem fill_step (pj : PJ) (lim a b : Nat) (hab : a ≤ b) (hl : b ≤ lim) (hb : b ≤ pj.tape.size) (hs : pj.tape.size < 2^56) :
    ∃ tp, Iter.nopFillV lim pj.tape a b = .ok tp ∧ tp.size = pj.tape.size ∧
      Gap { pj with tape := tp } a b ∧ AgreeOut pj { pj with tape := tp } a b := by
  rw [nopFillV_eq_nopFill lim (b - a) pj.tape a b rfl hl]
  obtain ⟨tp, h1, h2, h3, h4⟩ := nopFill_spec (b - a) pj.tape a b rfl hb
  refine ⟨tp, h1, h2, gap_of_fill' (by omega) (fun k x y => h3 k x y) hab, ?_, ?_⟩
  · intro k hk
    exact h4 k hk
  · intro o l s h
    rw [stringByteAt_congr (pj' := { pj with tape := tp }) (pj := pj) rfl rfl]
    exact h

/-- an iterator handed to a callback stands on the node `v` of the tape `pj`: one past its first word, holding
    that word's tag and payload, and its next `Advance` starts at `v.fin` -/
def StandsOn (pj : PJ) (lim : Nat) (v : LVal) (it : Iter) : Prop :=
  it.lim = lim ∧ it.off = v.pos + 1 ∧ (it.off : Int) + it.addNext = v.fin ∧
  ∃ w, word pj v.pos = some w ∧ it.t = tagOf w ∧ it.cur = payloadOf w ∧ tagOf w = tagOfL v

/-- `StandsOn` is WalkLayout's `OnNode` (plus the exact `addNext`) -/
theorem StandsOn.onNode {pj : PJ} {lim : Nat} {v : LVal} {it : Iter} (h : StandsOn pj lim v it) (hl : v.fin ≤ lim) :
    OnNode pj v it := by
  obtain ⟨h1, h2, h3, w, hw, ht, hc, _⟩ := h
  exact ⟨h2, ⟨w, hw, ht, hc⟩, by omega, by omega⟩

theorem standsOn_frame {pj pj' : PJ} {lim : Nat} {v : LVal} {it : Iter} (hw : word pj' v.pos = word pj v.pos)
    (h : StandsOn pj lim v it) : StandsOn pj' lim v it := by
  obtain ⟨h1, h2, h3, w, a, b⟩ := h
  exact ⟨h1, h2, h3, w, by rw [hw]; exact a, b⟩

/-! ## 1. Arrays -/

/-- the elements that survive `Array.DeleteElems`: the `k`-th visited element (counting from `n`) is dropped
    iff the callback answers `true` for it; survivors keep their positions -/
def filterVs (pred : Nat → Bool) : Nat → LVals → LVals
  | _, .nil => .nil
  | n, .cons v vs => if pred n then filterVs pred (n + 1) vs else .cons v (filterVs pred (n + 1) vs)

/-- the `k`-th callback iterator stands on the `k`-th element -/
def Stands (pj : PJ) (lim : Nat) : LVals → List Iter → Prop
  | .nil, [] => True
  | .cons v vs, it :: its => StandsOn pj lim v it ∧ Stands pj lim vs its
  | _, _ => False

theorem stands_length {pj : PJ} {lim : Nat} : ∀ (vs : LVals) (its : List Iter), Stands pj lim vs its → its.length = lenVs vs
  | .nil, [], _ => rfl
  | .nil, _ :: _, h => by simp [Stands] at h
  | .cons _ _, [], h => by simp [Stands] at h
  | .cons v vs, it :: its, h => by
    simp only [Stands] at h
    simp only [List.length_cons, lenVs, stands_length vs its h.2]

theorem stands_frame {pj pj' : PJ} {lim a b : Nat} (hw : ∀ k, a ≤ k → k < b → word pj' k = word pj k) :
    ∀ (vs : LVals) (its : List Iter) (lo : Nat), a ≤ lo → OkElems pj vs lo b → Stands pj lim vs its → Stands pj' lim vs its
  | .nil, [], _, _, _, _ => trivial
  | .nil, _ :: _, _, _, _, h => by simp [Stands] at h
  | .cons _ _, [], _, _, _, h => by simp [Stands] at h
  | .cons v vs, it :: its, lo, hlo, hok, h => by
    simp only [Stands] at h ⊢
    simp only [OkElems] at hok
    obtain ⟨g, hv, he, rest⟩ := hok
    have := gap_le g
    have := pos_lt_fin v pj hv
    exact ⟨standsOn_frame (hw v.pos (by omega) (by omega)) h.1, stands_frame hw vs its v.fin (by omega) rest h.2⟩

/-- The loop of `Array.DeleteElems`, from any point of the walk: `i` is about to `Advance` to `lo`, the
    remaining elements `vs` lie in `[lo, hi)`, and `hi` is the end of the view or holds a non-value word. -/
theorem arr_loop (pred : Nat → Bool) : ∀ (vs : LVals) (pj : PJ) (i : Iter) (n : Nat) (acc : Array Iter) (lo hi fuel : Nat),
    OkElems pj vs lo hi → hi ≤ i.lim → hi ≤ pj.tape.size → pj.tape.size < 2^56 →
    (hi = i.lim ∨ ∃ c, word pj hi = some c ∧ (tagOf c == tagNop) = false ∧ tagToType (tagOf c) = typeNone) →
    0 ≤ i.addNext → (i.off : Int) + i.addNext = lo → lenVs vs < fuel →
    ∃ pj' r its, View.arrDeleteElems pj pred i n acc fuel = .ok (pj', r) ∧ r.toList = acc.toList ++ its ∧
      OkElems pj' (filterVs pred n vs) lo hi ∧ AgreeOut pj pj' lo hi ∧
      pj'.strings = pj.strings ∧ pj'.msg = pj.msg ∧ pj'.tape.size = pj.tape.size ∧ Stands pj i.lim vs its
  | .nil, pj, i, n, acc, lo, hi, fuel, hok, hhi, hsz, hsmall, hend, ha, hlo, hf => by
    obtain ⟨f, rfl⟩ : ∃ f, fuel = f + 1 := ⟨fuel - 1, by simp only [lenVs] at hf; omega⟩
    simp only [OkElems] at hok
    obtain ⟨i', he⟩ := advance_end pj i lo hi hok hhi hend ha hlo
    refine ⟨pj, acc, [], ?_, by simp, ?_, AgreeOut.refl _ _ _, rfl, rfl, rfl, trivial⟩
    · rw [View.arrDeleteElems, he]
      simp only [Res.bind_ok, beq_self_eq_true, if_true]
    · simp only [filterVs, OkElems]; exact hok
  | .cons v vs, pj, i, n, acc, lo, hi, fuel, hok, hhi, hsz, hsmall, hend, ha, hlo, hf => by
    obtain ⟨f, rfl⟩ : ∃ f, fuel = f + 1 := ⟨fuel - 1, by omega⟩
    simp only [lenVs] at hf
    obtain ⟨i', he, hlim, hoff, hw, ha', hnext, rest⟩ := advance_elem pj i v vs lo hi hok hhi ha hlo
    simp only [OkElems] at hok
    obtain ⟨g, hv, hfin, _⟩ := hok
    have hpf := pos_lt_fin v pj hv
    have hg := gap_le g
    have hst : StandsOn pj i.lim v i' := ⟨hlim, hoff, hnext, hw⟩
    cases hp : pred n with
    | false =>
      -- the element survives
      obtain ⟨pj', r, its, hr, hl, hok', hA, hs, hm, hz, hstands⟩ :=
        arr_loop pred vs pj i' (n + 1) (acc.push i') v.fin hi f rest (by omega) hsz hsmall (by rw [hlim]; exact hend)
          ha' hnext (by omega)
      refine ⟨pj', r, i' :: its, ?_, ?_, ?_, hA.widen (by omega) (Nat.le_refl _), hs, hm, hz, ?_⟩
      · rw [View.arrDeleteElems, he]
        simp only [Res.bind_ok, tagToType_tagOfL_ne_none v, hp, Bool.false_eq_true, if_false]
        exact hr
      · rw [hl]; simp
      · simp only [filterVs, hp, Bool.false_eq_true, if_false, OkElems]
        exact ⟨gap_frame hA.below (Nat.zero_le _) (by omega) g, ok_frame hA.below v (Nat.zero_le _) (Nat.le_refl _) hv,
          hfin, hok'⟩
      · simp only [Stands]
        exact ⟨hst, by rw [← hlim]; exact hstands⟩
    | true =>
      -- the element is deleted: `[v.pos, v.fin)` becomes a gap
      obtain ⟨tp, hfill, htz, hgap, hA1⟩ := fill_step pj i'.lim v.pos v.fin (by omega) (by omega) (by omega) hsmall
      have hend1 : hi = i'.lim ∨ ∃ c, word { pj with tape := tp } hi = some c ∧ (tagOf c == tagNop) = false ∧
          tagToType (tagOf c) = typeNone := by
        rw [hlim, hA1.words hi (Or.inr hfin)]; exact hend
      obtain ⟨pj', r, its, hr, hl, hok', hA, hs, hm, hz, hstands⟩ :=
        arr_loop pred vs { pj with tape := tp } i' (n + 1) (acc.push i') v.fin hi f
          (okElems_frame (hA1.above hi) vs v.fin hi (Nat.le_refl _) (Nat.le_refl _) rest) (by omega)
          (by show hi ≤ tp.size; omega) (by show tp.size < 2^56; omega) hend1 ha' hnext (by omega)
      refine ⟨pj', r, i' :: its, ?_, ?_, ?_, ?_, hs, hm, by rw [hz]; exact htz, ?_⟩
      · rw [View.arrDeleteElems, he]
        have hne : ¬ (((v.pos + 1 : Nat) : Int) + i'.addNext < 0 ∨ v.pos + 1 = 0) := by omega
        have he2 : (((v.pos + 1 : Nat) : Int) + i'.addNext).toNat = v.fin := by omega
        simp only [Res.bind_ok, tagToType_tagOfL_ne_none v, hp, Bool.false_eq_true, if_false, if_true, hoff, hne,
          Nat.add_sub_cancel, he2, hfill]
        exact hr
      · rw [hl]; simp
      · simp only [filterVs, hp, if_true]
        have g1 : Gap { pj with tape := tp } lo v.fin := gap_trans (gap_frame hA1.below (Nat.zero_le _) (Nat.le_refl _) g) hgap
        exact okElems_prepend_gap (gap_frame hA.below (Nat.zero_le _) (Nat.le_refl _) g1) _ hok'
      · exact AgreeOut.trans (hA1.widen hg hfin) (hA.widen (by omega) (Nat.le_refl _))
      · simp only [Stands]
        refine ⟨hst, ?_⟩
        rw [← hlim]
        exact stands_frame (pj := { pj with tape := tp }) (pj' := pj) (a := v.fin) (b := hi)
          (fun k h1 h2 => (hA1.words k (Or.inr h1)).symm) vs its v.fin (Nat.le_refl _)
          (okElems_frame (hA1.above hi) vs v.fin hi (Nat.le_refl _) (Nat.le_refl _) rest) hstands

/-- `i.Array()` on an iterator standing on an array node, then `a.Iter()`: the iterator `Array.DeleteElems`
    (and `Array.ForEach`) starts from. -/
theorem array_view (pj : PJ) (p e : Nat) (es : LVals) (i : Iter) (hok : Ok pj (.arr p e es))
    (hon : OnNode pj (.arr p e es) i) :
    i.array = .ok { lim := e, off := p + 1 } ∧
    View.iter { lim := e, off := p + 1 } = { lim := e, off := p + 1, addNext := 0, cur := 0, t := tagEnd } := by
  refine ⟨?_, rfl⟩
  obtain ⟨hoff, ⟨w, hw, hit, hic⟩, hfin, _⟩ := hon
  simp only [Ok, LVal.pos, LVal.fin] at hok hw hfin hoff
  obtain ⟨_, ⟨w', a, b, hpl⟩, _⟩ := hok
  cases word_inj hw a
  unfold Iter.array
  rw [hit, b, hic, hpl, hoff]
  have hle : ¬ i.lim < e := by omega
  simp only [bne_self_eq_false, Bool.false_eq_true, if_false, hle]

/-- **Array.DeleteElems (1a, 1b, 1c).**  For every array node the tape holds, every callback `pred`, fuel above
    the number of elements and a tape shorter than 2^56 words (skip counts fit the payload): the run succeeds;
    the interior of the array then holds exactly the elements with `pred k = false`, at their old positions;
    nothing outside the interior `[p+1, e-1)` changes; one callback per element, in order, the `k`-th iterator
    standing on the `k`-th element (of the tape as it was before the call). -/
theorem arrDeleteElems_arr (pj : PJ) (p e : Nat) (es : LVals) (pred : Nat → Bool) (cur : UInt64) (t : UInt8) (fuel : Nat)
    (hok : Ok pj (.arr p e es)) (hsmall : pj.tape.size < 2^56) (hf : lenVs es < fuel) :
    ∃ pj' its, View.arrDeleteElems pj pred { lim := e, off := p + 1, addNext := 0, cur := cur, t := t } 0 #[] fuel = .ok (pj', its) ∧
      OkElems pj' (filterVs pred 0 es) (p + 1) (e - 1) ∧
      Ok pj' (.arr p e (filterVs pred 0 es)) ∧
      AgreeOut pj pj' (p + 1) (e - 1) ∧
      pj'.strings = pj.strings ∧ pj'.msg = pj.msg ∧ pj'.tape.size = pj.tape.size ∧
      its.size = lenVs es ∧ Stands pj e es its.toList := by
  simp only [Ok] at hok
  obtain ⟨hpe, ⟨w, hw, hwt, hwp⟩, ⟨c, hc, hct, hcp⟩, hes⟩ := hok
  have hsz := word_lt hc
  obtain ⟨pj', r, its, hr, hl, hok', hA, hs, hm, hz, hstands⟩ :=
    arr_loop pred es pj { lim := e, off := p + 1, addNext := 0, cur := cur, t := t } 0 #[] (p + 1) (e - 1) fuel hes
      (by show e - 1 ≤ e; omega) (by omega) hsmall
      (Or.inr ⟨c, hc, by rw [hct]; decide, by rw [hct]; exact tt_arrayEnd⟩)
      (Int.le_refl _) (by show ((p + 1 : Nat) : Int) + 0 = _; omega) hf
  have hl' : r.toList = its := by simpa using hl
  refine ⟨pj', r, hr, hok', ?_, hA, hs, hm, hz, ?_, by rw [hl']; exact hstands⟩
  · simp only [Ok]
    refine ⟨hpe, ⟨w, ?_, hwt, hwp⟩, ⟨c, ?_, hct, hcp⟩, hok'⟩
    · rw [hA.words p (Or.inl (by omega))]; exact hw
    · rw [hA.words (e - 1) (Or.inr (Nat.le_refl _))]; exact hc
  · rw [← Array.length_toList, hl']; exact stands_length es its hstands

/-- the same with a bound on the fuel that does not mention the document: the extent of the array -/
theorem arrDeleteElems_arr_extent (pj : PJ) (p e : Nat) (es : LVals) (pred : Nat → Bool) (cur : UInt64) (t : UInt8) (fuel : Nat)
    (hok : Ok pj (.arr p e es)) (hsmall : pj.tape.size < 2^56) (hf : e - p ≤ fuel + 1) :
    ∃ pj' its, View.arrDeleteElems pj pred { lim := e, off := p + 1, addNext := 0, cur := cur, t := t } 0 #[] fuel = .ok (pj', its) ∧
      OkElems pj' (filterVs pred 0 es) (p + 1) (e - 1) ∧
      Ok pj' (.arr p e (filterVs pred 0 es)) ∧
      AgreeOut pj pj' (p + 1) (e - 1) ∧
      pj'.strings = pj.strings ∧ pj'.msg = pj.msg ∧ pj'.tape.size = pj.tape.size ∧
      its.size = lenVs es ∧ Stands pj e es its.toList := by
  have h := hok
  simp only [Ok] at h
  have := lenVs_le pj es (p + 1) (e - 1) h.2.2.2
  exact arrDeleteElems_arr pj p e es pred cur t fuel hok hsmall (by omega)

/-- … and with the fuel the API wrapper (the driver) uses -/
theorem arrDeleteElems_arr_fuelOf (pj : PJ) (p e : Nat) (es : LVals) (pred : Nat → Bool)
    (hok : Ok pj (.arr p e es)) (hsmall : pj.tape.size < 2^56) :
    ∃ pj' its, View.arrDeleteElems pj pred (View.iter { lim := e, off := p + 1 }) 0 #[] (fuelOf pj) = .ok (pj', its) ∧
      OkElems pj' (filterVs pred 0 es) (p + 1) (e - 1) ∧
      Ok pj' (.arr p e (filterVs pred 0 es)) ∧
      AgreeOut pj pj' (p + 1) (e - 1) ∧
      pj'.strings = pj.strings ∧ pj'.msg = pj.msg ∧ pj'.tape.size = pj.tape.size ∧
      its.size = lenVs es ∧ Stands pj e es its.toList := by
  have h := hok
  simp only [Ok] at h
  obtain ⟨_, _, ⟨c, hc, _⟩, _⟩ := h
  have := word_lt hc
  exact arrDeleteElems_arr_extent pj p e es pred 0 tagEnd (fuelOf pj) hok hsmall (by unfold fuelOf; omega)

/-- **Array.DeleteElems, whole document (1b).**  If the located document `doc` has the array node `[p, e)`, then
    after `DeleteElems` the tape holds `doc` with exactly that node replaced by the filtered array. -/
theorem arrDeleteElems_doc (pj : PJ) (doc : LVal) (hdoc : Ok pj doc) (p e : Nat) (es : LVals) (pred : Nat → Bool)
    (cur : UInt64) (t : UInt8) (fuel : Nat) (hnode : HasNode p e doc)
    (hok : Ok pj (.arr p e es)) (hsmall : pj.tape.size < 2^56) (hf : lenVs es < fuel) :
    ∃ pj' its, View.arrDeleteElems pj pred { lim := e, off := p + 1, addNext := 0, cur := cur, t := t } 0 #[] fuel = .ok (pj', its) ∧
      Ok pj' (substV p (.arr p e (filterVs pred 0 es)) doc) ∧
      pj'.strings = pj.strings ∧ pj'.msg = pj.msg ∧ pj'.tape.size = pj.tape.size ∧
      its.size = lenVs es ∧ Stands pj e es its.toList := by
  obtain ⟨pj', its, hr, _, hn, hA, hs, hm, hz, hsize, hst⟩ := arrDeleteElems_arr pj p e es pred cur t fuel hok hsmall hf
  have hpe : p + 2 ≤ e := by simp only [Ok] at hok; exact hok.1
  refine ⟨pj', its, hr, ?_, hs, hm, hz, hsize, hst⟩
  exact (subst_ok (q := p) (f := e) (hA.widen (by omega) (by omega)) hn rfl (Nat.le_refl _) (gap_refl _ _) doc hdoc hnode).1

/-! ## 2. Objects -/

/-- the members that survive `Object.DeleteElems fn onlyKeys`, exactly as the Go loop proceeds:
    * a member whose key is not in a non-empty `onlyKeys` is not visited and survives;
    * every other member is visited, and the `n`-th visited member is dropped iff `pred n key`.
    (The earlier Go code returned after `len(onlyKeys)` visits, which left later duplicates of a selected key
    in place; that early return has been removed upstream and in the model.) -/
def filterMs (pred : Nat → Bytes → Bool) (onlyKeys : List Bytes) : Nat → LMems → LMems
  | _, .nil => .nil
  | n, .cons pk k v ms =>
    if onlyKeys.length > 0 ∧ (!onlyKeys.contains k.toArray) = true then .cons pk k v (filterMs pred onlyKeys n ms)
    else if pred n k.toArray then filterMs pred onlyKeys (n + 1) ms
    else .cons pk k v (filterMs pred onlyKeys (n + 1) ms)

/-- the members for which the callback is made, in order -/
def visitedMs (onlyKeys : List Bytes) : Nat → LMems → List (List UInt8 × LVal)
  | _, .nil => []
  | n, .cons pk k v ms =>
    if onlyKeys.length > 0 ∧ (!onlyKeys.contains k.toArray) = true then visitedMs onlyKeys n ms
    else (k, v) :: visitedMs onlyKeys (n + 1) ms

/-- without a key filter: every member is visited, the `n`-th one is dropped iff `pred n key` -/
def filterMsAll (pred : Nat → Bytes → Bool) : Nat → LMems → LMems
  | _, .nil => .nil
  | n, .cons pk k v ms =>
    if pred n k.toArray then filterMsAll pred (n + 1) ms else .cons pk k v (filterMsAll pred (n + 1) ms)

def allMs : LMems → List (List UInt8 × LVal)
  | .nil => []
  | .cons _ k v ms => (k, v) :: allMs ms

theorem allMs_length : ∀ ms : LMems, (allMs ms).length = lenMs ms
  | .nil => rfl
  | .cons pk k v ms => by simp only [allMs, lenMs, List.length_cons, allMs_length ms]

theorem filterMs_nil (pred : Nat → Bytes → Bool) : ∀ (ms : LMems) (n : Nat), filterMs pred [] n ms = filterMsAll pred n ms
  | .nil, _ => rfl
  | .cons pk k v ms, n => by
    have h1 : ¬ (([] : List Bytes).length > 0 ∧ (!([] : List Bytes).contains k.toArray) = true) := by simp
    simp only [filterMs, filterMsAll, h1, if_false, filterMs_nil pred ms (n + 1)]

theorem visitedMs_nil : ∀ (ms : LMems) (n : Nat), visitedMs [] n ms = allMs ms
  | .nil, _ => rfl
  | .cons pk k v ms, n => by
    have h1 : ¬ (([] : List Bytes).length > 0 ∧ (!([] : List Bytes).contains k.toArray) = true) := by simp
    simp only [visitedMs, allMs, h1, if_false, visitedMs_nil ms (n + 1)]

/-- the `k`-th callback gets the key bytes of the `k`-th visited member and an iterator standing on its value -/
def StandsM (pj : PJ) (lim : Nat) : List (List UInt8 × LVal) → List (Bytes × Iter) → Prop
  | [], [] => True
  | (k, v) :: kvs, (name, it) :: cbs => name = k.toArray ∧ StandsOn pj lim v it ∧ StandsM pj lim kvs cbs
  | _, _ => False

theorem standsM_length {pj : PJ} {lim : Nat} : ∀ (kvs : List (List UInt8 × LVal)) (cbs : List (Bytes × Iter)),
    StandsM pj lim kvs cbs → cbs.length = kvs.length
  | [], [], _ => rfl
  | [], _ :: _, h => by simp [StandsM] at h
  | _ :: _, [], h => by simp [StandsM] at h
  | (k, v) :: kvs, (name, it) :: cbs, h => by
    simp only [StandsM] at h
    simp only [List.length_cons, standsM_length kvs cbs h.2.2]

theorem standsM_frame {pj pj' : PJ} {lim a b : Nat} (hw : ∀ k, a ≤ k → k < b → word pj' k = word pj k) (onlyKeys : List Bytes) :
    ∀ (ms : LMems) (n : Nat) (cbs : List (Bytes × Iter)) (lo : Nat), a ≤ lo → OkMems pj ms lo b →
      StandsM pj lim (visitedMs onlyKeys n ms) cbs → StandsM pj' lim (visitedMs onlyKeys n ms) cbs
  | .nil, n, cbs, _, _, _, h => by
    cases cbs with
    | nil => trivial
    | cons _ _ => simp [visitedMs, StandsM] at h
  | .cons pk k v ms, n, cbs, lo, hlo, hok, h => by
    simp only [OkMems] at hok
    obtain ⟨g1, hs, g2, hv, he, rest⟩ := hok
    have := gap_le g1
    have := gap_le g2
    have := pos_lt_fin v pj hv
    simp only [visitedMs] at h ⊢
    by_cases hskip : onlyKeys.length > 0 ∧ (!onlyKeys.contains k.toArray) = true
    · simp only [hskip, and_self, if_true] at h ⊢
      exact standsM_frame hw onlyKeys ms n cbs v.fin (by omega) rest h
    · simp only [hskip, if_false] at h ⊢
      cases cbs with
      | nil => simp [StandsM] at h
      | cons cb cbs =>
        obtain ⟨name, it⟩ := cb
        simp only [StandsM] at h ⊢
        exact ⟨h.1, standsOn_frame (hw v.pos (by omega) (by omega)) h.2.1,
          standsM_frame hw onlyKeys ms (n + 1) cbs v.fin (by omega) rest h.2.2⟩

/-- the two `Advance` calls `Object.DeleteElems` makes per member: onto the key (a string entry), then — over
    any NOPs between key and value — onto the value -/
theorem member_step (pj : PJ) (i : Iter) (lo pk : Nat) (k : List UInt8) (v : LVal) (g1 : Gap pj lo pk) (hs : StrAt pj k pk)
    (g2 : Gap pj (pk + 2) v.pos) (hv : Ok pj v) (hfin : v.fin ≤ i.lim) (ha : 0 ≤ i.addNext)
    (hlo : (i.off : Int) + i.addNext = lo) :
    ∃ w len i2, word pj pk = some w ∧ word pj (pk + 1) = some len ∧ stringByteAt pj (payloadOf w) len = .ok k.toArray ∧
      Iter.advance pj i = .ok ({ lim := i.lim, off := pk + 1, addNext := 1, cur := payloadOf w, t := tagOf w }, typeString) ∧
      Iter.advance pj { lim := i.lim, off := pk + 1, addNext := 1, cur := payloadOf w, t := tagOf w } =
        .ok (i2, tagToType (tagOfL v)) ∧ StandsOn pj i.lim v i2 ∧ 0 ≤ i2.addNext := by
  have hg2 := gap_le g2
  have hpf := pos_lt_fin v pj hv
  obtain ⟨w, hw, ht, he⟩ := advance_node pj i lo (.str k pk) g1 hs (by show pk + 2 ≤ i.lim; omega) ha hlo
  simp only [LVal.pos, LVal.fin, tagOfL, tt_string] at he hw
  have e1 : ((pk + 2 : Nat) : Int) - ((pk + 1 : Nat) : Int) = 1 := by omega
  rw [e1] at he
  obtain ⟨w', len, hw', hlen, _, hstr⟩ := hs
  cases word_inj hw hw'
  obtain ⟨w2, hw2, ht2, he2⟩ := advance_node pj { lim := i.lim, off := pk + 1, addNext := 1, cur := payloadOf w, t := tagOf w }
    (pk + 2) v g2 hv hfin (by show (0 : Int) ≤ 1; omega) (by show ((pk + 1 : Nat) : Int) + 1 = _; omega)
  exact ⟨w, len, _, hw, hlen, hstr, he, he2, ⟨rfl, rfl, by simp only; omega, w2, hw2, rfl, rfl, ht2⟩, by simp only; omega⟩

theorem obj_loop (pred : Nat → Bytes → Bool) (onlyKeys : List Bytes) :
    ∀ (ms : LMems) (pj : PJ) (i : Iter) (n : Nat) (acc : Array (Bytes × Iter)) (lo hi fuel : Nat),
    OkMems pj ms lo hi → hi ≤ i.lim → hi ≤ pj.tape.size → pj.tape.size < 2^56 →
    (hi = i.lim ∨ ∃ c, word pj hi = some c ∧ (tagOf c == tagNop) = false ∧ tagToType (tagOf c) = typeNone) →
    0 ≤ i.addNext → (i.off : Int) + i.addNext = lo → lenMs ms < fuel →
    ∃ pj' r cbs, View.deleteElems pj pred onlyKeys i n acc fuel = .ok (pj', r) ∧ r.toList = acc.toList ++ cbs ∧
      OkMems pj' (filterMs pred onlyKeys n ms) lo hi ∧ AgreeOut pj pj' lo hi ∧
      pj'.strings = pj.strings ∧ pj'.msg = pj.msg ∧ pj'.tape.size = pj.tape.size ∧
      StandsM pj i.lim (visitedMs onlyKeys n ms) cbs
  | .nil, pj, i, n, acc, lo, hi, fuel, hok, hhi, hsz, hsmall, hend, ha, hlo, hf => by
    obtain ⟨f, rfl⟩ : ∃ f, fuel = f + 1 := ⟨fuel - 1, by simp only [lenMs] at hf; omega⟩
    simp only [OkMems] at hok
    obtain ⟨i', he⟩ := advance_end pj i lo hi hok hhi hend ha hlo
    refine ⟨pj, acc, [], ?_, by simp, ?_, AgreeOut.refl _ _ _, rfl, rfl, rfl, trivial⟩
    · rw [View.deleteElems, he]
      simp only [Res.bind_ok, show (typeNone != typeString) = true from by decide, true_or, beq_self_eq_true, if_true]
    · simp only [filterMs, OkMems]; exact hok
  | .cons pk k v ms, pj, i, n, acc, lo, hi, fuel, hok, hhi, hsz, hsmall, hend, ha, hlo, hf => by
    obtain ⟨f, rfl⟩ : ∃ f, fuel = f + 1 := ⟨fuel - 1, by omega⟩
    simp only [lenMs] at hf
    have hok0 := hok
    simp only [OkMems] at hok
    obtain ⟨g1, hs, g2, hv, hfin, rest⟩ := hok
    have hpf := pos_lt_fin v pj hv
    have hg1 := gap_le g1
    have hg2 := gap_le g2
    obtain ⟨w, len, i2, hw, hlen, hstr, he1, he2, hst, ha2⟩ := member_step pj i lo pk k v g1 hs g2 hv (by omega) ha hlo
    have hcond : ¬ ((typeString != typeString) = true ∨ pk + 1 + 1 ≥ i.lim) := by
      simp only [bne_self_eq_false, Bool.false_eq_true, false_or]; omega
    rw [View.deleteElems, he1]
    simp only [Res.bind_ok, hcond, if_false, rd_word hlen, hstr, he2, tagToType_tagOfL_ne_none v, Bool.false_eq_true]
    obtain ⟨hlim2, hoff2, hnext2, _⟩ := hst
    have hend2 : hi = i2.lim ∨ ∃ c, word pj hi = some c ∧ (tagOf c == tagNop) = false ∧ tagToType (tagOf c) = typeNone := by
      rw [hlim2]; exact hend
    by_cases hskip : onlyKeys.length > 0 ∧ (!onlyKeys.contains k.toArray) = true
    · -- key filtered out: not visited, survives
      obtain ⟨pj', r, cbs, hr, hl, hok', hA, hs', hm, hz, hstands⟩ :=
        obj_loop pred onlyKeys ms pj i2 n acc v.fin hi f rest (by omega) hsz hsmall hend2 ha2 hnext2 (by omega)
      refine ⟨pj', r, cbs, ?_, hl, ?_, hA.widen (by omega) (Nat.le_refl _), hs', hm, hz, ?_⟩
      · simp only [hskip, and_self, if_true]; exact hr
      · simp only [filterMs, hskip, and_self, if_true, OkMems]
        exact ⟨gap_frame hA.below (Nat.zero_le _) (by omega) g1, strAt_frame hA.below (Nat.zero_le _) (by omega) hs,
          gap_frame hA.below (Nat.zero_le _) (by omega) g2, ok_frame hA.below v (Nat.zero_le _) (Nat.le_refl _) hv, hfin, hok'⟩
      · simp only [visitedMs, hskip, and_self, if_true]; rw [← hlim2]; exact hstands
    · simp only [hskip, if_false]
      cases hp : pred n k.toArray with
      | false =>
        -- visited, survives
        obtain ⟨pj', r, cbs, hr, hl, hok', hA, hs', hm, hz, hstands⟩ :=
          obj_loop pred onlyKeys ms pj i2 (n + 1) (acc.push (k.toArray, i2)) v.fin hi f rest (by omega) hsz hsmall hend2
            ha2 hnext2 (by omega)
        refine ⟨pj', r, (k.toArray, i2) :: cbs, ?_, by rw [hl]; simp, ?_, hA.widen (by omega) (Nat.le_refl _), hs', hm, hz, ?_⟩
        · simp only [Bool.false_eq_true, if_false, Res.bind_ok]; exact hr
        · simp only [filterMs, hskip, if_false, hp, Bool.false_eq_true, OkMems]
          exact ⟨gap_frame hA.below (Nat.zero_le _) (by omega) g1, strAt_frame hA.below (Nat.zero_le _) (by omega) hs,
            gap_frame hA.below (Nat.zero_le _) (by omega) g2, ok_frame hA.below v (Nat.zero_le _) (Nat.le_refl _) hv, hfin, hok'⟩
        · simp only [visitedMs, hskip, if_false, StandsM]
          exact ⟨trivial, ⟨hlim2, hoff2, hnext2, by assumption⟩, by rw [← hlim2]; exact hstands⟩
      | true =>
        -- visited and deleted: `[pk, v.fin)` (key and value) becomes a gap
        obtain ⟨tp, hfill, htz, hgap, hA1⟩ := fill_step pj i2.lim pk v.fin (by omega) (by omega) (by omega) hsmall
        have hne : ¬ ((i2.off : Int) + i2.addNext < 0) := by omega
        have he3 : ((i2.off : Int) + i2.addNext).toNat = v.fin := by omega
        have glo : Gap { pj with tape := tp } lo v.fin := gap_trans (gap_frame hA1.below (Nat.zero_le _) (Nat.le_refl _) g1) hgap
        have rest1 : OkMems { pj with tape := tp } ms v.fin hi :=
          okMems_frame (hA1.above hi) ms v.fin hi (Nat.le_refl _) (Nat.le_refl _) rest
        have hend1 : hi = i2.lim ∨ ∃ c, word { pj with tape := tp } hi = some c ∧ (tagOf c == tagNop) = false ∧
            tagToType (tagOf c) = typeNone := by
          rw [hA1.words hi (Or.inr hfin)]; exact hend2
        obtain ⟨pj', r, cbs, hr, hl, hok', hA, hs', hm, hz, hstands⟩ :=
          obj_loop pred onlyKeys ms { pj with tape := tp } i2 (n + 1) (acc.push (k.toArray, i2)) v.fin hi f rest1 (by omega)
            (by show hi ≤ tp.size; omega) (by show tp.size < 2^56; omega) hend1 ha2 hnext2 (by omega)
        refine ⟨pj', r, (k.toArray, i2) :: cbs, ?_, by rw [hl]; simp, ?_,
          AgreeOut.trans (hA1.widen hg1 hfin) (hA.widen (by omega) (Nat.le_refl _)), hs', hm, by rw [hz]; exact htz, ?_⟩
        · simp only [if_true, hne, if_false, Nat.add_sub_cancel, he3, hfill, Res.bind_ok]
          exact hr
        · simp only [filterMs, hskip, if_false, hp, if_true]
          exact okMems_prepend_gap (gap_frame hA.below (Nat.zero_le _) (Nat.le_refl _) glo) _ hok'
        · simp only [visitedMs, hskip, if_false, StandsM]
          refine ⟨trivial, ⟨hlim2, hoff2, hnext2, by assumption⟩, ?_⟩
          rw [← hlim2]
          exact standsM_frame (pj := { pj with tape := tp }) (pj' := pj) (a := v.fin) (b := hi)
            (fun k h1 h2 => (hA1.words k (Or.inr h1)).symm) onlyKeys ms (n + 1) cbs v.fin (Nat.le_refl _) rest1 hstands

/-- `i.Object()` on an iterator standing on an object node, then `o.Iter()`-like start of `DeleteElems`. -/
theorem object_view (pj : PJ) (p e : Nat) (ms : LMems) (i : Iter) (hok : Ok pj (.obj p e ms))
    (hon : OnNode pj (.obj p e ms) i) :
    i.object = .ok { lim := e, off := p + 1 } ∧
    View.iter { lim := e, off := p + 1 } = { lim := e, off := p + 1, addNext := 0, cur := 0, t := tagEnd } := by
  refine ⟨?_, rfl⟩
  obtain ⟨hoff, ⟨w, hw, hit, hic⟩, hfin, _⟩ := hon
  simp only [Ok, LVal.pos, LVal.fin] at hok hw hfin hoff
  obtain ⟨_, ⟨w', a, b, hpl⟩, _⟩ := hok
  cases word_inj hw a
  unfold Iter.object
  rw [hit, b, hic, hpl, hoff]
  have hle : ¬ i.lim < e := by omega
  have hle2 : ¬ e < p + 1 := by omega
  simp only [bne_self_eq_false, Bool.false_eq_true, if_false, hle, hle2]

/-- **Object.DeleteElems (2).**  For every object node the tape holds, every callback `pred`, every key filter
    `onlyKeys`, fuel above the number of members and a tape shorter than 2^56 words: the run succeeds; the interior
    of the object then holds exactly the members `filterMs` keeps (a deleted member is erased from its KEY word to the
    end of its value), at their old positions; nothing outside the interior `[p+1, e-1)` changes; the callbacks are
    those of `visitedMs`, in order, each with the key bytes and an iterator standing on the value.
    No `Tight` hypothesis: gaps between a key and its value are allowed. -/
theorem deleteElems_obj (pj : PJ) (p e : Nat) (ms : LMems) (pred : Nat → Bytes → Bool) (onlyKeys : List Bytes)
    (cur : UInt64) (t : UInt8) (fuel : Nat)
    (hok : Ok pj (.obj p e ms)) (hsmall : pj.tape.size < 2^56) (hf : lenMs ms < fuel) :
    ∃ pj' cbs, View.deleteElems pj pred onlyKeys { lim := e, off := p + 1, addNext := 0, cur := cur, t := t } 0 #[] fuel = .ok (pj', cbs) ∧
      OkMems pj' (filterMs pred onlyKeys 0 ms) (p + 1) (e - 1) ∧
      Ok pj' (.obj p e (filterMs pred onlyKeys 0 ms)) ∧
      AgreeOut pj pj' (p + 1) (e - 1) ∧
      pj'.strings = pj.strings ∧ pj'.msg = pj.msg ∧ pj'.tape.size = pj.tape.size ∧
      cbs.size = (visitedMs onlyKeys 0 ms).length ∧ StandsM pj e (visitedMs onlyKeys 0 ms) cbs.toList := by
  simp only [Ok] at hok
  obtain ⟨hpe, ⟨w, hw, hwt, hwp⟩, ⟨c, hc, hct, hcp⟩, hms⟩ := hok
  have hsz := word_lt hc
  obtain ⟨pj', r, cbs, hr, hl, hok', hA, hs, hm, hz, hstands⟩ :=
    obj_loop pred onlyKeys ms pj { lim := e, off := p + 1, addNext := 0, cur := cur, t := t } 0 #[] (p + 1) (e - 1) fuel hms
      (by show e - 1 ≤ e; omega) (by omega) hsmall
      (Or.inr ⟨c, hc, by rw [hct]; decide, by rw [hct]; exact tt_objectEnd⟩)
      (Int.le_refl _) (by show ((p + 1 : Nat) : Int) + 0 = _; omega) hf
  have hl' : r.toList = cbs := by simpa using hl
  refine ⟨pj', r, hr, hok', ?_, hA, hs, hm, hz, ?_, by rw [hl']; exact hstands⟩
  · simp only [Ok]
    refine ⟨hpe, ⟨w, ?_, hwt, hwp⟩, ⟨c, ?_, hct, hcp⟩, hok'⟩
    · rw [hA.words p (Or.inl (by omega))]; exact hw
    · rw [hA.words (e - 1) (Or.inr (Nat.le_refl _))]; exact hc
  · rw [← Array.length_toList, hl']; exact standsM_length _ cbs hstands

/-- … with the fuel the API wrapper (the driver) uses -/
theorem deleteElems_obj_fuelOf (pj : PJ) (p e : Nat) (ms : LMems) (pred : Nat → Bytes → Bool) (onlyKeys : List Bytes)
    (hok : Ok pj (.obj p e ms)) (hsmall : pj.tape.size < 2^56) :
    ∃ pj' cbs, View.deleteElems pj pred onlyKeys (View.iter { lim := e, off := p + 1 }) 0 #[] (fuelOf pj) = .ok (pj', cbs) ∧
      OkMems pj' (filterMs pred onlyKeys 0 ms) (p + 1) (e - 1) ∧
      Ok pj' (.obj p e (filterMs pred onlyKeys 0 ms)) ∧
      AgreeOut pj pj' (p + 1) (e - 1) ∧
      pj'.strings = pj.strings ∧ pj'.msg = pj.msg ∧ pj'.tape.size = pj.tape.size ∧
      cbs.size = (visitedMs onlyKeys 0 ms).length ∧ StandsM pj e (visitedMs onlyKeys 0 ms) cbs.toList := by
  have h := hok
  simp only [Ok] at h
  obtain ⟨_, _, ⟨c, hc, _⟩, hms⟩ := h
  have := word_lt hc
  have := lenMs_le pj ms (p + 1) (e - 1) hms
  exact deleteElems_obj pj p e ms pred onlyKeys 0 tagEnd (fuelOf pj) hok hsmall (by unfold fuelOf; omega)

/-- **Object.DeleteElems, whole document.** -/
theorem deleteElems_doc (pj : PJ) (doc : LVal) (hdoc : Ok pj doc) (p e : Nat) (ms : LMems) (pred : Nat → Bytes → Bool)
    (onlyKeys : List Bytes) (cur : UInt64) (t : UInt8) (fuel : Nat) (hnode : HasNode p e doc)
    (hok : Ok pj (.obj p e ms)) (hsmall : pj.tape.size < 2^56) (hf : lenMs ms < fuel) :
    ∃ pj' cbs, View.deleteElems pj pred onlyKeys { lim := e, off := p + 1, addNext := 0, cur := cur, t := t } 0 #[] fuel = .ok (pj', cbs) ∧
      Ok pj' (substV p (.obj p e (filterMs pred onlyKeys 0 ms)) doc) ∧
      pj'.strings = pj.strings ∧ pj'.msg = pj.msg ∧ pj'.tape.size = pj.tape.size ∧
      cbs.size = (visitedMs onlyKeys 0 ms).length ∧ StandsM pj e (visitedMs onlyKeys 0 ms) cbs.toList := by
  obtain ⟨pj', cbs, hr, _, hn, hA, hs, hm, hz, hsize, hst⟩ := deleteElems_obj pj p e ms pred onlyKeys cur t fuel hok hsmall hf
  have hpe : p + 2 ≤ e := by simp only [Ok] at hok; exact hok.1
  refine ⟨pj', cbs, hr, ?_, hs, hm, hz, hsize, hst⟩
  exact (subst_ok (q := p) (f := e) (hA.widen (by omega) (by omega)) hn rfl (Nat.le_refl _) (gap_refl _ _) doc hdoc hnode).1

/-- **Object.DeleteElems without key filter** (`onlyKeys = nil`): every member is visited; the `n`-th member is
    deleted iff `pred n key`. -/
theorem deleteElems_all_doc (pj : PJ) (doc : LVal) (hdoc : Ok pj doc) (p e : Nat) (ms : LMems) (pred : Nat → Bytes → Bool)
    (cur : UInt64) (t : UInt8) (fuel : Nat) (hnode : HasNode p e doc)
    (hok : Ok pj (.obj p e ms)) (hsmall : pj.tape.size < 2^56) (hf : lenMs ms < fuel) :
    ∃ pj' cbs, View.deleteElems pj pred [] { lim := e, off := p + 1, addNext := 0, cur := cur, t := t } 0 #[] fuel = .ok (pj', cbs) ∧
      Ok pj' (.obj p e (filterMsAll pred 0 ms)) ∧
      Ok pj' (substV p (.obj p e (filterMsAll pred 0 ms)) doc) ∧
      AgreeOut pj pj' (p + 1) (e - 1) ∧
      pj'.strings = pj.strings ∧ pj'.msg = pj.msg ∧ pj'.tape.size = pj.tape.size ∧
      cbs.size = lenMs ms ∧ StandsM pj e (allMs ms) cbs.toList := by
  obtain ⟨pj', cbs, hr, _, hn, hA, hs, hm, hz, hsize, hst⟩ := deleteElems_obj pj p e ms pred [] cur t fuel hok hsmall hf
  obtain ⟨pj'', cbs', hr', hd, _⟩ := deleteElems_doc pj doc hdoc p e ms pred [] cur t fuel hnode hok hsmall hf
  rw [hr] at hr'
  injection hr' with hr'
  injection hr' with e1 e2
  subst e1 e2
  rw [filterMs_nil] at hn hd
  rw [visitedMs_nil] at hsize hst
  exact ⟨pj', cbs, hr, hn, hd, hA, hs, hm, hz, by rw [hsize, allMs_length], hst⟩

/-! ### The documented contract with `fn == nil` -/

/-- the members whose key is NOT in `keys`, at their old positions -/
def withoutKeys (keys : List Bytes) : LMems → LMems
  | .nil => .nil
  | .cons pk k v ms =>
    if keys.contains k.toArray then withoutKeys keys ms else .cons pk k v (withoutKeys keys ms)

/-- what `Object.DeleteElems(nil, onlyKeys)` leaves: nothing when `onlyKeys` is empty, otherwise exactly the members
    whose key is not in `onlyKeys` (every duplicate of a selected key is removed) -/
def nilFnResult (onlyKeys : List Bytes) (ms : LMems) : LMems :=
  if onlyKeys.length > 0 then withoutKeys onlyKeys ms else .nil

theorem filterMs_true_nonempty (onlyKeys : List Bytes) (h : onlyKeys.length > 0) : ∀ (ms : LMems) (n : Nat),
    filterMs (fun _ _ => true) onlyKeys n ms = withoutKeys onlyKeys ms
  | .nil, _ => rfl
  | .cons pk k v ms, n => by
    cases hc : onlyKeys.contains k.toArray with
    | false =>
      simp only [filterMs, withoutKeys, hc, h, Bool.not_false, and_self, if_true, Bool.false_eq_true, if_false,
        filterMs_true_nonempty onlyKeys h ms n]
    | true =>
      simp only [filterMs, withoutKeys, hc, h, Bool.not_true, Bool.false_eq_true, and_false, if_false, if_true,
        filterMs_true_nonempty onlyKeys h ms (n + 1)]

theorem filterMs_true_empty : ∀ (ms : LMems) (n : Nat), filterMs (fun _ _ => true) [] n ms = .nil
  | .nil, _ => rfl
  | .cons pk k v ms, n => by
    have h1 : ¬ (([] : List Bytes).length > 0 ∧ (!([] : List Bytes).contains k.toArray) = true) := by simp
    simp only [filterMs, h1, if_false, if_true, filterMs_true_empty ms (n + 1)]

theorem filterMs_true (onlyKeys : List Bytes) (ms : LMems) (n : Nat) :
    filterMs (fun _ _ => true) onlyKeys n ms = nilFnResult onlyKeys ms := by
  unfold nilFnResult
  by_cases h : onlyKeys.length > 0
  · rw [if_pos h]; exact filterMs_true_nonempty onlyKeys h ms n
  · rw [if_neg h]
    have : onlyKeys = [] := List.eq_nil_of_length_eq_zero (by omega)
    subst this
    exact filterMs_true_empty ms n

/-- **Object.DeleteElems(nil, onlyKeys): the documented contract.**  With `fn == nil` (`pred = fun _ _ => true`) the
    object afterwards holds exactly the members whose key is not in `onlyKeys` — none at all when `onlyKeys` is
    empty — every survivor at its old position; the enclosing document is otherwise unchanged. -/
theorem deleteElems_nilfn_doc (pj : PJ) (doc : LVal) (hdoc : Ok pj doc) (p e : Nat) (ms : LMems)
    (onlyKeys : List Bytes) (cur : UInt64) (t : UInt8) (fuel : Nat) (hnode : HasNode p e doc)
    (hok : Ok pj (.obj p e ms)) (hsmall : pj.tape.size < 2^56) (hf : lenMs ms < fuel) :
    ∃ pj' cbs, View.deleteElems pj (fun _ _ => true) onlyKeys { lim := e, off := p + 1, addNext := 0, cur := cur, t := t } 0 #[] fuel = .ok (pj', cbs) ∧
      Ok pj' (.obj p e (nilFnResult onlyKeys ms)) ∧
      Ok pj' (substV p (.obj p e (nilFnResult onlyKeys ms)) doc) ∧
      AgreeOut pj pj' (p + 1) (e - 1) ∧
      pj'.strings = pj.strings ∧ pj'.msg = pj.msg ∧ pj'.tape.size = pj.tape.size ∧
      cbs.size = (visitedMs onlyKeys 0 ms).length ∧ StandsM pj e (visitedMs onlyKeys 0 ms) cbs.toList := by
  obtain ⟨pj', cbs, hr, _, hn, hA, hs, hm, hz, hsize, hst⟩ :=
    deleteElems_obj pj p e ms (fun _ _ => true) onlyKeys cur t fuel hok hsmall hf
  obtain ⟨pj'', cbs', hr', hd, _⟩ := deleteElems_doc pj doc hdoc p e ms (fun _ _ => true) onlyKeys cur t fuel hnode hok hsmall hf
  rw [hr] at hr'
  injection hr' with hr'
  injection hr' with e1 e2
  subst e1 e2
  rw [filterMs_true] at hn hd
  exact ⟨pj', cbs, hr, hn, hd, hA, hs, hm, hz, hsize, hst⟩

/-- `Object.DeleteElems(nil, nil)`: every member is removed — the whole interior of the object is one gap. -/
theorem deleteElems_nilfn_all (pj : PJ) (p e : Nat) (ms : LMems) (cur : UInt64) (t : UInt8) (fuel : Nat)
    (hok : Ok pj (.obj p e ms)) (hsmall : pj.tape.size < 2^56) (hf : lenMs ms < fuel) :
    ∃ pj' cbs, View.deleteElems pj (fun _ _ => true) [] { lim := e, off := p + 1, addNext := 0, cur := cur, t := t } 0 #[] fuel = .ok (pj', cbs) ∧
      Ok pj' (.obj p e .nil) ∧ Gap pj' (p + 1) (e - 1) ∧ AgreeOut pj pj' (p + 1) (e - 1) ∧ cbs.size = lenMs ms := by
  obtain ⟨pj', cbs, hr, hg, hn, hA, _, _, _, hsize, _⟩ :=
    deleteElems_obj pj p e ms (fun _ _ => true) [] cur t fuel hok hsmall hf
  rw [filterMs_true_empty] at hg hn
  rw [visitedMs_nil, allMs_length] at hsize
  simp only [OkMems] at hg
  exact ⟨pj', cbs, hr, hn, hg, hA, hsize⟩

/-! ## 3. The denoted document; `Tight` is preserved -/

/-- abstract (position-free) versions of the filters -/
def filterJVals (pred : Nat → Bool) : Nat → JVals → JVals
  | _, .nil => .nil
  | n, .cons v vs => if pred n then filterJVals pred (n + 1) vs else .cons v (filterJVals pred (n + 1) vs)

def filterJMems (pred : Nat → Bytes → Bool) (onlyKeys : List Bytes) : Nat → JMems → JMems
  | _, .nil => .nil
  | n, .cons k v ms =>
    if onlyKeys.length > 0 ∧ (!onlyKeys.contains k.toArray) = true then .cons k v (filterJMems pred onlyKeys n ms)
    else if pred n k.toArray then filterJMems pred onlyKeys (n + 1) ms
    else .cons k v (filterJMems pred onlyKeys (n + 1) ms)

theorem erase_filterVs (pred : Nat → Bool) : ∀ (vs : LVals) (n : Nat),
    eraseVals (filterVs pred n vs) = filterJVals pred n (eraseVals vs)
  | .nil, _ => rfl
  | .cons v vs, n => by
    simp only [filterVs, eraseVals, filterJVals]
    split
    · exact erase_filterVs pred vs (n + 1)
    · simp only [eraseVals, erase_filterVs pred vs (n + 1)]

theorem erase_filterMs (pred : Nat → Bytes → Bool) (onlyKeys : List Bytes) : ∀ (ms : LMems) (n : Nat),
    eraseMems (filterMs pred onlyKeys n ms) = filterJMems pred onlyKeys n (eraseMems ms)
  | .nil, _ => rfl
  | .cons pk k v ms, n => by
    simp only [filterMs, eraseMems, filterJMems]
    split
    · simp only [eraseMems, erase_filterMs pred onlyKeys ms n]
    · split
      · exact erase_filterMs pred onlyKeys ms (n + 1)
      · simp only [eraseMems, erase_filterMs pred onlyKeys ms (n + 1)]

/-- In Layout terms: after `Array.DeleteElems` the words `[p, e)` denote the array of the surviving values. -/
theorem arrDeleteElems_valAt (pj : PJ) (p e : Nat) (es : LVals) (pred : Nat → Bool) (cur : UInt64) (t : UInt8) (fuel : Nat)
    (hok : Ok pj (.arr p e es)) (hsmall : pj.tape.size < 2^56) (hf : lenVs es < fuel) :
    ∃ pj' its, View.arrDeleteElems pj pred { lim := e, off := p + 1, addNext := 0, cur := cur, t := t } 0 #[] fuel = .ok (pj', its) ∧
      ValAt pj' (.arr (filterJVals pred 0 (eraseVals es))) p e := by
  obtain ⟨pj', its, hr, _, hn, _⟩ := arrDeleteElems_arr pj p e es pred cur t fuel hok hsmall hf
  refine ⟨pj', its, hr, ?_⟩
  have := ok_valAt pj' _ hn
  simpa only [erase, erase_filterVs, LVal.pos, LVal.fin] using this

/-- In Layout terms: after `Object.DeleteElems` the words `[p, e)` denote the object of the surviving members. -/
theorem deleteElems_valAt (pj : PJ) (p e : Nat) (ms : LMems) (pred : Nat → Bytes → Bool) (onlyKeys : List Bytes)
    (cur : UInt64) (t : UInt8) (fuel : Nat)
    (hok : Ok pj (.obj p e ms)) (hsmall : pj.tape.size < 2^56) (hf : lenMs ms < fuel) :
    ∃ pj' cbs, View.deleteElems pj pred onlyKeys { lim := e, off := p + 1, addNext := 0, cur := cur, t := t } 0 #[] fuel = .ok (pj', cbs) ∧
      ValAt pj' (.obj (filterJMems pred onlyKeys 0 (eraseMems ms))) p e := by
  obtain ⟨pj', cbs, hr, _, hn, _⟩ := deleteElems_obj pj p e ms pred onlyKeys cur t fuel hok hsmall hf
  refine ⟨pj', cbs, hr, ?_⟩
  have := ok_valAt pj' _ hn
  simpa only [erase, erase_filterMs, LVal.pos, LVal.fin] using this

/-- deletion keeps every surviving value directly after its key: the `NextElementBytes` walkers stay exact
    (WalkLayout's `Tight`) -/
theorem tight_filterVs (pred : Nat → Bool) : ∀ (vs : LVals) (n : Nat), TightVs vs → TightVs (filterVs pred n vs)
  | .nil, _, _ => by simp only [filterVs, TightVs]
  | .cons v vs, n, h => by
    simp only [TightVs] at h
    simp only [filterVs]
    split
    · exact tight_filterVs pred vs (n + 1) h.2
    · simp only [TightVs]; exact ⟨h.1, tight_filterVs pred vs (n + 1) h.2⟩

theorem tight_filterMs (pred : Nat → Bytes → Bool) (onlyKeys : List Bytes) : ∀ (ms : LMems) (n : Nat),
    TightMs ms → TightMs (filterMs pred onlyKeys n ms)
  | .nil, _, _ => by simp only [filterMs, TightMs]
  | .cons pk k v ms, n, h => by
    simp only [TightMs] at h
    simp only [filterMs]
    split
    · simp only [TightMs]; exact ⟨h.1, h.2.1, tight_filterMs pred onlyKeys ms n h.2.2⟩
    · split
      · exact tight_filterMs pred onlyKeys ms (n + 1) h.2.2
      · simp only [TightMs]; exact ⟨h.1, h.2.1, tight_filterMs pred onlyKeys ms (n + 1) h.2.2⟩

/-- Read-back (ties to C14 "every walker agrees after deletions"): on a `Tight` array, the in-order walker run on
    the tape AFTER `Array.DeleteElems` reads exactly the surviving elements. -/
theorem arrDeleteElems_readback (pj : PJ) (p e : Nat) (es : LVals) (pred : Nat → Bool) (cur : UInt64) (t : UInt8) (fuel : Nat)
    (hok : Ok pj (.arr p e es)) (ht : TightVs es) (hsmall : pj.tape.size < 2^56) (hf : lenVs es < fuel) :
    ∃ pj' its, View.arrDeleteElems pj pred { lim := e, off := p + 1, addNext := 0, cur := cur, t := t } 0 #[] fuel = .ok (pj', its) ∧
      owalkArr pj' { lim := e, off := p + 1, addNext := 0, cur := cur, t := t } [] (fuelOf pj') = .ok (toOVals (filterVs pred 0 es)) := by
  obtain ⟨pj', its, hr, _, hn, _, _, _, hz, _⟩ := arrDeleteElems_arr pj p e es pred cur t fuel hok hsmall hf
  refine ⟨pj', its, hr, ?_⟩
  have h := hok
  simp only [Ok] at h
  obtain ⟨_, _, ⟨c, hc, _⟩, _⟩ := h
  have := word_lt hc
  exact owalkArr_arr_fuelOf pj' p e _ cur t hn (tight_filterVs pred es 0 ht) (by omega)

/-- the same for objects, with the `NextElementBytes` walker (which needs `Tight`) -/
theorem deleteElems_readback (pj : PJ) (p e : Nat) (ms : LMems) (pred : Nat → Bytes → Bool) (onlyKeys : List Bytes)
    (cur : UInt64) (t : UInt8) (fuel : Nat)
    (hok : Ok pj (.obj p e ms)) (ht : TightMs ms) (hsmall : pj.tape.size < 2^56) (hf : lenMs ms < fuel) :
    ∃ pj' cbs, View.deleteElems pj pred onlyKeys { lim := e, off := p + 1, addNext := 0, cur := cur, t := t } 0 #[] fuel = .ok (pj', cbs) ∧
      owalkObj pj' { lim := e, off := p + 1 } [] (fuelOf pj') = .ok (toOMems (filterMs pred onlyKeys 0 ms)) := by
  obtain ⟨pj', cbs, hr, _, hn, _, _, _, hz, _⟩ := deleteElems_obj pj p e ms pred onlyKeys cur t fuel hok hsmall hf
  refine ⟨pj', cbs, hr, ?_⟩
  have h := hok
  simp only [Ok] at h
  obtain ⟨_, _, ⟨c, hc, _⟩, _⟩ := h
  have := word_lt hc
  exact owalkObj_obj_fuelOf pj' p e _ hn (tight_filterMs pred onlyKeys ms 0 ht) (by omega)

/-! ## 4. Non-vacuity: concrete tapes satisfying the hypotheses, and what the theorems say about them -/

/-- the array `[1,true,null]` -/
def exArrPJ : PJ :=
  { tape := #[mkWord tagArrayStart 6, mkWord tagInteger 0, 1, mkWord tagBoolTrue 0, mkWord tagNull 0, mkWord tagArrayEnd 0],
    strings := #[], msg := #[] }
def exArrEs : LVals := .cons (.int 1 1) (.cons (.bool true 3) (.cons (.null 4) .nil))

theorem exArr_ok : Ok exArrPJ (.arr 0 6 exArrEs) := by
  simp only [exArrEs, Ok, OkElems, LVal.pos, LVal.fin]
  exact ⟨by omega, ⟨_, rfl, by decide, by decide⟩, ⟨_, rfl, by decide, by decide⟩, gap_refl _ _,
    ⟨_, rfl, by decide, rfl⟩, by omega, gap_refl _ _, ⟨_, rfl, by decide⟩, by omega, gap_refl _ _, ⟨_, rfl, by decide⟩,
    by omega, gap_refl _ _⟩

/-- deleting the middle element: the tape then holds `[1,null]`, the survivors where they were -/
example : ∃ pj' its, View.arrDeleteElems exArrPJ (fun k => k == 1) (View.iter { lim := 6, off := 1 }) 0 #[] (fuelOf exArrPJ) = .ok (pj', its) ∧
    Ok pj' (.arr 0 6 (.cons (.int 1 1) (.cons (.null 4) .nil))) ∧ its.size = 3 := by
  obtain ⟨pj', its, h1, _, h2, _, _, _, _, h3, _⟩ :=
    arrDeleteElems_arr_fuelOf exArrPJ 0 6 exArrEs (fun k => k == 1) exArr_ok (by decide)
  exact ⟨pj', its, h1, h2, h3⟩

/-- … and the model run computes exactly that: the word at 3 is now `NOP 1` -/
example : (match View.arrDeleteElems exArrPJ (fun k => k == 1) (View.iter { lim := 6, off := 1 }) 0 #[] (fuelOf exArrPJ) with
    | .ok (pj', its) => pj'.tape == #[mkWord tagArrayStart 6, mkWord tagInteger 0, 1, mkWord tagNop 1, mkWord tagNull 0,
        mkWord tagArrayEnd 0] && its.size == 3
    | _ => false) = true := by decide +kernel

/-- the object `{"a":5,"b":true}` with one NOP entry between the key `a` and its value (not `Tight`) -/
def exObjPJ : PJ :=
  { tape := #[mkWord tagObjectStart 10, mkWord tagString 0, 1, mkWord tagNop 1, mkWord tagInteger 0, 5,
              mkWord tagString 1, 1, mkWord tagBoolTrue 0, mkWord tagObjectEnd 0],
    strings := #[], msg := #[97, 98] }
def exObjMs : LMems := .cons 1 [97] (.int 5 4) (.cons 6 [98] (.bool true 8) .nil)

theorem exObj_ok : Ok exObjPJ (.obj 0 10 exObjMs) := by
  simp only [exObjMs, Ok, OkMems, StrAt, LVal.pos, LVal.fin]
  refine ⟨by omega, ⟨_, rfl, by decide, by decide⟩, ⟨_, rfl, by decide, by decide⟩, gap_refl _ _,
    ⟨_, _, rfl, rfl, by decide, rfl⟩, ?_, ⟨_, rfl, by decide, rfl⟩, by omega, gap_refl _ _,
    ⟨_, _, rfl, rfl, by decide, rfl⟩, gap_refl _ _, ⟨_, rfl, by decide⟩, by omega, gap_refl _ _⟩
  refine ⟨by omega, fun k h1 h2 => ?_⟩
  have : k = 3 := by omega
  subst this
  exact ⟨_, rfl, by decide, by decide, by decide⟩

/-- deleting the first member (no key filter): the tape then holds `{"b":true}` -/
example : ∃ pj' cbs, View.deleteElems exObjPJ (fun n _ => n == 0) [] (View.iter { lim := 10, off := 1 }) 0 #[] (fuelOf exObjPJ) = .ok (pj', cbs) ∧
    Ok pj' (.obj 0 10 (.cons 6 [98] (.bool true 8) .nil)) ∧ cbs.size = 2 := by
  obtain ⟨pj', cbs, h1, _, h2, _, _, _, _, h3, _⟩ :=
    deleteElems_obj_fuelOf exObjPJ 0 10 exObjMs (fun n _ => n == 0) [] exObj_ok (by decide)
  exact ⟨pj', cbs, h1, h2, h3⟩

/-- deleting with the key filter `{"b"}` and `fn == nil`: only `b` is visited (as visit 0) and deleted -/
example : ∃ pj' cbs, View.deleteElems exObjPJ (fun _ _ => true) [#[98]] (View.iter { lim := 10, off := 1 }) 0 #[] (fuelOf exObjPJ) = .ok (pj', cbs) ∧
    Ok pj' (.obj 0 10 (.cons 1 [97] (.int 5 4) .nil)) ∧ cbs.size = 1 := by
  obtain ⟨pj', cbs, h1, _, h2, _, _, _, _, h3, _⟩ :=
    deleteElems_obj_fuelOf exObjPJ 0 10 exObjMs (fun _ _ => true) [#[98]] exObj_ok (by decide)
  exact ⟨pj', cbs, h1, h2, h3⟩

/-- … and the model run computes exactly that: key and value of `a` (words 1..5, the old NOP included) are one gap -/
example : (match View.deleteElems exObjPJ (fun n _ => n == 0) [] (View.iter { lim := 10, off := 1 }) 0 #[] (fuelOf exObjPJ) with
    | .ok (pj', cbs) => pj'.tape == #[mkWord tagObjectStart 10, mkWord tagNop 5, mkWord tagNop 4, mkWord tagNop 3, mkWord tagNop 2,
        mkWord tagNop 1, mkWord tagString 1, 1, mkWord tagBoolTrue 0, mkWord tagObjectEnd 0] && cbs.size == 2
    | _ => false) = true := by decide +kernel

/-- Duplicate keys: `{"a":1,"a":2}`, `onlyKeys = {"a"}`, `fn = nil` — BOTH members are selected and removed (the old
    Go code stopped after `len(onlyKeys)` visits and left the second `a`; repaired upstream and in the model). -/
def exDupPJ : PJ :=
  { tape := #[mkWord tagObjectStart 10, mkWord tagString 0, 1, mkWord tagInteger 0, 1, mkWord tagString 0, 1,
              mkWord tagInteger 0, 2, mkWord tagObjectEnd 0], strings := #[], msg := #[97] }
def exDupMs : LMems := .cons 1 [97] (.int 1 3) (.cons 5 [97] (.int 2 7) .nil)

theorem exDup_ok : Ok exDupPJ (.obj 0 10 exDupMs) := by
  simp only [exDupMs, Ok, OkMems, StrAt, LVal.pos, LVal.fin]
  exact ⟨by omega, ⟨_, rfl, by decide, by decide⟩, ⟨_, rfl, by decide, by decide⟩, gap_refl _ _,
    ⟨_, _, rfl, rfl, by decide, rfl⟩, gap_refl _ _, ⟨_, rfl, by decide, rfl⟩, by omega, gap_refl _ _,
    ⟨_, _, rfl, rfl, by decide, rfl⟩, gap_refl _ _, ⟨_, rfl, by decide, rfl⟩, by omega, gap_refl _ _⟩

example : nilFnResult [#[97]] exDupMs = .nil := by rfl

example : ∃ pj' cbs, View.deleteElems exDupPJ (fun _ _ => true) [#[97]] (View.iter { lim := 10, off := 1 }) 0 #[] (fuelOf exDupPJ) = .ok (pj', cbs) ∧
    Ok pj' (.obj 0 10 .nil) ∧ cbs.size = 2 := by
  obtain ⟨pj', cbs, h1, _, h2, _, _, _, _, h3, _⟩ :=
    deleteElems_obj_fuelOf exDupPJ 0 10 exDupMs (fun _ _ => true) [#[97]] exDup_ok (by decide)
  exact ⟨pj', cbs, h1, h2, h3⟩

/-- … and the model run computes exactly that: two callbacks, words 1..8 erased (two adjacent gaps) -/
example : (match View.deleteElems exDupPJ (fun _ _ => true) [#[97]] (View.iter { lim := 10, off := 1 }) 0 #[] (fuelOf exDupPJ) with
    | .ok (pj', cbs) => pj'.tape == #[mkWord tagObjectStart 10, mkWord tagNop 4, mkWord tagNop 3, mkWord tagNop 2, mkWord tagNop 1,
        mkWord tagNop 4, mkWord tagNop 3, mkWord tagNop 2, mkWord tagNop 1, mkWord tagObjectEnd 0] && cbs.size == 2
    | _ => false) = true := by decide +kernel

end SJ.DeleteDoc
