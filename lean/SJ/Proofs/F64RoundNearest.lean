import SJ.Proofs.F64RoundPos
/-
T2, full form: `roundPos` (with or without sticky bit) returns a binary64 nearest to the real it is given,
ties to even (`Numeric.IsNearestEven`, against the exact rational value of every binary64).
-/
namespace SJ.F64Round
open SJ SJ.F64 SJ.Numeric

/-! ## 1. What `finish` packs -/

/-- `finish q et = some b` for a rounded mantissa `q ≤ 2^53` at exponent `et` (normalised: `2^52 ≤ q` unless
    `et = −1074`): `b` decodes to the value `q·2^et`, and its mantissa is `q`, or `2^52` when `q = 2^53`. -/
theorem finish_decode (q : Nat) (et : Int) (b : UInt64) (hq : q ≤ 2 ^ 53) (het : -1074 ≤ et)
    (hnorm : 2 ^ 52 ≤ q ∨ et = -1074) (h : finish q et = some b) :
    ∃ m' e', decode b = .fin false m' e' ∧ value false m' e' = value false q et ∧
      (m' = q ∨ (q = 2 ^ 53 ∧ m' = 2 ^ 52)) := by
  rw [finish_split] at h
  by_cases h53 : q = 2 ^ 53
  · rw [if_pos h53] at h
    unfold finish2 at h
    rw [if_neg (by omega)] at h
    by_cases hov : et + 1 + 1075 ≥ 0x7ff
    · rw [if_pos hov] at h; cases h
    · rw [if_neg hov] at h
      obtain ⟨B, hB⟩ : ∃ B : Nat, (B : Int) = et + 1 + 1075 := ⟨(et + 1 + 1075).toNat, by omega⟩
      have hBt : (et + 1 + 1075).toNat = B := by omega
      rw [hBt, Nat.sub_self] at h
      have hb : b = bitsOf B 0 := (Option.some.inj h).symm
      have hd := decode_bitsOf B 0 (by omega) (by decide)
      rw [← hb] at hd
      refine ⟨_, _, hd, ?_, Or.inr ⟨h53, ?_⟩⟩
      · have e1 : mantOf B 0 = 2 ^ 52 := by unfold mantOf; rw [if_neg (by omega)]
        have e2 : expOf B = et + 1 := by unfold expOf; rw [if_neg (by omega)]; omega
        rw [e1, e2, h53, value_double]
      · unfold mantOf; rw [if_neg (by omega)]
  · rw [if_neg h53] at h
    unfold finish2 at h
    by_cases hsub : q < 2 ^ 52
    · rw [if_pos hsub] at h
      have het' : et = -1074 := by omega
      have hb : b = bitsOf 0 q := by
        have := (Option.some.inj h).symm
        unfold bitsOf; simpa using this
      have hd := decode_bitsOf 0 q (by omega) hsub
      rw [← hb] at hd
      refine ⟨_, _, hd, ?_, Or.inl ?_⟩
      · have e1 : mantOf 0 q = q := by simp [mantOf]
        have e2 : expOf 0 = -1074 := by simp [expOf]
        rw [e1, e2, het']
      · simp [mantOf]
    · rw [if_neg hsub] at h
      by_cases hov : et + 1075 ≥ 0x7ff
      · rw [if_pos hov] at h; cases h
      · rw [if_neg hov] at h
        obtain ⟨B, hB⟩ : ∃ B : Nat, (B : Int) = et + 1075 := ⟨(et + 1075).toNat, by omega⟩
        have hBt : (et + 1075).toNat = B := by omega
        rw [hBt] at h
        have hb : b = bitsOf B (q - 2 ^ 52) := (Option.some.inj h).symm
        have hd := decode_bitsOf B (q - 2 ^ 52) (by omega) (by omega)
        rw [← hb] at hd
        have e1 : mantOf B (q - 2 ^ 52) = q := by unfold mantOf; rw [if_neg (by omega)]; omega
        have e2 : expOf B = et := by unfold expOf; rw [if_neg (by omega)]; omega
        refine ⟨_, _, hd, ?_, Or.inl e1⟩
        rw [e1, e2]

/-! ## 2. Values at a fixed exponent -/

theorem value_add (a b : Nat) (e : Int) : value false (a + b) e = value false a e + value false b e := by
  unfold value
  simp only [Bool.false_eq_true, if_false, Rat.natCast_add, Rat.add_mul]

theorem value_lt {a b : Nat} (e : Int) (h : a < b) : value false a e < value false b e := by
  unfold value
  simp only [Bool.false_eq_true, if_false]
  exact Rat.mul_lt_mul_of_pos_right (Rat.natCast_lt_natCast.mpr h) (two_zpow_pos e)

theorem value_lt_iff (a b : Nat) (e : Int) : value false a e < value false b e ↔ a < b := by
  constructor
  · intro h
    apply Nat.lt_of_not_le
    intro hle
    have := value_mono b a e hle
    exact absurd h (Rat.not_lt.mpr this)
  · exact value_lt e

theorem value_zero (e : Int) : value false 0 e = 0 := by
  unfold value; simp

/-- `value (m·2^k) e = value m (e+k)` -/
theorem value_shift' (m k : Nat) (e : Int) : value false (m * 2 ^ k) e = value false m (e + k) := by
  have := value_shift false m k (e + k)
  rw [← this]; congr 1; omega

/-! ## 3. No binary64 strictly between two neighbours of the grid `2^et` -/

theorem no_between_et (q0 : Nat) (et : Int) (hnorm : 2 ^ 52 ≤ q0 ∨ et = -1074)
    {neg' : Bool} {mg : Nat} {eg : Int} (hm : mg < 2 ^ 53) (he1 : -1074 ≤ eg) :
    value neg' mg eg ≤ value false q0 et ∨ value false (q0 + 1) et ≤ value neg' mg eg := by
  cases neg'
  · by_cases he : et ≤ eg
    · obtain ⟨k, hk⟩ : ∃ k : Nat, eg = et + k := ⟨(eg - et).toNat, by omega⟩
      have hv : value false mg eg = value false (mg * 2 ^ k) et := by
        rw [value_shift', hk]
      rw [hv]
      rcases Nat.lt_or_ge q0 (mg * 2 ^ k) with hlt | hge
      · right; exact value_mono _ _ _ hlt
      · left; exact value_mono _ _ _ hge
    · left
      have hq : 2 ^ 52 ≤ q0 := by
        rcases hnorm with h | h
        · exact h
        · omega
      obtain ⟨k, hk⟩ : ∃ k : Nat, et = eg + k := ⟨(et - eg).toNat, by omega⟩
      have hk1 : 1 ≤ k := by omega
      have hv : value false q0 et = value false (q0 * 2 ^ k) eg := by
        rw [value_shift', hk]
      rw [hv]
      apply value_mono
      have : 2 * 1 ≤ 2 ^ k := by
        calc 2 * 1 = 2 ^ 1 := rfl
          _ ≤ 2 ^ k := Nat.pow_le_pow_right (by decide) hk1
      calc mg ≤ 2 ^ 52 * 2 := by omega
        _ ≤ q0 * 2 ^ k := Nat.mul_le_mul hq (by omega)
  · left
    exact Rat.le_trans (value_true_nonpos mg eg) (value_false_nonneg _ _)

/-! ## 4. T2 -/

/-- `±m·2^e` is nearest to `x` among all `±m'·2^e'` with a 53-bit mantissa and `e' ≥ −1074` (a superset of the
    binary64 values, so that the statement is symmetric under change of sign); in a tie `m` is even. -/
def NearestAt (neg : Bool) (m : Nat) (e : Int) (x : Rat) : Prop :=
    (∀ (neg' : Bool) (m' : Nat) (e' : Int), m' < 2 ^ 53 → -1074 ≤ e' →
      (value neg m e - x).abs ≤ (value neg' m' e' - x).abs) ∧
    (∀ (neg' : Bool) (m' : Nat) (e' : Int), m' < 2 ^ 53 → -1074 ≤ e' →
      value neg' m' e' ≠ value neg m e →
      (value neg' m' e' - x).abs = (value neg m e - x).abs → m % 2 = 0)

theorem NearestAt.toNearest {f : UInt64} {neg : Bool} {m : Nat} {e : Int} {x : Rat}
    (hd : decode f = .fin neg m e) (h : NearestAt neg m e x) : IsNearestEven f x := by
  obtain ⟨h1, h2⟩ := h
  refine ⟨neg, m, e, hd, ?_, ?_⟩
  · intro b' neg' m' e' hb
    obtain ⟨a1, a2, _⟩ := decode_fin_bounds hb
    exact h1 neg' m' e' a1 a2
  · intro b' neg' m' e' hb
    obtain ⟨a1, a2, _⟩ := decode_fin_bounds hb
    exact h2 neg' m' e' a1 a2

theorem nearestAt_exact (neg : Bool) (m : Nat) (e : Int) : NearestAt neg m e (value neg m e) := by
  refine ⟨?_, ?_⟩
  · intro neg' m' e' _ _
    rw [Rat.sub_self]; exact Rat.abs_nonneg
  · intro neg' m' e' _ _ hne heq
    exfalso; apply hne
    rw [Rat.sub_self] at heq
    unfold Rat.abs at heq
    split at heq <;> grind

/-- change of sign -/
theorem NearestAt.neg {neg : Bool} {m : Nat} {e : Int} {x : Rat} (h : NearestAt neg m e x) :
    NearestAt (!neg) m e (-x) := by
  obtain ⟨h1, h2⟩ := h
  refine ⟨?_, ?_⟩
  · intro neg' m' e' a1 a2
    have := h1 (!neg') m' e' a1 a2
    rw [value_not, abs_neg_sub]
    rw [value_not, abs_flip] at this
    exact this
  · intro neg' m' e' a1 a2 hne heq
    apply h2 (!neg') m' e' a1 a2
    · rw [value_not]; intro hc; apply hne; rw [value_not, ← hc, Rat.neg_neg]
    · rw [value_not, abs_flip, heq, value_not, abs_neg_sub]

theorem rat_aux0 (x a : Rat) : x = a + (x - a) := by grind
theorem rat_aux1 (x a r : Rat) (h1 : a + r ≤ x) (h2 : 0 ≤ r) : 0 ≤ x - a := by grind
theorem rat_aux2 (x a r w : Rat) (h1 : x < a + r) (h2 : r ≤ w) : x - a < w := by grind

theorem etOf_ge (n : Nat) (e : Int) : -1074 ≤ etOf n e := by unfold etOf; omega

/-- the quotient kept by `roundPos` is normalised -/
theorem q0_norm (n : Nat) (e : Int) (h0 : n ≠ 0) (h : e < etOf n e) :
    (2 ^ 52 ≤ n / 2 ^ (etOf n e - e).toNat ∧ n / 2 ^ (etOf n e - e).toNat < 2 ^ 53) ∨
    (etOf n e = -1074 ∧ n / 2 ^ (etOf n e - e).toNat < 2 ^ 52) := by
  obtain ⟨h1, h2⟩ := log2_bounds n h0
  by_cases hc : -1074 ≤ e + ((n.log2 + 1 : Nat) : Int) - 53
  · left
    have hs : (etOf n e - e).toNat = n.log2 + 1 - 53 := by unfold etOf at h ⊢; omega
    have hL : 53 ≤ n.log2 + 1 := by unfold etOf at h; omega
    rw [hs]
    have := q0_bounds n h0 hL
    unfold q0 sh at this
    exact this
  · right
    have het : etOf n e = -1074 := by unfold etOf; omega
    refine ⟨het, ?_⟩
    rw [Nat.div_lt_iff_lt_mul (two_pow_pos _), ← Nat.pow_add]
    exact Nat.lt_of_lt_of_le h2 (Nat.pow_le_pow_right (by decide) (by omega))

/-- **T2**: `roundPos n e st` — the real `x` with `n·2^e ≤ x < (n+1)·2^e`, `st` set iff `x ≠ n·2^e`, and, when
    `st` is set, at least one bit shifted out — returns a binary64 nearest to `x`, ties to even. -/
theorem roundPos_nearest (n : Nat) (e : Int) (st : Bool) (x : Rat) (b : UInt64) (h0 : n ≠ 0)
    (hx1 : value false n e ≤ x) (hx2 : x < value false (n + 1) e)
    (hst : st = true ↔ x ≠ value false n e) (hsh : st = true → e < etOf n e)
    (h : roundPos n e st = some b) : ∃ m' e', decode b = .fin false m' e' ∧ NearestAt false m' e' x := by
  have hetge := etOf_ge n e
  by_cases hc : e < etOf n e
  · -- bits are shifted out
    rw [roundPos_shr n e st h0 hc] at h
    obtain ⟨s, hs⟩ : ∃ s : Nat, (etOf n e - e).toNat = s := ⟨_, rfl⟩
    have hs1 : 1 ≤ s := by omega
    have het : etOf n e = e + s := by omega
    have hnorm := q0_norm n e h0 hc
    rw [hs] at h hnorm
    have hP := pow_pred_double s hs1
    have hHpos := two_pow_pos (s - 1)
    have hdm := Nat.div_add_mod n (2 ^ s)
    have hrem := Nat.mod_lt n (two_pow_pos s)
    generalize hq0 : n / 2 ^ s = q0 at *
    generalize hrm : n % 2 ^ s = rem at *
    -- the two neighbours
    have ha : value false q0 (etOf n e) = value false (2 ^ s * q0) e := by
      rw [het, ← value_shift', Nat.mul_comm]
    have ha1 : value false (q0 + 1) (etOf n e) = value false (2 ^ s * q0) e + value false (2 ^ s) e := by
      rw [het, ← value_shift', Nat.add_mul, Nat.one_mul, value_add, Nat.mul_comm]
    have hw : value false (2 ^ s) e = value false (2 ^ (s - 1)) e + value false (2 ^ (s - 1)) e := by
      rw [← value_add]; congr 1; omega
    have hn : value false n e = value false (2 ^ s * q0) e + value false rem e := by
      rw [← value_add, hdm]
    have hn1 : value false (n + 1) e = value false (2 ^ s * q0) e + value false (rem + 1) e := by
      rw [← value_add]; congr 1; omega
    have hr1 : value false (rem + 1) e ≤ value false (2 ^ s) e := value_mono _ _ _ (by omega)
    -- which neighbour was chosen
    have hq : rndS n s st ≤ 2 ^ 53 ∧ (2 ^ 52 ≤ rndS n s st ∨ etOf n e = -1074) ∧
        ((rndS n s st = q0 ∧ 2 * (x - value false (2 ^ s * q0) e) ≤ value false (2 ^ s) e) ∨
         (rndS n s st = q0 + 1 ∧ value false (2 ^ s) e ≤ 2 * (x - value false (2 ^ s * q0) e))) ∧
        (2 * (x - value false (2 ^ s * q0) e) = value false (2 ^ s) e → rndS n s st % 2 = 0) := by
      unfold rndS
      rw [hq0, hrm]
      by_cases c1 : rem > 2 ^ (s - 1)
      · rw [if_pos c1]
        have : value false (2 ^ (s - 1) + 1) e ≤ value false rem e := value_mono _ _ _ (by omega)
        rw [value_add] at this
        have hpos : 0 < value false 1 e := by
          have := value_lt (a := 0) (b := 1) e (by decide); rwa [value_zero] at this
        refine ⟨by omega, by omega, Or.inr ⟨rfl, by grind⟩, ?_⟩
        intro heq; exfalso; grind
      · rw [if_neg c1]
        by_cases c2 : rem < 2 ^ (s - 1)
        · rw [if_pos c2]
          have : value false (rem + 1) e ≤ value false (2 ^ (s - 1)) e := value_mono _ _ _ (by omega)
          refine ⟨by omega, by omega, Or.inl ⟨rfl, by grind⟩, ?_⟩
          intro heq; exfalso; grind
        · rw [if_neg c2]
          have hre : rem = 2 ^ (s - 1) := by omega
          rw [hre] at hn hn1
          by_cases c3 : (st || (q0 % 2 == 1)) = true
          · rw [if_pos c3]
            refine ⟨by omega, by omega, Or.inr ⟨rfl, by grind⟩, ?_⟩
            intro heq
            have hxe : x = value false n e := by grind
            have hstf : st = false := by
              cases hb : st
              · rfl
              · exact absurd hxe (hst.mp hb)
            rw [hstf] at c3
            simp only [Bool.false_or, beq_iff_eq] at c3
            omega
          · rw [if_neg c3]
            have c3' : st = false ∧ ¬ q0 % 2 = 1 := by simpa using c3
            have hxe : x = value false n e := by
              apply Classical.byContradiction
              intro hne
              have := hst.mpr hne
              rw [c3'.1] at this; cases this
            refine ⟨by omega, by omega, Or.inl ⟨rfl, by grind⟩, ?_⟩
            intro _; omega
    obtain ⟨hq1, hq2, hq3, hq4⟩ := hq
    obtain ⟨m', e', hd, hv, hm'⟩ := finish_decode _ _ b hq1 hetge hq2 h
    have hvq : value false (rndS n s st) (etOf n e) = value false (2 ^ s * rndS n s st) e := by
      rw [het, ← value_shift', Nat.mul_comm]
    have hcore : ∀ (neg' : Bool) (mg : Nat) (eg : Int), mg < 2 ^ 53 → -1074 ≤ eg →
        (value false m' e' - x).abs ≤ (value neg' mg eg - x).abs ∧
        (value neg' mg eg ≠ value false m' e' → (value neg' mg eg - x).abs = (value false m' e' - x).abs →
          2 * (x - value false (2 ^ s * q0) e) = value false (2 ^ s) e) := by
      intro neg' mg eg hg1 hg2
      have hnb := no_between_et q0 (etOf n e) (by omega) (neg' := neg') hg1 hg2
      rw [ha, ha1] at hnb
      rw [hv]
      have hvv : (value false (rndS n s st) (etOf n e) = value false (2 ^ s * q0) e ∧
            2 * (x - value false (2 ^ s * q0) e) ≤ value false (2 ^ s) e) ∨
          (value false (rndS n s st) (etOf n e) = value false (2 ^ s * q0) e + value false (2 ^ s) e ∧
            value false (2 ^ s) e ≤ 2 * (x - value false (2 ^ s * q0) e)) := by
        rcases hq3 with ⟨e1, e2⟩ | ⟨e1, e2⟩
        · left; rw [e1, ha]; exact ⟨rfl, e2⟩
        · right; rw [e1, ha1]; exact ⟨rfl, e2⟩
      exact nearest_core x (value false (2 ^ s * q0) e) (value false (2 ^ s) e)
        (x - value false (2 ^ s * q0) e) _ _ (rat_aux0 _ _)
        (rat_aux1 _ _ _ (by rw [← hn]; exact hx1) (value_false_nonneg rem e))
        (rat_aux2 _ _ _ _ (by rw [← hn1]; exact hx2) hr1) hvv hnb
    refine ⟨m', e', hd, fun neg' mg eg hg1 hg2 => (hcore neg' mg eg hg1 hg2).1, ?_⟩
    intro neg' mg eg hg1 hg2 hne heq
    have := hq4 ((hcore neg' mg eg hg1 hg2).2 hne heq)
    rcases hm' with h1 | ⟨_, h2⟩
    · rw [h1]; exact this
    · rw [h2]
  · -- exact: nothing is shifted out
    have hstf : st = false := by
      cases hb : st
      · rfl
      · exact absurd (hsh hb) hc
    have hxe : x = value false n e := by
      apply Classical.byContradiction
      intro hne
      have := hst.mpr hne
      rw [hstf] at this; cases this
    rw [roundPos_shl n e st h0 (by omega)] at h
    obtain ⟨k, hk⟩ : ∃ k : Nat, (e - etOf n e).toNat = k := ⟨_, rfl⟩
    have hek : e = etOf n e + k := by omega
    rw [hk] at h
    obtain ⟨h1, h2⟩ := log2_bounds n h0
    have hL : etOf n e = e + ((n.log2 + 1 : Nat) : Int) - 53 ∨ etOf n e = -1074 := by unfold etOf; omega
    have hLge : e + ((n.log2 + 1 : Nat) : Int) - 53 ≤ etOf n e := by unfold etOf; omega
    have hq1 : n * 2 ^ k ≤ 2 ^ 53 := by
      have : n * 2 ^ k < 2 ^ (n.log2 + 1) * 2 ^ k := Nat.mul_lt_mul_of_pos_right h2 (two_pow_pos _)
      rw [← Nat.pow_add] at this
      have : 2 ^ (n.log2 + 1 + k) ≤ 2 ^ 53 := Nat.pow_le_pow_right (by decide) (by omega)
      omega
    have hq2 : 2 ^ 52 ≤ n * 2 ^ k ∨ etOf n e = -1074 := by
      rcases hL with hL | hL
      · left
        have : 2 ^ n.log2 * 2 ^ k ≤ n * 2 ^ k := Nat.mul_le_mul_right _ h1
        rw [← Nat.pow_add] at this
        have h3 : n.log2 + k = 52 := by omega
        rw [h3] at this; exact this
      · right; exact hL
    obtain ⟨m', e', hd, hv, _⟩ := finish_decode _ _ b hq1 hetge hq2 h
    have hval : value false m' e' = x := by
      rw [hv, hxe, value_shift', ← hek]
    rw [← hval]
    exact ⟨m', e', hd, nearestAt_exact _ _ _⟩

end SJ.F64Round
