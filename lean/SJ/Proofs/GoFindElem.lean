import SJ.Proofs.GoFind
import SJ.Proofs.GoApi
import SJ.Proofs.GoArrMarshalLemmas
set_option linter.unusedVariables false
set_option linter.unusedSimpArgs false
/-
GoFindElem — `Iter.FindElement` (parsed_json.go l.862) and `Iter.Root#self` (its call `cp.Root(&cp)`: the destination IS the
receiver), as printed by the translator (`Generated/GoSrc.lean`: `goIter_FindElement`, `goIter_Root_self`) and run by
`GoSem.exec`, against the hand model `Iter.findElement` / `Iter.root` of `Model/Object.lean`.  The callees are not re-proved:
`Iter.Object` (`GoApi.object_sim`), `Object.FindPath` (`GoFind.findPath_sim`), `Iter.AdvanceInto` (`GoApi.advanceInto_execF`).
The trees are cut by `rfl` lemmas (`rs_body`, `feLoop_eq`, `fe_body_split`): an edit of the Go functions breaks them.

  1. `rootSelf_sim` (`SimRootSelf`), on ANY store that holds the receiver (with or without the shared buffers):
       model `i.root pj = .ok (_, d)`  ⇔ returns `(TagToType[d.t], i, nil)` and the receiver's five fields ARE `d`
                                          (`d = {i with addNext := 0, lim := cur-1}.advanceInto`); only `#c1` is written besides;
       `.error _`                      ⇔ returns `(TypeNone, i, err)` in exactly the store it was entered with;
       `.panic`                        ⇔ panics (only `AdvanceInto` can: `off + addNext < 0`, word beyond the array).
     Fuel `i.lim + 8`; hypotheses `i.lim ≤ pj.tape.size`, `i.lim < 2^63` (as `GoApi.root_sim_exact`).  The returned `Type` is
     `TagToType[d.t]`, not the hand model's `d.type` (the difference recorded in GoApi: `rootWitness_*`); `FindElement`
     discards it.
  2. `findElement_sim` (`FEPost` = `GoFind.FPPost` + "the receiver `i` is as it was"; read as equivalences: `FEPost.iff`):
       model `.ok (ty, d)` ⇔ returns `(non-nil, nil)`: `[.bool true, .bool false]`, `dst.Type = ty`, `dst.Name` = last key,
                               `dst.Iter = d` (with the exception (A) of `FindPath`, below), tape unchanged;
       model `.error _`    ⇔ returns `[.bool b, .bool true]`, `b = true` if the caller's `dst` was non-nil;
       model `.panic`      ⇔ panics;   the interpreter is never stuck and never out of fuel, the model never out of fuel.
     For every `pj` with `BufOK pj`, every iterator `i` with `i.lim ≤ pj.tape.size`, `i.lim < 2^63`, `i.off < 2^63`, every path
     (also the empty one), both values of the hidden flag `dst == nil`, any caller destination (`FInv`), interpreter fuel
     `≥ 4·i.lim + 17`, model fuel `≥ 2·i.lim + 2` (`fuelOf pj` is).
     Termination (`mu cp = 2·cp.lim + [cp.t = TagEnd]`): the loop goes round again only through `case TagRoot` — the view
     shrinks to `Tape[:cur-1]`, `1 ≤ cur ≤ len` (`root_facts`) — or through `case TagEnd` with a tag other than `TagEnd`
     returned by `AdvanceInto`, which is then the tag of the cursor (`advanceInto_facts`): at most `2·lim + 2` turns.
  3. `go_findelement_source_tie`: both on the conventional stores (`feStore`), equivalences spelled out.

Store convention (`FInv`).  The flattened `dst *Element` is the hidden flag `dst==nil` and seven variables (`dst.Name`,
`dst.Type`, `dst.Iter.*`).  They must be BOUND also when `dst` is nil (to dummies): `callFun` copies them into the frame of
`Object.FindPath`, which "allocates" by overwriting them.  (`GoFind.DstIn` asks for `dst.Iter` only when `dst` is non-nil
because `FindPath` run alone reads nothing else; a caller going through `callFun` needs all seven.)

HYPOTHESES, with the reason.
  * `BufOK pj` — `Object.FindPath` → `stringByteAt` (buffer lengths are Go `int`s).
  * `i.lim ≤ pj.tape.size` — the iterator's view is a view of the tape.
  * `i.lim < 2^63`, `i.off < 2^63` — the model's `Nat` fields are Go `int`s (`uint64(len)`, `uint64(i.off)` in `Root`/`Object`).
    Needed for the iterator handed in only: every later `cp` the `Object` case sees stands on a live word (`off ≤ lim`).
  * NONE on `addNext`, `cur`, `t`: a negative `off + addNext` panics on both sides.

DIFFERENCES between model and source: NONE of its own.  Inherited, and visible in the statement:
  (A) of `GoFind` — key found, value = NOP words to the end of the view: Go returns `(TypeNone, nil)` without writing
      `dst.Iter`, the model reports `default`; stated as `dst.Iter = if d = default then D0 nil d0 else d`.
  The `Type` returned by `Root` (GoApi) is not observable here: `_, _, err := cp.Root(&cp)`.
Checked and agreeing exactly: the empty path (error before anything is read, on both sides at every turn); `cp := *i` (the
receiver is never written: `FEPost` says so); the error of `Object` returned as `(dst, err)`; `Root` on its own receiver
(errors leave `cp` alone; on success all five fields are the model's iterator); `tag == TagEnd` after `AdvanceInto`; the
default case.  The model's error KINDS are not visible to the interpreter, whose errors are booleans.

Reusable (namespace SJ.GoFindElem): `callFun_recv`/`backR_ret`/`recv_back` — a parameterless `*Iter` method called on ANY
local iterator `r` from ANY store (frame `GoApi.intoFrame`, buffers optional); `callAssign_into` (`tgt := r.AdvanceInto()`);
`copyFields_get_in`; `KL_findPath`; `call_object`, `call_rootSelf`, `retCall_findPath`.
-/
namespace SJ.GoFindElem
open SJ SJ.GoSem SJ.Generated SJ.GoIter SJ.GoObject

/-! ## calls of a receiver-only `Iter` method on a local iterator `r`, from any store -/

theorem dotField (pfx f : String) : pfx ++ "." ++ f = pfx ++ ("." ++ f) := String.append_assoc

/-- the receiver's fields copied into an empty frame -/
theorem copyFields_recv_in (e : Env) (r : String) (j : Iter) (hI : iterAt e r = some j) :
    copyFields e r [] "i" ["off", "addNext", "cur", "t", "lim"] = some (envOf "i" j) := by
  obtain ⟨h1, h2, h3, h4, h5⟩ := iterAt_get _ _ _ hI
  simp [copyFields, iterFields, dotField, h1, h2, h3, h4, h5, Env.set, envOf]

/-- … and back into the caller's store -/
theorem copyFields_recv_back (s' e : Env) (r : String) (j' : Iter) (hI : iterAt s' "i" = some j') :
    copyFields s' "i" e r ["off", "addNext", "cur", "t", "lim"] = some (setIter e r j') := by
  obtain ⟨h1, h2, h3, h4, h5⟩ := iterAt_get_i _ _ hI
  simp [copyFields, iterFields, dotField, h1, h2, h3, h4, h5, setIter]

/-- `callFun`'s own code after a receiver-only callee returned, called on the local iterator `r` -/
def backR (e : Env) (r : String) : Out → Out
  | .ret s' rs =>
    (match copyFields s'.env "i" e r ["off", "addNext", "cur", "t", "lim"] with
     | some e2 => .ret { env := copyGlobals s'.env e2 globalVars, tape := s'.tape } rs
     | none => .stuck "receiver back")
  | .normal s' =>
    (match copyFields s'.env "i" e r ["off", "addNext", "cur", "t", "lim"] with
     | some e2 => .ret { env := copyGlobals s'.env e2 globalVars, tape := s'.tape } []
     | none => .stuck "receiver back")
  | .brk _ | .cont _ => .stuck "break outside loop"
  | o => o

/-- `r.fn()` for a method `fn` of `*Iter` without parameters: the callee runs on `GoApi.intoFrame e j` (the receiver's
    fields and the caller's buffers, if it has any) -/
theorem callFun_recv (e : Env) (tape : Array UInt64) (r fn : String) (body : List Stmt) (j : Iter) (f : Nat)
    (hfn : goFuns fn = some { recv := "i", params := [], body := body }) (hI : iterAt e r = some j) :
    callFun goFuns f r fn [] [] ⟨e, tape⟩ = backR e r (exec goFuns f body ⟨GoApi.intoFrame e j, tape⟩) := by
  rw [callFun]
  simp only [hfn, evalEs, copyFields_recv_in e r j hI, copyPtrs, bindParams, copyPtrsBack, GoApi.intoFrame]
  generalize exec goFuns f body _ = out
  cases out <;> rfl

theorem backR_ret (e : Env) (r : String) (s' : St) (rs : List Val) (j' : Iter) (hI : iterAt s'.env "i" = some j') :
    backR e r (.ret s' rs) = .ret ⟨copyGlobals s'.env (setIter e r j') globalVars, s'.tape⟩ rs := by
  simp only [backR, copyFields_recv_back s'.env e r j' hI]

/-- the caller's store after the call: the iterator `r` is what the callee left in `i`; every other variable is as
    before, provided the callee left the buffers of its frame alone -/
theorem recv_back (e : Env) (r : String) (j j' : Iter) (s' : Env)
    (hG : ∀ k, k = "Strings.B" ∨ k = "Message" → s'.get k = (GoApi.intoFrame e j).get k)
    (hr : "Strings.B" ∉ fieldsOf r ∧ "Message" ∉ fieldsOf r) (hd : (fieldsOf r).Nodup) :
    iterAt (copyGlobals s' (setIter e r j') globalVars) r = some j' ∧
    ∀ k, k ∉ fieldsOf r → (copyGlobals s' (setIter e r j') globalVars).get k = e.get k := by
  constructor
  · rw [iterAt_congr (setIter e r j') _ r (fun k hk => GoPJForEach.copyGlobals_get_ne _ _ _ _ (by
      simp only [globalVars, List.mem_cons, List.not_mem_nil, or_false, not_or]
      exact ⟨fun h => hr.1 (h ▸ hk), fun h => hr.2 (h ▸ hk)⟩))]
    exact GoDelete.get_setIter_self e r j' hd
  · intro k hk
    rw [GoApi.copyGlobals_get]
    by_cases hg : k = "Strings.B" ∨ k = "Message"
    · have hne : (envOf "i" j).get k = none := by rcases hg with rfl | rfl <;> simp [envOf, Env.get]
      rw [if_pos hg, hG k hg, GoApi.intoFrame, GoApi.copyGlobals_get, if_pos hg, hne, get_setIter_ne _ _ _ _ hk]
      cases he : e.get k <;> simp
    · rw [if_neg hg, get_setIter_ne _ _ _ _ hk]

/-- `tgt := r.AdvanceInto()` from any store holding the iterator `r`: `r` advanced, the tag in `tgt`, every other
    variable untouched (also the shared buffers, if the store has them) -/
theorem callAssign_into (pj : PJ) (e : Env) (F : Nat) (r tgt : String) (d : Iter) (hD : iterAt e r = some d)
    (hl : d.lim ≤ pj.tape.size) (hf : fuelFor d + 1 ≤ F) (htgt : (tgt == "_") = false)
    (hr : "Strings.B" ∉ fieldsOf r ∧ "Message" ∉ fieldsOf r) (hd : (fieldsOf r).Nodup) (htr : tgt ∉ fieldsOf r) :
    match d.advanceInto pj with
    | .ok (d', t) => ∃ e', exec1 goFuns F (.callAssign [tgt] r "Iter.AdvanceInto" [] []) ⟨e, pj.tape⟩ =
          .normal ⟨e', pj.tape⟩ ∧
        iterAt e' r = some d' ∧ e'.get tgt = some (.u8 t) ∧ (∀ k, k ∉ tgt :: fieldsOf r → e'.get k = e.get k)
    | .panic => exec1 goFuns F (.callAssign [tgt] r "Iter.AdvanceInto" [] []) ⟨e, pj.tape⟩ = .panic
    | _ => False := by
  obtain ⟨f, rfl⟩ : ∃ f, F = f + 1 := ⟨F - 1, by omega⟩
  have hsim := GoApi.advanceInto_execF pj d (GoApi.intoFrame e d) hl f (by omega) (GoApi.intoFrame_iter e d)
  have hfn : goFuns "Iter.AdvanceInto" = some { recv := "i", params := [], body := goIter_AdvanceInto.body } := rfl
  rw [exec1, callFun_recv e pj.tape r _ _ d f hfn hD]
  generalize exec goFuns f goIter_AdvanceInto.body ⟨GoApi.intoFrame e d, pj.tape⟩ = out at hsim ⊢
  cases hr' : d.advanceInto pj with
  | ok p =>
    obtain ⟨d', tg⟩ := p
    rw [hr'] at hsim
    obtain ⟨s', rfl, hst, hI', hF⟩ := hsim
    rw [backR_ret e r s' _ d' hI']
    obtain ⟨k1, k2⟩ := recv_back e r d d' s'.env (fun k hk => hF k (by rcases hk with rfl | rfl <;> decide)) hr hd
    simp only [assignTargets, htgt, hst, Bool.false_eq_true, if_false]
    refine ⟨_, rfl, ?_, Env.get_set_self _ _ _, ?_⟩
    · rw [iterAt_set_ne _ _ _ _ htr]; exact k1
    · intro k hk
      simp only [List.mem_cons, not_or] at hk
      rw [Env.get_set_ne _ _ (Ne.symm hk.1)]
      exact k2 k hk.2
  | panic =>
    rw [hr'] at hsim
    simp only [GoApi.SimTF] at hsim
    subst hsim
    rfl
  | error _ => rw [hr'] at hsim; exact hsim.elim
  | diverge => rw [hr'] at hsim; exact hsim.elim

/-! ## `Iter.Root#self`: `cp.Root(&cp)`, the destination IS the receiver -/

section rootSelf
attribute [local simp] exec exec1 execCases evalE evalEs isOneOf binop convert ofE copyFields bindParams
  iterFields runFun tblLookup Env.get_set

def rsPre : List Stmt := goIter_Root_self.body.take 5
def rsCall : Stmt := .callAssign ["#c1"] "i" "Iter.AdvanceInto" [] []
def rsRet : Stmt := .ret [(.tbl "TagToType" (.v "#c1")), (.bool true), (.bool false)]
theorem rs_body : goIter_Root_self.body = rsPre ++ [rsCall, rsRet] := rfl

theorem rs_pre_ok (i : Iter) (e : Env) (tape : Array UInt64) (fuel : Nat)
    (hI : iterAt e "i" = some i) (hlim : i.lim < 2^63)
    (ht : i.t = 114) (h1 : ¬ i.cur.toNat > i.lim) (h0 : ¬ i.cur = 0) :
    ∃ e2, exec goFuns fuel rsPre ⟨e, tape⟩ = .normal ⟨e2, tape⟩ ∧
      iterAt e2 "i" = some { i with addNext := 0, lim := i.cur.toNat - 1 } ∧
      (∀ k, k ∉ fieldsOf "i" → e2.get k = e.get k) := by
  obtain ⟨g1, g2, g3, g4, g5⟩ := iterAt_get_i _ _ hI
  have h3 := GoApi.sub_one_toInt i.cur h0 (by omega)
  have h4 : ((i.cur.toNat - 1 : Nat) : Int) ≤ i.lim := by omega
  have h1' : ¬ i.lim < i.cur.toNat := by omega
  have hb0 : (i.cur == 0) = false := by simp [h0]
  refine ⟨_, by simp [rsPre, goIter_Root_self, g1, g2, g3, g4, g5, ht, h1', h0, hb0, GoApi.ofInt_lt_nat _ _ hlim, h3, h4]; rfl,
    ?_, ?_⟩
  · apply iterAt_of_gets <;> simp [Env.get_set, g1, g2, g3, g4, g5, ht]
  · intro k hk
    simp only [fieldsOf, List.mem_cons, List.not_mem_nil, or_false, not_or, String.reduceAppend] at hk
    obtain ⟨b1, b2, b3, b4, b5⟩ := hk
    simp [Env.get_set, Ne.symm b1, Ne.symm b2, Ne.symm b3, Ne.symm b4, Ne.symm b5]

/-- `Iter.Root#self` against the model's `i.root pj`:
    * `.ok (_, d)`: returns `(TagToType[d.t], i, nil)` and the RECEIVER is now `d` (the model's returned iterator: the
      restricted copy advanced into the root); nothing else but the scratch variable `#c1` is written;
    * `.error _`: returns `(TypeNone, i, err)` with the store — the receiver included — exactly as it was;
    * `.panic`: panics. -/
def SimRootSelf (tape : Array UInt64) (e : Env) (o : Out) (r : Res (UInt8 × Iter)) : Prop :=
  match r with
  | .ok (_, d) => ∃ s, o = .ret s [.u8 (tagToType d.t), .bool true, .bool false] ∧ s.tape = tape ∧
      iterAt s.env "i" = some d ∧ (∀ k, k ∉ "#c1" :: fieldsOf "i" → s.env.get k = e.get k)
  | .error _ => o = .ret ⟨e, tape⟩ [.u8 0, .bool true, .bool true]
  | .panic => o = .panic
  | .diverge => False

/-- **`Iter.Root#self` (`cp.Root(&cp)`) IS `Iter.root`, the result written over the receiver**: on any store that holds
    the receiver.  Fuel `i.lim + 8`.  The returned `Type` is `TagToType[d.t]` as for `Root(dst)` (`GoApi.root_sim_exact`;
    the hand model's `d.type` differs on `GoApi.rootWitness*`; `FindElement` ignores the type). -/
theorem rootSelf_sim (pj : PJ) (i : Iter) (e : Env) (fuel : Nat) (hI : iterAt e "i" = some i)
    (hl : i.lim ≤ pj.tape.size) (hlim : i.lim < 2^63) (hf : i.lim + 8 ≤ fuel) :
    SimRootSelf pj.tape e (runFun goFuns goIter_Root_self fuel ⟨e, pj.tape⟩) (i.root pj) := by
  obtain ⟨g1, g2, g3, g4, g5⟩ := iterAt_get_i _ _ hI
  unfold Iter.root
  simp only [tagRoot, cTagRoot]
  by_cases ht : i.t = 114
  · by_cases h1 : i.cur.toNat > i.lim
    · have h1' : i.lim < i.cur.toNat := h1
      simp [goIter_Root_self, g3, g4, g5, ht, h1, h1', GoApi.ofInt_lt_nat _ _ hlim, SimRootSelf]
    · by_cases h0 : i.cur = 0
      · have h1' : ¬ i.lim < i.cur.toNat := h1
        simp [goIter_Root_self, g3, g4, g5, ht, h1, h1', h0, GoApi.ofInt_lt_nat _ _ hlim, SimRootSelf]
      · obtain ⟨e2, hpre, hI2, hfr2⟩ := rs_pre_ok i e pj.tape fuel hI hlim ht h1 h0
        have hb0 : (i.cur == 0) = false := by simp [h0]
        have hc0 : i.cur.toNat ≠ 0 := fun hh => h0 (UInt64.toNat_inj.mp hh)
        have hcall := callAssign_into pj e2 fuel "i" "#c1" _ hI2 (by simp only; omega)
          (by unfold fuelFor; simp only; omega) (by decide) (by decide) (by decide) (by decide)
        have hkey : exec goFuns fuel goIter_Root_self.body ⟨e, pj.tape⟩ =
            (match exec1 goFuns fuel rsCall ⟨e2, pj.tape⟩ with
             | .normal s' => exec goFuns fuel [rsRet] s'
             | o => o) := by
          rw [rs_body, GoIter.exec_append, hpre]
          simp only []
          rw [exec]
          generalize exec1 goFuns fuel rsCall _ = out
          cases out <;> rfl
        have ht' : (i.t != 114) = false := by simp [ht]
        simp only [ht', Bool.false_eq_true, if_false, h1, hb0, or_self]
        unfold runFun
        rw [hkey]
        unfold rsCall
        cases hr : Iter.advanceInto pj { i with addNext := 0, lim := i.cur.toNat - 1 } with
        | ok r =>
          obtain ⟨d', tg⟩ := r
          rw [hr] at hcall
          obtain ⟨e3, hx, hD3, hc3, hfr3⟩ := hcall
          have htg := GoApi.advanceInto_tag pj _ _ _ hr
          rw [hx]
          simp only [Res.bind_ok, SimRootSelf]
          refine ⟨⟨e3, pj.tape⟩, ?_, rfl, hD3, ?_⟩
          · simp [rsRet, hc3, htg, tagToType]
          · intro k hk
            rw [hfr3 k hk]
            exact hfr2 k (fun hh => hk (List.mem_cons_of_mem _ hh))
        | panic =>
          rw [hr] at hcall
          rw [hcall]
          simp [Res.bind, bind, SimRootSelf]
        | error _ => rw [hr] at hcall; exact hcall.elim
        | diverge => rw [hr] at hcall; exact hcall.elim
  · have ht' : (i.t != 114) = true := by simp [ht]
    simp [goIter_Root_self, g4, ht, ht', SimRootSelf]

end rootSelf

/-! ## variables stay bound through `Object.FindPath` (its error returns say nothing about the store) -/

open SJ.GoPJForEach (KS KL) in
theorem KL_findPath : KL goObject_FindPath.body := by
  unfold goObject_FindPath
  repeat (first
    | exact KL.nil
    | apply KL.cons
    | apply KS.assign | apply KS.ret | exact KS.brk | exact KS.cont | apply KS.setLen | apply KS.copyStruct
    | apply KS.call | apply GoArrMarshal.KS_callAssign | apply KS.ite | apply KS.loop)

/-- what `copyFields` writes: the value it read -/
theorem copyFields_get_in (from_ : Env) (p q : String) : ∀ (fs : List String) (to e' : Env),
    copyFields from_ p to q fs = some e' →
    (∀ g ∈ fs, ∀ g' ∈ fs, q ++ "." ++ g = q ++ "." ++ g' → g = g') →
    ∀ f ∈ fs, e'.get (q ++ "." ++ f) = from_.get (p ++ "." ++ f) := by
  intro fs
  induction fs with
  | nil => intro to e' _ _ f hf; cases hf
  | cons a r ih =>
    intro to e' h hinj f hf
    rw [copyFields] at h
    split at h
    · next v hv =>
      by_cases hfr : f ∈ r
      · exact ih _ _ h (fun g hg g' hg' => hinj g (List.mem_cons_of_mem _ hg) g' (List.mem_cons_of_mem _ hg')) f hfr
      · have hfa : f = a := by
          rcases List.mem_cons.mp hf with h' | h'
          · exact h'
          · exact absurd h' hfr
        subst hfa
        rw [GoFind.copyFields_get_ne _ _ _ _ _ _ h _ (fun g hg hh =>
          hfr (hinj g (List.mem_cons_of_mem _ hg) f (List.mem_cons_self ..) hh ▸ hg)), Env.get_set_self, hv]
    · cases h

/-! ## the store of `FindElement` -/

/-- what the store of `i.FindElement(dst, path...)` holds, at entry and at every turn of its loop: the receiver `i` (never
    written), the path, the flattened `dst *Element` — the hidden flag `dst==nil` and the seven fields (bound to dummies when
    `dst` is nil: `callFun` copies them into the frame of `Object.FindPath`, which allocates by overwriting them) — and the two
    shared buffers -/
structure FInv (pj : PJ) (i : Iter) (path : List Bytes) (nil : Bool) (d0 : Iter) (e : Env) : Prop where
  recv : iterAt e "i" = some i
  path : e.get "path" = some (.keys path)
  hnil : e.get "dst==nil" = some (.bool nil)
  dst : iterAt e "dst.Iter" = some d0
  name : ∃ x, e.get "dst.Name" = some x
  type : ∃ x, e.get "dst.Type" = some x
  sb : e.get "Strings.B" = some (.bytes pj.strings)
  ms : e.get "Message" = some (.bytes pj.msg)

def feKeys : List String :=
  fieldsOf "i" ++ fieldsOf "dst.Iter" ++ ["path", "dst==nil", "dst.Name", "dst.Type", "Strings.B", "Message"]

theorem FInv.congr {pj : PJ} {i : Iter} {path : List Bytes} {nil : Bool} {d0 : Iter} {e e' : Env}
    (h : FInv pj i path nil d0 e) (hk : ∀ k, k ∈ feKeys → e'.get k = e.get k) : FInv pj i path nil d0 e' := by
  obtain ⟨x, hx⟩ := h.name
  obtain ⟨y, hy⟩ := h.type
  refine ⟨?_, ?_, ?_, ?_, ⟨x, ?_⟩, ⟨y, ?_⟩, ?_, ?_⟩
  · rw [iterAt_congr e e' "i" (fun k hk' => hk k (by simp [feKeys, hk']))]; exact h.recv
  · rw [hk _ (by decide)]; exact h.path
  · rw [hk _ (by decide)]; exact h.hnil
  · rw [iterAt_congr e e' "dst.Iter" (fun k hk' => hk k (by simp [feKeys, hk']))]; exact h.dst
  · rw [hk _ (by decide)]; exact hx
  · rw [hk _ (by decide)]; exact hy
  · rw [hk _ (by decide)]; exact h.sb
  · rw [hk _ (by decide)]; exact h.ms

/-- outcome of `FindElement` against the model: `GoFind.FPPost` (the relation of `Object.FindPath`), and the receiver is as
    it was (the function works on the copy `cp`) -/
def FEPost (pj : PJ) (lk : Bytes) (nil : Bool) (D i : Iter) (o : Out) : Res (UInt8 × Iter) → Prop
  | .ok (ty, d) => ∃ e', o = .ret ⟨e', pj.tape⟩ [.bool true, .bool false] ∧ e'.get "dst.Type" = some (.u8 ty) ∧
      e'.get "dst.Name" = some (.bytes lk) ∧ iterAt e' "dst.Iter" = some (if d = default then D else d) ∧
      (d = default → ty = typeNone) ∧ iterAt e' "i" = some i
  | .error _ => ∃ e' b, o = .ret ⟨e', pj.tape⟩ [.bool b, .bool true] ∧ (nil = false → b = true) ∧ iterAt e' "i" = some i
  | .panic => o = .panic
  | .diverge => False

theorem FEPost.toFP {pj : PJ} {lk : Bytes} {nil : Bool} {D i : Iter} {o : Out} {r : Res (UInt8 × Iter)}
    (h : FEPost pj lk nil D i o r) : GoFind.FPPost pj lk nil D o r := by
  cases r with
  | ok p => obtain ⟨ty, d⟩ := p; obtain ⟨e', h1, h2, h3, h4, h5, _⟩ := h; exact ⟨e', h1, h2, h3, h4, h5⟩
  | error _ => obtain ⟨e', b, h1, h2, _⟩ := h; exact ⟨e', b, h1, h2⟩
  | panic => exact h
  | diverge => exact h

/-! ## `return obj.FindPath(dst, path...)` -/

def dstFields : List String := ["Name", "Type", "Iter.off", "Iter.addNext", "Iter.cur", "Iter.t", "Iter.lim"]

/-- the frame `callFun` builds for `o.FindPath(dst, path...)` -/
def fpFrame (pj : PJ) (v : View) (nm tv : Val) (d0 : Iter) (path : List Bytes) (nil : Bool) : Env :=
  [("o.off", .int v.off), ("o.lim", .int v.lim), ("dst.Name", nm), ("dst.Type", tv)] ++ envOf "dst.Iter" d0 ++ bufEnv pj ++
    [("path", .keys path), ("dst==nil", .bool nil)]

def backFP (e : Env) : Out → Out
  | .ret s' rs =>
    (match copyFields s'.env "o" e "o" ["off", "lim"] with
     | some e2 =>
       (match copyPtrsBack s'.env e2 ["dst"] [("dst", dstFields)] with
        | some e3 => .ret { env := copyGlobals s'.env e3 globalVars, tape := s'.tape } rs
        | none => .stuck "pointer arguments back")
     | none => .stuck "receiver back")
  | .normal s' =>
    (match copyFields s'.env "o" e "o" ["off", "lim"] with
     | some e2 =>
       (match copyPtrsBack s'.env e2 ["dst"] [("dst", dstFields)] with
        | some e3 => .ret { env := copyGlobals s'.env e3 globalVars, tape := s'.tape } []
        | none => .stuck "pointer arguments back")
     | none => .stuck "receiver back")
  | .brk _ | .cont _ => .stuck "break outside loop"
  | o => o

theorem callFun_fp (pj : PJ) (e : Env) (tape : Array UInt64) (f : Nat) (i : Iter) (v : View) (path : List Bytes)
    (nil : Bool) (d0 : Iter) (nm tv : Val) (inv : FInv pj i path nil d0 e) (hV : viewAt e "o" = some v)
    (hnm : e.get "dst.Name" = some nm) (htv : e.get "dst.Type" = some tv) :
    callFun goFuns f "o" "Object.FindPath" ["dst"] [.v "path", .v "dst==nil"] ⟨e, tape⟩ =
      backFP e (exec goFuns f goObject_FindPath.body ⟨fpFrame pj v nm tv d0 path nil, tape⟩) := by
  obtain ⟨o1, o2⟩ := viewAt_get_o _ _ hV
  obtain ⟨d1, d2, d3, d4, d5⟩ := iterAt_get _ _ _ inv.dst
  simp only [String.reduceAppend] at d1 d2 d3 d4 d5
  have hfn : goFuns "Object.FindPath" = some {
      recv := "o"
      params := ["path", "dst==nil"]
      fields := ["off", "lim"]
      ptrParams := [("dst", dstFields)]
      body := goObject_FindPath.body } := rfl
  rw [callFun]
  simp [hfn, dstFields, o1, o2, d1, d2, d3, d4, d5, hnm, htv, inv.path, inv.hnil, inv.sb, inv.ms, copyPtrs, copyFields,
    bindParams, evalEs, evalE, copyGlobals, globalVars, Env.set, Env.get, fpFrame, envOf, bufEnv, backFP]
  generalize exec goFuns f _ _ = out
  cases out <;> rfl

/-- the variables `callFun` copies back out of the frame of `FindPath` -/
def fpKeys : List String :=
  ["o.off", "o.lim", "dst.Name", "dst.Type", "dst.Iter.off", "dst.Iter.addNext", "dst.Iter.cur", "dst.Iter.t", "dst.Iter.lim"]

theorem fpFrame_bound (pj : PJ) (v : View) (nm tv : Val) (d0 : Iter) (path : List Bytes) (nil : Bool) :
    ∀ k ∈ fpKeys, (fpFrame pj v nm tv d0 path nil).get k ≠ none := by
  intro k hk
  simp only [fpKeys, List.mem_cons, List.not_mem_nil, or_false] at hk
  rcases hk with rfl | rfl | rfl | rfl | rfl | rfl | rfl | rfl | rfl <;> simp [fpFrame, envOf, bufEnv, Env.get]

/-- the caller's store after `FindPath` returned in a store `e'` that still binds what was copied in: `*dst` is what the
    callee left, everything but `o`, `*dst` and the buffers is as before -/
theorem backFP_ret (e e' : Env) (tape : Array UInt64) (rs : List Val) (hb : ∀ k ∈ fpKeys, e'.get k ≠ none) :
    ∃ E, backFP e (.ret ⟨e', tape⟩ rs) = .ret ⟨E, tape⟩ rs ∧
      (∀ k ∈ fpKeys.drop 2, E.get k = e'.get k) ∧
      (∀ k, k ∉ fpKeys → k ∉ globalVars → E.get k = e.get k) := by
  obtain ⟨e2, he2, _⟩ := GoPJForEach.copyFields_defined e' "o" "o" ["off", "lim"] e (by
    intro f hf
    simp only [List.mem_cons, List.not_mem_nil, or_false] at hf
    rcases hf with rfl | rfl
    · exact hb "o.off" (by decide)
    · exact hb "o.lim" (by decide))
  obtain ⟨e3, he3, _⟩ := GoPJForEach.copyFields_defined e' "dst" "dst" dstFields e2 (by
    intro f hf
    simp only [dstFields, List.mem_cons, List.not_mem_nil, or_false] at hf
    rcases hf with rfl | rfl | rfl | rfl | rfl | rfl | rfl <;> exact hb _ (by decide))
  refine ⟨copyGlobals e' e3 globalVars, by simp [backFP, he2, copyPtrsBack, he3], ?_, ?_⟩
  · intro k hk
    have hin := GoFindElem.copyFields_get_in e' "dst" "dst" dstFields e2 e3 he3 (by decide)
    simp only [fpKeys, List.drop, List.mem_cons, List.not_mem_nil, or_false] at hk
    rcases hk with rfl | rfl | rfl | rfl | rfl | rfl | rfl
    · rw [GoPJForEach.copyGlobals_get_ne _ _ _ _ (by decide)]; exact hin "Name" (by decide)
    · rw [GoPJForEach.copyGlobals_get_ne _ _ _ _ (by decide)]; exact hin "Type" (by decide)
    · rw [GoPJForEach.copyGlobals_get_ne _ _ _ _ (by decide)]; exact hin "Iter.off" (by decide)
    · rw [GoPJForEach.copyGlobals_get_ne _ _ _ _ (by decide)]; exact hin "Iter.addNext" (by decide)
    · rw [GoPJForEach.copyGlobals_get_ne _ _ _ _ (by decide)]; exact hin "Iter.cur" (by decide)
    · rw [GoPJForEach.copyGlobals_get_ne _ _ _ _ (by decide)]; exact hin "Iter.t" (by decide)
    · rw [GoPJForEach.copyGlobals_get_ne _ _ _ _ (by decide)]; exact hin "Iter.lim" (by decide)
  · intro k hk hg
    rw [GoPJForEach.copyGlobals_get_ne _ _ _ _ hg,
      GoFind.copyFields_get_ne _ _ _ _ _ _ he3 k (by
        intro f hf hh
        apply hk
        simp only [dstFields, List.mem_cons, List.not_mem_nil, or_false] at hf
        rcases hf with rfl | rfl | rfl | rfl | rfl | rfl | rfl <;> (rw [← hh]; decide)),
      GoFind.copyFields_get_ne _ _ _ _ _ _ he2 k (by
        intro f hf hh
        apply hk
        simp only [List.mem_cons, List.not_mem_nil, or_false] at hf
        rcases hf with rfl | rfl <;> (rw [← hh]; decide))]

theorem fpFrame_dstIn (pj : PJ) (v : View) (nm tv : Val) (d0 : Iter) (path : List Bytes) (nil : Bool) :
    GoFind.DstIn pj v nil d0 (fpFrame pj v nm tv d0 path nil) := by
  refine ⟨⟨?_, ?_, ?_, ?_⟩, ?_, fun _ => ?_⟩ <;> simp [fpFrame, bufEnv, envOf, Env.get, iterAt]

/-- **`return obj.FindPath(dst, path...)`** from the store of `FindElement`, against `View.findPathTop` -/
theorem retCall_findPath (pj : PJ) (hb : BufOK pj) (e : Env) (F : Nat) (i : Iter) (v : View) (path : List Bytes)
    (nil : Bool) (d0 : Iter) (inv : FInv pj i path nil d0 e) (hV : viewAt e "o" = some v) (hl : v.lim ≤ pj.tape.size)
    (hf : 2 * v.lim + 12 ≤ F) :
    FEPost pj (GoFind.pathLast path) nil (GoFind.D0 nil d0) i
      (exec1 goFuns F (.retCall "o" "Object.FindPath" ["dst"] [.v "path", .v "dst==nil"]) ⟨e, pj.tape⟩)
      (View.findPathTop pj v path) := by
  obtain ⟨f, rfl⟩ : ∃ f, F = f + 1 := ⟨F - 1, by omega⟩
  obtain ⟨nm, hnm⟩ := inv.name
  obtain ⟨tv, htv⟩ := inv.type
  rw [exec1, callFun_fp pj e pj.tape f i v path nil d0 nm tv inv hV hnm htv]
  have hsim := GoFind.findPath_sim pj hb v hl path nil d0 _ (fpFrame_dstIn pj v nm tv d0 path nil)
    (by simp [fpFrame, bufEnv, envOf, Env.get]) f (by omega)
  have hkeep := KL_findPath f ⟨fpFrame pj v nm tv d0 path nil, pj.tape⟩
  have hbnd := fpFrame_bound pj v nm tv d0 path nil
  have hrecv : ∀ E : Env, (∀ k, k ∉ fpKeys → k ∉ globalVars → E.get k = e.get k) → iterAt E "i" = some i := by
    intro E hE
    rw [iterAt_congr e E "i" (fun k hk => hE k (by revert k; decide) (by revert k; decide))]
    exact inv.recv
  cases hr : View.findPathTop pj v path with
  | ok p =>
    obtain ⟨ty, d⟩ := p
    rw [hr] at hsim
    obtain ⟨e', hrun, h1, h2, h3, h4⟩ := hsim
    have hx := GoMarshal.runFun_ret_inv hrun (by simp)
    rw [hx] at hkeep ⊢
    obtain ⟨E, hE, hin, hout⟩ := backFP_ret e e' pj.tape _ (fun k hk => hkeep k (hbnd k hk))
    refine ⟨E, hE, ?_, ?_, ?_, h4, hrecv E hout⟩
    · rw [hin _ (by decide)]; exact h1
    · rw [hin _ (by decide)]; exact h2
    · rw [iterAt_congr e' E "dst.Iter" (fun k hk => hin k (by revert k; decide))]; exact h3
  | error err =>
    rw [hr] at hsim
    obtain ⟨e', b, hrun, h1⟩ := hsim
    have hx := GoMarshal.runFun_ret_inv hrun (by simp)
    rw [hx] at hkeep ⊢
    obtain ⟨E, hE, hin, hout⟩ := backFP_ret e e' pj.tape _ (fun k hk => hkeep k (hbnd k hk))
    exact ⟨E, b, hE, h1, hrecv E hout⟩
  | panic =>
    rw [hr] at hsim
    simp only [GoFind.FPPost] at hsim
    rw [GoMarshal.runFun_panic_inv hsim]
    rfl
  | diverge => rw [hr] at hsim; exact hsim.elim

/-! ## `obj, err := cp.Object(&o)` -/

/-- the frame `callFun` builds for `cp.Object(&o)` with a zero `o` -/
def objFrame (pj : PJ) (cp : Iter) : Env :=
  envOf "i" cp ++ [("dst.off", .int 0), ("dst.lim", .int 0)] ++ bufEnv pj ++ [("dst==nil", .bool false)]

def objCall : Stmt := .callAssign ["obj", "err"] "cp" "Iter.Object" ["o"] [(.bool false)]

def backObj (e : Env) : Out → Out
  | .ret s' rs =>
    (match copyFields s'.env "i" e "cp" ["off", "addNext", "cur", "t", "lim"] with
     | some e2 =>
       (match copyPtrsBack s'.env e2 ["o"] [("dst", ["off", "lim"])] with
        | some e3 => .ret { env := copyGlobals s'.env e3 globalVars, tape := s'.tape } rs
        | none => .stuck "pointer arguments back")
     | none => .stuck "receiver back")
  | .normal s' =>
    (match copyFields s'.env "i" e "cp" ["off", "addNext", "cur", "t", "lim"] with
     | some e2 =>
       (match copyPtrsBack s'.env e2 ["o"] [("dst", ["off", "lim"])] with
        | some e3 => .ret { env := copyGlobals s'.env e3 globalVars, tape := s'.tape } []
        | none => .stuck "pointer arguments back")
     | none => .stuck "receiver back")
  | .brk _ | .cont _ => .stuck "break outside loop"
  | o => o

theorem callFun_obj (pj : PJ) (e : Env) (tape : Array UInt64) (f : Nat) (cp : Iter) (hC : iterAt e "cp" = some cp)
    (hO1 : e.get "o.off" = some (.int 0)) (hO2 : e.get "o.lim" = some (.int 0))
    (hS : e.get "Strings.B" = some (.bytes pj.strings)) (hM : e.get "Message" = some (.bytes pj.msg)) :
    callFun goFuns f "cp" "Iter.Object" ["o"] [(.bool false)] ⟨e, tape⟩ =
      backObj e (exec goFuns f goIter_Object.body ⟨objFrame pj cp, tape⟩) := by
  obtain ⟨c1, c2, c3, c4, c5⟩ := iterAt_get _ _ _ hC
  simp only [String.reduceAppend] at c1 c2 c3 c4 c5
  have hfn : goFuns "Iter.Object" = some {
      recv := "i"
      params := ["dst==nil"]
      ptrParams := [("dst", ["off", "lim"])]
      body := goIter_Object.body } := rfl
  rw [callFun]
  simp [hfn, c1, c2, c3, c4, c5, hO1, hO2, hS, hM, copyPtrs, copyFields, bindParams, evalEs, evalE, copyGlobals,
    globalVars, Env.set, Env.get, objFrame, envOf, bufEnv, backObj]
  generalize exec goFuns f _ _ = out
  cases out <;> rfl

theorem backObj_ret (e : Env) (s : St) (rs : List Val) (cp : Iter) (a b : Int) (S M : Val)
    (hI : iterAt s.env "i" = some cp) (ha : s.env.get "dst.off" = some (.int a)) (hb : s.env.get "dst.lim" = some (.int b))
    (hS : s.env.get "Strings.B" = some S) (hM : s.env.get "Message" = some M) :
    backObj e (.ret s rs) =
      .ret ⟨((((setIter e "cp" cp).set "o.off" (.int a)).set "o.lim" (.int b)).set "Strings.B" S).set "Message" M,
        s.tape⟩ rs := by
  simp only [backObj, copyFields_recv_back s.env e "cp" cp hI]
  simp [copyPtrsBack, copyFields, ha, hb, copyGlobals, globalVars, hS, hM]

theorem agree_set_same {e E : Env} {k : String} {x : Val} (hx : e.get k = some x) (k' : String)
    (h : E.get k' = e.get k') : (E.set k x).get k' = e.get k' := by
  rw [Env.get_set]
  split
  · next hk => subst hk; exact hx.symm
  · exact h

theorem setIter_same (e : Env) (r : String) (j : Iter) (hI : iterAt e r = some j) (k : String) :
    (setIter e r j).get k = e.get k := by
  obtain ⟨c1, c2, c3, c4, c5⟩ := iterAt_get _ _ _ hI
  unfold setIter
  exact agree_set_same c5 k (agree_set_same c4 k (agree_set_same c3 k (agree_set_same c2 k (agree_set_same c1 k rfl))))

/-- the variables the statement `obj, err := cp.Object(&o)` changes -/
def objTouched : List String := ["obj", "err", "o.off", "o.lim"]

/-- **`obj, err := cp.Object(&o)`** against `Iter.object`: on success `o` is the view; nothing else changes -/
theorem call_object (pj : PJ) (e : Env) (F : Nat) (cp : Iter) (hC : iterAt e "cp" = some cp)
    (hO1 : e.get "o.off" = some (.int 0)) (hO2 : e.get "o.lim" = some (.int 0))
    (hS : e.get "Strings.B" = some (.bytes pj.strings)) (hM : e.get "Message" = some (.bytes pj.msg))
    (hlim : cp.lim < 2^63) (hoff : cp.off < 2^63) (hF : 1 ≤ F) :
    match cp.object with
    | .ok v => ∃ e', exec1 goFuns F objCall ⟨e, pj.tape⟩ = .normal ⟨e', pj.tape⟩ ∧ viewAt e' "o" = some v ∧
        e'.get "err" = some (.bool false) ∧ (∀ k, k ∉ objTouched → e'.get k = e.get k)
    | .error _ => ∃ e', exec1 goFuns F objCall ⟨e, pj.tape⟩ = .normal ⟨e', pj.tape⟩ ∧
        e'.get "err" = some (.bool true) ∧ (∀ k, k ∉ objTouched → e'.get k = e.get k)
    | .panic => exec1 goFuns F objCall ⟨e, pj.tape⟩ = .panic
    | .diverge => False := by
  obtain ⟨f, rfl⟩ : ∃ f, F = f + 1 := ⟨F - 1, by omega⟩
  have hI0 : iterAt (objFrame pj cp) "i" = some cp := by simp [objFrame, envOf, bufEnv, Env.get, iterAt]
  have hsim := GoApi.object_sim cp false (objFrame pj cp) pj.tape f hI0
    (by simp [objFrame, envOf, bufEnv, Env.get]) hlim hoff
  have hS0 : (objFrame pj cp).get "Strings.B" = some (.bytes pj.strings) := by simp [objFrame, envOf, bufEnv, Env.get]
  have hM0 : (objFrame pj cp).get "Message" = some (.bytes pj.msg) := by simp [objFrame, envOf, bufEnv, Env.get]
  have hkeep : ∀ (a b : Int) (x y : Val) (k : String), k ∉ objTouched →
      (((((((setIter e "cp" cp).set "o.off" (.int a)).set "o.lim" (.int b)).set "Strings.B" (.bytes pj.strings)).set
        "Message" (.bytes pj.msg)).set "obj" x).set "err" y).get k = e.get k := by
    intro a b x y k hk
    simp only [objTouched, List.mem_cons, List.not_mem_nil, or_false, not_or] at hk
    obtain ⟨k1, k2, k3, k4⟩ := hk
    rw [Env.get_set_ne _ _ (Ne.symm k2), Env.get_set_ne _ _ (Ne.symm k1)]
    apply agree_set_same hM
    apply agree_set_same hS
    rw [Env.get_set_ne _ _ (Ne.symm k4), Env.get_set_ne _ _ (Ne.symm k3)]
    exact setIter_same e "cp" cp hC k
  rw [objCall, exec1, callFun_obj pj e pj.tape f cp hC hO1 hO2 hS hM]
  cases hr : cp.object with
  | ok v =>
    rw [hr] at hsim
    obtain ⟨s, hrun, hst, hI', hV', hN', hfr⟩ := hsim
    obtain ⟨v1, v2⟩ := viewAt_get _ _ _ hV'
    simp only [String.reduceAppend] at v1 v2
    rw [GoMarshal.runFun_ret_inv hrun (by simp),
      backObj_ret e s _ cp _ _ _ _ hI' v1 v2 (by rw [hfr _ (by decide)]; exact hS0) (by rw [hfr _ (by decide)]; exact hM0)]
    simp only [assignTargets, hst, show ("obj" == "_") = false from by decide, show ("err" == "_") = false from by decide,
      Bool.false_eq_true, if_false]
    refine ⟨_, rfl, ?_, Env.get_set_self _ _ _, hkeep _ _ _ _⟩
    apply viewAt_of_gets <;> simp [Env.get_set]
  | error err =>
    rw [hr] at hsim
    obtain ⟨s, hrun, hst, hfr⟩ := hsim
    have hI' : iterAt s.env "i" = some cp := by
      rw [iterAt_congr (objFrame pj cp) s.env "i" (fun k hk => hfr k (by revert k; decide))]; exact hI0
    rw [GoMarshal.runFun_ret_inv hrun (by simp),
      backObj_ret e s _ cp 0 0 _ _ hI' (by rw [hfr _ (by decide)]; simp [objFrame, envOf, bufEnv, Env.get])
        (by rw [hfr _ (by decide)]; simp [objFrame, envOf, bufEnv, Env.get])
        (by rw [hfr _ (by decide)]; exact hS0) (by rw [hfr _ (by decide)]; exact hM0)]
    simp only [assignTargets, hst, show ("obj" == "_") = false from by decide, show ("err" == "_") = false from by decide,
      Bool.false_eq_true, if_false]
    exact ⟨_, rfl, Env.get_set_self _ _ _, hkeep _ _ _ _⟩
  | panic =>
    rw [hr] at hsim
    simp only [GoApi.SimView] at hsim
    rw [GoMarshal.runFun_panic_inv hsim]
    rfl
  | diverge => rw [hr] at hsim; exact hsim.elim

/-! ## `_, _, err := cp.Root(&cp)` -/

def rootCall : Stmt := .callAssign ["_", "_", "err"] "cp" "Iter.Root#self" [] []

/-- **`_, _, err := cp.Root(&cp)`** against `Iter.root`: on success `cp` IS the model's returned iterator; on error `cp` is
    as it was; nothing else changes but `err` -/
theorem call_rootSelf (pj : PJ) (e : Env) (F : Nat) (cp : Iter) (hC : iterAt e "cp" = some cp)
    (hl : cp.lim ≤ pj.tape.size) (hlim : cp.lim < 2^63) (hF : cp.lim + 9 ≤ F) :
    match cp.root pj with
    | .ok (_, d) => ∃ e', exec1 goFuns F rootCall ⟨e, pj.tape⟩ = .normal ⟨e', pj.tape⟩ ∧ iterAt e' "cp" = some d ∧
        e'.get "err" = some (.bool false) ∧ (∀ k, k ∉ "err" :: fieldsOf "cp" → e'.get k = e.get k)
    | .error _ => ∃ e', exec1 goFuns F rootCall ⟨e, pj.tape⟩ = .normal ⟨e', pj.tape⟩ ∧ iterAt e' "cp" = some cp ∧
        e'.get "err" = some (.bool true) ∧ (∀ k, k ∉ "err" :: fieldsOf "cp" → e'.get k = e.get k)
    | .panic => exec1 goFuns F rootCall ⟨e, pj.tape⟩ = .panic
    | .diverge => False := by
  obtain ⟨f, rfl⟩ : ∃ f, F = f + 1 := ⟨F - 1, by omega⟩
  have hsim := rootSelf_sim pj cp (GoApi.intoFrame e cp) f (GoApi.intoFrame_iter e cp) hl hlim (by omega)
  have hfn : goFuns "Iter.Root#self" = some { recv := "i", params := [], body := goIter_Root_self.body } := rfl
  have hfin : ∀ (E : Env) (j : Iter) (x : Val), iterAt E "cp" = some j → (∀ k, k ∉ fieldsOf "cp" → E.get k = e.get k) →
      iterAt (E.set "err" x) "cp" = some j ∧ (E.set "err" x).get "err" = some x ∧
        (∀ k, k ∉ "err" :: fieldsOf "cp" → (E.set "err" x).get k = e.get k) := by
    intro E j x h1 h2
    refine ⟨by rw [iterAt_set_ne _ _ _ _ (by decide)]; exact h1, Env.get_set_self _ _ _, fun k hk => ?_⟩
    simp only [List.mem_cons, not_or] at hk
    rw [Env.get_set_ne _ _ (Ne.symm hk.1)]
    exact h2 k hk.2
  rw [rootCall, exec1, callFun_recv e pj.tape "cp" _ _ cp f hfn hC]
  cases hr : cp.root pj with
  | ok p =>
    obtain ⟨ty, d⟩ := p
    rw [hr] at hsim
    obtain ⟨s, hrun, hst, hI', hfr⟩ := hsim
    rw [GoMarshal.runFun_ret_inv hrun (by simp), backR_ret e "cp" s _ d hI']
    obtain ⟨k1, k2⟩ := recv_back e "cp" cp d s.env (fun k hk => hfr k (by rcases hk with rfl | rfl <;> decide))
      (by decide) (by decide)
    simp only [assignTargets, hst, show ("_" == "_") = true from by decide, show ("err" == "_") = false from by decide,
      Bool.false_eq_true, if_false, if_true]
    obtain ⟨a, b, c⟩ := hfin _ d (.bool false) k1 k2
    exact ⟨_, rfl, a, b, c⟩
  | error err =>
    rw [hr] at hsim
    simp only [SimRootSelf] at hsim
    rw [GoMarshal.runFun_ret_inv hsim (by simp), backR_ret e "cp" _ _ cp (GoApi.intoFrame_iter e cp)]
    obtain ⟨k1, k2⟩ := recv_back e "cp" cp cp (GoApi.intoFrame e cp) (fun k hk => rfl) (by decide) (by decide)
    simp only [assignTargets, show ("_" == "_") = true from by decide, show ("err" == "_") = false from by decide,
      Bool.false_eq_true, if_false, if_true]
    obtain ⟨a, b, c⟩ := hfin _ cp (.bool true) k1 k2
    exact ⟨_, rfl, a, b, c⟩
  | panic =>
    rw [hr] at hsim
    simp only [SimRootSelf] at hsim
    rw [GoMarshal.runFun_panic_inv hsim]
    rfl
  | diverge => rw [hr] at hsim; exact hsim.elim

/-! ## the model: what `advanceInto`, `root`, `object` leave -/

theorem advanceInto_facts (pj : PJ) (i i' : Iter) (t : UInt8) (hl : i.lim ≤ pj.tape.size)
    (h : i.advanceInto pj = .ok (i', t)) : i'.lim = i.lim ∧ t = i'.t ∧ (t ≠ tagEnd → i'.off ≤ i'.lim) := by
  refine ⟨(GoMarshal.advanceInto_inv pj i i' t h).1, GoApi.advanceInto_tag pj i i' t h, fun hne => ?_⟩
  unfold Iter.advanceInto at h
  cases hb : i.bump with
  | ok o =>
    rw [hb] at h
    simp only [Res.bind_ok] at h
    obtain ⟨i1, live, he, h1, h2, h3, h4⟩ := WalkSafe.advanceIntoLoop_safe pj i o hl
    rw [he] at h
    simp only [Res.bind_ok] at h
    cases live with
    | false =>
      simp only [Bool.not_false, if_true, Res.ok.injEq, Prod.mk.injEq] at h
      exact absurd h.2.symm hne
    | true =>
      obtain ⟨c1, c2, c3, c4⟩ := WalkSafe.calcNext_fields i1 true
      obtain ⟨h5, h6, _, _⟩ := h4 rfl
      simp only [Bool.not_true, Bool.false_eq_true, if_false] at h
      split at h
      · simp only [Res.ok.injEq, Prod.mk.injEq] at h
        exact absurd h.2.symm hne
      · simp only [Res.ok.injEq, Prod.mk.injEq] at h
        obtain ⟨rfl, _⟩ := h
        rw [c1, c2, h1]; exact h6
  | error e => rw [hb] at h; cases h
  | panic => rw [hb] at h; cases h
  | diverge => rw [hb] at h; cases h

/-- `Root` shrinks the view: the new iterator lives in `Tape[:cur-1]` with `1 ≤ cur ≤ len` -/
theorem root_facts (pj : PJ) (cp : Iter) (ty : UInt8) (d : Iter) (hl : cp.lim ≤ pj.tape.size)
    (h : cp.root pj = .ok (ty, d)) : d.lim < cp.lim ∧ (d.t ≠ tagEnd → d.off ≤ d.lim) := by
  unfold Iter.root at h
  split at h
  · cases h
  · split at h
    · cases h
    · next hg =>
      simp only [] at h
      cases hr : Iter.advanceInto pj { cp with addNext := 0, lim := cp.cur.toNat - 1 } with
      | ok p =>
        obtain ⟨d', t⟩ := p
        rw [hr] at h
        simp only [Res.bind_ok, Res.ok.injEq, Prod.mk.injEq] at h
        obtain ⟨_, rfl⟩ := h
        obtain ⟨a, b, c⟩ := advanceInto_facts pj _ _ _ (by simp only; omega) hr
        simp only [not_or, beq_iff_eq] at hg
        have hc0 : cp.cur.toNat ≠ 0 := fun hh => hg.2 (UInt64.toNat_inj.mp hh)
        simp only at a
        exact ⟨by omega, fun hne => c (by rw [b]; exact hne)⟩
      | error e => rw [hr] at h; cases h
      | panic => rw [hr] at h; cases h
      | diverge => rw [hr] at h; cases h

theorem object_facts (cp : Iter) (v : View) (h : cp.object = .ok v) : v.lim ≤ cp.lim := by
  unfold Iter.object at h
  split at h
  · cases h
  · simp only [] at h
    split at h
    · cases h
    · split at h
      · cases h
      · simp only [Res.ok.injEq] at h
        subst h
        simp only
        omega

/-! ## the syntax tree of `Iter.FindElement` (pinned by `rfl`) -/

def RN : List Expr := GoFind.RN
def RE : List Expr := GoFind.RE

def retCallFP : Stmt := .retCall "o" "Object.FindPath" ["dst"] [(.v "path"), (.v "dst==nil")]
def errIf : Stmt := .ite (.bin .ne (.v "err") (.bool false)) [.ret RE] []
def intoCall : Stmt := .callAssign ["tag"] "cp" "Iter.AdvanceInto" [] []

def objCase : List Stmt := [.assign "o.off" (.int 0), .assign "o.lim" (.int 0), objCall, errIf, retCallFP]
def rootCase : List Stmt := [rootCall, errIf, .cont]
def endCase : List Stmt := [intoCall, .ite (.bin .eq (.v "tag") (.u8 0)) [.ret RN] [], .cont]

def feLoop : List Stmt := firstLoop goIter_FindElement.body

theorem feLoop_eq : feLoop =
    [.switch (.v "cp.t") [([.u8 123], objCase), ([.u8 114], rootCase), ([.u8 0], endCase)] [.ret RN]] := rfl

theorem fe_body_split : goIter_FindElement.body =
    [.ite (.bin .eq (.lenK (.v "path")) (.int 0)) [.ret RN] [], .copyStruct "cp" "i", .loop feLoop] := rfl

section pieces
attribute [local simp] exec exec1 execCases evalE evalEs isOneOf binop convert ofE copyFields bindParams
  iterFields runFun tblLookup Env.get_set

theorem exec_one (f : Nat) (st : Stmt) (s : St) : exec goFuns f [st] s = exec1 goFuns f st s := by
  rw [exec]
  cases exec1 goFuns f st s <;> simp

/-- the `switch cp.t` -/
theorem fe_switch (e : Env) (tape : Array UInt64) (F : Nat) (t : UInt8) (hT : e.get "cp.t" = some (.u8 t)) :
    exec goFuns F feLoop ⟨e, tape⟩ =
      if t = 123 then exec goFuns F objCase ⟨e, tape⟩
      else if t = 114 then exec goFuns F rootCase ⟨e, tape⟩
      else if t = 0 then exec goFuns F endCase ⟨e, tape⟩
      else GoFind.retOut RN ⟨e, tape⟩ := by
  rw [feLoop_eq, exec_one, exec1]
  by_cases h1 : t = 123
  · subst h1; simp [hT, -exec, -exec1]
  · by_cases h2 : t = 114
    · subst h2; simp [hT, -exec, -exec1]
    · by_cases h3 : t = 0
      · subst h3; simp [hT, -exec, -exec1]
      · simp only [evalE, hT, execCases, evalEs, isOneOf, if_neg h1, if_neg h2, if_neg h3]
        have a1 : (Val.u8 (UInt8.ofNat 123) == Val.u8 t) = false := by
          simp only [beq_eq_false_iff_ne, ne_eq, Val.u8.injEq]; exact fun h => h1 h.symm
        have a2 : (Val.u8 (UInt8.ofNat 114) == Val.u8 t) = false := by
          simp only [beq_eq_false_iff_ne, ne_eq, Val.u8.injEq]; exact fun h => h2 h.symm
        have a3 : (Val.u8 (UInt8.ofNat 0) == Val.u8 t) = false := by
          simp only [beq_eq_false_iff_ne, ne_eq, Val.u8.injEq]; exact fun h => h3 h.symm
        simp only [a1, a2, a3, Bool.or_false, Bool.false_eq_true, if_false]
        exact GoFind.exec_ret F RN [] ⟨e, tape⟩

theorem errIf_run (e : Env) (tape : Array UInt64) (F : Nat) (b : Bool) (rest : List Stmt)
    (hE : e.get "err" = some (.bool b)) :
    exec goFuns F (errIf :: rest) ⟨e, tape⟩ = if b then GoFind.retOut RE ⟨e, tape⟩ else exec goFuns F rest ⟨e, tape⟩ := by
  rw [errIf, GoFind.exec_ite_ret F _ RE rest ⟨e, tape⟩ b (by cases b <;> simp [hE])]

theorem loop_final (F : Nat) (body : List Stmt) (s : St) (h : Out.final (exec goFuns F body s) = true) :
    exec1 goFuns (F + 1) (.loop body) s = exec goFuns F body s := by
  rw [GoPJForEach.loop_succ]
  revert h
  cases exec goFuns F body s <;> simp [Out.final]

theorem loop_cont (F : Nat) (body : List Stmt) (s s' : St) (h : exec goFuns F body s = .cont s') :
    exec1 goFuns (F + 1) (.loop body) s = exec1 goFuns F (.loop body) s' := by
  rw [GoPJForEach.loop_succ, h]

end pieces

theorem FEPost.final {pj : PJ} {lk : Bytes} {nil : Bool} {D i : Iter} {o : Out} {r : Res (UInt8 × Iter)}
    (h : FEPost pj lk nil D i o r) : Out.final o = true := by
  cases r with
  | ok p => obtain ⟨ty, d⟩ := p; obtain ⟨e', rfl, _⟩ := h; rfl
  | error _ => obtain ⟨e', b, rfl, _⟩ := h; rfl
  | panic => simp only [FEPost] at h; subst h; rfl
  | diverge => exact h.elim

/-- an error return `return dst, <non-nil>` of `FindElement` itself -/
theorem FEPost.ofErr {pj : PJ} {lk : Bytes} {nil : Bool} {D i : Iter} {path : List Bytes} {d0 : Iter} {e : Env}
    (inv : FInv pj i path nil d0 e) (err : Err) :
    FEPost pj lk nil D i (.ret ⟨e, pj.tape⟩ [.bool (!nil), .bool true]) (.error err) :=
  ⟨e, _, rfl, GoFind.not_nil_imp nil, inv.recv⟩

theorem FInv.frame {pj : PJ} {i : Iter} {path : List Bytes} {nil : Bool} {d0 : Iter} {e e' : Env}
    (h : FInv pj i path nil d0 e) (L : List String) (hL : ∀ k ∈ feKeys, k ∉ L)
    (hfr : ∀ k, k ∉ L → e'.get k = e.get k) : FInv pj i path nil d0 e' :=
  h.congr (fun k hk => hfr k (hL k hk))

/-! ## the three cases of the `switch`, one turn each -/

theorem obj_case (pj : PJ) (hb : BufOK pj) (e : Env) (F : Nat) (i cp : Iter) (path : List Bytes) (nil : Bool) (d0 : Iter)
    (inv : FInv pj i path nil d0 e) (hC : iterAt e "cp" = some cp) (hl : cp.lim ≤ pj.tape.size) (hlim : cp.lim < 2^63)
    (hoff : cp.off < 2^63) (hF : 2 * cp.lim + 13 ≤ F) :
    FEPost pj (GoFind.pathLast path) nil (GoFind.D0 nil d0) i (exec goFuns F objCase ⟨e, pj.tape⟩)
      (do let o ← cp.object; View.findPathTop pj o path) := by
  have h0 : exec goFuns F objCase ⟨e, pj.tape⟩ =
      exec goFuns F [objCall, errIf, retCallFP] ⟨(e.set "o.off" (.int 0)).set "o.lim" (.int 0), pj.tape⟩ := by
    simp [objCase, exec, exec1, evalE]
  have hfr1 : ∀ k, k ∉ ["o.off", "o.lim"] → ((e.set "o.off" (.int 0)).set "o.lim" (.int 0)).get k = e.get k := by
    intro k hk
    simp only [List.mem_cons, List.not_mem_nil, or_false, not_or] at hk
    rw [Env.get_set_ne _ _ (Ne.symm hk.2), Env.get_set_ne _ _ (Ne.symm hk.1)]
  have inv1 := inv.frame ["o.off", "o.lim"] (by decide) hfr1
  have hC1 : iterAt ((e.set "o.off" (.int 0)).set "o.lim" (.int 0)) "cp" = some cp := by
    rw [iterAt_congr e _ "cp" (fun k hk => hfr1 k (by revert k; decide))]; exact hC
  have hcall := call_object pj _ F cp hC1 (by simp [Env.get_set]) (by simp [Env.get_set]) inv1.sb inv1.ms hlim hoff
    (by omega)
  rw [h0, GoPJForEach.exec_cons']
  generalize (e.set "o.off" (.int 0)).set "o.lim" (.int 0) = e1 at inv1 hC1 hcall ⊢
  cases hr : cp.object with
  | ok v =>
    rw [hr] at hcall
    obtain ⟨e2, hx, hV, hE, hfr2⟩ := hcall
    have inv2 := inv1.frame objTouched (by decide) hfr2
    rw [hx]
    simp only [Res.bind_ok]
    rw [errIf_run e2 pj.tape F false _ hE]
    simp only [Bool.false_eq_true, if_false]
    rw [exec_one]
    exact retCall_findPath pj hb e2 F i v path nil d0 inv2 hV (by have := object_facts cp v hr; omega)
      (by have := object_facts cp v hr; omega)
  | error err =>
    rw [hr] at hcall
    obtain ⟨e2, hx, hE, hfr2⟩ := hcall
    have inv2 := inv1.frame objTouched (by decide) hfr2
    rw [hx]
    simp only []
    rw [errIf_run e2 pj.tape F true _ hE]
    simp only [if_true]
    rw [RE, GoFind.retOut_RE _ nil inv2.hnil hE]
    exact FEPost.ofErr inv2 err
  | panic =>
    rw [hr] at hcall
    rw [hcall]
    rfl
  | diverge => rw [hr] at hcall; exact hcall.elim

/-- one turn through `case TagRoot`: the result of the turn, or the store to go round again with -/
def TurnPost (pj : PJ) (lk : Bytes) (nil : Bool) (D i : Iter) (path : List Bytes) (d0 : Iter) (o : Out) :
    Res Iter → Prop
  | .ok cp' => ∃ e', o = .cont ⟨e', pj.tape⟩ ∧ FInv pj i path nil d0 e' ∧ iterAt e' "cp" = some cp'
  | .error err => FEPost pj lk nil D i o (.error err)
  | .panic => o = .panic
  | .diverge => False

theorem root_case (pj : PJ) (e : Env) (F : Nat) (i cp : Iter) (path : List Bytes) (nil : Bool) (d0 : Iter) (lk : Bytes)
    (D : Iter) (inv : FInv pj i path nil d0 e) (hC : iterAt e "cp" = some cp) (hl : cp.lim ≤ pj.tape.size)
    (hlim : cp.lim < 2^63) (hF : cp.lim + 9 ≤ F) :
    TurnPost pj lk nil D i path d0 (exec goFuns F rootCase ⟨e, pj.tape⟩)
      (do let (_, d) ← cp.root pj; .ok d) := by
  have hcall := call_rootSelf pj e F cp hC hl hlim hF
  rw [rootCase, GoPJForEach.exec_cons']
  cases hr : cp.root pj with
  | ok p =>
    obtain ⟨ty, d⟩ := p
    rw [hr] at hcall
    obtain ⟨e2, hx, hC2, hE, hfr2⟩ := hcall
    have inv2 := inv.frame ("err" :: fieldsOf "cp") (by decide) hfr2
    rw [hx]
    simp only [Res.bind_ok]
    rw [errIf_run e2 pj.tape F false _ hE]
    simp only [Bool.false_eq_true, if_false]
    rw [exec_one, exec1]
    exact ⟨e2, rfl, inv2, hC2⟩
  | error err =>
    rw [hr] at hcall
    obtain ⟨e2, hx, hC2, hE, hfr2⟩ := hcall
    have inv2 := inv.frame ("err" :: fieldsOf "cp") (by decide) hfr2
    rw [hx]
    simp only [Res.bind_error, TurnPost]
    rw [errIf_run e2 pj.tape F true _ hE]
    simp only [if_true]
    rw [RE, GoFind.retOut_RE _ nil inv2.hnil hE]
    exact FEPost.ofErr inv2 err
  | panic =>
    rw [hr] at hcall
    rw [hcall]
    rfl
  | diverge => rw [hr] at hcall; exact hcall.elim

theorem end_case (pj : PJ) (e : Env) (F : Nat) (i cp : Iter) (path : List Bytes) (nil : Bool) (d0 : Iter) (lk : Bytes)
    (D : Iter) (inv : FInv pj i path nil d0 e) (hC : iterAt e "cp" = some cp) (hl : cp.lim ≤ pj.tape.size)
    (hF : cp.lim + 9 ≤ F) :
    TurnPost pj lk nil D i path d0 (exec goFuns F endCase ⟨e, pj.tape⟩)
      (do let (cp', tag) ← cp.advanceInto pj; if tag == tagEnd then .error .pathNotFound else .ok cp') := by
  have hcall := callAssign_into pj e F "cp" "tag" cp hC hl (by unfold fuelFor; omega) (by decide) (by decide) (by decide)
    (by decide)
  rw [endCase, GoPJForEach.exec_cons']
  unfold intoCall
  cases hr : cp.advanceInto pj with
  | ok p =>
    obtain ⟨cp', t⟩ := p
    rw [hr] at hcall
    obtain ⟨e2, hx, hC2, hT, hfr2⟩ := hcall
    have inv2 := inv.frame ("tag" :: fieldsOf "cp") (by decide) hfr2
    rw [hx]
    simp only [Res.bind_ok]
    by_cases ht : t = 0
    · have hb : (t == tagEnd) = true := by simp [tagEnd, ht]
      rw [GoFind.exec_ite_ret F _ RN _ ⟨e2, pj.tape⟩ true (by simp [evalE, binop, hT, ht])]
      simp only [if_true, hb, TurnPost]
      rw [RN, GoFind.retOut_RN _ nil inv2.hnil]
      exact FEPost.ofErr inv2 _
    · have hb : (t == tagEnd) = false := by simp [tagEnd, ht]
      rw [GoFind.exec_ite_ret F _ RN _ ⟨e2, pj.tape⟩ false (by simp [evalE, binop, hT, ht])]
      simp only [Bool.false_eq_true, if_false, hb]
      rw [exec_one, exec1]
      exact ⟨e2, rfl, inv2, hC2⟩
  | panic =>
    rw [hr] at hcall
    rw [hcall]
    rfl
  | error err => rw [hr] at hcall; exact hcall.elim
  | diverge => rw [hr] at hcall; exact hcall.elim

/-! ## the loop -/

/-- what decreases on every turn that goes round again: `Root` shrinks the view (`lim` drops), `AdvanceInto` after `TagEnd`
    leaves a tag that is not `TagEnd` -/
def mu (cp : Iter) : Nat := 2 * cp.lim + (if cp.t = tagEnd then 1 else 0)

theorem findElement_loop (pj : PJ) (hb : BufOK pj) (i : Iter) (path : List Bytes) (nil : Bool) (d0 : Iter)
    (hp : path ≠ []) : ∀ (n : Nat) (cp : Iter) (e : Env) (fuel mf : Nat),
    mu cp < n → n ≤ mf → n + 2 * cp.lim + 14 ≤ fuel → cp.lim ≤ pj.tape.size → cp.lim < 2^63 →
    (cp.t = tagObjectStart → cp.off < 2^63) → FInv pj i path nil d0 e → iterAt e "cp" = some cp →
    FEPost pj (GoFind.pathLast path) nil (GoFind.D0 nil d0) i (exec1 goFuns fuel (.loop feLoop) ⟨e, pj.tape⟩)
      (Iter.findElement pj path cp mf) := by
  intro n
  induction n with
  | zero => intro cp e fuel mf h; omega
  | succ n ih =>
    intro cp e fuel mf hmu hmf hfuel hl hlim hoff inv hC
    obtain ⟨F, rfl⟩ : ∃ F, fuel = F + 1 := ⟨fuel - 1, by omega⟩
    obtain ⟨m, rfl⟩ : ∃ m, mf = m + 1 := ⟨mf - 1, by omega⟩
    obtain ⟨_, _, _, c4, _⟩ := iterAt_get _ _ _ hC
    simp only [String.reduceAppend] at c4
    have hsw := fe_switch e pj.tape F cp.t c4
    have hpe : path.isEmpty = false := by
      cases path with
      | nil => exact absurd rfl hp
      | cons a r => rfl
    rw [Iter.findElement]
    simp only [hpe, Bool.false_eq_true, if_false]
    by_cases h1 : cp.t = 123
    · have hb1 : (cp.t == tagObjectStart) = true := by simp [tagObjectStart, cTagObjectStart, h1]
      simp only [hb1, if_true]
      rw [if_pos h1] at hsw
      have hcase := obj_case pj hb e F i cp path nil d0 inv hC hl hlim
        (hoff (by simp [tagObjectStart, cTagObjectStart, h1])) (by omega)
      rw [loop_final F feLoop _ (by rw [hsw]; exact hcase.final), hsw]
      exact hcase
    · have hb1 : (cp.t == tagObjectStart) = false := by simp [tagObjectStart, cTagObjectStart, h1]
      simp only [hb1, Bool.false_eq_true, if_false]
      rw [if_neg h1] at hsw
      by_cases h2 : cp.t = 114
      · have hb2 : (cp.t == tagRoot) = true := by simp [tagRoot, cTagRoot, h2]
        simp only [hb2, if_true]
        rw [if_pos h2] at hsw
        have hcase := root_case pj e F i cp path nil d0 (GoFind.pathLast path) (GoFind.D0 nil d0) inv hC hl hlim
          (by omega)
        cases hr : cp.root pj with
        | ok p =>
          obtain ⟨ty, d⟩ := p
          rw [hr] at hcase
          obtain ⟨e2, hx, inv2, hC2⟩ := hcase
          obtain ⟨k1, k2⟩ := root_facts pj cp ty d hl hr
          rw [loop_cont F feLoop _ _ (by rw [hsw]; exact hx)]
          simp only [Res.bind_ok]
          refine ih d e2 F m ?_ (by omega) (by omega) (by omega) (by omega) ?_ inv2 hC2
          · unfold mu at hmu ⊢
            split <;> omega
          · intro ht
            have : d.off ≤ d.lim := k2 (by rw [ht]; decide)
            omega
        | error err =>
          rw [hr] at hcase
          simp only [Res.bind_error, TurnPost] at hcase
          rw [loop_final F feLoop _ (by rw [hsw]; exact hcase.final), hsw]
          exact hcase
        | panic =>
          rw [hr] at hcase
          have hcase' : exec goFuns F rootCase ⟨e, pj.tape⟩ = .panic := hcase
          rw [loop_final F feLoop _ (by rw [hsw, hcase']; rfl), hsw, hcase']
          rfl
        | diverge => rw [hr] at hcase; exact hcase.elim
      · have hb2 : (cp.t == tagRoot) = false := by simp [tagRoot, cTagRoot, h2]
        simp only [hb2, Bool.false_eq_true, if_false]
        rw [if_neg h2] at hsw
        by_cases h3 : cp.t = 0
        · have hb3 : (cp.t == tagEnd) = true := by simp [tagEnd, h3]
          simp only [hb3, if_true]
          rw [if_pos h3] at hsw
          have hcase := end_case pj e F i cp path nil d0 (GoFind.pathLast path) (GoFind.D0 nil d0) inv hC hl (by omega)
          cases hr : cp.advanceInto pj with
          | ok p =>
            obtain ⟨cp', t⟩ := p
            rw [hr] at hcase
            simp only [Res.bind_ok] at hcase ⊢
            obtain ⟨k1, k2, k3⟩ := advanceInto_facts pj cp cp' t hl hr
            by_cases ht : t = 0
            · have hbt : (t == tagEnd) = true := by simp [tagEnd, ht]
              simp only [hbt, if_true, TurnPost] at hcase ⊢
              rw [loop_final F feLoop _ (by rw [hsw]; exact hcase.final), hsw]
              exact hcase
            · have hbt : (t == tagEnd) = false := by simp [tagEnd, ht]
              simp only [hbt, Bool.false_eq_true, if_false] at hcase ⊢
              obtain ⟨e2, hx, inv2, hC2⟩ := hcase
              rw [loop_cont F feLoop _ _ (by rw [hsw]; exact hx)]
              have hne : cp'.t ≠ tagEnd := by rw [← k2]; simpa [tagEnd] using ht
              refine ih cp' e2 F m ?_ (by omega) (by omega) (by omega) (by omega) ?_ inv2 hC2
              · unfold mu at hmu ⊢
                rw [if_neg hne, k1]
                rw [if_pos (by simpa [tagEnd] using h3)] at hmu
                omega
              · intro _
                have : cp'.off ≤ cp'.lim := k3 (by rw [k2]; exact hne)
                omega
          | panic =>
            rw [hr] at hcase
            have hcase' : exec goFuns F endCase ⟨e, pj.tape⟩ = .panic := hcase
            rw [loop_final F feLoop _ (by rw [hsw, hcase']; rfl), hsw, hcase']
            rfl
          | error err =>
            rw [hr] at hcase
            simp only [Res.bind_error, TurnPost] at hcase ⊢
            rw [loop_final F feLoop _ (by rw [hsw]; exact hcase.final), hsw]
            exact hcase
          | diverge => rw [hr] at hcase; exact hcase.elim
        · have hb3 : (cp.t == tagEnd) = false := by simp [tagEnd, h3]
          simp only [hb3, Bool.false_eq_true, if_false]
          rw [if_neg h3, RN, GoFind.retOut_RN _ nil inv.hnil] at hsw
          rw [loop_final F feLoop _ (by rw [hsw]; rfl), hsw]
          exact FEPost.ofErr inv _

/-! ## the function -/

/-- **`Iter.FindElement` IS `Iter.findElement`.**  Interpreter fuel `4·lim + 17` (at most `2·lim + 2` turns: `mu`; a turn
    costs at most `2·lim + 13`: `Object.FindPath`), model fuel `2·lim + 2` (so the model's usual `fuelOf pj` is enough). -/
theorem findElement_sim (pj : PJ) (hb : BufOK pj) (i : Iter) (hl : i.lim ≤ pj.tape.size) (hlim : i.lim < 2^63)
    (hoff : i.off < 2^63) (path : List Bytes) (nil : Bool) (d0 : Iter) (e0 : Env) (h0 : FInv pj i path nil d0 e0)
    (fuel mf : Nat) (hmf : 2 * i.lim + 2 ≤ mf) (hf : 4 * i.lim + 17 ≤ fuel) :
    FEPost pj (GoFind.pathLast path) nil (GoFind.D0 nil d0) i (runFun goFuns goIter_FindElement fuel ⟨e0, pj.tape⟩)
      (Iter.findElement pj path i mf) := by
  have key : FEPost pj (GoFind.pathLast path) nil (GoFind.D0 nil d0) i
      (exec goFuns fuel goIter_FindElement.body ⟨e0, pj.tape⟩) (Iter.findElement pj path i mf) := by
    rw [fe_body_split]
    cases path with
    | nil =>
      obtain ⟨m, rfl⟩ : ∃ m, mf = m + 1 := ⟨mf - 1, by omega⟩
      have hcond : evalE ⟨e0, pj.tape⟩ (.bin .eq (.lenK (.v "path")) (.int 0)) = .val (.bool true) := by
        simp [evalE, binop, h0.path]
      rw [GoFind.exec_ite_ret _ _ _ _ _ _ hcond, Iter.findElement]
      simp only [if_true, List.isEmpty_nil]
      rw [RN, GoFind.retOut_RN _ nil h0.hnil]
      exact FEPost.ofErr h0 _
    | cons k rest =>
      have hcond : evalE ⟨e0, pj.tape⟩ (.bin .eq (.lenK (.v "path")) (.int 0)) = .val (.bool false) := by
        have : ¬ ((rest.length : Int) + 1 = 0) := by omega
        simp [evalE, binop, h0.path, this]
      have hcopy : exec1 goFuns fuel (.copyStruct "cp" "i") ⟨e0, pj.tape⟩ = .normal ⟨setIter e0 "cp" i, pj.tape⟩ := by
        rw [exec1]
        simp only [iterFields, copyFields_recv_back e0 e0 "cp" i h0.recv]
      rw [GoFind.exec_ite_skip _ _ _ _ _ hcond, GoPJForEach.exec_cons', hcopy]
      simp only []
      rw [exec_one]
      have inv : FInv pj i (k :: rest) nil d0 (setIter e0 "cp" i) :=
        h0.frame (fieldsOf "cp") (by decide) (fun k hk => get_setIter_ne _ _ _ _ hk)
      exact findElement_loop pj hb i (k :: rest) nil d0 (by simp) (2 * i.lim + 2) i _ fuel mf
        (by unfold mu; split <;> omega) hmf (by omega) hl hlim (fun _ => hoff) inv
        (GoDelete.get_setIter_self e0 "cp" i (by decide))
  rw [runFun_final _ _ _ _ key.final]
  exact key

/-- the relation read as equivalences (`GoFind.FPPost.iff`), and: the receiver is never written -/
theorem FEPost.iff {pj : PJ} {lk : Bytes} {nil : Bool} {D i : Iter} {o : Out} {r : Res (UInt8 × Iter)}
    (h : FEPost pj lk nil D i o r) :
    ((∃ s, o = .ret s [.bool true, .bool false]) ↔ ∃ ty d, r = .ok (ty, d)) ∧
    ((∃ s b, o = .ret s [.bool b, .bool true]) ↔ ∃ e, r = .error e) ∧
    (o = .panic ↔ r = .panic) ∧ (∀ w, o ≠ .stuck w) ∧ o ≠ .diverge ∧ r ≠ .diverge ∧
    (∀ s vs, o = .ret s vs → s.tape = pj.tape ∧ iterAt s.env "i" = some i) := by
  obtain ⟨a, b, c, d, e, f⟩ := h.toFP.iff
  refine ⟨a, b, c, d, e, f, ?_⟩
  intro s vs hs
  cases r with
  | ok p =>
    obtain ⟨ty, d⟩ := p
    obtain ⟨e', h1, _, _, _, _, h6⟩ := h
    rw [h1] at hs
    injection hs with hs _
    subst hs
    exact ⟨rfl, h6⟩
  | error _ =>
    obtain ⟨e', b, h1, _, h3⟩ := h
    rw [h1] at hs
    injection hs with hs _
    subst hs
    exact ⟨rfl, h3⟩
  | panic => simp only [FEPost] at h; rw [h] at hs; cases hs
  | diverge => exact h.elim

/-! ## the bundle, on the conventional stores -/

/-- the store of `i.FindElement(dst, path...)`: receiver ++ `path ...string` ++ the flattened `dst *Element` (hidden flag,
    `Name`, `Type`, `Iter`; dummies when nil) ++ the shared buffers ++ anything else -/
def feStore (pj : PJ) (i : Iter) (path : List Bytes) (nil : Bool) (nm tv : Val) (d0 : Iter) (extra : Env) : Env :=
  envOf "i" i ++ [("path", .keys path), ("dst==nil", .bool nil), ("dst.Name", nm), ("dst.Type", tv)] ++
    envOf "dst.Iter" d0 ++ bufEnv pj ++ extra

theorem FInv_feStore (pj : PJ) (i : Iter) (path : List Bytes) (nil : Bool) (nm tv : Val) (d0 : Iter) (extra : Env) :
    FInv pj i path nil d0 (feStore pj i path nil nm tv d0 extra) := by
  refine ⟨?_, ?_, ?_, ?_, ⟨nm, ?_⟩, ⟨tv, ?_⟩, ?_, ?_⟩ <;> simp [feStore, bufEnv, envOf, Env.get, iterAt]

/-- **`Iter.Root#self` (`cp.Root(&cp)`) and `Iter.FindElement` of /repo, as translated, ARE the hand model**
    (`Iter.root` written over the receiver; `Iter.findElement`): for every document whose buffer lengths are Go `int`s,
    every iterator whose view lies in the tape and whose `len`/`off` are Go `int`s, every path, both values of
    `dst == nil`, any caller destination (`nm`, `tv`, `d0`), any other variables, `4·lim + 17` units of interpreter fuel;
    the model's own fuel `fuelOf pj` is enough (`2·lim + 2` is).  Read as equivalences: `FEPost.iff`. -/
theorem go_findelement_source_tie (pj : PJ) (hb : BufOK pj) (i : Iter) (hl : i.lim ≤ pj.tape.size) (hlim : i.lim < 2^63)
    (hoff : i.off < 2^63) (path : List Bytes) (nil : Bool) (nm tv : Val) (d0 : Iter) (extra : Env) (fuel : Nat)
    (hf : 4 * i.lim + 17 ≤ fuel) :
    SimRootSelf pj.tape (envOf "i" i ++ extra) (runFun goFuns goIter_Root_self fuel ⟨envOf "i" i ++ extra, pj.tape⟩)
      (i.root pj) ∧
    FEPost pj (GoFind.pathLast path) nil (GoFind.D0 nil d0) i
      (runFun goFuns goIter_FindElement fuel ⟨feStore pj i path nil nm tv d0 extra, pj.tape⟩)
      (Iter.findElement pj path i (fuelOf pj)) ∧
    (((∃ s, runFun goFuns goIter_FindElement fuel ⟨feStore pj i path nil nm tv d0 extra, pj.tape⟩ =
          .ret s [.bool true, .bool false]) ↔ ∃ ty d, Iter.findElement pj path i (fuelOf pj) = .ok (ty, d)) ∧
     ((∃ s b, runFun goFuns goIter_FindElement fuel ⟨feStore pj i path nil nm tv d0 extra, pj.tape⟩ =
          .ret s [.bool b, .bool true]) ↔ ∃ e, Iter.findElement pj path i (fuelOf pj) = .error e) ∧
     (runFun goFuns goIter_FindElement fuel ⟨feStore pj i path nil nm tv d0 extra, pj.tape⟩ = .panic ↔
        Iter.findElement pj path i (fuelOf pj) = .panic) ∧
     (∀ w, runFun goFuns goIter_FindElement fuel ⟨feStore pj i path nil nm tv d0 extra, pj.tape⟩ ≠ .stuck w) ∧
     runFun goFuns goIter_FindElement fuel ⟨feStore pj i path nil nm tv d0 extra, pj.tape⟩ ≠ .diverge ∧
     Iter.findElement pj path i (fuelOf pj) ≠ .diverge ∧
     (∀ s vs, runFun goFuns goIter_FindElement fuel ⟨feStore pj i path nil nm tv d0 extra, pj.tape⟩ = .ret s vs →
        s.tape = pj.tape ∧ iterAt s.env "i" = some i)) := by
  have hI : iterAt (envOf "i" i ++ extra) "i" = some i := by simp [envOf, Env.get, iterAt]
  have h2 := findElement_sim pj hb i hl hlim hoff path nil d0 _ (FInv_feStore pj i path nil nm tv d0 extra) fuel
    (fuelOf pj) (by unfold fuelOf; omega) hf
  exact ⟨rootSelf_sim pj i _ fuel hI hl hlim (by omega), h2, h2.iff⟩

end SJ.GoFindElem

#print axioms SJ.GoFindElem.go_findelement_source_tie
