import SJ.Proofs.GoApiLemmas
import SJ.Proofs.GoApiFloat
set_option linter.unusedVariables false
set_option linter.unusedSimpArgs false
/-
GoApi — the hand model IS the meaning (`GoSem.exec`) of the syntax trees the translator printed for
`Iter.Object`, `Iter.Array`, `Iter.Root`, `ParsedJson.stringAt`, `Iter.String`, `floatToString`, `Iter.StringCvt`,
`Object.NextElement` (parsed_json.go, parsed_object.go).

Stores are ABSTRACT: every `_sim` theorem takes any `e : Env` that binds what the function reads (`iterAt e "i" = some i`,
the hidden parameter `"dst==nil"`, the two buffers, …), so it applies to the frame `callFun` builds for a caller as
well as to a hand-written initial store.  No initial `*dst` is required by `Object`/`Array`/`Root`: every field of
`*dst` is written before it is read, for `dst == nil` (allocation: fields zeroed / copied from `i`, flag cleared) and
for a caller's `dst` alike.  `go_api_source_tie` bundles the statements on the conventional stores.

* `object_sim`, `array_sim` (`SimView`): model `.ok v` ⇔ returns `(non-nil, nil)` with `dst.off = v.off`,
  `dst.lim = v.lim`, flag cleared, every other variable (the receiver among them) and the tape untouched; model
  `.error _` ⇔ returns `(nil, err)` with only the local `end` written.  `object_returns`/`array_returns`: never a panic,
  never stuck, any fuel.  `dst.tape.Tape = i.tape.Tape[:end]` cannot panic: the guard `uint64(len) < end` before it
  excludes `end > len`, and `int(end)` is then exact because `len` is a Go `int`.  Hypotheses: `i.lim < 2^63` (and
  `i.off < 2^63` for `Object`) — the model's `Nat` fields are Go `int`s; NO hypothesis on `i.cur`.
* `root_sim` (`SimRoot`; `root_sim_exact` is the same statement), both values of `dst == nil`: errors ⇔
  `(TypeNone, dst, err)` with the store untouched; model `.ok (ty, d)` ⇔ returns `(ty, non-nil, nil)` with `*dst = d`
  (all five fields: the non-nil branch copies `cur`, `off`, `t` and sets `addNext`, `lim`, which is the whole struct),
  receiver, buffers and every variable outside `rootKeys` untouched; panic ⇔ panic.  Fuel `i.lim + 8`.  NO hypothesis
  on the tape.  `ty` is `TagToType[tag]` for the tag `AdvanceInto` returned (`root_type`: `= tagToType d.t`), as in
  the source (`dst.AdvanceInto().Type()` = `Tag.Type()`), with no bounds test.
  HISTORY: an earlier model returned `d.type` (`Iter.Type()`: `TypeNone` when `off + addNext > lim`); this proof found
  the difference — witness tape `[root|3, integer, 5, root|0]`, `i = {lim 4, off 1, addNext 0, cur 3, t 'r'}`: that
  model said `TypeNone` (0), the source `TypeInt` (3).  The model was repaired; the `example`s after `root_sim` replay
  the witness: model and source now both answer 3 with the iterator `{lim 2, off 2, addNext 1, cur 0, t 'l'}`.
* `string_sim`: `String()` = `Iter.stringBytes` (a Go string is its bytes) through `stringAt` → `stringByteAt`
  (`BufOK`); fuel 2; afterwards every variable reads as before.
* `stringCvt_sim` (`SimCvt`): no hand model existed — `stringCvt` is defined here from `stringBytes`, `int`, `uint`,
  `float`, `FloatFmt.appendFloat`, `intToAscii`, `natToAscii`.  Beside a non-nil error the source returns
  `strconv.FormatInt(0)` = "0" on the integer paths and "" elsewhere (`cvtErrStr`).  Fuel `cvtFuel`.
* `floatToString_sim`: = `FloatFmt.appendFloat`, with and without the shared buffers in the frame
  (`GoApiFloat`: the `appendFloat` chain re-proved on frames that hold the buffers, as `callFun` builds them).
* `nextElement_sim`: the relation `SimNE` of `NextElementBytes`, names as bytes; one more unit of fuel.
-/
namespace SJ.GoApi
open SJ SJ.GoSem SJ.Generated SJ.GoIter SJ.GoObject

attribute [local simp] exec exec1 execCases evalE evalEs isOneOf binop convert ofE copyFields bindParams
  iterFields runFun tblLookup Env.get_set

/-- `Iter.Object(dst)` / `Iter.Array(dst)`  -/
def SimView (tape : Array UInt64) (e : Env) (i : Iter) (o : Out) (r : Res View) : Prop :=
  match r with
  | .ok v => ∃ s, o = .ret s [.bool true, .bool false] ∧ s.tape = tape ∧ iterAt s.env "i" = some i ∧
      viewAt s.env "dst" = some v ∧ s.env.get "dst==nil" = some (.bool false) ∧
      (∀ k, k ∉ ["end", "dst==nil", "dst.off", "dst.lim"] → s.env.get k = e.get k)
  | .error _ => ∃ s, o = .ret s [.bool false, .bool true] ∧ s.tape = tape ∧ (∀ k, k ≠ "end" → s.env.get k = e.get k)
  | .panic => o = .panic
  | .diverge => False

theorem object_sim (i : Iter) (b : Bool) (e : Env) (tape : Array UInt64) (fuel : Nat)
    (hI : iterAt e "i" = some i) (hN : e.get "dst==nil" = some (.bool b))
    (hlim : i.lim < 2^63) (hoff : i.off < 2^63) :
    SimView tape e i (runFun goFuns goIter_Object fuel ⟨e, tape⟩) i.object := by
  obtain ⟨g1, g2, g3, g4, g5⟩ := iterAt_get_i _ _ hI
  simp only [goIter_Object, Iter.object, tagObjectStart, cTagObjectStart]
  by_cases ht : i.t = 123
  · by_cases h1 : i.cur.toNat < i.off
    · simp [g1, g3, g4, g5, ht, h1, lt_ofInt_nat _ _ hoff, SimView]
      intro k hk hk'; exact absurd hk'.symm hk
    · by_cases h2 : i.lim < i.cur.toNat
      · simp [g1, g3, g4, g5, ht, h1, h2, lt_ofInt_nat _ _ hoff, ofInt_lt_nat _ _ hlim, SimView]
        intro k hk hk'; exact absurd hk'.symm hk
      · have h3 : toInt64 i.cur = (i.cur.toNat : Int) := toInt64_small _ (by omega)
        have h4 : (i.cur.toNat : Int) ≤ i.lim := by omega
        cases b
        · simp [g1, g3, g4, g5, ht, h1, h2, lt_ofInt_nat _ _ hoff, ofInt_lt_nat _ _ hlim, SimView, hN, h3, h4]
          refine ⟨?_, ?_, ?_⟩
          · apply iterAt_of_gets <;> simp [Env.get_set, g1, g2, g3, g4, g5]
          · apply viewAt_of_gets <;> simp [Env.get_set]
          · intro k a1 a2 a3 a4
            simp [Ne.symm a1, Ne.symm a2, Ne.symm a3, Ne.symm a4]
        · simp [g1, g3, g4, g5, ht, h1, h2, lt_ofInt_nat _ _ hoff, ofInt_lt_nat _ _ hlim, SimView, hN, h3, h4]
          refine ⟨?_, ?_, ?_⟩
          · apply iterAt_of_gets <;> simp [Env.get_set, g1, g2, g3, g4, g5]
          · apply viewAt_of_gets <;> simp [Env.get_set]
          · intro k a1 a2 a3 a4
            simp [Ne.symm a1, Ne.symm a2, Ne.symm a3, Ne.symm a4]
  · have ht' : (i.t != 123) = true := by simp [ht]
    simp [g4, ht, ht', SimView]

theorem array_sim (i : Iter) (b : Bool) (e : Env) (tape : Array UInt64) (fuel : Nat)
    (hI : iterAt e "i" = some i) (hN : e.get "dst==nil" = some (.bool b)) (hlim : i.lim < 2^63) :
    SimView tape e i (runFun goFuns goIter_Array fuel ⟨e, tape⟩) i.array := by
  obtain ⟨g1, g2, g3, g4, g5⟩ := iterAt_get_i _ _ hI
  simp only [goIter_Array, Iter.array, tagArrayStart, cTagArrayStart]
  by_cases ht : i.t = 91
  · by_cases h2 : i.lim < i.cur.toNat
    · simp [g1, g3, g4, g5, ht, h2, ofInt_lt_nat _ _ hlim, SimView]
      intro k hk hk'; exact absurd hk'.symm hk
    · have h3 : toInt64 i.cur = (i.cur.toNat : Int) := toInt64_small _ (by omega)
      have h4 : (i.cur.toNat : Int) ≤ i.lim := by omega
      cases b
      · simp [g1, g3, g4, g5, ht, h2, ofInt_lt_nat _ _ hlim, SimView, hN, h3, h4]
        refine ⟨?_, ?_, ?_⟩
        · apply iterAt_of_gets <;> simp [Env.get_set, g1, g2, g3, g4, g5]
        · apply viewAt_of_gets <;> simp [Env.get_set]
        · intro k a1 a2 a3 a4
          simp [Ne.symm a1, Ne.symm a2, Ne.symm a3, Ne.symm a4]
      · simp [g1, g3, g4, g5, ht, h2, ofInt_lt_nat _ _ hlim, SimView, hN, h3, h4]
        refine ⟨?_, ?_, ?_⟩
        · apply iterAt_of_gets <;> simp [Env.get_set, g1, g2, g3, g4, g5]
        · apply viewAt_of_gets <;> simp [Env.get_set]
        · intro k a1 a2 a3 a4
          simp [Ne.symm a1, Ne.symm a2, Ne.symm a3, Ne.symm a4]
  · have ht' : (i.t != 91) = true := by simp [ht]
    simp [g4, ht, ht', SimView]

/-! ## `Iter.Root` -/

def rootPre : List Stmt := goIter_Root.body.take 5
def rootCall : Stmt := .callAssign ["#c1"] "dst" "Iter.AdvanceInto" [] []
def rootRet : Stmt := .ret [(.tbl "TagToType" (.v "#c1")), (.not (.v "dst==nil")), (.bool false)]
theorem root_body : goIter_Root.body = rootPre ++ [rootCall, rootRet] := rfl

/-- the variables `Root` writes: the result of the call, the flag, the copy `c`, `*dst` -/
def rootKeys : List String :=
  ["#c1", "dst==nil", "c.off", "c.addNext", "c.cur", "c.t", "c.lim"] ++ fieldsOf "dst"

theorem sub_one_toInt (c : UInt64) (h0 : ¬ c = 0) (h : c.toNat < 2^63) : toInt64 (c - 1) = ((c.toNat - 1 : Nat) : Int) := by
  have h1 : (1 : UInt64) ≤ c := by
    rw [UInt64.le_iff_toNat_le]
    have : c.toNat ≠ 0 := fun hh => h0 (UInt64.toNat_inj.mp hh)
    simp; omega
  have h2 : (c - 1).toNat = c.toNat - 1 := by rw [UInt64.toNat_sub_of_le _ _ h1]; rfl
  rw [toInt64_small _ (by omega), h2]

theorem root_pre_ok (i : Iter) (b : Bool) (e : Env) (tape : Array UInt64) (fuel : Nat)
    (hI : iterAt e "i" = some i) (hN : e.get "dst==nil" = some (.bool b)) (hlim : i.lim < 2^63)
    (ht : i.t = 114) (h1 : ¬ i.cur.toNat > i.lim) (h0 : ¬ i.cur = 0) :
    ∃ e2, exec goFuns fuel rootPre ⟨e, tape⟩ = .normal ⟨e2, tape⟩ ∧ iterAt e2 "i" = some i ∧
      iterAt e2 "dst" = some { i with addNext := 0, lim := i.cur.toNat - 1 } ∧
      e2.get "dst==nil" = some (.bool false) ∧ (∀ k, k ∉ rootKeys → e2.get k = e.get k) := by
  obtain ⟨g1, g2, g3, g4, g5⟩ := iterAt_get_i _ _ hI
  have h3 := sub_one_toInt i.cur h0 (by omega)
  have h4 : ((i.cur.toNat - 1 : Nat) : Int) ≤ i.lim := by omega
  have h1' : ¬ i.lim < i.cur.toNat := by omega
  have hb0 : (i.cur == 0) = false := by simp [h0]
  cases b
  · refine ⟨_, by simp [rootPre, goIter_Root, g1, g2, g3, g4, g5, hN, ht, h1', h0, hb0, ofInt_lt_nat _ _ hlim, h3, h4]; rfl,
      ?_, ?_, ?_, ?_⟩
    · apply iterAt_of_gets <;> simp [Env.get_set, g1, g2, g3, g4, g5, ht]
    · apply iterAt_of_gets <;> simp [Env.get_set, g1, g2, g3, g4, g5, ht]
    · simp [Env.get_set, hN]
    · intro k hk
      simp only [rootKeys, fieldsOf, List.mem_cons, List.mem_append, List.not_mem_nil, or_false, not_or,
        String.reduceAppend] at hk
      obtain ⟨⟨a1, a2, a3, a4, a5, a6, a7⟩, b1, b2, b3, b4, b5⟩ := hk
      simp [Env.get_set, Ne.symm a1, Ne.symm a2, Ne.symm a3, Ne.symm a4, Ne.symm a5, Ne.symm a6, Ne.symm a7,
        Ne.symm b1, Ne.symm b2, Ne.symm b3, Ne.symm b4, Ne.symm b5]
  · refine ⟨_, by simp [rootPre, goIter_Root, g1, g2, g3, g4, g5, hN, ht, h1', h0, hb0, ofInt_lt_nat _ _ hlim, h3, h4]; rfl,
      ?_, ?_, ?_, ?_⟩
    · apply iterAt_of_gets <;> simp [Env.get_set, g1, g2, g3, g4, g5, ht]
    · apply iterAt_of_gets <;> simp [Env.get_set, g1, g2, g3, g4, g5, ht]
    · simp [Env.get_set, hN]
    · intro k hk
      simp only [rootKeys, fieldsOf, List.mem_cons, List.mem_append, List.not_mem_nil, or_false, not_or,
        String.reduceAppend] at hk
      obtain ⟨⟨a1, a2, a3, a4, a5, a6, a7⟩, b1, b2, b3, b4, b5⟩ := hk
      simp [Env.get_set, Ne.symm a1, Ne.symm a2, Ne.symm a3, Ne.symm a4, Ne.symm a5, Ne.symm a6, Ne.symm a7,
        Ne.symm b1, Ne.symm b2, Ne.symm b3, Ne.symm b4, Ne.symm b5]

/-- `Iter.Root(dst)` against the hand model `Iter.root`, `Type` included: what the source returns for each result of
    the model.  The returned `Type` is `TagToType[tag]` for the tag `AdvanceInto` returned, on both sides
    (`root_type`: it is `tagToType d.t`). -/
def SimRoot (tape : Array UInt64) (e : Env) (b : Bool) (i : Iter) (o : Out) (r : Res (UInt8 × Iter)) : Prop :=
  match r with
  | .ok (ty, d) => ∃ s, o = .ret s [.u8 ty, .bool true, .bool false] ∧ s.tape = tape ∧
      iterAt s.env "i" = some i ∧ iterAt s.env "dst" = some d ∧ (∀ k, k ∉ rootKeys → s.env.get k = e.get k)
  | .error _ => o = .ret ⟨e, tape⟩ [.u8 0, .bool (!b), .bool true]
  | .panic => o = .panic
  | .diverge => False

/-- **`Root(dst)` IS `Iter.root`**, unconditionally: both for `dst == nil` (a fresh copy of `i`) and for a caller's
    `dst` (only `cur`, `off`, `t` copied, `addNext`, `lim` set: all five fields then coincide with the copy), the
    returned `Type` included.  Fuel `i.lim + 8`. -/
theorem root_sim (pj : PJ) (i : Iter) (b : Bool) (e : Env) (fuel : Nat)
    (hI : iterAt e "i" = some i) (hN : e.get "dst==nil" = some (.bool b))
    (hl : i.lim ≤ pj.tape.size) (hlim : i.lim < 2^63) (hf : i.lim + 8 ≤ fuel) :
    SimRoot pj.tape e b i (runFun goFuns goIter_Root fuel ⟨e, pj.tape⟩) (i.root pj) := by
  obtain ⟨g1, g2, g3, g4, g5⟩ := iterAt_get_i _ _ hI
  unfold Iter.root
  simp only [tagRoot, cTagRoot]
  by_cases ht : i.t = 114
  · by_cases h1 : i.cur.toNat > i.lim
    · have h1' : i.lim < i.cur.toNat := h1
      simp [goIter_Root, g3, g4, g5, hN, ht, h1, h1', ofInt_lt_nat _ _ hlim, SimRoot]
    · by_cases h0 : i.cur = 0
      · have h1' : ¬ i.lim < i.cur.toNat := h1
        simp [goIter_Root, g3, g4, g5, hN, ht, h1, h1', h0, ofInt_lt_nat _ _ hlim, SimRoot]
      · obtain ⟨e2, hpre, hI2, hD2, hN2, hfr2⟩ := root_pre_ok i b e pj.tape fuel hI hN hlim ht h1 h0
        have hb0 : (i.cur == 0) = false := by simp [h0]
        have hc0 : i.cur.toNat ≠ 0 := fun hh => h0 (UInt64.toNat_inj.mp hh)
        have hcall := callAssign_into_dst pj e2 fuel _ hD2 (by simp only; omega) (by unfold fuelFor; simp only; omega)
        have hkey : exec goFuns fuel goIter_Root.body ⟨e, pj.tape⟩ =
            (match exec1 goFuns fuel rootCall ⟨e2, pj.tape⟩ with
             | .normal s' => exec goFuns fuel [rootRet] s'
             | o => o) := by
          rw [root_body, exec_append, hpre]
          simp only []
          rw [exec]
          generalize exec1 goFuns fuel rootCall _ = out
          cases out <;> rfl
        have ht' : (i.t != 114) = false := by simp [ht]
        simp only [ht', Bool.false_eq_true, if_false, h1, hb0, or_self]
        unfold runFun
        rw [hkey]
        unfold rootCall
        cases hr : Iter.advanceInto pj { i with addNext := 0, lim := i.cur.toNat - 1 } with
        | ok r =>
          obtain ⟨d', tg⟩ := r
          rw [hr] at hcall
          obtain ⟨e3, hx, hD3, hc3, hfr3⟩ := hcall
          have htg := advanceInto_tag pj _ _ _ hr
          have hN3 : e3.get "dst==nil" = some (.bool false) := by rw [hfr3 _ (by decide)]; exact hN2
          rw [hx]
          simp only [Res.bind_ok, SimRoot]
          refine ⟨⟨e3, pj.tape⟩, ?_, rfl, ?_, hD3, ?_⟩
          · simp [rootRet, hc3, hN3, htg, tagToType]
          · rw [← hI2]
            apply iterAt_congr
            intro k hk
            exact hfr3 k (by revert k; decide)
          · intro k hk
            rw [hfr3 k (by
              simp only [rootKeys, List.mem_append, not_or] at hk
              intro hh
              simp only [List.mem_cons] at hh
              rcases hh with rfl | hh
              · exact hk.1 (by decide)
              · exact hk.2 hh)]
            exact hfr2 k hk
        | panic =>
          rw [hr] at hcall
          rw [hcall]
          simp [Res.bind, bind, SimRoot]
        | error _ => rw [hr] at hcall; exact hcall.elim
        | diverge => rw [hr] at hcall; exact hcall.elim
  · have ht' : (i.t != 114) = true := by simp [ht]
    simp [goIter_Root, g4, hN, ht, ht', SimRoot]

/-- the same statement under its earlier name (it used to be the tie up to the returned `Type`) -/
theorem root_sim_exact (pj : PJ) (i : Iter) (b : Bool) (e : Env) (fuel : Nat)
    (hI : iterAt e "i" = some i) (hN : e.get "dst==nil" = some (.bool b))
    (hl : i.lim ≤ pj.tape.size) (hlim : i.lim < 2^63) (hf : i.lim + 8 ≤ fuel) :
    SimRoot pj.tape e b i (runFun goFuns goIter_Root fuel ⟨e, pj.tape⟩) (i.root pj) :=
  root_sim pj i b e fuel hI hN hl hlim hf

/-- the model reports `Tag.Type()` of the tag `AdvanceInto` returned, which is the tag of the new iterator:
    `TagToType[d.t]` — no bounds test (unlike `Iter.Type()`) -/
theorem root_type (pj : PJ) (i : Iter) (ty : UInt8) (d : Iter) (h : i.root pj = .ok (ty, d)) : ty = tagToType d.t := by
  unfold Iter.root at h
  split at h
  · cases h
  · split at h
    · cases h
    · simp only [] at h
      cases hr : Iter.advanceInto pj { i with addNext := 0, lim := i.cur.toNat - 1 } with
      | ok p =>
        obtain ⟨d', t⟩ := p
        rw [hr] at h
        simp only [Res.bind_ok, Res.ok.injEq, Prod.mk.injEq] at h
        obtain ⟨rfl, rfl⟩ := h
        rw [advanceInto_tag pj _ _ _ hr]
      | error e => rw [hr] at h; cases h
      | panic => rw [hr] at h; cases h
      | diverge => rw [hr] at h; cases h

/-- inside the view (`off + addNext ≤ lim`), or when the tag has no type, it is also `Iter.Type()` of the new iterator -/
theorem root_type_eq_type (pj : PJ) (i : Iter) (ty : UInt8) (d : Iter) (hr : i.root pj = .ok (ty, d))
    (h : (d.off : Int) + d.addNext ≤ d.lim ∨ tagToType d.t = typeNone) : ty = d.type := by
  rw [root_type pj i ty d hr]
  unfold Iter.type
  rcases h with h1 | h1
  · rw [if_neg (by omega)]
  · split
    · exact h1
    · rfl

/-! ### the former witness: a root whose payload cuts its first (two-word) element in half -/

/-- tape `[root|3, integer, 5, root|0]`: the root's payload 3 puts the end of its view after the integer's tag word -/
def rootWitnessPJ : PJ := { tape := #[mkWord 114 3, mkWord 108 0, 5, mkWord 114 0], strings := #[], msg := #[] }
/-- the iterator `pj.Iter(); Advance()` would produce on it -/
def rootWitnessI : Iter := { lim := 4, off := 1, addNext := 0, cur := 3, t := 114 }
def rootWitnessD : Iter := { lim := 2, off := 2, addNext := 1, cur := 0, t := 108 }

theorem rw1 : rootWitnessPJ.tape[1]? = some (mkWord 108 0) := rfl
theorem rwtag : tagOf (mkWord 108 0) = 108 := by decide
theorem rwpay : payloadOf (mkWord 108 0) = 0 := by decide

theorem rootWitness_tag : tagToType rootWitnessD.t = 3 := by decide +kernel

/-- the model on the witness: the element's `Type` is `TypeInt` (3), although `off + addNext = 3 > lim = 2`
    (`Iter.Type()` of the returned iterator is `TypeNone`: the earlier model's answer) -/
theorem rootWitness_model : rootWitnessI.root rootWitnessPJ = .ok (3, rootWitnessD) := by
  unfold Iter.root
  simp [rootWitnessI, tagRoot]
  unfold Iter.advanceInto
  simp [Iter.bump]
  rw [Iter.advanceIntoLoop]
  simp [Iter.rdT, rd, rw1, rwtag, rwpay, tagNop]
  have hcn : ({ lim := 2, off := 2, addNext := 0, cur := 0, t := 108 } : Iter).calcNext true =
      { lim := 2, off := 2, addNext := 1, cur := 0, t := 108 } := by decide
  rw [hcn]
  have h108 : tagToType 108 = 3 := rootWitness_tag
  simp [rootWitnessD, h108]

example : rootWitnessD.type = 0 := by decide

/-- the source on the witness, with either kind of `dst`: the element's `Type` is `TypeInt` (3), as the model says -/
theorem rootWitness_source (b : Bool) (e : Env) (hI : iterAt e "i" = some rootWitnessI)
    (hN : e.get "dst==nil" = some (.bool b)) :
    ∃ s, runFun goFuns goIter_Root 12 ⟨e, rootWitnessPJ.tape⟩ = .ret s [.u8 3, .bool true, .bool false] ∧
      iterAt s.env "dst" = some rootWitnessD := by
  have h := root_sim rootWitnessPJ rootWitnessI b e 12 hI hN (by decide) (by decide) (by decide)
  have h' : SimRoot rootWitnessPJ.tape e b rootWitnessI (runFun goFuns goIter_Root 12 ⟨e, rootWitnessPJ.tape⟩)
      (.ok (3, rootWitnessD)) := rootWitness_model ▸ h
  obtain ⟨s, h1, _, _, h4, _⟩ := h'
  exact ⟨s, h1, h4⟩

/-! ## `Iter.String` -/

/-- `String()` IS `Iter.stringBytes` (a Go `string` is its bytes): on any store holding the receiver and the two
    buffers; two units of fuel pay for the calls of `stringAt` and `stringByteAt`; afterwards every variable reads
    as before. -/
theorem string_sim (pj : PJ) (i : Iter) (e : Env) (hl : i.lim ≤ pj.tape.size) (hb : BufOK pj) (fuel : Nat) (hf : 2 ≤ fuel)
    (hI : iterAt e "i" = some i) (hS : e.get "Strings.B" = some (.bytes pj.strings))
    (hM : e.get "Message" = some (.bytes pj.msg)) :
    SimBytes pj (fun e' => ∀ k, e'.get k = e.get k)
      (runFun goFuns goIter_String fuel ⟨e, pj.tape⟩) (i.stringBytes pj) := by
  obtain ⟨f, rfl⟩ : ∃ f, fuel = f + 2 := ⟨fuel - 2, by omega⟩
  obtain ⟨g1, g2, g3, g4, g5⟩ := iterAt_get_i _ _ hI
  unfold Iter.stringBytes Iter.valWord Iter.rdT
  simp only [goIter_String, tagString]
  by_cases ht : i.t = 34
  · by_cases ho : i.off ≥ i.lim
    · have ho' : (i.lim : Int) ≤ i.off := by omega
      simp [g1, g4, g5, ht, ho, ho', SimBytes, Keeps, hS, hM]
    · have hlt : i.off < i.lim := by omega
      have hr : pj.tape[i.off]? = some (pj.tape[i.off]'(by omega)) := by simp
      have ho' : ¬ (i.lim : Int) ≤ i.off := by omega
      have hcall := callFun_sa ⟨e, pj.tape⟩ pj "i" i.lim (.v "i.cur") (.tapeAt "i" (.v "i.off")) i.cur
        (pj.tape[i.off]'(by omega)) f hb (by simpa using g5) hS hM (by simp [g3])
        (by simp [g1, g5, hlt, hr])
      simp only [String.reduceAppend] at hcall
      simp [g1, g4, g5, ht, ho, ho', rd, hr, -exec, -exec1]
      simp [g1, g4, g5, ht, ho, ho', hcall]
      have hget : ∀ k, (((e.set "i.lim" (.int i.lim)).set "Strings.B" (.bytes pj.strings)).set "Message"
          (.bytes pj.msg)).get k = e.get k := get_reset3 e _ _ _ _ _ _ g5 hS hM
      rcases stringByteAt_cases pj i.cur (pj.tape[i.off]'(by omega)) with ⟨b, h⟩ | h
      · rw [h]
        exact ⟨_, rfl, ⟨rfl, by rw [hget]; exact hS, by rw [hget]; exact hM⟩, hget⟩
      · rw [h]
        exact ⟨_, rfl, ⟨rfl, by rw [hget]; exact hS, by rw [hget]; exact hM⟩, hget⟩
  · have ht' : (i.t != 34) = true := by simp [ht]
    simp [g1, g4, g5, ht, ht', SimBytes, Keeps, hS, hM]

/-! ## `Object.NextElement` -/

theorem ne_run_ret (e : Env) (tape : Array UInt64) (f : Nat) (s' : St) (a b c : Val)
    (hc : callFun goFuns f "o" "Object.NextElementBytes" ["dst"] []
      ⟨((e.set "name" (.bytes #[])).set "t" (.u8 0)).set "err" (.bool false), tape⟩ = .ret s' [a, b, c]) :
    runFun goFuns goObject_NextElement (f + 1) ⟨e, tape⟩ =
      .ret ⟨((s'.env.set "n" a).set "t" b).set "err" c, s'.tape⟩ [a, b, c] := by
  simp [goObject_NextElement, hc, assignTargets]

theorem ne_run_panic (e : Env) (tape : Array UInt64) (f : Nat)
    (hc : callFun goFuns f "o" "Object.NextElementBytes" ["dst"] []
      ⟨((e.set "name" (.bytes #[])).set "t" (.u8 0)).set "err" (.bool false), tape⟩ = .panic) :
    runFun goFuns goObject_NextElement (f + 1) ⟨e, tape⟩ = .panic := by
  simp [goObject_NextElement, hc]

theorem neInit_set3 {pj : PJ} {v : View} {d : Iter} {s : St} (h : NEInit pj v d s) (a b c : Val) :
    NEInit pj v d ⟨((s.env.set "n" a).set "t" b).set "err" c, s.tape⟩ := by
  obtain ⟨e, t⟩ := s
  exact ((h.set "n" a (by decide)).set "t" b (by decide)).set "err" c (by decide)

/-- `NextElement(dst)` IS `View.nextElementBytes` (the name, a Go `string`, as its bytes): the same relation `SimNE`
    as for `NextElementBytes`, on any store holding the receiver `o`, `*dst` and the buffers; one more unit of fuel
    for the call. -/
theorem nextElement_sim (pj : PJ) (hb : BufOK pj) (v : View) (d0 : Iter) (e : Env) (hl : v.lim ≤ pj.tape.size)
    (fuel mfuel : Nat) (hf : v.lim - v.off + 2 ≤ fuel) (hm : v.lim - v.off + 1 ≤ mfuel)
    (hi : NEInit pj v d0 ⟨e, pj.tape⟩) :
    SimNE pj d0 (runFun goFuns goObject_NextElement fuel ⟨e, pj.tape⟩) (View.nextElementBytes pj v mfuel) := by
  obtain ⟨f, rfl⟩ : ∃ f, fuel = f + 1 := ⟨fuel - 1, by omega⟩
  have hi3 := ((hi.set "name" (.bytes #[]) (by decide)).set "t" (.u8 0) (by decide)).set "err" (.bool false) (by decide)
  have hcall := callFun_neb ⟨((e.set "name" (.bytes #[])).set "t" (.u8 0)).set "err" (.bool false), pj.tape⟩ pj v d0 f hi3
  have hsim := SimNE_back pj d0 ⟨((e.set "name" (.bytes #[])).set "t" (.u8 0)).set "err" (.bool false), pj.tape⟩ _ _
    (neb_exec pj hb (v.lim - v.off) v d0 f mfuel (neEnv v d0 pj) (Nat.le_refl _) (by omega) hm hl (NEInit_neEnv pj v d0))
  rw [← hcall] at hsim
  cases hr : View.nextElementBytes pj v mfuel with
  | ok p =>
    obtain ⟨v', x⟩ := p
    rw [hr] at hsim
    cases x with
    | none =>
      obtain ⟨s', hs', hi'⟩ := hsim
      rw [ne_run_ret e pj.tape f s' _ _ _ hs']
      exact ⟨_, rfl, neInit_set3 hi' _ _ _⟩
    | some y =>
      obtain ⟨name, d, ty⟩ := y
      obtain ⟨s', hs', hi'⟩ := hsim
      rw [ne_run_ret e pj.tape f s' _ _ _ hs']
      exact ⟨_, rfl, neInit_set3 hi' _ _ _⟩
  | error err =>
    rw [hr] at hsim
    obtain ⟨s', v', d', hs', hi'⟩ := hsim
    rw [ne_run_ret e pj.tape f s' _ _ _ hs']
    exact ⟨_, v', d', rfl, neInit_set3 hi' _ _ _⟩
  | panic =>
    rw [hr] at hsim
    simp only [SimNE] at hsim
    rw [ne_run_panic e pj.tape f hsim]
    rfl
  | diverge => rw [hr] at hsim; exact hsim.elim

/-! ## `Iter.StringCvt` -/

/-- Hand model of `i.StringCvt()` (there was none): by cases on the tag, from the model's accessors.  A Go `string`
    is its bytes. -/
def stringCvt (pj : PJ) (i : Iter) : Res Bytes :=
  if i.t = tagString then i.stringBytes pj
  else if i.t = tagInteger then do let v ← i.int pj; .ok (intToAscii v)
  else if i.t = tagUint then do let v ← i.uint pj; .ok (FloatFmt.natToAscii v)
  else if i.t = tagFloat then do
    let v ← i.float pj
    match FloatFmt.appendFloat v with
    | some b => .ok b
    | none => .error .generic
  else if i.t = tagBoolFalse then .ok #[102, 97, 108, 115, 101]
  else if i.t = tagBoolTrue then .ok #[116, 114, 117, 101]
  else if i.t = tagNull then .ok #[110, 117, 108, 108]
  else .error .generic

/-- the string returned beside a non-nil error: `strconv.FormatInt(0, 10)` on the integer paths, `""` elsewhere -/
def cvtErrStr (i : Iter) : Bytes := if i.t = tagInteger ∨ i.t = tagUint then #[48] else #[]

/-- functions returning `(string, error)`, the string beside a non-nil error being `errStr` -/
def SimCvtE (pj : PJ) (i : Iter) (errStr : Bytes) (o : Out) (r : Res Bytes) : Prop :=
  match r with
  | .ok b => ∃ s, o = .ret s [.bytes b, .bool false] ∧ Keeps pj s ∧ iterAt s.env "i" = some i
  | .error _ => ∃ s, o = .ret s [.bytes errStr, .bool true] ∧ Keeps pj s ∧ iterAt s.env "i" = some i
  | .panic => o = .panic
  | .diverge => False

/-- `StringCvt()`: model `.ok b` ⇔ `(b, nil)`; model `.error _` ⇔ `(cvtErrStr i, non-nil)`; panic ⇔ panic; the document
    and the receiver are untouched -/
def SimCvt (pj : PJ) (i : Iter) (o : Out) (r : Res Bytes) : Prop := SimCvtE pj i (cvtErrStr i) o r

theorem SimCvtE.final {pj : PJ} {i : Iter} {es : Bytes} {o : Out} {r : Res Bytes} (h : SimCvtE pj i es o r) :
    Out.final o = true := by
  cases r with
  | ok b => obtain ⟨s, rfl, _⟩ := h; rfl
  | error e => obtain ⟨s, rfl, _⟩ := h; rfl
  | panic => simp only [SimCvtE] at h; subst h; rfl
  | diverge => exact h.elim

def cvtSwitch : Stmt := goIter_StringCvt.body.headD .brk
def cvtCases : List (List Expr × List Stmt) := match cvtSwitch with | .switch _ cs _ => cs | _ => []
def cvtCase (k : Nat) : List Stmt := (cvtCases.getD k ([], [])).2
def cvtDflt : Stmt := .ret [.litB [], .bool true]
theorem cvt_body : goIter_StringCvt.body = [.switch (.v "i.t") cvtCases [], cvtDflt] := rfl

theorem cvt_sw (e : Env) (tape : Array UInt64) (f : Nat) (k : Nat) (t : UInt8) (ht : e.get "i.t" = some (.u8 t))
    (hk : (k, t) ∈ [(0, (34 : UInt8)), (1, 108), (2, 117), (3, 100), (4, 102), (5, 116), (6, 110)]) :
    exec1 goFuns f (.switch (.v "i.t") cvtCases []) ⟨e, tape⟩ = exec goFuns f (cvtCase k) ⟨e, tape⟩ := by
  simp only [List.mem_cons, Prod.mk.injEq, List.not_mem_nil, or_false] at hk
  rw [exec1]
  rcases hk with ⟨rfl, rfl⟩ | ⟨rfl, rfl⟩ | ⟨rfl, rfl⟩ | ⟨rfl, rfl⟩ | ⟨rfl, rfl⟩ | ⟨rfl, rfl⟩ | ⟨rfl, rfl⟩ <;>
    simp [cvtCases, cvtCase, cvtSwitch, goIter_StringCvt, ht, -exec, -exec1]

theorem cvt_sw_other (e : Env) (tape : Array UInt64) (f : Nat) (t : UInt8) (ht : e.get "i.t" = some (.u8 t))
    (h : t ∉ [34, 108, 117, 100, 102, 116, (110 : UInt8)]) :
    exec1 goFuns f (.switch (.v "i.t") cvtCases []) ⟨e, tape⟩ = .normal ⟨e, tape⟩ := by
  simp only [List.mem_cons, List.not_mem_nil, or_false, not_or] at h
  obtain ⟨h1, h2, h3, h4, h5, h6, h7⟩ := h
  rw [exec1]
  simp [cvtCases, cvtSwitch, goIter_StringCvt, ht, -exec, -exec1, Ne.symm h1, Ne.symm h2,
    Ne.symm h3, Ne.symm h4, Ne.symm h5, Ne.symm h6, Ne.symm h7]
  simp

open SJ.GoMarshal in
theorem afterCall_keeps (e : Env) (pj : PJ) (j : Iter) : Keeps pj ⟨afterCall e pj j, pj.tape⟩ := by
  refine ⟨rfl, ?_, ?_⟩ <;> simp [afterCall, Env.get_set]

open SJ.GoMarshal in
theorem afterCall_iter (e : Env) (pj : PJ) (j : Iter) : iterAt (afterCall e pj j) "i" = some j := by
  unfold afterCall
  rw [iterAt_set_ne _ _ _ _ (by decide), iterAt_set_ne _ _ _ _ (by decide)]
  exact iterAt_setIter_i _ _

/-- the switch decided, the function ends with the outcome of the chosen case -/
theorem cvt_run_final (e : Env) (tape : Array UInt64) (F : Nat) (o : Out)
    (h : exec1 goFuns F (.switch (.v "i.t") cvtCases []) ⟨e, tape⟩ = o) (hfin : Out.final o = true) :
    runFun goFuns goIter_StringCvt F ⟨e, tape⟩ = o := by
  have h1 : exec goFuns F goIter_StringCvt.body ⟨e, tape⟩ = o := by
    rw [cvt_body, exec_cons_final _ _ _ _ _ (by rw [h]; exact hfin), h]
  rw [runFun_final _ _ _ _ (by rw [h1]; exact hfin), h1]

/-- fuel for `StringCvt`: three nested calls on the string path; on the float path the calls of `floatToString`,
    `appendFloat` and what `appendFloat` needs for the digits of the value -/
def cvtFuel (pj : PJ) (i : Iter) : Nat :=
  3 + (match i.float pj with | .ok bits => GoFloatFmt.floatFuel bits | _ => 0)

open SJ.GoMarshal in
theorem cvt_string (pj : PJ) (i : Iter) (e : Env) (hl : i.lim ≤ pj.tape.size) (hb : BufOK pj) (F : Nat) (hf : 2 ≤ F)
    (hI : iterAt e "i" = some i) (hS : e.get "Strings.B" = some (.bytes pj.strings))
    (hM : e.get "Message" = some (.bytes pj.msg)) :
    SimBytes pj (fun e' => iterAt e' "i" = some i)
      (exec goFuns (F + 1) (cvtCase 0) ⟨e, pj.tape⟩) (i.stringBytes pj) := by
  have hc : cvtCase 0 = [.retCall "i" "Iter.String" [] []] := rfl
  have hfn : goFuns "Iter.String" = some { recv := "i", params := [], body := goIter_String.body } := rfl
  have hcall := callFun_i ⟨e, pj.tape⟩ pj "Iter.String" goIter_String.body i F hfn hI hS hM
  have hsim := string_sim pj i (envOf "i" i ++ bufEnv pj) hl hb F hf (frame_iter pj i) (frame_keeps pj i).2.1
    (frame_keeps pj i).2.2
  have hstep : exec goFuns (F + 1) (cvtCase 0) ⟨e, pj.tape⟩ =
      (match callFun goFuns F "i" "Iter.String" [] [] ⟨e, pj.tape⟩ with
       | .normal s' => .normal s'
       | o => o) := by
    rw [hc, exec, exec1]
    generalize callFun goFuns F "i" "Iter.String" [] [] ⟨e, pj.tape⟩ = out
    cases out <;> simp
  rw [hstep, hcall]
  simp only []
  cases hr : i.stringBytes pj with
  | ok b =>
    rw [hr] at hsim
    obtain ⟨s', hx, hK', hkeep⟩ := hsim
    have hx' := runFun_ret_inv hx (by simp)
    have hI' : iterAt s'.env "i" = some i := by
      rw [← frame_iter pj i]
      exact iterAt_congr _ _ _ (fun k _ => hkeep k)
    rw [hx', backI_ret _ s' _ pj i hI' hK']
    exact ⟨_, rfl, afterCall_keeps _ _ _, afterCall_iter _ _ _⟩
  | error err =>
    rw [hr] at hsim
    obtain ⟨s', hx, hK', hkeep⟩ := hsim
    have hx' := runFun_ret_inv hx (by simp)
    have hI' : iterAt s'.env "i" = some i := by
      rw [← frame_iter pj i]
      exact iterAt_congr _ _ _ (fun k _ => hkeep k)
    rw [hx', backI_ret _ s' _ pj i hI' hK']
    exact ⟨_, rfl, afterCall_keeps _ _ _, afterCall_iter _ _ _⟩
  | panic =>
    rw [hr] at hsim
    simp only [SimBytes] at hsim
    have hx' := runFun_panic_inv hsim
    rw [hx']
    rfl
  | diverge => rw [hr] at hsim; exact hsim.elim

theorem keeps_iter_set3 {pj : PJ} {e : Env} {i : Iter} (hK : Keeps pj ⟨e, pj.tape⟩) (hI : iterAt e "i" = some i)
    (k1 k2 k3 : String) (x1 x2 x3 : Val) (h1 : k1 ∉ "Strings.B" :: "Message" :: fieldsOf "i")
    (h2 : k2 ∉ "Strings.B" :: "Message" :: fieldsOf "i") (h3 : k3 ∉ "Strings.B" :: "Message" :: fieldsOf "i") :
    Keeps pj ⟨((e.set k1 x1).set k2 x2).set k3 x3, pj.tape⟩ ∧ iterAt (((e.set k1 x1).set k2 x2).set k3 x3) "i" = some i := by
  simp only [List.mem_cons, not_or] at h1 h2 h3
  constructor
  · exact GoMarshal.keeps_set (GoMarshal.keeps_set (GoMarshal.keeps_set hK k1 x1 h1.1 h1.2.1) k2 x2 h2.1 h2.2.1) k3 x3
      h3.1 h3.2.1
  · rw [iterAt_set_ne _ _ _ _ h3.2.2, iterAt_set_ne _ _ _ _ h2.2.2, iterAt_set_ne _ _ _ _ h1.2.2]
    exact hI

open SJ.GoMarshal in
theorem cvt_int (pj : PJ) (i : Iter) (e : Env) (F : Nat) (hI : iterAt e "i" = some i) (hK : Keeps pj ⟨e, pj.tape⟩) :
    SimCvtE pj i #[48] (exec goFuns (F + 1) (cvtCase 1) ⟨e, pj.tape⟩)
      (do let v ← i.int pj; .ok (intToAscii v)) := by
  have hc : cvtCase 1 = [.callAssign ["v", "err"] "i" "Iter.Int" [] [],
      .extAssign ["#c1"] "AppendInt" [.nilB, (.v "v")], .ret [(.v "#c1"), (.v "err")]] := rfl
  have hcall := call_val pj ⟨e, pj.tape⟩ i "Iter.Int" goIter_Int.body Val.int (.int 0) "v" "err" rfl rfl F (i.int pj)
    rfl (int_simK pj i F) hI hK
  rw [hc, exec]
  have hA := afterCall_keeps e pj i
  have hB := afterCall_iter e pj i
  cases hr : i.int pj with
  | ok z =>
    rw [hr] at hcall
    simp only [CallPost] at hcall
    rw [hcall]
    obtain ⟨k1, k2⟩ := keeps_iter_set3 hA hB "v" "err" "#c1" (.int z) (.bool false) (.bytes (#[] ++ intToAscii z))
      (by decide) (by decide) (by decide)
    refine ⟨_, ?_, k1, k2⟩
    simp [extCall, assignTargets, Env.get_set]
  | error err =>
    rw [hr] at hcall
    simp only [CallPost] at hcall
    rw [hcall]
    obtain ⟨k1, k2⟩ := keeps_iter_set3 hA hB "v" "err" "#c1" (.int 0) (.bool true) (.bytes (#[] ++ intToAscii 0))
      (by decide) (by decide) (by decide)
    refine ⟨_, ?_, k1, k2⟩
    simp [extCall, assignTargets, Env.get_set]
    decide
  | panic =>
    rw [hr] at hcall
    simp only [CallPost] at hcall
    rw [hcall]
    rfl
  | diverge => rw [hr] at hcall; exact hcall.elim

open SJ.GoMarshal in
theorem cvt_uint (pj : PJ) (i : Iter) (e : Env) (F : Nat) (hI : iterAt e "i" = some i) (hK : Keeps pj ⟨e, pj.tape⟩) :
    SimCvtE pj i #[48] (exec goFuns (F + 1) (cvtCase 2) ⟨e, pj.tape⟩)
      (do let v ← i.uint pj; .ok (FloatFmt.natToAscii v)) := by
  have hc : cvtCase 2 = [.callAssign ["v", "err"] "i" "Iter.Uint" [] [],
      .extAssign ["#c2"] "AppendUint" [.nilB, (.v "v")], .ret [(.v "#c2"), (.v "err")]] := rfl
  have hcall := call_val pj ⟨e, pj.tape⟩ i "Iter.Uint" goIter_Uint.body (fun n => Val.u64 (UInt64.ofNat n)) (.u64 0)
    "v" "err" rfl rfl F (i.uint pj) rfl (uint_simK pj i F) hI hK
  rw [hc, exec]
  have hA := afterCall_keeps e pj i
  have hB := afterCall_iter e pj i
  cases hr : i.uint pj with
  | ok n =>
    rw [hr] at hcall
    simp only [CallPost] at hcall
    rw [hcall]
    have hn : (UInt64.ofNat n).toNat = n := by
      have := GoNum.uint_lt pj i n hr
      simp [UInt64.toNat_ofNat']
      omega
    obtain ⟨k1, k2⟩ := keeps_iter_set3 hA hB "v" "err" "#c2" (.u64 (UInt64.ofNat n)) (.bool false)
      (.bytes (#[] ++ FloatFmt.natToAscii n)) (by decide) (by decide) (by decide)
    refine ⟨_, ?_, k1, k2⟩
    simp [extCall, assignTargets, Env.get_set, hn]
  | error err =>
    rw [hr] at hcall
    simp only [CallPost] at hcall
    rw [hcall]
    obtain ⟨k1, k2⟩ := keeps_iter_set3 hA hB "v" "err" "#c2" (.u64 0) (.bool true) (.bytes (#[] ++ FloatFmt.natToAscii 0))
      (by decide) (by decide) (by decide)
    refine ⟨_, ?_, k1, k2⟩
    simp [extCall, assignTargets, Env.get_set]
    decide
  | panic =>
    rw [hr] at hcall
    simp only [CallPost] at hcall
    rw [hcall]
    rfl
  | diverge => rw [hr] at hcall; exact hcall.elim

open SJ.GoMarshal SJ.GoApiFloat in
theorem cvt_float (pj : PJ) (i : Iter) (e : Env) (F : Nat) (hI : iterAt e "i" = some i) (hK : Keeps pj ⟨e, pj.tape⟩)
    (hf : ∀ bits, i.float pj = .ok bits → GoFloatFmt.floatFuel bits + 1 ≤ F) :
    SimCvtE pj i #[] (exec goFuns (F + 1) (cvtCase 3) ⟨e, pj.tape⟩)
      (do let v ← i.float pj
          match FloatFmt.appendFloat v with
          | some b => .ok b
          | none => .error .generic) := by
  have hc : cvtCase 3 = [.callAssign ["v", "err"] "i" "Iter.Float" [] [],
      .ite (.bin .ne (.v "err") (.bool false)) [.ret [(.litB []), (.v "err")]] [],
      .retCall "" "floatToString" [] [(.v "v")]] := rfl
  have hcall := call_val pj ⟨e, pj.tape⟩ i "Iter.Float" goIter_Float.body Val.u64 (.u64 0)
    "v" "err" rfl rfl F (i.float pj) rfl (float_simK pj i F) hI hK
  rw [hc, exec]
  have hA := afterCall_keeps e pj i
  have hB := afterCall_iter e pj i
  cases hr : i.float pj with
  | ok bits =>
    rw [hr] at hcall
    simp only [CallPost] at hcall
    rw [hcall]
    simp only []
    have hK2 : Keeps pj ⟨((afterCall e pj i).set "v" (.u64 bits)).set "err" (.bool false), pj.tape⟩ :=
      keeps_set (keeps_set hA "v" _ (by decide) (by decide)) "err" _ (by decide) (by decide)
    have hI2 : iterAt (((afterCall e pj i).set "v" (.u64 bits)).set "err" (.bool false)) "i" = some i := by
      rw [iterAt_set_ne _ _ _ _ (by decide), iterAt_set_ne _ _ _ _ (by decide)]; exact hB
    have hfts := callFun_floatToString ⟨((afterCall e pj i).set "v" (.u64 bits)).set "err" (.bool false), pj.tape⟩ F
      (.v "v") pj.strings pj.msg bits hK2.2.1 hK2.2.2 (by simp [Env.get_set]) (hf bits hr)
    have hite : exec1 goFuns (F + 1) (.ite (.bin .ne (.v "err") (.bool false)) [.ret [(.litB []), (.v "err")]] [])
        ⟨((afterCall e pj i).set "v" (.u64 bits)).set "err" (.bool false), pj.tape⟩ =
        .normal ⟨((afterCall e pj i).set "v" (.u64 bits)).set "err" (.bool false), pj.tape⟩ := by
      simp [Env.get_set]
    rw [exec, hite]
    simp only []
    rw [exec, exec1, hfts]
    simp only [Res.bind_ok]
    have hK3 : Keeps pj ⟨((((afterCall e pj i).set "v" (.u64 bits)).set "err" (.bool false)).set "Strings.B"
        (.bytes pj.strings)).set "Message" (.bytes pj.msg), pj.tape⟩ := by
      refine ⟨rfl, ?_, ?_⟩ <;> simp [Env.get_set]
    have hI3 : iterAt (((((afterCall e pj i).set "v" (.u64 bits)).set "err" (.bool false)).set "Strings.B"
        (.bytes pj.strings)).set "Message" (.bytes pj.msg)) "i" = some i := by
      rw [iterAt_set_ne _ _ _ _ (by decide), iterAt_set_ne _ _ _ _ (by decide)]; exact hI2
    unfold ftsVals
    cases ha : FloatFmt.appendFloat bits with
    | some b => exact ⟨_, rfl, hK3, hI3⟩
    | none => exact ⟨_, rfl, hK3, hI3⟩
  | error err =>
    rw [hr] at hcall
    simp only [CallPost] at hcall
    rw [hcall]
    have hK2 : Keeps pj ⟨((afterCall e pj i).set "v" (.u64 0)).set "err" (.bool true), pj.tape⟩ :=
      keeps_set (keeps_set hA "v" _ (by decide) (by decide)) "err" _ (by decide) (by decide)
    have hI2 : iterAt (((afterCall e pj i).set "v" (.u64 0)).set "err" (.bool true)) "i" = some i := by
      rw [iterAt_set_ne _ _ _ _ (by decide), iterAt_set_ne _ _ _ _ (by decide)]; exact hB
    refine ⟨_, ?_, hK2, hI2⟩
    simp [Env.get_set]
  | panic =>
    rw [hr] at hcall
    simp only [CallPost] at hcall
    rw [hcall]
    rfl
  | diverge => rw [hr] at hcall; exact hcall.elim

theorem simBytes_toCvt {pj : PJ} {i : Iter} {o : Out} {r : Res Bytes}
    (h : SimBytes pj (fun e' => iterAt e' "i" = some i) o r) : SimCvtE pj i #[] o r := by
  cases r <;> exact h

theorem cvt_finish (pj : PJ) (i : Iter) (e : Env) (F k : Nat) (t : UInt8) (es : Bytes) (r : Res Bytes)
    (ht : e.get "i.t" = some (.u8 t))
    (hk : (k, t) ∈ [(0, (34 : UInt8)), (1, 108), (2, 117), (3, 100), (4, 102), (5, 116), (6, 110)])
    (hc : SimCvtE pj i es (exec goFuns (F + 1) (cvtCase k) ⟨e, pj.tape⟩) r) :
    SimCvtE pj i es (runFun goFuns goIter_StringCvt (F + 1) ⟨e, pj.tape⟩) r := by
  have hsw := cvt_sw e pj.tape (F + 1) k t ht hk
  rw [cvt_run_final e pj.tape (F + 1) _ hsw hc.final]
  exact hc

/-- **`StringCvt()` IS `stringCvt`**, for every tag: on any store holding the receiver and the two buffers. -/
theorem stringCvt_sim (pj : PJ) (i : Iter) (e : Env) (hl : i.lim ≤ pj.tape.size) (hb : BufOK pj) (fuel : Nat)
    (hf : cvtFuel pj i ≤ fuel) (hI : iterAt e "i" = some i) (hS : e.get "Strings.B" = some (.bytes pj.strings))
    (hM : e.get "Message" = some (.bytes pj.msg)) :
    SimCvt pj i (runFun goFuns goIter_StringCvt fuel ⟨e, pj.tape⟩) (stringCvt pj i) := by
  obtain ⟨F, rfl⟩ : ∃ F, fuel = F + 1 := ⟨fuel - 1, by unfold cvtFuel at hf; omega⟩
  obtain ⟨g1, g2, g3, g4, g5⟩ := iterAt_get_i _ _ hI
  have hK : Keeps pj ⟨e, pj.tape⟩ := ⟨rfl, hS, hM⟩
  unfold SimCvt stringCvt cvtErrStr
  by_cases h1 : i.t = tagString
  · have he : (if i.t = tagInteger ∨ i.t = tagUint then (#[48] : Bytes) else #[]) = #[] := by simp [h1, tagString, tagInteger, tagUint]
    rw [if_pos h1, he]
    exact cvt_finish pj i e F 0 i.t _ _ g4 (by simp [h1, tagString, tagInteger, tagUint, tagFloat, tagBoolFalse, tagBoolTrue, tagNull])
      (simBytes_toCvt (cvt_string pj i e hl hb F (by unfold cvtFuel at hf; omega) hI hS hM))
  · rw [if_neg h1]
    by_cases h2 : i.t = tagInteger
    · have he : (if i.t = tagInteger ∨ i.t = tagUint then (#[48] : Bytes) else #[]) = #[48] := by simp [h2]
      rw [if_pos h2, he]
      exact cvt_finish pj i e F 1 i.t _ _ g4 (by simp [h2, tagString, tagInteger, tagUint, tagFloat, tagBoolFalse, tagBoolTrue, tagNull]) (cvt_int pj i e F hI hK)
    · rw [if_neg h2]
      by_cases h3 : i.t = tagUint
      · have he : (if i.t = tagInteger ∨ i.t = tagUint then (#[48] : Bytes) else #[]) = #[48] := by simp [h3]
        rw [if_pos h3, he]
        exact cvt_finish pj i e F 2 i.t _ _ g4 (by simp [h3, tagString, tagInteger, tagUint, tagFloat, tagBoolFalse, tagBoolTrue, tagNull]) (cvt_uint pj i e F hI hK)
      · rw [if_neg h3]
        have he : (if i.t = tagInteger ∨ i.t = tagUint then (#[48] : Bytes) else #[]) = #[] := by simp [h2, h3]
        rw [he]
        by_cases h4 : i.t = tagFloat
        · rw [if_pos h4]
          refine cvt_finish pj i e F 3 i.t _ _ g4 (by simp [h4, tagString, tagInteger, tagUint, tagFloat, tagBoolFalse, tagBoolTrue, tagNull]) (cvt_float pj i e F hI hK ?_)
          intro bits hbits
          unfold cvtFuel at hf
          rw [hbits] at hf
          simp only at hf
          omega
        · rw [if_neg h4]
          by_cases h5 : i.t = tagBoolFalse
          · rw [if_pos h5]
            refine cvt_finish pj i e F 4 i.t _ _ g4 (by simp [h5, tagString, tagInteger, tagUint, tagFloat, tagBoolFalse, tagBoolTrue, tagNull]) ?_
            exact ⟨_, by simp [cvtCase, cvtCases, cvtSwitch, goIter_StringCvt], hK, hI⟩
          · rw [if_neg h5]
            by_cases h6 : i.t = tagBoolTrue
            · rw [if_pos h6]
              refine cvt_finish pj i e F 5 i.t _ _ g4 (by simp [h6, tagString, tagInteger, tagUint, tagFloat, tagBoolFalse, tagBoolTrue, tagNull]) ?_
              exact ⟨_, by simp [cvtCase, cvtCases, cvtSwitch, goIter_StringCvt], hK, hI⟩
            · rw [if_neg h6]
              by_cases h7 : i.t = tagNull
              · rw [if_pos h7]
                refine cvt_finish pj i e F 6 i.t _ _ g4 (by simp [h7, tagString, tagInteger, tagUint, tagFloat, tagBoolFalse, tagBoolTrue, tagNull]) ?_
                exact ⟨_, by simp [cvtCase, cvtCases, cvtSwitch, goIter_StringCvt], hK, hI⟩
              · rw [if_neg h7]
                have hsw := cvt_sw_other e pj.tape (F + 1) i.t g4 (by simp only [tagString, tagInteger, tagUint, tagFloat, tagBoolFalse, tagBoolTrue, tagNull] at h1 h2 h3 h4 h5 h6 h7; simp [h1, h2, h3, h4, h5, h6, h7])
                refine ⟨⟨e, pj.tape⟩, ?_, hK, hI⟩
                unfold runFun
                rw [cvt_body, exec, hsw]
                simp [cvtDflt]

/-! ## `floatToString` -/

/-- **`floatToString(f)` IS `FloatFmt.appendFloat`** (the string as its bytes): `(b, nil)` when the model says `some b`,
    `("", err)` when it says `none` (Inf, NaN); never a panic; tape untouched.  `withBufs`: whether the store holds the
    two shared buffers (as it does when `StringCvt` calls it) — then they are still there afterwards. -/
theorem floatToString_sim (bits : UInt64) (fuel : Nat) (tape : Array UInt64)
    (hf : GoFloatFmt.floatFuel bits + 1 ≤ fuel) :
    (∃ s, runFun goFuns gofloatToString fuel ⟨[("f", .u64 bits)], tape⟩ = .ret s (GoApiFloat.ftsVals bits) ∧ s.tape = tape) ∧
    (∀ S M : Bytes, ∃ s, runFun goFuns gofloatToString fuel
          ⟨[("Strings.B", .bytes S), ("Message", .bytes M), ("f", .u64 bits)], tape⟩ = .ret s (GoApiFloat.ftsVals bits) ∧
        s.tape = tape ∧ s.env.get "Strings.B" = some (.bytes S) ∧ s.env.get "Message" = some (.bytes M)) :=
  ⟨GoApiFloat.floatToString_run bits fuel tape hf, fun S M => GoApiFloat.floatToString_runB S M bits fuel tape hf⟩

theorem ftsVals_some (bits : UInt64) (b : Bytes) (h : FloatFmt.appendFloat bits = some b) :
    GoApiFloat.ftsVals bits = [.bytes b, .bool false] := by simp [GoApiFloat.ftsVals, h]

theorem ftsVals_none (bits : UInt64) (h : FloatFmt.appendFloat bits = none) :
    GoApiFloat.ftsVals bits = [.bytes #[], .bool true] := by simp [GoApiFloat.ftsVals, h]

/-! ## the relations read as equivalences; no panic -/

theorem object_cases (i : Iter) : (∃ v, i.object = .ok v) ∨ i.object = .error .generic := by
  unfold Iter.object
  split
  · exact Or.inr rfl
  · simp only []
    split
    · exact Or.inr rfl
    · split
      · exact Or.inr rfl
      · exact Or.inl ⟨_, rfl⟩

theorem array_cases (i : Iter) : (∃ v, i.array = .ok v) ∨ i.array = .error .generic := by
  unfold Iter.array
  split
  · exact Or.inr rfl
  · simp only []
    split
    · exact Or.inr rfl
    · exact Or.inl ⟨_, rfl⟩

theorem SimView.iff {tape : Array UInt64} {e : Env} {i : Iter} {o : Out} {r : Res View} (h : SimView tape e i o r) :
    (∀ v, r = .ok v ↔ ∃ s, o = .ret s [.bool true, .bool false] ∧ viewAt s.env "dst" = some v) ∧
    ((∃ err, r = .error err) ↔ ∃ s, o = .ret s [.bool false, .bool true]) ∧
    (r = .panic ↔ o = .panic) := by
  cases r with
  | ok v =>
    obtain ⟨s, rfl, _, _, hv, _⟩ := h
    refine ⟨fun v' => ⟨?_, ?_⟩, ⟨?_, ?_⟩, ⟨?_, ?_⟩⟩
    · intro h'; simp only [Res.ok.injEq] at h'; subst h'; exact ⟨s, rfl, hv⟩
    · rintro ⟨s', h1, h2⟩
      simp only [Out.ret.injEq, and_true] at h1
      subst h1
      rw [hv] at h2
      simp only [Option.some.injEq] at h2
      rw [h2]
    · rintro ⟨err, h'⟩; cases h'
    · rintro ⟨s', h'⟩; simp at h'
    · intro h'; cases h'
    · intro h'; cases h'
  | error err =>
    obtain ⟨s, rfl, _⟩ := h
    refine ⟨fun v' => ⟨?_, ?_⟩, ⟨fun _ => ⟨s, rfl⟩, fun _ => ⟨err, rfl⟩⟩, ⟨?_, ?_⟩⟩
    · intro h'; cases h'
    · rintro ⟨s', h1, _⟩; simp at h1
    · intro h'; cases h'
    · intro h'; cases h'
  | panic =>
    simp only [SimView] at h
    subst h
    refine ⟨fun v' => ⟨?_, ?_⟩, ⟨?_, ?_⟩, ⟨fun _ => rfl, fun _ => rfl⟩⟩
    · intro h'; cases h'
    · rintro ⟨s', h1, _⟩; cases h1
    · rintro ⟨err, h'⟩; cases h'
    · rintro ⟨s', h'⟩; cases h'
  | diverge => exact h.elim

/-- `Object(dst)` never panics (nor is it stuck or out of fuel): it always returns -/
theorem object_returns (i : Iter) (b : Bool) (e : Env) (tape : Array UInt64) (fuel : Nat)
    (hI : iterAt e "i" = some i) (hN : e.get "dst==nil" = some (.bool b))
    (hlim : i.lim < 2^63) (hoff : i.off < 2^63) :
    ∃ s vs, runFun goFuns goIter_Object fuel ⟨e, tape⟩ = .ret s vs := by
  have h := object_sim i b e tape fuel hI hN hlim hoff
  rcases object_cases i with ⟨v, hv⟩ | hv <;> rw [hv] at h
  · obtain ⟨s, hs, _⟩ := h; exact ⟨s, _, hs⟩
  · obtain ⟨s, hs, _⟩ := h; exact ⟨s, _, hs⟩

/-- `Array(dst)` never panics: it always returns -/
theorem array_returns (i : Iter) (b : Bool) (e : Env) (tape : Array UInt64) (fuel : Nat)
    (hI : iterAt e "i" = some i) (hN : e.get "dst==nil" = some (.bool b)) (hlim : i.lim < 2^63) :
    ∃ s vs, runFun goFuns goIter_Array fuel ⟨e, tape⟩ = .ret s vs := by
  have h := array_sim i b e tape fuel hI hN hlim
  rcases array_cases i with ⟨v, hv⟩ | hv <;> rw [hv] at h
  · obtain ⟨s, hs, _⟩ := h; exact ⟨s, _, hs⟩
  · obtain ⟨s, hs, _⟩ := h; exact ⟨s, _, hs⟩

theorem SimRoot.iff {tape : Array UInt64} {e : Env} {b : Bool} {i : Iter} {o : Out} {r : Res (UInt8 × Iter)}
    (h : SimRoot tape e b i o r) :
    (∀ ty d, r = .ok (ty, d) ↔ ∃ s, o = .ret s [.u8 ty, .bool true, .bool false] ∧ iterAt s.env "dst" = some d) ∧
    ((∃ err, r = .error err) ↔ ∃ s x y, o = .ret s [x, y, .bool true]) ∧
    (r = .panic ↔ o = .panic) := by
  cases r with
  | ok p =>
    obtain ⟨ty, d⟩ := p
    obtain ⟨s, rfl, _, _, hd, _⟩ := h
    refine ⟨fun ty' d' => ⟨?_, ?_⟩, ⟨?_, ?_⟩, ⟨?_, ?_⟩⟩
    · intro h'; simp only [Res.ok.injEq, Prod.mk.injEq] at h'; obtain ⟨rfl, rfl⟩ := h'; exact ⟨s, rfl, hd⟩
    · rintro ⟨s', h1, h2⟩
      simp only [Out.ret.injEq, List.cons.injEq, Val.u8.injEq, and_true] at h1
      obtain ⟨rfl, rfl⟩ := h1
      rw [hd] at h2
      simp only [Option.some.injEq] at h2
      rw [h2]
    · rintro ⟨err, h'⟩; cases h'
    · rintro ⟨s', x, y, h'⟩; simp at h'
    · intro h'; cases h'
    · intro h'; cases h'
  | error err =>
    simp only [SimRoot] at h
    subst h
    refine ⟨fun ty' d' => ⟨?_, ?_⟩, ⟨fun _ => ⟨_, _, _, rfl⟩, fun _ => ⟨err, rfl⟩⟩, ⟨?_, ?_⟩⟩
    · intro h'; cases h'
    · rintro ⟨s', h1, _⟩; simp at h1
    · intro h'; cases h'
    · intro h'; cases h'
  | panic =>
    simp only [SimRoot] at h
    subst h
    refine ⟨fun ty' d' => ⟨?_, ?_⟩, ⟨?_, ?_⟩, ⟨fun _ => rfl, fun _ => rfl⟩⟩
    · intro h'; cases h'
    · rintro ⟨s', h1, _⟩; cases h1
    · rintro ⟨err, h'⟩; cases h'
    · rintro ⟨s', x, y, h'⟩; cases h'
  | diverge => exact h.elim

theorem SimCvt.iff {pj : PJ} {i : Iter} {o : Out} {r : Res Bytes} (h : SimCvt pj i o r) :
    (∀ b, r = .ok b ↔ ∃ s, o = .ret s [.bytes b, .bool false]) ∧
    ((∃ err, r = .error err) ↔ ∃ s x, o = .ret s [x, .bool true]) ∧
    (r = .panic ↔ o = .panic) := by
  unfold SimCvt at h
  cases r with
  | ok b =>
    obtain ⟨s, rfl, _⟩ := h
    refine ⟨fun b' => ⟨?_, ?_⟩, ⟨?_, ?_⟩, ⟨?_, ?_⟩⟩
    · intro h'; simp only [Res.ok.injEq] at h'; subst h'; exact ⟨s, rfl⟩
    · rintro ⟨s', h1⟩
      simp only [Out.ret.injEq, List.cons.injEq, Val.bytes.injEq, and_true] at h1
      rw [h1.2]
    · rintro ⟨err, h'⟩; cases h'
    · rintro ⟨s', x, h'⟩; simp at h'
    · intro h'; cases h'
    · intro h'; cases h'
  | error err =>
    obtain ⟨s, rfl, _⟩ := h
    refine ⟨fun b' => ⟨?_, ?_⟩, ⟨fun _ => ⟨_, _, rfl⟩, fun _ => ⟨err, rfl⟩⟩, ⟨?_, ?_⟩⟩
    · intro h'; cases h'
    · rintro ⟨s', h1⟩; simp at h1
    · intro h'; cases h'
    · intro h'; cases h'
  | panic =>
    simp only [SimCvtE] at h
    subst h
    refine ⟨fun b' => ⟨?_, ?_⟩, ⟨?_, ?_⟩, ⟨fun _ => rfl, fun _ => rfl⟩⟩
    · intro h'; cases h'
    · rintro ⟨s', h1⟩; cases h1
    · rintro ⟨err, h'⟩; cases h'
    · rintro ⟨s', x, h'⟩; cases h'
  | diverge => exact h.elim

/-! ## bundle, on the conventional initial stores -/

/-- the store of `i.Object(dst)` / `i.Array(dst)`: the receiver, `*dst` (read offset and view length — arbitrary, and
    ignored when `dst == nil`), and the hidden parameter "the caller passed nil" -/
def viewStore (i : Iter) (dv : View) (b : Bool) : Env :=
  envOf "i" i ++ [("dst.off", .int dv.off), ("dst.lim", .int dv.lim), ("dst==nil", .bool b)]

/-- the store of `i.Root(dst)`: the receiver, `*dst` (arbitrary), the hidden parameter -/
def rootStore (i d0 : Iter) (b : Bool) : Env := envOf "i" i ++ envOf "dst" d0 ++ [("dst==nil", .bool b)]

theorem viewStore_i (i : Iter) (dv : View) (b : Bool) : iterAt (viewStore i dv b) "i" = some i := by
  simp [viewStore, envOf, Env.get, iterAt]
theorem viewStore_nil (i : Iter) (dv : View) (b : Bool) : (viewStore i dv b).get "dst==nil" = some (.bool b) := by
  simp [viewStore, envOf, Env.get]
theorem rootStore_i (i d0 : Iter) (b : Bool) : iterAt (rootStore i d0 b) "i" = some i := by
  simp [rootStore, envOf, Env.get, iterAt]
theorem rootStore_nil (i d0 : Iter) (b : Bool) : (rootStore i d0 b).get "dst==nil" = some (.bool b) := by
  simp [rootStore, envOf, Env.get]

/-- enough fuel for all eight functions at once -/
def apiFuel (pj : PJ) (i : Iter) (v : View) (bits : UInt64) : Nat :=
  i.lim + 8 + cvtFuel pj i + GoFloatFmt.floatFuel bits + (v.lim - v.off)

/-- **`Iter.Object`, `Iter.Array`, `Iter.Root`, `ParsedJson.stringAt`+`Iter.String`, `floatToString`, `Iter.StringCvt`,
    `Object.NextElement` of /repo, as translated, ARE the hand model** — for every iterator `i` whose view lies in the
    tape and whose `len`/`off` are Go `int`s, both values of the hidden parameter `dst == nil`, any initial `*dst`,
    every float64, every view `v` of the tape, without exception (the `Type` returned by `Root` is `TagToType[tag]` on
    both sides).
    The abstract-store versions (`object_sim` … `nextElement_sim`) apply to any caller's frame. -/
theorem go_api_source_tie (pj : PJ) (hb : BufOK pj) (i d0 : Iter) (dv v : View) (b : Bool) (bits : UInt64)
    (hl : i.lim ≤ pj.tape.size) (hlim : i.lim < 2^63) (hoff : i.off < 2^63) (hv : v.lim ≤ pj.tape.size)
    (fuel : Nat) (hf : apiFuel pj i v bits ≤ fuel) :
    -- Object, Array
    SimView pj.tape (viewStore i dv b) i (runFun goFuns goIter_Object fuel ⟨viewStore i dv b, pj.tape⟩) i.object ∧
    SimView pj.tape (viewStore i dv b) i (runFun goFuns goIter_Array fuel ⟨viewStore i dv b, pj.tape⟩) i.array ∧
    -- Root, the returned `Type` included
    SimRoot pj.tape (rootStore i d0 b) b i (runFun goFuns goIter_Root fuel ⟨rootStore i d0 b, pj.tape⟩) (i.root pj) ∧
    -- String (through stringAt), StringCvt
    SimBytes pj (fun e' => ∀ k, e'.get k = (envOf "i" i ++ bufEnv pj).get k)
      (runFun goFuns goIter_String fuel ⟨envOf "i" i ++ bufEnv pj, pj.tape⟩) (i.stringBytes pj) ∧
    SimCvt pj i (runFun goFuns goIter_StringCvt fuel ⟨envOf "i" i ++ bufEnv pj, pj.tape⟩) (stringCvt pj i) ∧
    -- floatToString
    (∃ s, runFun goFuns gofloatToString fuel ⟨[("f", .u64 bits)], pj.tape⟩ = .ret s (GoApiFloat.ftsVals bits) ∧
      s.tape = pj.tape) ∧
    -- NextElement
    SimNE pj d0 (runFun goFuns goObject_NextElement fuel ⟨neEnv v d0 pj, pj.tape⟩) (View.nextElementBytes pj v fuel) := by
  unfold apiFuel at hf
  have hc3 : 3 ≤ cvtFuel pj i := by unfold cvtFuel; omega
  refine ⟨object_sim i b _ pj.tape fuel (viewStore_i i dv b) (viewStore_nil i dv b) hlim hoff,
    array_sim i b _ pj.tape fuel (viewStore_i i dv b) (viewStore_nil i dv b) hlim,
    root_sim pj i b _ fuel (rootStore_i i d0 b) (rootStore_nil i d0 b) hl hlim (by omega),
    string_sim pj i _ hl hb fuel (by omega) (GoMarshal.frame_iter pj i) (GoMarshal.frame_keeps pj i).2.1
      (GoMarshal.frame_keeps pj i).2.2,
    stringCvt_sim pj i _ hl hb fuel (by omega) (GoMarshal.frame_iter pj i) (GoMarshal.frame_keeps pj i).2.1
      (GoMarshal.frame_keeps pj i).2.2,
    GoApiFloat.floatToString_run bits fuel pj.tape (by omega),
    nextElement_sim pj hb v d0 _ hv fuel fuel (by omega) (by omega) (NEInit_neEnv pj v d0)⟩

end SJ.GoApi

#print axioms SJ.GoApi.go_api_source_tie

