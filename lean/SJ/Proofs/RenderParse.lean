import SJ.Proofs.RenderParseLines
/-
# The canonical text is JSON, denotes the same document, and is a fixed point of parse-then-marshal

Everything here is about pure functions on byte lists: `MarshalExact.renderJ` (the canonical text of a tape-level
document, what `MarshalJSON` provably writes — `MarshalExact.marshalBuf_doc`) against the RFC 8259 specification
`Spec.value` / `Spec.containerText` of `SJ/Spec/Json.lean`.

NOTES (state of this file)
  proved (all without sorry; `#print axioms` = propext, Classical.choice, Quot.sound):
    * `value_render`  (mutual induction over `JVal/JVals/JMems`, generic in the relation `P` on number leaves and in
      the set `ok` of float leaves that may occur)
    * T1 `render_reads_back`      valid JSON + same document           (hypothesis `FloatRT`)
    * T2 `render_fixed_point`     parse-then-marshal gives the text    (hypotheses `FloatRT`, `NoNegZero`)
    * `render_roundtrip`          T1 and T2 about the same `v'`
    * `render_reads_back_nofloat`, `render_fixed_point_nofloat`: the same without any hypothesis, for documents
      without float leaves (`NoFloats`)
    * `negZero_not_fixed`: the documented exception (`[-0.0]` prints `[-0]`, re-reads as `[0]`) is real;
      accordingly `NumSame (.float -0.0 _) (.int 0)` holds by an explicit clause ("numerically equal")
    * T3 `roots_read_back`, `roots_fixed_point`, `roots_read_back_nofloat`: newline-separated roots against
      `Spec.ndText`; `renderRoots_erase` ties `renderJRoots` to `MarshalExact.renderRoots`
    * `marshal_reads_back`: T1 composed with `MarshalExact.marshalBuf_doc` (the bytes `MarshalJSON` returns)
  hypotheses: `FloatRT` (defined in `RenderParseBase.lean`; proved elsewhere) wherever a float leaf can occur.
  open: nothing of T1–T3.
helpers: `RenderParseBase.lean` (definitions, single steps of the container productions),
         `RenderParseNum.lean` (number leaves), `RenderParseLines.lean` (no line feed in the text, `splitLines`).
-/
set_option linter.unusedVariables false
set_option linter.unusedSimpArgs false
namespace SJ.RenderParse
open SJ SJ.Layout SJ.MarshalExact SJ.ParseDefs SJ.Tables SJ.WalkSafe SJ.WalkLayout

/-! ## 1. The induction -/

/-- what the induction needs to know about the number leaves (floats: only those satisfying `ok`) -/
structure NumOK (ok : UInt64 → Prop) (P : JVal → Spec.Num → Prop) : Prop where
  int : ∀ (w : UInt64) (rest : List UInt8) (fuel : Nat), Delim rest →
    ∃ n, Spec.value (fuel + 1) ((renderJ (.int w)).toList ++ rest) = .acc (.num n) rest ∧ P (.int w) n
  uint : ∀ (w : UInt64) (rest : List UInt8) (fuel : Nat), Delim rest →
    ∃ n, Spec.value (fuel + 1) ((renderJ (.uint w)).toList ++ rest) = .acc (.num n) rest ∧ P (.uint w) n
  float : ∀ (bits fl : UInt64) (rest : List UInt8) (fuel : Nat), ok bits → F64.isFinite bits = true → Delim rest →
    ∃ n, Spec.value (fuel + 1) ((renderJ (.float bits fl)).toList ++ rest) = .acc (.num n) rest ∧ P (.float bits fl) n

theorem tail_delim (vs : JVals) (rest : List UInt8) : Delim ((renderJTail vs).toList ++ 93 :: rest) := by
  cases vs with
  | nil => exact delim_rbracket rest
  | cons v vs => rw [renderJTail_cons_toList]; exact delim_comma _

theorem mtail_delim (ms : JMems) (rest : List UInt8) : Delim ((renderJMTail ms).toList ++ 125 :: rest) := by
  cases ms with
  | nil => exact delim_rbrace rest
  | cons k v ms => rw [renderJMTail_cons_toList]; exact delim_comma _

theorem pred_fuel {fuel n : Nat} (h : n + 1 ≤ fuel) : ∃ f, fuel = f + 1 := ⟨fuel - 1, by omega⟩

mutual
/-- **The canonical text of a clean document, followed by nothing or by `,` `]` `}`, is read by the specification
    as one value that corresponds to the document, leaving exactly what follows.** -/
theorem value_render {ok : UInt64 → Prop} {P : JVal → Spec.Num → Prop} (hP : NumOK ok P) :
    ∀ (v : JVal), Clean v → FloatsSat ok v → ∀ (rest : List UInt8), Delim rest → ∀ (fuel : Nat),
      (renderJ v).toList.length + 1 ≤ fuel →
      ∃ v', Spec.value fuel ((renderJ v).toList ++ rest) = .acc v' rest ∧ DocRel P v v'
  | .null, _, _, rest, _, fuel, hf => by
    obtain ⟨f, rfl⟩ := pred_fuel hf
    exact ⟨.null, value_null f rest, by simp only [DocRel]⟩
  | .bool b, _, _, rest, _, fuel, hf => by
    obtain ⟨f, rfl⟩ := pred_fuel hf
    exact ⟨.bool b, value_bool f b rest, by simp only [DocRel]⟩
  | .int w, _, _, rest, hr, fuel, hf => by
    obtain ⟨f, rfl⟩ := pred_fuel hf
    obtain ⟨n, h1, h2⟩ := hP.int w rest f hr
    exact ⟨.num n, h1, by simp only [DocRel]; exact ⟨n, rfl, h2⟩⟩
  | .uint w, _, _, rest, hr, fuel, hf => by
    obtain ⟨f, rfl⟩ := pred_fuel hf
    obtain ⟨n, h1, h2⟩ := hP.uint w rest f hr
    exact ⟨.num n, h1, by simp only [DocRel]; exact ⟨n, rfl, h2⟩⟩
  | .float bits fl, hc, hk, rest, hr, fuel, hf => by
    obtain ⟨f, rfl⟩ := pred_fuel hf
    obtain ⟨n, h1, h2⟩ := hP.float bits fl rest f (by simpa only [FloatsSat] using hk) (by simpa only [Clean] using hc) hr
    exact ⟨.num n, h1, by simp only [DocRel]; exact ⟨n, rfl, h2⟩⟩
  | .str s, hc, _, rest, _, fuel, hf => by
    obtain ⟨f, rfl⟩ := pred_fuel hf
    exact ⟨.str s, value_str f s (by simpa only [Clean] using hc) rest, by simp only [DocRel]⟩
  | .arr es, hc, hk, rest, hr, fuel, hf => by
    simp only [Clean] at hc
    simp only [FloatsSat] at hk
    rw [renderJ_arr_toList] at hf ⊢
    simp only [List.length_cons, List.length_append, List.length_nil] at hf
    obtain ⟨f, rfl⟩ := pred_fuel hf
    obtain ⟨l, h1, h2⟩ := elems_render hP es hc hk rest [] f (by omega)
    refine ⟨.arr l, ?_, by simp only [DocRel]; exact ⟨l, rfl, h2⟩⟩
    rw [List.cons_append, List.append_assoc, List.singleton_append, value_arr, h1]
    rfl
  | .obj ms, hc, hk, rest, hr, fuel, hf => by
    simp only [Clean] at hc
    simp only [FloatsSat] at hk
    rw [renderJ_obj_toList] at hf ⊢
    simp only [List.length_cons, List.length_append, List.length_nil] at hf
    obtain ⟨f, rfl⟩ := pred_fuel hf
    obtain ⟨l, h1, h2⟩ := mems_render hP ms hc hk rest [] f (by omega)
    refine ⟨.obj l, ?_, by simp only [DocRel]; exact ⟨l, rfl, h2⟩⟩
    rw [List.cons_append, List.append_assoc, List.singleton_append, value_obj, h1]
    rfl
/-- after `[` -/
theorem elems_render {ok : UInt64 → Prop} {P : JVal → Spec.Num → Prop} (hP : NumOK ok P) :
    ∀ (vs : JVals), CleanVs vs → FloatsSatVs ok vs → ∀ (rest : List UInt8) (acc : List Spec.JVal) (fuel : Nat),
      (renderJElems vs).toList.length + 2 ≤ fuel →
      ∃ l, Spec.elements fuel (Spec.skipWs ((renderJElems vs).toList ++ 93 :: rest)) acc true =
          .acc (.arr (acc.reverse ++ l)) rest ∧ ElemsRel P vs l
  | .nil, _, _, rest, acc, fuel, hf => by
    obtain ⟨f, rfl⟩ := pred_fuel hf
    refine ⟨[], ?_, by simp only [ElemsRel]⟩
    have : (renderJElems .nil).toList = [] := by simp [renderJElems]
    rw [this, List.nil_append, skipWs_cons (by decide), elements_close, List.append_nil]
  | .cons v vs, hc, hk, rest, acc, fuel, hf => by
    simp only [CleanVs] at hc
    simp only [FloatsSatVs] at hk
    rw [renderJElems_cons_toList] at hf ⊢
    simp only [List.length_append] at hf
    obtain ⟨f, rfl⟩ := pred_fuel hf
    obtain ⟨v', h1, h2⟩ := value_render hP v hc.1 hk.1 ((renderJTail vs).toList ++ 93 :: rest) (tail_delim vs rest) f (by omega)
    obtain ⟨l, h3, h4⟩ := tail_render hP vs hc.2 hk.2 rest (v' :: acc) f (by omega)
    obtain ⟨c, t, hct, hws, h93⟩ := value_acc_head h1
    refine ⟨v' :: l, ?_, by simp only [ElemsRel]; exact ⟨v', l, rfl, h2, h4⟩⟩
    rw [List.append_assoc, hct, skipWs_cons hws,
      elements_step f (c :: t) acc true (by intro r h; injection h with h _; exact h93 h), ← hct, h1]
    simp only []
    rw [h3]
    simp
/-- after an element -/
theorem tail_render {ok : UInt64 → Prop} {P : JVal → Spec.Num → Prop} (hP : NumOK ok P) :
    ∀ (vs : JVals), CleanVs vs → FloatsSatVs ok vs → ∀ (rest : List UInt8) (acc : List Spec.JVal) (fuel : Nat),
      (renderJTail vs).toList.length + 1 ≤ fuel →
      ∃ l, elemsCont fuel acc ((renderJTail vs).toList ++ 93 :: rest) =
          .acc (.arr (acc.reverse ++ l)) rest ∧ ElemsRel P vs l
  | .nil, _, _, rest, acc, fuel, hf => by
    refine ⟨[], ?_, by simp only [ElemsRel]⟩
    have : (renderJTail .nil).toList = [] := by simp [renderJTail]
    rw [this, List.nil_append, elemsCont_close, List.append_nil]
  | .cons v vs, hc, hk, rest, acc, fuel, hf => by
    simp only [CleanVs] at hc
    simp only [FloatsSatVs] at hk
    rw [renderJTail_cons_toList] at hf ⊢
    simp only [List.length_cons, List.length_append] at hf
    obtain ⟨f, rfl⟩ := pred_fuel hf
    obtain ⟨v', h1, h2⟩ := value_render hP v hc.1 hk.1 ((renderJTail vs).toList ++ 93 :: rest) (tail_delim vs rest) f (by omega)
    obtain ⟨l, h3, h4⟩ := tail_render hP vs hc.2 hk.2 rest (v' :: acc) f (by omega)
    obtain ⟨c, t, hct, hws, h93⟩ := value_acc_head h1
    refine ⟨v' :: l, ?_, by simp only [ElemsRel]; exact ⟨v', l, rfl, h2, h4⟩⟩
    rw [List.cons_append, List.append_assoc, elemsCont_comma, hct, skipWs_cons hws,
      elements_step f (c :: t) acc false (by intro r h; injection h with h _; exact h93 h), ← hct, h1]
    simp only []
    rw [h3]
    simp
/-- after `{` -/
theorem mems_render {ok : UInt64 → Prop} {P : JVal → Spec.Num → Prop} (hP : NumOK ok P) :
    ∀ (ms : JMems), CleanMs ms → FloatsSatMs ok ms → ∀ (rest : List UInt8) (acc : List (List UInt8 × Spec.JVal)) (fuel : Nat),
      (renderJMems ms).toList.length + 2 ≤ fuel →
      ∃ l, Spec.members fuel (Spec.skipWs ((renderJMems ms).toList ++ 125 :: rest)) acc true =
          .acc (.obj (acc.reverse ++ l)) rest ∧ MemsRel P ms l
  | .nil, _, _, rest, acc, fuel, hf => by
    obtain ⟨f, rfl⟩ := pred_fuel hf
    refine ⟨[], ?_, by simp only [MemsRel]⟩
    have : (renderJMems .nil).toList = [] := by simp [renderJMems]
    rw [this, List.nil_append, skipWs_cons (by decide), members_close, List.append_nil]
  | .cons k v ms, hc, hk, rest, acc, fuel, hf => by
    simp only [CleanMs] at hc
    simp only [FloatsSatMs] at hk
    rw [renderJMems_cons_toList] at hf ⊢
    simp only [List.length_cons, List.length_append] at hf
    obtain ⟨f, rfl⟩ := pred_fuel hf
    obtain ⟨v', h1, h2⟩ := value_render hP v hc.2.1 hk.1 ((renderJMTail ms).toList ++ 125 :: rest) (mtail_delim ms rest) f (by omega)
    obtain ⟨l, h3, h4⟩ := mtail_render hP ms hc.2.2 hk.2 rest ((k, v') :: acc) f (by omega)
    obtain ⟨c, t, hct, hws, _⟩ := value_acc_head h1
    refine ⟨(k, v') :: l, ?_, by simp only [MemsRel]; exact ⟨v', l, rfl, h2, h4⟩⟩
    simp only [List.cons_append, List.append_assoc]
    rw [hct, skipWs_cons (by decide), members_member f k hc.1 c t hws acc true, ← hct, h1]
    simp only []
    rw [h3]
    simp
/-- after a member -/
theorem mtail_render {ok : UInt64 → Prop} {P : JVal → Spec.Num → Prop} (hP : NumOK ok P) :
    ∀ (ms : JMems), CleanMs ms → FloatsSatMs ok ms → ∀ (rest : List UInt8) (acc : List (List UInt8 × Spec.JVal)) (fuel : Nat),
      (renderJMTail ms).toList.length + 1 ≤ fuel →
      ∃ l, memsCont fuel acc ((renderJMTail ms).toList ++ 125 :: rest) =
          .acc (.obj (acc.reverse ++ l)) rest ∧ MemsRel P ms l
  | .nil, _, _, rest, acc, fuel, hf => by
    refine ⟨[], ?_, by simp only [MemsRel]⟩
    have : (renderJMTail .nil).toList = [] := by simp [renderJMTail]
    rw [this, List.nil_append, memsCont_close, List.append_nil]
  | .cons k v ms, hc, hk, rest, acc, fuel, hf => by
    simp only [CleanMs] at hc
    simp only [FloatsSatMs] at hk
    rw [renderJMTail_cons_toList] at hf ⊢
    simp only [List.length_cons, List.length_append] at hf
    obtain ⟨f, rfl⟩ := pred_fuel hf
    obtain ⟨v', h1, h2⟩ := value_render hP v hc.2.1 hk.1 ((renderJMTail ms).toList ++ 125 :: rest) (mtail_delim ms rest) f (by omega)
    obtain ⟨l, h3, h4⟩ := mtail_render hP ms hc.2.2 hk.2 rest ((k, v') :: acc) f (by omega)
    obtain ⟨c, t, hct, hws, _⟩ := value_acc_head h1
    refine ⟨(k, v') :: l, ?_, by simp only [MemsRel]; exact ⟨v', l, rfl, h2, h4⟩⟩
    simp only [List.cons_append, List.append_assoc]
    rw [memsCont_comma, hct, skipWs_cons (by decide), members_member f k hc.1 c t hws acc false, ← hct, h1]
    simp only []
    rw [h3]
    simp
end

/-! ## 2. From `Spec.value` to `Spec.containerText` -/

/-- the root of a JSON text the parser accepts: an array or an object -/
def IsRoot : JVal → Prop
  | .arr _ => True
  | .obj _ => True
  | _ => False

theorem containerText_of_value {s : List UInt8} {c : UInt8} {r : List UInt8} {v' : Spec.JVal} (hs : s = c :: r)
    (hc : c = 0x7B ∨ c = 0x5B) (hv : Spec.value (s.length + 2) s = .acc v' []) :
    Spec.containerText s = .accept v' := by
  subst hs
  have hws : Spec.isWs c = false := by rcases hc with rfl | rfl <;> decide
  have hc' : (c == 0x7B) = true ∨ (c == 0x5B) = true := by rcases hc with rfl | rfl <;> decide
  unfold Spec.containerText
  rw [skipWs_cons hws]
  simp only [if_pos hc', hv]
  rfl

theorem root_head (v : JVal) (hroot : IsRoot v) :
    ∃ c r, (renderJ v).toList = c :: r ∧ (c = 0x7B ∨ c = 0x5B) := by
  cases v with
  | arr es => exact ⟨91, _, renderJ_arr_toList es, Or.inr rfl⟩
  | obj ms => exact ⟨123, _, renderJ_obj_toList ms, Or.inl rfl⟩
  | _ => exact absurd hroot (by simp only [IsRoot, not_false_eq_true])

/-- the generic top-level statement -/
theorem root_render {ok : UInt64 → Prop} {P : JVal → Spec.Num → Prop} (hP : NumOK ok P) (v : JVal) (hc : Clean v)
    (hk : FloatsSat ok v) (hroot : IsRoot v) :
    ∃ v', Spec.containerText (renderJ v).toList = .accept v' ∧ DocRel P v v' := by
  obtain ⟨v', h1, h2⟩ := value_render hP v hc hk [] delim_nil ((renderJ v).toList.length + 2) (by omega)
  rw [List.append_nil] at h1
  obtain ⟨c, r, hs, hc⟩ := root_head v hroot
  exact ⟨v', containerText_of_value hs hc h1, h2⟩

/-! ## 3. `DocRel NumRT` gives the same text again -/

mutual
theorem rt_text : ∀ (v : JVal) (v' : Spec.JVal), DocRel NumRT v v' → NoNegZero v → renderJ (ofSpec v') = renderJ v
  | .null, v', h, _ => by simp only [DocRel] at h; subst h; rfl
  | .bool b, v', h, _ => by simp only [DocRel] at h; subst h; rfl
  | .int w, v', h, hz => by
    simp only [DocRel] at h; obtain ⟨n, rfl, hn⟩ := h
    simp only [ofSpec]; exact hn.2 hz
  | .uint w, v', h, hz => by
    simp only [DocRel] at h; obtain ⟨n, rfl, hn⟩ := h
    simp only [ofSpec]; exact hn.2 hz
  | .float b f, v', h, hz => by
    simp only [DocRel] at h; obtain ⟨n, rfl, hn⟩ := h
    simp only [ofSpec]; exact hn.2 hz
  | .str s, v', h, _ => by simp only [DocRel] at h; subst h; rfl
  | .arr es, v', h, hz => by
    simp only [DocRel] at h; obtain ⟨l, rfl, hl⟩ := h
    simp only [NoNegZero] at hz
    simp only [ofSpec, renderJ, (rt_elems es l hl hz).1]
  | .obj ms, v', h, hz => by
    simp only [DocRel] at h; obtain ⟨l, rfl, hl⟩ := h
    simp only [NoNegZero] at hz
    simp only [ofSpec, renderJ, (rt_mems ms l hl hz).1]
theorem rt_elems : ∀ (es : JVals) (l : List Spec.JVal), ElemsRel NumRT es l → NoNegZeroVs es →
    renderJElems (ofSpecList l) = renderJElems es ∧ renderJTail (ofSpecList l) = renderJTail es
  | .nil, l, h, _ => by simp only [ElemsRel] at h; subst h; exact ⟨rfl, rfl⟩
  | .cons v vs, l, h, hz => by
    simp only [ElemsRel] at h; obtain ⟨v', l', rfl, h1, h2⟩ := h
    simp only [NoNegZeroVs] at hz
    have a := rt_text v v' h1 hz.1
    have b := (rt_elems vs l' h2 hz.2).2
    simp only [ofSpecList, renderJElems, renderJTail, a, b, and_self]
theorem rt_mems : ∀ (ms : JMems) (l : List (List UInt8 × Spec.JVal)), MemsRel NumRT ms l → NoNegZeroMs ms →
    renderJMems (ofSpecMems l) = renderJMems ms ∧ renderJMTail (ofSpecMems l) = renderJMTail ms
  | .nil, l, h, _ => by simp only [MemsRel] at h; subst h; exact ⟨rfl, rfl⟩
  | .cons k v ms, l, h, hz => by
    simp only [MemsRel] at h; obtain ⟨v', l', rfl, h1, h2⟩ := h
    simp only [NoNegZeroMs] at hz
    have a := rt_text v v' h1 hz.1
    have b := (rt_mems ms l' h2 hz.2).2
    simp only [ofSpecMems, renderJMems, renderJMTail, a, b, and_self]
end

/-! ## 4. The theorems -/

theorem numOK_all (frt : FloatRT) : NumOK (fun _ => True) NumRT :=
  ⟨fun w rest fuel hr => num_int w rest hr fuel, fun w rest fuel hr => num_uint w rest hr fuel,
   fun bits fl rest fuel _ hfin hr => num_float frt bits fl hfin rest hr fuel⟩

theorem numOK_nofloat : NumOK (fun _ => False) NumRT :=
  ⟨fun w rest fuel hr => num_int w rest hr fuel, fun w rest fuel hr => num_uint w rest hr fuel,
   fun bits fl rest fuel h _ _ => h.elim⟩

mutual
theorem floatsSat_true : ∀ v : JVal, FloatsSat (fun _ => True) v
  | .null => by simp only [FloatsSat]
  | .bool _ => by simp only [FloatsSat]
  | .int _ => by simp only [FloatsSat]
  | .uint _ => by simp only [FloatsSat]
  | .float _ _ => by simp only [FloatsSat]
  | .str _ => by simp only [FloatsSat]
  | .arr es => by simp only [FloatsSat]; exact floatsSatVs_true es
  | .obj ms => by simp only [FloatsSat]; exact floatsSatMs_true ms
theorem floatsSatVs_true : ∀ vs : JVals, FloatsSatVs (fun _ => True) vs
  | .nil => by simp only [FloatsSatVs]
  | .cons v vs => by simp only [FloatsSatVs]; exact ⟨floatsSat_true v, floatsSatVs_true vs⟩
theorem floatsSatMs_true : ∀ ms : JMems, FloatsSatMs (fun _ => True) ms
  | .nil => by simp only [FloatsSatMs]
  | .cons _ v ms => by simp only [FloatsSatMs]; exact ⟨floatsSat_true v, floatsSatMs_true ms⟩
end

theorem numRT_same : ∀ (v : JVal) (n : Spec.Num), NumRT v n → NumSame v n := fun _ _ h => h.1

/-- **T1.** The text the marshaller writes for a clean document (strings well-formed UTF-8, floats finite) whose
    root is an array or an object is valid JSON per the RFC 8259 specification, and the value it denotes is the
    same document. -/
theorem render_reads_back (frt : FloatRT) (v : JVal) (hc : Clean v) (hroot : IsRoot v) :
    ∃ v', Spec.containerText (renderJ v).toList = .accept v' ∧ SameDoc v v' := by
  obtain ⟨v', h1, h2⟩ := root_render (numOK_all frt) v hc (floatsSat_true v) hroot
  exact ⟨v', h1, DocRel.mono numRT_same v v' h2⟩

/-- **T2.** The canonical text is a fixed point of parse-then-marshal (`-0.0` excluded: it prints as `-0`, which
    is the integer `0`). -/
theorem render_fixed_point (frt : FloatRT) (v : JVal) (hc : Clean v) (hz : NoNegZero v) (hroot : IsRoot v) :
    ∃ v', Spec.containerText (renderJ v).toList = .accept v' ∧ renderJ (ofSpec v') = renderJ v := by
  obtain ⟨v', h1, h2⟩ := root_render (numOK_all frt) v hc (floatsSat_true v) hroot
  exact ⟨v', h1, rt_text v v' h2 hz⟩

/-- T1 and T2 in one statement (the same `v'`) -/
theorem render_roundtrip (frt : FloatRT) (v : JVal) (hc : Clean v) (hroot : IsRoot v) :
    ∃ v', Spec.containerText (renderJ v).toList = .accept v' ∧ SameDoc v v' ∧
      (NoNegZero v → renderJ (ofSpec v') = renderJ v) := by
  obtain ⟨v', h1, h2⟩ := root_render (numOK_all frt) v hc (floatsSat_true v) hroot
  exact ⟨v', h1, DocRel.mono numRT_same v v' h2, rt_text v v' h2⟩

mutual
theorem noFloats_noNegZero : ∀ v : JVal, NoFloats v → NoNegZero v
  | .null, _ => by simp only [NoNegZero]
  | .bool _, _ => by simp only [NoNegZero]
  | .int _, _ => by simp only [NoNegZero]
  | .uint _, _ => by simp only [NoNegZero]
  | .float _ _, h => by simp only [FloatsSat] at h
  | .str _, _ => by simp only [NoNegZero]
  | .arr es, h => by simp only [FloatsSat] at h; simp only [NoNegZero]; exact noFloatsVs_noNegZero es h
  | .obj ms, h => by simp only [FloatsSat] at h; simp only [NoNegZero]; exact noFloatsMs_noNegZero ms h
theorem noFloatsVs_noNegZero : ∀ vs : JVals, FloatsSatVs (fun _ => False) vs → NoNegZeroVs vs
  | .nil, _ => by simp only [NoNegZeroVs]
  | .cons v vs, h => by
    simp only [FloatsSatVs] at h; simp only [NoNegZeroVs]
    exact ⟨noFloats_noNegZero v h.1, noFloatsVs_noNegZero vs h.2⟩
theorem noFloatsMs_noNegZero : ∀ ms : JMems, FloatsSatMs (fun _ => False) ms → NoNegZeroMs ms
  | .nil, _ => by simp only [NoNegZeroMs]
  | .cons _ v ms, h => by
    simp only [FloatsSatMs] at h; simp only [NoNegZeroMs]
    exact ⟨noFloats_noNegZero v h.1, noFloatsMs_noNegZero ms h.2⟩
end

/-- T1 without any hypothesis about floats, for documents without float leaves -/
theorem render_reads_back_nofloat (v : JVal) (hc : Clean v) (hn : NoFloats v) (hroot : IsRoot v) :
    ∃ v', Spec.containerText (renderJ v).toList = .accept v' ∧ SameDoc v v' := by
  obtain ⟨v', h1, h2⟩ := root_render numOK_nofloat v hc hn hroot
  exact ⟨v', h1, DocRel.mono numRT_same v v' h2⟩

/-- T2 without any hypothesis about floats, for documents without float leaves -/
theorem render_fixed_point_nofloat (v : JVal) (hc : Clean v) (hn : NoFloats v) (hroot : IsRoot v) :
    ∃ v', Spec.containerText (renderJ v).toList = .accept v' ∧ renderJ (ofSpec v') = renderJ v := by
  obtain ⟨v', h1, h2⟩ := root_render numOK_nofloat v hc hn hroot
  exact ⟨v', h1, rt_text v v' h2 (noFloats_noNegZero v hn)⟩

/-- T1 for the bytes `MarshalJSON` returns for a located container on a tape (`MarshalExact.marshalBuf_doc`) -/
theorem marshal_reads_back (frt : FloatRT) (pj : PJ) (v : LVal) (i : Iter) (hok : Ok pj v) (hf : FloatsOk v)
    (hon : OnNode pj v i) (hc : Clean (erase v)) (hroot : IsRoot (erase v)) :
    ∃ txt v', Iter.marshalBuf pj i #[] = .ok txt ∧ Spec.containerText txt.toList = .accept v' ∧
      SameDoc (erase v) v' := by
  obtain ⟨v', h1, h2⟩ := render_reads_back frt (erase v) hc hroot
  refine ⟨renderJ (erase v), v', ?_, h1, h2⟩
  rw [(marshalBuf_doc pj v i #[] hok hf hon).2]
  simp

/-- The documented exception of T2 is real: `[-0.0]` is written as `[-0]`, which is the JSON text of `[0]`
    (an integer), which is written as `[0]`. -/
theorem negZero_not_fixed :
    (renderJ (.arr (.cons (.float negZero 0) .nil))).toList = [91, 45, 48, 93] ∧
    Spec.containerText [91, 45, 48, 93] = .accept (.arr [.num (.int 0)]) ∧
    (renderJ (ofSpec (.arr [.num (.int 0)]))).toList = [91, 48, 93] := by
  have a0 : FloatFmt.fmtF ((negZero >>> 63) != 0) (FloatFmt.shortest (negZero &&& 0x7fffffffffffffff)) = #[45, 48] := by
    decide +kernel
  have a1 : FloatFmt.appendFloat negZero = some #[45, 48] := by
    rw [FloatFmtProofs.appendFloat_eq negZero (by decide), if_pos (Or.inr (by decide)), a0]
  refine ⟨?_, by rfl, ?_⟩
  · simp [renderJ, renderJElems, renderJTail, a1]
  · simp [ofSpec, ofSpecList, ofNum, renderJ, renderJElems, renderJTail]
    decide +kernel

/-! ## 5. T3: newline-separated roots (`ParseND` / `MarshalJSON` of a multi-root tape) -/

def renderJRootsTail : List JVal → Bytes
  | [] => #[]
  | v :: vs => #[10] ++ (renderJ v ++ renderJRootsTail vs)

/-- root values separated by newlines: `MarshalExact.renderRoots` on abstract documents -/
def renderJRoots : List JVal → Bytes
  | [] => #[]
  | v :: vs => renderJ v ++ renderJRootsTail vs

theorem renderRootsTail_erase : ∀ vs : List LVal, renderRootsTail vs = renderJRootsTail (vs.map erase)
  | [] => rfl
  | v :: vs => by
    simp only [renderRootsTail, List.map_cons, renderJRootsTail, render_erase, renderRootsTail_erase vs]

/-- the text `MarshalJSON` writes for a multi-root tape (`MarshalExact.marshalBuf_ofPJ`) is `renderJRoots` of the
    abstract root documents -/
theorem renderRoots_erase (vs : List LVal) : renderRoots vs = renderJRoots (vs.map erase) := by
  cases vs with
  | nil => rfl
  | cons v vs => simp only [renderRoots, List.map_cons, renderJRoots, render_erase, renderRootsTail_erase vs]

theorem renderJRootsTail_toList : ∀ vs : List JVal,
    (renderJRootsTail vs).toList = tailText (vs.map fun v => (renderJ v).toList)
  | [] => by simp [renderJRootsTail, tailText]
  | v :: vs => by simp [renderJRootsTail, tailText, renderJRootsTail_toList vs]

/-- roots correspond one by one -/
def RootsRel (P : JVal → Spec.Num → Prop) : List JVal → List Spec.JVal → Prop
  | [], l => l = []
  | v :: vs, l => ∃ v' l', l = v' :: l' ∧ DocRel P v v' ∧ RootsRel P vs l'

theorem RootsRel.mono {P Q : JVal → Spec.Num → Prop} (h : ∀ v n, P v n → Q v n) :
    ∀ (vs : List JVal) (l : List Spec.JVal), RootsRel P vs l → RootsRel Q vs l
  | [], l, hr => hr
  | v :: vs, l, hr => by
    obtain ⟨v', l', h1, h2, h3⟩ := hr
    exact ⟨v', l', h1, DocRel.mono h v v' h2, RootsRel.mono h vs l' h3⟩

theorem ndGo_accept {ok : UInt64 → Prop} {P : JVal → Spec.Num → Prop} (hP : NumOK ok P) :
    ∀ (vs : List JVal), (∀ v ∈ vs, Clean v ∧ FloatsSat ok v ∧ IsRoot v) → ∀ (acc : List Spec.JVal),
      ∃ l, Spec.ndText.go (vs.map fun v => (renderJ v).toList) acc false = .accept (.arr (acc.reverse ++ l)) ∧
        RootsRel P vs l
  | [], _, acc => ⟨[], by simp [Spec.ndText.go], rfl⟩
  | v :: vs, h, acc => by
    obtain ⟨hc, hk, hroot⟩ := h v (by simp)
    obtain ⟨v', h1, h2⟩ := root_render hP v hc hk hroot
    obtain ⟨l, h3, h4⟩ := ndGo_accept hP vs (fun w hw => h w (by simp [hw])) (v' :: acc)
    refine ⟨v' :: l, ?_, v', l, rfl, h2, h4⟩
    rw [List.map_cons, Spec.ndText.go]
    simp only [h1]
    rw [h3]
    simp

theorem root_not_blank (v : JVal) (hroot : IsRoot v) : Spec.isBlank (renderJ v).toList = false := by
  obtain ⟨c, r, hs, hc⟩ := root_head v hroot
  rw [hs]
  rcases hc with rfl | rfl <;> simp [Spec.isBlank, Spec.isWs]

/-- the generic statement for newline-separated roots -/
theorem roots_render {ok : UInt64 → Prop} {P : JVal → Spec.Num → Prop} (hP : NumOK ok P)
    (hfl : ∀ bits, ok bits → F64.isFinite bits = true → NoLF ((FloatFmt.appendFloat bits).getD #[]).toList)
    (vs : List JVal) (hne : vs ≠ []) (h : ∀ v ∈ vs, Clean v ∧ FloatsSat ok v ∧ IsRoot v) :
    ∃ l, Spec.ndText (renderJRoots vs).toList = .accept (.arr l) ∧ RootsRel P vs l := by
  cases vs with
  | nil => exact absurd rfl hne
  | cons v vs =>
    have htxt : (renderJRoots (v :: vs)).toList =
        (renderJ v).toList ++ tailText (vs.map fun v => (renderJ v).toList) := by
      simp [renderJRoots, renderJRootsTail_toList]
    have hlf : ∀ w ∈ v :: vs, NoLF (renderJ w).toList :=
      fun w hw => renderJ_noLF hfl w (h w hw).1 (h w hw).2.1
    have hsplit := splitLines_join (renderJ v).toList (vs.map fun v => (renderJ v).toList) (hlf v (by simp))
      (by
        intro l hl
        obtain ⟨w, hw, rfl⟩ := List.mem_map.mp hl
        exact hlf w (by simp [hw]))
    have hfilter : ((v :: vs).map fun v => (renderJ v).toList).filter (fun l => !Spec.isBlank l) =
        (v :: vs).map fun v => (renderJ v).toList := by
      apply List.filter_eq_self.mpr
      intro l hl
      obtain ⟨w, hw, rfl⟩ := List.mem_map.mp hl
      simp [root_not_blank w (h w hw).2.2]
    obtain ⟨l, h1, h2⟩ := ndGo_accept hP (v :: vs) h []
    refine ⟨l, ?_, h2⟩
    unfold Spec.ndText
    rw [htxt, hsplit]
    simp only []
    rw [← List.map_cons (f := fun v => (renderJ v).toList), hfilter, h1]
    simp

theorem rt_roots : ∀ (vs : List JVal) (l : List Spec.JVal), RootsRel NumRT vs l → (∀ v ∈ vs, NoNegZero v) →
    renderJRoots (l.map ofSpec) = renderJRoots vs ∧ renderJRootsTail (l.map ofSpec) = renderJRootsTail vs
  | [], l, h, _ => by
    have : l = [] := h
    subst this; exact ⟨rfl, rfl⟩
  | v :: vs, l, h, hz => by
    obtain ⟨v', l', rfl, h1, h2⟩ := h
    have a := rt_text v v' h1 (hz v (by simp))
    have b := (rt_roots vs l' h2 (fun w hw => hz w (by simp [hw]))).2
    simp only [List.map_cons, renderJRoots, renderJRootsTail, a, b, and_self]

/-- **T3.** Newline-separated root documents (each clean, each an array or object, at least one) are read back by
    the NDJSON specification line by line, as the same documents in the same order. -/
theorem roots_read_back (frt : FloatRT) (vs : List JVal) (hne : vs ≠ []) (h : ∀ v ∈ vs, Clean v ∧ IsRoot v) :
    ∃ l, Spec.ndText (renderJRoots vs).toList = .accept (.arr l) ∧ RootsRel NumSame vs l := by
  obtain ⟨l, h1, h2⟩ := roots_render (numOK_all frt) (fun bits _ hfin => floatText_noLF frt bits hfin) vs hne
    (fun v hv => ⟨(h v hv).1, floatsSat_true v, (h v hv).2⟩)
  exact ⟨l, h1, RootsRel.mono numRT_same vs l h2⟩

/-- **T3, fixed point.** -/
theorem roots_fixed_point (frt : FloatRT) (vs : List JVal) (hne : vs ≠ []) (h : ∀ v ∈ vs, Clean v ∧ IsRoot v)
    (hz : ∀ v ∈ vs, NoNegZero v) :
    ∃ l, Spec.ndText (renderJRoots vs).toList = .accept (.arr l) ∧ renderJRoots (l.map ofSpec) = renderJRoots vs := by
  obtain ⟨l, h1, h2⟩ := roots_render (numOK_all frt) (fun bits _ hfin => floatText_noLF frt bits hfin) vs hne
    (fun v hv => ⟨(h v hv).1, floatsSat_true v, (h v hv).2⟩)
  exact ⟨l, h1, (rt_roots vs l h2 hz).1⟩

/-- T3 for documents without float leaves: no hypothesis about floats -/
theorem roots_read_back_nofloat (vs : List JVal) (hne : vs ≠ []) (h : ∀ v ∈ vs, Clean v ∧ NoFloats v ∧ IsRoot v) :
    ∃ l, Spec.ndText (renderJRoots vs).toList = .accept (.arr l) ∧ RootsRel NumSame vs l ∧
      renderJRoots (l.map ofSpec) = renderJRoots vs := by
  obtain ⟨l, h1, h2⟩ := roots_render numOK_nofloat (fun bits hf _ => hf.elim) vs hne h
  exact ⟨l, h1, RootsRel.mono numRT_same vs l h2,
    (rt_roots vs l h2 (fun v hv => noFloats_noNegZero v (h v hv).2.1)).1⟩

end SJ.RenderParse
