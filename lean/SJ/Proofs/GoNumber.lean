import SJ.Proofs.GoNumberLemmas
set_option linter.unusedVariables false
set_option linter.unusedSimpArgs false
namespace SJ.GoNumber
open SJ SJ.GoSem SJ.Generated SJ.Tables

attribute [local simp] exec exec1 execCases evalE evalEs Env.get Env.set isOneOf binop convert ofE runFun tblLookup

theorem trueAtom_sim (buf : Bytes) (start : Nat) (hs : start ≤ buf.size) (fuel : Nat) (tape : Array UInt64) :
    ∃ s, runFun goFuns goisValidTrueAtom fuel ⟨[("buf", .bytes (buf.extract start buf.size))], tape⟩ =
      .ret s [.bool (isValidTrueAtom buf start)] ∧ s.tape = tape := by
  simp only [goisValidTrueAtom, isValidTrueAtom]
  by_cases h5 : buf.size - start ≥ 5
  · have hl : leU32 (buf.extract start buf.size) = UInt64.ofNat (le32 buf start) := leU32_suffix buf start (by omega)
    have h5i : (5 : Int) ≤ ((buf.size - start : Nat) : Int) := by omega
    have h4i : (4 : Int) < ((buf.size - start : Nat) : Int) := by omega
    have h4 : ¬ (buf.size - start < 4) := by omega
    have hf := follow_tbl (buf.getD (start + 4) 0)
    have hg := getD_suffix buf start 4 (by omega)
    simp only [Array.getD_eq_getD_getElem?] at hf hg
    by_cases hv : le32 buf start = catomTrue
    · simp [h5, hl, hv, h5i, h4i, h4, catomTrue, hg, hf]
    · have hne : ¬ UInt64.ofNat (le32 buf start) = 1702195828 := by
        intro h
        exact hv ((ofNat_eq_iff _ 1702195828 (by have := le32_lt buf start; omega) (by decide)).mp h)
      simp [h5, hl, hv, h5i, h4i, h4, hne]
  · have h5i : ¬ (5 : Int) ≤ ((buf.size - start : Nat) : Int) := by omega
    simp [h5, h5i]

theorem nullAtom_sim (buf : Bytes) (start : Nat) (hs : start ≤ buf.size) (fuel : Nat) (tape : Array UInt64) :
    ∃ s, runFun goFuns goisValidNullAtom fuel ⟨[("buf", .bytes (buf.extract start buf.size))], tape⟩ =
      .ret s [.bool (isValidNullAtom buf start)] ∧ s.tape = tape := by
  simp only [goisValidNullAtom, isValidNullAtom]
  by_cases h5 : buf.size - start ≥ 5
  · have hl : leU32 (buf.extract start buf.size) = UInt64.ofNat (le32 buf start) := leU32_suffix buf start (by omega)
    have h5i : (5 : Int) ≤ ((buf.size - start : Nat) : Int) := by omega
    have h4i : (4 : Int) < ((buf.size - start : Nat) : Int) := by omega
    have h4 : ¬ (buf.size - start < 4) := by omega
    have hf := follow_tbl (buf.getD (start + 4) 0)
    have hg := getD_suffix buf start 4 (by omega)
    simp only [Array.getD_eq_getD_getElem?] at hf hg
    by_cases hv : le32 buf start = catomNull
    · simp [h5, hl, hv, h5i, h4i, h4, catomNull, hg, hf]
    · have hne : ¬ UInt64.ofNat (le32 buf start) = 1819047278 := by
        intro h
        exact hv ((ofNat_eq_iff _ 1819047278 (by have := le32_lt buf start; omega) (by decide)).mp h)
      simp [h5, hl, hv, h5i, h4i, h4, hne]
  · have h5i : ¬ (5 : Int) ≤ ((buf.size - start : Nat) : Int) := by omega
    simp [h5, h5i]

theorem false_word (e : UInt64) (n : Nat) (hn : n < 2^64) :
    ((e ||| (UInt64.ofNat n &&& 1099511627775 ^^^ 435728179558)) == 0) =
      ((e == 0) && (n &&& catomFalseMask == catomFalse)) := by
  rw [Bool.eq_iff_iff]
  simp only [beq_iff_eq, UInt64.or_eq_zero_iff, UInt64.xor_eq_zero_iff, Bool.and_eq_true]
  have := ofNat_and_eq_iff n 1099511627775 435728179558 hn (by decide) (by decide)
  rw [show catomFalseMask = 1099511627775 from rfl, show catomFalse = 435728179558 from rfl, ← this]
  rfl

theorem falseAtom_sim (buf : Bytes) (start : Nat) (hs : start ≤ buf.size) (fuel : Nat) (tape : Array UInt64) :
    ∃ s, runFun goFuns goisValidFalseAtom fuel ⟨[("buf", .bytes (buf.extract start buf.size))], tape⟩ =
      .ret s [.bool (isValidFalseAtom buf start)] ∧ s.tape = tape := by
  simp only [goisValidFalseAtom, isValidFalseAtom]
  by_cases h8 : buf.size - start ≥ 8
  · have hl : leU64 (buf.extract start buf.size) = UInt64.ofNat (le64 buf start) := leU64_suffix buf start (by omega)
    have h8i : (8 : Int) ≤ ((buf.size - start : Nat) : Int) := by omega
    have h5i : (5 : Int) < ((buf.size - start : Nat) : Int) := by omega
    have h8' : ¬ (buf.size - start < 8) := by omega
    have hf := follow_tbl64 (buf.getD (start + 5) 0)
    have hg := getD_suffix buf start 5 (by omega)
    simp only [Array.getD_eq_getD_getElem?] at hf hg
    simp [h8, hl, h8i, h5i, h8', hg]
    rw [false_word _ _ (le64_lt buf start)]
    simp [hf]
  · sorry
