import SJ.Proofs.GoNumberLemmas
set_option linter.unusedVariables false
set_option linter.unusedSimpArgs false
/-
GoNumber — the hand model of `Model/Number.lean` (`parseNumber` with `numScan`, `isValidTrueAtom`, `isValidFalseAtom`,
`isValidNullAtom`, on which the C01/C03 theorems of `Proofs/Number.lean` rest) IS the meaning of the syntax trees the
translator printed from `/repo/parse_number.go` (l.65-135) and `/repo/stage2_build_tape_amd64.go` (l.126-160):
`Generated/GoSrc.lean`: `goparseNumber`, `goisValidTrueAtom`, `goisValidFalseAtom`, `goisValidNullAtom`.

The Go functions take the slice `buf[start:]`; the model takes the whole buffer and a start index.  For EVERY `buf`,
EVERY `start` (no `start ≤ buf.size` needed: beyond the end the slice is empty and both sides say false / `0, 0`),
every fuel (0 included: `range` consumes none), the store `[("buf", .bytes (buf.extract start buf.size))]`, every tape:

  `trueAtom_sim`, `falseAtom_sim`, `nullAtom_sim` : `runFun … = .ret s [.bool (isValid…Atom buf start)]`, `s.tape = tape`
  `parseNumber_sim`      : `runFun … = .ret s (enc (parseNumber buf start))`, `s.tape = tape`
                           (`enc none = [0, 0]`, `enc (some (id, val)) = [id, val]`)
  `parseNumber_some_iff` : `parseNumber buf start = some (id, val)` ⇔ `id ≠ 0` ∧ the interpreter returns `[id, val]`
  `parseNumber_none_iff` : `parseNumber buf start = none` ⇔ the interpreter returns `[0, 0]`
  `parseNumber_run`, `parseNumber_total` : the same for an arbitrary slice `b`; never `panic`, `stuck`, `diverge`
  `go_number_source_tie` : the bundle.

NO extra hypothesis was needed.  In particular the slice may be empty: the loop body never runs, `pos == 0` returns
`0, 0` before `buf[0]` is evaluated (see the `example`s).  Every index expression is shown in range where it is evaluated:
* `buf[i+1]` in the loop: behind the lazy `len(buf) < i+2 ||` (`loop_step`, case `xs ≠ []`);
* `buf[0]` (twice), `buf[:pos]` (three times): `1 ≤ pos ≤ len(buf)` — `pos ≤ len(buf)` is part of the loop invariant
  (`scan_loop`), `pos ≠ 0` from the test after the loop;
* `buf[1]` behind the lazy `pos > 2 &&`; `buf[first]`, `buf[first+1]` behind the lazy `pos > first+1 &&`.
The model reads with `getD … 0`; on all these paths the index is in range, so the default is never used where Go would panic.

Route.  `scan_loop`: `execRangeI` over the bytes of the slice = `NumberProofs.scan` (the pure recursive scan to which
`numScan` is proved equal in `Proofs/Number.lean`), by induction over the remaining bytes with an abstract store
(invariant: `buf`, `pos = k`, `found`, `k ≤ len`); `int_sim`: the integer branch either returns what `NumberProofs.core`
returns or falls through with `floatTag = ft` such that `core … = floatPath … ft` (the model's `tag1`/`flagged`
book-keeping = Go's `floatTag |= 1`, including `flagged ||| 1 = flagged`); `float_sim`: the float path; `tail_sim`,
`parseNumber_run`: assembly; `NumberProofs.parseNumber_eq` brings the statement back to `parseNumber buf start`.

Idealisations checked and found to AGREE EXACTLY with the source (no difference found):
* `found` is a `uint8` in Go, an unbounded `Nat` in the model: every rune class is `< 256` and `|`/`&` commute with `toNat`.
* `le32`/`le64` (sums) vs `binary.LittleEndian.Uint32/64` (or-ed shifts): `leU32_suffix`, `leU64_suffix`; the masked
  comparison `error |= (locval & mask5) ^ fv; error == 0` vs the model's `&&`: `false_word`.
* `isFollow` (default 1 beyond the table) vs the table look-up of a byte (256 entries): `follow_tbl`.
* `uint64(i64)` = `ofInt64`; the tag words `uint64(Tag…) << 56` = `mkWord tag… 0`.
An edit of one of the four Go functions changes a generated definition and breaks the corresponding proof.
-/
namespace SJ.GoNumber
open SJ SJ.GoSem SJ.Generated SJ.Tables

attribute [local simp] exec exec1 execCases evalE evalEs Env.get Env.set isOneOf binop convert ofE runFun tblLookup

theorem trueAtom_sim (buf : Bytes) (start : Nat) (fuel : Nat) (tape : Array UInt64) :
    ∃ s, runFun goFuns goisValidTrueAtom fuel ⟨[("buf", .bytes (buf.extract start buf.size))], tape⟩ =
      .ret s [.bool (isValidTrueAtom buf start)] ∧ s.tape = tape := by
  simp only [goisValidTrueAtom, isValidTrueAtom]
  by_cases h5 : buf.size - start ≥ 5
  · have hl : leU32 (buf.extract start buf.size) = UInt64.ofNat (le32 buf start) := leU32_suffix buf start (by omega)
    have h5i : (5 : Int) ≤ ((buf.size - start : Nat) : Int) := by omega
    have h4i : (4 : Int) < ((buf.size - start : Nat) : Int) := by omega
    have h4 : ¬ (buf.size - start < 4) := by omega
    have hf := follow_tbl (buf.getD (start + 4) 0)
    have hg := getD_suffix buf start 4 (by omega)
    simp only [Array.getD_eq_getD_getElem?] at hf hg
    by_cases hv : le32 buf start = catomTrue
    · simp [h5, hl, hv, h5i, h4i, h4, catomTrue, hg, hf]
    · have hne : (UInt64.ofNat (le32 buf start) == 1702195828) = false := by
        apply beq_false_of_ne
        intro h
        exact hv ((ofNat_eq_iff _ 1702195828 (by have := le32_lt buf start; omega) (by decide)).mp h)
      simp [h5, hl, hv, h5i, h4i, h4, hne]
  · have h5i : ¬ (5 : Int) ≤ ((buf.size - start : Nat) : Int) := by omega
    simp [h5, h5i]

theorem nullAtom_sim (buf : Bytes) (start : Nat) (fuel : Nat) (tape : Array UInt64) :
    ∃ s, runFun goFuns goisValidNullAtom fuel ⟨[("buf", .bytes (buf.extract start buf.size))], tape⟩ =
      .ret s [.bool (isValidNullAtom buf start)] ∧ s.tape = tape := by
  simp only [goisValidNullAtom, isValidNullAtom]
  by_cases h5 : buf.size - start ≥ 5
  · have hl : leU32 (buf.extract start buf.size) = UInt64.ofNat (le32 buf start) := leU32_suffix buf start (by omega)
    have h5i : (5 : Int) ≤ ((buf.size - start : Nat) : Int) := by omega
    have h4i : (4 : Int) < ((buf.size - start : Nat) : Int) := by omega
    have h4 : ¬ (buf.size - start < 4) := by omega
    have hf := follow_tbl (buf.getD (start + 4) 0)
    have hg := getD_suffix buf start 4 (by omega)
    simp only [Array.getD_eq_getD_getElem?] at hf hg
    by_cases hv : le32 buf start = catomNull
    · simp [h5, hl, hv, h5i, h4i, h4, catomNull, hg, hf]
    · have hne : (UInt64.ofNat (le32 buf start) == 1819047278) = false := by
        apply beq_false_of_ne
        intro h
        exact hv ((ofNat_eq_iff _ 1819047278 (by have := le32_lt buf start; omega) (by decide)).mp h)
      simp [h5, hl, hv, h5i, h4i, h4, hne]
  · have h5i : ¬ (5 : Int) ≤ ((buf.size - start : Nat) : Int) := by omega
    simp [h5, h5i]

theorem false_word (e : UInt64) (n : Nat) (hn : n < 2^64) :
    ((e ||| (UInt64.ofNat n &&& 1099511627775 ^^^ 435728179558)) == 0) =
      ((e == 0) && (n &&& catomFalseMask == catomFalse)) := by
  rw [Bool.eq_iff_iff]
  simp only [beq_iff_eq, UInt64.or_eq_zero_iff, UInt64.xor_eq_zero_iff, Bool.and_eq_true]
  have := ofNat_and_eq_iff n 1099511627775 435728179558 hn (by decide) (by decide)
  rw [show catomFalseMask = 1099511627775 from rfl, show catomFalse = 435728179558 from rfl, ← this]
  rfl

theorem falseAtom_sim (buf : Bytes) (start : Nat) (fuel : Nat) (tape : Array UInt64) :
    ∃ s, runFun goFuns goisValidFalseAtom fuel ⟨[("buf", .bytes (buf.extract start buf.size))], tape⟩ =
      .ret s [.bool (isValidFalseAtom buf start)] ∧ s.tape = tape := by
  simp only [goisValidFalseAtom, isValidFalseAtom]
  by_cases h8 : buf.size - start ≥ 8
  · have hl : leU64 (buf.extract start buf.size) = UInt64.ofNat (le64 buf start) := leU64_suffix buf start (by omega)
    have h8i : (8 : Int) ≤ ((buf.size - start : Nat) : Int) := by omega
    have h5i : (5 : Int) < ((buf.size - start : Nat) : Int) := by omega
    have h8' : ¬ (buf.size - start < 8) := by omega
    have hf := follow_tbl64 (buf.getD (start + 5) 0)
    have hg := getD_suffix buf start 5 (by omega)
    simp only [Array.getD_eq_getD_getElem?] at hf hg
    simp [h8, hl, h8i, h5i, h8', hg]
    rw [false_word _ _ (le64_lt buf start)]
    simp [hf]
  · have h8i : ¬ (8 : Int) ≤ ((buf.size - start : Nat) : Int) := by omega
    by_cases h6 : buf.size - start ≥ 6
    · have h6i : (6 : Int) ≤ ((buf.size - start : Nat) : Int) := by omega
      have h5i : (5 : Int) < ((buf.size - start : Nat) : Int) := by omega
      have h5' : (5 : Int) ≤ ((buf.size - start : Nat) : Int) := by omega
      have hf := follow_tbl (buf.getD (start + 5) 0)
      have hg := getD_suffix buf start 5 (by omega)
      simp only [Array.getD_eq_getD_getElem?] at hf hg
      have hx : (buf.extract start buf.size).extract 0 5 = buf.extract start (start + 5) := by
        rw [Array.extract_extract, Nat.add_zero, Nat.min_eq_left (by omega)]
      have hlit : "false".toUTF8.data = #[102, 97, 108, 115, 101] := by decide
      rw [hlit]
      cases hE : (buf.extract start (start + 5) == #[102, 97, 108, 115, 101]) <;>
        simp [h8, h8i, h6, h6i, h5i, h5', hg, hf, hx, hE]
    · have h6i : ¬ (6 : Int) ≤ ((buf.size - start : Nat) : Int) := by omega
      simp [h8, h8i, h6, h6i]

/-! ## parseNumber: the pieces of the syntax tree -/

def loopBody : List Stmt :=
  match goparseNumber.body with
  | _ :: _ :: _ :: _ :: .rangeIB _ _ _ b :: _ => b
  | _ => []
def tailStmts : List Stmt := goparseNumber.body.drop 5

theorem body_eq : goparseNumber.body =
    [.assign "id" (.u64 0), .assign "val" (.u64 0), .assign "pos" (.int 0), .assign "found" (.conv .u8 (.u8 0)),
     .rangeIB "i" "v" (.v "buf") loopBody] ++ tailStmts := rfl

section Loop
attribute [-simp] Env.get Env.set tblLookup
attribute [local simp] GoRebuild.Env.get_set

theorem tbl_rune (x : UInt8) : tblLookup "isNumberRune" x.toNat = some (.u8 (runeU8 x)) := rfl

theorem drop_facts (b : Bytes) (k : Nat) (x : UInt8) (xs : List UInt8) (hd : b.toList.drop k = x :: xs) :
    k + 1 + xs.length = b.size ∧ b.toList.drop (k + 1) = xs ∧ (xs ≠ [] → b.getD (k + 1) 0 = xs.headD 0) := by
  have hl := congrArg List.length hd
  simp only [List.length_drop, Array.length_toList, List.length_cons] at hl
  have h2 : b.toList.drop (k + 1) = xs := by
    have := congrArg (List.drop 1) hd
    simpa [List.drop_drop, Nat.add_comm] using this
  refine ⟨by omega, h2, ?_⟩
  intro hne
  rw [← h2]
  simp [List.headD_eq_head?_getD, List.head?_drop]

/-- one iteration of the scan loop -/
theorem loop_step (b : Bytes) (fuel : Nat) (s : GoSem.St) (fu : UInt8) (k : Nat) (x : UInt8) (xs : List UInt8)
    (hd : b.toList.drop k = x :: xs)
    (hb : s.env.get "buf" = some (.bytes b)) (hf : s.env.get "found" = some (.u8 fu)) :
    let e1 := ((s.env.set "i" (.int k)).set "v" (.u8 x)).set "t" (.u8 (runeU8 x))
    exec goFuns fuel loopBody ⟨(s.env.set "i" (.int k)).set "v" (.u8 x), s.tape⟩ =
      if numRune x = 0 then .ret ⟨e1, s.tape⟩ [.u64 0, .u64 0]
      else if numRune x = 8 then .brk ⟨e1, s.tape⟩
      else if numRune x &&& 32 > 0 ∧ (xs = [] ∨ numRune (xs.headD 0) &&& 16 = 0) then .ret ⟨e1, s.tape⟩ [.u64 0, .u64 0]
      else .normal ⟨(e1.set "found" (.u8 (fu ||| runeU8 x))).set "pos" (.int ((k : Int) + 1)), s.tape⟩ := by
  intro e1
  obtain ⟨hlen, hdr, hhd⟩ := drop_facts b k x xs hd
  have h0 := runeU8_zero x
  have h8 := runeU8_eov x
  have hm := runeU8_must x
  by_cases c0 : numRune x = 0
  · have e0 := h0.mpr c0
    simp [loopBody, goparseNumber, c0, hb, hf, e1, tbl_rune, e0]
  · have b0 : (runeU8 x == 0) = false := beq_false_of_ne (fun h => c0 (h0.mp h))
    by_cases c8 : numRune x = 8
    · have e8 := h8.mpr c8
      simp [loopBody, goparseNumber, c0, c8, hb, hf, e1, tbl_rune, e8]
    · have b8 : (runeU8 x == 8) = false := beq_false_of_ne (fun h => c8 (h8.mp h))
      by_cases cm : numRune x &&& 32 > 0
      · have bm : decide (0 < runeU8 x &&& 32) = true := decide_eq_true (hm.mpr cm)
        by_cases cl : xs = []
        · have hlt : (b.size : Int) < (k : Int) + 2 := by subst cl; simp at hlen; omega
          simp [loopBody, goparseNumber, c0, c8, hb, hf, e1, tbl_rune, b0, b8, bm, cm, cl, hlt]
        · have hlt : ¬ (b.size : Int) < (k : Int) + 2 := by
            have : xs.length ≠ 0 := fun h => cl (List.length_eq_zero_iff.mp h)
            omega
          have hidx : (k : Int) + 1 < b.size := by omega
          have hnn : (0 : Int) ≤ (k : Int) + 1 := by omega
          have htn : ((k : Int) + 1).toNat = k + 1 := by omega
          have hw := hhd cl
          generalize xs.headD 0 = w at *
          have hdg := runeU8_digit w
          by_cases cd : numRune w &&& 16 = 0
          · have ed := hdg.mpr cd
            simp [loopBody, goparseNumber, c0, c8, hb, hf, e1, tbl_rune, b0, b8, bm, cm, cl, hlt, hidx, hnn, htn, hw, ed, cd]
          · have bd : (runeU8 w &&& 16 == 0) = false := beq_false_of_ne (fun h => cd (hdg.mp h))
            simp [loopBody, goparseNumber, c0, c8, hb, hf, e1, tbl_rune, b0, b8, bm, cm, cl, hlt, hidx, hnn, htn, hw, bd, cd]
      · have bm : decide (0 < runeU8 x &&& 32) = false := decide_eq_false (fun h => cm (hm.mp h))
        simp [loopBody, goparseNumber, c0, c8, hb, hf, e1, tbl_rune, b0, b8, bm, cm]

theorem execRangeI_nil (funs : String → Option FunDef) (fuel : Nat) (iv v : String) (k : Nat) (body : List Stmt) (s : GoSem.St) :
    execRangeI funs fuel iv v k [] body s = .normal s := by rw [execRangeI]

theorem execRangeI_cons (funs : String → Option FunDef) (fuel : Nat) (iv v : String) (k : Nat) (x : UInt8) (xs : List UInt8)
    (body : List Stmt) (s : GoSem.St) :
    execRangeI funs fuel iv v k (x :: xs) body s =
      match exec funs fuel body { s with env := (s.env.set iv (.int k)).set v (.u8 x) } with
      | .normal s' | .cont s' => execRangeI funs fuel iv v (k + 1) xs body s'
      | .brk s' => .normal s'
      | o => o := by
  rw [execRangeI]
  generalize exec funs fuel body _ = out
  cases out <;> rfl

set_option maxRecDepth 8192 in
/-- the `range` loop is the model's scan (`NumberProofs.scan`, to which `numScan` is equal): an abort is `return 0, 0`,
    otherwise the loop ends normally with `pos`, `found` as the model computes them; `pos ≤ len(buf)` -/
theorem scan_loop (b : Bytes) (tape : Array UInt64) (fuel : Nat) :
    ∀ (xs : List UInt8) (k : Nat) (s : GoSem.St) (fu : UInt8),
    b.toList.drop k = xs → k ≤ b.size → s.tape = tape → s.env.get "buf" = some (.bytes b) →
    s.env.get "found" = some (.u8 fu) → s.env.get "pos" = some (.int k) →
    match NumberProofs.scan xs k fu.toNat with
    | none => ∃ s', execRangeI goFuns fuel "i" "v" k xs loopBody s = .ret s' [.u64 0, .u64 0] ∧ s'.tape = tape
    | some (p, f) => ∃ s' fu', execRangeI goFuns fuel "i" "v" k xs loopBody s = .normal s' ∧ s'.tape = tape ∧
        s'.env.get "buf" = some (.bytes b) ∧ s'.env.get "found" = some (.u8 fu') ∧ fu'.toNat = f ∧
        s'.env.get "pos" = some (.int p) ∧ p ≤ b.size := by
  intro xs
  induction xs with
  | nil =>
    intro k s fu hd hk ht hb hf hp
    rw [NumberProofs.scan, execRangeI_nil]
    exact ⟨s, fu, rfl, ht, hb, hf, rfl, hp, hk⟩
  | cons x xs ih =>
    intro k s fu hd hk ht hb hf hp
    have hlen := (drop_facts b k x xs hd).1
    have hdr := (drop_facts b k x xs hd).2.1
    have hstep := loop_step b fuel s fu k x xs hd hb hf
    simp only [] at hstep
    rcases Classical.em (numRune x = 0) with c0 | c0
    · rw [NumberProofs.scan, execRangeI_cons, hstep]
      simp only [c0, if_true]
      exact ⟨_, rfl, ht⟩
    · rcases Classical.em (numRune x = 8) with c8 | c8
      · rw [NumberProofs.scan, execRangeI_cons, hstep]
        simp only [c0, c8, if_true, if_false]
        refine ⟨_, fu, rfl, ht, ?_, ?_, rfl, ?_, hk⟩ <;> simp [hb, hf, hp]
      · rcases Classical.em (numRune x &&& 32 > 0 ∧ (xs = [] ∨ numRune (xs.headD 0) &&& 16 = 0)) with cm | cm
        · rw [NumberProofs.scan, execRangeI_cons, hstep]
          simp only [c0, c8, cm, if_true, if_false]
          exact ⟨_, rfl, ht⟩
        · have := ih (k + 1) ⟨((((s.env.set "i" (.int k)).set "v" (.u8 x)).set "t" (.u8 (runeU8 x))).set "found"
              (.u8 (fu ||| runeU8 x))).set "pos" (.int ((k : Int) + 1)), s.tape⟩ (fu ||| runeU8 x) hdr (by omega) ht
              (by simp [hb]) (by simp) (by simp)
          rw [UInt8.toNat_or, runeU8_toNat] at this
          rw [NumberProofs.scan, execRangeI_cons, hstep]
          simp only [c0, c8, cm, if_true, if_false]
          exact this
end Loop

/-! ## parseNumber: after the loop -/

/-- the two returned words -/
def enc : Option (UInt64 × UInt64) → List Val
  | none => [.u64 0, .u64 0]
  | some (id, val) => [.u64 id, .u64 val]

def headT : List Stmt := tailStmts.take 3
def intIte : Stmt :=
  match goparseNumber.body with
  | _ :: _ :: _ :: _ :: _ :: _ :: _ :: _ :: s :: _ => s
  | _ => .brk
def floatT : List Stmt := tailStmts.drop 4
theorem tail_eq : tailStmts = headT ++ ([intIte] ++ floatT) := rfl

theorem toList_getD (b : Bytes) (j : Nat) : b.toList.getD j 0 = b.getD j 0 := by
  simp only [Array.getD, List.getD, Array.getElem?_toList]
  split <;> simp [*]

section Tail
attribute [-simp] Env.get Env.set tblLookup getElem?_pos Array.getElem?_eq_getElem
attribute [local simp] GoRebuild.Env.get_set tbl_rune extCall assignTargets

theorem float_sim (b : Bytes) (tape : Array UInt64) (fuel : Nat) (e : Env) (pn : Nat) (ft : UInt64)
    (hb : e.get "buf" = some (.bytes b)) (hp : e.get "pos" = some (.int pn)) (hft : e.get "floatTag" = some (.u64 ft))
    (h1 : 1 ≤ pn) (hle : pn ≤ b.size) :
    ∃ s', exec goFuns fuel floatT ⟨e, tape⟩ = .ret s' (enc (NumberProofs.floatPath b.toList pn ft)) ∧ s'.tape = tape := by
  have hx : (b.extract 0 pn).toList = b.toList.take pn := by simp
  have hsz : (0 : Int) < b.size := by omega
  have hszn : 0 < b.size := by omega
  simp only [NumberProofs.floatPath, toList_getD]
  generalize hc0 : b.getD 0 0 = c0
  generalize hc1 : b.getD 1 0 = c1
  generalize hc2 : b.getD 2 0 = c2
  simp only [Array.getD_eq_getD_getElem?] at hc0 hc1 hc2
  by_cases hm : c0 = 45
  · have hm' : (c0 == 45) = true := by simp [hm]
    simp only [hm', if_true, hc0, hc1, hc2]
    by_cases hg : pn > 1 + 1
    · have hgi : (2 : Int) < pn := by omega
      have n1 : (1 : Int) < b.size := by omega
      have n2 : (2 : Int) < b.size := by omega
      by_cases hz : c1 = 48
      · by_cases hfl : numRune c2 &&& 2 = 0
        · have efl := (runeU8_float c2).mpr hfl
          simp [floatT, tailStmts, goparseNumber, hb, hp, hft, hszn, n1, n2, hc0, hc1, hc2, hm, hg, hgi, hle, hx, enc,
            hz, hfl, efl, cisFloatOnlyFlag]
        · have bfl : (runeU8 c2 &&& 2 == 0) = false := beq_false_of_ne (fun h => hfl ((runeU8_float c2).mp h))
          cases hpf : parseFloat64 (b.toList.take pn) <;>
          simp [floatT, tailStmts, goparseNumber, hb, hp, hft, hszn, n1, n2, hc0, hc1, hc2, hm, hg, hgi, hle, hx, enc,
            hz, hfl, bfl, cisFloatOnlyFlag, hpf]
      · have hz' : (c1 == 48) = false := beq_false_of_ne hz
        cases hpf : parseFloat64 (b.toList.take pn) <;>
        simp [floatT, tailStmts, goparseNumber, hb, hp, hft, hszn, n1, n2, hc0, hc1, hc2, hm, hg, hgi, hle, hx, enc,
          hz, hz', hpf]
    · have hgi : ¬ (2 : Int) < pn := by omega
      cases hpf : parseFloat64 (b.toList.take pn) <;>
      simp [floatT, tailStmts, goparseNumber, hb, hp, hft, hszn, hc0, hm, hg, hgi, hle, hx, enc, hpf]
  · have hm' : (c0 == 45) = false := beq_false_of_ne hm
    simp only [hm', Bool.false_eq_true, if_false, Nat.zero_add, hc0, hc1]
    by_cases hg : pn > 1
    · have hgi : (1 : Int) < pn := by omega
      have n1 : (1 : Int) < b.size := by omega
      by_cases hz : c0 = 48
      · by_cases hfl : numRune c1 &&& 2 = 0
        · have efl := (runeU8_float c1).mpr hfl
          simp [floatT, tailStmts, goparseNumber, hb, hp, hft, hszn, n1, hc0, hc1, hm', hg, hgi, hle, hx, enc,
            hz, hfl, efl, cisFloatOnlyFlag]
        · have bfl : (runeU8 c1 &&& 2 == 0) = false := beq_false_of_ne (fun h => hfl ((runeU8_float c1).mp h))
          cases hpf : parseFloat64 (b.toList.take pn) <;>
          simp [floatT, tailStmts, goparseNumber, hb, hp, hft, hszn, n1, hc0, hc1, hm', hg, hgi, hle, hx, enc,
            hz, hfl, bfl, cisFloatOnlyFlag, hpf]
      · have hz' : (c0 == 48) = false := beq_false_of_ne hz
        cases hpf : parseFloat64 (b.toList.take pn) <;>
        simp [floatT, tailStmts, goparseNumber, hb, hp, hft, hszn, n1, hc0, hc1, hm', hg, hgi, hle, hx, enc,
          hz, hz', hpf]
    · have hgi : ¬ (1 : Int) < pn := by omega
      cases hpf : parseFloat64 (b.toList.take pn) <;>
      simp [floatT, tailStmts, goparseNumber, hb, hp, hft, hszn, hc0, hm', hg, hgi, hle, hx, hpf, enc]

theorem int_sim (b : Bytes) (tape : Array UInt64) (fuel : Nat) (e : Env) (pn : Nat) (fu : UInt8) (isInt minus : Bool)
    (hb : e.get "buf" = some (.bytes b)) (hp : e.get "pos" = some (.int pn)) (hf : e.get "found" = some (.u8 fu))
    (hft : e.get "floatTag" = some (.u64 (mkWord tagFloat 0)))
    (hI : (fu &&& 2 == 0) = isInt) (hM : (fu &&& 4 == 0) = !minus) (h1 : 1 ≤ pn) (hle : pn ≤ b.size) :
    (∃ s', exec goFuns fuel [intIte] ⟨e, tape⟩ = .ret s' (enc (NumberProofs.core b.toList pn isInt minus)) ∧ s'.tape = tape) ∨
    (∃ e' ft, exec goFuns fuel [intIte] ⟨e, tape⟩ = .normal ⟨e', tape⟩ ∧ e'.get "buf" = some (.bytes b) ∧
       e'.get "pos" = some (.int pn) ∧ e'.get "floatTag" = some (.u64 ft) ∧
       NumberProofs.core b.toList pn isInt minus = NumberProofs.floatPath b.toList pn ft) := by
  have hx : (b.extract 0 pn).toList = b.toList.take pn := by simp
  have hszn : 0 < b.size := by omega
  have hp0 : (pn == 0) = false := by simp; omega
  simp only [NumberProofs.core, toList_getD, hp0, Bool.false_eq_true, if_false]
  generalize hc0 : b.getD 0 0 = c0
  generalize hc1 : b.getD 1 0 = c1
  simp only [Array.getD_eq_getD_getElem?] at hc0 hc1
  cases isInt with
  | false =>
    simp [intIte, tailStmts, goparseNumber, hb, hp, hf, hft, hI]
  | true =>
    by_cases h20 : pn ≤ cmaxIntLen
    · have h20i : (pn : Int) ≤ 20 := by simp [cmaxIntLen] at h20; omega
      cases minus with
      | false =>
        simp only [Bool.not_false] at hM
        by_cases hlz : pn > 1 ∧ c0 = 48
        · have hg : (1 : Int) < pn := by omega
          simp [intIte, tailStmts, goparseNumber, hb, hp, hf, hft, hI, hM, h20, h20i, hszn, hc0, hlz.1, hlz.2, hg, enc]
        · have hcs : (¬ (1 : Int) < pn ∧ True) ∨ ((1 : Int) < pn ∧ (c0 == 48) = false) := by
            by_cases hg : pn > 1
            · exact Or.inr ⟨by omega, beq_false_of_ne (fun h => hlz ⟨hg, h⟩)⟩
            · exact Or.inl ⟨by omega, trivial⟩
          have hlz' : ¬ (1 < pn ∧ c0 = 48) := hlz
          rcases hcs with ⟨hgi, hz'⟩ | ⟨hgi, hz'⟩
          all_goals
            cases hpi : parseInt64 (b.toList.take pn) with
            | ok z =>
              simp [intIte, tailStmts, goparseNumber, hb, hp, hf, hft, hI, hM, h20, h20i, hszn, hc0, hgi, hz', hlz', enc,
                hle, hx, hpi, mkWord, tagInteger, ofInt64, UInt64.ofInt]
            | error er =>
              cases hpu : parseUint64 (b.toList.take pn) with
              | ok n =>
                cases er <;>
                simp [intIte, tailStmts, goparseNumber, hb, hp, hf, hft, hI, hM, h20, h20i, hszn, hc0, hgi, hz', hlz', enc,
                  hle, hx, hpi, hpu, mkWord, tagUint]
              | error er2 =>
                cases er <;> cases er2 <;>
                simp [intIte, tailStmts, goparseNumber, hb, hp, hf, hft, hI, hM, h20, h20i, hszn, hc0, hgi, hz', hlz', enc,
                  hle, hx, hpi, hpu, mkWord, tagFloat, wFloatOverflowedInteger, UInt64.or_assoc]
      | true =>
        simp only [Bool.not_true] at hM
        by_cases hlz : pn > 2 ∧ c1 = 48
        · have hg : (2 : Int) < pn := by omega
          have n1 : (1 : Int) < b.size := by omega
          simp [intIte, tailStmts, goparseNumber, hb, hp, hf, hft, hI, hM, h20, h20i, n1, hc1, hlz.1, hlz.2, hg, enc]
        · have hcs : (¬ (2 : Int) < pn ∧ True ∧ True) ∨ ((2 : Int) < pn ∧ (c1 == 48) = false ∧ (1 : Int) < b.size) := by
            by_cases hg : pn > 2
            · exact Or.inr ⟨by omega, beq_false_of_ne (fun h => hlz ⟨hg, h⟩), by omega⟩
            · exact Or.inl ⟨by omega, trivial, trivial⟩
          have hlz' : ¬ (2 < pn ∧ c1 = 48) := hlz
          rcases hcs with ⟨hgi, hz', n1⟩ | ⟨hgi, hz', n1⟩
          all_goals
            cases hpi : parseInt64 (b.toList.take pn) with
            | ok z =>
              simp [intIte, tailStmts, goparseNumber, hb, hp, hf, hft, hI, hM, h20, h20i, n1, hc1, hgi, hz', hlz', enc,
                hle, hx, hpi, mkWord, tagInteger, ofInt64, UInt64.ofInt]
            | error er =>
              cases er <;>
              simp [intIte, tailStmts, goparseNumber, hb, hp, hf, hft, hI, hM, h20, h20i, n1, hc1, hgi, hz', hlz', enc,
                hle, hx, hpi, mkWord, tagFloat, wFloatOverflowedInteger]
    · have h20i : ¬ (pn : Int) ≤ 20 := by simp [cmaxIntLen] at h20; omega
      simp [intIte, tailStmts, goparseNumber, hb, hp, hf, hft, hI, h20, h20i, wFloatOverflowedInteger]

theorem u8_and_beq (fu c : UInt8) : (fu &&& c == 0) = (fu.toNat &&& c.toNat == 0) := by
  rw [Bool.eq_iff_iff]
  simp only [beq_iff_eq, ← UInt8.toNat_inj, UInt8.toNat_and]
  rfl

/-- everything after the loop -/
theorem tail_sim (b : Bytes) (tape : Array UInt64) (fuel : Nat) (e : Env) (pn : Nat) (fu : UInt8)
    (hb : e.get "buf" = some (.bytes b)) (hp : e.get "pos" = some (.int pn)) (hf : e.get "found" = some (.u8 fu))
    (hle : pn ≤ b.size) :
    ∃ s', exec goFuns fuel tailStmts ⟨e, tape⟩ =
      .ret s' (enc (NumberProofs.core b.toList pn (fu.toNat &&& cisFloatOnlyFlag == 0) (fu.toNat &&& cisMinusFlag != 0))) ∧
      s'.tape = tape := by
  by_cases h0 : pn = 0
  · subst h0
    simp [tailStmts, goparseNumber, hb, hp, hf, NumberProofs.core, enc]
  · have hhead : exec goFuns fuel headT ⟨e, tape⟩ = .normal ⟨e.set "floatTag" (.u64 (mkWord tagFloat 0)), tape⟩ := by
      have : ((pn : Int) == 0) = false := by simp; omega
      simp [headT, tailStmts, goparseNumber, hb, hp, hf, this, mkWord, tagFloat]
    rw [tail_eq, GoRebuild.exec_append, hhead]
    simp only []
    rw [GoRebuild.exec_append]
    have hI : (fu &&& 2 == 0) = (fu.toNat &&& cisFloatOnlyFlag == 0) := u8_and_beq fu 2
    have hM : (fu &&& 4 == 0) = !(fu.toNat &&& cisMinusFlag != 0) := by
      rw [u8_and_beq fu 4]; simp [bne, cisMinusFlag]
    rcases int_sim b tape fuel (e.set "floatTag" (.u64 (mkWord tagFloat 0))) pn fu _ _ (by simp [hb]) (by simp [hp])
      (by simp [hf]) (by simp) hI hM (by omega) hle with ⟨s', hex, ht⟩ | ⟨e', ft, hex, hb', hp', hft', hcore⟩
    · rw [hex]
      exact ⟨s', rfl, ht⟩
    · rw [hex, hcore]
      exact float_sim b tape fuel e' pn ft hb' hp' hft' (by omega) hle
end Tail

/-! ## parseNumber: the whole function -/

/-- the interpreter on any slice `b`: the two returned words are the model's (`NumberProofs.parseNumberL`, the list-level
    copy to which `parseNumber` is equal), the tape is untouched; never a panic, never stuck.  No hypothesis on `b`
    (for the empty slice the loop body never runs, `pos == 0`, and `buf[0]` is never evaluated). -/
theorem parseNumber_run (b : Bytes) (fuel : Nat) (tape : Array UInt64) :
    ∃ s, runFun goFuns goparseNumber fuel ⟨[("buf", .bytes b)], tape⟩ = .ret s (enc (NumberProofs.parseNumberL b.toList)) ∧
      s.tape = tape := by
  have hpre : exec goFuns fuel [.assign "id" (.u64 0), .assign "val" (.u64 0), .assign "pos" (.int 0),
      .assign "found" (.conv .u8 (.u8 0))] ⟨[("buf", .bytes b)], tape⟩ =
      .normal ⟨[("buf", .bytes b), ("id", .u64 0), ("val", .u64 0), ("pos", .int 0), ("found", .u8 0)], tape⟩ := by
    simp
  have hloop := scan_loop b tape fuel b.toList 0
    ⟨[("buf", .bytes b), ("id", .u64 0), ("val", .u64 0), ("pos", .int 0), ("found", .u8 0)], tape⟩ 0 rfl (Nat.zero_le _) rfl
    (by simp) (by simp) (by simp)
  have hbody : goparseNumber.body = [.assign "id" (.u64 0), .assign "val" (.u64 0), .assign "pos" (.int 0),
      .assign "found" (.conv .u8 (.u8 0))] ++ ([.rangeIB "i" "v" (.v "buf") loopBody] ++ tailStmts) := rfl
  unfold runFun NumberProofs.parseNumberL
  rw [hbody, GoRebuild.exec_append, hpre]
  simp only []
  rw [GoRebuild.exec_append]
  have hr : exec goFuns fuel [.rangeIB "i" "v" (.v "buf") loopBody]
      ⟨[("buf", .bytes b), ("id", .u64 0), ("val", .u64 0), ("pos", .int 0), ("found", .u8 0)], tape⟩ =
      match execRangeI goFuns fuel "i" "v" 0 b.toList loopBody
        ⟨[("buf", .bytes b), ("id", .u64 0), ("val", .u64 0), ("pos", .int 0), ("found", .u8 0)], tape⟩ with
      | .normal s' => .normal s'
      | o => o := by
    simp
    generalize execRangeI goFuns fuel "i" "v" 0 b.toList loopBody _ = out
    cases out <;> rfl
  rw [hr]
  revert hloop
  simp only [UInt8.toNat_zero]
  cases NumberProofs.scan b.toList 0 0 with
  | none =>
    rintro ⟨s', hex, ht⟩
    rw [hex]
    exact ⟨s', rfl, ht⟩
  | some pf =>
    obtain ⟨p, f⟩ := pf
    rintro ⟨s', fu', hex, ht, hb', hf', hfu, hp', hle⟩
    rw [hex]
    simp only []
    subst hfu
    obtain ⟨s'', h1, h2⟩ := tail_sim b tape fuel s'.env p fu' hb' hp' hf' hle
    have : s' = ⟨s'.env, tape⟩ := by rw [← ht]
    rw [this, h1]
    exact ⟨s'', rfl, h2⟩

theorem floatPath_id {L : List UInt8} {p : Nat} {tag id v : UInt64}
    (h : NumberProofs.floatPath L p tag = some (id, v)) : id = tag := by
  unfold NumberProofs.floatPath at h
  simp only [] at h
  generalize (if (L.getD 0 0 == 45) = true then 1 else 0) = first at h
  cases hpf : parseFloat64 (L.take p) with
  | none =>
    simp only [hpf] at h
    split at h <;> cases h
  | some bits =>
    simp only [hpf] at h
    split at h
    · cases h
    · injection h with h; injection h with h1 h2; exact h1.symm

theorem core_id_ne {L : List UInt8} {p : Nat} {a m : Bool} {id v : UInt64}
    (h : NumberProofs.core L p a m = some (id, v)) : id ≠ 0 := by
  have f0 : mkWord tagFloat 0 ≠ 0 := by decide
  have f1 : mkWord tagFloat 0 ||| wFloatOverflowedInteger ≠ 0 := by decide
  have i0 : mkWord tagInteger 0 ≠ 0 := by decide
  have u0 : mkWord tagUint 0 ≠ 0 := by decide
  have fp : ∀ tag, tag ≠ 0 → NumberProofs.floatPath L p tag = some (id, v) → id ≠ 0 := by
    intro tag ht hh; rw [floatPath_id hh]; exact ht
  unfold NumberProofs.core at h
  simp only [] at h
  split at h
  · cases h
  · split at h
    · split at h
      · cases h
      · split at h
        · cases h
        · cases hpi : parseInt64 (L.take p) with
          | ok z =>
            simp only [hpi] at h
            injection h with h; injection h with h1 h2; rw [← h1]; exact i0
          | error e1 =>
            simp only [hpi] at h
            have t1 : (if (e1 == ConvErr.range) = true then mkWord tagFloat 0 ||| wFloatOverflowedInteger else mkWord tagFloat 0) ≠ 0 := by
              split <;> assumption
            split at h
            · cases hpu : parseUint64 (L.take p) with
              | ok n =>
                simp only [hpu] at h
                injection h with h; injection h with h1 h2; rw [← h1]; exact u0
              | error e2 =>
                simp only [hpu] at h
                refine fp _ ?_ h
                split
                · exact f1
                · exact t1
            · exact fp _ t1 h
    · split at h
      · exact fp _ f1 h
      · exact fp _ f0 h

theorem parseNumber_id_ne {buf : Bytes} {start : Nat} {id v : UInt64} (h : parseNumber buf start = some (id, v)) : id ≠ 0 := by
  rw [NumberProofs.parseNumber_eq, NumberProofs.parseNumberL] at h
  cases hs : NumberProofs.scan (buf.toList.drop start) 0 0 with
  | none => simp only [hs] at h; cases h
  | some pf => obtain ⟨p, f⟩ := pf; simp only [hs] at h; exact core_id_ne h

theorem suffix_toList (buf : Bytes) (start : Nat) : (buf.extract start buf.size).toList = buf.toList.drop start := by
  simp only [Array.toList_extract, Nat.add_zero]
  apply List.take_of_length_le
  simp

/-- `parseNumber(buf[start:])`: the interpreter returns the model's two words (`0, 0` for the model's `none`); the tape
    is untouched; never a panic, never stuck, for any fuel. -/
theorem parseNumber_sim (buf : Bytes) (start : Nat) (fuel : Nat) (tape : Array UInt64) :
    ∃ s, runFun goFuns goparseNumber fuel ⟨[("buf", .bytes (buf.extract start buf.size))], tape⟩ =
      .ret s (enc (parseNumber buf start)) ∧ s.tape = tape := by
  have := parseNumber_run (buf.extract start buf.size) fuel tape
  rw [suffix_toList, ← NumberProofs.parseNumber_eq] at this
  exact this

/-- the model says `some (id, val)` ⇔ the interpreter returns `id, val` with `id ≠ 0` (every tag word is non-zero) -/
theorem parseNumber_some_iff (buf : Bytes) (start : Nat) (fuel : Nat) (tape : Array UInt64) (id val : UInt64) :
    parseNumber buf start = some (id, val) ↔
      id ≠ 0 ∧ ∃ s, runFun goFuns goparseNumber fuel ⟨[("buf", .bytes (buf.extract start buf.size))], tape⟩ =
        .ret s [.u64 id, .u64 val] := by
  obtain ⟨s, hs, _⟩ := parseNumber_sim buf start fuel tape
  constructor
  · intro h
    refine ⟨parseNumber_id_ne h, s, ?_⟩
    rw [hs, h]; rfl
  · rintro ⟨hid, s', hs'⟩
    rw [hs] at hs'
    injection hs' with _ hv
    cases hp : parseNumber buf start with
    | none =>
      rw [hp] at hv
      simp only [enc] at hv
      injection hv with h1 _
      injection h1 with h1
      exact absurd h1.symm hid
    | some r =>
      obtain ⟨a, c⟩ := r
      rw [hp] at hv
      simp only [enc] at hv
      injection hv with h1 h2
      injection h1 with h1
      injection h2 with h2 _
      injection h2 with h2
      rw [h1, h2]

/-- the model says `none` ⇔ the interpreter returns `0, 0` -/
theorem parseNumber_none_iff (buf : Bytes) (start : Nat) (fuel : Nat) (tape : Array UInt64) :
    parseNumber buf start = none ↔
      ∃ s, runFun goFuns goparseNumber fuel ⟨[("buf", .bytes (buf.extract start buf.size))], tape⟩ =
        .ret s [.u64 0, .u64 0] := by
  obtain ⟨s, hs, _⟩ := parseNumber_sim buf start fuel tape
  constructor
  · intro h
    exact ⟨s, by rw [hs, h]; rfl⟩
  · rintro ⟨s', hs'⟩
    rw [hs] at hs'
    injection hs' with _ hv
    cases hp : parseNumber buf start with
    | none => rfl
    | some r =>
      obtain ⟨a, c⟩ := r
      rw [hp] at hv
      simp only [enc] at hv
      injection hv with h1 _
      injection h1 with h1
      exact absurd h1 (parseNumber_id_ne hp)

/-- the interpreter never panics, is never stuck and never runs out of fuel on `parseNumber` -/
theorem parseNumber_total (b : Bytes) (fuel : Nat) (tape : Array UInt64) :
    ∃ s vs, runFun goFuns goparseNumber fuel ⟨[("buf", .bytes b)], tape⟩ = .ret s vs := by
  obtain ⟨s, hs, _⟩ := parseNumber_run b fuel tape
  exact ⟨s, _, hs⟩

/-- the empty slice: Go does not panic (the loop body never runs, `pos == 0` returns before `buf[0]` is read), and the
    model says `none` -/
example : ∃ s, runFun goFuns goparseNumber 0 ⟨[("buf", .bytes #[])], #[]⟩ = .ret s [.u64 0, .u64 0] := by
  obtain ⟨s, hs, _⟩ := parseNumber_run #[] 0 #[]
  exact ⟨s, hs⟩
example (buf : Bytes) : parseNumber buf buf.size = none := by
  have hd : buf.toList.drop buf.size = [] := by simp
  rw [NumberProofs.parseNumber_eq, hd]
  rfl

/-! ## the bundle -/

/-- The hand model of `Model/Number.lean` IS the meaning of the regenerated syntax trees of `isValidTrueAtom`,
    `isValidFalseAtom`, `isValidNullAtom` and `parseNumber`: for every buffer, every start index (the Go functions get the
    slice `buf[start:]`), every fuel and every tape. -/
theorem go_number_source_tie (buf : Bytes) (start : Nat) (fuel : Nat) (tape : Array UInt64) :
    (∃ s, runFun goFuns goisValidTrueAtom fuel ⟨[("buf", .bytes (buf.extract start buf.size))], tape⟩ =
        .ret s [.bool (isValidTrueAtom buf start)] ∧ s.tape = tape) ∧
    (∃ s, runFun goFuns goisValidFalseAtom fuel ⟨[("buf", .bytes (buf.extract start buf.size))], tape⟩ =
        .ret s [.bool (isValidFalseAtom buf start)] ∧ s.tape = tape) ∧
    (∃ s, runFun goFuns goisValidNullAtom fuel ⟨[("buf", .bytes (buf.extract start buf.size))], tape⟩ =
        .ret s [.bool (isValidNullAtom buf start)] ∧ s.tape = tape) ∧
    (∃ s, runFun goFuns goparseNumber fuel ⟨[("buf", .bytes (buf.extract start buf.size))], tape⟩ =
        .ret s (enc (parseNumber buf start)) ∧ s.tape = tape) ∧
    (∀ id val, parseNumber buf start = some (id, val) ↔
      id ≠ 0 ∧ ∃ s, runFun goFuns goparseNumber fuel ⟨[("buf", .bytes (buf.extract start buf.size))], tape⟩ =
        .ret s [.u64 id, .u64 val]) ∧
    (parseNumber buf start = none ↔
      ∃ s, runFun goFuns goparseNumber fuel ⟨[("buf", .bytes (buf.extract start buf.size))], tape⟩ =
        .ret s [.u64 0, .u64 0]) :=
  ⟨trueAtom_sim buf start fuel tape, falseAtom_sim buf start fuel tape, nullAtom_sim buf start fuel tape,
   parseNumber_sim buf start fuel tape, parseNumber_some_iff buf start fuel tape, parseNumber_none_iff buf start fuel tape⟩

end SJ.GoNumber
