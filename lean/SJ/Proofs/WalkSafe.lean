import SJ.Model.Iter
import SJ.Model.Marshal
import SJ.Model.Walk
import SJ.Proofs.Facts
set_option linter.unusedVariables false

/-
WalkSafe — properties C05/C19: on ANY tape (arbitrary 64-bit words, no well-formedness assumption)
every traversal call of the iterator model returns normally: never `.panic`, never `.diverge`.

The only assumption is `Iter.Valid pj i := i.lim ≤ pj.tape.size ∧ 0 ≤ i.addNext`, which holds for
`pj.Iter()` and is preserved by every traversal call (proved below).

Main theorems: ofPJ_valid, advance_safe, advanceInto_safe, advanceIter_safe, peekNextTag_safe,
peekNext_safe, stringByteAt_safe, stringBytes_safe;
stretch A: nextElementBytes_no_panic / _ne_panic / _safe / _safe' (unconditional, with progress);
stretch B: marshalStep_spec, marshalLoop_safe, marshalLoop_fuelOf_safe, marshalBuf_safe;
stretch C: interface_family_safe, interface_safe, objMap_safe, arrInterface_safe, rootLoop_safe,
parse_safe_fuel, parse_safe, owalk_family_safe, owalkValue_safe, owalkObj_safe, owalkArr_safe,
pjForEach_safe_fuel, owalk_safe.
-/
namespace SJ.WalkSafe
open SJ SJ.Generated

def Iter.Valid (pj : PJ) (i : Iter) : Prop := i.lim ≤ pj.tape.size ∧ 0 ≤ i.addNext

theorem rd_ok {α} (a : Array α) (k : Nat) (h : k < a.size) : rd a k = .ok a[k] := by
  simp [rd, h]

theorem rdT_ok (pj : PJ) (k : Nat) (h : k < pj.tape.size) : Iter.rdT pj k = .ok pj.tape[k] := by
  simp [Iter.rdT, rd, h]

theorem bump_ok (i : Iter) (h : 0 ≤ i.addNext) : i.bump = .ok (i.off + i.addNext.toNat) := by
  unfold Iter.bump
  have : ¬ ((i.off : Int) + i.addNext < 0) := by omega
  simp only [this, if_false]
  congr 1
  omega

theorem advanceLoop_safe (pj : PJ) (i : Iter) (off : Nat) (hl : i.lim ≤ pj.tape.size) :
    ∃ i' live, Iter.advanceLoop pj i off = .ok (i', live) ∧ i'.lim = i.lim ∧ off ≤ i'.off ∧
      (live = false → i'.addNext = 0 ∧ i'.t = tagEnd ∧ i.lim ≤ i'.off) ∧
      (live = true → off < i'.off ∧ i'.off ≤ i.lim) := by
  fun_induction Iter.advanceLoop pj i off with
  | case1 i off h => exact ⟨_, _, rfl, rfl, Nat.le_refl _, fun _ => ⟨rfl, rfl, h⟩, by simp⟩
  | case2 i off h ih =>
    have hlt : off < pj.tape.size := by omega
    rw [rdT_ok pj off hlt]
    simp only [Res.bind_ok]
    split
    · split
      · refine ⟨_, _, rfl, rfl, ?_, by simp [Iter.moveToEnd], by simp⟩
        simp only [Iter.moveToEnd]; omega
      · obtain ⟨i', live, he, h1, h2, h3, h4⟩ := ih pj.tape[off] hl
        exact ⟨i', live, he, h1, by omega, h3, fun hh => ⟨by have := h4 hh; omega, (h4 hh).2⟩⟩
    · exact ⟨_, _, rfl, rfl, by simp, by simp, fun _ => ⟨by simp, by simp; omega⟩⟩

/-- `calcNext` only changes `addNext`. -/
theorem calcNext_fields (i : Iter) (b : Bool) :
    (i.calcNext b).lim = i.lim ∧ (i.calcNext b).off = i.off ∧ (i.calcNext b).cur = i.cur ∧
      (i.calcNext b).t = i.t := by
  unfold Iter.calcNext
  split
  · exact ⟨rfl, rfl, rfl, rfl⟩
  · split
    · cases b <;> exact ⟨rfl, rfl, rfl, rfl⟩
    · exact ⟨rfl, rfl, rfl, rfl⟩

/-- `calcNext(true)` yields 0 or 1. -/
theorem calcNext_into_addNext (i : Iter) :
    (i.calcNext true).addNext = 0 ∨ (i.calcNext true).addNext = 1 := by
  unfold Iter.calcNext
  split
  · exact Or.inr rfl
  · split <;> exact Or.inl rfl

/-- `calcNext(false)` yields 0, 1, or `cur - off`. -/
theorem calcNext_skip_addNext (i : Iter) :
    (i.calcNext false).addNext = 0 ∨ (i.calcNext false).addNext = 1 ∨
      (i.calcNext false).addNext = (i.cur.toNat : Int) - i.off := by
  unfold Iter.calcNext
  split
  · exact Or.inr (Or.inl rfl)
  · split
    · exact Or.inr (Or.inr rfl)
    · exact Or.inl rfl

theorem peekLoop_safe (pj : PJ) (lim off : Nat) (hl : lim ≤ pj.tape.size) :
    ∃ t, Iter.peekLoop pj lim off = .ok t := by
  fun_induction Iter.peekLoop pj lim off with
  | case1 off h => exact ⟨_, rfl⟩
  | case2 off h ih =>
    have hlt : off < pj.tape.size := by omega
    rw [rdT_ok pj off hlt]
    simp only [Res.bind_ok]
    split
    · split
      · exact ⟨_, rfl⟩
      · next h0 => exact ih pj.tape[off] h0
    · exact ⟨_, rfl⟩

/-- The `AdvanceInto` loop never fails; a non-live result is at the end (and `PeekNextTag` from the
    same position reports `TagEnd`); a live result is strictly after the start and inside the view. -/
theorem advanceIntoLoop_safe (pj : PJ) (i : Iter) (off : Nat) (hl : i.lim ≤ pj.tape.size) :
    ∃ i' live, Iter.advanceIntoLoop pj i off = .ok (i', live) ∧ i'.lim = i.lim ∧ off ≤ i'.off ∧
      (live = false → i'.addNext = 0 ∧ i'.t = tagEnd ∧ Iter.peekLoop pj i.lim off = .ok tagEnd) ∧
      (live = true → off < i'.off ∧ i'.off ≤ i.lim ∧ i'.t ≠ tagNop ∧
        Iter.peekLoop pj i.lim off = .ok i'.t) := by
  fun_induction Iter.advanceIntoLoop pj i off with
  | case1 i off h =>
    refine ⟨_, _, rfl, rfl, Nat.le_refl _, ?_, by simp⟩
    intro _
    rw [Iter.peekLoop]; simp [h]
  | case2 i off h ih =>
    have hlt : off < pj.tape.size := by omega
    rw [Iter.peekLoop]
    rw [rdT_ok pj off hlt]
    simp only [Res.bind_ok, h, dite_false]
    split
    · next ht =>
      split
      · next hc =>
        have hz : (payloadOf pj.tape[off]).toNat = 0 := by
          have : payloadOf pj.tape[off] = 0 := by simpa using hc
          rw [this]; rfl
        refine ⟨_, _, rfl, rfl, ?_, ?_, by simp⟩
        · simp only [Iter.moveToEnd]; omega
        · intro _; simp [Iter.moveToEnd, hz]
      · next hc =>
        have hz : (payloadOf pj.tape[off]).toNat ≠ 0 := u64_ne_zero_toNat hc
        obtain ⟨i', live, he, h1, h2, h3, h4⟩ := ih pj.tape[off] hc hl
        simp only [hz, if_false]
        exact ⟨i', live, he, h1, by omega, h3, fun hh => ⟨by have := h4 hh; omega, (h4 hh).2⟩⟩
    · next ht =>
      refine ⟨_, _, rfl, rfl, by simp, by simp, fun _ => ⟨by simp, by simp; omega, ?_, by simp⟩⟩
      simpa using ht

theorem advanceIterLoop_safe (pj : PJ) (i : Iter) (off : Nat) (hl : i.lim ≤ pj.tape.size) :
    (∃ i0, Iter.advanceIterLoop pj i off = .ok (i0, false) ∧ i0.lim = i.lim ∧ i0.off = i.lim ∧ off ≤ i0.off ∧
      i0.addNext = 0 ∧ i0.t = tagEnd) ∨
    (∃ e, Iter.advanceIterLoop pj i off = .error e) ∨
    (∃ i1, Iter.advanceIterLoop pj i off = .ok (i1, true) ∧ i1.lim = i.lim ∧ off < i1.off ∧
      i1.off ≤ i.lim ∧ i1.addNext = i.addNext) := by
  fun_induction Iter.advanceIterLoop pj i off with
  | case1 i => exact Or.inl ⟨_, rfl, rfl, rfl, Nat.le_refl _, rfl, rfl⟩
  | case2 i off h1 h2 => exact Or.inr (Or.inl ⟨_, rfl⟩)
  | case3 i off h1 h2 ih =>
    have hlt : off < pj.tape.size := by omega
    rw [rdT_ok pj off hlt]
    simp only [Res.bind_ok]
    split
    · split
      · exact Or.inr (Or.inl ⟨_, rfl⟩)
      · rcases ih pj.tape[off] hl with ⟨i0, he, a, b, c, d⟩ | h | ⟨i1, he, a, b, c, d⟩
        · exact Or.inl ⟨i0, he, a, b, by omega, d⟩
        · exact Or.inr (Or.inl h)
        · exact Or.inr (Or.inr ⟨i1, he, a, by omega, c, d⟩)
    · exact Or.inr (Or.inr ⟨_, rfl, rfl, by simp, by simp; omega, rfl⟩)

/-! ## Main theorems -/

/-- 6. `pj.Iter()` is valid. -/
theorem ofPJ_valid (pj : PJ) : Iter.Valid pj (Iter.ofPJ pj) :=
  ⟨Nat.le_refl _, Int.le_refl _⟩

/-- 1. `Advance` on any tape: returns normally, keeps the view, never moves backwards, and a
    result other than `TypeNone` means the cursor moved strictly past `off + addNext`. -/
theorem advance_safe (pj : PJ) (i : Iter) (hv : Iter.Valid pj i) :
    ∃ i' ty, Iter.advance pj i = .ok (i', ty) ∧ Iter.Valid pj i' ∧ i'.lim = i.lim ∧
      i.off ≤ i'.off ∧ i.off + i.addNext.toNat ≤ i'.off ∧
      (ty ≠ typeNone → i.off + i.addNext.toNat < i'.off ∧ i'.off ≤ i.lim ∧
        ty = tagToType i'.t) ∧
      (ty = typeNone → i'.addNext = 0 ∨ i.off + i.addNext.toNat < i'.off) := by
  obtain ⟨hl, ha⟩ := hv
  obtain ⟨i1, live, he, h1, h2, h3, h4⟩ := advanceLoop_safe pj i (i.off + i.addNext.toNat) hl
  unfold Iter.advance
  rw [bump_ok i ha]
  simp only [Res.bind_ok, he]
  cases live with
  | false =>
    have := (h3 rfl).1
    refine ⟨i1, typeNone, rfl, ⟨by omega, by omega⟩, h1, by omega, h2, by simp, fun _ => Or.inl this⟩
  | true =>
    obtain ⟨h5, h6⟩ := h4 rfl
    obtain ⟨c1, c2, c3, c4⟩ := calcNext_fields i1 false
    simp only [Bool.not_true, Bool.false_eq_true, if_false]
    split
    · refine ⟨_, typeNone, rfl, ⟨?_, ?_⟩, ?_, ?_, ?_, by simp, fun _ => Or.inl rfl⟩ <;>
        simp only [Iter.moveToEnd, c1] <;> omega
    · next hneg =>
      refine ⟨_, _, rfl, ⟨by omega, by omega⟩, by omega, by omega, by omega,
        fun _ => ⟨by omega, by omega, rfl⟩, fun _ => Or.inr (by omega)⟩

/-- `Advance`, case form: either the cursor is parked at the end (`TypeNone`, `t = TagEnd`,
    `addNext = 0`, `off ≥ lim`), or it moved strictly forward onto a live word inside the view and the
    returned type is that word's type. -/
theorem advance_cases (pj : PJ) (i : Iter) (hv : Iter.Valid pj i) :
    ∃ i' ty, Iter.advance pj i = .ok (i', ty) ∧ Iter.Valid pj i' ∧ i'.lim = i.lim ∧
      ((ty = typeNone ∧ i'.t = tagEnd ∧ i'.addNext = 0 ∧ i'.lim ≤ i'.off ∧ i.off ≤ i'.off) ∨
       (i.off + i.addNext.toNat < i'.off ∧ i'.off ≤ i.lim ∧ ty = tagToType i'.t)) := by
  obtain ⟨hl, ha⟩ := hv
  obtain ⟨i1, live, he, h1, h2, h3, h4⟩ := advanceLoop_safe pj i (i.off + i.addNext.toNat) hl
  unfold Iter.advance
  rw [bump_ok i ha]
  simp only [Res.bind_ok, he]
  cases live with
  | false =>
    obtain ⟨a, b, c⟩ := h3 rfl
    exact ⟨i1, typeNone, rfl, ⟨by omega, by omega⟩, h1, Or.inl ⟨rfl, b, a, by omega, by omega⟩⟩
  | true =>
    obtain ⟨h5, h6⟩ := h4 rfl
    obtain ⟨c1, c2, c3, c4⟩ := calcNext_fields i1 false
    simp only [Bool.not_true, Bool.false_eq_true, if_false]
    split
    · refine ⟨_, typeNone, rfl, ⟨?_, ?_⟩, ?_, Or.inl ⟨rfl, rfl, rfl, ?_, ?_⟩⟩ <;>
        simp only [Iter.moveToEnd, c1] <;> omega
    · next hneg =>
      exact ⟨_, _, rfl, ⟨by omega, by omega⟩, by omega, Or.inr ⟨by omega, by omega, rfl⟩⟩

/-- `PeekNextTag` announcing something other than `TagEnd` means the next position is inside the view. -/
theorem peek_ne_end_lt (pj : PJ) (i : Iter) (hv : Iter.Valid pj i) (nt : UInt8)
    (hp : Iter.peekNextTag pj i = .ok nt) (hne : nt ≠ tagEnd) : i.off + i.addNext.toNat < i.lim := by
  unfold Iter.peekNextTag at hp
  rw [bump_ok i hv.2] at hp
  simp only [Res.bind_ok] at hp
  rw [Iter.peekLoop] at hp
  split at hp
  · injection hp with hp; exact absurd hp.symm hne
  · omega

/-- 2. `AdvanceInto` on any tape. Either the end was reached (`TagEnd`, the cursor is parked with
    `t = TagEnd`, `addNext = 0`, and `PeekNextTag` on the old cursor also says `TagEnd`), or the
    cursor moved strictly forward onto a non-NOP word inside the view. -/
theorem advanceInto_safe (pj : PJ) (i : Iter) (hv : Iter.Valid pj i) :
    ∃ i' tg, Iter.advanceInto pj i = .ok (i', tg) ∧ Iter.Valid pj i' ∧ i'.lim = i.lim ∧
      i.off ≤ i'.off ∧ i.off + i.addNext.toNat ≤ i'.off ∧ tg = i'.t ∧
      (i'.addNext = 0 ∨ i'.addNext = 1) ∧
      ((i'.t = tagEnd ∧ i'.addNext = 0 ∧ Iter.peekNextTag pj i = .ok tagEnd) ∨
       (i.off + i.addNext.toNat < i'.off ∧ i'.off ≤ i.lim ∧ i'.t ≠ tagNop ∧
          Iter.peekNextTag pj i = .ok i'.t)) := by
  obtain ⟨hl, ha⟩ := hv
  obtain ⟨i1, live, he, h1, h2, h3, h4⟩ := advanceIntoLoop_safe pj i (i.off + i.addNext.toNat) hl
  unfold Iter.advanceInto Iter.peekNextTag
  rw [bump_ok i ha]
  simp only [Res.bind_ok, he]
  cases live with
  | false =>
    obtain ⟨a, b, c⟩ := h3 rfl
    exact ⟨i1, tagEnd, rfl, ⟨by omega, by omega⟩, h1, by omega, h2, b.symm, Or.inl a,
      Or.inl ⟨b, a, c⟩⟩
  | true =>
    obtain ⟨h5, h6, h7, h8⟩ := h4 rfl
    obtain ⟨c1, c2, c3, c4⟩ := calcNext_fields i1 true
    have c5 := calcNext_into_addNext i1
    simp only [Bool.not_true, Bool.false_eq_true, if_false]
    have : ¬ (i1.calcNext true).addNext < 0 := by omega
    simp only [this, if_false]
    refine ⟨_, _, rfl, ⟨by omega, by omega⟩, by omega, by omega, by omega, rfl, c5,
      Or.inr ⟨by omega, by omega, by rw [c4]; exact h7, by rw [c4]; exact h8⟩⟩

/-- "returns normally or with an `error`": neither `.panic` nor `.diverge`. -/
def OkOrErr {α} (r : Res α) : Prop := (∃ a, r = .ok a) ∨ (∃ e, r = .error e)

theorem OkOrErr.safe {α} {r : Res α} (h : OkOrErr r) : r.safe = true := by
  rcases h with ⟨a, rfl⟩ | ⟨e, rfl⟩ <;> rfl

theorem okOrErr_iff_safe {α} (r : Res α) : OkOrErr r ↔ r.safe = true := by
  constructor
  · exact OkOrErr.safe
  · cases r with
    | ok a => exact fun _ => Or.inl ⟨a, rfl⟩
    | error e => exact fun _ => Or.inr ⟨e, rfl⟩
    | panic => intro h; cases h
    | diverge => intro h; cases h

theorem OkOrErr.ne_panic {α} {r : Res α} (h : OkOrErr r) : r ≠ .panic := by
  rcases h with ⟨a, rfl⟩ | ⟨e, rfl⟩ <;> exact fun h => by cases h

theorem OkOrErr.ne_diverge {α} {r : Res α} (h : OkOrErr r) : r ≠ .diverge := by
  rcases h with ⟨a, rfl⟩ | ⟨e, rfl⟩ <;> exact fun h => by cases h

/-- 3. `AdvanceIter(dst)` on any tape: `.ok` or `.error`; on `.ok` the receiver stays valid with the
    same view, and `dst` is either returned untouched (end of scope, `TypeNone`) or is a valid
    iterator whose view is a prefix of the receiver's view. -/
theorem advanceIter_safe (pj : PJ) (i d : Iter) (hv : Iter.Valid pj i) :
    OkOrErr (Iter.advanceIter pj i d) ∧
    ∀ i2 d2 ty, Iter.advanceIter pj i d = .ok (i2, d2, ty) →
      Iter.Valid pj i2 ∧ i2.lim = i.lim ∧ i.off + i.addNext.toNat ≤ i2.off ∧
      ((ty = typeNone ∧ d2 = d ∧ i2.addNext = 0) ∨
       (Iter.Valid pj d2 ∧ d2.lim ≤ i.lim ∧ i.off + i.addNext.toNat < i2.off ∧
          d2.off = i2.off ∧ d2.off ≤ d2.lim ∧ d2.lim = i2.off + i2.addNext.toNat ∧
          ty = tagToType i2.t)) := by
  obtain ⟨hl, ha⟩ := hv
  unfold Iter.advanceIter
  rw [bump_ok i ha]
  simp only [Res.bind_ok]
  rcases advanceIterLoop_safe pj i (i.off + i.addNext.toNat) hl with ⟨i0, h, z1, z2, z3, z4, z5⟩ | ⟨e, h⟩ | ⟨i1, h, a, b, c, _⟩
  · rw [h]
    simp only [Res.bind_ok, Bool.not_false, if_true]
    refine ⟨Or.inl ⟨_, rfl⟩, ?_⟩
    intro i2 d2 ty heq
    injection heq with heq
    injection heq with e1 e2
    injection e2 with e2 e3
    subst e1 e2 e3
    exact ⟨⟨by omega, by omega⟩, z1, z3, Or.inl ⟨rfl, rfl, z4⟩⟩
  · rw [h]
    exact ⟨Or.inr ⟨_, rfl⟩, fun _ _ _ heq => by cases heq⟩
  · rw [h]
    simp only [Res.bind_ok, Bool.not_true, Bool.false_eq_true, if_false]
    obtain ⟨c1, c2, c3, c4⟩ := calcNext_fields i1 false
    obtain ⟨k1, k2, k3, k4⟩ := calcNext_fields (i1.calcNext false) true
    have c5 := calcNext_into_addNext (i1.calcNext false)
    split
    · exact ⟨Or.inr ⟨_, rfl⟩, fun _ _ _ heq => by cases heq⟩
    · next hn =>
      have : ¬ ((i1.calcNext false).calcNext true).addNext < 0 := by omega
      simp only [this, if_false]
      split
      · exact ⟨Or.inr ⟨_, rfl⟩, fun _ _ _ heq => by cases heq⟩
      · next hle =>
        refine ⟨Or.inl ⟨_, rfl⟩, ?_⟩
        intro i2 d2 ty heq
        injection heq with heq
        injection heq with e1 e2
        injection e2 with e2 e3
        subst e1 e2 e3
        refine ⟨⟨by omega, by omega⟩, by omega, by omega, Or.inr ⟨⟨?_, ?_⟩, ?_, by omega, ?_, ?_, rfl, rfl⟩⟩
        · show (i1.calcNext false).off + (i1.calcNext false).addNext.toNat ≤ pj.tape.size
          omega
        · show 0 ≤ ((i1.calcNext false).calcNext true).addNext
          omega
        · show (i1.calcNext false).off + (i1.calcNext false).addNext.toNat ≤ i.lim
          omega
        · show ((i1.calcNext false).calcNext true).off = (i1.calcNext false).off
          exact k2
        · show ((i1.calcNext false).calcNext true).off ≤
            (i1.calcNext false).off + (i1.calcNext false).addNext.toNat
          omega

/-- 4a. `PeekNextTag` on any tape returns normally. -/
theorem peekNextTag_safe (pj : PJ) (i : Iter) (hv : Iter.Valid pj i) :
    ∃ t, Iter.peekNextTag pj i = .ok t := by
  unfold Iter.peekNextTag
  rw [bump_ok i hv.2]
  exact peekLoop_safe pj i.lim _ hv.1

/-- 4b. `PeekNext` on any tape returns normally. -/
theorem peekNext_safe (pj : PJ) (i : Iter) (hv : Iter.Valid pj i) :
    ∃ t, Iter.peekNext pj i = .ok t := by
  obtain ⟨t, ht⟩ := peekNextTag_safe pj i hv
  exact ⟨tagToType t, by simp [Iter.peekNext, ht]⟩

/-- 5a. `stringByteAt` never panics, for any offset/length words. -/
theorem stringByteAt_safe (pj : PJ) (o l : UInt64) : OkOrErr (stringByteAt pj o l) := by
  unfold stringByteAt
  split
  · dsimp only
    split
    · exact Or.inr ⟨_, rfl⟩
    · exact Or.inl ⟨_, rfl⟩
  · dsimp only
    split
    · exact Or.inr ⟨_, rfl⟩
    · exact Or.inl ⟨_, rfl⟩

/-- the accessors' value-word read never panics when the view fits the tape -/
theorem valWord_safe (pj : PJ) (i : Iter) (hl : i.lim ≤ pj.tape.size) : OkOrErr (Iter.valWord pj i) := by
  unfold Iter.valWord
  split
  · exact Or.inr ⟨_, rfl⟩
  · next h => exact Or.inl ⟨_, rdT_ok pj i.off (by omega)⟩

/-- 5b. `StringBytes` never panics on a valid iterator (only `lim ≤ |tape|` is used). -/
theorem stringBytes_safe (pj : PJ) (i : Iter) (hv : Iter.Valid pj i) : OkOrErr (Iter.stringBytes pj i) := by
  unfold Iter.stringBytes
  split
  · exact Or.inr ⟨_, rfl⟩
  · rcases valWord_safe pj i hv.1 with ⟨w, hw⟩ | ⟨e, he⟩
    · rw [hw]; exact stringByteAt_safe pj _ _
    · rw [he]; exact Or.inr ⟨_, rfl⟩

/-- `Type()` is a total function (no `Res`): nothing to prove, recorded for completeness. -/
theorem type_total (i : Iter) : Iter.type i = typeNone ∨ Iter.type i = tagToType i.t := by
  unfold Iter.type; split
  · exact Or.inl rfl
  · exact Or.inr rfl

/-! ## Stretch A: `Object.NextElementBytes` -/

theorem OkOrErr.bind {α β} {x : Res α} {f : α → Res β} (hx : OkOrErr x)
    (hf : ∀ a, x = .ok a → OkOrErr (f a)) : OkOrErr (x >>= f) := by
  rcases hx with ⟨a, rfl⟩ | ⟨e, rfl⟩
  · exact hf a rfl
  · exact Or.inr ⟨e, rfl⟩

/-- What a non-diverging `NextElementBytes` call returns: an error; or "no more members" with the
    cursor not moved backwards; or a member, with the object cursor moved strictly forward (by at
    least 3 words) and still inside the view, and a valid value iterator restricted to the words
    before the new cursor. -/
def NextElemPost (pj : PJ) (o : View) (r : Res (View × Option (Bytes × Iter × UInt8))) : Prop :=
  (∃ e, r = .error e) ∨
  (∃ o', r = .ok (o', none) ∧ o'.lim = o.lim ∧ o.off ≤ o'.off) ∨
  (∃ o' name it ty, r = .ok (o', some (name, it, ty)) ∧ o'.lim = o.lim ∧ o.off + 3 ≤ it.off ∧
     it.off ≤ o'.off ∧ o'.off ≤ o.lim ∧ Iter.Valid pj it ∧ it.lim = o'.off)

theorem nextElementBytes_step (pj : PJ) (o : View) (hl : o.lim ≤ pj.tape.size) (fuel : Nat) :
    NextElemPost pj o (View.nextElementBytes pj o (fuel + 1)) ∨
    (∃ (h : o.off < pj.tape.size), o.off < o.lim ∧ (payloadOf pj.tape[o.off]).toNat ≠ 0 ∧
      View.nextElementBytes pj o (fuel + 1) =
        View.nextElementBytes pj { o with off := o.off + (payloadOf pj.tape[o.off]).toNat } fuel) := by
  rw [View.nextElementBytes]
  split
  · exact Or.inl (Or.inr (Or.inl ⟨o, rfl, rfl, Nat.le_refl _⟩))
  · next hlt =>
    have h0 : o.off < pj.tape.size := by omega
    rw [rd_ok _ _ h0]
    simp only [Res.bind_ok]
    split
    · split
      · exact Or.inl (Or.inl ⟨_, rfl⟩)
      · next h2 =>
        have h1 : o.off + 1 < pj.tape.size := by omega
        have h2' : o.off + 2 < pj.tape.size := by omega
        rw [rd_ok _ _ h1]
        simp only [Res.bind_ok]
        rcases stringByteAt_safe pj (payloadOf pj.tape[o.off]) pj.tape[o.off + 1] with ⟨nm, hn⟩ | ⟨e, he⟩
        · rw [hn, rd_ok _ _ h2']
          simp only [Res.bind_ok]
          generalize hd0 : ({ lim := o.lim, off := o.off + 2 + 1, addNext := 0, cur := payloadOf pj.tape[o.off + 2], t := tagOf pj.tape[o.off + 2] } : Iter) = d0
          have hoff : d0.off = o.off + 3 := by rw [← hd0]
          have hlim : d0.lim = o.lim := by rw [← hd0]
          obtain ⟨c1, c2, c3, c4⟩ := calcNext_fields d0 true
          have c5 := calcNext_into_addNext d0
          split
          · exact Or.inl (Or.inl ⟨_, rfl⟩)
          · next hnn =>
            split
            · exact Or.inl (Or.inl ⟨_, rfl⟩)
            · next hle =>
              refine Or.inl (Or.inr (Or.inr ⟨_, _, _, _, rfl, rfl, ?_, ?_, ?_, ⟨?_, ?_⟩, rfl⟩))
              · show o.off + 3 ≤ (d0.calcNext true).off
                omega
              · show (d0.calcNext true).off ≤ ((↑(o.off + 2 + 1) : Int) + (d0.calcNext false).addNext).toNat
                omega
              · show ((↑(o.off + 2 + 1) : Int) + (d0.calcNext false).addNext).toNat ≤ o.lim
                omega
              · show ((↑(o.off + 2 + 1) : Int) + (d0.calcNext false).addNext).toNat ≤ pj.tape.size
                omega
              · show 0 ≤ (d0.calcNext true).addNext
                omega
        · rw [he]; exact Or.inl (Or.inl ⟨_, rfl⟩)
    · split
      · exact Or.inl (Or.inr (Or.inl ⟨o, rfl, rfl, Nat.le_refl _⟩))
      · split
        · split
          · exact Or.inl (Or.inl ⟨_, rfl⟩)
          · next hn => exact Or.inr ⟨h0, by omega, hn, rfl⟩
        · exact Or.inl (Or.inl ⟨_, rfl⟩)

theorem NextElemPost.mono {pj : PJ} {o o2 : View} {r} (h : NextElemPost pj o2 r)
    (hlim : o2.lim = o.lim) (hoff : o.off ≤ o2.off) : NextElemPost pj o r := by
  rcases h with ⟨e, he⟩ | ⟨o', he, a, b⟩ | ⟨o', nm, it, ty, he, a, b, c, d, e, f⟩
  · exact Or.inl ⟨e, he⟩
  · exact Or.inr (Or.inl ⟨o', he, by omega, by omega⟩)
  · exact Or.inr (Or.inr ⟨o', nm, it, ty, he, by omega, by omega, c, by omega, e, f⟩)

theorem NextElemPost.okOrErr {pj : PJ} {o : View} {r} (h : NextElemPost pj o r) : OkOrErr r := by
  rcases h with ⟨e, he⟩ | ⟨o', he, _⟩ | ⟨o', nm, it, ty, he, _⟩
  · exact Or.inr ⟨e, he⟩
  · exact Or.inl ⟨_, he⟩
  · exact Or.inl ⟨_, he⟩

/-- A1. On ANY tape and with ANY fuel `NextElementBytes` never panics (the only way not to satisfy
    the post-condition is to run out of fuel). -/
theorem nextElementBytes_no_panic (pj : PJ) (fuel : Nat) : ∀ (o : View), o.lim ≤ pj.tape.size →
    View.nextElementBytes pj o fuel = .diverge ∨ NextElemPost pj o (View.nextElementBytes pj o fuel) := by
  induction fuel with
  | zero => intro o _; exact Or.inl rfl
  | succ n ih =>
    intro o hl
    rcases nextElementBytes_step pj o hl n with h | ⟨h0, hlt, ht, he⟩
    · exact Or.inr h
    · rw [he]
      rcases ih { o with off := o.off + (payloadOf pj.tape[o.off]).toNat } hl with h | h
      · exact Or.inl h
      · exact Or.inr (h.mono rfl (Nat.le_add_right _ _))

theorem nextElementBytes_ne_panic (pj : PJ) (o : View) (fuel : Nat) (hl : o.lim ≤ pj.tape.size) :
    View.nextElementBytes pj o fuel ≠ .panic := by
  rcases nextElementBytes_no_panic pj fuel o hl with h | h
  · rw [h]; intro h; cases h
  · exact h.okOrErr.ne_panic

/-- A2. On ANY tape, `fuel > lim - off` suffices: the result is `.ok` or `.error` (never `.panic`,
    never `.diverge`) and satisfies the progress post-condition `NextElemPost`. -/
theorem nextElementBytes_safe (pj : PJ) (fuel : Nat) : ∀ (o : View),
    o.lim ≤ pj.tape.size → o.lim - o.off < fuel →
    NextElemPost pj o (View.nextElementBytes pj o fuel) := by
  induction fuel with
  | zero => intro o _ h; omega
  | succ n ih =>
    intro o hl hf
    rcases nextElementBytes_step pj o hl n with h | ⟨h0, hlt, hp, he⟩
    · exact h
    · rw [he]
      refine (ih { o with off := o.off + (payloadOf pj.tape[o.off]).toNat } hl ?_).mono rfl
        (Nat.le_add_right _ _)
      show o.lim - (o.off + (payloadOf pj.tape[o.off]).toNat) < n
      omega

/-- A2, in the requested shape. -/
theorem nextElementBytes_safe' (pj : PJ) (o : View) (fuel : Nat) (hl : o.lim ≤ pj.tape.size)
    (hf : o.lim - o.off < fuel) :
    OkOrErr (View.nextElementBytes pj o fuel) ∧
    (∀ o' x, View.nextElementBytes pj o fuel = .ok (o', some x) → o.off < o'.off ∧ o'.off ≤ o.lim ∧
      o'.lim = o.lim ∧ Iter.Valid pj x.2.1 ∧ x.2.1.lim = o'.off ∧ o.off + 3 ≤ x.2.1.off) ∧
    (∀ o', View.nextElementBytes pj o fuel = .ok (o', none) → o.off ≤ o'.off ∧ o'.lim = o.lim) := by
  have h := nextElementBytes_safe pj fuel o hl hf
  refine ⟨h.okOrErr, ?_, ?_⟩
  · intro o' x hx
    rw [hx] at h
    rcases h with ⟨e, he⟩ | ⟨o2, he, _⟩ | ⟨o2, nm, it, ty, he, a, b, c, d, e, f⟩
    · cases he
    · cases he
    · cases he
      exact ⟨by omega, d, a, e, f, b⟩
  · intro o' hx
    rw [hx] at h
    rcases h with ⟨e, he⟩ | ⟨o2, he, a, b⟩ | ⟨o2, nm, it, ty, he, _⟩
    · cases he
    · cases he; exact ⟨b, a⟩
    · cases he

/-! ## Stretch B: `Iter.MarshalJSONBuffer`

`marshalStep` is one big `do` block; it is split here into `keyPart` (the object-key prefix), `contF`
(its local `cont`) and `body` (the tag switch).  `marshalStep_eq` proves — by `rfl` — that the model
function IS this composition, so all theorems below are about the model's own `marshalStep`,
`marshalLoop`, `marshalBuf`. -/

/-- first section of `marshalStep` (object key) -/
def keyPart (pj : PJ) (s : MState) : Res MState :=
  (if s.stack.back! == stackObject ∧ s.i.t != tagObjectEnd then do
      let sb ← s.i.stringBytes pj
      let dst := ((Iter.quoted s.dst sb)).push 58
      let nt ← s.i.peekNextTag pj
      if nt == tagEnd then .error .generic else do
      let (i, _) ← s.i.advanceInto pj
      .ok { s with i := i, dst := dst }
    else .ok s)

/-- the local `cont` of `marshalStep` -/
def contF (pj : PJ) (s : MState) (done : Bool := true) : Res (MState ⊕ MState) := do
  if done ∧ s.stack.size == 1 then .ok (.inr s) else
  match ← Iter.marshalPost pj s with
  | none => .ok (.inr s)
  | some s' => .ok (.inl s')

/-- the `switch` of `marshalStep` -/
def body (pj : PJ) (s : MState) : Res (MState ⊕ MState) :=
  if s.i.t == tagRoot then
    if s.stack.size > 1 then
      if ((s.i.cur.toNat : Int) > s.i.off : Bool) then .error .generic
      else
        if s.stack.back! == stackRoot then do
          let nt ← s.i.peekNextTag pj
          let dst := if nt != tagEnd then s.dst.push 10 else s.dst
          contF pj { s with dst := dst, stack := s.stack.pop } false
        else if s.stack.back! == stackNone then .ok (.inr s)
        else .error .generic
    else do
      let (i, _) ← (if ((s.i.cur.toNat : Int) > s.i.off : Bool) then { s.i with addNext := 0 } else s.i).advanceInto pj
      .ok (.inl { s with i := i, stack := s.stack.push stackRoot })
  else if s.i.t == tagString then do
    let sb ← s.i.stringBytes pj
    contF pj { s with dst := Iter.quoted s.dst sb }
  else if s.i.t == tagInteger then do
    let v ← s.i.int pj
    contF pj { s with dst := s.dst ++ intToAscii v }
  else if s.i.t == tagUint then do
    let v ← s.i.uint pj
    contF pj { s with dst := s.dst ++ FloatFmt.natToAscii v }
  else if s.i.t == tagFloat then do
    let v ← s.i.float pj
    match FloatFmt.appendFloat v with
    | none => .error .generic
    | some b => contF pj { s with dst := s.dst ++ b }
  else if s.i.t == tagNull then contF pj { s with dst := s.dst ++ "null".toUTF8.data }
  else if s.i.t == tagBoolTrue then contF pj { s with dst := s.dst ++ "true".toUTF8.data }
  else if s.i.t == tagBoolFalse then contF pj { s with dst := s.dst ++ "false".toUTF8.data }
  else if s.i.t == tagObjectStart then do
    let (i, _) ← ({ s.i with addNext := 0 } : Iter).advanceInto pj
    .ok (.inl { i := i, dst := s.dst.push 123, stack := s.stack.push stackObject })
  else if s.i.t == tagObjectEnd then
    if s.stack.back! != stackObject then .error .generic
    else contF pj { s with dst := s.dst.push 125, stack := s.stack.pop }
  else if s.i.t == tagArrayStart then do
    let (i, _) ← ({ s.i with addNext := 0 } : Iter).advanceInto pj
    .ok (.inl { i := i, dst := s.dst.push 91, stack := s.stack.push stackArray })
  else if s.i.t == tagArrayEnd then
    if s.stack.back! != stackArray then .error .generic
    else contF pj { s with dst := s.dst.push 93, stack := s.stack.pop }
  else if s.i.t == tagEnd then do
    let nt ← s.i.peekNextTag pj
    if nt == tagEnd then .error .generic else do
    let (i, _) ← s.i.advanceInto pj
    .ok (.inl { s with i := i })
  else contF pj s false

theorem marshalStep_eq (pj : PJ) (s : MState) :
    Iter.marshalStep pj s = (keyPart pj s >>= body pj) := rfl

/-- termination measure of the `MarshalJSONBuffer` write loop -/
def mu (i : Iter) : Nat := 2 * (i.lim + 1 - i.off) + (if i.t = tagEnd then 0 else 1)

theorem mu_le (i : Iter) : mu i ≤ 2 * (i.lim + 1 - i.off) + 1 := by
  unfold mu; split <;> omega

theorem mu_ne_end (i : Iter) (h : i.t ≠ tagEnd) : mu i = 2 * (i.lim + 1 - i.off) + 1 := by
  unfold mu; simp only [h, if_false]

theorem base_le_mu (i : Iter) : 2 * (i.lim + 1 - i.off) ≤ mu i := by
  unfold mu; omega

/-- `AdvanceInto` never increases the measure base, and strictly decreases it whenever
    `PeekNextTag` announced something other than `TagEnd`. -/
theorem advInto_mu (pj : PJ) (i : Iter) (hv : Iter.Valid pj i) :
    ∃ i' tg, Iter.advanceInto pj i = .ok (i', tg) ∧ Iter.Valid pj i' ∧
      mu i' ≤ 2 * (i.lim + 1 - i.off) ∧
      (∀ nt, Iter.peekNextTag pj i = .ok nt → nt ≠ tagEnd → mu i' < 2 * (i.lim + 1 - i.off)) := by
  obtain ⟨i', tg, he, hv', hlim, hoff, ho, _, _, hcase⟩ := advanceInto_safe pj i hv
  refine ⟨i', tg, he, hv', ?_, ?_⟩
  · rcases hcase with ⟨ht, _, _⟩ | ⟨hlt, hle, _, _⟩
    · unfold mu; simp only [ht, if_true]; omega
    · have := mu_le i'; omega
  · intro nt hp hne
    rcases hcase with ⟨_, _, hpk⟩ | ⟨hlt, hle, _, _⟩
    · rw [hpk] at hp; injection hp with hp; exact absurd hp.symm hne
    · have := mu_le i'; omega

/-- outcome of one `marshalStep` with measure bound `m` -/
def StepPost (pj : PJ) (m : Nat) (r : Res (MState ⊕ MState)) : Prop :=
  (∃ e, r = .error e) ∨ (∃ s', r = .ok (.inr s')) ∨
  (∃ s', r = .ok (.inl s') ∧ Iter.Valid pj s'.i ∧ mu s'.i < m)

theorem StepPost.mono {pj m m' r} (h : StepPost pj m r) (hm : m ≤ m') : StepPost pj m' r := by
  rcases h with h | h | ⟨s', a, b, c⟩
  · exact Or.inl h
  · exact Or.inr (Or.inl h)
  · exact Or.inr (Or.inr ⟨s', a, b, by omega⟩)

theorem marshalPost_spec (pj : PJ) (s : MState) (hv : Iter.Valid pj s.i) :
    Iter.marshalPost pj s = .ok none ∨
    ∃ s', Iter.marshalPost pj s = .ok (some s') ∧ Iter.Valid pj s'.i ∧
      mu s'.i < 2 * (s.i.lim + 1 - s.i.off) := by
  unfold Iter.marshalPost
  obtain ⟨nt, hnt⟩ := peekNextTag_safe pj s.i hv
  rw [hnt]
  simp only [Res.bind_ok]
  split
  · exact Or.inl rfl
  · next hne =>
    obtain ⟨i', tg, he, hv', _, hs⟩ := advInto_mu pj s.i hv
    rw [he]
    simp only [Res.bind_ok]
    exact Or.inr ⟨_, rfl, hv', hs nt hnt (by simpa using hne)⟩

theorem contF_spec (pj : PJ) (s : MState) (done : Bool) (hv : Iter.Valid pj s.i) :
    StepPost pj (2 * (s.i.lim + 1 - s.i.off)) (contF pj s done) := by
  unfold contF
  split
  · exact Or.inr (Or.inl ⟨_, rfl⟩)
  · rcases marshalPost_spec pj s hv with h | ⟨s', h, a, b⟩
    · rw [h]; exact Or.inr (Or.inl ⟨_, rfl⟩)
    · rw [h]; exact Or.inr (Or.inr ⟨s', rfl, a, b⟩)

theorem float_safe (pj : PJ) (i : Iter) (hl : i.lim ≤ pj.tape.size) : OkOrErr (Iter.float pj i) := by
  unfold Iter.float
  split
  · exact valWord_safe pj i hl
  · split
    · exact (valWord_safe pj i hl).bind fun _ _ => Or.inl ⟨_, rfl⟩
    · split
      · exact (valWord_safe pj i hl).bind fun _ _ => Or.inl ⟨_, rfl⟩
      · exact Or.inr ⟨_, rfl⟩

theorem int_safe (pj : PJ) (i : Iter) (hl : i.lim ≤ pj.tape.size) : OkOrErr (Iter.int pj i) := by
  unfold Iter.int
  split
  · refine (valWord_safe pj i hl).bind fun v _ => ?_
    split
    · exact Or.inr ⟨_, rfl⟩
    · split
      · exact Or.inr ⟨_, rfl⟩
      · exact Or.inl ⟨_, rfl⟩
  · split
    · exact (valWord_safe pj i hl).bind fun _ _ => Or.inl ⟨_, rfl⟩
    · split
      · refine (valWord_safe pj i hl).bind fun v _ => ?_
        split
        · exact Or.inr ⟨_, rfl⟩
        · exact Or.inl ⟨_, rfl⟩
      · exact Or.inr ⟨_, rfl⟩

theorem uint_safe (pj : PJ) (i : Iter) (hl : i.lim ≤ pj.tape.size) : OkOrErr (Iter.uint pj i) := by
  unfold Iter.uint
  split
  · refine (valWord_safe pj i hl).bind fun v _ => ?_
    split
    · exact Or.inr ⟨_, rfl⟩
    · split
      · exact Or.inr ⟨_, rfl⟩
      · exact Or.inl ⟨_, rfl⟩
  · split
    · refine (valWord_safe pj i hl).bind fun v _ => ?_
      split
      · exact Or.inr ⟨_, rfl⟩
      · exact Or.inl ⟨_, rfl⟩
    · split
      · exact (valWord_safe pj i hl).bind fun _ _ => Or.inl ⟨_, rfl⟩
      · exact Or.inr ⟨_, rfl⟩

theorem keyPart_spec (pj : PJ) (s : MState) (hv : Iter.Valid pj s.i) :
    (∃ e, keyPart pj s = .error e) ∨
    (∃ s1, keyPart pj s = .ok s1 ∧ Iter.Valid pj s1.i ∧ mu s1.i ≤ mu s.i) := by
  unfold keyPart
  split
  · rcases stringBytes_safe pj s.i hv with ⟨sb, hsb⟩ | ⟨e, he⟩
    · rw [hsb]
      obtain ⟨nt, hnt⟩ := peekNextTag_safe pj s.i hv
      simp only [Res.bind_ok, hnt]
      split
      · exact Or.inl ⟨_, rfl⟩
      · obtain ⟨i', tg, he, hv', hm, _⟩ := advInto_mu pj s.i hv
        rw [he]
        simp only [Res.bind_ok]
        exact Or.inr ⟨_, rfl, hv', by have := base_le_mu s.i; show mu i' ≤ mu s.i; omega⟩
    · rw [he]; exact Or.inl ⟨_, rfl⟩
  · exact Or.inr ⟨s, rfl, hv, Nat.le_refl _⟩

/-- a `bind` whose first part is ok-or-error and whose continuation satisfies `StepPost` -/
theorem StepPost.bind {α} {pj m} {x : Res α} {f : α → Res (MState ⊕ MState)} (hx : OkOrErr x)
    (hf : ∀ a, x = .ok a → StepPost pj m (f a)) : StepPost pj m (x >>= f) := by
  rcases hx with ⟨a, rfl⟩ | ⟨e, rfl⟩
  · exact hf a rfl
  · exact Or.inl ⟨e, rfl⟩

theorem contF_post (pj : PJ) (s s2 : MState) (done : Bool) (hv : Iter.Valid pj s.i) (hi : s2.i = s.i) :
    StepPost pj (mu s.i) (contF pj s2 done) := by
  have := contF_spec pj s2 done (by rw [hi]; exact hv)
  rw [hi] at this
  exact this.mono (base_le_mu s.i)

/-- the container-opening cases: `AdvanceInto` on the cursor with `addNext` reset -/
theorem open_post (pj : PJ) (s : MState) (i0 : Iter) (hv : Iter.Valid pj i0) (hlim : i0.lim = s.i.lim)
    (hoff : i0.off = s.i.off) (hne : s.i.t ≠ tagEnd) (g : Iter → MState) (hg : ∀ i', (g i').i = i') :
    StepPost pj (mu s.i) (do let (i, _) ← i0.advanceInto pj; .ok (.inl (g i))) := by
  obtain ⟨i', tg, he, hv', hm, _⟩ := advInto_mu pj i0 hv
  rw [he]
  simp only [Res.bind_ok]
  refine Or.inr (Or.inr ⟨_, rfl, by rw [hg]; exact hv', ?_⟩)
  rw [hg, mu_ne_end _ hne, ← hlim, ← hoff]
  omega

theorem tag_ne_end {t c : UInt8} (h : (t == c) = true) (hc : c ≠ tagEnd) : t ≠ tagEnd := by
  have : t = c := by simpa using h
  rw [this]; exact hc

theorem body_spec (pj : PJ) (s : MState) (hv : Iter.Valid pj s.i) :
    StepPost pj (mu s.i) (body pj s) := by
  have hl := hv.1
  unfold body
  by_cases h1 : (s.i.t == tagRoot) = true
  · rw [if_pos h1]
    have ht' : s.i.t ≠ tagEnd := tag_ne_end h1 (by decide)
    split
    · split
      · exact Or.inl ⟨_, rfl⟩
      · split
        · obtain ⟨nt, hnt⟩ := peekNextTag_safe pj s.i hv
          rw [hnt]
          simp only [Res.bind_ok]
          exact contF_post pj s _ _ hv rfl
        · split
          · exact Or.inr (Or.inl ⟨_, rfl⟩)
          · exact Or.inl ⟨_, rfl⟩
    · split
      · exact open_post pj s { s.i with addNext := 0 } ⟨hv.1, Int.le_refl _⟩ rfl rfl ht'
          (fun i => { s with i := i, stack := s.stack.push stackRoot }) (fun _ => rfl)
      · exact open_post pj s _ hv rfl rfl ht'
          (fun i => { s with i := i, stack := s.stack.push stackRoot }) (fun _ => rfl)
  rw [if_neg h1]
  by_cases h2 : (s.i.t == tagString) = true
  · rw [if_pos h2]
    exact StepPost.bind (stringBytes_safe pj s.i hv) fun sb _ => contF_post pj s _ _ hv rfl
  rw [if_neg h2]
  by_cases h3 : (s.i.t == tagInteger) = true
  · rw [if_pos h3]
    exact StepPost.bind (int_safe pj s.i hl) fun v _ => contF_post pj s _ _ hv rfl
  rw [if_neg h3]
  by_cases h4 : (s.i.t == tagUint) = true
  · rw [if_pos h4]
    exact StepPost.bind (uint_safe pj s.i hl) fun v _ => contF_post pj s _ _ hv rfl
  rw [if_neg h4]
  by_cases h5 : (s.i.t == tagFloat) = true
  · rw [if_pos h5]
    refine StepPost.bind (float_safe pj s.i hl) fun v _ => ?_
    split
    · exact Or.inl ⟨_, rfl⟩
    · exact contF_post pj s _ _ hv rfl
  rw [if_neg h5]
  by_cases h6 : (s.i.t == tagNull) = true
  · rw [if_pos h6]; exact contF_post pj s _ _ hv rfl
  rw [if_neg h6]
  by_cases h7 : (s.i.t == tagBoolTrue) = true
  · rw [if_pos h7]; exact contF_post pj s _ _ hv rfl
  rw [if_neg h7]
  by_cases h8 : (s.i.t == tagBoolFalse) = true
  · rw [if_pos h8]; exact contF_post pj s _ _ hv rfl
  rw [if_neg h8]
  by_cases h9 : (s.i.t == tagObjectStart) = true
  · rw [if_pos h9]
    exact open_post pj s { s.i with addNext := 0 } ⟨hv.1, Int.le_refl _⟩ rfl rfl (tag_ne_end h9 (by decide))
      (fun i => { i := i, dst := s.dst.push 123, stack := s.stack.push stackObject }) (fun _ => rfl)
  rw [if_neg h9]
  by_cases h10 : (s.i.t == tagObjectEnd) = true
  · rw [if_pos h10]
    split
    · exact Or.inl ⟨_, rfl⟩
    · exact contF_post pj s _ _ hv rfl
  rw [if_neg h10]
  by_cases h11 : (s.i.t == tagArrayStart) = true
  · rw [if_pos h11]
    exact open_post pj s { s.i with addNext := 0 } ⟨hv.1, Int.le_refl _⟩ rfl rfl (tag_ne_end h11 (by decide))
      (fun i => { i := i, dst := s.dst.push 91, stack := s.stack.push stackArray }) (fun _ => rfl)
  rw [if_neg h11]
  by_cases h12 : (s.i.t == tagArrayEnd) = true
  · rw [if_pos h12]
    split
    · exact Or.inl ⟨_, rfl⟩
    · exact contF_post pj s _ _ hv rfl
  rw [if_neg h12]
  by_cases h13 : (s.i.t == tagEnd) = true
  · rw [if_pos h13]
    obtain ⟨nt, hnt⟩ := peekNextTag_safe pj s.i hv
    rw [hnt]
    simp only [Res.bind_ok]
    split
    · exact Or.inl ⟨_, rfl⟩
    · next hne =>
      obtain ⟨i', tg, he, hv', _, hs⟩ := advInto_mu pj s.i hv
      rw [he]
      simp only [Res.bind_ok]
      refine Or.inr (Or.inr ⟨_, rfl, hv', ?_⟩)
      have := hs nt hnt (by simpa using hne)
      have := base_le_mu s.i
      show mu i' < mu s.i
      omega
  rw [if_neg h13]
  exact contF_post pj s _ _ hv rfl

/-- B1. One iteration of the write loop of `MarshalJSONBuffer`, on ANY tape: never panics, and
    when the loop continues the cursor is still valid and the measure `mu` strictly decreased. -/
theorem marshalStep_spec (pj : PJ) (s : MState) (hv : Iter.Valid pj s.i) :
    StepPost pj (mu s.i) (Iter.marshalStep pj s) := by
  rw [marshalStep_eq]
  rcases keyPart_spec pj s hv with ⟨e, he⟩ | ⟨s1, he, hv1, hm⟩
  · rw [he]; exact Or.inl ⟨e, rfl⟩
  · rw [he]
    simp only [Res.bind_ok]
    exact (body_spec pj s1 hv1).mono hm

/-- B2. `marshalLoop` with any fuel above the measure neither diverges nor panics. -/
theorem marshalLoop_safe (pj : PJ) (fuel : Nat) : ∀ (s : MState), Iter.Valid pj s.i → mu s.i < fuel →
    OkOrErr (Iter.marshalLoop pj s fuel) := by
  induction fuel with
  | zero => intro s _ h; omega
  | succ n ih =>
    intro s hv hf
    rw [Iter.marshalLoop]
    rcases marshalStep_spec pj s hv with ⟨e, he⟩ | ⟨s', he⟩ | ⟨s', he, hv', hm⟩
    · rw [he]; exact Or.inr ⟨e, rfl⟩
    · rw [he]; exact Or.inl ⟨s', rfl⟩
    · rw [he]
      simp only [Res.bind_ok]
      exact ih s' hv' (by omega)

theorem mu_lt_fuelOf (pj : PJ) (i : Iter) (hv : Iter.Valid pj i) : mu i < fuelOf pj := by
  have := mu_le i
  have := hv.1
  unfold fuelOf
  omega

/-- B3. With `fuel = fuelOf pj` the write loop never diverges and never panics, from any valid
    cursor, any stack and any tape. -/
theorem marshalLoop_fuelOf_safe (pj : PJ) (s : MState) (hv : Iter.Valid pj s.i) :
    OkOrErr (Iter.marshalLoop pj s (fuelOf pj)) :=
  marshalLoop_safe pj (fuelOf pj) s hv (mu_lt_fuelOf pj s.i hv)

/-- B4. `i.MarshalJSONBuffer(dst)` on any tape: `.ok` or `.error`. -/
theorem marshalBuf_safe (pj : PJ) (i : Iter) (dst : Bytes) (hv : Iter.Valid pj i) :
    OkOrErr (Iter.marshalBuf pj i dst) := by
  unfold Iter.marshalBuf
  refine (marshalLoop_fuelOf_safe pj { i := i, stack := #[stackNone], dst := dst } hv).bind fun s _ => ?_
  split
  · exact Or.inr ⟨_, rfl⟩
  · exact Or.inl ⟨_, rfl⟩

theorem marshal_safe (pj : PJ) (i : Iter) (hv : Iter.Valid pj i) : OkOrErr (Iter.marshal pj i) :=
  marshalBuf_safe pj i #[] hv

/-! ## Stretch C: the composite loops built on the traversal calls -/

set_option maxRecDepth 10000 in
theorem tagToType_tagEnd : tagToType tagEnd = typeNone := by decide

theorem array_cases (i : Iter) :
    (∃ e, i.array = .error e) ∨ (∃ a, i.array = .ok a ∧ a.lim ≤ i.lim ∧ a.off = i.off) := by
  unfold Iter.array
  split
  · exact Or.inl ⟨_, rfl⟩
  · dsimp only
    split
    · exact Or.inl ⟨_, rfl⟩
    · exact Or.inr ⟨_, rfl, by simp only; omega, rfl⟩

theorem object_cases (i : Iter) :
    (∃ e, i.object = .error e) ∨
    (∃ o, i.object = .ok o ∧ o.lim ≤ i.lim ∧ o.off = i.off ∧ o.off ≤ o.lim) := by
  unfold Iter.object
  split
  · exact Or.inl ⟨_, rfl⟩
  · dsimp only
    split
    · exact Or.inl ⟨_, rfl⟩
    · split
      · exact Or.inl ⟨_, rfl⟩
      · exact Or.inr ⟨_, rfl, by simp only; omega, rfl, by simp only; omega⟩

theorem iter_valid (pj : PJ) (a : View) (h : a.lim ≤ pj.tape.size) : Iter.Valid pj a.iter :=
  ⟨h, Int.le_refl _⟩

/-- `i.Root()`: an error, or a valid iterator that is either at `TypeNone` or strictly inside a
    strictly smaller view. -/
theorem root_cases (pj : PJ) (i : Iter) (hv : Iter.Valid pj i) :
    (∃ e, Iter.root pj i = .error e) ∨
    (∃ ty d, Iter.root pj i = .ok (ty, d) ∧ Iter.Valid pj d ∧
      (ty = typeNone ∨ (i.off < d.off ∧ d.lim + 1 ≤ i.lim ∧ d.off ≤ d.lim))) := by
  unfold Iter.root
  split
  · exact Or.inl ⟨_, rfl⟩
  · split
    · exact Or.inl ⟨_, rfl⟩
    · next hc =>
      have hc1 : ¬ i.cur.toNat > i.lim := fun h => hc (Or.inl h)
      have hc2 : i.cur.toNat ≠ 0 := u64_ne_zero_toNat (fun h => hc (Or.inr h))
      have hd : Iter.Valid pj { i with addNext := 0, lim := i.cur.toNat - 1 } :=
        ⟨by have := hv.1; show i.cur.toNat - 1 ≤ pj.tape.size; omega, Int.le_refl _⟩
      obtain ⟨d', tg, he, hv', hlim, _, ho, htg, _, hcase⟩ := advanceInto_safe pj _ hd
      dsimp only
      rw [he]
      simp only [Res.bind_ok]
      refine Or.inr ⟨_, _, rfl, hv', ?_⟩
      rcases hcase with ⟨ht, ha, _⟩ | ⟨hlt, hle, _, _⟩
      · left
        rw [htg, ht]; exact tagToType_tagEnd
      · right
        have e1 : d'.lim = i.cur.toNat - 1 := hlim
        have e2 : i.off + (0 : Int).toNat < d'.off := hlt
        have e3 : d'.off ≤ i.cur.toNat - 1 := hle
        simp only [Int.toNat_zero] at e2
        omega

/-- the four mutually recursive functions of `Iter.Interface()`, by one induction on the fuel.
    The fuel is a bound on the *depth* of the call chain (a loop iteration and a nested call both
    cost one); `2 * (lim - off) + 2` bounds it because every nested call or iteration either
    restricts `lim` or increases `off`. -/
theorem interface_family_safe (pj : PJ) : ∀ fuel : Nat,
    (∀ i, Iter.Valid pj i → 2 * (i.lim - i.off) + 2 < fuel → OkOrErr (Iter.interface pj i fuel)) ∧
    (∀ i acc, Iter.Valid pj i → 2 * (i.lim - i.off) + 1 < fuel → OkOrErr (Iter.rootLoop pj i acc fuel)) ∧
    (∀ i acc, Iter.Valid pj i → 2 * (i.lim - i.off) + 1 < fuel → OkOrErr (View.arrInterface pj i acc fuel)) ∧
    (∀ o acc, o.lim ≤ pj.tape.size → 2 * (o.lim - o.off) + 1 < fuel → OkOrErr (View.objMap pj o acc fuel)) := by
  intro fuel
  induction fuel with
  | zero => exact ⟨fun _ _ h => by omega, fun _ _ _ h => by omega, fun _ _ _ h => by omega,
      fun _ _ _ h => by omega⟩
  | succ n ih =>
    obtain ⟨ihI, ihR, ihA, ihO⟩ := ih
    refine ⟨?_, ?_, ?_, ?_⟩
    · -- Iter.interface
      intro i hv hf
      have hl := hv.1
      rw [Iter.interface]
      split
      · exact (uint_safe pj i hl).bind fun _ _ => Or.inl ⟨_, rfl⟩
      split
      · exact (int_safe pj i hl).bind fun _ _ => Or.inl ⟨_, rfl⟩
      split
      · exact (float_safe pj i hl).bind fun _ _ => Or.inl ⟨_, rfl⟩
      split
      · exact Or.inl ⟨_, rfl⟩
      split
      · rcases array_cases i with ⟨e, he⟩ | ⟨a, he, h1, h2⟩
        · rw [he]; exact Or.inr ⟨_, rfl⟩
        · rw [he]
          simp only [Res.bind_ok]
          refine ihA a.iter [] (iter_valid pj a (by omega)) ?_
          show 2 * (a.lim - a.off) + 1 < n
          omega
      split
      · exact (stringBytes_safe pj i hv).bind fun _ _ => Or.inl ⟨_, rfl⟩
      split
      · rcases object_cases i with ⟨e, he⟩ | ⟨o, he, h1, h2, h3⟩
        · rw [he]; exact Or.inr ⟨_, rfl⟩
        · rw [he]
          simp only [Res.bind_ok]
          exact (ihO o [] (by omega) (by omega)).bind fun _ _ => Or.inl ⟨_, rfl⟩
      split
      · exact Or.inl ⟨_, rfl⟩
      split
      · exact ihR i [] hv (by omega)
      split
      · obtain ⟨nt, hnt⟩ := peekNextTag_safe pj i hv
        rw [hnt]
        simp only [Res.bind_ok]
        split
        · exact Or.inr ⟨_, rfl⟩
        · next hne =>
          have hlt := peek_ne_end_lt pj i hv nt hnt (by simpa using hne)
          obtain ⟨i', ty, he, hv', hlim, hcase⟩ := advance_cases pj i hv
          rw [he]
          simp only [Res.bind_ok]
          refine ihI i' hv' ?_
          rcases hcase with ⟨_, _, _, h1, _⟩ | ⟨h1, h2, _⟩ <;> omega
      · exact Or.inr ⟨_, rfl⟩
    · -- Iter.rootLoop
      intro i acc hv hf
      rw [Iter.rootLoop]
      rcases root_cases pj i hv with ⟨e, he⟩ | ⟨ty, d, he, hvd, hcase⟩
      · rw [he]; exact Or.inr ⟨_, rfl⟩
      · rw [he]
        simp only [Res.bind_ok]
        split
        · exact Or.inl ⟨_, rfl⟩
        · next hne =>
          have hprog : i.off < d.off ∧ d.lim + 1 ≤ i.lim ∧ d.off ≤ d.lim := by
            rcases hcase with h | h
            · exact absurd (by rw [h]; decide) hne
            · exact h
          refine (ihI d hvd (by omega)).bind fun elem _ => ?_
          obtain ⟨i', ty2, he2, hv', hlim, hcase2⟩ := advance_cases pj i hv
          rw [he2]
          simp only [Res.bind_ok]
          split
          · exact Or.inl ⟨_, rfl⟩
          · next hr =>
            refine ihR i' _ hv' ?_
            rcases hcase2 with ⟨h0, _⟩ | ⟨h1, h2, _⟩
            · exact absurd (by rw [h0]; decide) hr
            · omega
    · -- View.arrInterface
      intro i acc hv hf
      rw [View.arrInterface]
      obtain ⟨i', ty, he, hv', hlim, hcase⟩ := advance_cases pj i hv
      rw [he]
      simp only [Res.bind_ok]
      split
      · exact Or.inl ⟨_, rfl⟩
      · next hne =>
        have hprog : i.off < i'.off ∧ i'.off ≤ i.lim := by
          rcases hcase with ⟨h0, _⟩ | ⟨h1, h2, _⟩
          · exact absurd (by rw [h0]; decide) hne
          · omega
        refine (ihI i' hv' (by omega)).bind fun elem _ => ?_
        exact ihA i' _ hv' (by omega)
    · -- View.objMap
      intro o acc hl hf
      rw [View.objMap]
      rcases nextElementBytes_safe pj n o hl (by omega) with
        ⟨e, he⟩ | ⟨o', he, _⟩ | ⟨o', nm, it, ty, he, a, b, c, d, hvit, f⟩
      · rw [he]; exact Or.inr ⟨_, rfl⟩
      · rw [he]; exact Or.inl ⟨_, rfl⟩
      · rw [he]
        simp only [Res.bind_ok]
        split
        · exact Or.inl ⟨_, rfl⟩
        · refine (ihI it hvit (by omega)).bind fun v _ => ?_
          exact ihO o' _ (by omega) (by omega)

theorem fuelOf_gt (pj : PJ) (lim off : Nat) (h : lim ≤ pj.tape.size) : 2 * (lim - off) + 2 < fuelOf pj := by
  unfold fuelOf; omega

/-- C1. `i.Interface()` with `fuel = fuelOf pj`, any tape, any valid iterator. -/
theorem interface_safe (pj : PJ) (i : Iter) (hv : Iter.Valid pj i) :
    OkOrErr (Iter.interface pj i (fuelOf pj)) :=
  (interface_family_safe pj (fuelOf pj)).1 i hv (fuelOf_gt pj _ _ hv.1)

/-- C2. `o.Map()` loop with `fuel = fuelOf pj`, any tape, any view inside the tape. -/
theorem objMap_safe (pj : PJ) (o : View) (acc) (hl : o.lim ≤ pj.tape.size) :
    OkOrErr (View.objMap pj o acc (fuelOf pj)) :=
  (interface_family_safe pj (fuelOf pj)).2.2.2 o acc hl (by have := fuelOf_gt pj o.lim o.off hl; omega)

theorem arrInterface_safe (pj : PJ) (i : Iter) (acc) (hv : Iter.Valid pj i) :
    OkOrErr (View.arrInterface pj i acc (fuelOf pj)) :=
  (interface_family_safe pj (fuelOf pj)).2.2.1 i acc hv (by have := fuelOf_gt pj i.lim i.off hv.1; omega)

theorem rootLoop_safe (pj : PJ) (i : Iter) (acc) (hv : Iter.Valid pj i) :
    OkOrErr (Iter.rootLoop pj i acc (fuelOf pj)) :=
  (interface_family_safe pj (fuelOf pj)).2.1 i acc hv (by have := fuelOf_gt pj i.lim i.off hv.1; omega)

/-- C3. `o.Parse()`: fuel above `lim - off + 1` suffices; every returned element iterator is valid. -/
theorem parse_safe_fuel (pj : PJ) (fuel : Nat) : ∀ (o : View) (acc : Array View.Elem),
    o.lim ≤ pj.tape.size → o.lim - o.off + 1 < fuel → (∀ e ∈ acc, Iter.Valid pj e.iter) →
    (∃ es, View.parse pj o acc fuel = .ok es ∧ ∀ e ∈ es, Iter.Valid pj e.iter) ∨
    (∃ e, View.parse pj o acc fuel = .error e) := by
  induction fuel with
  | zero => intro _ _ _ h; omega
  | succ n ih =>
    intro o acc hl hf hacc
    rw [View.parse]
    rcases nextElementBytes_safe pj n o hl (by omega) with
      ⟨e, he⟩ | ⟨o', he, _⟩ | ⟨o', nm, it, ty, he, a, b, c, d, hvit, f⟩
    · rw [he]; exact Or.inr ⟨_, rfl⟩
    · rw [he]; exact Or.inl ⟨_, rfl, hacc⟩
    · rw [he]
      simp only [Res.bind_ok]
      split
      · exact Or.inl ⟨_, rfl, hacc⟩
      · refine ih o' _ (by omega) (by omega) ?_
        intro e he
        rcases Array.mem_push.mp he with h | h
        · exact hacc e h
        · rw [h]; exact hvit

theorem parse_safe (pj : PJ) (o : View) (hl : o.lim ≤ pj.tape.size) :
    OkOrErr (View.parse pj o #[] (fuelOf pj)) := by
  rcases parse_safe_fuel pj (fuelOf pj) o #[] hl (by unfold fuelOf; omega) (by simp) with ⟨es, h, _⟩ | ⟨e, h⟩
  · exact Or.inl ⟨_, h⟩
  · exact Or.inr ⟨_, h⟩

theorem floatFlags_safe (pj : PJ) (i : Iter) (hl : i.lim ≤ pj.tape.size) : OkOrErr (Iter.floatFlags pj i) := by
  unfold Iter.floatFlags
  split
  · exact (valWord_safe pj i hl).bind fun _ _ => Or.inl ⟨_, rfl⟩
  · exact (float_safe pj i hl).bind fun _ _ => Or.inl ⟨_, rfl⟩

theorem bool_safe (i : Iter) : OkOrErr (Iter.bool i) := by
  unfold Iter.bool
  split
  · exact Or.inl ⟨_, rfl⟩
  · split
    · exact Or.inl ⟨_, rfl⟩
    · exact Or.inr ⟨_, rfl⟩

/-- the ordered read-back walk (`SJ/Model/Walk.lean`), same measure as `Interface`. -/
theorem owalk_family_safe (pj : PJ) : ∀ fuel : Nat,
    (∀ i, Iter.Valid pj i → 2 * (i.lim - i.off) + 2 < fuel → OkOrErr (owalkValue pj i fuel)) ∧
    (∀ o acc, o.lim ≤ pj.tape.size → 2 * (o.lim - o.off) + 1 < fuel → OkOrErr (owalkObj pj o acc fuel)) ∧
    (∀ i acc, Iter.Valid pj i → 2 * (i.lim - i.off) + 1 < fuel → OkOrErr (owalkArr pj i acc fuel)) := by
  intro fuel
  induction fuel with
  | zero => exact ⟨fun _ _ h => by omega, fun _ _ _ h => by omega, fun _ _ _ h => by omega⟩
  | succ n ih =>
    obtain ⟨ihV, ihO, ihA⟩ := ih
    refine ⟨?_, ?_, ?_⟩
    · intro i hv hf
      have hl := hv.1
      rw [owalkValue]
      split
      · rcases object_cases i with ⟨e, he⟩ | ⟨o, he, h1, h2, h3⟩
        · rw [he]; exact Or.inr ⟨_, rfl⟩
        · rw [he]
          simp only [Res.bind_ok]
          exact (ihO o [] (by omega) (by omega)).bind fun _ _ => Or.inl ⟨_, rfl⟩
      split
      · rcases array_cases i with ⟨e, he⟩ | ⟨a, he, h1, h2⟩
        · rw [he]; exact Or.inr ⟨_, rfl⟩
        · rw [he]
          simp only [Res.bind_ok]
          refine (ihA a.iter [] (iter_valid pj a (by omega)) ?_).bind fun _ _ => Or.inl ⟨_, rfl⟩
          show 2 * (a.lim - a.off) + 1 < n
          omega
      split
      · exact (stringBytes_safe pj i hv).bind fun _ _ => Or.inl ⟨_, rfl⟩
      split
      · exact (int_safe pj i hl).bind fun _ _ => Or.inl ⟨_, rfl⟩
      split
      · exact (uint_safe pj i hl).bind fun _ _ => Or.inl ⟨_, rfl⟩
      split
      · exact (floatFlags_safe pj i hl).bind fun _ _ => Or.inl ⟨_, rfl⟩
      split
      · exact (bool_safe i).bind fun _ _ => Or.inl ⟨_, rfl⟩
      split
      · exact Or.inl ⟨_, rfl⟩
      · exact Or.inr ⟨_, rfl⟩
    · intro o acc hl hf
      rw [owalkObj]
      rcases nextElementBytes_safe pj n o hl (by omega) with
        ⟨e, he⟩ | ⟨o', he, _⟩ | ⟨o', nm, it, ty, he, a, b, c, d, hvit, f⟩
      · rw [he]; exact Or.inr ⟨_, rfl⟩
      · rw [he]; exact Or.inl ⟨_, rfl⟩
      · rw [he]
        simp only [Res.bind_ok]
        split
        · exact Or.inl ⟨_, rfl⟩
        · refine (ihV it hvit (by omega)).bind fun v _ => ?_
          exact ihO o' _ (by omega) (by omega)
    · intro i acc hv hf
      rw [owalkArr]
      obtain ⟨i', ty, he, hv', hlim, hcase⟩ := advance_cases pj i hv
      rw [he]
      simp only [Res.bind_ok]
      split
      · exact Or.inl ⟨_, rfl⟩
      · next hne =>
        have hprog : i.off < i'.off ∧ i'.off ≤ i.lim := by
          rcases hcase with ⟨h0, _⟩ | ⟨h1, h2, _⟩
          · exact absurd (by rw [h0]; decide) hne
          · omega
        refine (ihV i' hv' (by omega)).bind fun elem _ => ?_
        exact ihA i' _ hv' (by omega)

/-- C4. `owalkValue` with `fuel = fuelOf pj`. -/
theorem owalkValue_safe (pj : PJ) (i : Iter) (hv : Iter.Valid pj i) :
    OkOrErr (owalkValue pj i (fuelOf pj)) :=
  (owalk_family_safe pj (fuelOf pj)).1 i hv (fuelOf_gt pj _ _ hv.1)

theorem owalkObj_safe (pj : PJ) (o : View) (acc) (hl : o.lim ≤ pj.tape.size) :
    OkOrErr (owalkObj pj o acc (fuelOf pj)) :=
  (owalk_family_safe pj (fuelOf pj)).2.1 o acc hl (by have := fuelOf_gt pj o.lim o.off hl; omega)

theorem owalkArr_safe (pj : PJ) (i : Iter) (acc) (hv : Iter.Valid pj i) :
    OkOrErr (owalkArr pj i acc (fuelOf pj)) :=
  (owalk_family_safe pj (fuelOf pj)).2.2 i acc hv (by have := fuelOf_gt pj i.lim i.off hv.1; omega)

theorem mapM_loop_okOrErr {α β} (f : α → Res β) : ∀ (l : List α) (bs : List β),
    (∀ x ∈ l, OkOrErr (f x)) → OkOrErr (List.mapM.loop f l bs) := by
  intro l
  induction l with
  | nil => intro bs _; exact Or.inl ⟨_, rfl⟩
  | cons a as ih =>
    intro bs h
    rw [List.mapM.loop]
    exact (h a (List.mem_cons_self ..)).bind fun b _ =>
      ih _ fun x hx => h x (List.mem_cons_of_mem _ hx)

theorem mapM_okOrErr {α β} (f : α → Res β) (l : List α) (h : ∀ x ∈ l, OkOrErr (f x)) :
    OkOrErr (l.mapM f) := mapM_loop_okOrErr f l [] h

/-- `pj.ForEach`: fuel above `lim - off` suffices; every iterator handed to the callback is valid. -/
theorem pjForEach_safe_fuel (pj : PJ) (fuel : Nat) : ∀ (i : Iter) (acc : Array Iter),
    Iter.Valid pj i → i.lim - i.off < fuel → (∀ e ∈ acc, Iter.Valid pj e) →
    (∃ r, pjForEach pj i acc fuel = .ok r ∧ ∀ e ∈ r, Iter.Valid pj e) ∨
    (∃ e, pjForEach pj i acc fuel = .error e) := by
  induction fuel with
  | zero => intro _ _ _ h; omega
  | succ n ih =>
    intro i acc hv hf hacc
    rw [pjForEach]
    obtain ⟨hsafe, hpost⟩ := advanceIter_safe pj i default hv
    rcases hsafe with ⟨⟨i2, d2, ty⟩, he⟩ | ⟨e, he⟩
    · obtain ⟨hv2, hlim2, _, hcase⟩ := hpost i2 d2 ty he
      rw [he]
      simp only [Res.bind_ok]
      split
      · exact Or.inl ⟨_, rfl, hacc⟩
      · next hr =>
        rcases hcase with ⟨h0, _⟩ | ⟨hvd, hdl, hprog, hdo, hdle, _, _⟩
        · exact absurd (by rw [h0]; decide) hr
        · obtain ⟨e', tg, hai, hve', _⟩ := advanceInto_safe pj d2 hvd
          rw [hai]
          simp only [Res.bind_ok]
          refine ih i2 _ hv2 (by omega) ?_
          intro e hmem
          rcases Array.mem_push.mp hmem with h | h
          · exact hacc e h
          · rw [h]; exact hve'
    · rw [he]; exact Or.inr ⟨_, rfl⟩

/-- C5. The whole-document ordered walk never panics and never diverges, on ANY tape. -/
theorem owalk_safe (pj : PJ) : OkOrErr (owalk pj) := by
  unfold owalk
  rcases pjForEach_safe_fuel pj (fuelOf pj) (Iter.ofPJ pj) #[] (ofPJ_valid pj)
      (by unfold fuelOf Iter.ofPJ; simp only; omega) (by simp) with ⟨r, h, hr⟩ | ⟨e, h⟩
  · rw [h]
    simp only [Res.bind_ok]
    exact mapM_okOrErr _ _ fun it hit => owalkValue_safe pj it (hr it (Array.mem_toList_iff.mp hit))
  · rw [h]; exact Or.inr ⟨_, rfl⟩

end SJ.WalkSafe
