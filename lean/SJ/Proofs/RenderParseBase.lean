import SJ.Proofs.MarshalExact
import SJ.Proofs.ParseDefs
import SJ.Proofs.FloatFmt
import SJ.Proofs.Number
import SJ.Proofs.Escape
/-
Helpers of `SJ/Proofs/RenderParse.lean`: definitions (`FloatRT`, `Clean`, `NoNegZero`, `NumSame`, `DocRel`),
the specification's container productions cut into single steps, and the number scalars.
-/
set_option linter.unusedVariables false
set_option linter.unusedSimpArgs false
namespace SJ.RenderParse
open SJ SJ.Layout SJ.MarshalExact SJ.ParseDefs SJ.Tables
open SJ.NumberProofs (Lit sgn Dig NoCont)
open SJ.FloatFmtProofs (natDigits litValue)

/-! ## 0. Definitions -/

/-- shortest-digits text of a finite float reads back (as an exact decimal) to the same float -/
def FloatRT : Prop := ∀ bits : UInt64, F64.isFinite bits = true →
  ∃ txt l, FloatFmt.appendFloat bits = some txt ∧ Spec.numberLit txt.toList = some (l, []) ∧
    F64.roundDecimal (litValue l).1 (litValue l).2.1 (litValue l).2.2 = some bits

/-- the bit pattern of `-0.0` -/
def negZero : UInt64 := 0x8000000000000000

mutual
/-- a document the marshaller can write as JSON: strings and keys are well-formed UTF-8, floats are finite -/
def Clean : JVal → Prop
  | .null => True
  | .bool _ => True
  | .int _ => True
  | .uint _ => True
  | .float bits _ => F64.isFinite bits = true
  | .str s => Escape.WFUtf8 s
  | .arr es => CleanVs es
  | .obj ms => CleanMs ms
def CleanVs : JVals → Prop
  | .nil => True
  | .cons v vs => Clean v ∧ CleanVs vs
def CleanMs : JMems → Prop
  | .nil => True
  | .cons k v ms => Escape.WFUtf8 k ∧ Clean v ∧ CleanMs ms
end

mutual
/-- no float is `-0.0` (which prints as `-0`, re-reads as the integer `0` and prints as `0`) -/
def NoNegZero : JVal → Prop
  | .null => True
  | .bool _ => True
  | .int _ => True
  | .uint _ => True
  | .float bits _ => bits ≠ negZero
  | .str _ => True
  | .arr es => NoNegZeroVs es
  | .obj ms => NoNegZeroMs ms
def NoNegZeroVs : JVals → Prop
  | .nil => True
  | .cons v vs => NoNegZero v ∧ NoNegZeroVs vs
def NoNegZeroMs : JMems → Prop
  | .nil => True
  | .cons _ v ms => NoNegZero v ∧ NoNegZeroMs ms
end

mutual
/-- every float leaf satisfies `ok` -/
def FloatsSat (ok : UInt64 → Prop) : JVal → Prop
  | .null => True
  | .bool _ => True
  | .int _ => True
  | .uint _ => True
  | .float bits _ => ok bits
  | .str _ => True
  | .arr es => FloatsSatVs ok es
  | .obj ms => FloatsSatMs ok ms
def FloatsSatVs (ok : UInt64 → Prop) : JVals → Prop
  | .nil => True
  | .cons v vs => FloatsSat ok v ∧ FloatsSatVs ok vs
def FloatsSatMs (ok : UInt64 → Prop) : JMems → Prop
  | .nil => True
  | .cons _ v ms => FloatsSat ok v ∧ FloatsSatMs ok ms
end

/-- no float leaf at all -/
abbrev NoFloats : JVal → Prop := FloatsSat (fun _ => False)

/-- "numerically equal": a number leaf of the tape-level document and a number of the specification.
    `.int w` holds `toInt64 w`; `.uint w` holds `w.toNat` (which the specification classifies as `.int` when it fits
    int64); `.float bits _` is equal to `n` when converting `n` to binary64 gives `bits` — with the one exception
    `-0.0 ~ 0` (numerically equal, but `float64(0)` is `+0.0`). -/
def NumSame : JVal → Spec.Num → Prop
  | .int w, n => n = .int (toInt64 w)
  | .uint w, n => n = (if w.toNat < 2^63 then .int w.toNat else .uint w.toNat)
  | .float bits _, .float b _ => b = bits
  | .float bits _, .int z => F64.roundDecimal (decide (z < 0)) z.natAbs 0 = some bits ∨ (z = 0 ∧ bits = negZero)
  | .float bits _, .uint u => F64.roundDecimal false u 0 = some bits
  | _, _ => False

mutual
/-- structural correspondence of a tape-level document and a specification value, number leaves related by `P` -/
def DocRel (P : JVal → Spec.Num → Prop) : JVal → Spec.JVal → Prop
  | .null, v' => v' = .null
  | .bool b, v' => v' = .bool b
  | .int w, v' => ∃ n, v' = .num n ∧ P (.int w) n
  | .uint w, v' => ∃ n, v' = .num n ∧ P (.uint w) n
  | .float b f, v' => ∃ n, v' = .num n ∧ P (.float b f) n
  | .str s, v' => v' = .str s
  | .arr es, v' => ∃ l, v' = .arr l ∧ ElemsRel P es l
  | .obj ms, v' => ∃ l, v' = .obj l ∧ MemsRel P ms l
def ElemsRel (P : JVal → Spec.Num → Prop) : JVals → List Spec.JVal → Prop
  | .nil, l => l = []
  | .cons v vs, l => ∃ v' l', l = v' :: l' ∧ DocRel P v v' ∧ ElemsRel P vs l'
def MemsRel (P : JVal → Spec.Num → Prop) : JMems → List (List UInt8 × Spec.JVal) → Prop
  | .nil, l => l = []
  | .cons k v ms, l => ∃ v' l', l = (k, v') :: l' ∧ DocRel P v v' ∧ MemsRel P ms l'
end

/-- **same document**: null/bool equal, strings and keys byte-equal, arrays elementwise in order, objects memberwise
    in order, numbers numerically equal -/
abbrev SameDoc : JVal → Spec.JVal → Prop := DocRel NumSame

mutual
theorem DocRel.mono {P Q : JVal → Spec.Num → Prop} (h : ∀ v n, P v n → Q v n) :
    ∀ (v : JVal) (v' : Spec.JVal), DocRel P v v' → DocRel Q v v'
  | .null, v', hr => by simpa only [DocRel] using hr
  | .bool b, v', hr => by simpa only [DocRel] using hr
  | .int w, v', hr => by
    simp only [DocRel] at hr ⊢
    obtain ⟨n, h1, h2⟩ := hr; exact ⟨n, h1, h _ _ h2⟩
  | .uint w, v', hr => by
    simp only [DocRel] at hr ⊢
    obtain ⟨n, h1, h2⟩ := hr; exact ⟨n, h1, h _ _ h2⟩
  | .float b f, v', hr => by
    simp only [DocRel] at hr ⊢
    obtain ⟨n, h1, h2⟩ := hr; exact ⟨n, h1, h _ _ h2⟩
  | .str s, v', hr => by simpa only [DocRel] using hr
  | .arr es, v', hr => by
    simp only [DocRel] at hr ⊢
    obtain ⟨l, h1, h2⟩ := hr; exact ⟨l, h1, ElemsRel.mono h es l h2⟩
  | .obj ms, v', hr => by
    simp only [DocRel] at hr ⊢
    obtain ⟨l, h1, h2⟩ := hr; exact ⟨l, h1, MemsRel.mono h ms l h2⟩
theorem ElemsRel.mono {P Q : JVal → Spec.Num → Prop} (h : ∀ v n, P v n → Q v n) :
    ∀ (vs : JVals) (l : List Spec.JVal), ElemsRel P vs l → ElemsRel Q vs l
  | .nil, l, hr => by simpa only [ElemsRel] using hr
  | .cons v vs, l, hr => by
    simp only [ElemsRel] at hr ⊢
    obtain ⟨v', l', h1, h2, h3⟩ := hr
    exact ⟨v', l', h1, DocRel.mono h v v' h2, ElemsRel.mono h vs l' h3⟩
theorem MemsRel.mono {P Q : JVal → Spec.Num → Prop} (h : ∀ v n, P v n → Q v n) :
    ∀ (ms : JMems) (l : List (List UInt8 × Spec.JVal)), MemsRel P ms l → MemsRel Q ms l
  | .nil, l, hr => by simpa only [MemsRel] using hr
  | .cons k v ms, l, hr => by
    simp only [MemsRel] at hr ⊢
    obtain ⟨v', l', h1, h2, h3⟩ := hr
    exact ⟨v', l', h1, DocRel.mono h v v' h2, MemsRel.mono h ms l' h3⟩
end

/-! ## 1. White space, delimiters -/

theorem skipWs_cons {c : UInt8} (h : Spec.isWs c = false) (r : List UInt8) : Spec.skipWs (c :: r) = c :: r := by
  simp [Spec.skipWs, h]

/-- what may follow a value inside the canonical text: nothing, `,`, `]` or `}` -/
def Delim (rest : List UInt8) : Prop := rest = [] ∨ ∃ c r, rest = c :: r ∧ (c = 44 ∨ c = 93 ∨ c = 125)

theorem delim_nil : Delim [] := Or.inl rfl
theorem delim_comma (r : List UInt8) : Delim (44 :: r) := Or.inr ⟨44, r, rfl, Or.inl rfl⟩
theorem delim_rbracket (r : List UInt8) : Delim (93 :: r) := Or.inr ⟨93, r, rfl, Or.inr (Or.inl rfl)⟩
theorem delim_rbrace (r : List UInt8) : Delim (125 :: r) := Or.inr ⟨125, r, rfl, Or.inr (Or.inr rfl)⟩

theorem Delim.skipWs {rest : List UInt8} (h : Delim rest) : Spec.skipWs rest = rest := by
  rcases h with rfl | ⟨c, r, rfl, hc⟩
  · rfl
  · apply skipWs_cons
    rcases hc with rfl | rfl | rfl <;> decide

theorem Delim.nocont {rest : List UInt8} (h : Delim rest) : NoCont rest := by
  intro c r' e
  rcases h with rfl | ⟨c', r, rfl, hc⟩
  · cases e
  · injection e with e1 _
    subst e1
    rcases hc with rfl | rfl | rfl <;> decide

/-! ## 2. The container productions of the specification, one step at a time -/

/-- what `Spec.elements` does after a value -/
def elemsCont (fuel : Nat) (acc : List Spec.JVal) (s : List UInt8) : Spec.Out Spec.JVal :=
  match Spec.skipWs s with
  | 0x2C :: r => Spec.elements fuel (Spec.skipWs r) acc false
  | 0x5D :: r => .acc (.arr acc.reverse) r
  | _ => .rej

/-- what `Spec.members` does after a member -/
def memsCont (fuel : Nat) (acc : List (List UInt8 × Spec.JVal)) (s : List UInt8) : Spec.Out Spec.JVal :=
  match Spec.skipWs s with
  | 0x2C :: r => Spec.members fuel (Spec.skipWs r) acc false
  | 0x7D :: r => .acc (.obj acc.reverse) r
  | _ => .rej

theorem value_arr (fuel : Nat) (r : List UInt8) :
    Spec.value (fuel + 1) (91 :: r) = Spec.elements fuel (Spec.skipWs r) [] true := by
  rw [Spec.value]
  have e1 : ((91 : UInt8) == 0x7B) = false := by decide
  have e2 : ((91 : UInt8) == 0x5B) = true := by decide
  simp only [e1, e2, if_true, if_false, Bool.false_eq_true]

theorem value_obj (fuel : Nat) (r : List UInt8) :
    Spec.value (fuel + 1) (123 :: r) = Spec.members fuel (Spec.skipWs r) [] true := by
  rw [Spec.value]
  have e1 : ((123 : UInt8) == 0x7B) = true := by decide
  simp only [e1, if_true]

theorem elements_close (fuel : Nat) (r : List UInt8) (acc : List Spec.JVal) :
    Spec.elements (fuel + 1) (93 :: r) acc true = .acc (.arr acc.reverse) r := by
  rw [Spec.elements]; rfl

theorem members_close (fuel : Nat) (r : List UInt8) (acc : List (List UInt8 × Spec.JVal)) :
    Spec.members (fuel + 1) (125 :: r) acc true = .acc (.obj acc.reverse) r := by
  rw [Spec.members]; rfl

theorem elements_step (fuel : Nat) (s : List UInt8) (acc : List Spec.JVal) (first : Bool)
    (h : ∀ r, s ≠ 93 :: r) :
    Spec.elements (fuel + 1) s acc first =
      match Spec.value fuel s with
      | .acc v rest => elemsCont fuel (v :: acc) rest
      | .rej => .rej
      | .out => .out := by
  rw [Spec.elements]
  · rfl
  · intro r hr; exact h r hr

theorem elemsCont_close (fuel : Nat) (acc : List Spec.JVal) (r : List UInt8) :
    elemsCont fuel acc (93 :: r) = .acc (.arr acc.reverse) r := by
  unfold elemsCont
  rw [skipWs_cons (by decide)]
  try rfl

theorem elemsCont_comma (fuel : Nat) (acc : List Spec.JVal) (r : List UInt8) :
    elemsCont fuel acc (44 :: r) = Spec.elements fuel (Spec.skipWs r) acc false := by
  unfold elemsCont
  rw [skipWs_cons (by decide)]
  try rfl

theorem memsCont_close (fuel : Nat) (acc : List (List UInt8 × Spec.JVal)) (r : List UInt8) :
    memsCont fuel acc (125 :: r) = .acc (.obj acc.reverse) r := by
  unfold memsCont
  rw [skipWs_cons (by decide)]
  try rfl

theorem memsCont_comma (fuel : Nat) (acc : List (List UInt8 × Spec.JVal)) (r : List UInt8) :
    memsCont fuel acc (44 :: r) = Spec.members fuel (Spec.skipWs r) acc false := by
  unfold memsCont
  rw [skipWs_cons (by decide)]
  try rfl

/-- one member `"key":value` of the canonical text -/
theorem members_member (fuel : Nat) (k : List UInt8) (hk : Escape.WFUtf8 k) (c : UInt8) (t : List UInt8)
    (hc : Spec.isWs c = false) (acc : List (List UInt8 × Spec.JVal)) (first : Bool) :
    Spec.members (fuel + 1) (34 :: ((k.map escapeByte).flatten ++ 34 :: 58 :: c :: t)) acc first =
      match Spec.value fuel (c :: t) with
      | .acc v rest => memsCont fuel ((k, v) :: acc) rest
      | .rej => .rej
      | .out => .out := by
  have hlen := Escape.esc_length_ge k
  have hs := Escape.stringBody_escape_utf8 k hk
    ((34 :: ((k.map escapeByte).flatten ++ 34 :: 58 :: c :: t)).length + 1)
    (by simp only [List.length_cons, List.length_append]; omega) (58 :: c :: t)
  rw [Spec.members]
  simp only [hs, skipWs_cons (show Spec.isWs 58 = false by decide), skipWs_cons hc]
  rfl

theorem ws_or_close : ∀ c : UInt8, (Spec.isWs c = true ∨ c = 93) →
    (c == 0x7B) = false ∧ (c == 0x5B) = false ∧ (c == 0x22) = false ∧ (c == 0x74) = false ∧ (c == 0x66) = false ∧
      (c == 0x6E) = false ∧ (c == 0x2D) = false ∧ Spec.isDigit c = false :=
  forall_u8 (by decide +kernel)

/-- an accepted value starts with a byte that is neither white space nor `]` -/
theorem value_acc_head {fuel : Nat} {s : List UInt8} {v : Spec.JVal} {r : List UInt8}
    (h : Spec.value fuel s = .acc v r) : ∃ c t, s = c :: t ∧ Spec.isWs c = false ∧ c ≠ 93 := by
  cases fuel with
  | zero => rw [Spec.value] at h; cases h
  | succ f =>
    cases s with
    | nil => rw [Spec.value] at h; cases h
    | cons c t =>
      refine ⟨c, t, rfl, ?_⟩
      by_cases hc : Spec.isWs c = true ∨ c = 93
      · exfalso
        obtain ⟨e1, e2, e3, e4, e5, e6, e7, e8⟩ := ws_or_close c hc
        rw [Spec.value] at h
        simp only [e1, e2, e3, e4, e5, e6, e7, e8, Bool.false_eq_true, if_false, or_self] at h
        cases h
      · constructor
        · cases hw : Spec.isWs c
          · rfl
          · exact absurd (Or.inl hw) hc
        · intro h93; exact hc (Or.inr h93)

/-! ## 3. The text as a list -/

theorem quoted_toList (k : List UInt8) :
    (Iter.quoted #[] k.toArray).toList = 34 :: ((k.map escapeByte).flatten ++ [34]) := by
  simp only [Iter.quoted, Array.toList_push, SJ.Escape.escapeBytes_eq]
  simp

theorem renderJ_arr_toList (es : JVals) :
    (renderJ (.arr es)).toList = 91 :: ((renderJElems es).toList ++ [93]) := by
  simp [renderJ]

theorem renderJ_obj_toList (ms : JMems) :
    (renderJ (.obj ms)).toList = 123 :: ((renderJMems ms).toList ++ [125]) := by
  simp [renderJ]

theorem renderJElems_cons_toList (v : JVal) (vs : JVals) :
    (renderJElems (.cons v vs)).toList = (renderJ v).toList ++ (renderJTail vs).toList := by
  simp [renderJElems]

theorem renderJTail_cons_toList (v : JVal) (vs : JVals) :
    (renderJTail (.cons v vs)).toList = 44 :: ((renderJ v).toList ++ (renderJTail vs).toList) := by
  simp [renderJTail]

theorem renderJMems_cons_toList (k : List UInt8) (v : JVal) (ms : JMems) :
    (renderJMems (.cons k v ms)).toList =
      34 :: ((k.map escapeByte).flatten ++ 34 :: 58 :: ((renderJ v).toList ++ (renderJMTail ms).toList)) := by
  simp [renderJMems, quoted_toList]

theorem renderJMTail_cons_toList (k : List UInt8) (v : JVal) (ms : JMems) :
    (renderJMTail (.cons k v ms)).toList =
      44 :: 34 :: ((k.map escapeByte).flatten ++ 34 :: 58 :: ((renderJ v).toList ++ (renderJMTail ms).toList)) := by
  simp [renderJMTail, quoted_toList]

theorem null_list : "null".toUTF8.data.toList = [110, 117, 108, 108] := by decide
theorem true_list : "true".toUTF8.data.toList = [116, 114, 117, 101] := by decide
theorem false_list : "false".toUTF8.data.toList = [102, 97, 108, 115, 101] := by decide
theorem null_bytes : "null".toUTF8.data = #[110, 117, 108, 108] := by decide
theorem true_bytes : "true".toUTF8.data = #[116, 114, 117, 101] := by decide
theorem false_bytes : "false".toUTF8.data = #[102, 97, 108, 115, 101] := by decide

/-! ## 4. Scalars other than numbers -/

theorem value_null (fuel : Nat) (rest : List UInt8) :
    Spec.value (fuel + 1) ((renderJ .null).toList ++ rest) = .acc .null rest := by
  simp only [renderJ, null_bytes]
  show Spec.value (fuel + 1) (110 :: 117 :: 108 :: 108 :: rest) = _
  rw [Spec.value]
  simp only [Spec.literal, null_list]
  simp

theorem value_bool (fuel : Nat) (b : Bool) (rest : List UInt8) :
    Spec.value (fuel + 1) ((renderJ (.bool b)).toList ++ rest) = .acc (.bool b) rest := by
  cases b
  · simp only [renderJ, false_bytes, Bool.false_eq_true, if_false]
    show Spec.value (fuel + 1) (102 :: 97 :: 108 :: 115 :: 101 :: rest) = _
    rw [Spec.value]
    simp only [Spec.literal, false_list]
    simp
  · simp only [renderJ, true_bytes, if_true]
    show Spec.value (fuel + 1) (116 :: 114 :: 117 :: 101 :: rest) = _
    rw [Spec.value]
    simp only [Spec.literal, true_list]
    simp

theorem value_str (fuel : Nat) (s : List UInt8) (hs : Escape.WFUtf8 s) (rest : List UInt8) :
    Spec.value (fuel + 1) ((renderJ (.str s)).toList ++ rest) = .acc (.str s) rest := by
  have := Escape.value_quoted s.toArray (by simpa using hs) fuel rest
  simpa [renderJ] using this

end SJ.RenderParse
