import SJ.Spec.Json
import SJ.Proofs.TrimEdge
import SJ.Proofs.Number
/-
Helper file of `SJ/Proofs/SpecTrim.lean` (white space at the two ends of a text and `Spec.containerText`):
white space and `skipWs`, the relation `Same b` between outcomes (`acc v r` against `acc v (r ++ b)`), and the
scalar productions (`numberLit`, `literal`) on a text followed by white space.
-/
namespace SJ.SpecTrim
open SJ SJ.Spec SJ.NumberProofs

/-! ## 0. bytes, white space -/

theorem forall_u8 {P : UInt8 → Prop} (h : ∀ n : Fin 256, P (UInt8.ofNat n.val)) (b : UInt8) : P b := by
  have := h ⟨b.toNat, b.toNat_lt⟩
  simpa using this

/-- everything the recursive descent ever asks about a byte is answered "no" by a white-space byte,
    except: `0x20` is an ordinary string character, the others are control characters -/
theorem ws_facts : ∀ c : UInt8, isWs c = true →
    (c == 0x7B) = false ∧ (c == 0x5B) = false ∧ (c == 0x22) = false ∧ (c == 0x74) = false ∧ (c == 0x66) = false ∧
    (c == 0x6E) = false ∧ (c == 0x2D) = false ∧ Spec.isDigit c = false ∧ c ≠ 0x5D ∧ c ≠ 0x7D ∧ c ≠ 0x2C ∧ c ≠ 0x3A ∧
    c ≠ 0x2E ∧ c ≠ 0x2B ∧ c ≠ 0x2D ∧ (c == 0x65) = false ∧ (c == 0x45) = false ∧ c ≠ 0x5C ∧ c ≠ 0x22 ∧
    hexVal c = none ∧ c < 0x80 ∧ (c = 0x20 ∨ c < 0x20) :=
  forall_u8 (by decide +kernel)

theorem ws_cases : ∀ c : UInt8, isWs c = true → c = 0x20 ∨ c = 0x09 ∨ c = 0x0A ∨ c = 0x0D :=
  forall_u8 (by decide +kernel)

/-- the text is empty or starts with white space -/
def WsHead (b : List UInt8) : Prop := ∀ c t, b = c :: t → isWs c = true

theorem wsHead_of_all {b : List UInt8} (hb : b.all isWs = true) : WsHead b := by
  intro c t h; subst h
  simp only [List.all_cons, Bool.and_eq_true] at hb
  exact hb.1

theorem skipWs_length : ∀ s : List UInt8, (skipWs s).length ≤ s.length
  | [] => by simp [skipWs]
  | c :: r => by
    rw [skipWs]
    split
    · have := skipWs_length r; simp only [List.length_cons]; omega
    · exact Nat.le_refl _

theorem skipWs_all : ∀ {b : List UInt8}, b.all isWs = true → skipWs b = []
  | [], _ => rfl
  | c :: r, h => by
    simp only [List.all_cons, Bool.and_eq_true] at h
    rw [skipWs, if_pos h.1]
    exact skipWs_all h.2

theorem all_of_skipWs_nil : ∀ {b : List UInt8}, skipWs b = [] → b.all isWs = true
  | [], _ => rfl
  | c :: r, h => by
    rw [skipWs] at h
    split at h
    · rename_i hc; simp only [List.all_cons, hc, Bool.true_and]; exact all_of_skipWs_nil h
    · cases h

theorem skipWs_head : ∀ (s : List UInt8) (c : UInt8) (r : List UInt8), skipWs s = c :: r → isWs c = false
  | [], _, _, h => by cases h
  | x :: s, c, r, h => by
    rw [skipWs] at h
    split at h
    · exact skipWs_head s c r h
    · rename_i hx; cases h; simpa using hx

/-- white space in front is skipped -/
theorem skipWs_pre : ∀ {a : List UInt8} (s : List UInt8), a.all isWs = true → skipWs (a ++ s) = skipWs s
  | [], _, _ => rfl
  | c :: a, s, h => by
    simp only [List.all_cons, Bool.and_eq_true] at h
    rw [List.cons_append, skipWs, if_pos h.1]
    exact skipWs_pre s h.2

/-- white space behind: nothing changes as long as something else comes first -/
theorem skipWs_app_cons : ∀ (s : List UInt8) (b : List UInt8) (c : UInt8) (r : List UInt8),
    skipWs s = c :: r → skipWs (s ++ b) = c :: (r ++ b)
  | [], _, _, _, h => by cases h
  | x :: s, b, c, r, h => by
    rw [skipWs] at h
    rw [List.cons_append, skipWs]
    split
    · rename_i hx; rw [if_pos hx] at h; exact skipWs_app_cons s b c r h
    · rename_i hx; rw [if_neg hx] at h; cases h; rfl

theorem skipWs_app_nil {s b : List UInt8} (hb : b.all isWs = true) (h : skipWs s = []) : skipWs (s ++ b) = [] := by
  apply skipWs_all
  rw [List.all_append, all_of_skipWs_nil h, hb]; rfl

/-! ## 1. outcomes up to a suffix -/

/-- the second outcome is the first one with `b` appended to the rest -/
def Same {α : Type} (b : List UInt8) : Out α → Out α → Prop
  | .acc v r, .acc v' r' => v = v' ∧ r' = r ++ b
  | .rej, .rej => True
  | .out, .out => True
  | _, _ => False

theorem same_rej {α : Type} (b : List UInt8) : Same b (Out.rej : Out α) .rej := trivial
theorem same_out {α : Type} (b : List UInt8) : Same b (Out.out : Out α) .out := trivial
theorem same_acc {α : Type} (b : List UInt8) (v : α) (r : List UInt8) : Same b (Out.acc v r) (.acc v (r ++ b)) := ⟨rfl, rfl⟩

theorem same_of_eq {α : Type} {b : List UInt8} {x y z : Out α} (h : Same b x y) (e : y = z) : Same b x z := e ▸ h

/-! ## 2. the scalar productions -/

theorem tw_app {T : List UInt8} (hT : WsHead T) : ∀ s : List UInt8,
    (s ++ T).takeWhile SJ.isDigit = s.takeWhile SJ.isDigit ∧
    (s ++ T).dropWhile SJ.isDigit = s.dropWhile SJ.isDigit ++ T
  | [] => by
    cases T with
    | nil => simp
    | cons c t =>
      have hd : SJ.isDigit c = false := (ws_facts c (hT c t rfl)).2.2.2.2.2.2.2.1
      simp [List.takeWhile, List.dropWhile, hd]
  | c :: s => by
    have ih := tw_app hT s
    by_cases hc : SJ.isDigit c = true
    · simp [List.takeWhile, List.dropWhile, hc, ih.1, ih.2]
    · simp [List.takeWhile, List.dropWhile, hc]

theorem specFrac_app {T : List UInt8} (hT : WsHead T) (s : List UInt8) :
    specFrac (s ++ T) = ((specFrac s).1, (specFrac s).2.1 ++ T, (specFrac s).2.2) := by
  cases s with
  | nil =>
    cases T with
    | nil => rfl
    | cons c t =>
      have hc : c ≠ 0x2E := (ws_facts c (hT c t rfl)).2.2.2.2.2.2.2.2.2.2.2.2.1
      unfold specFrac
      simp only [List.nil_append]
      split
      · rename_i h; exact absurd (List.cons.inj h).1 hc
      · rfl
  | cons c r =>
    by_cases hc : c = 0x2E
    · subst hc
      simp only [List.cons_append, specFrac, (tw_app hT r).1, (tw_app hT r).2]
      split <;> simp
    · unfold specFrac
      simp only [List.cons_append]
      split
      · rename_i h; exact absurd (List.cons.inj h).1 hc
      · split
        · rename_i h; exact absurd (List.cons.inj h).1 hc
        · rfl

theorem pmSign_app {T : List UInt8} (hT : WsHead T) (r : List UInt8) :
    pmSign (r ++ T) = ((pmSign r).1, (pmSign r).2 ++ T) := by
  have key : ∀ (c : UInt8) (t : List UInt8), c ≠ 0x2B → c ≠ 0x2D → pmSign (c :: t) = (false, c :: t) := by
    intro c t h1 h2
    unfold pmSign
    split
    · rename_i h; exact absurd (List.cons.inj h).1 h1
    · rename_i h; exact absurd (List.cons.inj h).1 h2
    · rfl
  cases r with
  | nil =>
    cases T with
    | nil => rfl
    | cons c t =>
      have hw := ws_facts c (hT c t rfl)
      rw [List.nil_append, key c t hw.2.2.2.2.2.2.2.2.2.2.2.2.2.1 hw.2.2.2.2.2.2.2.2.2.2.2.2.2.2.1]
      rfl
  | cons c r =>
    by_cases h1 : c = 0x2B
    · subst h1; rfl
    · by_cases h2 : c = 0x2D
      · subst h2; rfl
      · rw [List.cons_append, key c _ h1 h2, key c _ h1 h2]; rfl

theorem specExp_app {T : List UInt8} (hT : WsHead T) (s : List UInt8) :
    specExp (s ++ T) = ((specExp s).1, (specExp s).2.1 ++ T, (specExp s).2.2) := by
  cases s with
  | nil =>
    cases T with
    | nil => rfl
    | cons c t =>
      have hw := ws_facts c (hT c t rfl)
      simp only [List.nil_append, specExp, hw.2.2.2.2.2.2.2.2.2.2.2.2.2.2.2.1, hw.2.2.2.2.2.2.2.2.2.2.2.2.2.2.2.2.1]
      simp
  | cons c r =>
    simp only [List.cons_append, specExp, pmSign_app hT r, (tw_app hT _).1, (tw_app hT _).2]
    split
    · split <;> simp
    · simp

theorem specBody_app {T : List UInt8} (hT : WsHead T) (neg : Bool) (s : List UInt8) :
    specBody neg (s ++ T) = (specBody neg s).map (fun lr => (lr.1, lr.2 ++ T)) := by
  unfold specBody
  simp only [(tw_app hT s).1, (tw_app hT s).2, specFrac_app hT, specExp_app hT]
  split
  · rfl
  · split
    · rfl
    · split
      · rfl
      · rfl

theorem specSign_app {T : List UInt8} (hT : WsHead T) (s : List UInt8) :
    specSign (s ++ T) = ((specSign s).1, (specSign s).2 ++ T) := by
  cases s with
  | nil =>
    cases T with
    | nil => rfl
    | cons c t =>
      have hw := ws_facts c (hT c t rfl)
      rw [List.nil_append, specSign_pos _ (fun r h => hw.2.2.2.2.2.2.2.2.2.2.2.2.2.2.1 (List.cons.inj h).1)]
      rfl
  | cons c r =>
    by_cases h2 : c = 0x2D
    · subst h2; rfl
    · rw [List.cons_append, specSign_pos _ (fun r h => h2 (List.cons.inj h).1),
        specSign_pos _ (fun r h => h2 (List.cons.inj h).1)]
      rfl

/-- a number is the same number when white space (or nothing) follows -/
theorem numberLit_app {T : List UInt8} (hT : WsHead T) (s : List UInt8) :
    Spec.numberLit (s ++ T) = (Spec.numberLit s).map (fun lr => (lr.1, lr.2 ++ T)) := by
  rw [numberLit_eq, numberLit_eq, specSign_app hT, specBody_app hT]

/-- a number has at least one byte -/
theorem numberLit_len {s : List UInt8} {l : NumLit} {r : List UInt8} (h : Spec.numberLit s = some (l, r)) :
    r.length < s.length := by
  obtain ⟨x, hx, hs, _⟩ := shape_of_spec h
  have := render_length x
  have hne : 0 < x.ip.length := List.length_pos_iff.mpr hx.ne
  rw [hs, List.length_append]
  omega

theorem isPrefixOf_app : ∀ (name s b : List UInt8), (∀ x ∈ name, isWs x = false) → WsHead b →
    name.isPrefixOf (s ++ b) = name.isPrefixOf s
  | [], _, _, _, _ => by simp
  | n :: ns, [], b, hn, hb => by
    cases b with
    | nil => rfl
    | cons x b' =>
      have hx := hb x b' rfl
      have : (n == x) = false := by
        apply beq_false_of_ne
        intro e; subst e
        rw [hn n (List.mem_cons_self)] at hx; cases hx
      simp [List.isPrefixOf, this]
  | n :: ns, c :: s, b, hn, hb => by
    simp only [List.cons_append, List.isPrefixOf]
    rw [isPrefixOf_app ns s b (fun x hx => hn x (List.mem_cons_of_mem _ hx)) hb]

theorem isPrefixOf_length : ∀ (name s : List UInt8), name.isPrefixOf s = true → name.length ≤ s.length
  | [], _, _ => by simp
  | n :: ns, [], h => by simp [List.isPrefixOf] at h
  | n :: ns, c :: s, h => by
    simp only [List.isPrefixOf, Bool.and_eq_true] at h
    have := isPrefixOf_length ns s h.2
    simp only [List.length_cons]; omega

theorem literal_app (name : List UInt8) (v : JVal) (s b : List UInt8) (hn : ∀ x ∈ name, isWs x = false)
    (hb : WsHead b) : Same b (literal name v s) (literal name v (s ++ b)) := by
  unfold literal
  rw [isPrefixOf_app name s b hn hb]
  split
  · rename_i h
    rw [List.drop_append_of_le_length (isPrefixOf_length name s h)]
    exact same_acc _ _ _
  · exact same_rej _

theorem literal_len {name : List UInt8} {v w : JVal} {s r : List UInt8} (hn : name ≠ [])
    (h : literal name v s = .acc w r) : r.length < s.length := by
  unfold literal at h
  split at h
  · rename_i hp
    cases h
    have := isPrefixOf_length name s hp
    have : 0 < name.length := List.length_pos_iff.mpr hn
    rw [List.length_drop]; omega
  · cases h

theorem true_list : "true".toUTF8.data.toList = [116, 114, 117, 101] := by decide
theorem false_list : "false".toUTF8.data.toList = [102, 97, 108, 115, 101] := by decide
theorem null_list : "null".toUTF8.data.toList = [110, 117, 108, 108] := by decide

end SJ.SpecTrim
