import SJ.Proofs.LexIface
import SJ.Proofs.Tables
set_option linter.unusedVariables false
set_option linter.unusedSimpArgs false
/-
One step of the stage-2 machine on each kind of token, stated on the three things the simulation tracks: the
state, the stack of return entries and the *size* of the tape (tape and string-buffer contents are not needed
for the acceptance theorem).  Plus two facts about arbitrary runs: a step pops at most one stack entry
(`stack_lower`) and the shape of the stack determines the kind of state (`Shape`).
-/
namespace SJ.MachineSim
open SJ SJ.ParseDefs SJ.Generated SJ.Layout SJ.Tables

/-! ## stack entries -/

/-- the entry pushed when the tape has `n` words, with return code `r` -/
def ent (n r : Nat) : UInt64 := (UInt64.ofNat n <<< UInt64.ofNat cretAddressShift) ||| UInt64.ofNat r

theorem ent_toNat {n r : Nat} (hn : n < 2^62) (hr : r < 4) : (ent n r).toNat = n * 4 + r := by
  unfold ent
  rw [UInt64.toNat_or, UInt64.toNat_shiftLeft]
  have h1 : (UInt64.ofNat n).toNat = n := by rw [UInt64.toNat_ofNat']; exact Nat.mod_eq_of_lt (by omega)
  have h2 : (UInt64.ofNat r).toNat = r := by rw [UInt64.toNat_ofNat']; exact Nat.mod_eq_of_lt (by omega)
  have h3 : (UInt64.ofNat cretAddressShift).toNat % 64 = 2 := by decide
  rw [h1, h2, h3]
  rw [Nat.shiftLeft_eq, Nat.mod_eq_of_lt (by omega)]
  have := Nat.shiftLeft_add_eq_or_of_lt (i := 2) (b := r) (by omega) n
  rw [Nat.shiftLeft_eq] at this
  omega

/-- tape position recorded in an entry -/
def locOf (x : UInt64) : Nat := (x >>> UInt64.ofNat cretAddressShift).toNat
/-- return code recorded in an entry -/
def retOf (x : UInt64) : Nat := (x &&& 3).toNat

theorem ent_loc {n r : Nat} (hn : n < 2^62) (hr : r < 4) : locOf (ent n r) = n := by
  unfold locOf
  rw [UInt64.toNat_shiftRight, ent_toNat hn hr]
  have h3 : (UInt64.ofNat cretAddressShift).toNat % 64 = 2 := by decide
  rw [h3, Nat.shiftRight_eq_div_pow]
  omega

theorem ent_ret {n r : Nat} (hn : n < 2^62) (hr : r < 4) : retOf (ent n r) = r := by
  unfold retOf
  rw [UInt64.toNat_and, ent_toNat hn hr]
  have : (3 : UInt64).toNat = 2^2 - 1 := by decide
  rw [this, Nat.and_two_pow_sub_one_eq_mod]
  omega

theorem ent_ret' (n r : Nat) (hr : r < 4) : retOf (ent n r) = r := by
  unfold retOf ent
  rw [UInt64.toNat_and, UInt64.toNat_or, UInt64.toNat_shiftLeft]
  have h2 : (UInt64.ofNat r).toNat = r := by rw [UInt64.toNat_ofNat']; exact Nat.mod_eq_of_lt (by omega)
  have h3 : (UInt64.ofNat cretAddressShift).toNat % 64 = 2 := by decide
  have h4 : (3 : UInt64).toNat = 2^2 - 1 := by decide
  rw [h2, h3, h4, Nat.and_two_pow_sub_one_eq_mod, Nat.shiftLeft_eq]
  generalize (UInt64.ofNat n).toNat = k
  have h5 : (k * 2^2 % 2^64) % 2^2 = 0 := by omega
  have : (k * 2 ^ 2 % 2 ^ 64 ||| r) % 2 ^ 2 = r := by
    rw [Nat.or_mod_two_pow, h5, Nat.zero_or]
    exact Nat.mod_eq_of_lt hr
  exact this

/-- the state `scopeEnd` returns to -/
def retSt (x : UInt64) : St :=
  if retOf x == cretAddressArrayConst then .arrContinue
  else if retOf x == cretAddressObjectConst then .objContinue else .startContinue

/-- every recorded position is on the tape (so `annotate` in `scopeEnd`/`finish` succeeds) -/
def StkOK (m : M) : Prop := ∀ x ∈ m.stack, locOf x < m.tape.size

theorem push_eq (m : M) (r : Nat) : m.push r = { m with stack := ent m.tape.size r :: m.stack } := rfl

/-! ## steps -/

theorem scopeEnd_ok (m : M) (c : UInt8) (x : UInt64) (rest : List UInt64) (hs : m.stack = x :: rest)
    (hx : locOf x < m.tape.size) :
    ∃ m', m.scopeEnd c = some m' ∧ m'.stack = rest ∧ m'.tape.size = m.tape.size + 1 ∧ m'.st = retSt x := by
  unfold M.scopeEnd
  rw [hs]
  simp only
  have hlt : (x >>> UInt64.ofNat cretAddressShift).toNat < (({ m with stack := rest } : M).writeTape (x >>> UInt64.ofNat cretAddressShift) c).tape.size := by
    simp only [M.writeTape, Array.size_push]
    unfold locOf at hx; omega
  simp only [M.annotate, dif_pos hlt]
  refine ⟨_, rfl, rfl, ?_, rfl⟩
  simp [M.writeTape]

theorem runMG_cons_some {cfg : Cfg} {buf : Bytes} {m m' : M} (g : Ghost) {idx pk : Nat} (r : List (Nat × Nat))
    (h : m.step cfg buf idx pk = some m') :
    runMG cfg buf m g ((idx, pk) :: r) = runMG cfg buf m' (gstep m g buf idx pk) r := by
  simp only [runMG, h]

theorem runMG_cons_none {cfg : Cfg} {buf : Bytes} {m : M} (g : Ghost) {idx pk : Nat} (r : List (Nat × Nat))
    (h : m.step cfg buf idx pk = none) : runMG cfg buf m g ((idx, pk) :: r) = none := by
  simp only [runMG, h]

theorem parseString_ok (m : M) (cfg : Cfg) (buf : Bytes) (p pk : Nat) (dec : Bytes) (cl : Nat)
    (h : decodeString buf (p + 1) pk = some (dec, cl)) :
    ∃ m', m.parseString cfg buf p pk = some m' ∧ m'.st = m.st ∧ m'.stack = m.stack ∧
      m'.tape.size = m.tape.size + 2 := by
  unfold M.parseString
  rw [h]
  simp only
  split
  · exact ⟨_, rfl, rfl, rfl, by simp [M.writeTape]⟩
  · exact ⟨_, rfl, rfl, rfl, by simp [M.writeTape]⟩

theorem parseString_none (m : M) (cfg : Cfg) (buf : Bytes) (p pk : Nat)
    (h : decodeString buf (p + 1) pk = none) : m.parseString cfg buf p pk = none := by
  unfold M.parseString
  rw [h]

/-- value-expecting states (`arrBegin` only when the byte is not the closing bracket) -/
def IsValSt (s : St) (c : UInt8) : Prop := s = .objValue ∨ s = .arrValue ∨ (s = .arrBegin ∧ c ≠ 93)
def contSt : St → St
  | .objValue => .objContinue
  | _ => .arrContinue
def retCode : St → Nat
  | .objValue => cretAddressObjectConst
  | _ => cretAddressArrayConst

theorem step_value (m : M) (cfg : Cfg) (buf : Bytes) (p pk : Nat) (h : IsValSt m.st (buf.getD p 0)) :
    m.step cfg buf p pk =
      match m.value cfg buf p pk (retCode m.st) with
      | none => none
      | some (m', none) => some { m' with st := contSt m.st }
      | some (m', some s) => some { m' with st := s } := by
  rcases h with h | h | ⟨h, hc⟩
  · simp only [M.step, h, retCode, contSt]; rfl
  · simp only [M.step, h, retCode, contSt]; rfl
  · have : (buf.getD p 0 == 93) = false := by simpa using hc
    simp only [M.step, h, retCode, contSt, this, Bool.false_eq_true, if_false]; rfl

theorem gstep_value (m : M) (g : Ghost) (buf : Bytes) (p pk : Nat) (h : IsValSt m.st (buf.getD p 0)) :
    gstep m g buf p pk = gvalue m g buf p pk := by
  rcases h with h | h | ⟨h, hc⟩
  · simp only [gstep, h]
  · simp only [gstep, h]
  · have : (buf.getD p 0 == 93) = false := by simpa using hc
    simp only [gstep, h, this, Bool.false_eq_true, if_false]

theorem step_val_some {m m1 : M} {cfg : Cfg} {buf : Bytes} {p pk : Nat} (h : IsValSt m.st (buf.getD p 0))
    (hv : m.value cfg buf p pk (retCode m.st) = some (m1, none)) :
    m.step cfg buf p pk = some { m1 with st := contSt m.st } := by
  rw [step_value m cfg buf p pk h, hv]

theorem step_val_open {m m1 : M} {cfg : Cfg} {buf : Bytes} {p pk : Nat} {s : St} (h : IsValSt m.st (buf.getD p 0))
    (hv : m.value cfg buf p pk (retCode m.st) = some (m1, some s)) :
    m.step cfg buf p pk = some { m1 with st := s } := by
  rw [step_value m cfg buf p pk h, hv]

theorem step_val_none {m : M} {cfg : Cfg} {buf : Bytes} {p pk : Nat} (h : IsValSt m.st (buf.getD p 0))
    (hv : m.value cfg buf p pk (retCode m.st) = none) : m.step cfg buf p pk = none := by
  rw [step_value m cfg buf p pk h, hv]

/-! ### `M.value` by first byte -/

theorem value_str (m : M) (cfg : Cfg) (buf : Bytes) (p pk r : Nat) (hc : buf.getD p 0 = 34) :
    m.value cfg buf p pk r = (m.parseString cfg buf p pk).map (·, none) := by
  simp [M.value, hc]

theorem value_true (m : M) (cfg : Cfg) (buf : Bytes) (p pk r : Nat) (hc : buf.getD p 0 = 116) :
    m.value cfg buf p pk r = if isValidTrueAtom buf p then some (m.writeTape 0 116, none) else none := by
  simp [M.value, hc]

theorem value_false (m : M) (cfg : Cfg) (buf : Bytes) (p pk r : Nat) (hc : buf.getD p 0 = 102) :
    m.value cfg buf p pk r = if isValidFalseAtom buf p then some (m.writeTape 0 102, none) else none := by
  simp [M.value, hc]

theorem value_null (m : M) (cfg : Cfg) (buf : Bytes) (p pk r : Nat) (hc : buf.getD p 0 = 110) :
    m.value cfg buf p pk r = if isValidNullAtom buf p then some (m.writeTape 0 110, none) else none := by
  simp [M.value, hc]

theorem value_num (m : M) (cfg : Cfg) (buf : Bytes) (p pk r : Nat)
    (hc : buf.getD p 0 = 45 ∨ SJ.isDigit (buf.getD p 0) = true) :
    m.value cfg buf p pk r =
      match parseNumber buf p with
      | some (tg, v) => some ({ m with tape := (m.tape.push tg).push v }, none)
      | none => none := by
  have h34 : (buf.getD p 0 == 34) = false := by
    rcases hc with h | h
    · rw [h]; decide
    · revert h; generalize buf.getD p 0 = c; revert c; exact forall_u8 (by decide +kernel)
  have h116 : (buf.getD p 0 == 116) = false := by
    rcases hc with h | h
    · rw [h]; decide
    · revert h; generalize buf.getD p 0 = c; revert c; exact forall_u8 (by decide +kernel)
  have h102 : (buf.getD p 0 == 102) = false := by
    rcases hc with h | h
    · rw [h]; decide
    · revert h; generalize buf.getD p 0 = c; revert c; exact forall_u8 (by decide +kernel)
  have h110 : (buf.getD p 0 == 110) = false := by
    rcases hc with h | h
    · rw [h]; decide
    · revert h; generalize buf.getD p 0 = c; revert c; exact forall_u8 (by decide +kernel)
  have hd : (buf.getD p 0 == 45) = true ∨ (48 ≤ buf.getD p 0 ∧ buf.getD p 0 ≤ 57) := by
    rcases hc with h | h
    · left; rw [h]; decide
    · right; simpa [SJ.isDigit] using h
  simp only [M.value, h34, h116, h102, h110, Bool.false_eq_true, if_false, if_pos hd]
  rfl

theorem value_obj (m : M) (cfg : Cfg) (buf : Bytes) (p pk r : Nat) (hc : buf.getD p 0 = 123) :
    m.value cfg buf p pk r = some ((m.push r).writeTape 0 123, some .objBegin) := by
  simp [M.value, hc]

theorem value_arr (m : M) (cfg : Cfg) (buf : Bytes) (p pk r : Nat) (hc : buf.getD p 0 = 91) :
    m.value cfg buf p pk r = some ((m.push r).writeTape 0 91, some .arrBegin) := by
  simp [M.value, hc]

/-- bytes that cannot start a value -/
theorem value_bad (m : M) (cfg : Cfg) (buf : Bytes) (p pk r : Nat)
    (hc : ¬ (buf.getD p 0 = 34 ∨ buf.getD p 0 = 116 ∨ buf.getD p 0 = 102 ∨ buf.getD p 0 = 110 ∨ buf.getD p 0 = 45 ∨
        SJ.isDigit (buf.getD p 0) = true ∨ buf.getD p 0 = 123 ∨ buf.getD p 0 = 91)) :
    m.value cfg buf p pk r = none := by
  simp only [not_or] at hc
  obtain ⟨h1, h2, h3, h4, h5, h6, h7, h8⟩ := hc
  have hd : ¬ ((buf.getD p 0 == 45) = true ∨ (48 ≤ buf.getD p 0 ∧ buf.getD p 0 ≤ 57)) := by
    intro h
    rcases h with h | h
    · exact h5 (by simpa using h)
    · exact h6 (by simpa [SJ.isDigit] using h)
  have e1 : (buf.getD p 0 == 34) = false := by simpa using h1
  have e2 : (buf.getD p 0 == 116) = false := by simpa using h2
  have e3 : (buf.getD p 0 == 102) = false := by simpa using h3
  have e4 : (buf.getD p 0 == 110) = false := by simpa using h4
  have e7 : (buf.getD p 0 == 123) = false := by simpa using h7
  have e8 : (buf.getD p 0 == 91) = false := by simpa using h8
  simp only [M.value, e1, e2, e3, e4, e7, e8, if_neg hd, Bool.false_eq_true, if_false]

/-! ### the other states -/

section
variable {m : M} {cfg : Cfg} {buf : Bytes} {p pk : Nat}

theorem step_key (hst : m.st = .objBegin ∨ m.st = .objKeyAfterComma) (hc : buf.getD p 0 = 34) :
    m.step cfg buf p pk = (m.parseString cfg buf p pk).map ({ · with st := .objKeyColon }) := by
  rcases hst with h | h <;> simp [M.step, h, hc]

theorem gstep_key (g : Ghost) (hst : m.st = .objBegin ∨ m.st = .objKeyAfterComma) (hc : buf.getD p 0 = 34) :
    gstep m g buf p pk = gkey m g buf p pk := by
  rcases hst with h | h <;> simp [gstep, h, hc]

theorem step_colon (hst : m.st = .objKeyColon) (hc : buf.getD p 0 = 58) :
    m.step cfg buf p pk = some { m with st := .objValue } := by
  simp [M.step, hst, hc]

theorem gstep_colon (g : Ghost) (hst : m.st = .objKeyColon) : gstep m g buf p pk = g := by
  simp [gstep, hst]

theorem step_comma_obj (hst : m.st = .objContinue) (hc : buf.getD p 0 = 44) :
    m.step cfg buf p pk = some { m with st := .objKeyAfterComma } := by
  simp [M.step, hst, hc]

theorem step_comma_arr (hst : m.st = .arrContinue) (hc : buf.getD p 0 = 44) :
    m.step cfg buf p pk = some { m with st := .arrValue } := by
  simp [M.step, hst, hc]

theorem gstep_comma (g : Ghost) (hst : m.st = .objContinue ∨ m.st = .arrContinue) (hc : buf.getD p 0 = 44) :
    gstep m g buf p pk = g := by
  rcases hst with h | h <;> simp [gstep, h, hc]

theorem step_close_obj (hst : m.st = .objBegin ∨ m.st = .objContinue) (hc : buf.getD p 0 = 125) :
    m.step cfg buf p pk = m.scopeEnd 125 := by
  rcases hst with h | h <;> simp [M.step, h, hc]

theorem step_close_arr (hst : m.st = .arrBegin ∨ m.st = .arrContinue) (hc : buf.getD p 0 = 93) :
    m.step cfg buf p pk = m.scopeEnd 93 := by
  rcases hst with h | h <;> simp [M.step, h, hc]

theorem gstep_close_obj (g : Ghost) (hst : m.st = .objBegin ∨ m.st = .objContinue) (hc : buf.getD p 0 = 125) :
    gstep m g buf p pk = g.close m.tape.size := by
  rcases hst with h | h <;> simp [gstep, h, hc]

theorem gstep_close_arr (g : Ghost) (hst : m.st = .arrBegin ∨ m.st = .arrContinue) (hc : buf.getD p 0 = 93) :
    gstep m g buf p pk = g.close m.tape.size := by
  rcases hst with h | h <;> simp [gstep, h, hc]

theorem step_root (hst : m.st = .rootStart) : m.step cfg buf p pk = m.rootDispatch (buf.getD p 0) := by
  simp [M.step, hst]

theorem gstep_root (g : Ghost) (hst : m.st = .rootStart) : gstep m g buf p pk = groot m g (buf.getD p 0) := by
  simp [gstep, hst]

theorem step_sc (hst : m.st = .startContinue) (hc : buf.getD p 0 = 10) :
    m.step cfg buf p pk = some { m with st := .ndSkip } := by
  simp [M.step, hst, hc]

theorem gstep_sc (g : Ghost) (hst : m.st = .startContinue) : gstep m g buf p pk = g := by
  simp [gstep, hst]

theorem step_nd_nl (hst : m.st = .ndSkip) (hc : buf.getD p 0 = 10) : m.step cfg buf p pk = some m := by
  simp [M.step, hst, hc]

theorem gstep_nd_nl (g : Ghost) (hst : m.st = .ndSkip) (hc : buf.getD p 0 = 10) : gstep m g buf p pk = g := by
  simp [gstep, hst, hc]

theorem step_nd_open (hst : m.st = .ndSkip) (hc : buf.getD p 0 ≠ 10) :
    m.step cfg buf p pk = match m.reopenRoot with
      | none => none
      | some m' => m'.rootDispatch (buf.getD p 0) := by
  have : (buf.getD p 0 == 10) = false := by simpa using hc
  simp only [M.step, hst, this, Bool.false_eq_true, if_false]
  rfl

theorem gstep_nd_open (g : Ghost) (hst : m.st = .ndSkip) (hc : buf.getD p 0 ≠ 10) :
    gstep m g buf p pk =
      groot { m with tape := (m.tape.push 0).push 0 } (g.nextRoot (m.tape.size + 1)) (buf.getD p 0) := by
  have : (buf.getD p 0 == 10) = false := by simpa using hc
  simp only [gstep, hst, this, Bool.false_eq_true, if_false]

/-! ### failing steps -/

theorem fail_objBegin (hst : m.st = .objBegin) (h1 : buf.getD p 0 ≠ 34) (h2 : buf.getD p 0 ≠ 125) :
    m.step cfg buf p pk = none := by
  have e1 : (buf.getD p 0 == 34) = false := by simpa using h1
  have e2 : (buf.getD p 0 == 125) = false := by simpa using h2
  simp only [M.step, hst, e1, e2, Bool.false_eq_true, if_false]

theorem fail_keyAfterComma (hst : m.st = .objKeyAfterComma) (h1 : buf.getD p 0 ≠ 34) :
    m.step cfg buf p pk = none := by
  have e1 : (buf.getD p 0 == 34) = false := by simpa using h1
  simp only [M.step, hst, e1, Bool.false_eq_true, if_false]

theorem fail_colon (hst : m.st = .objKeyColon) (h1 : buf.getD p 0 ≠ 58) : m.step cfg buf p pk = none := by
  have e1 : (buf.getD p 0 == 58) = false := by simpa using h1
  simp only [M.step, hst, e1, Bool.false_eq_true, if_false]

theorem fail_objCont (hst : m.st = .objContinue) (h1 : buf.getD p 0 ≠ 44) (h2 : buf.getD p 0 ≠ 125) :
    m.step cfg buf p pk = none := by
  have e1 : (buf.getD p 0 == 44) = false := by simpa using h1
  have e2 : (buf.getD p 0 == 125) = false := by simpa using h2
  simp only [M.step, hst, e1, e2, Bool.false_eq_true, if_false]

theorem fail_arrCont (hst : m.st = .arrContinue) (h1 : buf.getD p 0 ≠ 44) (h2 : buf.getD p 0 ≠ 93) :
    m.step cfg buf p pk = none := by
  have e1 : (buf.getD p 0 == 44) = false := by simpa using h1
  have e2 : (buf.getD p 0 == 93) = false := by simpa using h2
  simp only [M.step, hst, e1, e2, Bool.false_eq_true, if_false]

theorem fail_sc (hst : m.st = .startContinue) (h1 : buf.getD p 0 ≠ 10) : m.step cfg buf p pk = none := by
  have e1 : (buf.getD p 0 == 10) = false := by simpa using h1
  simp only [M.step, hst, e1, Bool.false_eq_true, if_false]

theorem rootDispatch_none (c : UInt8) (h1 : c ≠ 123) (h2 : c ≠ 91) : m.rootDispatch c = none := by
  have e1 : (c == 123) = false := by simpa using h1
  have e2 : (c == 91) = false := by simpa using h2
  simp only [M.rootDispatch, e1, e2, Bool.false_eq_true, if_false]

/-- states inside a container -/
def InCont (s : St) : Prop := s ≠ .rootStart ∧ s ≠ .startContinue ∧ s ≠ .ndSkip

instance : DecidablePred InCont := fun s => inferInstanceAs (Decidable (_ ∧ _ ∧ _))

theorem ic_objBegin : InCont .objBegin := by decide
theorem ic_objKeyColon : InCont .objKeyColon := by decide
theorem ic_objValue : InCont .objValue := by decide
theorem ic_objContinue : InCont .objContinue := by decide
theorem ic_objKeyAfterComma : InCont .objKeyAfterComma := by decide
theorem ic_arrBegin : InCont .arrBegin := by decide
theorem ic_arrValue : InCont .arrValue := by decide
theorem ic_arrContinue : InCont .arrContinue := by decide

/-- close an `InCont _` goal whose state is a literal constructor (possibly behind a structure projection) -/
macro "icd" : tactic => `(tactic| first
  | exact ic_objBegin | exact ic_objKeyColon | exact ic_objValue | exact ic_objContinue
  | exact ic_objKeyAfterComma | exact ic_arrBegin | exact ic_arrValue | exact ic_arrContinue)

/-- a line feed index (ND mode) fails in every container state -/
theorem fail_nl (hst : InCont m.st) (hc : buf.getD p 0 = 10) : m.step cfg buf p pk = none := by
  obtain ⟨h1, h2, h3⟩ := hst
  cases hs : m.st with
  | rootStart => exact absurd hs h1
  | startContinue => exact absurd hs h2
  | ndSkip => exact absurd hs h3
  | objBegin => exact fail_objBegin hs (by rw [hc]; decide) (by rw [hc]; decide)
  | objKeyColon => exact fail_colon hs (by rw [hc]; decide)
  | objContinue => exact fail_objCont hs (by rw [hc]; decide) (by rw [hc]; decide)
  | objKeyAfterComma => exact fail_keyAfterComma hs (by rw [hc]; decide)
  | arrContinue => exact fail_arrCont hs (by rw [hc]; decide) (by rw [hc]; decide)
  | objValue =>
    exact step_val_none (Or.inl hs) (value_bad _ _ _ _ _ _ (by rw [hc]; decide))
  | arrValue =>
    exact step_val_none (Or.inr (Or.inl hs)) (value_bad _ _ _ _ _ _ (by rw [hc]; decide))
  | arrBegin =>
    exact step_val_none (Or.inr (Or.inr ⟨hs, by rw [hc]; decide⟩)) (value_bad _ _ _ _ _ _ (by rw [hc]; decide))

/-! ### inversion: what a successful step can have done -/

theorem parseString_inv {m' : M} (h : m.parseString cfg buf p pk = some m') :
    m'.stack = m.stack ∧ m'.st = m.st ∧ m'.tape.size = m.tape.size + 2 := by
  unfold M.parseString at h
  split at h
  · cases h
  · simp only at h
    split at h
    · cases h; exact ⟨rfl, rfl, by simp [M.writeTape]⟩
    · cases h; exact ⟨rfl, rfl, by simp [M.writeTape]⟩

theorem value_inv {m' : M} {o : Option St} {r : Nat} (h : m.value cfg buf p pk r = some (m', o)) :
    m'.st = m.st ∧ m.tape.size ≤ m'.tape.size ∧ m'.tape.size ≤ m.tape.size + 2 ∧
    ((o = none ∧ m'.stack = m.stack) ∨
     ((o = some .objBegin ∨ o = some .arrBegin) ∧ m'.stack = ent m.tape.size r :: m.stack ∧
        m'.tape.size = m.tape.size + 1)) := by
  unfold M.value at h
  simp only at h
  split at h
  · cases hp : m.parseString cfg buf p pk with
    | none => rw [hp] at h; cases h
    | some m1 =>
      rw [hp] at h
      simp only [Option.map_some, Option.some.injEq, Prod.mk.injEq] at h
      obtain ⟨rfl, rfl⟩ := h
      obtain ⟨h1, h2, h3⟩ := parseString_inv hp
      exact ⟨h2, by omega, by omega, Or.inl ⟨rfl, h1⟩⟩
  · split at h
    · split at h
      · cases h; exact ⟨rfl, by simp [M.writeTape], by simp [M.writeTape], Or.inl ⟨rfl, rfl⟩⟩
      · cases h
    · split at h
      · split at h
        · cases h; exact ⟨rfl, by simp [M.writeTape], by simp [M.writeTape], Or.inl ⟨rfl, rfl⟩⟩
        · cases h
      · split at h
        · split at h
          · cases h; exact ⟨rfl, by simp [M.writeTape], by simp [M.writeTape], Or.inl ⟨rfl, rfl⟩⟩
          · cases h
        · split at h
          · split at h
            · cases h; exact ⟨rfl, by simp; omega, by simp, Or.inl ⟨rfl, rfl⟩⟩
            · cases h
          · split at h
            · cases h; exact ⟨rfl, by simp [M.writeTape, M.push], by simp [M.writeTape, M.push], Or.inr ⟨Or.inl rfl, rfl, by simp [M.writeTape, M.push]⟩⟩
            · split at h
              · cases h; exact ⟨rfl, by simp [M.writeTape, M.push], by simp [M.writeTape, M.push], Or.inr ⟨Or.inr rfl, rfl, by simp [M.writeTape, M.push]⟩⟩
              · cases h

theorem scopeEnd_inv {m' : M} {c : UInt8} (h : m.scopeEnd c = some m') :
    ∃ x, m.stack = x :: m'.stack ∧ m'.st = retSt x ∧ m'.tape.size = m.tape.size + 1 := by
  unfold M.scopeEnd at h
  split at h
  · cases h
  · rename_i x rest hs
    simp only at h
    split at h
    · cases h
    · rename_i m2 hm2
      cases h
      unfold M.annotate at hm2
      split at hm2
      · cases hm2
        exact ⟨x, hs, rfl, by simp [M.writeTape]⟩
      · cases hm2

theorem rootDispatch_inv {m' : M} {c : UInt8} (h : m.rootDispatch c = some m') :
    m'.stack = ent m.tape.size cretAddressStartConst :: m.stack ∧ (m'.st = .objBegin ∨ m'.st = .arrBegin) ∧
      m'.tape.size = m.tape.size + 1 := by
  unfold M.rootDispatch at h
  split at h
  · cases h; exact ⟨rfl, Or.inl rfl, by simp [M.writeTape, M.push]⟩
  · split at h
    · cases h; exact ⟨rfl, Or.inr rfl, by simp [M.writeTape, M.push]⟩
    · cases h

theorem reopenRoot_inv {m' : M} (h : m.reopenRoot = some m') :
    ∃ x rest, m.stack = x :: rest ∧ m'.stack = ent (m.tape.size + 1) cretAddressStartConst :: rest ∧ m'.st = m.st ∧
      m'.tape.size = m.tape.size + 2 ∧ locOf x < m.tape.size := by
  unfold M.reopenRoot at h
  split at h
  · cases h
  · rename_i x rest hs
    simp only at h
    split at h
    · cases h
    · rename_i m2 hm2
      cases h
      unfold M.annotate at hm2
      split at hm2
      · rename_i hlt
        cases hm2
        refine ⟨x, rest, hs, ?_, rfl, by simp [M.writeTape, M.push], hlt⟩
        show ent _ _ :: rest = _
        congr 2
        simp [M.writeTape]
      · cases hm2

/-- what a successful step did to the state and the stack -/
inductive StepKind (m m' : M) : Prop
  | keep (h1 : InCont m.st) (h2 : InCont m'.st) (hs : m'.stack = m.stack)
  | opn (h1 : InCont m.st) (h2 : InCont m'.st) (r : Nat)
      (hr : r = cretAddressObjectConst ∨ r = cretAddressArrayConst) (hs : m'.stack = ent m.tape.size r :: m.stack)
      (ht : m'.tape.size = m.tape.size + 1)
  | cls (h1 : InCont m.st) (x : UInt64) (hs : m.stack = x :: m'.stack) (h2 : m'.st = retSt x)
  | root (h1 : m.st = .rootStart) (h2 : InCont m'.st) (hs : m'.stack = ent m.tape.size cretAddressStartConst :: m.stack)
  | sc (h1 : m.st = .startContinue) (h2 : m'.st = .ndSkip) (hs : m'.stack = m.stack)
  | ndnl (h1 : m.st = .ndSkip) (h2 : m'.st = .ndSkip) (hs : m'.stack = m.stack)
  | ndopen (h1 : m.st = .ndSkip) (h2 : InCont m'.st) (x : UInt64) (rest : List UInt64) (hs : m.stack = x :: rest)
      (hx : locOf x < m.tape.size)
      (hs' : m'.stack = ent (m.tape.size + 2) cretAddressStartConst :: ent (m.tape.size + 1) cretAddressStartConst :: rest)

theorem inCont_of_eq {s : St} {t : St} (h : s = t) (ht : InCont t) : InCont s := h ▸ ht

theorem step_cases {m' : M} (h : m.step cfg buf p pk = some m') :
    m.tape.size ≤ m'.tape.size ∧ m'.tape.size ≤ m.tape.size + 3 ∧ StepKind m m' := by
  have ic : ∀ s : St, s ≠ .rootStart → s ≠ .startContinue → s ≠ .ndSkip → InCont s := fun s a b c => ⟨a, b, c⟩
  have val : ∀ (r : Nat) (cs : St), (r = cretAddressObjectConst ∨ r = cretAddressArrayConst) → InCont m.st → InCont cs →
      (match m.value cfg buf p pk r with
        | none => none
        | some (m', none) => some { m' with st := cs }
        | some (m', some s) => some { m' with st := s }) = some m' →
      m.tape.size ≤ m'.tape.size ∧ m'.tape.size ≤ m.tape.size + 3 ∧ StepKind m m' := by
    intro r cs hr hic hcs hv
    cases hval : m.value cfg buf p pk r with
    | none => rw [hval] at hv; cases hv
    | some mo =>
      obtain ⟨m1, o⟩ := mo
      rw [hval] at hv
      obtain ⟨h1, h2, h3, h4⟩ := value_inv hval
      rcases h4 with ⟨rfl, hs⟩ | ⟨ho, hs, hts⟩
      · simp only [Option.some.injEq] at hv
        subst hv
        exact ⟨h2, by simp only; omega, .keep hic hcs hs⟩
      · rcases ho with rfl | rfl
        · simp only [Option.some.injEq] at hv
          subst hv
          exact ⟨h2, by simp only; omega, .opn hic (by icd) r hr hs hts⟩
        · simp only [Option.some.injEq] at hv
          subst hv
          exact ⟨h2, by simp only; omega, .opn hic (by icd) r hr hs hts⟩
  have key : ∀ (hic : InCont m.st), (m.parseString cfg buf p pk).map ({ · with st := .objKeyColon }) = some m' →
      m.tape.size ≤ m'.tape.size ∧ m'.tape.size ≤ m.tape.size + 3 ∧ StepKind m m' := by
    intro hic hv
    cases hp : m.parseString cfg buf p pk with
    | none => rw [hp] at hv; cases hv
    | some m1 =>
      rw [hp] at hv
      simp only [Option.map_some, Option.some.injEq] at hv
      subst hv
      obtain ⟨h1, h2, h3⟩ := parseString_inv hp
      exact ⟨by simp only; omega, by simp only; omega, .keep hic (by icd) h1⟩
  have cl : ∀ (c : UInt8) (hic : InCont m.st), m.scopeEnd c = some m' →
      m.tape.size ≤ m'.tape.size ∧ m'.tape.size ≤ m.tape.size + 3 ∧ StepKind m m' := by
    intro c hic hv
    obtain ⟨x, h1, h2, h3⟩ := scopeEnd_inv hv
    exact ⟨by omega, by omega, .cls hic x h1 h2⟩
  cases hs : m.st with
  | rootStart =>
    rw [step_root hs] at h
    obtain ⟨h1, h2, h3⟩ := rootDispatch_inv h
    refine ⟨by omega, by omega, .root hs ?_ h1⟩
    rcases h2 with h2 | h2 <;> rw [h2] <;> icd
  | objBegin =>
    have hic : InCont m.st := hs ▸ (by icd)
    simp only [M.step, hs] at h
    split at h
    · exact key hic h
    · split at h
      · exact cl _ hic h
      · cases h
  | objKeyColon =>
    have hic : InCont m.st := hs ▸ (by icd)
    simp only [M.step, hs] at h
    split at h
    · cases h; exact ⟨Nat.le_refl _, by simp only; omega, .keep hic (by icd) rfl⟩
    · cases h
  | objValue =>
    have hic : InCont m.st := hs ▸ (by icd)
    simp only [M.step, hs] at h
    exact val _ .objContinue (Or.inl rfl) hic (by icd) h
  | objContinue =>
    have hic : InCont m.st := hs ▸ (by icd)
    simp only [M.step, hs] at h
    split at h
    · cases h; exact ⟨Nat.le_refl _, by simp only; omega, .keep hic (by icd) rfl⟩
    · split at h
      · exact cl _ hic h
      · cases h
  | objKeyAfterComma =>
    have hic : InCont m.st := hs ▸ (by icd)
    simp only [M.step, hs] at h
    split at h
    · exact key hic h
    · cases h
  | arrBegin =>
    have hic : InCont m.st := hs ▸ (by icd)
    simp only [M.step, hs] at h
    split at h
    · exact cl _ hic h
    · exact val _ .arrContinue (Or.inr rfl) hic (by icd) h
  | arrValue =>
    have hic : InCont m.st := hs ▸ (by icd)
    simp only [M.step, hs] at h
    exact val _ .arrContinue (Or.inr rfl) hic (by icd) h
  | arrContinue =>
    have hic : InCont m.st := hs ▸ (by icd)
    simp only [M.step, hs] at h
    split at h
    · cases h; exact ⟨Nat.le_refl _, by simp only; omega, .keep hic (by icd) rfl⟩
    · split at h
      · exact cl _ hic h
      · cases h
  | startContinue =>
    simp only [M.step, hs] at h
    split at h
    · cases h; exact ⟨Nat.le_refl _, by simp only; omega, .sc hs rfl rfl⟩
    · cases h
  | ndSkip =>
    simp only [M.step, hs] at h
    split at h
    · cases h; exact ⟨Nat.le_refl _, by omega, .ndnl hs hs rfl⟩
    · cases hr : m.reopenRoot with
      | none => rw [hr] at h; cases h
      | some m1 =>
        rw [hr] at h
        simp only at h
        obtain ⟨x, rest, h1, h2, h3, h4, h5⟩ := reopenRoot_inv hr
        obtain ⟨g1, g2, g3⟩ := rootDispatch_inv h
        refine ⟨by omega, by omega, .ndopen hs ?_ x rest h1 h5 ?_⟩
        · rcases g2 with g2 | g2 <;> rw [g2] <;> icd
        · rw [g1, h2, h4]

end

end SJ.MachineSim
