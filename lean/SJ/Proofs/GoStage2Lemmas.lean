import SJ.Proofs.MachineSimString
set_option linter.unusedVariables false
set_option linter.unusedSimpArgs false
/-
GoStage2Lemmas — facts about the scalar string decoder `decodeString` (Model/StringDec.lean) needed to tie the Go
function `parseString` (stage2_build_tape_amd64.go) to `M.parseString`:

* `decNext` / `go_step`: one iteration of `decodeStringGo` without its recursion (fail / closing quote / continue at);
* `decodeString_suffix`: decoding at `idx + 1` in the whole message = decoding at `1` in the suffix `buf[idx:]`
  (positions shift by `idx`), for every `idx` and every limit;
* `decodeString_pad`: appending zero bytes to the buffer (the Go caller's padding) never changes the answer;
* `decodeString_lim`: a successful answer does not depend on the limit, as long as the closing quote is below it;
* `go_fuel`: the fuel of `decodeString` is never the reason for `none`.
-/
namespace SJ.GoStage2
open SJ SJ.TokenSim

/-! ## one iteration, without the recursion -/

/-- what one iteration of the decoder loop does at position `i` (the limit test apart): `none` = fail,
    `some none` = closing quote here, `some (some (i', out'))` = continue at `i'` with `out'` -/
def decNext (a : Bytes) (i : Nat) (out : Bytes) : Option (Option (Nat × Bytes)) :=
    let c := a.getD i 0
    if c == 34 then some none
    else if c == 92 then
      let e := a.getD (i+1) 0
      if e == 117 then
        let dist := quoteDist a i
        if dist < 6 then none else
        let cp := hex4 a (i+2)
        if cp &&& 0xFFFFFC00 == 0xD800 then
          if dist < 12 then none
          else if a.getD (i+6) 0 != 92 ∨ a.getD (i+7) 0 != 117 then none
          else
            let cp2 := hex4 a (i+8)
            if (cp2 ||| cp) > 0xFFFF then none else
            let c32 : UInt32 := (((cp <<< 10) + 0xFCA00000) ||| (cp2 + 0xFFFF2400)) + 0x10000
            match encodeUTF8 c32 with
            | none => none
            | some bs => some (some (i + 12, out ++ bs.toArray))
        else
          match encodeUTF8 cp with
          | none => none
          | some bs => some (some (i + 6, out ++ bs.toArray))
      else
        let m := escapeMap e
        if m == 0 then none
        else some (some (i + 2, out.push m))
    else
      if i ≥ a.size then none
      else some (some (i + 1, out.push c))

def useNext (rec : Nat → Bytes → Option (Bytes × Nat)) (i : Nat) (out : Bytes) :
    Option (Option (Nat × Bytes)) → Option (Bytes × Nat)
  | none => none
  | some none => some (out, i)
  | some (some p) => rec p.1 p.2

theorem decStep_eq (a : Bytes) (start lim : Nat) (rec : Nat → Bytes → Option (Bytes × Nat)) (i : Nat) (out : Bytes) :
    decStep a start lim rec i out = if i - start ≥ lim then none else useNext rec i out (decNext a i out) := by
  unfold decStep decNext
  dsimp only
  split
  · rfl
  · split
    · rfl
    · split
      · split
        · split
          · rfl
          · split
            · split
              · rfl
              · split
                · rfl
                · split
                  · rfl
                  · cases encodeUTF8 ((hex4 a (i + 2) <<< 10 + 4238344192 ||| hex4 a (i + 8) + 4294910976) + 65536) <;> rfl
            · cases encodeUTF8 (hex4 a (i + 2)) <;> rfl
        · split
          · rfl
          · rfl
      · split
        · rfl
        · rfl

/-- one iteration of `decodeStringGo` -/
theorem go_step (a : Bytes) (start lim fuel i : Nat) (out : Bytes) :
    decodeStringGo a start lim (fuel + 1) i out =
      if i - start ≥ lim then none else useNext (decodeStringGo a start lim fuel) i out (decNext a i out) := by
  rw [decodeStringGo_succ, decStep_eq]

/-! ## properties of one iteration -/

/-- at a zero byte the loop just copies it (or runs off the end) -/
theorem decNext_zero (a : Bytes) (i : Nat) (out : Bytes) (h : a.getD i 0 = 0) :
    decNext a i out = if i ≥ a.size then none else some (some (i + 1, out.push 0)) := by
  unfold decNext
  simp [h]

theorem getD_past (a : Bytes) (i : Nat) (h : a.size ≤ i) : a.getD i 0 = 0 := by
  rw [Array.getD_eq_getD_getElem?, Array.getElem?_eq_none h]; rfl

/-- beyond the end of the buffer the loop fails -/
theorem decNext_past (a : Bytes) (i : Nat) (out : Bytes) (h : a.size ≤ i) : decNext a i out = none := by
  rw [decNext_zero a i out (getD_past a i h), if_pos h]

/-- the loop moves forward, by at most 12 -/
theorem decNext_fwd (a : Bytes) (i : Nat) (out : Bytes) (p : Nat × Bytes) (h : decNext a i out = some (some p)) :
    i < p.1 ∧ p.1 ≤ i + 12 := by
  unfold decNext at h
  dsimp only at h
  split at h
  · cases h
  · split at h
    · split at h
      · split at h
        · cases h
        · split at h
          · split at h
            · cases h
            · split at h
              · cases h
              · split at h
                · cases h
                · split at h
                  · cases h
                  · cases h; exact ⟨by simp, by simp⟩
          · split at h
            · cases h
            · cases h; exact ⟨by simp, by simp⟩
      · split at h
        · cases h
        · cases h; exact ⟨by simp, by simp⟩
    · split at h
      · cases h
      · cases h; exact ⟨by simp, by simp⟩

theorem hex4_shift (a b : Bytes) (k : Nat) (hg : ∀ x, a.getD (x + k) 0 = b.getD x 0) (x : Nat) :
    hex4 a (x + k) = hex4 b x := by
  unfold hex4
  rw [Nat.add_right_comm x k 1, Nat.add_right_comm x k 2, Nat.add_right_comm x k 3, hg, hg, hg, hg]

theorem quoteDist_shift (a b : Bytes) (k : Nat) (hg : ∀ x, a.getD (x + k) 0 = b.getD x 0) (x : Nat) :
    quoteDist a (x + k) = quoteDist b x := by
  unfold quoteDist
  have : (fun d => a.getD (x + k + d) 0 == 34) = (fun d => b.getD (x + d) 0 == 34) := by
    funext d; rw [Nat.add_right_comm x k d, hg]
  rw [this]

def shiftNx (k : Nat) : Option (Option (Nat × Bytes)) → Option (Option (Nat × Bytes)) :=
  Option.map (Option.map (fun p => (p.1 + k, p.2)))

/-- the iteration only depends on the bytes from `i` on: if `a` read at `x + k` is `b` read at `x` (for every `x`,
    with the "past the end" test agreeing at `i`), the iteration on `a` at `i + k` is the one on `b` at `i`, shifted -/
theorem decNext_shift (a b : Bytes) (k : Nat) (hg : ∀ x, a.getD (x + k) 0 = b.getD x 0) (i : Nat) (out : Bytes)
    (hs : i + k ≥ a.size ↔ i ≥ b.size) :
    decNext a (i + k) out = shiftNx k (decNext b i out) := by
  unfold decNext
  dsimp only
  rw [Nat.add_right_comm i k 1, Nat.add_right_comm i k 2, Nat.add_right_comm i k 6, Nat.add_right_comm i k 7,
    Nat.add_right_comm i k 8, Nat.add_right_comm i k 12]
  simp only [hg, hex4_shift a b k hg, quoteDist_shift a b k hg]
  split
  · rfl
  · split
    · split
      · split
        · rfl
        · split
          · split
            · rfl
            · split
              · rfl
              · split
                · rfl
                · cases encodeUTF8 ((hex4 b (i + 2) <<< 10 + 4238344192 ||| hex4 b (i + 8) + 4294910976) + 65536) with
                  | none => rfl
                  | some bs => simp [shiftNx]
          · cases encodeUTF8 (hex4 b (i + 2)) with
            | none => rfl
            | some bs => simp [shiftNx]
      · split
        · rfl
        · simp [shiftNx]
    · by_cases hb : i ≥ b.size
      · rw [if_pos (hs.mpr hb), if_pos hb]; rfl
      · rw [if_neg (fun h => hb (hs.mp h)), if_neg hb]; simp [shiftNx]

theorem decNext_congr (a b : Bytes) (hg : ∀ x, a.getD x 0 = b.getD x 0) (i : Nat) (out : Bytes)
    (hs : i ≥ a.size ↔ i ≥ b.size) : decNext a i out = decNext b i out := by
  have := decNext_shift a b 0 hg i out hs
  rw [Nat.add_zero] at this
  rw [this]
  cases decNext b i out with
  | none => rfl
  | some o => cases o <;> rfl

/-! ## the loop -/

theorem go_zero' (a : Bytes) (start lim i : Nat) (out : Bytes) : decodeStringGo a start lim 0 i out = none := rfl

def shiftR (k : Nat) : Option (Bytes × Nat) → Option (Bytes × Nat) := Option.map (fun r => (r.1, r.2 + k))

/-- shifting the buffer, the start and the position by `k` shifts the closing quote by `k` -/
theorem go_shift (a b : Bytes) (k : Nat) (hg : ∀ x, a.getD (x + k) 0 = b.getD x 0)
    (hs : ∀ i, i + k ≥ a.size ↔ i ≥ b.size) (start lim : Nat) :
    ∀ (fuel i : Nat) (out : Bytes),
      decodeStringGo a (start + k) lim fuel (i + k) out = shiftR k (decodeStringGo b start lim fuel i out) := by
  intro fuel
  induction fuel with
  | zero => intro i out; rfl
  | succ f ih =>
    intro i out
    rw [go_step, go_step, Nat.add_sub_add_right, decNext_shift a b k hg i out (hs i)]
    split
    · rfl
    · cases decNext b i out with
      | none => rfl
      | some o =>
        cases o with
        | none => rfl
        | some p => exact ih p.1 p.2

/-- with enough fuel to reach the end of the buffer, the fuel does not matter -/
theorem go_fuel (a : Bytes) (start lim : Nat) :
    ∀ (fuel fuel' i : Nat) (out : Bytes), a.size < fuel + i → a.size < fuel' + i →
      decodeStringGo a start lim fuel i out = decodeStringGo a start lim fuel' i out := by
  have hpast : ∀ (fuel i : Nat) (out : Bytes), a.size ≤ i → decodeStringGo a start lim fuel i out = none := by
    intro fuel i out h
    cases fuel with
    | zero => rfl
    | succ f => rw [go_step, decNext_past a i out h]; split <;> rfl
  intro fuel
  induction fuel with
  | zero =>
    intro fuel' i out h1 h2
    rw [hpast 0 i out (by omega), hpast fuel' i out (by omega)]
  | succ f ih =>
    intro fuel' i out h1 h2
    cases fuel' with
    | zero => rw [hpast 0 i out (by omega), hpast (f + 1) i out (by omega)]
    | succ f' =>
      rw [go_step, go_step]
      split
      · rfl
      · cases hn : decNext a i out with
        | none => rfl
        | some o =>
          cases o with
          | none => rfl
          | some p =>
            have := (decNext_fwd a i out p hn).1
            exact ih f' p.1 p.2 (by omega) (by omega)

/-- a successful answer does not depend on the limit, as long as the closing quote is below it -/
theorem go_lim (a : Bytes) (start lim lim' : Nat) :
    ∀ (fuel i : Nat) (out res : Bytes) (c' : Nat), decodeStringGo a start lim fuel i out = some (res, c') →
      c' - start < lim' → decodeStringGo a start lim' fuel i out = some (res, c') := by
  intro fuel
  induction fuel with
  | zero => intro i out res c' h; cases h
  | succ f ih =>
    intro i out res c' h hl
    have hic := (decode_bounds a start lim (f + 1) i out res c' h).1
    rw [go_step] at h ⊢
    rw [if_neg (by omega)]
    split at h
    · cases h
    · cases hn : decNext a i out with
      | none => rw [hn] at h; cases h
      | some o =>
        rw [hn] at h
        cases o with
        | none => exact h
        | some p => exact ih p.1 p.2 res c' h hl

/-- appended zero bytes: once the scan is in them it never succeeds -/
theorem go_zeros (a : Bytes) (n start lim : Nat) :
    ∀ (fuel i : Nat) (out : Bytes), a.size ≤ i →
      decodeStringGo (a ++ Array.replicate n 0) start lim fuel i out = none := by
  intro fuel
  induction fuel with
  | zero => intro i out h; rfl
  | succ f ih =>
    intro i out h
    have hz : (a ++ Array.replicate n (0 : UInt8)).getD i 0 = 0 := by
      simp only [Array.getD_eq_getD_getElem?, Array.getElem?_append, Array.getElem?_replicate]
      rw [if_neg (by omega)]
      split <;> rfl
    rw [go_step, decNext_zero _ i out hz]
    split
    · rfl
    · split
      · rfl
      · exact ih (i + 1) _ (by omega)

theorem getD_pad (a : Bytes) (n x : Nat) : (a ++ Array.replicate n (0 : UInt8)).getD x 0 = a.getD x 0 := by
  simp only [Array.getD_eq_getD_getElem?, Array.getElem?_append, Array.getElem?_replicate]
  by_cases h : x < a.size
  · rw [if_pos h]
  · rw [if_neg h, Array.getElem?_eq_none (by omega)]
    split <;> rfl

/-- appended zero bytes never change the outcome of the loop -/
theorem go_pad (a : Bytes) (n start lim : Nat) :
    ∀ (fuel i : Nat) (out : Bytes),
      decodeStringGo (a ++ Array.replicate n 0) start lim fuel i out = decodeStringGo a start lim fuel i out := by
  intro fuel
  induction fuel with
  | zero => intro i out; rfl
  | succ f ih =>
    intro i out
    by_cases hi : a.size ≤ i
    · rw [go_zeros a n start lim (f + 1) i out hi, go_step, decNext_past a i out hi]
      split <;> rfl
    · rw [go_step, go_step, decNext_congr _ a (getD_pad a n) i out (by simp only [Array.size_append, Array.size_replicate]; omega)]
      split
      · rfl
      · cases decNext a i out with
        | none => rfl
        | some o =>
          cases o with
          | none => rfl
          | some p => exact ih p.1 p.2

/-! ## `decodeString` -/

/-- Decoding the string that starts at `buf[idx]` in the whole message is decoding at `1` in the suffix `buf[idx:]`:
    same decoded bytes, closing quote shifted by `idx`.  No hypothesis on `idx` or the limit. -/
theorem decodeString_suffix (buf : Bytes) (idx lim : Nat) :
    decodeString buf (idx + 1) lim = shiftR idx (decodeString (buf.extract idx buf.size) 1 lim) := by
  have hg : ∀ x, buf.getD (x + idx) 0 = (buf.extract idx buf.size).getD x 0 := by
    intro x
    simp only [Array.getD_eq_getD_getElem?, Array.getElem?_extract]
    by_cases h : x < buf.size - idx
    · rw [if_pos (by omega), Nat.add_comm]
    · rw [if_neg (by omega), Array.getElem?_eq_none (by omega)]
  have hs : ∀ i, i + idx ≥ buf.size ↔ i ≥ (buf.extract idx buf.size).size := by
    intro i; simp only [Array.size_extract]; omega
  unfold decodeString
  rw [Nat.add_comm idx 1, go_shift buf _ idx hg hs 1 lim (buf.size + 64) 1 #[],
    go_fuel _ 1 lim (buf.size + 64) ((buf.extract idx buf.size).size + 64) 1 #[]
      (by simp only [Array.size_extract]; omega) (by omega)]

/-- The padding of the Go caller (zero bytes appended to the buffer) never changes the answer of the decoder: the scalar
    model's "ran off the end" rule and a run through appended zeros both end in `none`. -/
theorem decodeString_pad (a : Bytes) (n start lim : Nat) :
    decodeString (a ++ Array.replicate n 0) start lim = decodeString a start lim := by
  unfold decodeString
  rw [go_pad, go_fuel a start lim ((a ++ Array.replicate n (0 : UInt8)).size + 64) (a.size + 64) start #[]
    (by simp only [Array.size_append, Array.size_replicate]; omega) (by omega)]

/-- a successful answer does not depend on the limit -/
theorem decodeString_lim (a : Bytes) (start lim lim' : Nat) (dec : Bytes) (close : Nat)
    (h : decodeString a start lim = some (dec, close)) (hl : close - start < lim') :
    decodeString a start lim' = some (dec, close) := by
  unfold decodeString at h ⊢
  exact go_lim a start lim lim' _ _ _ _ _ h hl

/-- `parseStringSimd` (limit = the length of the buffer it is given) after a successful `parseStringSimdValidateOnly` -/
theorem decodeString_lim_size (a : Bytes) (lim : Nat) (dec : Bytes) (close : Nat)
    (h : decodeString a 1 lim = some (dec, close)) : decodeString a 1 a.size = some (dec, close) := by
  have := (decodeString_bounds a 1 lim dec close h).2.2.2
  exact decodeString_lim a 1 lim a.size dec close h (by omega)

end SJ.GoStage2
