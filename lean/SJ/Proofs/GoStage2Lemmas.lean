import SJ.Proofs.MachineSimString
set_option linter.unusedVariables false
set_option linter.unusedSimpArgs false
/-
GoStage2Lemmas — facts about the scalar string decoder `decodeString` (Model/StringDec.lean) needed to tie the Go
function `parseString` (stage2_build_tape_amd64.go) to `M.parseString`:

* `decNext` / `go_step`: one iteration of `decodeStringGo` without its recursion (fail / closing quote / continue at);
* `decodeString_suffix`: decoding at `idx + 1` in the whole message = decoding at `1` in the suffix `buf[idx:]`
  (positions shift by `idx`), for every `idx` and every limit;
* `decodeString_pad`: appending zero bytes to the buffer (the Go caller's padding) never changes the answer;
* `decodeString_lim`: a successful answer does not depend on the limit, as long as the closing quote is below it;
* `go_fuel`: the fuel of `decodeString` is never the reason for `none`.
-/
namespace SJ.GoStage2
open SJ SJ.TokenSim

/-! ## one iteration, without the recursion -/

/-- what one iteration of the decoder loop does at position `i` (the limit test apart): `none` = fail,
    `some none` = closing quote here, `some (some (i', out'))` = continue at `i'` with `out'` -/
def decNext (a : Bytes) (i : Nat) (out : Bytes) : Option (Option (Nat × Bytes)) :=
    let c := a.getD i 0
    if c == 34 then some none
    else if c == 92 then
      let e := a.getD (i+1) 0
      if e == 117 then
        let dist := quoteDist a i
        if dist < 6 then none else
        let cp := hex4 a (i+2)
        if cp &&& 0xFFFFFC00 == 0xD800 then
          if dist < 12 then none
          else if a.getD (i+6) 0 != 92 ∨ a.getD (i+7) 0 != 117 then none
          else
            let cp2 := hex4 a (i+8)
            if (cp2 ||| cp) > 0xFFFF then none else
            let c32 : UInt32 := (((cp <<< 10) + 0xFCA00000) ||| (cp2 + 0xFFFF2400)) + 0x10000
            match encodeUTF8 c32 with
            | none => none
            | some bs => some (some (i + 12, out ++ bs.toArray))
        else
          match encodeUTF8 cp with
          | none => none
          | some bs => some (some (i + 6, out ++ bs.toArray))
      else
        let m := escapeMap e
        if m == 0 then none
        else some (some (i + 2, out.push m))
    else
      if i ≥ a.size then none
      else some (some (i + 1, out.push c))

def useNext (rec : Nat → Bytes → Option (Bytes × Nat)) (i : Nat) (out : Bytes) :
    Option (Option (Nat × Bytes)) → Option (Bytes × Nat)
  | none => none
  | some none => some (out, i)
  | some (some p) => rec p.1 p.2

theorem decStep_eq (a : Bytes) (start lim : Nat) (rec : Nat → Bytes → Option (Bytes × Nat)) (i : Nat) (out : Bytes) :
    decStep a start lim rec i out = if i - start ≥ lim then none else useNext rec i out (decNext a i out) := by
  unfold decStep decNext
  dsimp only
  split
  · rfl
  · split
    · rfl
    · split
      · split
        · split
          · rfl
          · split
            · split
              · rfl
              · split
                · rfl
                · split
                  · rfl
                  · cases encodeUTF8 ((hex4 a (i + 2) <<< 10 + 4238344192 ||| hex4 a (i + 8) + 4294910976) + 65536) <;> rfl
            · cases encodeUTF8 (hex4 a (i + 2)) <;> rfl
        · split
          · rfl
          · rfl
      · split
        · rfl
        · rfl

/-- one iteration of `decodeStringGo` -/
theorem go_step (a : Bytes) (start lim fuel i : Nat) (out : Bytes) :
    decodeStringGo a start lim (fuel + 1) i out =
      if i - start ≥ lim then none else useNext (decodeStringGo a start lim fuel) i out (decNext a i out) := by
  rw [decodeStringGo_succ, decStep_eq]

end SJ.GoStage2
