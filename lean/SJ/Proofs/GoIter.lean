import SJ.Proofs.GoIterLemmas
set_option linter.unusedVariables false
set_option linter.unusedSimpArgs false
/-
GoIter — the cursor functions of `parsed_json.go`, as printed by the translator (`Generated/GoSrc.lean`) and run by
`GoSem.exec`, against the hand model `Model/Iter.lean`.

For every `pj`, every iterator `i` whose view is inside the tape (`i.lim ≤ pj.tape.size`) and every
`fuel ≥ fuelFor i = i.lim + 8` the interpreter neither gets stuck nor runs out of fuel, and

  * `peekNextTag_sim`, `peekNext_sim`          — `PeekNextTag`, `PeekNext` are `Iter.peekNextTag`, `Iter.peekNext`;
  * `advanceG_sim`, `advanceIntoG_sim`, `advanceIterG_sim`
        — `Advance`, `AdvanceInto`, `AdvanceIter` are `advanceG`, `advanceIntoG`, `advanceIterG` (GoIterLemmas):
          the hand model with the *whole* iterator threaded through the NOP-skipping loop.  No extra hypothesis.
  * `advance_sim`, `advanceInto_sim`, `advanceIter_sim`
        — the same against the hand model itself, under `DeadCurAgrees` resp. `EndAtStart`, the exact conditions
          under which the hand model's result is what Go computes; without them `advance_rel_G`,
          `advanceInto_rel_G` say how far apart the two can be.
  * `go_iter_source_tie` bundles them.

The proofs run the syntax trees: any edit of these Go functions changes `Generated/GoSrc.lean` and breaks them.
-/
namespace SJ.GoIter
open SJ SJ.GoSem SJ.Generated

attribute [local simp] exec exec1 execCases evalE evalEs isOneOf binop convert ofE copyFields bindParams
  iterFields runFun tblLookup Env.get_set

/-! ## outcomes that end a function -/

def Out.final : Out → Bool
  | .ret _ _ => true
  | .panic => true
  | _ => false

theorem exec_cons_final (funs : String → Option FunDef) (fuel : Nat) (st : Stmt) (rest : List Stmt) (s : St)
    (h : Out.final (exec1 funs fuel st s) = true) : exec funs fuel (st :: rest) s = exec1 funs fuel st s := by
  rw [exec]
  cases hh : exec1 funs fuel st s <;> simp_all [Out.final]

theorem runFun_final (funs : String → Option FunDef) (fd : FunDef) (fuel : Nat) (s : St)
    (h : Out.final (exec funs fuel fd.body s) = true) : runFun funs fd fuel s = exec funs fuel fd.body s := by
  unfold runFun
  cases hh : exec funs fuel fd.body s <;> simp_all [Out.final]

theorem SimV.final {tape : Array UInt64} {i : Iter} {o : Out} {r : Res UInt8} (h : SimV tape i o r) :
    Out.final o = true := by
  unfold SimV at h
  split at h
  · obtain ⟨s, h, _⟩ := h; rw [h]; rfl
  · rw [h]; rfl
  · exact h.elim

theorem SimT.final {tape : Array UInt64} {o : Out} {r : Res (Iter × UInt8)} (h : SimT tape o r) :
    Out.final o = true := by
  unfold SimT at h
  split at h
  · obtain ⟨s, h, _⟩ := h; rw [h]; rfl
  · rw [h]; rfl
  · exact h.elim

/-! ## PeekNextTag, PeekNext -/

theorem peekTag_body (e : Env) (tape : Array UInt64) (fuel : Nat) (off lim : Nat)
    (hoff : e.get "off" = some (.int off)) (hlim : e.get "i.lim" = some (.int lim)) (hsz : lim ≤ tape.size) :
    exec goFuns fuel (firstLoop goIter_PeekNextTag.body) ⟨e, tape⟩ =
      if h : off ≥ lim then .ret ⟨e, tape⟩ [.u8 0] else
        let v := tape[off]'(by omega)
        let e1 := (e.set "v" (.u64 v)).set "t" (.u8 (tagOf v))
        if tagOf v = tagNop then
          let e2 := e1.set "skip" (.int (payloadOf v).toNat)
          if payloadOf v = 0 then .ret ⟨e2, tape⟩ [.u8 0]
          else .cont ⟨e2.set "off" (.int ((off + (payloadOf v).toNat : Nat) : Int)), tape⟩
        else .ret ⟨e1, tape⟩ [.u8 (tagOf v)] := by
  simp only [goIter_PeekNextTag, firstLoop]
  by_cases h : off ≥ lim
  · simp [hoff, hlim, h]
  · have h1 : off < lim := by omega
    have h2 : tape[off]? = some (tape[off]'(by omega)) := by simp
    simp only [dif_neg h]
    generalize tape[off] = v at h2 ⊢
    have ht : (v >>> 56).toUInt8 = tagOf v := rfl
    have hp : v &&& 72057594037927935 = payloadOf v := rfl
    have hz : (payloadOf v = 0) ↔ (payloadOf v).toNat = 0 := by rw [← UInt64.toNat_inj]; rfl
    simp [hoff, hlim, h, h1, h2, ht, hp, toInt64_payload, hz]
    simp only [tagNop]
    by_cases hn : tagOf v = 78
    · have hb : (tagOf v == 78) = true := by simp [hn]
      by_cases hz : (payloadOf v).toNat = 0
      · simp [hb, hn, hz]
      · simp [hb, hn, hz, hoff]
    · have hb : (tagOf v == 78) = false := by simp [hn]
      simp [hb, hn]

theorem peek_body (e : Env) (tape : Array UInt64) (fuel : Nat) (off lim : Nat)
    (hoff : e.get "off" = some (.int off)) (hlim : e.get "i.lim" = some (.int lim)) (hsz : lim ≤ tape.size) :
    exec goFuns fuel (firstLoop goIter_PeekNext.body) ⟨e, tape⟩ =
      if h : off ≥ lim then .ret ⟨e, tape⟩ [.u8 0] else
        let v := tape[off]'(by omega)
        let e1 := (e.set "v" (.u64 v)).set "t" (.u8 (tagOf v))
        if tagOf v = tagNop then
          let e2 := e1.set "skip" (.int (payloadOf v).toNat)
          if payloadOf v = 0 then .ret ⟨e2, tape⟩ [.u8 0]
          else .cont ⟨e2.set "off" (.int ((off + (payloadOf v).toNat : Nat) : Int)), tape⟩
        else .ret ⟨e1, tape⟩ [.u8 (tagToType (tagOf v))] := by
  simp only [goIter_PeekNext, firstLoop]
  by_cases h : off ≥ lim
  · simp [hoff, hlim, h]
  · have h1 : off < lim := by omega
    have h2 : tape[off]? = some (tape[off]'(by omega)) := by simp
    simp only [dif_neg h]
    generalize tape[off] = v at h2 ⊢
    have ht : (v >>> 56).toUInt8 = tagOf v := rfl
    have hp : v &&& 72057594037927935 = payloadOf v := rfl
    have hz : (payloadOf v = 0) ↔ (payloadOf v).toNat = 0 := by rw [← UInt64.toNat_inj]; rfl
    simp [hoff, hlim, h, h1, h2, ht, hp, toInt64_payload, hz]
    simp only [tagNop]
    by_cases hn : tagOf v = 78
    · have hb : (tagOf v == 78) = true := by simp [hn]
      by_cases hz : (payloadOf v).toNat = 0
      · simp [hb, hn, hz]
      · simp [hb, hn, hz, hoff]
    · have hb : (tagOf v == 78) = false := by simp [hn]
      simp [hb, hn, tagToType]

/-- a negative offset: the bounds check of the first read fails -/
theorem peekTag_body_neg (e : Env) (tape : Array UInt64) (fuel : Nat) (o : Int) (lim : Nat) (ho : o < 0)
    (hoff : e.get "off" = some (.int o)) (hlim : e.get "i.lim" = some (.int lim)) :
    exec goFuns fuel (firstLoop goIter_PeekNextTag.body) ⟨e, tape⟩ = .panic := by
  simp only [goIter_PeekNextTag, firstLoop]
  have h1 : ¬ (lim : Int) ≤ o := by omega
  have h2 : ¬ 0 ≤ o := by omega
  simp [hoff, hlim, h1, h2]

theorem peek_body_neg (e : Env) (tape : Array UInt64) (fuel : Nat) (o : Int) (lim : Nat) (ho : o < 0)
    (hoff : e.get "off" = some (.int o)) (hlim : e.get "i.lim" = some (.int lim)) :
    exec goFuns fuel (firstLoop goIter_PeekNext.body) ⟨e, tape⟩ = .panic := by
  simp only [goIter_PeekNext, firstLoop]
  have h1 : ¬ (lim : Int) ≤ o := by omega
  have h2 : ¬ 0 ≤ o := by omega
  simp [hoff, hlim, h1, h2]

theorem peekTag_loop (pj : PJ) (i : Iter) (hl : i.lim ≤ pj.tape.size) :
    ∀ (n off fuel : Nat) (e : Env), i.lim - off ≤ n → n < fuel → iterAt e "i" = some i →
      e.get "off" = some (.int off) →
      SimV pj.tape i (exec1 goFuns fuel (.loop (firstLoop goIter_PeekNextTag.body)) ⟨e, pj.tape⟩)
        (Iter.peekLoop pj i.lim off) := by
  intro n
  induction n with
  | zero =>
    intro off fuel e hn hf hI hoff
    obtain ⟨fuel, rfl⟩ : ∃ f, fuel = f + 1 := ⟨fuel - 1, by omega⟩
    have hlim := (iterAt_get e "i" i hI).2.2.2.2
    simp only [String.reduceAppend] at hlim
    rw [exec1, peekTag_body e pj.tape fuel off i.lim hoff hlim hl, Iter.peekLoop]
    have : off ≥ i.lim := by omega
    simp only [this, dif_pos, SimV, tagEnd]
    exact ⟨_, rfl, rfl, hI⟩
  | succ n ih =>
    intro off fuel e hn hf hI hoff
    obtain ⟨fuel, rfl⟩ : ∃ f, fuel = f + 1 := ⟨fuel - 1, by omega⟩
    have hlim := (iterAt_get e "i" i hI).2.2.2.2
    simp only [String.reduceAppend] at hlim
    rw [exec1, peekTag_body e pj.tape fuel off i.lim hoff hlim hl, Iter.peekLoop]
    by_cases h : off ≥ i.lim
    · simp only [h, dif_pos, SimV, tagEnd]
      exact ⟨_, rfl, rfl, hI⟩
    · have h2 : pj.tape[off]? = some (pj.tape[off]'(by omega)) := by simp
      simp only [h, dif_neg, not_false_eq_true, Iter.rdT, rd, h2, Res.bind_ok]
      generalize pj.tape[off] = v
      by_cases hn : tagOf v = tagNop
      · by_cases hz : payloadOf v = 0
        · simp only [hn, hz, SimV, tagEnd, if_true, beq_self_eq_true, UInt64.toNat_zero]
          refine ⟨_, rfl, rfl, ?_⟩
          simp (disch := decide) only [iterAt_set_ne, hI]
        · have hz' := payload_toNat_ne v hz
          simp only [hn, hz, hz', if_true, if_false, beq_self_eq_true]
          exact ih (off + (payloadOf v).toNat) fuel _ (by omega) (by omega)
            (by simp (disch := decide) only [iterAt_set_ne, hI]) (by simp)
      · have hb : (tagOf v == tagNop) = false := by simp [hn]
        simp only [hn, hb, SimV, if_false]
        refine ⟨_, rfl, rfl, ?_⟩
        simp (disch := decide) only [iterAt_set_ne, hI]

theorem peek_loop (pj : PJ) (i : Iter) (hl : i.lim ≤ pj.tape.size) :
    ∀ (n off fuel : Nat) (e : Env), i.lim - off ≤ n → n < fuel → iterAt e "i" = some i →
      e.get "off" = some (.int off) →
      SimV pj.tape i (exec1 goFuns fuel (.loop (firstLoop goIter_PeekNext.body)) ⟨e, pj.tape⟩)
        ((Iter.peekLoop pj i.lim off).bind (fun t => .ok (tagToType t))) := by
  intro n
  induction n with
  | zero =>
    intro off fuel e hn hf hI hoff
    obtain ⟨fuel, rfl⟩ : ∃ f, fuel = f + 1 := ⟨fuel - 1, by omega⟩
    have hlim := (iterAt_get e "i" i hI).2.2.2.2
    simp only [String.reduceAppend] at hlim
    rw [exec1, peek_body e pj.tape fuel off i.lim hoff hlim hl, Iter.peekLoop]
    have : off ≥ i.lim := by omega
    simp only [this, dif_pos, SimV, tagEnd, Res.bind, tagToType_end]
    exact ⟨_, rfl, rfl, hI⟩
  | succ n ih =>
    intro off fuel e hn hf hI hoff
    obtain ⟨fuel, rfl⟩ : ∃ f, fuel = f + 1 := ⟨fuel - 1, by omega⟩
    have hlim := (iterAt_get e "i" i hI).2.2.2.2
    simp only [String.reduceAppend] at hlim
    rw [exec1, peek_body e pj.tape fuel off i.lim hoff hlim hl, Iter.peekLoop]
    by_cases h : off ≥ i.lim
    · simp only [h, dif_pos, SimV, tagEnd, Res.bind, tagToType_end]
      exact ⟨_, rfl, rfl, hI⟩
    · have h2 : pj.tape[off]? = some (pj.tape[off]'(by omega)) := by simp
      simp only [h, dif_neg, not_false_eq_true, Iter.rdT, rd, h2, Res.bind_ok]
      generalize pj.tape[off] = v
      by_cases hn : tagOf v = tagNop
      · by_cases hz : payloadOf v = 0
        · simp only [hn, hz, SimV, tagEnd, if_true, beq_self_eq_true, UInt64.toNat_zero, Res.bind, tagToType_end]
          refine ⟨_, rfl, rfl, ?_⟩
          simp (disch := decide) only [iterAt_set_ne, hI]
        · have hz' := payload_toNat_ne v hz
          simp only [hn, hz, hz', if_true, if_false, beq_self_eq_true]
          exact ih (off + (payloadOf v).toNat) fuel _ (by omega) (by omega)
            (by simp (disch := decide) only [iterAt_set_ne, hI]) (by simp)
      · have hb : (tagOf v == tagNop) = false := by simp [hn]
        simp only [hn, hb, SimV, if_false, Res.bind]
        refine ⟨_, rfl, rfl, ?_⟩
        simp (disch := decide) only [iterAt_set_ne, hI]

theorem peekNextTag_sim (pj : PJ) (i : Iter) (hl : i.lim ≤ pj.tape.size) (fuel : Nat) (hf : fuelFor i ≤ fuel) :
    SimV pj.tape i (runFun goFuns goIter_PeekNextTag fuel { env := envOf "i" i, tape := pj.tape })
      (i.peekNextTag pj) := by
  have hbody : goIter_PeekNextTag.body = [.assign "off" (.bin .add (.v "i.off") (.v "i.addNext")),
      .loop (firstLoop goIter_PeekNextTag.body)] := rfl
  have h1 : exec1 goFuns fuel (.assign "off" (.bin .add (.v "i.off") (.v "i.addNext"))) ⟨envOf "i" i, pj.tape⟩ =
      .normal ⟨(envOf "i" i).set "off" (.int ((i.off : Int) + i.addNext)), pj.tape⟩ := by
    simp [envOf, Env.get]
  have hI : iterAt ((envOf "i" i).set "off" (.int ((i.off : Int) + i.addNext))) "i" = some i := by
    simp (disch := decide) only [iterAt_set_ne, iterAt_envOf]
  have hloop : SimV pj.tape i (exec1 goFuns fuel (.loop (firstLoop goIter_PeekNextTag.body))
      ⟨(envOf "i" i).set "off" (.int ((i.off : Int) + i.addNext)), pj.tape⟩) (i.peekNextTag pj) := by
    unfold Iter.peekNextTag Iter.bump
    unfold fuelFor at hf
    by_cases ho : (i.off : Int) + i.addNext < 0
    · obtain ⟨f, rfl⟩ : ∃ f, fuel = f + 1 := ⟨fuel - 1, by omega⟩
      have hlim := (iterAt_get _ "i" i hI).2.2.2.2
      simp only [String.reduceAppend] at hlim
      rw [exec1, peekTag_body_neg _ pj.tape f _ i.lim ho (Env.get_set_self _ _ _) hlim]
      simp [ho, SimV]
    · simp only [ho, if_false, Res.bind_ok]
      have := peekTag_loop pj i hl i.lim ((i.off : Int) + i.addNext).toNat fuel _ (by omega) (by omega) hI
        (by rw [Env.get_set_self, Int.toNat_of_nonneg (by omega)])
      exact this
  have key : SimV pj.tape i (exec goFuns fuel goIter_PeekNextTag.body ⟨envOf "i" i, pj.tape⟩) (i.peekNextTag pj) := by
    rw [hbody, exec, h1]
    simp only []
    rw [exec_cons_final _ _ _ _ _ hloop.final]
    exact hloop
  rw [runFun_final _ _ _ _ key.final]
  exact key

theorem peekNext_sim (pj : PJ) (i : Iter) (hl : i.lim ≤ pj.tape.size) (fuel : Nat) (hf : fuelFor i ≤ fuel) :
    SimV pj.tape i (runFun goFuns goIter_PeekNext fuel { env := envOf "i" i, tape := pj.tape })
      (i.peekNext pj) := by
  have hbody : goIter_PeekNext.body = [.assign "off" (.bin .add (.v "i.off") (.v "i.addNext")),
      .loop (firstLoop goIter_PeekNext.body)] := rfl
  have h1 : exec1 goFuns fuel (.assign "off" (.bin .add (.v "i.off") (.v "i.addNext"))) ⟨envOf "i" i, pj.tape⟩ =
      .normal ⟨(envOf "i" i).set "off" (.int ((i.off : Int) + i.addNext)), pj.tape⟩ := by
    simp [envOf, Env.get]
  have hI : iterAt ((envOf "i" i).set "off" (.int ((i.off : Int) + i.addNext))) "i" = some i := by
    simp (disch := decide) only [iterAt_set_ne, iterAt_envOf]
  have hloop : SimV pj.tape i (exec1 goFuns fuel (.loop (firstLoop goIter_PeekNext.body))
      ⟨(envOf "i" i).set "off" (.int ((i.off : Int) + i.addNext)), pj.tape⟩) (i.peekNext pj) := by
    unfold Iter.peekNext Iter.peekNextTag Iter.bump
    unfold fuelFor at hf
    by_cases ho : (i.off : Int) + i.addNext < 0
    · obtain ⟨f, rfl⟩ : ∃ f, fuel = f + 1 := ⟨fuel - 1, by omega⟩
      have hlim := (iterAt_get _ "i" i hI).2.2.2.2
      simp only [String.reduceAppend] at hlim
      rw [exec1, peek_body_neg _ pj.tape f _ i.lim ho (Env.get_set_self _ _ _) hlim]
      simp [ho, SimV]
    · simp only [ho, if_false, Res.bind_ok]
      have := peek_loop pj i hl i.lim ((i.off : Int) + i.addNext).toNat fuel _ (by omega) (by omega) hI
        (by rw [Env.get_set_self, Int.toNat_of_nonneg (by omega)])
      exact this
  have key : SimV pj.tape i (exec goFuns fuel goIter_PeekNext.body ⟨envOf "i" i, pj.tape⟩) (i.peekNext pj) := by
    rw [hbody, exec, h1]
    simp only []
    rw [exec_cons_final _ _ _ _ _ hloop.final]
    exact hloop
  rw [runFun_final _ _ _ _ key.final]
  exact key

/-! ## Advance -/

/-- outcome of a NOP-skipping loop against its functional reading: a live word leaves the loop normally (`break`),
    a dead exit returns `ret` from inside the loop -/
def LoopSim (tape : Array UInt64) (ret : List Val) (o : Out) (r : Res (Iter × Bool)) : Prop :=
  match r with
  | .ok (j', true) => ∃ s, o = .normal s ∧ s.tape = tape ∧ iterAt s.env "i" = some j' ∧ j'.cur.toNat < 2^56
  | .ok (j', false) => ∃ s, o = .ret s ret ∧ s.tape = tape ∧ iterAt s.env "i" = some j'
  | .panic => o = .panic
  | _ => False

theorem advance_body (e : Env) (tape : Array UInt64) (f : Nat) (j : Iter) (hI : iterAt e "i" = some j)
    (hsz : j.lim ≤ tape.size) :
    exec goFuns (f + 1) (firstLoop goIter_Advance.body) ⟨e, tape⟩ =
      if h : j.off ≥ j.lim then .ret ⟨(e.set "i.addNext" (.int 0)).set "i.t" (.u8 0), tape⟩ [.u8 0] else
        let v := tape[j.off]'(by omega)
        let e1 := (((e.set "v" (.u64 v)).set "i.t" (.u8 (tagOf v))).set "i.off" (.int (j.off + 1))).set "i.cur"
          (.u64 (payloadOf v))
        if tagOf v = tagNop then
          if payloadOf v = 0 then
            .ret ⟨setIter e1 "i" (Iter.moveToEnd { j with off := j.off + 1, cur := payloadOf v, t := tagOf v }), tape⟩
              [.u8 0]
          else .cont ⟨e1.set "i.off" (.int ((j.off : Int) + 1 + (((payloadOf v).toNat : Int) - 1))), tape⟩
        else .brk ⟨e1, tape⟩ := by
  obtain ⟨h1, h2, h3, h4, h5⟩ := iterAt_get_i _ _ hI
  simp only [goIter_Advance, firstLoop]
  by_cases h : j.off ≥ j.lim
  · simp [h1, h2, h3, h4, h5, h]
  · have hlt : j.off < j.lim := by omega
    have hr : tape[j.off]? = some (tape[j.off]'(by omega)) := by simp
    simp only [dif_neg h]
    generalize tape[j.off] = v at hr ⊢
    have ht : (v >>> 56).toUInt8 = tagOf v := rfl
    have hp : v &&& 72057594037927935 = payloadOf v := rfl
    simp only [tagNop]
    by_cases hn : tagOf v = 78
    · by_cases hz : payloadOf v = 0
      · simp [h1, h2, h3, h4, h5, h, hlt, hr, ht, hp, hz, hn, goFuns, goIter_moveToEnd, Env.set, Env.get, setIter,
          Iter.moveToEnd, tagEnd]
      · have hb : (payloadOf v == 0) = false := by simp [hz]
        simp [h1, h2, h3, h4, h5, h, hlt, hr, ht, hp, toInt64_payload, hz, hb, hn]
    · have hb : (tagOf v == 78) = false := by simp [hn]
      simp [h1, h2, h3, h4, h5, h, hlt, hr, ht, hp, hb, hn]

theorem advance_loop (pj : PJ) : ∀ (n : Nat) (j : Iter) (fuel : Nat) (e : Env), j.lim - j.off ≤ n → n + 1 < fuel →
    j.lim ≤ pj.tape.size → iterAt e "i" = some j →
    LoopSim pj.tape [.u8 0] (exec1 goFuns fuel (.loop (firstLoop goIter_Advance.body)) ⟨e, pj.tape⟩)
      (advanceLoopG pj j) := by
  intro n
  induction n with
  | zero =>
    intro j fuel e hn hf hsz hI
    obtain ⟨f, rfl⟩ : ∃ f, fuel = f + 2 := ⟨fuel - 2, by omega⟩
    obtain ⟨h1, h2, h3, h4, h5⟩ := iterAt_get_i _ _ hI
    rw [exec1, advance_body e pj.tape f j hI hsz, advanceLoopG]
    have h : j.off ≥ j.lim := by omega
    simp only [h, dif_pos, LoopSim]
    refine ⟨_, rfl, rfl, ?_⟩
    apply iterAt_of_gets <;> simp [h1, h3, h5, tagEnd]
  | succ n ih =>
    intro j fuel e hn hf hsz hI
    obtain ⟨f, rfl⟩ : ∃ f, fuel = f + 2 := ⟨fuel - 2, by omega⟩
    obtain ⟨h1, h2, h3, h4, h5⟩ := iterAt_get_i _ _ hI
    rw [exec1, advance_body e pj.tape f j hI hsz, advanceLoopG]
    by_cases h : j.off ≥ j.lim
    · simp only [h, dif_pos, LoopSim]
      refine ⟨_, rfl, rfl, ?_⟩
      apply iterAt_of_gets <;> simp [h1, h3, h5, tagEnd]
    · have hr : pj.tape[j.off]? = some (pj.tape[j.off]'(by omega)) := by simp
      simp only [h, dif_neg, not_false_eq_true, Iter.rdT, rd, hr, Res.bind_ok]
      generalize pj.tape[j.off] = v
      by_cases hn' : tagOf v = tagNop
      · by_cases hz : payloadOf v = 0
        · simp only [hn', hz, if_true, beq_self_eq_true, LoopSim]
          exact ⟨_, rfl, rfl, iterAt_setIter_i _ _⟩
        · have hz' := payload_toNat_ne v hz
          simp only [hn', hz, if_true, if_false, beq_self_eq_true, beq_iff_eq]
          refine ih _ (f + 1) _ (by simp only; omega) (by omega) hsz ?_
          apply iterAt_of_gets <;> simp [h2, h5]
          omega
      · have hb : (tagOf v == tagNop) = false := by simp [hn']
        simp only [hn', hb, if_false, LoopSim]
        refine ⟨_, rfl, rfl, ?_, payload_lt v⟩
        apply iterAt_of_gets <;> simp [h2, h5]

/-- the statements after the loop of `Advance`, on any store -/
theorem advance_tail (s : St) (j : Iter) (f : Nat) (hI : iterAt s.env "i" = some j) (hcur : j.cur.toNat < 2^63) :
    ∃ s', exec goFuns (f + 1) (afterLoop goIter_Advance.body) s =
        .ret s' [.u8 (if (j.calcNext false).addNext < 0 then typeNone else tagToType (j.calcNext false).t)] ∧
      s'.tape = s.tape ∧
      iterAt s'.env "i" = some (if (j.calcNext false).addNext < 0 then (j.calcNext false).moveToEnd
        else j.calcNext false) := by
  simp only [goIter_Advance, afterLoop]
  rw [exec, call_calcNext_i s j false f hI hcur]
  simp only []
  have hI2 := iterAt_setIter_i s.env (j.calcNext false)
  generalize setIter s.env "i" (j.calcNext false) = e1 at hI2
  generalize j.calcNext false = j2 at hI2
  obtain ⟨h1, h2, h3, h4, h5⟩ := iterAt_get_i _ _ hI2
  by_cases hneg : j2.addNext < 0
  · simp only [hneg, if_true]
    refine ⟨⟨setIter e1 "i" j2.moveToEnd, s.tape⟩, ?_, rfl, iterAt_setIter_i _ _⟩
    simp [h1, h2, h3, h4, h5, hneg, goFuns, goIter_moveToEnd, Env.set, Env.get, setIter, Iter.moveToEnd, tagEnd,
      typeNone]
  · simp only [hneg, if_false]
    refine ⟨⟨e1, s.tape⟩, ?_, rfl, hI2⟩
    simp [h1, h2, h3, h4, h5, hneg, tagToType]

theorem advance_body_neg (e : Env) (tape : Array UInt64) (fuel : Nat) (o : Int) (lim : Nat) (ho : o < 0)
    (hoff : e.get "i.off" = some (.int o)) (hlim : e.get "i.lim" = some (.int lim)) :
    exec goFuns fuel (firstLoop goIter_Advance.body) ⟨e, tape⟩ = .panic := by
  simp only [goIter_Advance, firstLoop]
  have h1 : ¬ (lim : Int) ≤ o := by omega
  have h2 : ¬ 0 ≤ o := by omega
  simp [hoff, hlim, h1, h2]

theorem advanceG_sim (pj : PJ) (i : Iter) (hl : i.lim ≤ pj.tape.size) (fuel : Nat) (hf : fuelFor i ≤ fuel) :
    SimT pj.tape (runFun goFuns goIter_Advance fuel { env := envOf "i" i, tape := pj.tape }) (advanceG pj i) := by
  have hbody : goIter_Advance.body = .assign "i.off" (.bin .add (.v "i.off") (.v "i.addNext")) ::
      .loop (firstLoop goIter_Advance.body) :: afterLoop goIter_Advance.body := rfl
  have h1 : exec1 goFuns fuel (.assign "i.off" (.bin .add (.v "i.off") (.v "i.addNext"))) ⟨envOf "i" i, pj.tape⟩ =
      .normal ⟨(envOf "i" i).set "i.off" (.int ((i.off : Int) + i.addNext)), pj.tape⟩ := by
    simp [envOf, Env.get]
  unfold fuelFor at hf
  obtain ⟨f, rfl⟩ : ∃ f, fuel = f + 2 := ⟨fuel - 2, by omega⟩
  have key : SimT pj.tape (exec goFuns (f + 2) goIter_Advance.body ⟨envOf "i" i, pj.tape⟩) (advanceG pj i) := by
    rw [hbody, exec, h1]
    simp only []
    unfold advanceG Iter.bump
    by_cases ho : (i.off : Int) + i.addNext < 0
    · have hp : exec1 goFuns (f + 2) (.loop (firstLoop goIter_Advance.body))
          ⟨(envOf "i" i).set "i.off" (.int ((i.off : Int) + i.addNext)), pj.tape⟩ = .panic := by
        rw [exec1, advance_body_neg _ pj.tape (f + 1) _ i.lim ho (Env.get_set_self _ _ _)
          (by simp [envOf, Env.get])]
      rw [exec_cons_final _ _ _ _ _ (by rw [hp]; rfl), hp]
      simp [ho, SimT]
    · simp only [ho, if_false, Res.bind_ok]
      have hI : iterAt ((envOf "i" i).set "i.off" (.int ((i.off : Int) + i.addNext))) "i" =
          some { i with off := ((i.off : Int) + i.addNext).toNat } := by
        apply iterAt_of_gets <;> simp [envOf, Env.get]
        omega
      have hloop := advance_loop pj i.lim { i with off := ((i.off : Int) + i.addNext).toNat } (f + 2) _
        (Nat.sub_le _ _) (by omega) hl hI
      rw [exec]
      generalize exec1 goFuns (f + 2) (.loop (firstLoop goIter_Advance.body))
        ⟨(envOf "i" i).set "i.off" (.int ((i.off : Int) + i.addNext)), pj.tape⟩ = out at hloop ⊢
      cases hg : advanceLoopG pj { i with off := ((i.off : Int) + i.addNext).toNat } with
      | ok r =>
        obtain ⟨a, l⟩ := r
        rw [hg] at hloop
        cases l with
        | true =>
          obtain ⟨s, rfl, hst, hIs, hc⟩ := hloop
          simp only []
          obtain ⟨s', hx, hst', hIs'⟩ := advance_tail s a (f + 1) hIs (by omega)
          rw [hx]
          simp only [Res.bind_ok, Bool.not_true, Bool.false_eq_true, if_false]
          by_cases hneg : (a.calcNext false).addNext < 0
          · simp only [hneg, if_true] at hIs' ⊢
            exact ⟨s', rfl, by rw [hst', hst], hIs'⟩
          · simp only [hneg, if_false] at hIs' ⊢
            exact ⟨s', rfl, by rw [hst', hst], hIs'⟩
        | false =>
          obtain ⟨s, rfl, hst, hIs⟩ := hloop
          simp only [Res.bind_ok, Bool.not_false, if_true, SimT, typeNone]
          exact ⟨s, rfl, hst, hIs⟩
      | panic =>
        rw [hg] at hloop
        simp only [LoopSim] at hloop
        subst hloop
        simp [SimT]
      | error e => rw [hg] at hloop; exact hloop.elim
      | diverge => rw [hg] at hloop; exact hloop.elim
  rw [runFun_final _ _ _ _ key.final]
  exact key

end SJ.GoIter
