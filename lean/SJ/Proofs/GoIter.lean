import SJ.Proofs.GoIterLemmas
set_option linter.unusedVariables false
set_option linter.unusedSimpArgs false
/-
GoIter — the cursor functions of `parsed_json.go`, as printed by the translator (`Generated/GoSrc.lean`) and run by
`GoSem.exec`, against the hand model `Model/Iter.lean`.

For every `pj`, every iterator `i` whose view is inside the tape (`i.lim ≤ pj.tape.size`) and every
`fuel ≥ fuelFor i = i.lim + 8` the interpreter neither gets stuck nor runs out of fuel, and

  * `peekNextTag_sim`, `peekNext_sim`   — `PeekNextTag`, `PeekNext` ARE `Iter.peekNextTag`, `Iter.peekNext`.
  * `advance_sim`, `advanceInto_sim`, `advanceIter_sim`
        — `Advance`, `AdvanceInto`, `AdvanceIter` ARE `Iter.advance`, `Iter.advanceInto`, `Iter.advanceIter`.
          No extra hypothesis: the model's NOP-skipping loops thread the payload and tag registers exactly as the Go
          loops overwrite `i.cur`, `i.t` on every iteration (`advanceLoop_self` … in GoIterLemmas read them with the
          offset kept in the iterator, as Go does).
  * `go_iter_source_tie` bundles the five.
  * the `example`s at the end are a regression for the case these proofs once found (a run of NOP words extending to
          the end of the view): the model now produces Go's state (`cur` = the last NOP's skip count and, in
          `AdvanceIter`, `off = len(tape)`).

Initial `i.cur` needs no bound (`int(i.cur)` is only evaluated after `i.cur = v & JSONVALUEMASK`); `dst` is arbitrary
(`*dst = *i` copies the view, as the model's `d.lim = i.lim`).

The proofs run the syntax trees: any edit of these Go functions changes `Generated/GoSrc.lean` and breaks them.
-/
namespace SJ.GoIter
open SJ SJ.GoSem SJ.Generated

attribute [local simp] exec exec1 execCases evalE evalEs isOneOf binop convert ofE copyFields bindParams
  iterFields runFun tblLookup Env.get_set

/-! ## outcomes that end a function -/

def Out.final : Out → Bool
  | .ret _ _ => true
  | .panic => true
  | _ => false

theorem exec_cons_final (funs : String → Option FunDef) (fuel : Nat) (st : Stmt) (rest : List Stmt) (s : St)
    (h : Out.final (exec1 funs fuel st s) = true) : exec funs fuel (st :: rest) s = exec1 funs fuel st s := by
  rw [exec]
  cases hh : exec1 funs fuel st s <;> simp_all [Out.final]

theorem runFun_final (funs : String → Option FunDef) (fd : FunDef) (fuel : Nat) (s : St)
    (h : Out.final (exec funs fuel fd.body s) = true) : runFun funs fd fuel s = exec funs fuel fd.body s := by
  unfold runFun
  cases hh : exec funs fuel fd.body s <;> simp_all [Out.final]

theorem SimV.final {tape : Array UInt64} {i : Iter} {o : Out} {r : Res UInt8} (h : SimV tape i o r) :
    Out.final o = true := by
  unfold SimV at h
  split at h
  · obtain ⟨s, h, _⟩ := h; rw [h]; rfl
  · rw [h]; rfl
  · exact h.elim

theorem SimT.final {tape : Array UInt64} {o : Out} {r : Res (Iter × UInt8)} (h : SimT tape o r) :
    Out.final o = true := by
  unfold SimT at h
  split at h
  · obtain ⟨s, h, _⟩ := h; rw [h]; rfl
  · rw [h]; rfl
  · exact h.elim

/-! ## PeekNextTag, PeekNext -/

theorem peekTag_body (e : Env) (tape : Array UInt64) (fuel : Nat) (off lim : Nat)
    (hoff : e.get "off" = some (.int off)) (hlim : e.get "i.lim" = some (.int lim)) (hsz : lim ≤ tape.size) :
    exec goFuns fuel (firstLoop goIter_PeekNextTag.body) ⟨e, tape⟩ =
      if h : off ≥ lim then .ret ⟨e, tape⟩ [.u8 0] else
        let v := tape[off]'(by omega)
        let e1 := (e.set "v" (.u64 v)).set "t" (.u8 (tagOf v))
        if tagOf v = tagNop then
          let e2 := e1.set "skip" (.int (payloadOf v).toNat)
          if payloadOf v = 0 then .ret ⟨e2, tape⟩ [.u8 0]
          else .cont ⟨e2.set "off" (.int ((off + (payloadOf v).toNat : Nat) : Int)), tape⟩
        else .ret ⟨e1, tape⟩ [.u8 (tagOf v)] := by
  simp only [goIter_PeekNextTag, firstLoop]
  by_cases h : off ≥ lim
  · simp [hoff, hlim, h]
  · have h1 : off < lim := by omega
    have h2 : tape[off]? = some (tape[off]'(by omega)) := by simp
    simp only [dif_neg h]
    generalize tape[off] = v at h2 ⊢
    have ht : (v >>> 56).toUInt8 = tagOf v := rfl
    have hp : v &&& 72057594037927935 = payloadOf v := rfl
    have hz : (payloadOf v = 0) ↔ (payloadOf v).toNat = 0 := by rw [← UInt64.toNat_inj]; rfl
    simp [hoff, hlim, h, h1, h2, ht, hp, toInt64_payload, hz]
    simp only [tagNop]
    by_cases hn : tagOf v = 78
    · have hb : (tagOf v == 78) = true := by simp [hn]
      by_cases hz : (payloadOf v).toNat = 0
      · simp [hb, hn, hz]
      · simp [hb, hn, hz, hoff]
    · have hb : (tagOf v == 78) = false := by simp [hn]
      simp [hb, hn]

theorem peek_body (e : Env) (tape : Array UInt64) (fuel : Nat) (off lim : Nat)
    (hoff : e.get "off" = some (.int off)) (hlim : e.get "i.lim" = some (.int lim)) (hsz : lim ≤ tape.size) :
    exec goFuns fuel (firstLoop goIter_PeekNext.body) ⟨e, tape⟩ =
      if h : off ≥ lim then .ret ⟨e, tape⟩ [.u8 0] else
        let v := tape[off]'(by omega)
        let e1 := (e.set "v" (.u64 v)).set "t" (.u8 (tagOf v))
        if tagOf v = tagNop then
          let e2 := e1.set "skip" (.int (payloadOf v).toNat)
          if payloadOf v = 0 then .ret ⟨e2, tape⟩ [.u8 0]
          else .cont ⟨e2.set "off" (.int ((off + (payloadOf v).toNat : Nat) : Int)), tape⟩
        else .ret ⟨e1, tape⟩ [.u8 (tagToType (tagOf v))] := by
  simp only [goIter_PeekNext, firstLoop]
  by_cases h : off ≥ lim
  · simp [hoff, hlim, h]
  · have h1 : off < lim := by omega
    have h2 : tape[off]? = some (tape[off]'(by omega)) := by simp
    simp only [dif_neg h]
    generalize tape[off] = v at h2 ⊢
    have ht : (v >>> 56).toUInt8 = tagOf v := rfl
    have hp : v &&& 72057594037927935 = payloadOf v := rfl
    have hz : (payloadOf v = 0) ↔ (payloadOf v).toNat = 0 := by rw [← UInt64.toNat_inj]; rfl
    simp [hoff, hlim, h, h1, h2, ht, hp, toInt64_payload, hz]
    simp only [tagNop]
    by_cases hn : tagOf v = 78
    · have hb : (tagOf v == 78) = true := by simp [hn]
      by_cases hz : (payloadOf v).toNat = 0
      · simp [hb, hn, hz]
      · simp [hb, hn, hz, hoff]
    · have hb : (tagOf v == 78) = false := by simp [hn]
      simp [hb, hn, tagToType]

/-- a negative offset: the bounds check of the first read fails -/
theorem peekTag_body_neg (e : Env) (tape : Array UInt64) (fuel : Nat) (o : Int) (lim : Nat) (ho : o < 0)
    (hoff : e.get "off" = some (.int o)) (hlim : e.get "i.lim" = some (.int lim)) :
    exec goFuns fuel (firstLoop goIter_PeekNextTag.body) ⟨e, tape⟩ = .panic := by
  simp only [goIter_PeekNextTag, firstLoop]
  have h1 : ¬ (lim : Int) ≤ o := by omega
  have h2 : ¬ 0 ≤ o := by omega
  simp [hoff, hlim, h1, h2]

theorem peek_body_neg (e : Env) (tape : Array UInt64) (fuel : Nat) (o : Int) (lim : Nat) (ho : o < 0)
    (hoff : e.get "off" = some (.int o)) (hlim : e.get "i.lim" = some (.int lim)) :
    exec goFuns fuel (firstLoop goIter_PeekNext.body) ⟨e, tape⟩ = .panic := by
  simp only [goIter_PeekNext, firstLoop]
  have h1 : ¬ (lim : Int) ≤ o := by omega
  have h2 : ¬ 0 ≤ o := by omega
  simp [hoff, hlim, h1, h2]

theorem peekTag_loop (pj : PJ) (i : Iter) (hl : i.lim ≤ pj.tape.size) :
    ∀ (n off fuel : Nat) (e : Env), i.lim - off ≤ n → n < fuel → iterAt e "i" = some i →
      e.get "off" = some (.int off) →
      SimV pj.tape i (exec1 goFuns fuel (.loop (firstLoop goIter_PeekNextTag.body)) ⟨e, pj.tape⟩)
        (Iter.peekLoop pj i.lim off) := by
  intro n
  induction n with
  | zero =>
    intro off fuel e hn hf hI hoff
    obtain ⟨fuel, rfl⟩ : ∃ f, fuel = f + 1 := ⟨fuel - 1, by omega⟩
    have hlim := (iterAt_get e "i" i hI).2.2.2.2
    simp only [String.reduceAppend] at hlim
    rw [exec1, peekTag_body e pj.tape fuel off i.lim hoff hlim hl, Iter.peekLoop]
    have : off ≥ i.lim := by omega
    simp only [this, dif_pos, SimV, tagEnd]
    exact ⟨_, rfl, rfl, hI⟩
  | succ n ih =>
    intro off fuel e hn hf hI hoff
    obtain ⟨fuel, rfl⟩ : ∃ f, fuel = f + 1 := ⟨fuel - 1, by omega⟩
    have hlim := (iterAt_get e "i" i hI).2.2.2.2
    simp only [String.reduceAppend] at hlim
    rw [exec1, peekTag_body e pj.tape fuel off i.lim hoff hlim hl, Iter.peekLoop]
    by_cases h : off ≥ i.lim
    · simp only [h, dif_pos, SimV, tagEnd]
      exact ⟨_, rfl, rfl, hI⟩
    · have h2 : pj.tape[off]? = some (pj.tape[off]'(by omega)) := by simp
      simp only [h, dif_neg, not_false_eq_true, Iter.rdT, rd, h2, Res.bind_ok]
      generalize pj.tape[off] = v
      by_cases hn : tagOf v = tagNop
      · by_cases hz : payloadOf v = 0
        · simp only [hn, hz, SimV, tagEnd, if_true, beq_self_eq_true, UInt64.toNat_zero]
          refine ⟨_, rfl, rfl, ?_⟩
          simp (disch := decide) only [iterAt_set_ne, hI]
        · have hz' := payload_toNat_ne v hz
          simp only [hn, hz, hz', if_true, if_false, beq_self_eq_true]
          exact ih (off + (payloadOf v).toNat) fuel _ (by omega) (by omega)
            (by simp (disch := decide) only [iterAt_set_ne, hI]) (by simp)
      · have hb : (tagOf v == tagNop) = false := by simp [hn]
        simp only [hn, hb, SimV, if_false]
        refine ⟨_, rfl, rfl, ?_⟩
        simp (disch := decide) only [iterAt_set_ne, hI]

theorem peek_loop (pj : PJ) (i : Iter) (hl : i.lim ≤ pj.tape.size) :
    ∀ (n off fuel : Nat) (e : Env), i.lim - off ≤ n → n < fuel → iterAt e "i" = some i →
      e.get "off" = some (.int off) →
      SimV pj.tape i (exec1 goFuns fuel (.loop (firstLoop goIter_PeekNext.body)) ⟨e, pj.tape⟩)
        ((Iter.peekLoop pj i.lim off).bind (fun t => .ok (tagToType t))) := by
  intro n
  induction n with
  | zero =>
    intro off fuel e hn hf hI hoff
    obtain ⟨fuel, rfl⟩ : ∃ f, fuel = f + 1 := ⟨fuel - 1, by omega⟩
    have hlim := (iterAt_get e "i" i hI).2.2.2.2
    simp only [String.reduceAppend] at hlim
    rw [exec1, peek_body e pj.tape fuel off i.lim hoff hlim hl, Iter.peekLoop]
    have : off ≥ i.lim := by omega
    simp only [this, dif_pos, SimV, tagEnd, Res.bind, tagToType_end]
    exact ⟨_, rfl, rfl, hI⟩
  | succ n ih =>
    intro off fuel e hn hf hI hoff
    obtain ⟨fuel, rfl⟩ : ∃ f, fuel = f + 1 := ⟨fuel - 1, by omega⟩
    have hlim := (iterAt_get e "i" i hI).2.2.2.2
    simp only [String.reduceAppend] at hlim
    rw [exec1, peek_body e pj.tape fuel off i.lim hoff hlim hl, Iter.peekLoop]
    by_cases h : off ≥ i.lim
    · simp only [h, dif_pos, SimV, tagEnd, Res.bind, tagToType_end]
      exact ⟨_, rfl, rfl, hI⟩
    · have h2 : pj.tape[off]? = some (pj.tape[off]'(by omega)) := by simp
      simp only [h, dif_neg, not_false_eq_true, Iter.rdT, rd, h2, Res.bind_ok]
      generalize pj.tape[off] = v
      by_cases hn : tagOf v = tagNop
      · by_cases hz : payloadOf v = 0
        · simp only [hn, hz, SimV, tagEnd, if_true, beq_self_eq_true, UInt64.toNat_zero, Res.bind, tagToType_end]
          refine ⟨_, rfl, rfl, ?_⟩
          simp (disch := decide) only [iterAt_set_ne, hI]
        · have hz' := payload_toNat_ne v hz
          simp only [hn, hz, hz', if_true, if_false, beq_self_eq_true]
          exact ih (off + (payloadOf v).toNat) fuel _ (by omega) (by omega)
            (by simp (disch := decide) only [iterAt_set_ne, hI]) (by simp)
      · have hb : (tagOf v == tagNop) = false := by simp [hn]
        simp only [hn, hb, SimV, if_false, Res.bind]
        refine ⟨_, rfl, rfl, ?_⟩
        simp (disch := decide) only [iterAt_set_ne, hI]

theorem peekNextTag_sim (pj : PJ) (i : Iter) (hl : i.lim ≤ pj.tape.size) (fuel : Nat) (hf : fuelFor i ≤ fuel) :
    SimV pj.tape i (runFun goFuns goIter_PeekNextTag fuel { env := envOf "i" i, tape := pj.tape })
      (i.peekNextTag pj) := by
  have hbody : goIter_PeekNextTag.body = [.assign "off" (.bin .add (.v "i.off") (.v "i.addNext")),
      .loop (firstLoop goIter_PeekNextTag.body)] := rfl
  have h1 : exec1 goFuns fuel (.assign "off" (.bin .add (.v "i.off") (.v "i.addNext"))) ⟨envOf "i" i, pj.tape⟩ =
      .normal ⟨(envOf "i" i).set "off" (.int ((i.off : Int) + i.addNext)), pj.tape⟩ := by
    simp [envOf, Env.get]
  have hI : iterAt ((envOf "i" i).set "off" (.int ((i.off : Int) + i.addNext))) "i" = some i := by
    simp (disch := decide) only [iterAt_set_ne, iterAt_envOf]
  have hloop : SimV pj.tape i (exec1 goFuns fuel (.loop (firstLoop goIter_PeekNextTag.body))
      ⟨(envOf "i" i).set "off" (.int ((i.off : Int) + i.addNext)), pj.tape⟩) (i.peekNextTag pj) := by
    unfold Iter.peekNextTag Iter.bump
    unfold fuelFor at hf
    by_cases ho : (i.off : Int) + i.addNext < 0
    · obtain ⟨f, rfl⟩ : ∃ f, fuel = f + 1 := ⟨fuel - 1, by omega⟩
      have hlim := (iterAt_get _ "i" i hI).2.2.2.2
      simp only [String.reduceAppend] at hlim
      rw [exec1, peekTag_body_neg _ pj.tape f _ i.lim ho (Env.get_set_self _ _ _) hlim]
      simp [ho, SimV]
    · simp only [ho, if_false, Res.bind_ok]
      have := peekTag_loop pj i hl i.lim ((i.off : Int) + i.addNext).toNat fuel _ (by omega) (by omega) hI
        (by rw [Env.get_set_self, Int.toNat_of_nonneg (by omega)])
      exact this
  have key : SimV pj.tape i (exec goFuns fuel goIter_PeekNextTag.body ⟨envOf "i" i, pj.tape⟩) (i.peekNextTag pj) := by
    rw [hbody, exec, h1]
    simp only []
    rw [exec_cons_final _ _ _ _ _ hloop.final]
    exact hloop
  rw [runFun_final _ _ _ _ key.final]
  exact key

theorem peekNext_sim (pj : PJ) (i : Iter) (hl : i.lim ≤ pj.tape.size) (fuel : Nat) (hf : fuelFor i ≤ fuel) :
    SimV pj.tape i (runFun goFuns goIter_PeekNext fuel { env := envOf "i" i, tape := pj.tape })
      (i.peekNext pj) := by
  have hbody : goIter_PeekNext.body = [.assign "off" (.bin .add (.v "i.off") (.v "i.addNext")),
      .loop (firstLoop goIter_PeekNext.body)] := rfl
  have h1 : exec1 goFuns fuel (.assign "off" (.bin .add (.v "i.off") (.v "i.addNext"))) ⟨envOf "i" i, pj.tape⟩ =
      .normal ⟨(envOf "i" i).set "off" (.int ((i.off : Int) + i.addNext)), pj.tape⟩ := by
    simp [envOf, Env.get]
  have hI : iterAt ((envOf "i" i).set "off" (.int ((i.off : Int) + i.addNext))) "i" = some i := by
    simp (disch := decide) only [iterAt_set_ne, iterAt_envOf]
  have hloop : SimV pj.tape i (exec1 goFuns fuel (.loop (firstLoop goIter_PeekNext.body))
      ⟨(envOf "i" i).set "off" (.int ((i.off : Int) + i.addNext)), pj.tape⟩) (i.peekNext pj) := by
    unfold Iter.peekNext Iter.peekNextTag Iter.bump
    unfold fuelFor at hf
    by_cases ho : (i.off : Int) + i.addNext < 0
    · obtain ⟨f, rfl⟩ : ∃ f, fuel = f + 1 := ⟨fuel - 1, by omega⟩
      have hlim := (iterAt_get _ "i" i hI).2.2.2.2
      simp only [String.reduceAppend] at hlim
      rw [exec1, peek_body_neg _ pj.tape f _ i.lim ho (Env.get_set_self _ _ _) hlim]
      simp [ho, SimV]
    · simp only [ho, if_false, Res.bind_ok]
      have := peek_loop pj i hl i.lim ((i.off : Int) + i.addNext).toNat fuel _ (by omega) (by omega) hI
        (by rw [Env.get_set_self, Int.toNat_of_nonneg (by omega)])
      exact this
  have key : SimV pj.tape i (exec goFuns fuel goIter_PeekNext.body ⟨envOf "i" i, pj.tape⟩) (i.peekNext pj) := by
    rw [hbody, exec, h1]
    simp only []
    rw [exec_cons_final _ _ _ _ _ hloop.final]
    exact hloop
  rw [runFun_final _ _ _ _ key.final]
  exact key

/-! ## Advance -/

/-- outcome of a NOP-skipping loop against its functional reading: a live word leaves the loop normally (`break`),
    a dead exit returns `ret` from inside the loop -/
def LoopSim (tape : Array UInt64) (ret : List Val) (o : Out) (r : Res (Iter × Bool)) : Prop :=
  match r with
  | .ok (j', true) => ∃ s, o = .normal s ∧ s.tape = tape ∧ iterAt s.env "i" = some j' ∧ j'.cur.toNat < 2^56
  | .ok (j', false) => ∃ s, o = .ret s ret ∧ s.tape = tape ∧ iterAt s.env "i" = some j'
  | .panic => o = .panic
  | _ => False

theorem advance_body (e : Env) (tape : Array UInt64) (f : Nat) (j : Iter) (hI : iterAt e "i" = some j)
    (hsz : j.lim ≤ tape.size) :
    exec goFuns (f + 1) (firstLoop goIter_Advance.body) ⟨e, tape⟩ =
      if h : j.off ≥ j.lim then .ret ⟨(e.set "i.addNext" (.int 0)).set "i.t" (.u8 0), tape⟩ [.u8 0] else
        let v := tape[j.off]'(by omega)
        let e1 := (((e.set "v" (.u64 v)).set "i.t" (.u8 (tagOf v))).set "i.off" (.int (j.off + 1))).set "i.cur"
          (.u64 (payloadOf v))
        if tagOf v = tagNop then
          if payloadOf v = 0 then
            .ret ⟨setIter e1 "i" (Iter.moveToEnd { j with off := j.off + 1, cur := payloadOf v, t := tagOf v }), tape⟩
              [.u8 0]
          else .cont ⟨e1.set "i.off" (.int ((j.off : Int) + 1 + (((payloadOf v).toNat : Int) - 1))), tape⟩
        else .brk ⟨e1, tape⟩ := by
  obtain ⟨h1, h2, h3, h4, h5⟩ := iterAt_get_i _ _ hI
  simp only [goIter_Advance, firstLoop]
  by_cases h : j.off ≥ j.lim
  · simp [h1, h2, h3, h4, h5, h]
  · have hlt : j.off < j.lim := by omega
    have hr : tape[j.off]? = some (tape[j.off]'(by omega)) := by simp
    simp only [dif_neg h]
    generalize tape[j.off] = v at hr ⊢
    have ht : (v >>> 56).toUInt8 = tagOf v := rfl
    have hp : v &&& 72057594037927935 = payloadOf v := rfl
    simp only [tagNop]
    by_cases hn : tagOf v = 78
    · by_cases hz : payloadOf v = 0
      · simp [h1, h2, h3, h4, h5, h, hlt, hr, ht, hp, hz, hn, goFuns, goIter_moveToEnd, Env.set, Env.get, setIter,
          Iter.moveToEnd, tagEnd]
      · have hb : (payloadOf v == 0) = false := by simp [hz]
        simp [h1, h2, h3, h4, h5, h, hlt, hr, ht, hp, toInt64_payload, hz, hb, hn]
    · have hb : (tagOf v == 78) = false := by simp [hn]
      simp [h1, h2, h3, h4, h5, h, hlt, hr, ht, hp, hb, hn]

theorem advance_loop (pj : PJ) : ∀ (n : Nat) (j : Iter) (fuel : Nat) (e : Env), j.lim - j.off ≤ n → n + 1 < fuel →
    j.lim ≤ pj.tape.size → iterAt e "i" = some j →
    LoopSim pj.tape [.u8 0] (exec1 goFuns fuel (.loop (firstLoop goIter_Advance.body)) ⟨e, pj.tape⟩)
      (Iter.advanceLoop pj j j.off) := by
  intro n
  induction n with
  | zero =>
    intro j fuel e hn hf hsz hI
    obtain ⟨f, rfl⟩ : ∃ f, fuel = f + 2 := ⟨fuel - 2, by omega⟩
    obtain ⟨h1, h2, h3, h4, h5⟩ := iterAt_get_i _ _ hI
    rw [exec1, advance_body e pj.tape f j hI hsz, advanceLoop_self]
    have h : j.off ≥ j.lim := by omega
    simp only [h, dif_pos, LoopSim]
    refine ⟨_, rfl, rfl, ?_⟩
    apply iterAt_of_gets <;> simp [h1, h3, h5, tagEnd]
  | succ n ih =>
    intro j fuel e hn hf hsz hI
    obtain ⟨f, rfl⟩ : ∃ f, fuel = f + 2 := ⟨fuel - 2, by omega⟩
    obtain ⟨h1, h2, h3, h4, h5⟩ := iterAt_get_i _ _ hI
    rw [exec1, advance_body e pj.tape f j hI hsz, advanceLoop_self]
    by_cases h : j.off ≥ j.lim
    · simp only [h, dif_pos, LoopSim]
      refine ⟨_, rfl, rfl, ?_⟩
      apply iterAt_of_gets <;> simp [h1, h3, h5, tagEnd]
    · have hr : pj.tape[j.off]? = some (pj.tape[j.off]'(by omega)) := by simp
      simp only [h, dif_neg, not_false_eq_true, Iter.rdT, rd, hr, Res.bind_ok]
      generalize pj.tape[j.off] = v
      by_cases hn' : tagOf v = tagNop
      · by_cases hz : payloadOf v = 0
        · simp only [hn', hz, if_true, beq_self_eq_true, LoopSim]
          exact ⟨_, rfl, rfl, iterAt_setIter_i _ _⟩
        · have hz' := payload_toNat_ne v hz
          simp only [hn', hz, if_true, if_false, beq_self_eq_true, beq_iff_eq]
          refine ih _ (f + 1) _ (by simp only; omega) (by omega) hsz ?_
          apply iterAt_of_gets <;> simp [h2, h5]
          omega
      · have hb : (tagOf v == tagNop) = false := by simp [hn']
        simp only [hn', hb, if_false, LoopSim]
        refine ⟨_, rfl, rfl, ?_, payload_lt v⟩
        apply iterAt_of_gets <;> simp [h2, h5]

/-- the statements after the loop of `Advance`, on any store -/
theorem advance_tail (s : St) (j : Iter) (f : Nat) (hI : iterAt s.env "i" = some j) (hcur : j.cur.toNat < 2^63) :
    ∃ s', exec goFuns (f + 1) (afterLoop goIter_Advance.body) s =
        .ret s' [.u8 (if (j.calcNext false).addNext < 0 then typeNone else tagToType (j.calcNext false).t)] ∧
      s'.tape = s.tape ∧
      iterAt s'.env "i" = some (if (j.calcNext false).addNext < 0 then (j.calcNext false).moveToEnd
        else j.calcNext false) := by
  simp only [goIter_Advance, afterLoop]
  rw [exec, call_calcNext_i s j false f hI hcur]
  simp only []
  have hI2 := iterAt_setIter_i s.env (j.calcNext false)
  generalize setIter s.env "i" (j.calcNext false) = e1 at hI2
  generalize j.calcNext false = j2 at hI2
  obtain ⟨h1, h2, h3, h4, h5⟩ := iterAt_get_i _ _ hI2
  by_cases hneg : j2.addNext < 0
  · simp only [hneg, if_true]
    refine ⟨⟨setIter e1 "i" j2.moveToEnd, s.tape⟩, ?_, rfl, iterAt_setIter_i _ _⟩
    simp [h1, h2, h3, h4, h5, hneg, goFuns, goIter_moveToEnd, Env.set, Env.get, setIter, Iter.moveToEnd, tagEnd,
      typeNone]
  · simp only [hneg, if_false]
    refine ⟨⟨e1, s.tape⟩, ?_, rfl, hI2⟩
    simp [h1, h2, h3, h4, h5, hneg, tagToType]

theorem advance_body_neg (e : Env) (tape : Array UInt64) (fuel : Nat) (o : Int) (lim : Nat) (ho : o < 0)
    (hoff : e.get "i.off" = some (.int o)) (hlim : e.get "i.lim" = some (.int lim)) :
    exec goFuns fuel (firstLoop goIter_Advance.body) ⟨e, tape⟩ = .panic := by
  simp only [goIter_Advance, firstLoop]
  have h1 : ¬ (lim : Int) ≤ o := by omega
  have h2 : ¬ 0 ≤ o := by omega
  simp [hoff, hlim, h1, h2]

theorem advance_sim (pj : PJ) (i : Iter) (hl : i.lim ≤ pj.tape.size) (fuel : Nat) (hf : fuelFor i ≤ fuel) :
    SimT pj.tape (runFun goFuns goIter_Advance fuel { env := envOf "i" i, tape := pj.tape }) (i.advance pj) := by
  have hbody : goIter_Advance.body = .assign "i.off" (.bin .add (.v "i.off") (.v "i.addNext")) ::
      .loop (firstLoop goIter_Advance.body) :: afterLoop goIter_Advance.body := rfl
  have h1 : exec1 goFuns fuel (.assign "i.off" (.bin .add (.v "i.off") (.v "i.addNext"))) ⟨envOf "i" i, pj.tape⟩ =
      .normal ⟨(envOf "i" i).set "i.off" (.int ((i.off : Int) + i.addNext)), pj.tape⟩ := by
    simp [envOf, Env.get]
  unfold fuelFor at hf
  obtain ⟨f, rfl⟩ : ∃ f, fuel = f + 2 := ⟨fuel - 2, by omega⟩
  have key : SimT pj.tape (exec goFuns (f + 2) goIter_Advance.body ⟨envOf "i" i, pj.tape⟩) (i.advance pj) := by
    rw [hbody, exec, h1]
    simp only []
    unfold Iter.advance Iter.bump
    by_cases ho : (i.off : Int) + i.addNext < 0
    · have hp : exec1 goFuns (f + 2) (.loop (firstLoop goIter_Advance.body))
          ⟨(envOf "i" i).set "i.off" (.int ((i.off : Int) + i.addNext)), pj.tape⟩ = .panic := by
        rw [exec1, advance_body_neg _ pj.tape (f + 1) _ i.lim ho (Env.get_set_self _ _ _)
          (by simp [envOf, Env.get])]
      rw [exec_cons_final _ _ _ _ _ (by rw [hp]; rfl), hp]
      simp [ho, SimT]
    · simp only [ho, if_false, Res.bind_ok]
      have hI : iterAt ((envOf "i" i).set "i.off" (.int ((i.off : Int) + i.addNext))) "i" =
          some { i with off := ((i.off : Int) + i.addNext).toNat } := by
        apply iterAt_of_gets <;> simp [envOf, Env.get]
        omega
      have hloop := advance_loop pj i.lim { i with off := ((i.off : Int) + i.addNext).toNat } (f + 2) _
        (Nat.sub_le _ _) (by omega) hl hI
      simp only at hloop
      rw [advanceLoop_off pj _ i _ (Nat.le_refl _)]
      rw [exec]
      generalize exec1 goFuns (f + 2) (.loop (firstLoop goIter_Advance.body))
        ⟨(envOf "i" i).set "i.off" (.int ((i.off : Int) + i.addNext)), pj.tape⟩ = out at hloop ⊢
      cases hg : Iter.advanceLoop pj { i with off := ((i.off : Int) + i.addNext).toNat } ((i.off : Int) + i.addNext).toNat with
      | ok r =>
        obtain ⟨a, l⟩ := r
        rw [hg] at hloop
        cases l with
        | true =>
          obtain ⟨s, rfl, hst, hIs, hc⟩ := hloop
          simp only []
          obtain ⟨s', hx, hst', hIs'⟩ := advance_tail s a (f + 1) hIs (by omega)
          rw [hx]
          simp only [Res.bind_ok, Bool.not_true, Bool.false_eq_true, if_false]
          by_cases hneg : (a.calcNext false).addNext < 0
          · simp only [hneg, if_true] at hIs' ⊢
            exact ⟨s', rfl, by rw [hst', hst], hIs'⟩
          · simp only [hneg, if_false] at hIs' ⊢
            exact ⟨s', rfl, by rw [hst', hst], hIs'⟩
        | false =>
          obtain ⟨s, rfl, hst, hIs⟩ := hloop
          simp only [Res.bind_ok, Bool.not_false, if_true, SimT, typeNone]
          exact ⟨s, rfl, hst, hIs⟩
      | panic =>
        rw [hg] at hloop
        simp only [LoopSim] at hloop
        subst hloop
        simp [SimT]
      | error e => rw [hg] at hloop; exact hloop.elim
      | diverge => rw [hg] at hloop; exact hloop.elim
  rw [runFun_final _ _ _ _ key.final]
  exact key

/-! ## AdvanceInto -/

theorem advanceInto_body (e : Env) (tape : Array UInt64) (f : Nat) (j : Iter) (hI : iterAt e "i" = some j)
    (hsz : j.lim ≤ tape.size) :
    exec goFuns (f + 1) (firstLoop goIter_AdvanceInto.body) ⟨e, tape⟩ =
      if h : j.off ≥ j.lim then .ret ⟨(e.set "i.addNext" (.int 0)).set "i.t" (.u8 0), tape⟩ [.u8 0] else
        let v := tape[j.off]'(by omega)
        let e1 := ((e.set "v" (.u64 v)).set "i.t" (.u8 (tagOf v))).set "i.cur" (.u64 (payloadOf v))
        if tagOf v = tagNop then
          if payloadOf v = 0 then
            .ret ⟨setIter e1 "i" (Iter.moveToEnd { j with cur := payloadOf v, t := tagOf v }), tape⟩ [.u8 0]
          else .cont ⟨e1.set "i.off" (.int ((j.off : Int) + ((payloadOf v).toNat : Int))), tape⟩
        else .brk ⟨e1.set "i.off" (.int ((j.off : Int) + 1)), tape⟩ := by
  obtain ⟨h1, h2, h3, h4, h5⟩ := iterAt_get_i _ _ hI
  simp only [goIter_AdvanceInto, firstLoop]
  by_cases h : j.off ≥ j.lim
  · simp [h1, h2, h3, h4, h5, h]
  · have hlt : j.off < j.lim := by omega
    have hr : tape[j.off]? = some (tape[j.off]'(by omega)) := by simp
    simp only [dif_neg h]
    generalize tape[j.off] = v at hr ⊢
    have ht : (v >>> 56).toUInt8 = tagOf v := rfl
    have hp : v &&& 72057594037927935 = payloadOf v := rfl
    simp only [tagNop]
    by_cases hn : tagOf v = 78
    · by_cases hz : payloadOf v = 0
      · simp [h1, h2, h3, h4, h5, h, hlt, hr, ht, hp, hz, hn, goFuns, goIter_moveToEnd, Env.set, Env.get, setIter,
          Iter.moveToEnd, tagEnd]
      · simp [h1, h2, h3, h4, h5, h, hlt, hr, ht, hp, toInt64_payload, hz, hn, u64_le_zero]
    · have hb : (tagOf v == 78) = false := by simp [hn]
      simp [h1, h2, h3, h4, h5, h, hlt, hr, ht, hp, hb, hn]

theorem advanceInto_body_neg (e : Env) (tape : Array UInt64) (fuel : Nat) (o : Int) (lim : Nat) (ho : o < 0)
    (hoff : e.get "i.off" = some (.int o)) (hlim : e.get "i.lim" = some (.int lim)) :
    exec goFuns fuel (firstLoop goIter_AdvanceInto.body) ⟨e, tape⟩ = .panic := by
  simp only [goIter_AdvanceInto, firstLoop]
  have h1 : ¬ (lim : Int) ≤ o := by omega
  have h2 : ¬ 0 ≤ o := by omega
  simp [hoff, hlim, h1, h2]

theorem advanceInto_loop (pj : PJ) : ∀ (n : Nat) (j : Iter) (fuel : Nat) (e : Env), j.lim - j.off ≤ n →
    n + 1 < fuel → j.lim ≤ pj.tape.size → iterAt e "i" = some j →
    LoopSim pj.tape [.u8 0] (exec1 goFuns fuel (.loop (firstLoop goIter_AdvanceInto.body)) ⟨e, pj.tape⟩)
      (Iter.advanceIntoLoop pj j j.off) := by
  intro n
  induction n with
  | zero =>
    intro j fuel e hn hf hsz hI
    obtain ⟨f, rfl⟩ : ∃ f, fuel = f + 2 := ⟨fuel - 2, by omega⟩
    obtain ⟨h1, h2, h3, h4, h5⟩ := iterAt_get_i _ _ hI
    rw [exec1, advanceInto_body e pj.tape f j hI hsz, advanceIntoLoop_self]
    have h : j.off ≥ j.lim := by omega
    simp only [h, dif_pos, LoopSim]
    refine ⟨_, rfl, rfl, ?_⟩
    apply iterAt_of_gets <;> simp [h1, h3, h5, tagEnd]
  | succ n ih =>
    intro j fuel e hn hf hsz hI
    obtain ⟨f, rfl⟩ : ∃ f, fuel = f + 2 := ⟨fuel - 2, by omega⟩
    obtain ⟨h1, h2, h3, h4, h5⟩ := iterAt_get_i _ _ hI
    rw [exec1, advanceInto_body e pj.tape f j hI hsz, advanceIntoLoop_self]
    by_cases h : j.off ≥ j.lim
    · simp only [h, dif_pos, LoopSim]
      refine ⟨_, rfl, rfl, ?_⟩
      apply iterAt_of_gets <;> simp [h1, h3, h5, tagEnd]
    · have hr : pj.tape[j.off]? = some (pj.tape[j.off]'(by omega)) := by simp
      simp only [h, dif_neg, not_false_eq_true, Iter.rdT, rd, hr, Res.bind_ok]
      generalize pj.tape[j.off] = v
      by_cases hn' : tagOf v = tagNop
      · by_cases hz : payloadOf v = 0
        · simp only [hn', hz, if_true, beq_self_eq_true, LoopSim, dite_true]
          exact ⟨_, rfl, rfl, iterAt_setIter_i _ _⟩
        · have hz' := payload_toNat_ne v hz
          simp only [hn', hz, if_true, if_false, beq_self_eq_true, beq_iff_eq, dite_false, dif_neg, not_false_eq_true]
          refine ih _ (f + 1) _ (by simp only; omega) (by omega) hsz ?_
          apply iterAt_of_gets <;> simp [h2, h5]
      · have hb : (tagOf v == tagNop) = false := by simp [hn']
        simp only [hn', hb, if_false, LoopSim]
        refine ⟨_, rfl, rfl, ?_, payload_lt v⟩
        apply iterAt_of_gets <;> simp [h2, h5]

/-- the statements after the loop of `AdvanceInto`, on any store -/
theorem advanceInto_tail (s : St) (j : Iter) (f : Nat) (hI : iterAt s.env "i" = some j) (hcur : j.cur.toNat < 2^63) :
    ∃ s', exec goFuns (f + 1) (afterLoop goIter_AdvanceInto.body) s =
        .ret s' [.u8 (if (j.calcNext true).addNext < 0 then tagEnd else (j.calcNext true).t)] ∧
      s'.tape = s.tape ∧
      iterAt s'.env "i" = some (if (j.calcNext true).addNext < 0 then (j.calcNext true).moveToEnd
        else j.calcNext true) := by
  simp only [goIter_AdvanceInto, afterLoop]
  rw [exec, call_calcNext_i s j true f hI hcur]
  simp only []
  have hI2 := iterAt_setIter_i s.env (j.calcNext true)
  generalize setIter s.env "i" (j.calcNext true) = e1 at hI2
  generalize j.calcNext true = j2 at hI2
  obtain ⟨h1, h2, h3, h4, h5⟩ := iterAt_get_i _ _ hI2
  by_cases hneg : j2.addNext < 0
  · simp only [hneg, if_true]
    refine ⟨⟨setIter e1 "i" j2.moveToEnd, s.tape⟩, ?_, rfl, iterAt_setIter_i _ _⟩
    simp [h1, h2, h3, h4, h5, hneg, goFuns, goIter_moveToEnd, Env.set, Env.get, setIter, Iter.moveToEnd, tagEnd]
  · simp only [hneg, if_false]
    refine ⟨⟨e1, s.tape⟩, ?_, rfl, hI2⟩
    simp [h1, h2, h3, h4, h5, hneg]

theorem advanceInto_sim (pj : PJ) (i : Iter) (hl : i.lim ≤ pj.tape.size) (fuel : Nat) (hf : fuelFor i ≤ fuel) :
    SimT pj.tape (runFun goFuns goIter_AdvanceInto fuel { env := envOf "i" i, tape := pj.tape })
      (i.advanceInto pj) := by
  have hbody : goIter_AdvanceInto.body = .assign "i.off" (.bin .add (.v "i.off") (.v "i.addNext")) ::
      .loop (firstLoop goIter_AdvanceInto.body) :: afterLoop goIter_AdvanceInto.body := rfl
  have h1 : exec1 goFuns fuel (.assign "i.off" (.bin .add (.v "i.off") (.v "i.addNext"))) ⟨envOf "i" i, pj.tape⟩ =
      .normal ⟨(envOf "i" i).set "i.off" (.int ((i.off : Int) + i.addNext)), pj.tape⟩ := by
    simp [envOf, Env.get]
  unfold fuelFor at hf
  obtain ⟨f, rfl⟩ : ∃ f, fuel = f + 2 := ⟨fuel - 2, by omega⟩
  have key : SimT pj.tape (exec goFuns (f + 2) goIter_AdvanceInto.body ⟨envOf "i" i, pj.tape⟩)
      (i.advanceInto pj) := by
    rw [hbody, exec, h1]
    simp only []
    unfold Iter.advanceInto Iter.bump
    by_cases ho : (i.off : Int) + i.addNext < 0
    · have hp : exec1 goFuns (f + 2) (.loop (firstLoop goIter_AdvanceInto.body))
          ⟨(envOf "i" i).set "i.off" (.int ((i.off : Int) + i.addNext)), pj.tape⟩ = .panic := by
        rw [exec1, advanceInto_body_neg _ pj.tape (f + 1) _ i.lim ho (Env.get_set_self _ _ _)
          (by simp [envOf, Env.get])]
      rw [exec_cons_final _ _ _ _ _ (by rw [hp]; rfl), hp]
      simp [ho, SimT]
    · simp only [ho, if_false, Res.bind_ok]
      have hI : iterAt ((envOf "i" i).set "i.off" (.int ((i.off : Int) + i.addNext))) "i" =
          some { i with off := ((i.off : Int) + i.addNext).toNat } := by
        apply iterAt_of_gets <;> simp [envOf, Env.get]
        omega
      have hloop := advanceInto_loop pj i.lim { i with off := ((i.off : Int) + i.addNext).toNat } (f + 2) _
        (Nat.sub_le _ _) (by omega) hl hI
      simp only at hloop
      rw [advanceIntoLoop_off pj _ i _ (Nat.le_refl _)]
      rw [exec]
      generalize exec1 goFuns (f + 2) (.loop (firstLoop goIter_AdvanceInto.body))
        ⟨(envOf "i" i).set "i.off" (.int ((i.off : Int) + i.addNext)), pj.tape⟩ = out at hloop ⊢
      cases hg : Iter.advanceIntoLoop pj { i with off := ((i.off : Int) + i.addNext).toNat } ((i.off : Int) + i.addNext).toNat with
      | ok r =>
        obtain ⟨a, l⟩ := r
        rw [hg] at hloop
        cases l with
        | true =>
          obtain ⟨s, rfl, hst, hIs, hc⟩ := hloop
          simp only []
          obtain ⟨s', hx, hst', hIs'⟩ := advanceInto_tail s a (f + 1) hIs (by omega)
          rw [hx]
          simp only [Res.bind_ok, Bool.not_true, Bool.false_eq_true, if_false]
          by_cases hneg : (a.calcNext true).addNext < 0
          · simp only [hneg, if_true] at hIs' ⊢
            exact ⟨s', rfl, by rw [hst', hst], hIs'⟩
          · simp only [hneg, if_false] at hIs' ⊢
            exact ⟨s', rfl, by rw [hst', hst], hIs'⟩
        | false =>
          obtain ⟨s, rfl, hst, hIs⟩ := hloop
          simp only [Res.bind_ok, Bool.not_false, if_true, SimT, tagEnd]
          exact ⟨s, rfl, hst, hIs⟩
      | panic =>
        rw [hg] at hloop
        simp only [LoopSim] at hloop
        subst hloop
        simp [SimT]
      | error e => rw [hg] at hloop; exact hloop.elim
      | diverge => rw [hg] at hloop; exact hloop.elim
  rw [runFun_final _ _ _ _ key.final]
  exact key

/-! ## AdvanceIter -/

/-- the loop writes only the receiver's variables and the local `v` -/
def Frame (e e' : Env) : Prop := ∀ k, k ∉ "v" :: fieldsOf "i" → e'.get k = e.get k

theorem Frame.refl (e : Env) : Frame e e := fun _ _ => rfl

theorem Frame.set {e e' : Env} (h : Frame e e') (k : String) (v : Val) (hk : k ∈ "v" :: fieldsOf "i") :
    Frame e (e'.set k v) := by
  intro k' hk'
  have hne : k ≠ k' := by
    intro hh
    subst hh
    exact hk' hk
  rw [Env.get_set_ne _ _ hne]
  exact h k' hk'

theorem Frame.trans {a b c : Env} (h1 : Frame a b) (h2 : Frame b c) : Frame a c :=
  fun k hk => (h2 k hk).trans (h1 k hk)

theorem Frame.iterAt_dst {e e' : Env} (h : Frame e e') : iterAt e' "dst" = iterAt e "dst" := by
  apply iterAt_congr
  intro k hk
  apply h
  revert k
  decide

def LoopSimIter (tape : Array UInt64) (e : Env) (o : Out) (r : Res (Iter × Bool)) : Prop :=
  match r with
  | .ok (j', true) =>
    ∃ s, o = .normal s ∧ s.tape = tape ∧ iterAt s.env "i" = some j' ∧ j'.cur.toNat < 2^56 ∧ Frame e s.env
  | .ok (j', false) =>
    ∃ s, o = .ret s [.u8 0, .bool false] ∧ s.tape = tape ∧ iterAt s.env "i" = some j' ∧ Frame e s.env
  | .error _ => ∃ s, o = .ret s [.u8 0, .bool true]
  | .panic => o = .panic
  | .diverge => False

theorem advanceIter_body (e : Env) (tape : Array UInt64) (f : Nat) (j : Iter) (hI : iterAt e "i" = some j)
    (hsz : j.lim ≤ tape.size) :
    exec goFuns f (firstLoop goIter_AdvanceIter.body) ⟨e, tape⟩ =
      if he : j.off = j.lim then .ret ⟨(e.set "i.addNext" (.int 0)).set "i.t" (.u8 0), tape⟩ [.u8 0, .bool false]
      else if h : j.off > j.lim then .ret ⟨e, tape⟩ [.u8 0, .bool true]
      else
        let v := tape[j.off]'(by omega)
        let e1 := (((e.set "v" (.u64 v)).set "i.cur" (.u64 (payloadOf v))).set "i.t" (.u8 (tagOf v))).set "i.off"
          (.int (j.off + 1))
        if tagOf v = tagNop then
          if payloadOf v = 0 then .ret ⟨e1, tape⟩ [.u8 0, .bool true]
          else .cont ⟨e1.set "i.off" (.int ((j.off : Int) + 1 + (((payloadOf v).toNat : Int) - 1))), tape⟩
        else .brk ⟨e1, tape⟩ := by
  obtain ⟨h1, h2, h3, h4, h5⟩ := iterAt_get_i _ _ hI
  simp only [goIter_AdvanceIter, firstLoop]
  by_cases he : j.off = j.lim
  · simp [h1, h2, h3, h4, h5, he]
  · by_cases h : j.off > j.lim
    · have : (j.lim : Int) < j.off := by omega
      have he' : ((j.off : Int) == (j.lim : Int)) = false := by simp; omega
      simp [h1, h2, h3, h4, h5, he, he', h, this]
    · have hlt : j.off < j.lim := by omega
      have hr : tape[j.off]? = some (tape[j.off]'(by omega)) := by simp
      have hgt : ¬ (j.lim : Int) < j.off := by omega
      have he' : ((j.off : Int) == (j.lim : Int)) = false := by simp; omega
      simp only [dif_neg he, dif_neg h]
      generalize tape[j.off] = v at hr ⊢
      have ht : (v >>> 56).toUInt8 = tagOf v := rfl
      have hp : v &&& 72057594037927935 = payloadOf v := rfl
      simp only [tagNop]
      by_cases hn : tagOf v = 78
      · by_cases hz : payloadOf v = 0
        · simp [h1, h2, h3, h4, h5, he, he', h, hgt, hlt, hr, ht, hp, hz, hn]
        · simp [h1, h2, h3, h4, h5, he, he', h, hgt, hlt, hr, ht, hp, toInt64_payload, hz, hn, u64_le_zero]
      · have hb : (tagOf v == 78) = false := by simp [hn]
        simp [h1, h2, h3, h4, h5, he, he', h, hgt, hlt, hr, ht, hp, hb, hn]

theorem advanceIter_body_neg (e : Env) (tape : Array UInt64) (fuel : Nat) (o : Int) (lim : Nat) (ho : o < 0)
    (hoff : e.get "i.off" = some (.int o)) (hlim : e.get "i.lim" = some (.int lim)) :
    exec goFuns fuel (firstLoop goIter_AdvanceIter.body) ⟨e, tape⟩ = .panic := by
  simp only [goIter_AdvanceIter, firstLoop]
  have h1 : (o == (lim : Int)) = false := by simp; omega
  have h2 : ¬ 0 ≤ o := by omega
  have h3 : ¬ (lim : Int) < o := by omega
  simp [hoff, hlim, h1, h2, h3]

theorem advanceIter_loop (pj : PJ) : ∀ (n : Nat) (j : Iter) (fuel : Nat) (e : Env), j.lim - j.off ≤ n →
    n < fuel → j.lim ≤ pj.tape.size → iterAt e "i" = some j →
    LoopSimIter pj.tape e (exec1 goFuns fuel (.loop (firstLoop goIter_AdvanceIter.body)) ⟨e, pj.tape⟩)
      (Iter.advanceIterLoop pj j j.off) := by
  have hend : ∀ (j : Iter) (f : Nat) (e : Env), j.off ≥ j.lim → j.lim ≤ pj.tape.size → iterAt e "i" = some j →
      LoopSimIter pj.tape e (exec1 goFuns (f + 1) (.loop (firstLoop goIter_AdvanceIter.body)) ⟨e, pj.tape⟩)
        (Iter.advanceIterLoop pj j j.off) := by
    intro j f e h hsz hI
    obtain ⟨h1, h2, h3, h4, h5⟩ := iterAt_get_i _ _ hI
    rw [exec1, advanceIter_body e pj.tape f j hI hsz, advanceIterLoop_self]
    by_cases he : j.off = j.lim
    · simp only [he, dif_pos, LoopSimIter]
      refine ⟨_, rfl, rfl, ?_, ?_⟩
      · apply iterAt_of_gets <;> simp [h1, h3, h5, tagEnd, ← he]
      · exact ((Frame.refl e).set _ _ (by decide)).set _ _ (by decide)
    · have hgt : j.off > j.lim := by omega
      simp only [he, if_false, dif_neg, not_false_eq_true, hgt, dif_pos, LoopSimIter]
      exact ⟨_, rfl⟩
  intro n
  induction n with
  | zero =>
    intro j fuel e hn hf hsz hI
    obtain ⟨f, rfl⟩ : ∃ f, fuel = f + 1 := ⟨fuel - 1, by omega⟩
    exact hend j f e (by omega) hsz hI
  | succ n ih =>
    intro j fuel e hn hf hsz hI
    obtain ⟨f, rfl⟩ : ∃ f, fuel = f + 1 := ⟨fuel - 1, by omega⟩
    by_cases h : j.off ≥ j.lim
    · exact hend j f e h hsz hI
    · obtain ⟨h1, h2, h3, h4, h5⟩ := iterAt_get_i _ _ hI
      rw [exec1, advanceIter_body e pj.tape f j hI hsz, advanceIterLoop_self]
      have he : ¬ j.off = j.lim := by omega
      have hgt : ¬ j.off > j.lim := by omega
      have hr : pj.tape[j.off]? = some (pj.tape[j.off]'(by omega)) := by simp
      simp only [he, hgt, if_false, dif_neg, not_false_eq_true, Iter.rdT, rd, hr, Res.bind_ok]
      generalize pj.tape[j.off] = v
      have hF : Frame e ((((e.set "v" (.u64 v)).set "i.cur" (.u64 (payloadOf v))).set "i.t" (.u8 (tagOf v))).set
          "i.off" (.int (j.off + 1))) :=
        ((((Frame.refl e).set _ _ (by decide)).set _ _ (by decide)).set _ _ (by decide)).set _ _ (by decide)
      by_cases hn' : tagOf v = tagNop
      · by_cases hz : payloadOf v = 0
        · simp only [hn', hz, if_true, beq_self_eq_true, LoopSimIter]
          exact ⟨_, rfl⟩
        · have hz' := payload_toNat_ne v hz
          simp only [hn', hz, if_true, if_false, beq_self_eq_true, beq_iff_eq]
          have hF' := hF.set "i.off" (.int ((j.off : Int) + 1 + (((payloadOf v).toNat : Int) - 1))) (by decide)
          have := ih { j with off := j.off + 1 + ((payloadOf v).toNat - 1), cur := payloadOf v, t := tagOf v } f
            (((((e.set "v" (.u64 v)).set "i.cur" (.u64 (payloadOf v))).set "i.t" (.u8 (tagOf v))).set
              "i.off" (.int (j.off + 1))).set "i.off" (.int ((j.off : Int) + 1 + (((payloadOf v).toNat : Int) - 1))))
            (by simp only; omega) (by omega) hsz
            (by apply iterAt_of_gets <;> simp [h2, h5]
                omega)
          simp only [hn'] at this hF'
          revert this
          generalize exec1 goFuns f _ _ = out
          generalize Iter.advanceIterLoop pj _ _ = r
          intro this
          unfold LoopSimIter at this ⊢
          split at this
          · obtain ⟨s, a, b, c, d, e'⟩ := this
            exact ⟨s, a, b, c, d, hF'.trans e'⟩
          · obtain ⟨s, a, b, c, e'⟩ := this
            exact ⟨s, a, b, c, hF'.trans e'⟩
          · exact this
          · exact this
          · exact this
      · have hb : (tagOf v == tagNop) = false := by simp [hn']
        simp only [hn', hb, if_false, LoopSimIter]
        refine ⟨_, rfl, rfl, ?_, payload_lt v, hF⟩
        apply iterAt_of_gets <;> simp [h2, h5]

theorem exec_append (funs : String → Option FunDef) (fuel : Nat) (a b : List Stmt) : ∀ s : St,
    exec funs fuel (a ++ b) s = match exec funs fuel a s with | .normal s' => exec funs fuel b s' | o => o := by
  induction a with
  | nil => intro s; rw [List.nil_append, exec]
  | cons st r ih =>
    intro s
    rw [List.cons_append, exec, exec]
    cases exec1 funs fuel st s <;> simp only []
    exact ih _

/-- between the two `calcNext` calls: the negative-offset check, `iEnd`, `typ`, `*dst = *i` -/
def iterSegB : List Stmt := ((afterLoop goIter_AdvanceIter.body).drop 1).take 4
/-- after `dst.calcNext(true)`: the two checks, the restriction of `dst`, the return -/
def iterSegD : List Stmt := (afterLoop goIter_AdvanceIter.body).drop 6

theorem iter_tail_split : afterLoop goIter_AdvanceIter.body =
    .call "i" "Iter.calcNext" [.bool false] :: (iterSegB ++ .call "dst" "Iter.calcNext" [.bool true] :: iterSegD) := rfl

theorem iter_segB (e1 : Env) (tape : Array UInt64) (f : Nat) (i2 : Iter) (hI : iterAt e1 "i" = some i2)
    (hne : e1.get "i!=dst" = some (.bool true)) :
    (i2.addNext < 0 → ∃ s', exec goFuns (f + 1) iterSegB ⟨e1, tape⟩ = .ret s' [.u8 0, .bool true]) ∧
    (¬ i2.addNext < 0 → exec goFuns (f + 1) iterSegB ⟨e1, tape⟩ =
      .normal ⟨setIter ((e1.set "iEnd" (.int ((i2.off : Int) + i2.addNext))).set "typ" (.u8 (tagToType i2.t))) "dst" i2,
        tape⟩) := by
  obtain ⟨h1, h2, h3, h4, h5⟩ := iterAt_get_i _ _ hI
  simp only [iterSegB, goIter_AdvanceIter, afterLoop, List.drop, List.take]
  constructor
  · intro hneg
    simp [h1, h2, h3, h4, h5, hneg, goFuns, goIter_moveToEnd, Env.set, Env.get]
  · intro hneg
    simp [h1, h2, h3, h4, h5, hne, hneg, setIter, tagToType]

theorem iter_segD (e3 : Env) (tape : Array UInt64) (f : Nat) (i2 d : Iter) (iEnd : Int) (typ : UInt8)
    (hI : iterAt e3 "i" = some i2) (hD : iterAt e3 "dst" = some d) (hE : e3.get "iEnd" = some (.int iEnd))
    (hT : e3.get "typ" = some (.u8 typ)) (h0 : 0 ≤ iEnd) :
    exec goFuns (f + 1) iterSegD ⟨e3, tape⟩ =
      if d.addNext < 0 then .ret ⟨setIter e3 "i" i2.moveToEnd, tape⟩ [.u8 0, .bool true]
      else if iEnd > d.lim then .ret ⟨e3, tape⟩ [.u8 0, .bool true]
      else .ret ⟨e3.set "dst.lim" (.int iEnd), tape⟩ [.u8 typ, .bool false] := by
  obtain ⟨h1, h2, h3, h4, h5⟩ := iterAt_get_i _ _ hI
  obtain ⟨d1, d2, d3, d4, d5⟩ := iterAt_get_dst _ _ hD
  simp only [iterSegD, goIter_AdvanceIter, afterLoop, List.drop]
  by_cases hneg : d.addNext < 0
  · simp [h1, h2, h3, h4, h5, d1, d2, d3, d4, d5, hE, hT, hneg, goFuns, goIter_moveToEnd, Env.set, Env.get, setIter,
      Iter.moveToEnd, tagEnd]
  · by_cases hb : iEnd > d.lim
    · simp [h1, h2, h3, h4, h5, d1, d2, d3, d4, d5, hE, hT, hneg, hb]
    · have hle : iEnd ≤ (d.lim : Int) := by omega
      simp [h1, h2, h3, h4, h5, d1, d2, d3, d4, d5, hE, hT, hneg, hb, h0, hle]

/-- `AdvanceIter(dst)` with `dst ≠ i` -/
def SimIter (tape : Array UInt64) (o : Out) (r : Res (Iter × Iter × UInt8)) : Prop :=
  match r with
  | .ok (i', d', typ) =>
    ∃ s, o = .ret s [.u8 typ, .bool false] ∧ s.tape = tape ∧ iterAt s.env "i" = some i' ∧ iterAt s.env "dst" = some d'
  | .error _ => ∃ s v, o = .ret s [v, .bool true]
  | .panic => o = .panic
  | .diverge => False

theorem SimIter.final {tape : Array UInt64} {o : Out} {r : Res (Iter × Iter × UInt8)} (h : SimIter tape o r) :
    Out.final o = true := by
  unfold SimIter at h
  split at h
  · obtain ⟨s, h, _⟩ := h; rw [h]; rfl
  · obtain ⟨s, v, h⟩ := h; rw [h]; rfl
  · rw [h]; rfl
  · exact h.elim

/-- what `AdvanceIter` does with the live word the loop stopped at (the model's continuation) -/
def iterTailModel (i1 : Iter) : Res (Iter × Iter × UInt8) :=
  let i2 := i1.calcNext false
  if i2.addNext < 0 then .error .generic
  else
    let iEnd := i2.off + i2.addNext.toNat
    let typ := tagToType i2.t
    let d := i2.calcNext true
    if d.addNext < 0 then .error .generic
    else if iEnd > d.lim then .error .generic
    else .ok (i2, { d with lim := iEnd }, typ)

theorem advanceIter_tail (s : St) (i1 : Iter) (f : Nat) (hI : iterAt s.env "i" = some i1)
    (hcur : i1.cur.toNat < 2^56) (hne : s.env.get "i!=dst" = some (.bool true)) :
    SimIter s.tape (exec goFuns (f + 1) (afterLoop goIter_AdvanceIter.body) s) (iterTailModel i1) := by
  rw [iter_tail_split, exec, call_calcNext_i s i1 false f hI (by omega)]
  simp only []
  unfold iterTailModel
  have hcur2 : (i1.calcNext false).cur.toNat < 2^56 := by
    unfold Iter.calcNext; split
    · exact hcur
    · split
      · exact hcur
      · exact hcur
  generalize i1.calcNext false = i2 at hcur2 ⊢
  have hI1 : iterAt (setIter s.env "i" i2) "i" = some i2 := iterAt_setIter_i _ _
  have hne1 : (setIter s.env "i" i2).get "i!=dst" = some (.bool true) := by
    rw [get_setIter_ne _ _ _ _ (by decide)]; exact hne
  generalize setIter s.env "i" i2 = e1 at hI1 hne1 ⊢
  rw [exec_append]
  obtain ⟨hB1, hB2⟩ := iter_segB e1 s.tape f i2 hI1 hne1
  by_cases hneg : i2.addNext < 0
  · obtain ⟨s', hx⟩ := hB1 hneg
    rw [hx]
    simp only [hneg, if_true, SimIter]
    exact ⟨s', _, rfl⟩
  · rw [hB2 hneg]
    simp only []
    rw [exec, call_calcNext_dst _ i2 true f (iterAt_setIter_dst _ _) (by omega)]
    simp only []
    have hI3 : iterAt (setIter (setIter ((e1.set "iEnd" (.int ((i2.off : Int) + i2.addNext))).set "typ"
        (.u8 (tagToType i2.t))) "dst" i2) "dst" (i2.calcNext true)) "i" = some i2 := by
      rw [iterAt_setIter_dst_i, iterAt_setIter_dst_i]
      simp (disch := decide) only [iterAt_set_ne, hI1]
    have hD3 := iterAt_setIter_dst (setIter ((e1.set "iEnd" (.int ((i2.off : Int) + i2.addNext))).set "typ"
        (.u8 (tagToType i2.t))) "dst" i2) (i2.calcNext true)
    have hE3 : (setIter (setIter ((e1.set "iEnd" (.int ((i2.off : Int) + i2.addNext))).set "typ"
        (.u8 (tagToType i2.t))) "dst" i2) "dst" (i2.calcNext true)).get "iEnd" =
        some (.int ((i2.off : Int) + i2.addNext)) := by
      rw [get_setIter_ne _ _ _ _ (by decide), get_setIter_ne _ _ _ _ (by decide)]
      simp [Env.get_set]
    have hT3 : (setIter (setIter ((e1.set "iEnd" (.int ((i2.off : Int) + i2.addNext))).set "typ"
        (.u8 (tagToType i2.t))) "dst" i2) "dst" (i2.calcNext true)).get "typ" = some (.u8 (tagToType i2.t)) := by
      rw [get_setIter_ne _ _ _ _ (by decide), get_setIter_ne _ _ _ _ (by decide)]
      simp [Env.get_set]
    generalize setIter (setIter ((e1.set "iEnd" (.int ((i2.off : Int) + i2.addNext))).set "typ"
        (.u8 (tagToType i2.t))) "dst" i2) "dst" (i2.calcNext true) = e3 at hI3 hD3 hE3 hT3 ⊢
    rw [iter_segD e3 s.tape f i2 (i2.calcNext true) _ _ hI3 hD3 hE3 hT3 (by omega)]
    generalize i2.calcNext true = d at hD3 ⊢
    simp only [hneg, if_false]
    by_cases hdn : d.addNext < 0
    · simp only [hdn, if_true, SimIter]
      exact ⟨_, _, rfl⟩
    · simp only [hdn, if_false]
      by_cases hb : (i2.off : Int) + i2.addNext > d.lim
      · have hb' : i2.off + i2.addNext.toNat > d.lim := by omega
        simp only [hb, hb', if_true, SimIter]
        exact ⟨_, _, rfl⟩
      · have hb' : ¬ i2.off + i2.addNext.toNat > d.lim := by omega
        simp only [hb, hb', if_false, SimIter]
        obtain ⟨d1, d2, d3, d4, d5⟩ := iterAt_get_dst _ _ hD3
        refine ⟨_, rfl, rfl, ?_, ?_⟩
        · simp (disch := decide) only [iterAt_set_ne, hI3]
        · apply iterAt_of_gets <;> simp [d1, d2, d3, d4]
          omega

theorem advanceIter_sim (pj : PJ) (i dst : Iter) (hl : i.lim ≤ pj.tape.size) (fuel : Nat) (hf : fuelFor i ≤ fuel) :
    SimIter pj.tape (runFun goFuns goIter_AdvanceIter fuel
      { env := envOf "i" i ++ envOf "dst" dst ++ [("i!=dst", .bool true)], tape := pj.tape })
      (i.advanceIter pj dst) := by
  have hbody : goIter_AdvanceIter.body = .assign "i.off" (.bin .add (.v "i.off") (.v "i.addNext")) ::
      .loop (firstLoop goIter_AdvanceIter.body) :: afterLoop goIter_AdvanceIter.body := rfl
  generalize he00 : envOf "i" i ++ envOf "dst" dst ++ [("i!=dst", Val.bool true)] = e00
  have hI00 : iterAt e00 "i" = some i := by subst he00; simp [envOf, Env.get, iterAt]
  have hD00 : iterAt e00 "dst" = some dst := by subst he00; simp [envOf, Env.get, iterAt]
  have hN00 : e00.get "i!=dst" = some (.bool true) := by subst he00; simp [envOf, Env.get]
  obtain ⟨g1, g2, g3, g4, g5⟩ := iterAt_get_i _ _ hI00
  have h1 : exec1 goFuns fuel (.assign "i.off" (.bin .add (.v "i.off") (.v "i.addNext"))) ⟨e00, pj.tape⟩ =
      .normal ⟨e00.set "i.off" (.int ((i.off : Int) + i.addNext)), pj.tape⟩ := by
    simp [g1, g2]
  have hD0 : iterAt (e00.set "i.off" (.int ((i.off : Int) + i.addNext))) "dst" = some dst := by
    rw [iterAt_set_ne _ _ _ _ (by decide)]; exact hD00
  have hN0 : (e00.set "i.off" (.int ((i.off : Int) + i.addNext))).get "i!=dst" = some (.bool true) := by
    rw [Env.get_set_ne _ _ (by decide)]; exact hN00
  unfold fuelFor at hf
  obtain ⟨f, rfl⟩ : ∃ f, fuel = f + 2 := ⟨fuel - 2, by omega⟩
  have key : SimIter pj.tape (exec goFuns (f + 2) goIter_AdvanceIter.body ⟨e00, pj.tape⟩)
      (i.advanceIter pj dst) := by
    rw [hbody, exec, h1]
    simp only []
    unfold Iter.advanceIter Iter.bump
    by_cases ho : (i.off : Int) + i.addNext < 0
    · have hp : exec1 goFuns (f + 2) (.loop (firstLoop goIter_AdvanceIter.body))
          ⟨e00.set "i.off" (.int ((i.off : Int) + i.addNext)), pj.tape⟩ = .panic := by
        rw [exec1, advanceIter_body_neg _ pj.tape (f + 1) _ i.lim ho (Env.get_set_self _ _ _)
          (by rw [Env.get_set_ne _ _ (by decide)]; exact g5)]
      rw [exec_cons_final _ _ _ _ _ (by rw [hp]; rfl), hp]
      simp [ho, SimIter]
    · simp only [ho, if_false, Res.bind_ok]
      have hI : iterAt (e00.set "i.off" (.int ((i.off : Int) + i.addNext))) "i" =
          some { i with off := ((i.off : Int) + i.addNext).toNat } := by
        apply iterAt_of_gets <;> simp [g2, g3, g4, g5]
        omega
      have hloop := advanceIter_loop pj i.lim { i with off := ((i.off : Int) + i.addNext).toNat } (f + 2) _
        (Nat.sub_le _ _) (by omega) hl hI
      simp only at hloop
      rw [advanceIterLoop_off pj _ i _ (Nat.le_refl _)]
      generalize e00.set "i.off" (.int ((i.off : Int) + i.addNext)) = e0 at hD0 hN0 hI hloop ⊢
      rw [exec]
      generalize exec1 goFuns (f + 2) (.loop (firstLoop goIter_AdvanceIter.body)) ⟨e0, pj.tape⟩ = out at hloop ⊢
      cases hg : Iter.advanceIterLoop pj { i with off := ((i.off : Int) + i.addNext).toNat } ((i.off : Int) + i.addNext).toNat with
      | ok r =>
        obtain ⟨a, l⟩ := r
        rw [hg] at hloop
        cases l with
        | true =>
          obtain ⟨s, rfl, hst, hIs, hc, hF⟩ := hloop
          simp only []
          have hne : s.env.get "i!=dst" = some (.bool true) := by rw [hF _ (by decide)]; exact hN0
          have ht := advanceIter_tail s a (f + 1) hIs hc hne
          rw [hst] at ht
          simpa [iterTailModel] using ht
        | false =>
          obtain ⟨s, rfl, hst, hIs, hF⟩ := hloop
          simp only [Res.bind_ok, Bool.not_false, if_true, SimIter, typeNone]
          exact ⟨s, rfl, hst, hIs, by rw [hF.iterAt_dst]; exact hD0⟩
      | panic =>
        rw [hg] at hloop
        simp only [LoopSimIter] at hloop
        subst hloop
        simp [SimIter]
      | error e =>
        rw [hg] at hloop
        obtain ⟨s, rfl⟩ := hloop
        simp only [SimIter]
        exact ⟨s, _, rfl⟩
      | diverge => rw [hg] at hloop; exact hloop.elim
  rw [runFun_final _ _ _ _ key.final]
  exact key

/-- The cursor functions of `parsed_json.go`, as translated, ARE the model: for every tape, every iterator whose view
    is inside the tape, every `dst` and enough fuel, running the regenerated syntax tree of `PeekNextTag`, `PeekNext`,
    `Advance`, `AdvanceInto`, `AdvanceIter` gives exactly the model's result and the model's iterator. -/
theorem go_iter_source_tie (pj : PJ) (i dst : Iter) (hl : i.lim ≤ pj.tape.size) (fuel : Nat) (hf : fuelFor i ≤ fuel) :
    SimV pj.tape i (runFun goFuns goIter_PeekNextTag fuel { env := envOf "i" i, tape := pj.tape }) (i.peekNextTag pj) ∧
    SimV pj.tape i (runFun goFuns goIter_PeekNext fuel { env := envOf "i" i, tape := pj.tape }) (i.peekNext pj) ∧
    SimT pj.tape (runFun goFuns goIter_Advance fuel { env := envOf "i" i, tape := pj.tape }) (i.advance pj) ∧
    SimT pj.tape (runFun goFuns goIter_AdvanceInto fuel { env := envOf "i" i, tape := pj.tape }) (i.advanceInto pj) ∧
    SimIter pj.tape (runFun goFuns goIter_AdvanceIter fuel
      { env := envOf "i" i ++ envOf "dst" dst ++ [("i!=dst", .bool true)], tape := pj.tape }) (i.advanceIter pj dst) :=
  ⟨peekNextTag_sim pj i hl fuel hf, peekNext_sim pj i hl fuel hf, advance_sim pj i hl fuel hf,
   advanceInto_sim pj i hl fuel hf, advanceIter_sim pj i dst hl fuel hf⟩

/-! ## regression: NOP words up to the end of the view

An earlier version of the model threaded only the offset through the NOP-skipping loops and rebuilt the result from
the *initial* iterator; the proofs above found the difference on this tape (Go overwrites `i.t`, `i.cur`, `i.off` on
every iteration): after the NOP word the cursor is at the end of its view with `cur = 1` (the NOP's skip count) and,
for `AdvanceIter`, `off = 3` — where the old model kept `cur = 0` resp. `off = 2`. -/

/-- the tape of `"abc"` after `SetNull` on the string (`root, null, NOP|1, root`), and the view `Root()` returns -/
def witnessPJ : PJ := { tape := #[mkWord 114 4, mkWord 110 0, mkWord 78 1, mkWord 114 0], strings := #[], msg := #[] }
/-- the iterator `Root()` returns: standing on the `null`, the NOP word is the last word of its view -/
def witnessI : Iter := { lim := 3, off := 2, addNext := 0, cur := 0, t := 110 }

theorem w2 : witnessPJ.tape[2]? = some (mkWord 78 1) := rfl
theorem wtag : tagOf (mkWord 78 1) = tagNop := by decide
theorem wpay : payloadOf (mkWord 78 1) = 1 := by decide

/-- `Advance` on the witness: Go's state (`cur = 1`) -/
example : witnessI.advance witnessPJ = .ok ({ lim := 3, off := 3, addNext := 0, cur := 1, t := 0 }, 0) := by
  unfold Iter.advance
  simp [Iter.bump, witnessI]
  rw [Iter.advanceLoop]
  simp [Iter.rdT, rd, w2, wtag, wpay]
  rw [Iter.advanceLoop]
  simp [tagEnd, typeNone]

/-- `AdvanceInto` on the witness -/
example : witnessI.advanceInto witnessPJ = .ok ({ lim := 3, off := 3, addNext := 0, cur := 1, t := 0 }, 0) := by
  unfold Iter.advanceInto
  simp [Iter.bump, witnessI]
  rw [Iter.advanceIntoLoop]
  simp [Iter.rdT, rd, w2, wtag, wpay]
  rw [Iter.advanceIntoLoop]
  simp [tagEnd]

/-- `AdvanceIter` on the witness: Go's state (`cur = 1`, `off = 3`) -/
example (dst : Iter) :
    witnessI.advanceIter witnessPJ dst = .ok ({ lim := 3, off := 3, addNext := 0, cur := 1, t := 0 }, dst, 0) := by
  unfold Iter.advanceIter
  simp [Iter.bump, witnessI]
  rw [Iter.advanceIterLoop]
  simp [Iter.rdT, rd, w2, wtag, wpay]
  rw [Iter.advanceIterLoop]
  simp [tagEnd, typeNone]

end SJ.GoIter
