import SJ.Proofs.GoIterLemmas
set_option linter.unusedVariables false
set_option linter.unusedSimpArgs false
/-
GoIter — the cursor functions of `parsed_json.go`, as printed by the translator (`Generated/GoSrc.lean`) and run by
`GoSem.exec`, against the hand model `Model/Iter.lean`.

For every `pj`, every iterator `i` whose view is inside the tape (`i.lim ≤ pj.tape.size`) and every
`fuel ≥ fuelFor i = i.lim + 8` the interpreter neither gets stuck nor runs out of fuel, and

  * `peekNextTag_sim`, `peekNext_sim`          — `PeekNextTag`, `PeekNext` are `Iter.peekNextTag`, `Iter.peekNext`;
  * `advanceG_sim`, `advanceIntoG_sim`, `advanceIterG_sim`
        — `Advance`, `AdvanceInto`, `AdvanceIter` are `advanceG`, `advanceIntoG`, `advanceIterG` (GoIterLemmas):
          the hand model with the *whole* iterator threaded through the NOP-skipping loop.  No extra hypothesis.
  * `advance_sim`, `advanceInto_sim`, `advanceIter_sim`
        — the same against the hand model itself, under `DeadCurAgrees` resp. `EndAtStart`, the exact conditions
          under which the hand model's result is what Go computes; without them `advance_rel_G`,
          `advanceInto_rel_G` say how far apart the two can be.
  * `go_iter_source_tie` bundles them.

The proofs run the syntax trees: any edit of these Go functions changes `Generated/GoSrc.lean` and breaks them.
-/
namespace SJ.GoIter
open SJ SJ.GoSem SJ.Generated

attribute [local simp] exec exec1 execCases evalE evalEs isOneOf binop convert ofE copyFields bindParams
  iterFields runFun tblLookup Env.get_set

/-! ## outcomes that end a function -/

def Out.final : Out → Bool
  | .ret _ _ => true
  | .panic => true
  | _ => false

theorem exec_cons_final (funs : String → Option FunDef) (fuel : Nat) (st : Stmt) (rest : List Stmt) (s : St)
    (h : Out.final (exec1 funs fuel st s) = true) : exec funs fuel (st :: rest) s = exec1 funs fuel st s := by
  rw [exec]
  cases hh : exec1 funs fuel st s <;> simp_all [Out.final]

theorem runFun_final (funs : String → Option FunDef) (fd : FunDef) (fuel : Nat) (s : St)
    (h : Out.final (exec funs fuel fd.body s) = true) : runFun funs fd fuel s = exec funs fuel fd.body s := by
  unfold runFun
  cases hh : exec funs fuel fd.body s <;> simp_all [Out.final]

theorem SimV.final {tape : Array UInt64} {i : Iter} {o : Out} {r : Res UInt8} (h : SimV tape i o r) :
    Out.final o = true := by
  unfold SimV at h
  split at h
  · obtain ⟨s, h, _⟩ := h; rw [h]; rfl
  · rw [h]; rfl
  · exact h.elim

theorem SimT.final {tape : Array UInt64} {o : Out} {r : Res (Iter × UInt8)} (h : SimT tape o r) :
    Out.final o = true := by
  unfold SimT at h
  split at h
  · obtain ⟨s, h, _⟩ := h; rw [h]; rfl
  · rw [h]; rfl
  · exact h.elim

/-! ## PeekNextTag, PeekNext -/

theorem peekTag_body (e : Env) (tape : Array UInt64) (fuel : Nat) (off lim : Nat)
    (hoff : e.get "off" = some (.int off)) (hlim : e.get "i.lim" = some (.int lim)) (hsz : lim ≤ tape.size) :
    exec goFuns fuel (firstLoop goIter_PeekNextTag.body) ⟨e, tape⟩ =
      if h : off ≥ lim then .ret ⟨e, tape⟩ [.u8 0] else
        let v := tape[off]'(by omega)
        let e1 := (e.set "v" (.u64 v)).set "t" (.u8 (tagOf v))
        if tagOf v = tagNop then
          let e2 := e1.set "skip" (.int (payloadOf v).toNat)
          if payloadOf v = 0 then .ret ⟨e2, tape⟩ [.u8 0]
          else .cont ⟨e2.set "off" (.int ((off + (payloadOf v).toNat : Nat) : Int)), tape⟩
        else .ret ⟨e1, tape⟩ [.u8 (tagOf v)] := by
  simp only [goIter_PeekNextTag, firstLoop]
  by_cases h : off ≥ lim
  · simp [hoff, hlim, h]
  · have h1 : off < lim := by omega
    have h2 : tape[off]? = some (tape[off]'(by omega)) := by simp
    simp only [dif_neg h]
    generalize tape[off] = v at h2 ⊢
    have ht : (v >>> 56).toUInt8 = tagOf v := rfl
    have hp : v &&& 72057594037927935 = payloadOf v := rfl
    have hz : (payloadOf v = 0) ↔ (payloadOf v).toNat = 0 := by rw [← UInt64.toNat_inj]; rfl
    simp [hoff, hlim, h, h1, h2, ht, hp, toInt64_payload, hz]
    simp only [tagNop]
    by_cases hn : tagOf v = 78
    · have hb : (tagOf v == 78) = true := by simp [hn]
      by_cases hz : (payloadOf v).toNat = 0
      · simp [hb, hn, hz]
      · simp [hb, hn, hz, hoff]
    · have hb : (tagOf v == 78) = false := by simp [hn]
      simp [hb, hn]

theorem peek_body (e : Env) (tape : Array UInt64) (fuel : Nat) (off lim : Nat)
    (hoff : e.get "off" = some (.int off)) (hlim : e.get "i.lim" = some (.int lim)) (hsz : lim ≤ tape.size) :
    exec goFuns fuel (firstLoop goIter_PeekNext.body) ⟨e, tape⟩ =
      if h : off ≥ lim then .ret ⟨e, tape⟩ [.u8 0] else
        let v := tape[off]'(by omega)
        let e1 := (e.set "v" (.u64 v)).set "t" (.u8 (tagOf v))
        if tagOf v = tagNop then
          let e2 := e1.set "skip" (.int (payloadOf v).toNat)
          if payloadOf v = 0 then .ret ⟨e2, tape⟩ [.u8 0]
          else .cont ⟨e2.set "off" (.int ((off + (payloadOf v).toNat : Nat) : Int)), tape⟩
        else .ret ⟨e1, tape⟩ [.u8 (tagToType (tagOf v))] := by
  simp only [goIter_PeekNext, firstLoop]
  by_cases h : off ≥ lim
  · simp [hoff, hlim, h]
  · have h1 : off < lim := by omega
    have h2 : tape[off]? = some (tape[off]'(by omega)) := by simp
    simp only [dif_neg h]
    generalize tape[off] = v at h2 ⊢
    have ht : (v >>> 56).toUInt8 = tagOf v := rfl
    have hp : v &&& 72057594037927935 = payloadOf v := rfl
    have hz : (payloadOf v = 0) ↔ (payloadOf v).toNat = 0 := by rw [← UInt64.toNat_inj]; rfl
    simp [hoff, hlim, h, h1, h2, ht, hp, toInt64_payload, hz]
    simp only [tagNop]
    by_cases hn : tagOf v = 78
    · have hb : (tagOf v == 78) = true := by simp [hn]
      by_cases hz : (payloadOf v).toNat = 0
      · simp [hb, hn, hz]
      · simp [hb, hn, hz, hoff]
    · have hb : (tagOf v == 78) = false := by simp [hn]
      simp [hb, hn, tagToType]

/-- a negative offset: the bounds check of the first read fails -/
theorem peekTag_body_neg (e : Env) (tape : Array UInt64) (fuel : Nat) (o : Int) (lim : Nat) (ho : o < 0)
    (hoff : e.get "off" = some (.int o)) (hlim : e.get "i.lim" = some (.int lim)) :
    exec goFuns fuel (firstLoop goIter_PeekNextTag.body) ⟨e, tape⟩ = .panic := by
  simp only [goIter_PeekNextTag, firstLoop]
  have h1 : ¬ (lim : Int) ≤ o := by omega
  have h2 : ¬ 0 ≤ o := by omega
  simp [hoff, hlim, h1, h2]

theorem peek_body_neg (e : Env) (tape : Array UInt64) (fuel : Nat) (o : Int) (lim : Nat) (ho : o < 0)
    (hoff : e.get "off" = some (.int o)) (hlim : e.get "i.lim" = some (.int lim)) :
    exec goFuns fuel (firstLoop goIter_PeekNext.body) ⟨e, tape⟩ = .panic := by
  simp only [goIter_PeekNext, firstLoop]
  have h1 : ¬ (lim : Int) ≤ o := by omega
  have h2 : ¬ 0 ≤ o := by omega
  simp [hoff, hlim, h1, h2]

theorem peekTag_loop (pj : PJ) (i : Iter) (hl : i.lim ≤ pj.tape.size) :
    ∀ (n off fuel : Nat) (e : Env), i.lim - off ≤ n → n < fuel → iterAt e "i" = some i →
      e.get "off" = some (.int off) →
      SimV pj.tape i (exec1 goFuns fuel (.loop (firstLoop goIter_PeekNextTag.body)) ⟨e, pj.tape⟩)
        (Iter.peekLoop pj i.lim off) := by
  intro n
  induction n with
  | zero =>
    intro off fuel e hn hf hI hoff
    obtain ⟨fuel, rfl⟩ : ∃ f, fuel = f + 1 := ⟨fuel - 1, by omega⟩
    have hlim := (iterAt_get e "i" i hI).2.2.2.2
    simp only [String.reduceAppend] at hlim
    rw [exec1, peekTag_body e pj.tape fuel off i.lim hoff hlim hl, Iter.peekLoop]
    have : off ≥ i.lim := by omega
    simp only [this, dif_pos, SimV, tagEnd]
    exact ⟨_, rfl, rfl, hI⟩
  | succ n ih =>
    intro off fuel e hn hf hI hoff
    obtain ⟨fuel, rfl⟩ : ∃ f, fuel = f + 1 := ⟨fuel - 1, by omega⟩
    have hlim := (iterAt_get e "i" i hI).2.2.2.2
    simp only [String.reduceAppend] at hlim
    rw [exec1, peekTag_body e pj.tape fuel off i.lim hoff hlim hl, Iter.peekLoop]
    by_cases h : off ≥ i.lim
    · simp only [h, dif_pos, SimV, tagEnd]
      exact ⟨_, rfl, rfl, hI⟩
    · have h2 : pj.tape[off]? = some (pj.tape[off]'(by omega)) := by simp
      simp only [h, dif_neg, not_false_eq_true, Iter.rdT, rd, h2, Res.bind_ok]
      generalize pj.tape[off] = v
      by_cases hn : tagOf v = tagNop
      · by_cases hz : payloadOf v = 0
        · simp only [hn, hz, SimV, tagEnd, if_true, beq_self_eq_true, UInt64.toNat_zero]
          refine ⟨_, rfl, rfl, ?_⟩
          simp (disch := decide) only [iterAt_set_ne, hI]
        · have hz' := payload_toNat_ne v hz
          simp only [hn, hz, hz', if_true, if_false, beq_self_eq_true]
          exact ih (off + (payloadOf v).toNat) fuel _ (by omega) (by omega)
            (by simp (disch := decide) only [iterAt_set_ne, hI]) (by simp)
      · have hb : (tagOf v == tagNop) = false := by simp [hn]
        simp only [hn, hb, SimV, if_false]
        refine ⟨_, rfl, rfl, ?_⟩
        simp (disch := decide) only [iterAt_set_ne, hI]

theorem peek_loop (pj : PJ) (i : Iter) (hl : i.lim ≤ pj.tape.size) :
    ∀ (n off fuel : Nat) (e : Env), i.lim - off ≤ n → n < fuel → iterAt e "i" = some i →
      e.get "off" = some (.int off) →
      SimV pj.tape i (exec1 goFuns fuel (.loop (firstLoop goIter_PeekNext.body)) ⟨e, pj.tape⟩)
        ((Iter.peekLoop pj i.lim off).bind (fun t => .ok (tagToType t))) := by
  intro n
  induction n with
  | zero =>
    intro off fuel e hn hf hI hoff
    obtain ⟨fuel, rfl⟩ : ∃ f, fuel = f + 1 := ⟨fuel - 1, by omega⟩
    have hlim := (iterAt_get e "i" i hI).2.2.2.2
    simp only [String.reduceAppend] at hlim
    rw [exec1, peek_body e pj.tape fuel off i.lim hoff hlim hl, Iter.peekLoop]
    have : off ≥ i.lim := by omega
    simp only [this, dif_pos, SimV, tagEnd, Res.bind, tagToType_end]
    exact ⟨_, rfl, rfl, hI⟩
  | succ n ih =>
    intro off fuel e hn hf hI hoff
    obtain ⟨fuel, rfl⟩ : ∃ f, fuel = f + 1 := ⟨fuel - 1, by omega⟩
    have hlim := (iterAt_get e "i" i hI).2.2.2.2
    simp only [String.reduceAppend] at hlim
    rw [exec1, peek_body e pj.tape fuel off i.lim hoff hlim hl, Iter.peekLoop]
    by_cases h : off ≥ i.lim
    · simp only [h, dif_pos, SimV, tagEnd, Res.bind, tagToType_end]
      exact ⟨_, rfl, rfl, hI⟩
    · have h2 : pj.tape[off]? = some (pj.tape[off]'(by omega)) := by simp
      simp only [h, dif_neg, not_false_eq_true, Iter.rdT, rd, h2, Res.bind_ok]
      generalize pj.tape[off] = v
      by_cases hn : tagOf v = tagNop
      · by_cases hz : payloadOf v = 0
        · simp only [hn, hz, SimV, tagEnd, if_true, beq_self_eq_true, UInt64.toNat_zero, Res.bind, tagToType_end]
          refine ⟨_, rfl, rfl, ?_⟩
          simp (disch := decide) only [iterAt_set_ne, hI]
        · have hz' := payload_toNat_ne v hz
          simp only [hn, hz, hz', if_true, if_false, beq_self_eq_true]
          exact ih (off + (payloadOf v).toNat) fuel _ (by omega) (by omega)
            (by simp (disch := decide) only [iterAt_set_ne, hI]) (by simp)
      · have hb : (tagOf v == tagNop) = false := by simp [hn]
        simp only [hn, hb, SimV, if_false, Res.bind]
        refine ⟨_, rfl, rfl, ?_⟩
        simp (disch := decide) only [iterAt_set_ne, hI]

end SJ.GoIter
