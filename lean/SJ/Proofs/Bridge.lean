import SJ.Proofs.WalkLayout
import SJ.Proofs.DecodeSound
import SJ.Proofs.Tight
/-
Glue between the two independently developed readings of a tape: the API walker (`owalk`, SJ/Proofs/WalkLayout.lean)
and the reference decoder (`decodeTapeD`, SJ/Proofs/DecodeSound.lean).
-/
namespace SJ.Bridge
open SJ SJ.Layout

mutual
theorem ofJVal_eq : ∀ v : JVal, WalkLayout.ofJVal v = DecodeSound.toOVal v
  | .null => rfl
  | .bool _ => rfl
  | .int _ => rfl
  | .uint _ => rfl
  | .float _ _ => rfl
  | .str _ => rfl
  | .arr es => by simp only [WalkLayout.ofJVal, DecodeSound.toOVal, ofJVals_eq es]
  | .obj ms => by simp only [WalkLayout.ofJVal, DecodeSound.toOVal, ofJMems_eq ms]
theorem ofJVals_eq : ∀ vs : JVals, WalkLayout.ofJVals vs = DecodeSound.toOVals vs
  | .nil => rfl
  | .cons v vs => by simp only [WalkLayout.ofJVals, DecodeSound.toOVals, ofJVal_eq v, ofJVals_eq vs]
theorem ofJMems_eq : ∀ ms : JMems, WalkLayout.ofJMems ms = DecodeSound.toOMems ms
  | .nil => rfl
  | .cons k v ms => by simp only [WalkLayout.ofJMems, DecodeSound.toOMems, ofJVal_eq v, ofJMems_eq ms]
end

/-- On a tape that holds located, tight root values, reading everything back through the iterator API gives
    exactly what the reference decoder of the tape format gives: the one document the tape denotes. -/
theorem owalk_eq_decode (pj : PJ) (vs : List LVal) (h : WalkLayout.OkRoots pj vs 0) (ht : ∀ v ∈ vs, WalkLayout.Tight v) :
    ∃ ds, owalk pj = .ok ds ∧ decodeTapeD pj = some ds ∧ WF pj (vs.map erase) ∧ ds = (vs.map erase).map DecodeSound.toOVal := by
  obtain ⟨hwf, hw⟩ := WalkLayout.owalk_exact_doc pj vs h ht
  refine ⟨_, hw, ?_, hwf, ?_⟩
  · rw [DecodeSound.decodeTapeD_complete pj _ hwf]
    congr 1
    exact List.map_congr_left fun v _ => (ofJVal_eq v).symm
  · exact List.map_congr_left fun v _ => ofJVal_eq v

end SJ.Bridge
