import SJ.Model.Stage1Bits
import Std.Tactic.BVDecide
/-
Facts about the scalar fragments translated from the assembly (`SJ.Generated.AsmScalar`).
`bv_decide` is used for three of them (marked); each use adds `*._native.bv_decide.ax_*` axioms
(trust in the SAT checker's reflection), reported per theorem by the audit.
-/
namespace SJ.Kernels
open SJ SJ.Generated

/-- the two `finalize_structurals` bodies compute the same function (the AVX-512 one only moves its
    inputs out of K registers first) -/
theorem finalize_same (s w qm qb p : BitVec 64) : finalizeAvx512 s w qm qb p = finalizeAvx2 s w qm qb p := rfl

/-- `finalize_structurals` as simdjson specifies it -/
def finalizeSpec (s w qm qb p : BitVec 64) : BitVec 64 × BitVec 64 :=
  let s1 := (s &&& ~~~ qm) ||| qb                 -- structurals outside strings, plus quote bits
  let pred := s1 ||| w                             -- predecessors of pseudo-structurals
  let shifted := (pred <<< 1) ||| p                -- … shifted by one position, carry in
  let pseudo := shifted &&& ~~~ w &&& ~~~ qm       -- non-white-space outside strings after a predecessor
  ((s1 ||| pseudo) &&& ~~~ (qb &&& ~~~ qm),        -- closing quotes removed
   pred >>> 63)                                    -- carry out

/-- [bv_decide] the translated instructions implement that specification -/
theorem finalize_spec (s w qm qb p : BitVec 64) : finalizeAvx2 s w qm qb p = finalizeSpec s w qm qb p := by
  simp only [finalizeAvx2, finalizeSpec, Prod.mk.injEq]
  constructor <;> bv_decide

theorem reassemble (q : BitVec 64) : ((q >>> 32) <<< 32) ||| (q &&& 0xffffffff#64) = q := by
  bv_decide

/-- the GPR form and the K-register form of the scalar tail of `find_quote_mask_and_bits` agree for every
    carry-less-multiply function and every input -/
theorem quoteTail_same (f : BitVec 64 → BitVec 64) (q c o pq e : BitVec 64) :
    quoteTailAvx512 f q c o pq e = quoteTailAvx2 f q c o pq e := by
  simp only [quoteTailAvx512, quoteTailAvx2, reassemble]
  rw [BitVec.and_comm q (~~~ o)]

/-- scalar reference for `find_odd_backslash_sequences`: position i is flagged iff it is not a backslash and
    the run of backslashes ending at i-1 has odd length; the carry is the parity of a run reaching the end -/
def oddRef (bs : BitVec 64) (p : Bool) : BitVec 64 × Bool :=
  (List.range 64).foldl (fun (acc : BitVec 64 × Bool) i =>
     let b := bs.getLsbD i
     (if acc.2 && !b then acc.1 ||| (1#64 <<< i) else acc.1, if b then !acc.2 else false)) (0#64, p)

set_option maxRecDepth 100000 in
/-- [bv_decide] the add-with-carry trick of the assembly computes exactly the run-parity recurrence, for all
    2^65 inputs -/
theorem oddBackslash_spec (bs : BitVec 64) (p : Bool) :
    oddBackslash bs (if p then 1#64 else 0#64) = ((oddRef bs p).1, if (oddRef bs p).2 then 1#64 else 0#64) := by
  simp only [oddBackslash, oddRef, List.range, List.range.loop, List.foldl, Prod.mk.injEq]
  constructor <;> bv_decide

end SJ.Kernels
