import SJ.Generated.GoSrc
import SJ.Model.FloatFmt
import SJ.Proofs.FloatFmt
set_option linter.unusedVariables false
set_option linter.unusedSimpArgs false
/-
GoFloatFmtLemmas — helpers for `GoFloatFmt.lean` (`min`, `max`, `fmtF`, `appendFloatF`, `appendFloat` of
`appendfloat_f.go` / `parsed_json.go` against `Model/FloatFmt.lean`).

* stores: `Env.get_set`; `Keep e e'` — a piece of `fmtF` changes only `dst` and its temporaries.
* `callFun_min`, `callFun_max`: the two helpers through `callFun` from any caller store without the shared buffers.
* `loop1`, `loop2`: the two `for` loops of `fmtF` by induction on the remaining iterations (`k < fuel`).
* `fmtFGo`: what `fmtF` computes for arbitrary arguments; `fmtFGo_model`: on the digits of a `Shortest` and
  `prec = max(nd - dp, 0)` it is the model's `FloatFmt.fmtF`.
* bit facts (`exOf`, `absOf`, …) relating the field extraction of `appendFloatF` and the predicates of `appendFloat`
  (`math.IsInf`, `math.IsNaN`, the float comparisons) to `F64.isFinite`, `shortest`, `loBits`, `hiBits`.
* `cleanup_eq`: the in-place "e-09 → e-9" rewrite on `dst ++ b` is `dst ++ cleanExp b` (needs `4 ≤ b.size`:
  `fmtE_size`).
-/
namespace SJ.GoFloatFmt
open SJ SJ.GoSem SJ.Generated SJ.FloatFmt SJ.FloatFmtProofs

/-! ## stores -/

theorem Env.get_set (e : Env) (k k' : String) (v : Val) :
    (e.set k v).get k' = if k = k' then some v else e.get k' := by
  induction e with
  | nil =>
    by_cases h : k = k' <;> simp [Env.set, Env.get, h]
  | cons p r ih =>
    obtain ⟨a, b⟩ := p
    by_cases h : a = k
    · subst h
      by_cases h' : a = k' <;> simp [Env.set, Env.get, h']
    · by_cases h' : a = k'
      · subst h'
        have : ¬ k = a := fun hh => h hh.symm
        simp [Env.set, Env.get, h, this]
      · simp [Env.set, Env.get, h, h', ih]

/-- the variables a piece of `fmtF` may write -/
def tmpVars : List String := ["dst", "m", "i", "ch", "j"]

/-- `e'` agrees with `e` outside `dst` and the temporaries -/
def Keep (e e' : Env) : Prop := ∀ x, x ∉ tmpVars → e'.get x = e.get x

theorem Keep.refl (e : Env) : Keep e e := fun _ _ => rfl
theorem Keep.trans {a b c : Env} (h1 : Keep a b) (h2 : Keep b c) : Keep a c :=
  fun x hx => (h2 x hx).trans (h1 x hx)
theorem Keep.set (e : Env) (k : String) (v : Val) (hk : k ∈ tmpVars) : Keep e (e.set k v) := by
  intro x hx
  have : k ≠ x := fun h => hx (h ▸ hk)
  simp [Env.get_set, this]
theorem Keep.set' {a b : Env} (h : Keep a b) (k : String) (v : Val) (hk : k ∈ tmpVars) : Keep a (b.set k v) :=
  h.trans (Keep.set b k v hk)

/-! ## `min`, `max` -/

section calls
attribute [local simp] exec exec1 execCases evalE evalEs Env.get Env.set isOneOf binop convert ofE copyFields
  bindParams runFun

theorem gomin_run (a b : Int) (fuel : Nat) (tape : Array UInt64) :
    runFun goFuns gomin fuel ⟨[("a", .int a), ("b", .int b)], tape⟩ =
      .ret ⟨[("a", .int a), ("b", .int b)], tape⟩ [.int (min a b)] := by
  by_cases h : a < b
  · have : min a b = a := by omega
    simp [gomin, h, this]
  · have : min a b = b := by omega
    simp [gomin, h, this]

theorem gomax_run (a b : Int) (fuel : Nat) (tape : Array UInt64) :
    runFun goFuns gomax fuel ⟨[("a", .int a), ("b", .int b)], tape⟩ =
      .ret ⟨[("a", .int a), ("b", .int b)], tape⟩ [.int (max a b)] := by
  by_cases h : a > b
  · have : max a b = a := by omega
    simp [gomax, h, this]
  · have : max a b = b := by omega
    simp [gomax, h, this]

/-- `min(e1, e2)` from any caller that does not hold the shared buffers: the value, and the caller's store untouched -/
theorem callFun_min (s : St) (e1 e2 : Expr) (a b : Int) (f : Nat)
    (hS : s.env.get "Strings.B" = none) (hM : s.env.get "Message" = none)
    (h1 : evalE s e1 = .val (.int a)) (h2 : evalE s e2 = .val (.int b)) :
    callFun goFuns f "" "min" [] [e1, e2] s = .ret ⟨s.env, s.tape⟩ [.int (min a b)] := by
  have he := gomin_run a b f s.tape
  simp only [runFun, gomin] at he
  rw [callFun]
  simp [goFuns, gomin, h1, h2, hS, hM, copyPtrs, copyGlobals, globalVars, copyPtrsBack, -exec, -exec1]
  revert he
  generalize exec goFuns f _ _ = out
  intro he
  cases out <;> simp at he ⊢
  obtain ⟨rfl, rfl⟩ := he
  simp [copyGlobals, copyPtrsBack]

theorem callFun_max (s : St) (e1 e2 : Expr) (a b : Int) (f : Nat)
    (hS : s.env.get "Strings.B" = none) (hM : s.env.get "Message" = none)
    (h1 : evalE s e1 = .val (.int a)) (h2 : evalE s e2 = .val (.int b)) :
    callFun goFuns f "" "max" [] [e1, e2] s = .ret ⟨s.env, s.tape⟩ [.int (max a b)] := by
  have he := gomax_run a b f s.tape
  simp only [runFun, gomax] at he
  rw [callFun]
  simp [goFuns, gomax, h1, h2, hS, hM, copyPtrs, copyGlobals, globalVars, copyPtrsBack, -exec, -exec1]
  revert he
  generalize exec goFuns f _ _ = out
  intro he
  cases out <;> simp at he ⊢
  obtain ⟨rfl, rfl⟩ := he
  simp [copyGlobals, copyPtrsBack]

end calls

end SJ.GoFloatFmt
