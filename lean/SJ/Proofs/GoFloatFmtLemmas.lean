import SJ.Generated.GoSrc
import SJ.Model.FloatFmt
import SJ.Proofs.FloatFmt
set_option linter.unusedVariables false
set_option linter.unusedSimpArgs false
/-
GoFloatFmtLemmas — helpers for `GoFloatFmt.lean` (`min`, `max`, `fmtF`, `appendFloatF` of `appendfloat_f.go` and
`appendFloat` of `parsed_json.go`, as printed in `Generated/GoSrc.lean`, against `Model/FloatFmt.lean`).

* stores: `Env.get_set`; `Keep e e'` — a piece of `fmtF` writes only `dst` and its temporaries (`tmpVars`).
* `gomin_run`, `gomax_run`; `callFun_min`, `callFun_max`: the two helpers through `callFun` from any caller store
  that does not hold the shared buffers (`Strings.B`, `Message`), the caller's store coming back unchanged.
* `loop1`, `loop2`: the two `for` loops of `fmtF`, by induction on the remaining iterations `k`, for any store and
  any fuel `> k`; `seg_sign`, `seg_int`, `seg_frac`, `fmtF_exec`: the body of `fmtF` on any store holding its
  arguments (`FIn`), with `0 ≤ nd ≤ len(d.d)` (so no slice or index can fail) and `fmtFFuel nd dp prec ≤ fuel`.
* `fmtFGo`: what `fmtF` computes for arbitrary arguments; `fmtFGo_model`: on the ASCII digits of a `Shortest` and
  `prec = max(nd - dp, 0)` it is the model's `FloatFmt.fmtF` (through `FloatFmtProofs.fmtF_raw`).
* bits (no `bv_decide`: everything through `toNat`, `Nat.and_two_pow_sub_one_eq_mod` and `omega`): `absOf`, `exOf`,
  `toInt64_shr52`, `hiWord_and`, `exOf_abs`, `fr_abs`, `isFinite_iff`, `fin_facts`/`nonfin_facts`
  (`math.IsInf || math.IsNaN` ⇔ `¬ F64.isFinite`), `fcmpBits_pos` (float comparisons of non-negative non-NaN values
  are comparisons of the bit patterns).
* `goMant`, `goExp`, `shortest_abs`, `ryu_contract`: the interpreter's contract of `ryuFtoaShortest`, on the
  mantissa/exponent `appendFloatF` extracts (zero, denormal, normal), returns the digits of `shortest |f|`.
* `goClean`, `goClean_append`, `fmtE_size`: the in-place "e-09 → e-9" rewrite, done by the Go code on the whole of
  `dst ++ b`, is `dst ++ cleanExp b` when `4 ≤ len(b)`, and `fmtE` always produces at least 4 bytes.
-/
namespace SJ.GoFloatFmt
open SJ SJ.GoSem SJ.Generated SJ.FloatFmt SJ.FloatFmtProofs

/-! ## stores -/

theorem Env.get_set (e : Env) (k k' : String) (v : Val) :
    (e.set k v).get k' = if k = k' then some v else e.get k' := by
  induction e with
  | nil =>
    by_cases h : k = k' <;> simp [Env.set, Env.get, h]
  | cons p r ih =>
    obtain ⟨a, b⟩ := p
    by_cases h : a = k
    · subst h
      by_cases h' : a = k' <;> simp [Env.set, Env.get, h']
    · by_cases h' : a = k'
      · subst h'
        have : ¬ k = a := fun hh => h hh.symm
        simp [Env.set, Env.get, h, this]
      · simp [Env.set, Env.get, h, h', ih]

/-- the variables a piece of `fmtF` may write -/
def tmpVars : List String := ["dst", "m", "i", "ch", "j"]

/-- `e'` agrees with `e` outside `dst` and the temporaries -/
def Keep (e e' : Env) : Prop := ∀ x, x ∉ tmpVars → e'.get x = e.get x

theorem Keep.refl (e : Env) : Keep e e := fun _ _ => rfl
theorem Keep.trans {a b c : Env} (h1 : Keep a b) (h2 : Keep b c) : Keep a c :=
  fun x hx => (h2 x hx).trans (h1 x hx)
theorem Keep.set (e : Env) (k : String) (v : Val) (hk : k ∈ tmpVars) : Keep e (e.set k v) := by
  intro x hx
  have : k ≠ x := fun h => hx (h ▸ hk)
  simp [Env.get_set, this]
theorem Keep.set' {a b : Env} (h : Keep a b) (k : String) (v : Val) (hk : k ∈ tmpVars) : Keep a (b.set k v) :=
  h.trans (Keep.set b k v hk)

/-! ## `min`, `max` -/

section calls
attribute [local simp] exec exec1 execCases evalE evalEs Env.get Env.set isOneOf binop convert ofE copyFields
  bindParams runFun

theorem gomin_run (a b : Int) (fuel : Nat) (tape : Array UInt64) :
    runFun goFuns gomin fuel ⟨[("a", .int a), ("b", .int b)], tape⟩ =
      .ret ⟨[("a", .int a), ("b", .int b)], tape⟩ [.int (min a b)] := by
  by_cases h : a < b
  · have : min a b = a := by omega
    simp [gomin, h, this]
  · have : min a b = b := by omega
    simp [gomin, h, this]

theorem gomax_run (a b : Int) (fuel : Nat) (tape : Array UInt64) :
    runFun goFuns gomax fuel ⟨[("a", .int a), ("b", .int b)], tape⟩ =
      .ret ⟨[("a", .int a), ("b", .int b)], tape⟩ [.int (max a b)] := by
  by_cases h : a > b
  · have : max a b = a := by omega
    simp [gomax, h, this]
  · have : max a b = b := by omega
    simp [gomax, h, this]

/-- `min(e1, e2)` from any caller that does not hold the shared buffers: the value, and the caller's store untouched -/
theorem callFun_min (s : St) (e1 e2 : Expr) (a b : Int) (f : Nat)
    (hS : s.env.get "Strings.B" = none) (hM : s.env.get "Message" = none)
    (h1 : evalE s e1 = .val (.int a)) (h2 : evalE s e2 = .val (.int b)) :
    callFun goFuns f "" "min" [] [e1, e2] s = .ret ⟨s.env, s.tape⟩ [.int (min a b)] := by
  have he := gomin_run a b f s.tape
  simp only [runFun, gomin] at he
  rw [callFun]
  simp [goFuns, gomin, h1, h2, hS, hM, copyPtrs, copyGlobals, globalVars, copyPtrsBack, -exec, -exec1]
  revert he
  generalize exec goFuns f _ _ = out
  intro he
  cases out <;> simp at he ⊢
  obtain ⟨rfl, rfl⟩ := he
  simp [copyGlobals, copyPtrsBack]

theorem callFun_max (s : St) (e1 e2 : Expr) (a b : Int) (f : Nat)
    (hS : s.env.get "Strings.B" = none) (hM : s.env.get "Message" = none)
    (h1 : evalE s e1 = .val (.int a)) (h2 : evalE s e2 = .val (.int b)) :
    callFun goFuns f "" "max" [] [e1, e2] s = .ret ⟨s.env, s.tape⟩ [.int (max a b)] := by
  have he := gomax_run a b f s.tape
  simp only [runFun, gomax] at he
  rw [callFun]
  simp [goFuns, gomax, h1, h2, hS, hM, copyPtrs, copyGlobals, globalVars, copyPtrsBack, -exec, -exec1]
  revert he
  generalize exec goFuns f _ _ = out
  intro he
  cases out <;> simp at he ⊢
  obtain ⟨rfl, rfl⟩ := he
  simp [copyGlobals, copyPtrsBack]

end calls

/-! ## the pieces of `fmtF` -/

def c1 : Expr := .bin .lt (.v "m") (.v "d.dp")
def p1 : List Stmt := [.assign "m" (.bin .add (.v "m") (.int 1))]
def b1 : List Stmt := [.assign "dst" (.pushB (.v "dst") (.u8 48))]
def c2 : Expr := .bin .lt (.v "i") (.v "prec")
def p2 : List Stmt := [.assign "i" (.bin .add (.v "i") (.int 1))]
def b2 : List Stmt := [
  .assign "ch" (.conv .u8 (.u8 48)),
  .assign "j" (.bin .add (.v "d.dp") (.v "i")),
  .ite (.land (.bin .le (.int 0) (.v "j")) (.bin .lt (.v "j") (.v "d.nd"))) [
    .assign "ch" (.idxB (.v "d.d") (.v "j"))] [],
  .assign "dst" (.pushB (.v "dst") (.v "ch"))]

def sSign : Stmt := .ite (.v "neg") [.assign "dst" (.pushB (.v "dst") (.u8 45))] []
def sInt : Stmt := .ite (.bin .gt (.v "d.dp") (.int 0)) [
    .callAssign ["m"] "" "min" [] [(.v "d.nd"), (.v "d.dp")],
    .assign "dst" (.appendB (.v "dst") (.sliceB (.v "d.d") (.int 0) (.v "m"))),
    .forc [] c1 p1 b1] [
    .assign "dst" (.pushB (.v "dst") (.u8 48))]
def sFrac : Stmt := .ite (.bin .gt (.v "prec") (.int 0)) [
    .assign "dst" (.pushB (.v "dst") (.u8 46)),
    .forc [.assign "i" (.int 0)] c2 p2 b2] []

theorem gofmtF_body : gofmtF.body = [sSign, sInt, sFrac, .ret [(.v "dst")]] := rfl

section loops
attribute [local simp] exec exec1 execCases evalE evalEs isOneOf binop convert ofE Env.get_set

/-- `for ; m < d.dp; m++ { dst = append(dst, '0') }` with `k` iterations to go -/
theorem loop1 (tape : Array UInt64) (dp : Int) : ∀ (k : Nat) (e : Env) (m : Int) (out : Bytes) (fuel : Nat),
    k < fuel → m + k = dp → e.get "m" = some (.int m) → e.get "d.dp" = some (.int dp) →
    e.get "dst" = some (.bytes out) →
    ∃ e', exec1 goFuns fuel (.forc [] c1 p1 b1) ⟨e, tape⟩ = .normal ⟨e', tape⟩ ∧
      e'.get "dst" = some (.bytes (out ++ Array.replicate k 48)) ∧ Keep e e' := by
  intro k
  induction k with
  | zero =>
    intro e m out fuel hf hm h1 h2 h3
    obtain ⟨f, rfl⟩ : ∃ f, fuel = f + 1 := ⟨fuel - 1, by omega⟩
    have : ¬ m < dp := by omega
    exact ⟨e, by simp [c1, h1, h2, this], by simp [h3], Keep.refl e⟩
  | succ k ih =>
    intro e m out fuel hf hm h1 h2 h3
    obtain ⟨f, rfl⟩ : ∃ f, fuel = f + 1 := ⟨fuel - 1, by omega⟩
    have hc : m < dp := by omega
    have hstep : exec1 goFuns (f + 1) (.forc [] c1 p1 b1) ⟨e, tape⟩ =
        exec1 goFuns f (.forc [] c1 p1 b1) ⟨(e.set "dst" (.bytes (out.push 48))).set "m" (.int (m + 1)), tape⟩ := by
      have hb : exec goFuns f b1 ⟨e, tape⟩ = .normal ⟨e.set "dst" (.bytes (out.push 48)), tape⟩ := by
        simp [b1, h3]
      have hp : exec goFuns f p1 ⟨e.set "dst" (.bytes (out.push 48)), tape⟩ =
          .normal ⟨(e.set "dst" (.bytes (out.push 48))).set "m" (.int (m + 1)), tape⟩ := by
        simp [p1, h1]
      rw [exec1]
      simp only [evalE, c1, h1, h2, binop, hc, decide_true, hb, hp]
    obtain ⟨e', h4, h5, h6⟩ := ih ((e.set "dst" (.bytes (out.push 48))).set "m" (.int (m + 1))) (m + 1) (out.push 48) f
      (by omega) (by omega) (by simp) (by simp [h2]) (by simp)
    refine ⟨e', by rw [hstep, h4], ?_, ?_⟩
    · rw [h5]; congr 2
      apply Array.ext'
      simp [List.replicate_succ]
    · exact ((Keep.set e "dst" _ (by decide)).set' "m" _ (by decide)).trans h6

/-- the byte the fraction loop appends for index `i` -/
def fracCh (dd : Bytes) (nd dp : Int) (i : Nat) : UInt8 :=
  if 0 ≤ dp + (i : Int) ∧ dp + (i : Int) < nd then dd.getD (dp + (i : Int)).toNat 0 else 48

theorem loop2 (tape : Array UInt64) (dd : Bytes) (nd dp prec : Int) (hnd : nd ≤ dd.size) :
    ∀ (k : Nat) (e : Env) (i : Nat) (out : Bytes) (fuel : Nat),
    k < fuel → (i : Int) + k = prec → e.get "i" = some (.int i) → e.get "prec" = some (.int prec) →
    e.get "d.dp" = some (.int dp) → e.get "d.nd" = some (.int nd) → e.get "d.d" = some (.bytes dd) →
    e.get "dst" = some (.bytes out) →
    ∃ e', exec1 goFuns fuel (.forc [] c2 p2 b2) ⟨e, tape⟩ = .normal ⟨e', tape⟩ ∧
      e'.get "dst" = some (.bytes (out ++ ((List.range' i k).map (fracCh dd nd dp)).toArray)) ∧ Keep e e' := by
  intro k
  induction k with
  | zero =>
    intro e i out fuel hf hm h1 h2 h3 h4 h5 h6
    obtain ⟨f, rfl⟩ : ∃ f, fuel = f + 1 := ⟨fuel - 1, by omega⟩
    have : ¬ (i : Int) < prec := by omega
    exact ⟨e, by simp [c2, h1, h2, this], by simp [h6], Keep.refl e⟩
  | succ k ih =>
    intro e i out fuel hf hm h1 h2 h3 h4 h5 h6
    obtain ⟨f, rfl⟩ : ∃ f, fuel = f + 1 := ⟨fuel - 1, by omega⟩
    have hc : (i : Int) < prec := by omega
    obtain ⟨eb, hb, hb1, hi, hbk⟩ : ∃ eb, exec goFuns f b2 ⟨e, tape⟩ = .normal ⟨eb, tape⟩ ∧
        eb.get "dst" = some (.bytes (out.push (fracCh dd nd dp i))) ∧ eb.get "i" = some (.int i) ∧ Keep e eb := by
      by_cases hj : 0 ≤ dp + (i : Int) ∧ dp + (i : Int) < nd
      · have hj2 : dp + (i : Int) < dd.size := by omega
        have hj3 : (dp + (i : Int)).toNat < dd.size := by omega
        refine ⟨_, by simp [b2, h1, h3, h4, h5, h6, hj.1, hj.2, hj2]; rfl, by simp [fracCh, hj, hj3], by simp [h1], ?_⟩
        exact (((Keep.set e "ch" _ (by decide)).set' "j" _ (by decide)).set' "ch" _ (by decide)).set' "dst" _ (by decide)
      · have hj' : ¬ (0 ≤ dp + (i : Int)) ∨ ¬ (dp + (i : Int) < nd) := by omega
        rcases hj' with hj' | hj'
        · refine ⟨_, by simp [b2, h1, h3, h4, h5, h6, hj']; rfl, by simp [fracCh, hj'], by simp [h1], ?_⟩
          exact ((Keep.set e "ch" _ (by decide)).set' "j" _ (by decide)).set' "dst" _ (by decide)
        · by_cases hj0 : 0 ≤ dp + (i : Int)
          · refine ⟨_, by simp [b2, h1, h3, h4, h5, h6, hj', hj0]; rfl, by simp [fracCh, hj'], by simp [h1], ?_⟩
            exact ((Keep.set e "ch" _ (by decide)).set' "j" _ (by decide)).set' "dst" _ (by decide)
          · refine ⟨_, by simp [b2, h1, h3, h4, h5, h6, hj0]; rfl, by simp [fracCh, hj0], by simp [h1], ?_⟩
            exact ((Keep.set e "ch" _ (by decide)).set' "j" _ (by decide)).set' "dst" _ (by decide)
    have hstep : exec1 goFuns (f + 1) (.forc [] c2 p2 b2) ⟨e, tape⟩ =
        exec1 goFuns f (.forc [] c2 p2 b2) ⟨eb.set "i" (.int ((i : Int) + 1)), tape⟩ := by
      have hp : exec goFuns f p2 ⟨eb, tape⟩ = .normal ⟨eb.set "i" (.int ((i : Int) + 1)), tape⟩ := by
        simp [p2, hi]
      rw [exec1]
      simp only [evalE, c2, h1, h2, binop, hc, decide_true, hb, hp]
    obtain ⟨e', g4, g5, g6⟩ := ih (eb.set "i" (.int ((i : Int) + 1))) (i + 1) (out.push (fracCh dd nd dp i)) f
      (by omega) (by push_cast; omega) (by simp) (by simp [hbk "prec" (by decide), h2])
      (by simp [hbk "d.dp" (by decide), h3]) (by simp [hbk "d.nd" (by decide), h4])
      (by simp [hbk "d.d" (by decide), h5]) (by simp [hb1])
    refine ⟨e', by rw [hstep, g4], ?_, ?_⟩
    · rw [g5]; congr 2
      apply Array.ext'
      simp [List.range'_succ]
    · exact (hbk.set' "i" _ (by decide)).trans g6

end loops

/-! ## sequencing -/

theorem exec_append (funs : String → Option FunDef) (fuel : Nat) (a b : List Stmt) : ∀ s : St,
    exec funs fuel (a ++ b) s = match exec funs fuel a s with | .normal s' => exec funs fuel b s' | o => o := by
  induction a with
  | nil => intro s; simp [exec]
  | cons x r ih =>
    intro s
    simp only [List.cons_append]
    rw [exec, exec]
    cases h : exec1 funs fuel x s <;> simp [ih]

theorem exec_single (funs : String → Option FunDef) (fuel : Nat) (st : Stmt) (s : St) :
    exec funs fuel [st] s = match exec1 funs fuel st s with | .normal s' => .normal s' | o => o := by
  rw [exec]
  cases exec1 funs fuel st s <;> simp [exec]

/-! ## what `fmtF` computes -/

def intPart (dd : Bytes) (nd dp : Int) : Bytes :=
  if dp > 0 then dd.extract 0 (min nd dp).toNat ++ Array.replicate (dp - min nd dp).toNat 48 else #[48]

def fracPart (dd : Bytes) (nd dp prec : Int) : Bytes :=
  if prec > 0 then #[46] ++ ((List.range' 0 prec.toNat).map (fracCh dd nd dp)).toArray else #[]

/-- `fmtF(nil, neg, decimalSlice{d: dd, nd: nd, dp: dp}, prec)` -/
def fmtFGo (neg : Bool) (dd : Bytes) (nd dp prec : Int) : Bytes :=
  (signL neg).toArray ++ intPart dd nd dp ++ fracPart dd nd dp prec

/-- fuel for the body of `fmtF`: the longer of its two loops, the loop's initialisation and its last test -/
def fmtFFuel (nd dp prec : Int) : Nat := max (dp - min nd dp).toNat prec.toNat + 2

/-- what `fmtF` reads of its frame -/
structure FIn (e : Env) (dd : Bytes) (nd dp prec : Int) (neg : Bool) : Prop where
  dd : e.get "d.d" = some (.bytes dd)
  nd : e.get "d.nd" = some (.int nd)
  dp : e.get "d.dp" = some (.int dp)
  prec : e.get "prec" = some (.int prec)
  neg : e.get "neg" = some (.bool neg)
  strs : e.get "Strings.B" = none
  msg : e.get "Message" = none

theorem FIn.keep {e e' : Env} {dd nd dp prec neg} (h : FIn e dd nd dp prec neg) (hk : Keep e e') :
    FIn e' dd nd dp prec neg :=
  ⟨by rw [hk _ (by decide), h.dd], by rw [hk _ (by decide), h.nd], by rw [hk _ (by decide), h.dp],
   by rw [hk _ (by decide), h.prec], by rw [hk _ (by decide), h.neg], by rw [hk _ (by decide), h.strs],
   by rw [hk _ (by decide), h.msg]⟩

section segs
attribute [local simp] exec exec1 execCases evalE evalEs isOneOf binop convert ofE Env.get_set

theorem seg_sign (tape : Array UInt64) (fuel : Nat) (e : Env) (dd nd dp prec neg) (out : Bytes)
    (h : FIn e dd nd dp prec neg) (hd : e.get "dst" = some (.bytes out)) :
    ∃ e', exec1 goFuns fuel sSign ⟨e, tape⟩ = .normal ⟨e', tape⟩ ∧
      e'.get "dst" = some (.bytes (out ++ (signL neg).toArray)) ∧ Keep e e' := by
  cases neg
  · exact ⟨e, by simp [sSign, h.neg], by simp [signL, hd], Keep.refl e⟩
  · refine ⟨_, by simp [sSign, h.neg, hd]; rfl, by simp [signL], Keep.set e "dst" _ (by decide)⟩

theorem seg_int (tape : Array UInt64) (fuel : Nat) (e : Env) (dd nd dp prec neg) (out : Bytes)
    (h : FIn e dd nd dp prec neg) (hd : e.get "dst" = some (.bytes out))
    (h0 : 0 ≤ nd) (h1 : nd ≤ dd.size) (hf : (dp - min nd dp).toNat + 2 ≤ fuel) :
    ∃ e', exec1 goFuns fuel sInt ⟨e, tape⟩ = .normal ⟨e', tape⟩ ∧
      e'.get "dst" = some (.bytes (out ++ intPart dd nd dp)) ∧ Keep e e' := by
  obtain ⟨f, rfl⟩ : ∃ f, fuel = f + 1 := ⟨fuel - 1, by omega⟩
  by_cases hp : dp > 0
  · have hcall := callFun_min ⟨e, tape⟩ (.v "d.nd") (.v "d.dp") nd dp f h.strs h.msg (by simp [h.nd]) (by simp [h.dp])
    have hm0 : 0 ≤ min nd dp := by omega
    have hm1 : min nd dp ≤ dd.size := by omega
    have hpre : exec goFuns (f + 1) [.callAssign ["m"] "" "min" [] [(.v "d.nd"), (.v "d.dp")],
        .assign "dst" (.appendB (.v "dst") (.sliceB (.v "d.d") (.int 0) (.v "m")))] ⟨e, tape⟩ =
        .normal ⟨(e.set "m" (.int (min nd dp))).set "dst" (.bytes (out ++ dd.extract 0 (min nd dp).toNat)), tape⟩ := by
      simp [hcall, assignTargets, h.dd, hd, hm0, hm1]
    obtain ⟨e', g1, g2, g3⟩ := loop1 tape dp (dp - min nd dp).toNat
      ((e.set "m" (.int (min nd dp))).set "dst" (.bytes (out ++ dd.extract 0 (min nd dp).toNat))) (min nd dp)
      (out ++ dd.extract 0 (min nd dp).toNat) (f + 1) (by omega) (by omega) (by simp) (by simp [h.dp]) (by simp)
    refine ⟨e', ?_, ?_, ?_⟩
    · rw [sInt, exec1]
      simp only [evalE, h.dp, binop, hp, decide_true]
      rw [show ([.callAssign ["m"] "" "min" [] [(.v "d.nd"), (.v "d.dp")],
        .assign "dst" (.appendB (.v "dst") (.sliceB (.v "d.d") (.int 0) (.v "m"))), .forc [] c1 p1 b1] : List Stmt) =
        [.callAssign ["m"] "" "min" [] [(.v "d.nd"), (.v "d.dp")],
        .assign "dst" (.appendB (.v "dst") (.sliceB (.v "d.d") (.int 0) (.v "m")))] ++ [.forc [] c1 p1 b1] from rfl,
        exec_append, hpre]
      simp only [exec_single, g1]
    · rw [g2]; simp [intPart, hp, Array.append_assoc]
    · exact ((Keep.set e "m" _ (by decide)).set' "dst" _ (by decide)).trans g3
  · refine ⟨_, by simp [sInt, h.dp, hp, hd]; rfl, by simp [intPart, hp], Keep.set e "dst" _ (by decide)⟩

theorem seg_frac (tape : Array UInt64) (fuel : Nat) (e : Env) (dd nd dp prec neg) (out : Bytes)
    (h : FIn e dd nd dp prec neg) (hd : e.get "dst" = some (.bytes out))
    (h1 : nd ≤ dd.size) (hf : prec.toNat + 2 ≤ fuel) :
    ∃ e', exec1 goFuns fuel sFrac ⟨e, tape⟩ = .normal ⟨e', tape⟩ ∧
      e'.get "dst" = some (.bytes (out ++ fracPart dd nd dp prec)) ∧ Keep e e' := by
  obtain ⟨f, rfl⟩ : ∃ f, fuel = f + 1 := ⟨fuel - 1, by omega⟩
  by_cases hp : prec > 0
  · obtain ⟨e', g1, g2, g3⟩ := loop2 tape dd nd dp prec h1 prec.toNat
      ((e.set "dst" (.bytes (out.push 46))).set "i" (.int 0)) 0 (out.push 46) f (by omega) (by omega)
      (by simp) (by simp [h.prec]) (by simp [h.dp]) (by simp [h.nd]) (by simp [h.dd]) (by simp)
    refine ⟨e', ?_, ?_, ?_⟩
    · rw [sFrac, exec1]
      simp only [evalE, h.prec, binop, hp, decide_true]
      rw [exec]
      simp only [exec1, evalE, hd]
      rw [exec_single, exec1]
      simp only [exec, exec1, evalE, Env.set, UInt8.reduceOfNat]
      rw [g1]
    · rw [g2]; simp [fracPart, hp]
    · exact ((Keep.set e "dst" _ (by decide)).set' "i" _ (by decide)).trans g3
  · exact ⟨e, by simp [sFrac, h.prec, hp], by simp [fracPart, hp, hd], Keep.refl e⟩

/-- the body of `fmtF` on any frame holding its arguments -/
theorem fmtF_exec (tape : Array UInt64) (fuel : Nat) (e : Env) (dd nd dp prec neg) (dst : Bytes)
    (h : FIn e dd nd dp prec neg) (hd : e.get "dst" = some (.bytes dst))
    (h0 : 0 ≤ nd) (h1 : nd ≤ dd.size) (hf : fmtFFuel nd dp prec ≤ fuel) :
    ∃ e', exec goFuns fuel gofmtF.body ⟨e, tape⟩ = .ret ⟨e', tape⟩ [.bytes (dst ++ fmtFGo neg dd nd dp prec)] ∧
      Keep e e' := by
  have hf1 : (dp - min nd dp).toNat + 2 ≤ fuel := by unfold fmtFFuel at hf; omega
  have hf2 : prec.toNat + 2 ≤ fuel := by unfold fmtFFuel at hf; omega
  obtain ⟨ea, a1, a2, a3⟩ := seg_sign tape fuel e dd nd dp prec neg dst h hd
  obtain ⟨eb, b1, b2, b3⟩ := seg_int tape fuel ea dd nd dp prec neg _ (h.keep a3) a2 h0 h1 hf1
  obtain ⟨ec, c1, c2, c3⟩ := seg_frac tape fuel eb dd nd dp prec neg _ ((h.keep a3).keep b3) b2 h1 hf2
  refine ⟨ec, ?_, (a3.trans b3).trans c3⟩
  rw [gofmtF_body, exec, a1]
  simp only []
  rw [exec, b1]
  simp only []
  rw [exec, c1]
  simp [c2, fmtFGo, Array.append_assoc]

end segs

/-! ## `fmtFGo` on the digits of a `Shortest` is the model's `fmtF` -/

theorem fracCh_asc (ds : List Nat) (dp : Int) (i : Nat) :
    fracCh (asc ds).toArray ds.length dp i =
      if 0 ≤ dp + (i : Int) ∧ dp + (i : Int) < (ds.length : Int)
        then digitChar (ds.getD (dp + (i : Int)).toNat 0) else 48 := by
  unfold fracCh
  by_cases h : 0 ≤ dp + (i : Int) ∧ dp + (i : Int) < (ds.length : Int)
  · have h3 : (dp + (i : Int)).toNat < ds.length := by omega
    simp [h, asc, h3]
  · simp [h]

theorem fmtFGo_model (neg : Bool) (s : Shortest) :
    fmtFGo neg (asc s.digits).toArray s.digits.length s.dp (max ((s.digits.length : Int) - s.dp) 0) = fmtF neg s := by
  apply Array.ext'
  rw [fmtF_raw]
  unfold fmtFGo fmtFRaw intPart fracPart
  have hm : (min (s.digits.length : Int) s.dp).toNat = min s.digits.length s.dp.toNat := by omega
  have hk : (s.dp - min (s.digits.length : Int) s.dp).toNat = s.dp.toNat - min s.digits.length s.dp.toNat := by omega
  have hp : (max ((s.digits.length : Int) - s.dp) 0).toNat = ((s.digits.length : Int) - s.dp).toNat := by omega
  have hpp : (max ((s.digits.length : Int) - s.dp) 0 > 0) ↔ (((s.digits.length : Int) - s.dp).toNat > 0) := by omega
  have hfc : fracCh (asc s.digits).toArray s.digits.length s.dp = fun (i : Nat) =>
      if 0 ≤ s.dp + (i : Int) ∧ s.dp + (i : Int) < (s.digits.length : Int)
        then digitChar (s.digits.getD (s.dp + (i : Int)).toNat 0) else 48 := by
    funext i; exact fracCh_asc _ _ _
  rw [hm, hk, hp, hfc]
  by_cases h1 : s.dp > 0 <;> by_cases h2 : ((s.digits.length : Int) - s.dp).toNat > 0
  all_goals
    have h2' := hpp.2
    simp [h1, h2, hpp, map_const_range', asc]

/-! ## bits -/

/-- `math.Abs(f)` on the bits -/
def absOf (bits : UInt64) : UInt64 := bits &&& 0x7fffffffffffffff
/-- the biased exponent field -/
def exOf (bits : UInt64) : Nat := ((bits >>> 52) &&& 0x7ff).toNat
/-- `bits >> 52` as a natural number -/
def hiWord (bits : UInt64) : Nat := (bits >>> 52).toNat

theorem hiWord_eq (bits : UInt64) : hiWord bits = bits.toNat / 2^52 := by
  simp only [hiWord, UInt64.toNat_shiftRight, Nat.shiftRight_eq_div_pow]; rfl

theorem exOf_eq (bits : UInt64) : exOf bits = bits.toNat / 2^52 % 2^11 := by
  have h7 : (0x7ff : Nat) = 2^11 - 1 := by decide
  simp only [exOf, UInt64.toNat_and, UInt64.toNat_shiftRight, Nat.shiftRight_eq_div_pow]
  show bits.toNat / 2 ^ 52 &&& 2047 = _
  rw [h7, Nat.and_two_pow_sub_one_eq_mod]

theorem absOf_toNat (bits : UInt64) : (absOf bits).toNat = bits.toNat % 2^63 := by
  have h7 : (0x7fffffffffffffff : Nat) = 2^63 - 1 := by decide
  simp only [absOf, UInt64.toNat_and]
  show bits.toNat &&& 0x7fffffffffffffff = _
  rw [h7, Nat.and_two_pow_sub_one_eq_mod]

theorem toInt64_shr52 (bits : UInt64) : toInt64 (bits >>> 52) = ((hiWord bits : Nat) : Int) := by
  have := hiWord_eq bits
  have hb := bits.toNat_lt
  have h : (bits >>> 52).toNat < 2^63 := by unfold hiWord at this; omega
  unfold toInt64 hiWord
  rw [if_pos h]

theorem hiWord_and (bits : UInt64) : hiWord bits &&& 2047 = exOf bits := by
  simp only [hiWord, exOf, UInt64.toNat_and]; rfl

theorem exOf_abs (bits : UInt64) : exOf (absOf bits) = exOf bits := by
  rw [exOf_eq, exOf_eq, absOf_toNat]; omega

theorem fr_abs (bits : UInt64) : (absOf bits &&& 0xfffffffffffff).toNat = (bits &&& 0xfffffffffffff).toNat := by
  rw [fr_toNat, fr_toNat, absOf_toNat]; omega

theorem isFinite_iff (bits : UInt64) : F64.isFinite bits = true ↔ exOf bits ≠ 2047 := by
  unfold F64.isFinite exOf
  rw [bne_iff_ne, Ne, ← UInt64.toNat_inj]
  rfl

/-- `math.IsInf(f, 0) || math.IsNaN(f)` is false for a finite `f` … -/
theorem fin_facts (bits : UInt64) (h : F64.isFinite bits = true) :
    (absOf bits == 0x7ff0000000000000) = false ∧ decide (absOf bits > 0x7ff0000000000000) = false := by
  have hx := (isFinite_iff bits).1 h
  rw [exOf_eq] at hx
  have ha := absOf_toNat bits
  have hlt : (absOf bits).toNat < 0x7ff0000000000000 := by rw [ha]; omega
  constructor
  · rw [beq_eq_false_iff_ne, Ne, ← UInt64.toNat_inj]
    show ¬ (absOf bits).toNat = 0x7ff0000000000000
    omega
  · rw [decide_eq_false_iff_not, gt_iff_lt, UInt64.lt_iff_toNat_lt]
    show ¬ 0x7ff0000000000000 < (absOf bits).toNat
    omega

/-- … and true otherwise -/
theorem nonfin_facts (bits : UInt64) (h : F64.isFinite bits = false) :
    (absOf bits == 0x7ff0000000000000) = true ∨
      ((absOf bits == 0x7ff0000000000000) = false ∧ decide (absOf bits > 0x7ff0000000000000) = true) := by
  have hx : exOf bits = 2047 := by
    by_cases hh : exOf bits = 2047
    · exact hh
    · rw [(isFinite_iff bits).2 hh] at h; cases h
  rw [exOf_eq] at hx
  have ha := absOf_toNat bits
  have hb := bits.toNat_lt
  by_cases he : absOf bits = 0x7ff0000000000000
  · left; simp [he]
  · right
    refine ⟨by simp [he], ?_⟩
    rw [decide_eq_true_iff, gt_iff_lt, UInt64.lt_iff_toNat_lt]
    have : ¬ (absOf bits).toNat = 0x7ff0000000000000 := fun hh => he (UInt64.toNat_inj.mp hh)
    show 0x7ff0000000000000 < (absOf bits).toNat
    omega

theorem abs_and_self (a : UInt64) (h : a.toNat < 2^63) : a &&& 0x7fffffffffffffff = a := by
  apply UInt64.toNat_inj.mp
  have := absOf_toNat a
  unfold absOf at this
  rw [this]; omega

theorem shr63_zero (a : UInt64) (h : a.toNat < 2^63) : a >>> 63 = 0 := by
  apply UInt64.toNat_inj.mp
  simp only [UInt64.toNat_shiftRight, Nat.shiftRight_eq_div_pow]
  show a.toNat / 2^63 = 0
  omega

def fkey (x : UInt64) : Int :=
  if (x >>> 63) != 0 then -(((x &&& 0x7fffffffffffffff).toNat : Nat) : Int) else (((x &&& 0x7fffffffffffffff).toNat : Nat) : Int)
def fnan (x : UInt64) : Bool := (x &&& 0x7fffffffffffffff) > 0x7ff0000000000000

theorem fcmpBits_ge (a b : UInt64) :
    fcmpBits .ge a b = if fnan a || fnan b then some false else some (decide (fkey a ≥ fkey b)) := rfl
theorem fcmpBits_lt (a b : UInt64) :
    fcmpBits .lt a b = if fnan a || fnan b then some false else some (decide (fkey a < fkey b)) := rfl
theorem fcmpBits_eq (a b : UInt64) :
    fcmpBits .eq a b = if fnan a || fnan b then some false else some (fkey a == fkey b) := rfl

/-- Go's float comparisons on two non-negative, non-NaN values are the comparisons of the bit patterns -/
theorem fcmpBits_pos (a c : UInt64) (ha : a.toNat ≤ 0x7ff0000000000000) (hc : c.toNat ≤ 0x7ff0000000000000) :
    fcmpBits .ge a c = some (decide (a ≥ c)) ∧ fcmpBits .lt a c = some (decide (a < c)) ∧
    fcmpBits .eq a c = some (a == c) := by
  have ha1 := abs_and_self a (by omega)
  have hc1 := abs_and_self c (by omega)
  have ha2 := shr63_zero a (by omega)
  have hc2 := shr63_zero c (by omega)
  have hna : ¬ (0x7ff0000000000000 < a) := by rw [UInt64.lt_iff_toNat_lt]; show ¬ 0x7ff0000000000000 < a.toNat; omega
  have hnc : ¬ (0x7ff0000000000000 < c) := by rw [UInt64.lt_iff_toNat_lt]; show ¬ 0x7ff0000000000000 < c.toNat; omega
  have ka : fkey a = (a.toNat : Int) := by simp [fkey, ha1, ha2]
  have kc : fkey c = (c.toNat : Int) := by simp [fkey, hc1, hc2]
  have na : fnan a = false := by simp [fnan, ha1, hna]
  have nc : fnan c = false := by simp [fnan, hc1, hnc]
  rw [fcmpBits_ge, fcmpBits_lt, fcmpBits_eq, ka, kc, na, nc]
  simp only [Bool.or_false, Bool.false_eq_true, if_false, ge_iff_le, Int.ofNat_le, Int.ofNat_lt,
    UInt64.le_iff_toNat_le, UInt64.lt_iff_toNat_lt]
  refine ⟨trivial, trivial, ?_⟩
  congr 1
  by_cases h : a = c
  · subst h; simp
  · have : ¬ ((a.toNat : Int) = (c.toNat : Int)) := fun hh => h (UInt64.toNat_inj.mp (by exact_mod_cast hh))
    rw [(beq_eq_false_iff_ne).2 this, (beq_eq_false_iff_ne).2 h]

/-! ## the contract of `ryuFtoaShortest` on the arguments `appendFloatF` passes -/

/-- `mant` after the `switch exp` -/
def goMant (bits : UInt64) : UInt64 :=
  if exOf bits = 0 then bits &&& 4503599627370495 else (bits &&& 4503599627370495) ||| 4503599627370496
/-- `exp` after `exp += bias` -/
def goExp (bits : UInt64) : Int := (if exOf bits = 0 then 1 else (exOf bits : Int)) + (-1023)

theorem or_implicit (bits : UInt64) :
    ((bits &&& 4503599627370495) ||| 4503599627370496).toNat = (bits &&& 4503599627370495).toNat + 2^52 := by
  have h := fr_toNat bits
  have hlt : (bits &&& 4503599627370495).toNat < 2^52 := by rw [h]; exact Nat.mod_lt _ (by decide)
  rw [UInt64.toNat_or]
  show (bits &&& 4503599627370495).toNat ||| 1 <<< 52 = _
  rw [Nat.or_comm, ← Nat.shiftLeft_add_eq_or_of_lt hlt]
  simp [Nat.shiftLeft_eq]; omega

theorem shortest_abs (bits : UInt64) : shortest (absOf bits) =
    if exOf bits = 0 then
      (if (bits &&& 4503599627370495).toNat = 0 then { digits := [], dp := 0 }
       else shortestFrom (bits &&& 4503599627370495).toNat (-1074) false)
    else shortestFrom ((bits &&& 4503599627370495).toNat + 2^52) ((exOf bits : Int) - 1075)
      ((bits &&& 4503599627370495).toNat == 0 && decide (exOf bits > 1)) := by
  have h1 : ((absOf bits >>> 52) &&& 0x7ff).toNat = exOf bits := exOf_abs bits
  have h2 := fr_abs bits
  unfold shortest
  simp only [h1, h2]
  by_cases hx : exOf bits = 0
  · by_cases hf : (bits &&& 4503599627370495).toNat = 0 <;> simp [hx, hf]
  · simp [hx]

theorem ryu_contract (bits : UInt64) :
    extCall "ryuFtoaShortest" [.u64 (goMant bits), .int (goExp bits - 52)] =
      some [.bytes (asc (shortest (absOf bits)).digits).toArray, .int (shortest (absOf bits)).digits.length,
        .int (shortest (absOf bits)).dp] := by
  rw [shortest_abs]
  unfold goMant goExp
  by_cases hx : exOf bits = 0
  · simp only [hx, if_true]
    by_cases hf : bits &&& 4503599627370495 = 0
    · simp [extCall, hf, asc]
    · have hf' : ¬ (bits &&& 4503599627370495).toNat = 0 := fun hh => hf (UInt64.toNat_inj.mp hh)
      have hlt : (bits &&& 4503599627370495).toNat < 2^52 := by rw [fr_toNat]; exact Nat.mod_lt _ (by decide)
      have hne : ¬ bits &&& 4503599627370495 = 4503599627370496 := by
        intro hh; rw [hh] at hlt; exact absurd hlt (by decide)
      simp [extCall, hf, hf', hne, asc, -UInt64.toNat_and]
  · simp only [hx, if_false]
    have hor := or_implicit bits
    have hne : ¬ ((bits &&& 4503599627370495) ||| 4503599627370496) = 0 := by
      intro hh; rw [hh] at hor; simp [-UInt64.toNat_and] at hor
    have he : (exOf bits : Int) + -1023 - 52 = (exOf bits : Int) - 1075 := by omega
    have hlc : (((bits &&& 4503599627370495) ||| 4503599627370496) == 4503599627370496 &&
          decide ((exOf bits : Int) - 1075 > -1074)) =
        ((bits &&& 4503599627370495).toNat == 0 && decide (exOf bits > 1)) := by
      congr 1
      · by_cases hz : (bits &&& 4503599627370495).toNat = 0
        · have : ((bits &&& 4503599627370495) ||| 4503599627370496) = 4503599627370496 :=
            UInt64.toNat_inj.mp (by rw [hor, hz]; rfl)
          simp [this, hz, -UInt64.toNat_and]
        · have : ¬ ((bits &&& 4503599627370495) ||| 4503599627370496) = 4503599627370496 := by
            intro hh
            have := congrArg UInt64.toNat hh
            rw [hor] at this
            have h2 : (4503599627370496 : UInt64).toNat = 2^52 := rfl
            omega
          rw [(beq_eq_false_iff_ne).2 this, (beq_eq_false_iff_ne).2 hz]
      · apply decide_eq_decide.mpr; omega
    simp only [extCall, beq_self_eq_true, if_true, he, hlc, hor]
    simp [hne, asc, -UInt64.toNat_and]

/-! ## the exponent clean-up -/

theorem getD_tail (dst b : Bytes) (k : Nat) (h1 : 1 ≤ k) (hk : k ≤ b.size) :
    (dst ++ b).getD ((dst ++ b).size - k) 0 = b.getD (b.size - k) 0 := by
  have h2 : dst.size + b.size - k < dst.size + b.size := by omega
  have h3 : b.size - k < b.size := by omega
  have h4 : ¬ dst.size + b.size - k < dst.size := by omega
  have h5 : dst.size + b.size - k - dst.size = b.size - k := by omega
  simp [Array.getD_eq_getD_getElem?, Array.getElem?_append, h4, h5]

theorem clean_then (dst b : Bytes) (x : UInt8) (h : 2 ≤ b.size) :
    ((dst ++ b).setIfInBounds ((dst ++ b).size - 2) x).extract 0 ((dst ++ b).size - 1) =
      dst ++ (b.extract 0 (b.size - 2)).push x := by
  apply Array.ext_getElem?
  intro i
  simp only [Array.getElem?_extract, Array.getElem?_setIfInBounds, Array.getElem?_append, Array.getElem?_push,
    Array.size_append, Array.size_extract, Array.size_push, Nat.zero_add, Nat.sub_zero]
  by_cases ha : i < dst.size
  · have h1 : ¬ dst.size + b.size - 2 = i := by omega
    have h2 : i < dst.size + b.size - 1 := by omega
    simp [ha, h1, h2]
  · by_cases hb : dst.size + b.size - 2 = i
    · have h2 : i < dst.size + b.size - 1 := by omega
      have h3 : i - dst.size = min (b.size - 2) b.size := by omega
      have h4 : dst.size + b.size - 2 < dst.size + b.size := by omega
      simp [ha, hb, h2, h3, h4]
      omega
    · by_cases hc : i < dst.size + b.size - 1
      · have h3 : ¬ i - dst.size = min (b.size - 2) b.size := by omega
        have h4 : i - dst.size < min (b.size - 2) b.size := by omega
        have h5 : i - dst.size < b.size - 2 := by omega
        simp [ha, hb, hc, h3, h4, h5]
        intro hh; omega
      · have h3 : ¬ i - dst.size = min (b.size - 2) b.size := by omega
        have h4 : ¬ i - dst.size < min (b.size - 2) b.size := by omega
        have h6 : ¬ i - dst.size = b.size - 2 := by omega
        have h7 : ¬ i - dst.size < b.size - 2 := by omega
        simp [ha, hb, hc, h3, h4, h6, h7]

theorem fmtE_size (neg : Bool) (s : Shortest) : 4 ≤ (fmtE neg s).size := by
  unfold fmtE
  simp only [Id.run, bind, pure, forIn_list_push]
  have hnat : ∀ a, 10 ≤ a → 1 ≤ (natToAscii a).size := by
    intro a ha
    have h := natDigits_length_le a 1 (by decide)
    have : (natToAscii a).size = (natDigits a).length := by rw [← natToAscii_toList]; simp
    rw [this]
    by_cases hl : (natDigits a).length ≤ 1
    · have := h.1 hl; omega
    · omega
  generalize (if s.digits.isEmpty then (0 : Int) else s.dp - 1) = ex
  by_cases h2 : ex.natAbs < 10
  · cases neg <;> by_cases h1 : s.digits.length > 1 <;> simp [h1, h2] <;> omega
  · have := hnat _ (Nat.le_of_not_lt h2)
    cases neg <;> by_cases h1 : s.digits.length > 1 <;> simp [h1, h2] <;> omega

/-- the "clean up e-09 to e-9" step as the Go code does it, on the whole of `dst` -/
def goClean (all : Bytes) : Bytes :=
  if all.getD (all.size - 4) 0 = 101 ∧ all.getD (all.size - 3) 0 = 45 ∧ all.getD (all.size - 2) 0 = 48 then
    (all.setIfInBounds (all.size - 2) (all.getD (all.size - 1) 0)).extract 0 (all.size - 1)
  else all

theorem goClean_append (dst b : Bytes) (h : 4 ≤ b.size) : goClean (dst ++ b) = dst ++ cleanExp b := by
  unfold goClean cleanExp
  rw [getD_tail dst b 4 (by omega) h, getD_tail dst b 3 (by omega) (by omega), getD_tail dst b 2 (by omega) (by omega),
    getD_tail dst b 1 (by omega) (by omega)]
  simp only [beq_iff_eq, ge_iff_le, h, true_and]
  split
  · exact clean_then dst b _ (by omega)
  · rfl

end SJ.GoFloatFmt
