import SJ.Generated.GoSrc
import SJ.Model.FloatFmt
import SJ.Proofs.FloatFmt
set_option linter.unusedVariables false
set_option linter.unusedSimpArgs false
/-
GoFloatFmtLemmas — helpers for `GoFloatFmt.lean` (`min`, `max`, `fmtF`, `appendFloatF`, `appendFloat` of
`appendfloat_f.go` / `parsed_json.go` against `Model/FloatFmt.lean`).

* stores: `Env.get_set`; `Keep e e'` — a piece of `fmtF` changes only `dst` and its temporaries.
* `callFun_min`, `callFun_max`: the two helpers through `callFun` from any caller store without the shared buffers.
* `loop1`, `loop2`: the two `for` loops of `fmtF` by induction on the remaining iterations (`k < fuel`).
* `fmtFGo`: what `fmtF` computes for arbitrary arguments; `fmtFGo_model`: on the digits of a `Shortest` and
  `prec = max(nd - dp, 0)` it is the model's `FloatFmt.fmtF`.
* bit facts (`exOf`, `absOf`, …) relating the field extraction of `appendFloatF` and the predicates of `appendFloat`
  (`math.IsInf`, `math.IsNaN`, the float comparisons) to `F64.isFinite`, `shortest`, `loBits`, `hiBits`.
* `cleanup_eq`: the in-place "e-09 → e-9" rewrite on `dst ++ b` is `dst ++ cleanExp b` (needs `4 ≤ b.size`:
  `fmtE_size`).
-/
namespace SJ.GoFloatFmt
open SJ SJ.GoSem SJ.Generated SJ.FloatFmt SJ.FloatFmtProofs

/-! ## stores -/

theorem Env.get_set (e : Env) (k k' : String) (v : Val) :
    (e.set k v).get k' = if k = k' then some v else e.get k' := by
  induction e with
  | nil =>
    by_cases h : k = k' <;> simp [Env.set, Env.get, h]
  | cons p r ih =>
    obtain ⟨a, b⟩ := p
    by_cases h : a = k
    · subst h
      by_cases h' : a = k' <;> simp [Env.set, Env.get, h']
    · by_cases h' : a = k'
      · subst h'
        have : ¬ k = a := fun hh => h hh.symm
        simp [Env.set, Env.get, h, this]
      · simp [Env.set, Env.get, h, h', ih]

/-- the variables a piece of `fmtF` may write -/
def tmpVars : List String := ["dst", "m", "i", "ch", "j"]

/-- `e'` agrees with `e` outside `dst` and the temporaries -/
def Keep (e e' : Env) : Prop := ∀ x, x ∉ tmpVars → e'.get x = e.get x

theorem Keep.refl (e : Env) : Keep e e := fun _ _ => rfl
theorem Keep.trans {a b c : Env} (h1 : Keep a b) (h2 : Keep b c) : Keep a c :=
  fun x hx => (h2 x hx).trans (h1 x hx)
theorem Keep.set (e : Env) (k : String) (v : Val) (hk : k ∈ tmpVars) : Keep e (e.set k v) := by
  intro x hx
  have : k ≠ x := fun h => hx (h ▸ hk)
  simp [Env.get_set, this]
theorem Keep.set' {a b : Env} (h : Keep a b) (k : String) (v : Val) (hk : k ∈ tmpVars) : Keep a (b.set k v) :=
  h.trans (Keep.set b k v hk)

/-! ## `min`, `max` -/

section calls
attribute [local simp] exec exec1 execCases evalE evalEs Env.get Env.set isOneOf binop convert ofE copyFields
  bindParams runFun

theorem gomin_run (a b : Int) (fuel : Nat) (tape : Array UInt64) :
    runFun goFuns gomin fuel ⟨[("a", .int a), ("b", .int b)], tape⟩ =
      .ret ⟨[("a", .int a), ("b", .int b)], tape⟩ [.int (min a b)] := by
  by_cases h : a < b
  · have : min a b = a := by omega
    simp [gomin, h, this]
  · have : min a b = b := by omega
    simp [gomin, h, this]

theorem gomax_run (a b : Int) (fuel : Nat) (tape : Array UInt64) :
    runFun goFuns gomax fuel ⟨[("a", .int a), ("b", .int b)], tape⟩ =
      .ret ⟨[("a", .int a), ("b", .int b)], tape⟩ [.int (max a b)] := by
  by_cases h : a > b
  · have : max a b = a := by omega
    simp [gomax, h, this]
  · have : max a b = b := by omega
    simp [gomax, h, this]

/-- `min(e1, e2)` from any caller that does not hold the shared buffers: the value, and the caller's store untouched -/
theorem callFun_min (s : St) (e1 e2 : Expr) (a b : Int) (f : Nat)
    (hS : s.env.get "Strings.B" = none) (hM : s.env.get "Message" = none)
    (h1 : evalE s e1 = .val (.int a)) (h2 : evalE s e2 = .val (.int b)) :
    callFun goFuns f "" "min" [] [e1, e2] s = .ret ⟨s.env, s.tape⟩ [.int (min a b)] := by
  have he := gomin_run a b f s.tape
  simp only [runFun, gomin] at he
  rw [callFun]
  simp [goFuns, gomin, h1, h2, hS, hM, copyPtrs, copyGlobals, globalVars, copyPtrsBack, -exec, -exec1]
  revert he
  generalize exec goFuns f _ _ = out
  intro he
  cases out <;> simp at he ⊢
  obtain ⟨rfl, rfl⟩ := he
  simp [copyGlobals, copyPtrsBack]

theorem callFun_max (s : St) (e1 e2 : Expr) (a b : Int) (f : Nat)
    (hS : s.env.get "Strings.B" = none) (hM : s.env.get "Message" = none)
    (h1 : evalE s e1 = .val (.int a)) (h2 : evalE s e2 = .val (.int b)) :
    callFun goFuns f "" "max" [] [e1, e2] s = .ret ⟨s.env, s.tape⟩ [.int (max a b)] := by
  have he := gomax_run a b f s.tape
  simp only [runFun, gomax] at he
  rw [callFun]
  simp [goFuns, gomax, h1, h2, hS, hM, copyPtrs, copyGlobals, globalVars, copyPtrsBack, -exec, -exec1]
  revert he
  generalize exec goFuns f _ _ = out
  intro he
  cases out <;> simp at he ⊢
  obtain ⟨rfl, rfl⟩ := he
  simp [copyGlobals, copyPtrsBack]

end calls

/-! ## the pieces of `fmtF` -/

def c1 : Expr := .bin .lt (.v "m") (.v "d.dp")
def p1 : List Stmt := [.assign "m" (.bin .add (.v "m") (.int 1))]
def b1 : List Stmt := [.assign "dst" (.pushB (.v "dst") (.u8 48))]
def c2 : Expr := .bin .lt (.v "i") (.v "prec")
def p2 : List Stmt := [.assign "i" (.bin .add (.v "i") (.int 1))]
def b2 : List Stmt := [
  .assign "ch" (.conv .u8 (.u8 48)),
  .assign "j" (.bin .add (.v "d.dp") (.v "i")),
  .ite (.land (.bin .le (.int 0) (.v "j")) (.bin .lt (.v "j") (.v "d.nd"))) [
    .assign "ch" (.idxB (.v "d.d") (.v "j"))] [],
  .assign "dst" (.pushB (.v "dst") (.v "ch"))]

def sSign : Stmt := .ite (.v "neg") [.assign "dst" (.pushB (.v "dst") (.u8 45))] []
def sInt : Stmt := .ite (.bin .gt (.v "d.dp") (.int 0)) [
    .callAssign ["m"] "" "min" [] [(.v "d.nd"), (.v "d.dp")],
    .assign "dst" (.appendB (.v "dst") (.sliceB (.v "d.d") (.int 0) (.v "m"))),
    .forc [] c1 p1 b1] [
    .assign "dst" (.pushB (.v "dst") (.u8 48))]
def sFrac : Stmt := .ite (.bin .gt (.v "prec") (.int 0)) [
    .assign "dst" (.pushB (.v "dst") (.u8 46)),
    .forc [.assign "i" (.int 0)] c2 p2 b2] []

theorem gofmtF_body : gofmtF.body = [sSign, sInt, sFrac, .ret [(.v "dst")]] := rfl

section loops
attribute [local simp] exec exec1 execCases evalE evalEs isOneOf binop convert ofE Env.get_set

/-- `for ; m < d.dp; m++ { dst = append(dst, '0') }` with `k` iterations to go -/
theorem loop1 (tape : Array UInt64) (dp : Int) : ∀ (k : Nat) (e : Env) (m : Int) (out : Bytes) (fuel : Nat),
    k < fuel → m + k = dp → e.get "m" = some (.int m) → e.get "d.dp" = some (.int dp) →
    e.get "dst" = some (.bytes out) →
    ∃ e', exec1 goFuns fuel (.forc [] c1 p1 b1) ⟨e, tape⟩ = .normal ⟨e', tape⟩ ∧
      e'.get "dst" = some (.bytes (out ++ Array.replicate k 48)) ∧ Keep e e' := by
  intro k
  induction k with
  | zero =>
    intro e m out fuel hf hm h1 h2 h3
    obtain ⟨f, rfl⟩ : ∃ f, fuel = f + 1 := ⟨fuel - 1, by omega⟩
    have : ¬ m < dp := by omega
    exact ⟨e, by simp [c1, h1, h2, this], by simp [h3], Keep.refl e⟩
  | succ k ih =>
    intro e m out fuel hf hm h1 h2 h3
    obtain ⟨f, rfl⟩ : ∃ f, fuel = f + 1 := ⟨fuel - 1, by omega⟩
    have hc : m < dp := by omega
    have hstep : exec1 goFuns (f + 1) (.forc [] c1 p1 b1) ⟨e, tape⟩ =
        exec1 goFuns f (.forc [] c1 p1 b1) ⟨(e.set "dst" (.bytes (out.push 48))).set "m" (.int (m + 1)), tape⟩ := by
      have hb : exec goFuns f b1 ⟨e, tape⟩ = .normal ⟨e.set "dst" (.bytes (out.push 48)), tape⟩ := by
        simp [b1, h3]
      have hp : exec goFuns f p1 ⟨e.set "dst" (.bytes (out.push 48)), tape⟩ =
          .normal ⟨(e.set "dst" (.bytes (out.push 48))).set "m" (.int (m + 1)), tape⟩ := by
        simp [p1, h1]
      rw [exec1]
      simp only [evalE, c1, h1, h2, binop, hc, decide_true, hb, hp]
    obtain ⟨e', h4, h5, h6⟩ := ih ((e.set "dst" (.bytes (out.push 48))).set "m" (.int (m + 1))) (m + 1) (out.push 48) f
      (by omega) (by omega) (by simp) (by simp [h2]) (by simp)
    refine ⟨e', by rw [hstep, h4], ?_, ?_⟩
    · rw [h5]; congr 2
      apply Array.ext'
      simp [List.replicate_succ]
    · exact ((Keep.set e "dst" _ (by decide)).set' "m" _ (by decide)).trans h6

/-- the byte the fraction loop appends for index `i` -/
def fracCh (dd : Bytes) (nd dp : Int) (i : Nat) : UInt8 :=
  if 0 ≤ dp + (i : Int) ∧ dp + (i : Int) < nd then dd.getD (dp + (i : Int)).toNat 0 else 48

theorem loop2 (tape : Array UInt64) (dd : Bytes) (nd dp prec : Int) (hnd : nd ≤ dd.size) :
    ∀ (k : Nat) (e : Env) (i : Nat) (out : Bytes) (fuel : Nat),
    k < fuel → (i : Int) + k = prec → e.get "i" = some (.int i) → e.get "prec" = some (.int prec) →
    e.get "d.dp" = some (.int dp) → e.get "d.nd" = some (.int nd) → e.get "d.d" = some (.bytes dd) →
    e.get "dst" = some (.bytes out) →
    ∃ e', exec1 goFuns fuel (.forc [] c2 p2 b2) ⟨e, tape⟩ = .normal ⟨e', tape⟩ ∧
      e'.get "dst" = some (.bytes (out ++ ((List.range' i k).map (fracCh dd nd dp)).toArray)) ∧ Keep e e' := by
  intro k
  induction k with
  | zero =>
    intro e i out fuel hf hm h1 h2 h3 h4 h5 h6
    obtain ⟨f, rfl⟩ : ∃ f, fuel = f + 1 := ⟨fuel - 1, by omega⟩
    have : ¬ (i : Int) < prec := by omega
    exact ⟨e, by simp [c2, h1, h2, this], by simp [h6], Keep.refl e⟩
  | succ k ih =>
    intro e i out fuel hf hm h1 h2 h3 h4 h5 h6
    obtain ⟨f, rfl⟩ : ∃ f, fuel = f + 1 := ⟨fuel - 1, by omega⟩
    have hc : (i : Int) < prec := by omega
    obtain ⟨eb, hb, hb1, hi, hbk⟩ : ∃ eb, exec goFuns f b2 ⟨e, tape⟩ = .normal ⟨eb, tape⟩ ∧
        eb.get "dst" = some (.bytes (out.push (fracCh dd nd dp i))) ∧ eb.get "i" = some (.int i) ∧ Keep e eb := by
      by_cases hj : 0 ≤ dp + (i : Int) ∧ dp + (i : Int) < nd
      · have hj2 : dp + (i : Int) < dd.size := by omega
        have hj3 : (dp + (i : Int)).toNat < dd.size := by omega
        refine ⟨_, by simp [b2, h1, h3, h4, h5, h6, hj.1, hj.2, hj2]; rfl, by simp [fracCh, hj, hj3], by simp [h1], ?_⟩
        exact (((Keep.set e "ch" _ (by decide)).set' "j" _ (by decide)).set' "ch" _ (by decide)).set' "dst" _ (by decide)
      · have hj' : ¬ (0 ≤ dp + (i : Int)) ∨ ¬ (dp + (i : Int) < nd) := by omega
        rcases hj' with hj' | hj'
        · refine ⟨_, by simp [b2, h1, h3, h4, h5, h6, hj']; rfl, by simp [fracCh, hj'], by simp [h1], ?_⟩
          exact ((Keep.set e "ch" _ (by decide)).set' "j" _ (by decide)).set' "dst" _ (by decide)
        · by_cases hj0 : 0 ≤ dp + (i : Int)
          · refine ⟨_, by simp [b2, h1, h3, h4, h5, h6, hj', hj0]; rfl, by simp [fracCh, hj'], by simp [h1], ?_⟩
            exact ((Keep.set e "ch" _ (by decide)).set' "j" _ (by decide)).set' "dst" _ (by decide)
          · refine ⟨_, by simp [b2, h1, h3, h4, h5, h6, hj0]; rfl, by simp [fracCh, hj0], by simp [h1], ?_⟩
            exact ((Keep.set e "ch" _ (by decide)).set' "j" _ (by decide)).set' "dst" _ (by decide)
    have hstep : exec1 goFuns (f + 1) (.forc [] c2 p2 b2) ⟨e, tape⟩ =
        exec1 goFuns f (.forc [] c2 p2 b2) ⟨eb.set "i" (.int ((i : Int) + 1)), tape⟩ := by
      have hp : exec goFuns f p2 ⟨eb, tape⟩ = .normal ⟨eb.set "i" (.int ((i : Int) + 1)), tape⟩ := by
        simp [p2, hi]
      rw [exec1]
      simp only [evalE, c2, h1, h2, binop, hc, decide_true, hb, hp]
    obtain ⟨e', g4, g5, g6⟩ := ih (eb.set "i" (.int ((i : Int) + 1))) (i + 1) (out.push (fracCh dd nd dp i)) f
      (by omega) (by push_cast; omega) (by simp) (by simp [hbk "prec" (by decide), h2])
      (by simp [hbk "d.dp" (by decide), h3]) (by simp [hbk "d.nd" (by decide), h4])
      (by simp [hbk "d.d" (by decide), h5]) (by simp [hb1])
    refine ⟨e', by rw [hstep, g4], ?_, ?_⟩
    · rw [g5]; congr 2
      apply Array.ext'
      simp [List.range'_succ]
    · exact (hbk.set' "i" _ (by decide)).trans g6

end loops

/-! ## sequencing -/

theorem exec_append (funs : String → Option FunDef) (fuel : Nat) (a b : List Stmt) : ∀ s : St,
    exec funs fuel (a ++ b) s = match exec funs fuel a s with | .normal s' => exec funs fuel b s' | o => o := by
  induction a with
  | nil => intro s; simp [exec]
  | cons x r ih =>
    intro s
    simp only [List.cons_append]
    rw [exec, exec]
    cases h : exec1 funs fuel x s <;> simp [ih]

theorem exec_single (funs : String → Option FunDef) (fuel : Nat) (st : Stmt) (s : St) :
    exec funs fuel [st] s = match exec1 funs fuel st s with | .normal s' => .normal s' | o => o := by
  rw [exec]
  cases exec1 funs fuel st s <;> simp [exec]

/-! ## what `fmtF` computes -/

def intPart (dd : Bytes) (nd dp : Int) : Bytes :=
  if dp > 0 then dd.extract 0 (min nd dp).toNat ++ Array.replicate (dp - min nd dp).toNat 48 else #[48]

def fracPart (dd : Bytes) (nd dp prec : Int) : Bytes :=
  if prec > 0 then #[46] ++ ((List.range' 0 prec.toNat).map (fracCh dd nd dp)).toArray else #[]

/-- `fmtF(nil, neg, decimalSlice{d: dd, nd: nd, dp: dp}, prec)` -/
def fmtFGo (neg : Bool) (dd : Bytes) (nd dp prec : Int) : Bytes :=
  (signL neg).toArray ++ intPart dd nd dp ++ fracPart dd nd dp prec

/-- fuel for the body of `fmtF`: the longer of its two loops, the loop's initialisation and its last test -/
def fmtFFuel (nd dp prec : Int) : Nat := max (dp - min nd dp).toNat prec.toNat + 2

/-- what `fmtF` reads of its frame -/
structure FIn (e : Env) (dd : Bytes) (nd dp prec : Int) (neg : Bool) : Prop where
  dd : e.get "d.d" = some (.bytes dd)
  nd : e.get "d.nd" = some (.int nd)
  dp : e.get "d.dp" = some (.int dp)
  prec : e.get "prec" = some (.int prec)
  neg : e.get "neg" = some (.bool neg)
  strs : e.get "Strings.B" = none
  msg : e.get "Message" = none

theorem FIn.keep {e e' : Env} {dd nd dp prec neg} (h : FIn e dd nd dp prec neg) (hk : Keep e e') :
    FIn e' dd nd dp prec neg :=
  ⟨by rw [hk _ (by decide), h.dd], by rw [hk _ (by decide), h.nd], by rw [hk _ (by decide), h.dp],
   by rw [hk _ (by decide), h.prec], by rw [hk _ (by decide), h.neg], by rw [hk _ (by decide), h.strs],
   by rw [hk _ (by decide), h.msg]⟩

section segs
attribute [local simp] exec exec1 execCases evalE evalEs isOneOf binop convert ofE Env.get_set

theorem seg_sign (tape : Array UInt64) (fuel : Nat) (e : Env) (dd nd dp prec neg) (out : Bytes)
    (h : FIn e dd nd dp prec neg) (hd : e.get "dst" = some (.bytes out)) :
    ∃ e', exec1 goFuns fuel sSign ⟨e, tape⟩ = .normal ⟨e', tape⟩ ∧
      e'.get "dst" = some (.bytes (out ++ (signL neg).toArray)) ∧ Keep e e' := by
  cases neg
  · exact ⟨e, by simp [sSign, h.neg], by simp [signL, hd], Keep.refl e⟩
  · refine ⟨_, by simp [sSign, h.neg, hd]; rfl, by simp [signL], Keep.set e "dst" _ (by decide)⟩

theorem seg_int (tape : Array UInt64) (fuel : Nat) (e : Env) (dd nd dp prec neg) (out : Bytes)
    (h : FIn e dd nd dp prec neg) (hd : e.get "dst" = some (.bytes out))
    (h0 : 0 ≤ nd) (h1 : nd ≤ dd.size) (hf : (dp - min nd dp).toNat + 2 ≤ fuel) :
    ∃ e', exec1 goFuns fuel sInt ⟨e, tape⟩ = .normal ⟨e', tape⟩ ∧
      e'.get "dst" = some (.bytes (out ++ intPart dd nd dp)) ∧ Keep e e' := by
  obtain ⟨f, rfl⟩ : ∃ f, fuel = f + 1 := ⟨fuel - 1, by omega⟩
  by_cases hp : dp > 0
  · have hcall := callFun_min ⟨e, tape⟩ (.v "d.nd") (.v "d.dp") nd dp f h.strs h.msg (by simp [h.nd]) (by simp [h.dp])
    have hm0 : 0 ≤ min nd dp := by omega
    have hm1 : min nd dp ≤ dd.size := by omega
    have hpre : exec goFuns (f + 1) [.callAssign ["m"] "" "min" [] [(.v "d.nd"), (.v "d.dp")],
        .assign "dst" (.appendB (.v "dst") (.sliceB (.v "d.d") (.int 0) (.v "m")))] ⟨e, tape⟩ =
        .normal ⟨(e.set "m" (.int (min nd dp))).set "dst" (.bytes (out ++ dd.extract 0 (min nd dp).toNat)), tape⟩ := by
      simp [hcall, assignTargets, h.dd, hd, hm0, hm1]
    obtain ⟨e', g1, g2, g3⟩ := loop1 tape dp (dp - min nd dp).toNat
      ((e.set "m" (.int (min nd dp))).set "dst" (.bytes (out ++ dd.extract 0 (min nd dp).toNat))) (min nd dp)
      (out ++ dd.extract 0 (min nd dp).toNat) (f + 1) (by omega) (by omega) (by simp) (by simp [h.dp]) (by simp)
    refine ⟨e', ?_, ?_, ?_⟩
    · rw [sInt, exec1]
      simp only [evalE, h.dp, binop, hp, decide_true]
      rw [show ([.callAssign ["m"] "" "min" [] [(.v "d.nd"), (.v "d.dp")],
        .assign "dst" (.appendB (.v "dst") (.sliceB (.v "d.d") (.int 0) (.v "m"))), .forc [] c1 p1 b1] : List Stmt) =
        [.callAssign ["m"] "" "min" [] [(.v "d.nd"), (.v "d.dp")],
        .assign "dst" (.appendB (.v "dst") (.sliceB (.v "d.d") (.int 0) (.v "m")))] ++ [.forc [] c1 p1 b1] from rfl,
        exec_append, hpre]
      simp only [exec_single, g1]
    · rw [g2]; simp [intPart, hp, Array.append_assoc]
    · exact ((Keep.set e "m" _ (by decide)).set' "dst" _ (by decide)).trans g3
  · refine ⟨_, by simp [sInt, h.dp, hp, hd]; rfl, by simp [intPart, hp], Keep.set e "dst" _ (by decide)⟩

theorem seg_frac (tape : Array UInt64) (fuel : Nat) (e : Env) (dd nd dp prec neg) (out : Bytes)
    (h : FIn e dd nd dp prec neg) (hd : e.get "dst" = some (.bytes out))
    (h1 : nd ≤ dd.size) (hf : prec.toNat + 2 ≤ fuel) :
    ∃ e', exec1 goFuns fuel sFrac ⟨e, tape⟩ = .normal ⟨e', tape⟩ ∧
      e'.get "dst" = some (.bytes (out ++ fracPart dd nd dp prec)) ∧ Keep e e' := by
  obtain ⟨f, rfl⟩ : ∃ f, fuel = f + 1 := ⟨fuel - 1, by omega⟩
  by_cases hp : prec > 0
  · obtain ⟨e', g1, g2, g3⟩ := loop2 tape dd nd dp prec h1 prec.toNat
      ((e.set "dst" (.bytes (out.push 46))).set "i" (.int 0)) 0 (out.push 46) f (by omega) (by omega)
      (by simp) (by simp [h.prec]) (by simp [h.dp]) (by simp [h.nd]) (by simp [h.dd]) (by simp)
    refine ⟨e', ?_, ?_, ?_⟩
    · rw [sFrac, exec1]
      simp only [evalE, h.prec, binop, hp, decide_true]
      rw [exec]
      simp only [exec1, evalE, hd]
      rw [exec_single, exec1]
      simp only [exec, exec1, evalE, Env.set, UInt8.reduceOfNat]
      rw [g1]
    · rw [g2]; simp [fracPart, hp]
    · exact ((Keep.set e "dst" _ (by decide)).set' "i" _ (by decide)).trans g3
  · exact ⟨e, by simp [sFrac, h.prec, hp], by simp [fracPart, hp, hd], Keep.refl e⟩

/-- the body of `fmtF` on any frame holding its arguments -/
theorem fmtF_exec (tape : Array UInt64) (fuel : Nat) (e : Env) (dd nd dp prec neg) (dst : Bytes)
    (h : FIn e dd nd dp prec neg) (hd : e.get "dst" = some (.bytes dst))
    (h0 : 0 ≤ nd) (h1 : nd ≤ dd.size) (hf : fmtFFuel nd dp prec ≤ fuel) :
    ∃ e', exec goFuns fuel gofmtF.body ⟨e, tape⟩ = .ret ⟨e', tape⟩ [.bytes (dst ++ fmtFGo neg dd nd dp prec)] := by
  have hf1 : (dp - min nd dp).toNat + 2 ≤ fuel := by unfold fmtFFuel at hf; omega
  have hf2 : prec.toNat + 2 ≤ fuel := by unfold fmtFFuel at hf; omega
  obtain ⟨ea, a1, a2, a3⟩ := seg_sign tape fuel e dd nd dp prec neg dst h hd
  obtain ⟨eb, b1, b2, b3⟩ := seg_int tape fuel ea dd nd dp prec neg _ (h.keep a3) a2 h0 h1 hf1
  obtain ⟨ec, c1, c2, c3⟩ := seg_frac tape fuel eb dd nd dp prec neg _ ((h.keep a3).keep b3) b2 h1 hf2
  refine ⟨ec, ?_⟩
  rw [gofmtF_body, exec, a1]
  simp only []
  rw [exec, b1]
  simp only []
  rw [exec, c1]
  simp [c2, fmtFGo, Array.append_assoc]

end segs

/-! ## `fmtFGo` on the digits of a `Shortest` is the model's `fmtF` -/

theorem fracCh_asc (ds : List Nat) (dp : Int) (i : Nat) :
    fracCh (asc ds).toArray ds.length dp i =
      if 0 ≤ dp + (i : Int) ∧ dp + (i : Int) < (ds.length : Int)
        then digitChar (ds.getD (dp + (i : Int)).toNat 0) else 48 := by
  unfold fracCh
  by_cases h : 0 ≤ dp + (i : Int) ∧ dp + (i : Int) < (ds.length : Int)
  · have h3 : (dp + (i : Int)).toNat < ds.length := by omega
    simp [h, asc, h3]
  · simp [h]

theorem fmtFGo_model (neg : Bool) (s : Shortest) :
    fmtFGo neg (asc s.digits).toArray s.digits.length s.dp (max ((s.digits.length : Int) - s.dp) 0) = fmtF neg s := by
  apply Array.ext'
  rw [fmtF_raw]
  unfold fmtFGo fmtFRaw intPart fracPart
  have hm : (min (s.digits.length : Int) s.dp).toNat = min s.digits.length s.dp.toNat := by omega
  have hk : (s.dp - min (s.digits.length : Int) s.dp).toNat = s.dp.toNat - min s.digits.length s.dp.toNat := by omega
  have hp : (max ((s.digits.length : Int) - s.dp) 0).toNat = ((s.digits.length : Int) - s.dp).toNat := by omega
  have hpp : (max ((s.digits.length : Int) - s.dp) 0 > 0) ↔ (((s.digits.length : Int) - s.dp).toNat > 0) := by omega
  have hfc : fracCh (asc s.digits).toArray s.digits.length s.dp = fun (i : Nat) =>
      if 0 ≤ s.dp + (i : Int) ∧ s.dp + (i : Int) < (s.digits.length : Int)
        then digitChar (s.digits.getD (s.dp + (i : Int)).toNat 0) else 48 := by
    funext i; exact fracCh_asc _ _ _
  rw [hm, hk, hp, hfc]
  by_cases h1 : s.dp > 0 <;> by_cases h2 : ((s.digits.length : Int) - s.dp).toNat > 0
  all_goals
    have h2' := hpp.2
    simp [h1, h2, hpp, map_const_range', asc]

end SJ.GoFloatFmt
