import SJ.Proofs.ParseDefs
set_option linter.unusedVariables false
/-
Interfaces between the parts of the whole-parser proof.  Each structure is a bundle of lemma *statements*:
`ScanLex` proves `ScanFacts`, `StrLex` proves `StrFacts`, `Rounds` proves `RoundsFacts`; `MachineSim` uses them.
No proofs here.
-/
namespace SJ.ParseDefs
open SJ SJ.Generated

/-- a byte of the message (0 beyond its end, never relied upon) -/
abbrev byteAt (msg : Bytes) (p : Nat) : UInt8 := msg.getD p 0

/-- bytes over which the scanner neither emits nor changes mode once a token has started -/
def plainByte (b : UInt8) : Bool := !isWsByte b && !isStructByte b && b != 34 && b != 92

/-- What the scalar stage-1 scanner does on each token shape (positions of one fixed message). -/
structure ScanFacts (nd : Bool) (msg : Bytes) : Prop where
  ready0 : Ready nd msg 0
  /-- white space between tokens (in ND mode LF is treated by `nl`) -/
  ws : ∀ p, p < msg.size → Ready nd msg p → isWsByte (byteAt msg p) = true → ¬ (nd = true ∧ byteAt msg p = 10) →
    emit nd msg p = false ∧ Ready nd msg (p + 1) ∧ (σ nd msg (p + 1)).err = (σ nd msg p).err
  nl : ∀ p, p < msg.size → Ready nd msg p → nd = true → byteAt msg p = 10 →
    emit nd msg p = true ∧ Ready nd msg (p + 1) ∧ (σ nd msg (p + 1)).err = (σ nd msg p).err
  struct : ∀ p, p < msg.size → Ready nd msg p → isStructByte (byteAt msg p) = true →
    emit nd msg p = true ∧ Ready nd msg (p + 1) ∧ (σ nd msg (p + 1)).err = (σ nd msg p).err
  /-- every non-white-space byte met between tokens is emitted -/
  tokStart : ∀ p, p < msg.size → Ready nd msg p → isWsByte (byteAt msg p) = false → emit nd msg p = true
  /-- a closed string: only the opening quote is emitted; afterwards the scanner is between tokens with the
      pseudo-structural predecessor flag set; the error flag records a control character in the body -/
  strClosed : ∀ p d, p < msg.size → Ready nd msg p → byteAt msg p = 34 → closeQ (msg.toList.drop (p + 1)) = some d →
    p + 2 + d ≤ msg.size ∧
    (∀ q, p < q → q ≤ p + 1 + d → emit nd msg q = false) ∧
    Ready nd msg (p + 2 + d) ∧ (σ nd msg (p + 2 + d)).prevPred = true ∧
    ((σ nd msg (p + 2 + d)).err = true ↔ ((σ nd msg p).err = true ∨ ∃ j, j < d ∧ byteAt msg (p + 1 + j) < 0x20))
  /-- an unterminated string leaves the scanner inside a quote at the end of the message -/
  strOpen : ∀ p, p < msg.size → Ready nd msg p → byteAt msg p = 34 → closeQ (msg.toList.drop (p + 1)) = none →
    (σ nd msg msg.size).inQuote = true
  /-- a run of plain bytes after a token start (numbers, atoms, garbage words) up to white space, a structural
      or the end of the message -/
  tokRun : ∀ p q, p < q → q ≤ msg.size → Ready nd msg p → (∀ j, p ≤ j → j < q → plainByte (byteAt msg j) = true) →
    (q = msg.size ∨ isWsByte (byteAt msg q) = true ∨ isStructByte (byteAt msg q) = true) →
    (∀ j, p < j → j < q → emit nd msg j = false) ∧ Ready nd msg q ∧ (σ nd msg q).err = (σ nd msg p).err
  errMono : ∀ p q, p ≤ q → (σ nd msg p).err = true → (σ nd msg q).err = true
  cnt_succ : ∀ p, cnt nd msg (p + 1) = cnt nd msg p + (if emit nd msg p then 1 else 0)
  cnt_noemit : ∀ p q, p ≤ q → (∀ j, p ≤ j → j < q → emit nd msg j = false) → cnt nd msg q = cnt nd msg p
  idx_at : ∀ p, p < msg.size → emit nd msg p = true → (indices nd msg)[cnt nd msg p]? = some p
  cnt_size : cnt nd msg msg.size = (indices nd msg).length
  /-- `findStructuralIndices` succeeds exactly when the message is non-empty, has an index, saw no control
      character inside a string, does not end inside a string, and its last index is at `}` or `]` -/
  stage1_iff : ∀ idx : Array Nat, stage1 nd msg = some idx ↔
    (idx.toList = indices nd msg ∧ msg.size ≠ 0 ∧ indices nd msg ≠ [] ∧ (σ nd msg msg.size).err = false ∧
     (σ nd msg msg.size).inQuote = false ∧
     (byteAt msg ((indices nd msg).getLastD 0) = 125 ∨ byteAt msg ((indices nd msg).getLastD 0) = 93))

/-- RFC 8259 string production (`Spec.stringBody`) against the shared notion of string end and the model of the
    assembly's decoder. -/
structure StrFacts : Prop where
  acc : ∀ (fuel : Nat) (s dec rest : List UInt8), Spec.stringBody fuel s [] false = .acc dec rest →
    ∃ d, closeQ s = some d ∧ rest = s.drop (d + 1) ∧ (∀ j, j < d → ¬ (s.getD j 0 < 0x20)) ∧
      ∀ (a : Bytes) (start lim : Nat), a.toList.drop start = s → d < lim →
        decodeString a start lim = some (dec.toArray, start + d)
  rej : ∀ (fuel : Nat) (s : List UInt8), s.length < fuel → Spec.stringBody fuel s [] false = .rej →
    closeQ s = none ∨ ∃ d, closeQ s = some d ∧
      ((∃ j, j < d ∧ s.getD j 0 < 0x20) ∨
       ∀ (a : Bytes) (start lim : Nat), a.toList.drop start = s → decodeString a start lim = none)

/-- The index buffers: concatenated they are the indices, and the peek values are as `PeekOK` says. -/
structure RoundsFacts : Prop where
  peekOK : ∀ (msg : Bytes) (f : Nat → Bool),
    PeekOK msg ((List.range msg.size).filter f) (pairsOf (rounds msg ((List.range msg.size).filter f).toArray))

end SJ.ParseDefs
