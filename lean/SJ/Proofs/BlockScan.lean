import SJ.Proofs.Block
import SJ.Proofs.Tables
set_option linter.unusedVariables false
/-
Whole-message lift of `SJ.Block.block_eq_bytes`: the block loop `blocksScan` (either kernel family) yields the
same structural indices as the scalar scanner `s1Scan`, and its final carry represents the scanner's final
`err` / `inQuote` (the two components `stage1` looks at).
-/
namespace SJ.Block
open SJ SJ.Generated SJ.Kernels

/-! ## loops as folds -/

theorem ite_yield {β : Type} (c : Prop) [Decidable c] (a b : β) :
    @ite (Id (ForInStep β)) c _ (ForInStep.yield a) (ForInStep.yield b) =
      ForInStep.yield (if c then a else b) := by
  split <;> rfl

theorem forIn_range_yield {β : Type} (n : Nat) (init : β) (g : Nat → β → β) :
    (forIn (m := Id) [0:n] init (fun i b => ForInStep.yield (g i b))) =
      (List.range n).foldl (fun b i => g i b) init := by
  rw [Std.Legacy.Range.forIn_eq_forIn_range']
  simp only [Std.Legacy.Range.size, Nat.sub_zero, Nat.add_sub_cancel, Nat.div_one, List.range_eq_range']
  exact List.forIn_pure_yield_eq_foldl (m := Id) g init

theorem forIn'_range_yield {β : Type} (n : Nat) (init : β) (g : (i : Nat) → i < n → β → β) (g' : Nat → β → β)
    (hg : ∀ i h b, g i h b = g' i b) :
    (forIn' (m := Id) [0:n] init (fun i h b => ForInStep.yield (g i (Membership.get_elem_helper h rfl) b))) =
      (List.range n).foldl (fun b i => g' i b) init := by
  rw [← forIn_range_yield]
  simp only [hg]
  rfl


theorem forIn'_range_eq_forIn {β : Type} (n : Nat) (init : β) (f : Nat → β → Id (ForInStep β)) :
    (forIn' (m := Id) [0:n] init (fun i _ b => f i b)) = forIn (m := Id) [0:n] init f := rfl

theorem getElem_eq_getD_pad (a : Bytes) (i : Nat) (h : i < a.size) : a[i] = a.getD i 0x20 := by
  simp [Array.getD, h]

/-! ## the scalar scanner on the padded message -/

/-- scalar step at position `i` of the message, reading 0x20 beyond its end -/
def padStep (nd : Bool) (msg : Bytes) (s : S1State) (i : Nat) : S1State × Bool := s1Step nd s (msg.getD i 0x20)

/-- scanner state before position `i` of the padded message -/
def padSt (nd : Bool) (msg : Bytes) (i : Nat) : S1State := runSt (padStep nd msg) {} i

/-- position `i` of the padded message is emitted -/
def padEmit (nd : Bool) (msg : Bytes) (i : Nat) : Bool := (padStep nd msg (padSt nd msg i) i).2

theorem fold_filter {σ : Type} (step : σ → Nat → σ × Bool) (s0 : σ) (out0 : Array Nat) (n : Nat) :
    (List.range n).foldl (fun (acc : σ × Array Nat) i =>
        if (step acc.1 i).2 = true then ((step acc.1 i).1, acc.2.push i) else ((step acc.1 i).1, acc.2)) (s0, out0)
      = (runSt step s0 n, out0 ++ ((List.range n).filter (fun i => (step (runSt step s0 i) i).2)).toArray) := by
  induction n with
  | zero => simp [runSt]
  | succ n ih =>
    rw [List.range_succ, List.foldl_append, ih]
    simp only [List.foldl_cons, List.foldl_nil, List.filter_append, runSt]
    cases h : (step (runSt step s0 n) n).2 <;> simp [List.filter, h]

theorem s1Scan_eq (nd : Bool) (msg : Bytes) :
    s1Scan nd msg = (padSt nd msg msg.size, ((List.range msg.size).filter (padEmit nd msg)).toArray) := by
  unfold s1Scan
  simp only [Id.run, bind, pure, ite_yield, getElem_eq_getD_pad]
  rw [forIn'_range_eq_forIn, forIn_range_yield]
  refine (congrArg (fun r : S1State × Array Nat => (r.1, r.2))
    (fold_filter (padStep nd msg) {} #[] msg.size)).trans ?_
  simp [padSt]
  rfl


/-! ## blocks of the padded message -/

theorem getD_extract_block (msg : Bytes) (b i : Nat) (hi : i < 64) :
    (msg.extract (64 * b) (64 * b + 64)).getD i 0x20 = msg.getD (64 * b + i) 0x20 := by
  simp only [Array.getD, Array.size_extract]
  by_cases h : 64 * b + i < msg.size
  · have h' : i < min (64 * b + 64) msg.size - 64 * b := by omega
    simp [h, h']
  · have h' : ¬ i < min (64 * b + 64) msg.size - 64 * b := by omega
    simp [h, h']

theorem runSt_shift {σ : Type} (f g : σ → Nat → σ × Bool) (s0 : σ) (k n : Nat)
    (h : ∀ i, i < n → ∀ s, f s i = g s (k + i)) : runSt f (runSt g s0 k) n = runSt g s0 (k + n) := by
  induction n with
  | zero => rfl
  | succ n ih =>
    rw [runSt, ih (fun i hi => h i (by omega)), h n (by omega)]
    rfl

theorem byteStep_block (nd : Bool) (msg : Bytes) (b i : Nat) (hi : i < 64) (s : S1State) :
    byteStep nd (msg.extract (64 * b) (64 * b + 64)) s i = padStep nd msg s (64 * b + i) := by
  simp only [byteStep, padStep, getD_extract_block msg b i hi]

/-- the scalar scanner over block `b`, started in the state reached at position `64 b` -/
theorem scanBlock_block (nd : Bool) (msg : Bytes) (b : Nat) :
    scanBlock nd (msg.extract (64 * b) (64 * b + 64)) (padSt nd msg (64 * b)) =
      (ofBits (fun i => padEmit nd msg (64 * b + i)), padSt nd msg (64 * b + 64)) := by
  rw [scanBlock_eq, padSt, runSt_shift _ (padStep nd msg) {} (64 * b) 64 (fun i hi s => byteStep_block nd msg b i hi s),
    ofBits_eq_packBits, ofBits_eq_packBits]
  rw [packBits_congr 64 _ (fun i => padEmit nd msg (64 * b + i))]
  · rfl
  · intro i hi
    rw [runSt_shift _ (padStep nd msg) {} (64 * b) i (fun j hj s => byteStep_block nd msg b j (by omega) s),
      byteStep_block nd msg b i hi]
    rfl

/-- `blockStep` of either family agrees with the scalar scanner on the block -/
theorem block_eq_bytes_any (a nd : Bool) (blk : Bytes) (c : Carry) (s : S1State) (h : CarryRel c s) :
    (blockStep a nd blk c).1 = (scanBlock nd blk s).1 ∧
    CarryRel (blockStep a nd blk c).2 (scanBlock nd blk s).2 := by
  cases a
  · exact block_eq_bytes nd blk c s h
  · exact block_eq_bytes_avx512 nd blk c s h

/-! ## padding -/

theorem s1Step_pad (nd : Bool) (s : S1State) :
    s1Step nd s 0x20 = ({ bsOdd := false, inQuote := s.inQuote, prevPred := true, err := s.err }, false) := by
  have h1 : isWsByte 0x20 = true := by rw [Tables.classify_ws]; rfl
  have h2 : isStructByte 0x20 = false := by rw [Tables.classify_struct]; rfl
  have h3 : isQuoteByte 0x20 = false := by rw [Tables.classify_quote]; rfl
  have h4 : isBackslashByte 0x20 = false := by rw [Tables.classify_backslash]; rfl
  have h5 : isNewlineByte 0x20 = false := by rw [Tables.classify_newline]; rfl
  have h6 : isCtrlByte 0x20 = false := by
    cases h : isCtrlByte 0x20
    · rfl
    · rw [Tables.classify_ctrl] at h
      exact absurd h (by decide)
  simp [s1Step, h1, h2, h3, h4, h5, h6]

theorem padStep_beyond (nd : Bool) (msg : Bytes) (s : S1State) (i : Nat) (hi : msg.size ≤ i) :
    padStep nd msg s i = ({ bsOdd := false, inQuote := s.inQuote, prevPred := true, err := s.err }, false) := by
  have : msg.getD i 0x20 = 0x20 := by
    have h : ¬ i < msg.size := by omega
    simp [Array.getD, h]
  rw [padStep, this, s1Step_pad]

theorem padEmit_beyond (nd : Bool) (msg : Bytes) (i : Nat) (hi : msg.size ≤ i) : padEmit nd msg i = false := by
  rw [padEmit, padStep_beyond nd msg _ i hi]

theorem padSt_beyond (nd : Bool) (msg : Bytes) (d : Nat) :
    (padSt nd msg (msg.size + d)).err = (padSt nd msg msg.size).err ∧
    (padSt nd msg (msg.size + d)).inQuote = (padSt nd msg msg.size).inQuote := by
  induction d with
  | zero => exact ⟨rfl, rfl⟩
  | succ d ih =>
    have : padSt nd msg (msg.size + (d + 1)) = (padStep nd msg (padSt nd msg (msg.size + d)) (msg.size + d)).1 := rfl
    rw [this, padStep_beyond nd msg _ _ (by omega)]
    exact ih

theorem filter_padEmit_beyond (nd : Bool) (msg : Bytes) (d : Nat) :
    (List.range (msg.size + d)).filter (padEmit nd msg) = (List.range msg.size).filter (padEmit nd msg) := by
  rw [List.range_add, List.filter_append]
  have : (List.map (fun x => msg.size + x) (List.range d)).filter (padEmit nd msg) = [] := by
    rw [List.filter_eq_nil_iff]
    intro x hx
    rw [List.mem_map] at hx
    obtain ⟨y, _, rfl⟩ := hx
    rw [padEmit_beyond nd msg _ (by omega)]
    simp
  rw [this, List.append_nil]


/-! ## the block loop -/

theorem inner_loop (stm : BitVec 64) (k : Nat) (out : Array Nat) (n : Nat) :
    (List.range n).foldl (fun (o : Array Nat) i => if stm.getLsbD i = true then o.push (k + i) else o) out =
      out ++ (((List.range n).filter (fun i => stm.getLsbD i)).map (fun i => k + i)).toArray := by
  induction n with
  | zero => simp
  | succ n ih =>
    rw [List.range_succ, List.foldl_append, ih]
    cases h : stm.getLsbD n <;> simp [List.filter_append, h]

/-- `blocksScan` with its loops written as folds -/
def blocksFold (a nd : Bool) (msg : Bytes) (n : Nat) : Carry × Array Nat :=
  (List.range n).foldl (fun (acc : Carry × Array Nat) b =>
      ((blockStep a nd (msg.extract (64 * b) (64 * b + 64)) acc.1).2,
       (List.range 64).foldl (fun (o : Array Nat) i =>
          if (blockStep a nd (msg.extract (64 * b) (64 * b + 64)) acc.1).1.getLsbD i = true
          then o.push (64 * b + i) else o) acc.2)) ({}, #[])

theorem blocksScan_eq_fold (a nd : Bool) (msg : Bytes) :
    blocksScan a nd msg =
      ((blocksFold a nd msg ((msg.size + 63) / 64)).2, (blocksFold a nd msg ((msg.size + 63) / 64)).1) := by
  unfold blocksScan
  simp only [Id.run, bind, pure, ite_yield, forIn_range_yield]
  rfl

theorem blocksFold_succ (a nd : Bool) (msg : Bytes) (n : Nat) :
    blocksFold a nd msg (n + 1) =
      ((blockStep a nd (msg.extract (64 * n) (64 * n + 64)) (blocksFold a nd msg n).1).2,
       (List.range 64).foldl (fun (o : Array Nat) i =>
          if (blockStep a nd (msg.extract (64 * n) (64 * n + 64)) (blocksFold a nd msg n).1).1.getLsbD i = true
          then o.push (64 * n + i) else o) (blocksFold a nd msg n).2) := by
  simp only [blocksFold, List.range_succ, List.foldl_append, List.foldl_cons, List.foldl_nil]

/-- invariant of the block loop -/
theorem blocksFold_inv (a nd : Bool) (msg : Bytes) (n : Nat) :
    CarryRel (blocksFold a nd msg n).1 (padSt nd msg (64 * n)) ∧
    (blocksFold a nd msg n).2 = ((List.range (64 * n)).filter (padEmit nd msg)).toArray := by
  induction n with
  | zero => exact ⟨carryRel_init, rfl⟩
  | succ n ih =>
    obtain ⟨ihc, iho⟩ := ih
    have hb := block_eq_bytes_any a nd (msg.extract (64 * n) (64 * n + 64)) _ _ ihc
    rw [scanBlock_block] at hb
    rw [blocksFold_succ]
    refine ⟨?_, ?_⟩
    · have : 64 * (n + 1) = 64 * n + 64 := by omega
      rw [this]
      exact hb.2
    · simp only []
      rw [inner_loop, hb.1, iho]
      have : 64 * (n + 1) = 64 * n + 64 := by omega
      rw [this, List.range_add, List.filter_append, List.filter_map]
      have hf : (List.range 64).filter (fun i => (ofBits fun i => padEmit nd msg (64 * n + i)).getLsbD i) =
          (List.range 64).filter (padEmit nd msg ∘ fun x => 64 * n + x) := by
        apply List.filter_congr
        intro x hx
        rw [List.mem_range] at hx
        rw [getLsbD_ofBits _ _ hx]
        rfl
      rw [hf]
      simp

/-- **Whole-message theorem.** For either kernel family the block loop produces exactly the structural indices
    of the scalar scanner; its final error mask is non-zero iff the scanner's `err` flag is set, and its final
    `prevInQuote` is all-ones/zero according to the scanner's `inQuote`. -/
theorem blocksScan_eq_s1Scan (a nd : Bool) (msg : Bytes) :
    (blocksScan a nd msg).1 = (s1Scan nd msg).2 ∧
    (s1Scan nd msg).1.err = decide ((blocksScan a nd msg).2.errMask ≠ 0#64) ∧
    (blocksScan a nd msg).2.prevInQuote = encAll (s1Scan nd msg).1.inQuote := by
  rw [blocksScan_eq_fold, s1Scan_eq]
  obtain ⟨hc, ho⟩ := blocksFold_inv a nd msg ((msg.size + 63) / 64)
  obtain ⟨d, hd⟩ : ∃ d, 64 * ((msg.size + 63) / 64) = msg.size + d := ⟨64 * ((msg.size + 63) / 64) - msg.size, by omega⟩
  rw [hd] at hc ho
  obtain ⟨he, hq⟩ := padSt_beyond nd msg d
  refine ⟨?_, ?_, ?_⟩
  · show (blocksFold a nd msg ((msg.size + 63) / 64)).2 = _
    rw [ho, filter_padEmit_beyond]
  · show (padSt nd msg msg.size).err = decide ((blocksFold a nd msg ((msg.size + 63) / 64)).1.errMask ≠ 0#64)
    rw [← he]
    exact hc.2.2.2
  · show (blocksFold a nd msg ((msg.size + 63) / 64)).1.prevInQuote = encAll (padSt nd msg msg.size).inQuote
    rw [← hq]
    exact hc.2.1


/-- `stage1` (defined in the model through the scalar scanner) restated on the output of the block loop:
    what `findStructuralIndices` actually tests (`error_mask != 0`, `prev_iter_inside_quote != 0`). -/
def stage1Blocks (a nd : Bool) (msg : Bytes) : Option (Array Nat) :=
  let r := blocksScan a nd msg
  if msg.size == 0 ∨ r.1.size == 0 then none
  else if r.2.errMask ≠ 0#64 ∨ r.2.prevInQuote ≠ 0#64 then none
  else
    let last := msg.getD (r.1.back!) 0
    if last == 125 ∨ last == 93 then some r.1 else none

theorem encAll_ne_zero (b : Bool) : (encAll b ≠ 0#64) ↔ b = true := by
  cases b <;> simp [encAll] <;> decide

/-- the model's `stage1` is the block-parallel stage 1, for either kernel family -/
theorem stage1_eq_blocks (a nd : Bool) (msg : Bytes) : stage1 nd msg = stage1Blocks a nd msg := by
  obtain ⟨h1, h2, h3⟩ := blocksScan_eq_s1Scan a nd msg
  unfold stage1 stage1Blocks
  simp only [← h1, h3, encAll_ne_zero, h2, decide_eq_true_eq]

end SJ.Block
