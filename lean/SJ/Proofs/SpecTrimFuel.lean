import SJ.Proofs.SpecTrimLoc
namespace SJ.SpecTrim
open SJ SJ.Spec SJ.NumberProofs

/-! ## 6. fuel: an accepted value is accepted with any fuel that covers what it consumed; `out` survives more fuel -/

/-- the new fuel `f'` is at least the old one, or at least the number of bytes consumed -/
def Enough (f f' : Nat) (s rest : List UInt8) : Prop := f ≤ f' ∨ s.length ≤ f' + rest.length

structure FuelOK (f : Nat) : Prop where
  va : ∀ s v rest, value f s = .acc v rest →
    rest.length < s.length ∧ ∀ f', Enough f f' s rest → value f' s = .acc v rest
  vo : ∀ s, value f s = .out → ∀ f', f ≤ f' → value f' s = .out
  ea : ∀ s acc first v rest, elements f s acc first = .acc v rest →
    rest.length < s.length ∧ ∀ f', Enough f f' s rest → elements f' s acc first = .acc v rest
  eo : ∀ s acc first, elements f s acc first = .out → ∀ f', f ≤ f' → elements f' s acc first = .out
  ma : ∀ s acc first v rest, members f s acc first = .acc v rest →
    rest.length < s.length ∧ ∀ f', Enough f f' s rest → members f' s acc first = .acc v rest
  mo : ∀ s acc first, members f s acc first = .out → ∀ f', f ≤ f' → members f' s acc first = .out

theorem elemsNext_acc {f : Nat} (F : FuelOK f) {acc : List JVal} {t : List UInt8} {v : JVal} {rest : List UInt8}
    (h : elemsNext f acc t = .acc v rest) :
    rest.length < t.length ∧ ∀ f', (f ≤ f' ∨ t.length ≤ f' + rest.length + 1) → elemsNext f' acc t = .acc v rest := by
  cases t with
  | nil => rw [elemsNext_other _ _ _ (fun r e => by cases e) (fun r e => by cases e)] at h; cases h
  | cons x t =>
    by_cases h1 : x = 0x2C
    · subst h1
      rw [elemsNext_comma] at h
      obtain ⟨hl, ht⟩ := F.ea _ _ _ _ _ h
      have := skipWs_length t
      refine ⟨by simp only [List.length_cons]; omega, fun f' hf => ?_⟩
      rw [elemsNext_comma]
      apply ht
      simp only [List.length_cons] at hf
      rcases hf with hf | hf
      · exact Or.inl hf
      · exact Or.inr (by omega)
    · by_cases h2 : x = 0x5D
      · subst h2
        rw [elemsNext_close] at h
        cases h
        exact ⟨Nat.lt_succ_self _, fun f' _ => elemsNext_close _ _ _⟩
      · rw [elemsNext_other _ _ _ (fun r e => h1 (List.cons.inj e).1) (fun r e => h2 (List.cons.inj e).1)] at h
        cases h

theorem elemsNext_out {f : Nat} (F : FuelOK f) {acc : List JVal} {t : List UInt8}
    (h : elemsNext f acc t = .out) : ∀ f', f ≤ f' → elemsNext f' acc t = .out := by
  cases t with
  | nil => rw [elemsNext_other _ _ _ (fun r e => by cases e) (fun r e => by cases e)] at h; cases h
  | cons x t =>
    by_cases h1 : x = 0x2C
    · subst h1
      rw [elemsNext_comma] at h
      intro f' hf
      rw [elemsNext_comma]
      exact F.eo _ _ _ h f' hf
    · by_cases h2 : x = 0x5D
      · subst h2
        rw [elemsNext_close] at h
        cases h
      · rw [elemsNext_other _ _ _ (fun r e => h1 (List.cons.inj e).1) (fun r e => h2 (List.cons.inj e).1)] at h
        cases h

theorem memsNext_acc {f : Nat} (F : FuelOK f) {acc : List (List UInt8 × JVal)} {t : List UInt8} {v : JVal} {rest : List UInt8}
    (h : memsNext f acc t = .acc v rest) :
    rest.length < t.length ∧ ∀ f', (f ≤ f' ∨ t.length ≤ f' + rest.length + 1) → memsNext f' acc t = .acc v rest := by
  cases t with
  | nil => rw [memsNext_other _ _ _ (fun r e => by cases e) (fun r e => by cases e)] at h; cases h
  | cons x t =>
    by_cases h1 : x = 0x2C
    · subst h1
      rw [memsNext_comma] at h
      obtain ⟨hl, ht⟩ := F.ma _ _ _ _ _ h
      have := skipWs_length t
      refine ⟨by simp only [List.length_cons]; omega, fun f' hf => ?_⟩
      rw [memsNext_comma]
      apply ht
      simp only [List.length_cons] at hf
      rcases hf with hf | hf
      · exact Or.inl hf
      · exact Or.inr (by omega)
    · by_cases h2 : x = 0x7D
      · subst h2
        rw [memsNext_close] at h
        cases h
        exact ⟨Nat.lt_succ_self _, fun f' _ => memsNext_close _ _ _⟩
      · rw [memsNext_other _ _ _ (fun r e => h1 (List.cons.inj e).1) (fun r e => h2 (List.cons.inj e).1)] at h
        cases h

theorem memsNext_out {f : Nat} (F : FuelOK f) {acc : List (List UInt8 × JVal)} {t : List UInt8}
    (h : memsNext f acc t = .out) : ∀ f', f ≤ f' → memsNext f' acc t = .out := by
  cases t with
  | nil => rw [memsNext_other _ _ _ (fun r e => by cases e) (fun r e => by cases e)] at h; cases h
  | cons x t =>
    by_cases h1 : x = 0x2C
    · subst h1
      rw [memsNext_comma] at h
      intro f' hf
      rw [memsNext_comma]
      exact F.mo _ _ _ h f' hf
    · by_cases h2 : x = 0x7D
      · subst h2
        rw [memsNext_close] at h
        cases h
      · rw [memsNext_other _ _ _ (fun r e => h1 (List.cons.inj e).1) (fun r e => h2 (List.cons.inj e).1)] at h
        cases h

theorem memsColon_acc {f : Nat} (F : FuelOK f) {k : List UInt8} {acc : List (List UInt8 × JVal)} {t : List UInt8} {v : JVal}
    {rest : List UInt8} (h : memsColon f k acc t = .acc v rest) :
    rest.length < t.length ∧ ∀ f', (f ≤ f' ∨ t.length ≤ f' + rest.length + 1) → memsColon f' k acc t = .acc v rest := by
  cases t with
  | nil => rw [memsColon_other _ _ _ _ (fun r e => by cases e)] at h; cases h
  | cons x t =>
    by_cases h1 : x = 0x3A
    · subst h1
      rw [memsColon_colon] at h
      cases hv : value f (skipWs t) with
      | acc v1 rest1 =>
        rw [hv] at h
        simp only [memsAfterVal] at h
        obtain ⟨hl1, ht1⟩ := F.va _ _ _ hv
        obtain ⟨hl2, ht2⟩ := memsNext_acc F h
        have := skipWs_length t
        have := skipWs_length rest1
        refine ⟨by simp only [List.length_cons]; omega, fun f' hf => ?_⟩
        simp only [List.length_cons] at hf
        rw [memsColon_colon, ht1 f' (by rcases hf with hf | hf; exact Or.inl hf; exact Or.inr (by omega))]
        simp only [memsAfterVal]
        exact ht2 f' (by rcases hf with hf | hf; exact Or.inl hf; exact Or.inr (by omega))
      | rej => rw [hv] at h; cases h
      | out => rw [hv] at h; cases h
    · rw [memsColon_other _ _ _ _ (fun r e => h1 (List.cons.inj e).1)] at h
      cases h

theorem memsColon_out {f : Nat} (F : FuelOK f) {k : List UInt8} {acc : List (List UInt8 × JVal)} {t : List UInt8}
    (h : memsColon f k acc t = .out) : ∀ f', f ≤ f' → memsColon f' k acc t = .out := by
  cases t with
  | nil => rw [memsColon_other _ _ _ _ (fun r e => by cases e)] at h; cases h
  | cons x t =>
    by_cases h1 : x = 0x3A
    · subst h1
      rw [memsColon_colon] at h
      intro f' hf
      rw [memsColon_colon]
      cases hv : value f (skipWs t) with
      | acc v1 rest1 =>
        rw [hv] at h
        simp only [memsAfterVal] at h
        rw [(F.va _ _ _ hv).2 f' (Or.inl hf)]
        simp only [memsAfterVal]
        exact memsNext_out F h f' hf
      | rej => rw [hv] at h; cases h
      | out => rw [F.vo _ hv f' hf]; rfl
    · rw [memsColon_other _ _ _ _ (fun r e => h1 (List.cons.inj e).1)] at h
      cases h

/-- scalars: the fuel is not looked at -/
theorem value_scalar (f f' : Nat) (c : UInt8) (r : List UInt8) (h1 : ¬ (c == 0x7B) = true) (h2 : ¬ (c == 0x5B) = true) :
    value (f + 1) (c :: r) = value (f' + 1) (c :: r) := by
  rw [value_cons, value_cons, if_neg h1, if_neg h2, if_neg h1, if_neg h2]

theorem strOut_acc {x : Out (List UInt8)} {v : JVal} {rest : List UInt8} (h : strOut x = .acc v rest) :
    ∃ k, x = .acc k rest := by
  cases x with
  | acc k r => simp only [strOut, Out.acc.injEq] at h; exact ⟨k, by rw [h.2]⟩
  | rej => cases h
  | out => cases h

theorem numOut_acc {o : Option (NumLit × List UInt8)} {v : JVal} {rest : List UInt8} (h : numOut o = .acc v rest) :
    ∃ l, o = some (l, rest) := by
  cases o with
  | none => cases h
  | some p =>
    obtain ⟨l, r⟩ := p
    simp only [numOut] at h
    cases hn : numValue l with
    | none => rw [hn] at h; cases h
    | some n => rw [hn] at h; simp only [Out.acc.injEq] at h; exact ⟨l, by rw [h.2]⟩

theorem value_scalar_len {f : Nat} {c : UInt8} {r : List UInt8} (h1 : ¬ (c == 0x7B) = true) (h2 : ¬ (c == 0x5B) = true)
    {v : JVal} {rest : List UInt8} (h : value (f + 1) (c :: r) = .acc v rest) : rest.length < (c :: r).length := by
  rw [value_cons, if_neg h1, if_neg h2] at h
  split at h
  · obtain ⟨k, hk⟩ := strOut_acc h
    have := stringBody_acc_len _ _ _ _ _ _ hk
    simp only [List.length_cons]; omega
  split at h
  · exact literal_len (by rw [true_list]; simp) h
  split at h
  · exact literal_len (by rw [false_list]; simp) h
  split at h
  · exact literal_len (by rw [null_list]; simp) h
  split at h
  · obtain ⟨l, hl⟩ := numOut_acc h
    exact numberLit_len hl
  · cases h

theorem fuelOK : ∀ f, FuelOK f
  | 0 => by
    refine ⟨?_, ?_, ?_, ?_, ?_, ?_⟩
    · intro s v rest h; rw [value_zero] at h; cases h
    · intro s h; rw [value_zero] at h; cases h
    · intro s acc first v rest h; rw [elements_zero] at h; cases h
    · intro s acc first h; rw [elements_zero] at h; cases h
    · intro s acc first v rest h; rw [members_zero] at h; cases h
    · intro s acc first h; rw [members_zero] at h; cases h
  | f + 1 => by
    have F := fuelOK f
    refine ⟨?_, ?_, ?_, ?_, ?_, ?_⟩
    · -- value, accepted
      intro s v rest h
      cases s with
      | nil => rw [value_nil] at h; cases h
      | cons c r =>
        have hsk := skipWs_length r
        by_cases h1 : (c == 0x7B) = true
        · rw [value_cons, if_pos h1] at h
          obtain ⟨hl, ht⟩ := F.ma _ _ _ _ _ h
          refine ⟨by simp only [List.length_cons]; omega, fun f' hf => ?_⟩
          cases f' with
          | zero => rcases hf with hf | hf <;> (try simp only [List.length_cons] at hf) <;> omega
          | succ f' =>
            rw [value_cons, if_pos h1]
            apply ht
            rcases hf with hf | hf
            · exact Or.inl (by omega)
            · simp only [List.length_cons] at hf; exact Or.inr (by omega)
        by_cases h2 : (c == 0x5B) = true
        · rw [value_cons, if_neg h1, if_pos h2] at h
          obtain ⟨hl, ht⟩ := F.ea _ _ _ _ _ h
          refine ⟨by simp only [List.length_cons]; omega, fun f' hf => ?_⟩
          cases f' with
          | zero => rcases hf with hf | hf <;> (try simp only [List.length_cons] at hf) <;> omega
          | succ f' =>
            rw [value_cons, if_neg h1, if_pos h2]
            apply ht
            rcases hf with hf | hf
            · exact Or.inl (by omega)
            · simp only [List.length_cons] at hf; exact Or.inr (by omega)
        have hl := value_scalar_len h1 h2 h
        refine ⟨hl, fun f' hf => ?_⟩
        cases f' with
        | zero => rcases hf with hf | hf <;> omega
        | succ f' => rw [value_scalar f' f c r h1 h2]; exact h
    · -- value, outside
      intro s h f' hf
      cases s with
      | nil => rw [value_nil] at h; cases h
      | cons c r =>
        cases f' with
        | zero => omega
        | succ f' =>
          by_cases h1 : (c == 0x7B) = true
          · rw [value_cons, if_pos h1] at h ⊢
            exact F.mo _ _ _ h f' (by omega)
          by_cases h2 : (c == 0x5B) = true
          · rw [value_cons, if_neg h1, if_pos h2] at h ⊢
            exact F.eo _ _ _ h f' (by omega)
          rw [value_scalar f' f c r h1 h2]; exact h
    · -- elements, accepted
      intro s acc first v rest h
      by_cases hc : ∃ r, s = 0x5D :: r
      · obtain ⟨r, rfl⟩ := hc
        rw [elements_close] at h
        cases first with
        | false => cases h
        | true =>
          cases h
          refine ⟨Nat.lt_succ_self _, fun f' hf => ?_⟩
          cases f' with
          | zero => rcases hf with hf | hf <;> (try simp only [List.length_cons] at hf) <;> omega
          | succ f' => rw [elements_close]; rfl
      · have hc' : ∀ r, s ≠ 0x5D :: r := fun r e => hc ⟨r, e⟩
        rw [elements_step _ _ _ _ hc'] at h
        cases hv : value f s with
        | acc v1 rest1 =>
          rw [hv] at h
          simp only [elemsAfter] at h
          obtain ⟨hl1, ht1⟩ := F.va _ _ _ hv
          obtain ⟨hl2, ht2⟩ := elemsNext_acc F h
          have := skipWs_length rest1
          refine ⟨by omega, fun f' hf => ?_⟩
          cases f' with
          | zero => rcases hf with hf | hf <;> omega
          | succ f' =>
            rw [elements_step _ _ _ _ hc', ht1 f' (by rcases hf with hf | hf; exact Or.inl (by omega); exact Or.inr (by omega))]
            simp only [elemsAfter]
            exact ht2 f' (by rcases hf with hf | hf; exact Or.inl (by omega); exact Or.inr (by omega))
        | rej => rw [hv] at h; cases h
        | out => rw [hv] at h; cases h
    · -- elements, outside
      intro s acc first h f' hf
      cases f' with
      | zero => omega
      | succ f' =>
        by_cases hc : ∃ r, s = 0x5D :: r
        · obtain ⟨r, rfl⟩ := hc
          rw [elements_close] at h
          cases first <;> cases h
        · have hc' : ∀ r, s ≠ 0x5D :: r := fun r e => hc ⟨r, e⟩
          rw [elements_step _ _ _ _ hc'] at h ⊢
          cases hv : value f s with
          | acc v1 rest1 =>
            rw [hv] at h
            simp only [elemsAfter] at h
            rw [(F.va _ _ _ hv).2 f' (Or.inl (by omega))]
            simp only [elemsAfter]
            exact elemsNext_out F h f' (by omega)
          | rej => rw [hv] at h; cases h
          | out => rw [F.vo _ hv f' (by omega)]; rfl
    · -- members, accepted
      intro s acc first v rest h
      by_cases hc : ∃ r, s = 0x7D :: r
      · obtain ⟨r, rfl⟩ := hc
        rw [members_close] at h
        cases first with
        | false => cases h
        | true =>
          cases h
          refine ⟨Nat.lt_succ_self _, fun f' hf => ?_⟩
          cases f' with
          | zero => rcases hf with hf | hf <;> (try simp only [List.length_cons] at hf) <;> omega
          | succ f' => rw [members_close]; rfl
      · have hc' : ∀ r, s ≠ 0x7D :: r := fun r e => hc ⟨r, e⟩
        by_cases hq : ∃ r, s = 0x22 :: r
        · obtain ⟨r, rfl⟩ := hq
          rw [members_key] at h
          cases hs : stringBody ((0x22 :: r).length + 1) r [] false with
          | acc k rest0 =>
            rw [hs] at h
            simp only [memsAfterKey] at h
            have hl0 := stringBody_acc_len _ _ _ _ _ _ hs
            obtain ⟨hl1, ht1⟩ := memsColon_acc F h
            have := skipWs_length rest0
            refine ⟨by simp only [List.length_cons]; omega, fun f' hf => ?_⟩
            cases f' with
            | zero => rcases hf with hf | hf <;> (try simp only [List.length_cons] at hf) <;> omega
            | succ f' =>
              rw [members_key, hs]
              simp only [memsAfterKey]
              apply ht1
              rcases hf with hf | hf
              · exact Or.inl (by omega)
              · simp only [List.length_cons] at hf; exact Or.inr (by omega)
          | rej => rw [hs] at h; cases h
          | out => rw [hs] at h; cases h
        · rw [members_other _ _ _ _ hc' (fun r e => hq ⟨r, e⟩)] at h
          cases h
    · -- members, outside
      intro s acc first h f' hf
      cases f' with
      | zero => omega
      | succ f' =>
        by_cases hc : ∃ r, s = 0x7D :: r
        · obtain ⟨r, rfl⟩ := hc
          rw [members_close] at h
          cases first <;> cases h
        · have hc' : ∀ r, s ≠ 0x7D :: r := fun r e => hc ⟨r, e⟩
          by_cases hq : ∃ r, s = 0x22 :: r
          · obtain ⟨r, rfl⟩ := hq
            rw [members_key] at h ⊢
            cases hs : stringBody ((0x22 :: r).length + 1) r [] false with
            | acc k rest0 =>
              rw [hs] at h
              simp only [memsAfterKey] at h ⊢
              exact memsColon_out F h f' (by omega)
            | rej => rw [hs] at h; cases h
            | out => rfl
          · rw [members_other _ _ _ _ hc' (fun r e => hq ⟨r, e⟩)] at h
            cases h

end SJ.SpecTrim
