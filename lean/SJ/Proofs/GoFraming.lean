import SJ.Generated.GoSrc
import SJ.Model.Serialize
import SJ.Proofs.Rebuild
import SJ.Proofs.GoRebuildLemmas
set_option linter.unusedVariables false
set_option linter.unusedSimpArgs false
/-
GoFraming — the FRAMING side of `Serializer.Deserialize` (`parsed_serialize.go`: version byte, sizes, the four blocks)
and `Serializer.decBlock` tied to their regenerated syntax trees `Generated.goDeserialize_header`,
`Generated.goSerializer_decBlock`.
-/
namespace SJ.GoFraming
open SJ SJ.GoSem SJ.Generated

/-! ## the hand model, with the decompressors taken out

`decBlock` either finishes a block itself or starts a goroutine that will run a decompressor.  GoSem does not run
goroutines: `.spawn` records what the goroutine was given.  `Pending` is the hand-model side of that record; the model's
`decBlock codec` is `decBlockP` followed by `Pending.resolve codec` (`decBlock_eq`). -/

inductive Pending where
  | data (b : Bytes)                                        -- copied by `decBlock` itself
  | req (typ : UInt8) (compressed : Bytes) (want : Nat)     -- handed to a goroutine
  deriving Inhabited

/-- the join: the contract of the decompressors applied to a recorded request -/
def Pending.resolve (codec : Codec) : Pending → BlockRes
  | .data b => .data b
  | .req t c w => match codec t c w with | some d => .data d | none => .codecErr

/-- `SJ.decBlock` up to the `go` statement; `none`: `decBlock` returns an error -/
def decBlockP (b : Bytes) (pos : Nat) (want : Nat) : Option (Pending × Nat) :=
  match readUvarint b pos with
  | none => none
  | some (size, pos) =>
    let left := b.size - pos
    if size.toNat > left then none
    else if size == 0 ∧ want == 0 then some (.data #[], pos)
    else if size.toNat < 1 then none
    else
      let typ := b.getD pos 0
      let pos := pos + 1
      let n := size.toNat - 1
      let compressed := b.extract pos (pos + n)
      let pos := pos + n
      if typ.toNat == cblockTypeUncompressed then
        if compressed.size != want then none else some (.data compressed, pos)
      else if typ.toNat == cblockTypeS2 ∨ typ.toNat == cblockTypeZstd then some (.req typ compressed want, pos)
      else none

theorem decBlock_eq (codec : Codec) (b : Bytes) (pos want : Nat) :
    (decBlock codec b pos want).1 =
      (match decBlockP b pos want with | none => BlockRes.fail | some (p, _) => p.resolve codec) ∧
    (∀ p pos', decBlockP b pos want = some (p, pos') → (decBlock codec b pos want).2 = pos') := by
  unfold decBlock decBlockP
  cases readUvarint b pos with
  | none => simp
  | some r =>
    obtain ⟨size, pos1⟩ := r
    simp only []
    by_cases h1 : size.toNat > b.size - pos1
    · simp [h1]
    · simp only [h1, if_false]
      by_cases h2 : size == 0 ∧ want == 0
      · simp [h2, Pending.resolve]
      · simp only [h2, if_false]
        by_cases h3 : size.toNat < 1
        · simp [h3]
        · simp only [h3, if_false]
          generalize (b.extract (pos1 + 1) (pos1 + 1 + (size.toNat - 1))) = cmp
          generalize b.getD pos1 0 = ty
          by_cases h4 : (ty.toNat == cblockTypeUncompressed) = true
          · simp only [h4, if_true]
            by_cases h5 : (cmp.size != want) = true
            · simp only [h5, if_true]; simp
            · simp only [h5]; simp [Pending.resolve]
          · simp only [h4]
            by_cases h6 : (ty.toNat == cblockTypeS2) = true ∨ (ty.toNat == cblockTypeZstd) = true
            · simp only [h6, if_true, Bool.false_eq_true, if_false, Pending.resolve]
              cases codec ty cmp want <;> simp
            · simp only [h6, Bool.false_eq_true, if_false]; simp

/-- where a finished block leaves the buffer, and the sizes it promises -/
theorem decBlockP_spec (b : Bytes) (pos want : Nat) (q : Pending) (p' : Nat) (h : decBlockP b pos want = some (q, p')) :
    p' ≤ b.size ∧ (match q with | .data x => x.size = want | .req _ _ w => w = want) := by
  unfold decBlockP at h
  cases hr : readUvarint b pos with
  | none => rw [hr] at h; cases h
  | some r =>
    obtain ⟨size, pos1⟩ := r
    obtain ⟨_, hp2, _⟩ := SJ.Rebuild.readUvarint_bounds b pos size pos1 hr
    rw [hr] at h
    simp only [] at h
    by_cases h1 : size.toNat > b.size - pos1
    · rw [if_pos h1] at h; cases h
    · rw [if_neg h1] at h
      by_cases h2 : size == 0 ∧ want == 0
      · rw [if_pos h2] at h
        injection h with h; injection h with hq hp
        subst hq hp
        refine ⟨hp2, ?_⟩
        have := h2.2
        simp at this
        simp [this]
      · rw [if_neg h2] at h
        by_cases h3 : size.toNat < 1
        · rw [if_pos h3] at h; cases h
        · rw [if_neg h3] at h
          have hsz : (b.extract (pos1 + 1) (pos1 + 1 + (size.toNat - 1))).size = size.toNat - 1 := by
            simp only [Array.size_extract]; omega
          generalize (b.extract (pos1 + 1) (pos1 + 1 + (size.toNat - 1))) = cmp at h hsz
          generalize b.getD pos1 0 = ty at h
          by_cases h4 : (ty.toNat == cblockTypeUncompressed) = true
          · rw [if_pos h4] at h
            by_cases h5 : (cmp.size != want) = true
            · rw [if_pos h5] at h; cases h
            · rw [if_neg h5] at h
              injection h with h; injection h with hq hp
              subst hq hp
              refine ⟨by omega, ?_⟩
              simpa using h5
          · rw [if_neg h4] at h
            by_cases h6 : (ty.toNat == cblockTypeS2) = true ∨ (ty.toNat == cblockTypeZstd) = true
            · rw [if_pos h6] at h
              injection h with h; injection h with hq hp
              subst hq hp
              exact ⟨by omega, rfl⟩
            · rw [if_neg h6] at h; cases h

/-- what the framing part of `Deserialize` leaves behind for the join and the reconstruction -/
structure Hdr where
  ts : UInt64
  ms : UInt64
  pS : Pending
  pM : Pending
  pT : Pending
  pV : Pending
  deriving Inhabited

inductive HdrRes where
  | err                 -- `return dst, err`
  | tooBig              -- a declared size of 2^63 or more: `make` panics (`makeslice: len out of range`)
  | ok (h : Hdr)
  deriving Inhabited

/-- the framing part of `SJ.deserialize`, the decompressors taken out, the allocation of declared sizes put in; in five
    pieces, last first: values, tags, message, strings, and the two sizes in front -/
def restV (src : Bytes) (pos : Nat) (ts ms : UInt64) (pS pM pT : Pending) : HdrRes :=
  match readUvarint src pos with
  | none => .err
  | some (vs, pos) =>
  if 2^63 ≤ vs.toNat then .tooBig else
  match decBlockP src pos vs.toNat with
  | none => .err
  | some (pV, _) => .ok { ts := ts, ms := ms, pS := pS, pM := pM, pT := pT, pV := pV }

def restT (src : Bytes) (pos : Nat) (ts ms : UInt64) (pS pM : Pending) : HdrRes :=
  match readUvarint src pos with
  | none => .err
  | some (tgs, pos) =>
  if 2^63 ≤ tgs.toNat then .tooBig else
  match decBlockP src pos tgs.toNat with
  | none => .err
  | some (pT, pos) => restV src pos ts ms pS pM pT

def restM (src : Bytes) (pos : Nat) (ts : UInt64) (pS : Pending) : HdrRes :=
  match readUvarint src pos with
  | none => .err
  | some (ms, pos) =>
  if 2^63 ≤ ms.toNat then .tooBig else
  match decBlockP src pos ms.toNat with
  | none => .err
  | some (pM, pos) => restT src pos ts ms pS pM

def restS (src : Bytes) (pos : Nat) (ts : UInt64) : HdrRes :=
  match readUvarint src pos with
  | none => .err
  | some (ss, pos) =>
  if 2^63 ≤ ss.toNat then .tooBig else
  match decBlockP src pos ss.toNat with
  | none => .err
  | some (pS, pos) => restM src pos ts pS

def restP (src : Bytes) : HdrRes :=
  match readUvarint src 1 with
  | none => .err
  | some (c, pos) =>
  if toInt64 c > ((src.size - pos : Nat) : Int) then .err else
  match readUvarint src pos with
  | none => .err
  | some (ts, pos) =>
  if 2^63 ≤ ts.toNat then .tooBig else restS src pos ts

def headerP (src : Bytes) : HdrRes :=
  if src.size == 0 then .err else
  if (src.getD 0 0).toNat > cserializedVersion then .err else restP src

/-- the rest of `SJ.deserialize`: the joins, then the reconstruction -/
def finish (codec : Codec) (prior : Array UInt64) (h : Hdr) : Res PJ :=
  match h.pV.resolve codec, h.pT.resolve codec with
  | .fail, _ => .error .generic
  | _, .codecErr => .error .generic
  | .codecErr, _ => .error .generic
  | .data values, .data tags =>
    let init : Array UInt64 := (prior.extract 0 h.ts.toNat) ++ Array.replicate (h.ts.toNat - prior.size) 0
    match rebuild init tags values with
    | .ok tp =>
      match h.pS.resolve codec with
      | .codecErr => .error .generic
      | .data strs =>
        let msg := match h.pM.resolve codec with | .data m => m | _ => Array.replicate h.ms.toNat 0
        .ok { tape := tp, strings := strs, msg := msg }
      | .fail => .error .generic
    | .error e => .error e
    | .panic => .panic
    | .diverge => .diverge
  | _, .fail => .error .generic

theorem resolve_ne_fail (codec : Codec) (p : Pending) : p.resolve codec ≠ .fail := by
  cases p with
  | data b => simp [Pending.resolve]
  | req t c w => simp only [Pending.resolve]; cases codec t c w <;> simp


/-! ## `decBlock` -/

/-- the callee's frame, as `callFun` builds it -/
def decFrame (b : Bytes) (pos : Int) (st ty cp wt sb m : Val) (d : Bytes) : Env :=
  [("br.buf", .bytes b), ("br.off", .int pos), ("dstErr.started", st), ("dstErr.typ", ty), ("dstErr.compressed", cp),
   ("dstErr.want", wt), ("Strings.B", sb), ("Message", m), ("dst", .bytes d)]

/-- what the caller gets back from a frame -/
def FrameOut (e : Env) (b : Bytes) (off : Int) (st ty cp wt sb m : Val) : Prop :=
  e.get "br.buf" = some (.bytes b) ∧ e.get "br.off" = some (.int off) ∧ e.get "dstErr.started" = some st ∧
  e.get "dstErr.typ" = some ty ∧ e.get "dstErr.compressed" = some cp ∧ e.get "dstErr.want" = some wt ∧
  e.get "Strings.B" = some sb ∧ e.get "Message" = some m

/-- the three library calls on a `*bytes.Buffer` at a natural position -/
theorem ext_ReadUvarint (b : Bytes) (pos : Nat) :
    extCall "ReadUvarint" [.int pos, .bytes b] =
      some (match readUvarint b pos with
        | some (x, p) => [.u64 x, .bool false, .int p]
        | none => [.u64 0, .bool true, .int (min (b.size : Int) ((pos : Int) + 10))]) := by
  have h : ¬ ((pos : Int) < 0) := by omega
  simp [extCall, h]
  cases readUvarint b pos <;> simp

theorem ext_ReadByte (b : Bytes) (pos : Nat) :
    extCall "ReadByte" [.int pos, .bytes b] =
      some (if pos < b.size then [.u8 (b.getD pos 0), .bool false, .int ((pos + 1 : Nat) : Int)]
            else [.u8 0, .bool true, .int pos]) := by
  have h : ¬ ((pos : Int) < 0) := by omega
  simp [extCall, h]
  split <;> rfl

theorem ext_BufNext (b : Bytes) (pos n : Nat) (h : pos ≤ b.size) (hn : n ≤ b.size - pos) :
    extCall "BufNext" [.int pos, .bytes b, .int n] =
      some [.bytes (b.extract pos (pos + n)), .int ((pos + n : Nat) : Int)] := by
  have h1 : ¬ ((pos : Int) < 0) := by omega
  have h2 : ¬ ((n : Int) < 0) := by omega
  have h3 : ¬ (b.size < pos) := by omega
  simp [extCall, h1, h2, h3, Nat.min_eq_left hn]

def DecPost (b : Bytes) (pos : Nat) (d : Bytes) (st ty cp wt sb m : Val) (tp : Array UInt64) : Out → Prop
  | .ret ⟨e', tp'⟩ [.bool err, .bytes d'] =>
    tp' = tp ∧
    match decBlockP b pos d.size with
    | none => err = true ∧ d' = d ∧ ∃ off, FrameOut e' b off st ty cp wt sb m
    | some (.data x, pos') => err = false ∧ d' = x ∧ FrameOut e' b pos' st ty cp wt sb m
    | some (.req t c w, pos') => err = false ∧ d' = d ∧ FrameOut e' b pos' (.bool true) (.u8 t) (.bytes c) (.int w) sb m
  | _ => False

theorem decBody (b : Bytes) (pos : Nat) (hpos : pos ≤ b.size) (hsz : b.size < 2^63) (d : Bytes)
    (st ty cp wt sb m : Val) (tp : Array UInt64) (fuel : Nat) :
    DecPost b pos d st ty cp wt sb m tp
      (exec goFuns fuel goSerializer_decBlock.body ⟨decFrame b pos st ty cp wt sb m d, tp⟩) := by
  cases hru : readUvarint b pos with
  | none =>
    simp [goSerializer_decBlock, decFrame, exec, exec1, evalE, evalEs, ext_ReadUvarint, assignTargets, Env.get, Env.set, hru,
      DecPost, decBlockP, FrameOut]
  | some r =>
    obtain ⟨size, p1⟩ := r
    obtain ⟨hp1, hp2, _⟩ := SJ.Rebuild.readUvarint_bounds b pos size p1 hru
    -- `uint64(br.Len())`
    have hL : UInt64.ofInt ((b.size : Int) - (p1 : Int)) = UInt64.ofNat (b.size - p1) := by
      rw [show ((b.size : Int) - (p1 : Int)) = ((b.size - p1 : Nat) : Int) by omega]
      exact SJ.GoRebuild.ofInt_nat _
    have hLn : (UInt64.ofNat (b.size - p1)).toNat = b.size - p1 := by
      simp only [UInt64.toNat_ofNat']; omega
    by_cases h1 : size.toNat > b.size - p1
    · have h1' : size > UInt64.ofNat (b.size - p1) := by
        rw [gt_iff_lt, UInt64.lt_iff_toNat_lt, hLn]; exact h1
      simp [goSerializer_decBlock, decFrame, exec, exec1, evalE, evalEs, ext_ReadUvarint, assignTargets, Env.get, Env.set, hru,
        DecPost, decBlockP, FrameOut, binop, convert, hL, h1, h1']
    · have h1' : ¬ (size > UInt64.ofNat (b.size - p1)) := by
        rw [gt_iff_lt, UInt64.lt_iff_toNat_lt, hLn]; exact h1
      by_cases hs0 : size = 0
      · subst hs0
        by_cases hd0 : d.size = 0
        · have hd : d = #[] := Array.eq_empty_of_size_eq_zero hd0
          subst hd
          simp [goSerializer_decBlock, decFrame, exec, exec1, evalE, evalEs, ext_ReadUvarint, assignTargets, Env.get, Env.set,
            hru, DecPost, decBlockP, FrameOut, binop, convert, hL, h1']
        · have hd0' : ((d.size : Int) == 0) = false := by rw [beq_eq_false_iff_ne]; omega
          simp [goSerializer_decBlock, decFrame, exec, exec1, evalE, evalEs, ext_ReadUvarint, assignTargets, Env.get, Env.set,
            hru, DecPost, decBlockP, FrameOut, binop, convert, hL, h1', hd0, hd0']
      · have hsn : 1 ≤ size.toNat := by
          rcases Nat.eq_zero_or_pos size.toNat with h | h
          · exact absurd (UInt64.toNat_inj.mp (by simpa using h)) hs0
          · exact h
        have hs1 : ¬ (size < 1) := by
          rw [UInt64.lt_iff_toNat_lt]; simp; omega
        have hpb : p1 < b.size := by omega
        have hsub : (size - 1).toNat = size.toNat - 1 := by
          rw [UInt64.toNat_sub_of_le]
          · rfl
          · rw [UInt64.le_iff_toNat_le]; simpa using hsn
        have hconv : toInt64 (size - 1) = ((size.toNat - 1 : Nat) : Int) := by
          unfold toInt64; rw [hsub, if_pos (by omega)]
        have hnext : extCall "BufNext" [.int ((p1 : Int) + 1), .bytes b, .int (toInt64 (size - 1))] =
            some [.bytes (b.extract (p1 + 1) (p1 + 1 + (size.toNat - 1))), .int ((p1 + 1 + (size.toNat - 1) : Nat) : Int)] := by
          rw [hconv]
          exact ext_BufNext b (p1 + 1) (size.toNat - 1) (by omega) (by omega)
        have hcsz : (b.extract (p1 + 1) (p1 + 1 + (size.toNat - 1))).size = size.toNat - 1 := by
          simp only [Array.size_extract]; omega
        have hrb : extCall "ReadByte" [.int p1, .bytes b] = some [.u8 (b.getD p1 0), .bool false, .int ((p1 : Int) + 1)] := by
          rw [ext_ReadByte, if_pos hpb]; rfl
        have hs0' : (size == 0) = false := by rw [beq_eq_false_iff_ne]; exact hs0
        have hs1n : ¬ (size.toNat < 1) := by omega
        have hP : decBlockP b pos d.size =
            (if (b.getD p1 0).toNat == cblockTypeUncompressed then
               (if (b.extract (p1 + 1) (p1 + 1 + (size.toNat - 1))).size != d.size then none
                else some (.data (b.extract (p1 + 1) (p1 + 1 + (size.toNat - 1))), p1 + 1 + (size.toNat - 1)))
             else if (b.getD p1 0).toNat == cblockTypeS2 ∨ (b.getD p1 0).toNat == cblockTypeZstd then
               some (.req (b.getD p1 0) (b.extract (p1 + 1) (p1 + 1 + (size.toNat - 1))) d.size, p1 + 1 + (size.toNat - 1))
             else none) := by
          simp only [decBlockP, hru, h1, if_false, hs0', hs1n, Bool.false_eq_true, false_and]
        generalize hcmp : b.extract (p1 + 1) (p1 + 1 + (size.toNat - 1)) = cmp at hnext hcsz hP
        generalize htb : b.getD p1 0 = tyb at hrb hP
        have hlen : ¬ ((cmp.size : Int) != toInt64 (size - 1)) = true := by
          rw [hconv, hcsz]; simp
        by_cases ht0 : tyb = 0
        · subst ht0
          by_cases hcd : cmp.size = d.size
          · have hcd' : ((cmp.size : Int) != (d.size : Int)) = false := by rw [hcd]; simp
            have hcdn : (cmp.size != d.size) = false := by rw [hcd]; simp
            have hcopy : cmp.extract 0 (min d.size cmp.size) ++ d.extract (min d.size cmp.size) d.size = cmp := by
              rw [hcd, Nat.min_self]
              simp [← hcd]
            simp [goSerializer_decBlock, decFrame, exec, exec1, execCases, isOneOf, evalE, evalEs, ext_ReadUvarint, hrb, hnext,
              assignTargets, Env.get, Env.set, hru, DecPost, hP, FrameOut, binop, convert, hL, h1', hs0', hs1, hlen, hcdn, hcd',
              hcopy, cblockTypeUncompressed]
          · have hcd' : ((cmp.size : Int) != (d.size : Int)) = true := by
              simp only [bne_iff_ne, ne_eq]; omega
            have hcdn : (cmp.size != d.size) = true := by simp only [bne_iff_ne, ne_eq]; exact hcd
            simp [goSerializer_decBlock, decFrame, exec, exec1, execCases, isOneOf, evalE, evalEs, ext_ReadUvarint, hrb, hnext,
              assignTargets, Env.get, Env.set, hru, DecPost, hP, FrameOut, binop, convert, hL, h1', hs0', hs1, hlen, hcdn, hcd',
              cblockTypeUncompressed]
        · by_cases ht1 : tyb = 1
          · subst ht1
            simp [goSerializer_decBlock, decFrame, exec, exec1, execCases, isOneOf, evalE, evalEs, ext_ReadUvarint, hrb, hnext,
              assignTargets, Env.get, Env.set, hru, DecPost, hP, FrameOut, binop, convert, hL, h1', hs0', hs1, hlen,
              cblockTypeUncompressed, cblockTypeS2, cblockTypeZstd]
          · by_cases ht2 : tyb = 2
            · subst ht2
              simp [goSerializer_decBlock, decFrame, exec, exec1, execCases, isOneOf, evalE, evalEs, ext_ReadUvarint, hrb, hnext,
                assignTargets, Env.get, Env.set, hru, DecPost, hP, FrameOut, binop, convert, hL, h1', hs0', hs1, hlen,
                cblockTypeUncompressed, cblockTypeS2, cblockTypeZstd]
            · have e0 : ¬ (0 = tyb) := fun h => ht0 h.symm
              have e1 : ¬ (1 = tyb) := fun h => ht1 h.symm
              have e2 : ¬ (2 = tyb) := fun h => ht2 h.symm
              have n0 : ¬ (tyb.toNat = 0) := fun h => ht0 (UInt8.toNat_inj.mp (by simpa using h))
              have n1 : ¬ (tyb.toNat = 1) := fun h => ht1 (UInt8.toNat_inj.mp (by simpa using h))
              have n2 : ¬ (tyb.toNat = 2) := fun h => ht2 (UInt8.toNat_inj.mp (by simpa using h))
              simp [goSerializer_decBlock, decFrame, exec, exec1, execCases, isOneOf, evalE, evalEs, ext_ReadUvarint, hrb, hnext,
                assignTargets, Env.get, Env.set, hru, DecPost, hP, FrameOut, binop, convert, hL, h1', hs0', hs1, hlen,
                cblockTypeUncompressed, cblockTypeS2, cblockTypeZstd, ht0, ht1, ht2, e0, e1, e2, n0, n1, n2]

/-- the caller's variables after the call: the buffer's position and the record behind the `*error` argument `X` -/
def backEnv (e : Env) (X : String) (b : Bytes) (off : Int) (st ty cp wt sb m : Val) : Env :=
  (((((((e.set "br.buf" (.bytes b)).set "br.off" (.int off)).set (X ++ "." ++ "started") st).set (X ++ "." ++ "typ") ty).set
    (X ++ "." ++ "compressed") cp).set (X ++ "." ++ "want") wt).set "Strings.B" sb).set "Message" m

theorem DecPost.elim {b : Bytes} {pos : Nat} {d : Bytes} {st ty cp wt sb m : Val} {tp : Array UInt64} {out : Out}
    (h : DecPost b pos d st ty cp wt sb m tp out) :
    ∃ e' err d', out = .ret ⟨e', tp⟩ [.bool err, .bytes d'] ∧
      match decBlockP b pos d.size with
      | none => err = true ∧ d' = d ∧ ∃ off, FrameOut e' b off st ty cp wt sb m
      | some (.data x, pos') => err = false ∧ d' = x ∧ FrameOut e' b pos' st ty cp wt sb m
      | some (.req t c w, pos') =>
        err = false ∧ d' = d ∧ FrameOut e' b pos' (.bool true) (.u8 t) (.bytes c) (.int w) sb m := by
  unfold DecPost at h
  split at h
  · obtain ⟨rfl, h⟩ := h
    exact ⟨_, _, _, rfl, h⟩
  · exact h.elim

theorem back_of_FrameOut (e e' : Env) (X : String) (b : Bytes) (off : Int) (st ty cp wt sb m : Val) (tp : Array UInt64)
    (rs : List Val) (h : FrameOut e' b off st ty cp wt sb m) :
    (match copyPtrsBack e' e ["br", X] [("br", ["buf", "off"]), ("dstErr", ["started", "typ", "compressed", "want"])] with
      | some e3 => Out.ret { env := copyGlobals e' e3 globalVars, tape := tp } rs
      | none => Out.stuck "pointer arguments back") =
    .ret ⟨backEnv e X b off st ty cp wt sb m, tp⟩ rs := by
  obtain ⟨g1, g2, g3, g4, g5, g6, g7, g8⟩ := h
  simp [copyPtrsBack, copyFields, copyGlobals, globalVars, backEnv, g1, g2, g3, g4, g5, g6, g7, g8]

theorem goFuns_dec : goFuns "Serializer.decBlock" = some goSerializer_decBlock := rfl
theorem dec_recv : goSerializer_decBlock.recv = "s" := rfl
theorem dec_fields : goSerializer_decBlock.fields = [] := rfl
theorem dec_params : goSerializer_decBlock.params = ["dst"] := rfl
theorem dec_ptrs : goSerializer_decBlock.ptrParams =
    [("br", ["buf", "off"]), ("dstErr", ["started", "typ", "compressed", "want"])] := rfl

/-- **`s.decBlock(br, buf, &wg, &X)` from any caller's store** -/
theorem call_decBlock (e : Env) (tp : Array UInt64) (X buf : String) (b : Bytes) (pos : Nat) (d : Bytes)
    (st ty cp wt sb m : Val) (fuel : Nat)
    (hb : e.get "br.buf" = some (.bytes b)) (ho : e.get "br.off" = some (.int pos))
    (h1 : e.get (X ++ "." ++ "started") = some st) (h2 : e.get (X ++ "." ++ "typ") = some ty)
    (h3 : e.get (X ++ "." ++ "compressed") = some cp) (h4 : e.get (X ++ "." ++ "want") = some wt)
    (hS : e.get "Strings.B" = some sb) (hM : e.get "Message" = some m) (hd : e.get buf = some (.bytes d))
    (hpos : pos ≤ b.size) (hsz : b.size < 2^63) :
    ∃ (err : Bool) (d' : Bytes) (off : Int) (st' ty' cp' wt' : Val),
      callFun goFuns fuel "s" "Serializer.decBlock" ["br", X] [.v buf] ⟨e, tp⟩ =
        .ret ⟨backEnv e X b off st' ty' cp' wt' sb m, tp⟩ [.bool err, .bytes d'] ∧
      match decBlockP b pos d.size with
      | none => err = true
      | some (.data x, pos') => err = false ∧ d' = x ∧ off = pos' ∧ st' = st ∧ ty' = ty ∧ cp' = cp ∧ wt' = wt
      | some (.req t c w, pos') =>
        err = false ∧ d' = d ∧ off = pos' ∧ st' = .bool true ∧ ty' = .u8 t ∧ cp' = .bytes c ∧ wt' = .int w := by
  have key := decBody b pos hpos hsz d st ty cp wt sb m tp fuel
  rw [callFun, goFuns_dec]
  simp only [evalEs, evalE, hd]
  simp only [dec_recv, dec_fields, dec_params, dec_ptrs, copyFields]
  have hfwd : copyPtrs e [] ["br", X] [("br", ["buf", "off"]), ("dstErr", ["started", "typ", "compressed", "want"])] =
      some [("br.buf", .bytes b), ("br.off", .int pos), ("dstErr.started", st), ("dstErr.typ", ty),
        ("dstErr.compressed", cp), ("dstErr.want", wt)] := by
    simp [copyPtrs, copyFields, hb, ho, h1, h2, h3, h4, Env.set]
  rw [hfwd]
  have hg : copyGlobals e [("br.buf", .bytes b), ("br.off", .int pos), ("dstErr.started", st), ("dstErr.typ", ty),
        ("dstErr.compressed", cp), ("dstErr.want", wt)] globalVars =
      [("br.buf", .bytes b), ("br.off", .int pos), ("dstErr.started", st), ("dstErr.typ", ty),
        ("dstErr.compressed", cp), ("dstErr.want", wt), ("Strings.B", sb), ("Message", m)] := by
    simp [copyGlobals, globalVars, hS, hM, Env.set]
  simp only [hg, bindParams, Env.set, String.reduceBEq, Bool.false_eq_true, if_false]
  simp only [decFrame] at key
  generalize exec goFuns fuel _ _ = out at key ⊢
  obtain ⟨e', err, d', rfl, kk⟩ := key.elim
  simp only []
  cases hP : decBlockP b pos d.size with
  | none =>
    rw [hP] at kk
    obtain ⟨rfl, rfl, off, hF⟩ := kk
    exact ⟨true, d', off, st, ty, cp, wt, back_of_FrameOut e e' X b off st ty cp wt sb m tp _ hF, rfl⟩
  | some r =>
    obtain ⟨p, pos'⟩ := r
    rw [hP] at kk
    cases p with
    | data x =>
      obtain ⟨rfl, rfl, hF⟩ := kk
      exact ⟨false, d', pos', st, ty, cp, wt, back_of_FrameOut e e' X b pos' st ty cp wt sb m tp _ hF,
        rfl, rfl, rfl, rfl, rfl, rfl, rfl⟩
    | req t c w =>
      obtain ⟨rfl, rfl, hF⟩ := kk
      exact ⟨false, d', pos', _, _, _, _, back_of_FrameOut e e' X b pos' _ _ _ _ sb m tp _ hF,
        rfl, rfl, rfl, rfl, rfl, rfl, rfl⟩

/-! ## the framing part of `Deserialize` -/

/-- the record behind an `error` variable that a goroutine will set (`.spawn`) -/
structure Rec where
  st : Val
  ty : Val
  cp : Val
  wt : Val

/-- the store of the framing block: the inputs (`src`; whether `dst`, `dst.Strings`, `dst.Message` are nil; the backing
    arrays of the four destination buffers up to their capacities; `len(dst.Tape)`) and the block's locals, which may
    hold anything at the start (every one is assigned before it is read) -/
structure FS where
  src : Bytes
  dn : Bool
  sn : Bool
  mn : Bool
  sB : Bytes
  mB : Bytes
  tB : Bytes
  vB : Bytes
  lim : Int
  buf : Bytes
  off : Int
  v : UInt8
  err : Bool
  c : UInt64
  ts : UInt64
  ss : UInt64
  tags : UInt64
  vals : UInt64
  rS : Rec
  rM : Rec
  rT : Rec
  rV : Rec

def FS.env (f : FS) : Env :=
  [("src", .bytes f.src), ("dst==nil", .bool f.dn), ("dst.Strings==nil", .bool f.sn), ("dst.Message==nil", .bool f.mn),
   ("Strings.B", .bytes f.sB), ("Message", .bytes f.mB), ("s.tagsBuf", .bytes f.tB), ("s.valuesBuf", .bytes f.vB),
   ("dst.lim", .int f.lim), ("br.buf", .bytes f.buf), ("br.off", .int f.off), ("v", .u8 f.v), ("err", .bool f.err),
   ("c", .u64 f.c), ("ts", .u64 f.ts), ("ss", .u64 f.ss), ("tags", .u64 f.tags), ("vals", .u64 f.vals),
   ("stringsErr.started", f.rS.st), ("stringsErr.typ", f.rS.ty), ("stringsErr.compressed", f.rS.cp), ("stringsErr.want", f.rS.wt),
   ("msgErr.started", f.rM.st), ("msgErr.typ", f.rM.ty), ("msgErr.compressed", f.rM.cp), ("msgErr.want", f.rM.wt),
   ("tagsErr.started", f.rT.st), ("tagsErr.typ", f.rT.ty), ("tagsErr.compressed", f.rT.cp), ("tagsErr.want", f.rT.wt),
   ("valsErr.started", f.rV.st), ("valsErr.typ", f.rV.ty), ("valsErr.compressed", f.rV.cp), ("valsErr.want", f.rV.wt)]

/-- the body cut at the four calls -/
def sPre : List Stmt := goDeserialize_header.body.take 5
def sA1 : List Stmt := (goDeserialize_header.body.drop 5).take 2
def sA2 : List Stmt := (goDeserialize_header.body.drop 7).take 2
def sA3 : List Stmt := (goDeserialize_header.body.drop 9).take 12
def call1 : Stmt := goDeserialize_header.body.getD 21 .brk
def segB : List Stmt := (goDeserialize_header.body.drop 22).take 3
def call2 : Stmt := goDeserialize_header.body.getD 25 .brk
def segC : List Stmt := (goDeserialize_header.body.drop 26).take 8
def call3 : Stmt := goDeserialize_header.body.getD 34 .brk
def segD : List Stmt := (goDeserialize_header.body.drop 35).take 8
def call4 : Stmt := goDeserialize_header.body.getD 43 .brk
def segE : List Stmt := goDeserialize_header.body.drop 44

theorem body_split : goDeserialize_header.body =
    sPre ++ (sA1 ++ (sA2 ++ (sA3 ++ (call1 :: (segB ++ (call2 :: (segC ++ (call3 :: (segD ++ (call4 :: segE)))))))))) := rfl

theorem call1_eq : call1 = .callAssign ["err", "Strings.B"] "s" "Serializer.decBlock" ["br", "stringsErr"] [(.v "Strings.B")] := rfl
theorem call2_eq : call2 = .callAssign ["err", "Message"] "s" "Serializer.decBlock" ["br", "msgErr"] [(.v "Message")] := rfl
theorem call3_eq : call3 = .callAssign ["err", "s.tagsBuf"] "s" "Serializer.decBlock" ["br", "tagsErr"] [(.v "s.tagsBuf")] := rfl
theorem call4_eq : call4 = .callAssign ["err", "s.valuesBuf"] "s" "Serializer.decBlock" ["br", "valsErr"] [(.v "s.valuesBuf")] := rfl

/-- after `br := bytes.NewBuffer(src)` and the version byte -/
def FS.start (f : FS) : FS := { f with buf := f.src, off := 1, v := f.src.getD 0 0, err := false }
/-- after `dst = &ParsedJson{}` -/
def FS.fresh (f : FS) : FS := { f with dn := false, lim := 0, sn := true, mn := true, sB := #[], mB := #[] }

theorem ext_ReadByte0 (src : Bytes) (h0 : 0 < src.size) :
    extCall "ReadByte" [.int 0, .bytes src] = some [.u8 (src.getD 0 0), .bool false, .int 1] := by
  have := ext_ReadByte src 0
  rw [if_pos h0] at this
  exact this

/-- `return dst, err` with `err != nil` -/
def Fail (o : Out) : Prop := ∃ s', o = .ret s' [.bool true, .bool true]

/-- version byte, fresh destination -/
theorem pre_exec (f : FS) (prior : Array UInt64) (fuel : Nat) :
    (f.src.size = 0 → Fail (exec goFuns fuel sPre ⟨f.env, prior⟩)) ∧
    (0 < f.src.size → (f.src.getD 0 0).toNat > cserializedVersion → Fail (exec goFuns fuel sPre ⟨f.env, prior⟩)) ∧
    (0 < f.src.size → ¬ (f.src.getD 0 0).toNat > cserializedVersion →
      exec goFuns fuel sPre ⟨f.env, prior⟩ =
        if f.dn then .normal ⟨f.start.fresh.env, #[]⟩ else .normal ⟨f.start.env, prior⟩) := by
  refine ⟨fun h0 => ?_, fun h0 hv => ?_, fun h0 hv => ?_⟩
  · have hrb : extCall "ReadByte" [.int 0, .bytes f.src] = some [.u8 0, .bool true, .int 0] := by
      have := ext_ReadByte f.src 0
      rw [if_neg (by omega)] at this
      exact this
    simp [Fail, sPre, goDeserialize_header, FS.env, exec, exec1, evalE, evalEs, hrb, assignTargets, Env.get, Env.set]
  · have hrb := ext_ReadByte0 f.src h0
    generalize f.src.getD 0 0 = v0 at hrb hv
    have hv' : 3 < v0 := by
      rw [UInt8.lt_iff_toNat_lt]; simpa [cserializedVersion] using hv
    simp [Fail, sPre, goDeserialize_header, FS.env, exec, exec1, evalE, evalEs, hrb, assignTargets, Env.get, Env.set, binop, hv']
  · have hrb := ext_ReadByte0 f.src h0
    generalize hv0 : f.src.getD 0 0 = v0 at hrb hv
    have hv' : ¬ (3 < v0) := by
      rw [UInt8.lt_iff_toNat_lt]; simpa [cserializedVersion] using hv
    cases hdn : f.dn <;>
    (simp [sPre, goDeserialize_header, FS.env, FS.start, FS.fresh, exec, exec1, evalE, evalEs, hrb, assignTargets, Env.get, Env.set, binop, hv', hdn]
     simpa using hv0.symm)

theorem toInt64_small (x : UInt64) (h : x.toNat < 2^63) : toInt64 x = (x.toNat : Int) := by
  unfold toInt64; rw [if_pos h]

theorem toInt64_big (x : UInt64) (h : 2^63 ≤ x.toNat) : toInt64 x < 0 := by
  unfold toInt64; rw [if_neg (by omega)]
  have := x.toNat_lt
  omega

theorem ofNat_lt_iff (n : Nat) (x : UInt64) (h : n < 2^63) : (UInt64.ofNat n < x) ↔ n < x.toNat := by
  rw [UInt64.lt_iff_toNat_lt, UInt64.toNat_ofNat']
  have : n % 2^64 = n := Nat.mod_eq_of_lt (by omega)
  rw [this]

/-- the tape after `if uint64(cap(dst.Tape)) < ts { dst.Tape = make([]uint64, ts) }` -/
def hdrTape (prior : Array UInt64) (ts : UInt64) : Array UInt64 :=
  if prior.size < ts.toNat then Array.replicate ts.toNat 0 else prior

/-- `// Comp size` -/
theorem sA1_exec (f : FS) (tp : Array UInt64) (fuel : Nat) (pos : Nat) (hbuf : f.buf = f.src) (hoff : f.off = pos) :
    (readUvarint f.src pos = none → Fail (exec goFuns fuel sA1 ⟨f.env, tp⟩)) ∧
    (∀ c pc, readUvarint f.src pos = some (c, pc) →
      (toInt64 c > ((f.src.size - pc : Nat) : Int) → Fail (exec goFuns fuel sA1 ⟨f.env, tp⟩)) ∧
      (¬ toInt64 c > ((f.src.size - pc : Nat) : Int) →
        exec goFuns fuel sA1 ⟨f.env, tp⟩ = .normal ⟨{ f with c := c, err := false, off := pc }.env, tp⟩)) := by
  refine ⟨fun h => ?_, fun c pc h => ?_⟩
  · simp [sA1, FS.env, exec, exec1, evalE, evalEs, ext_ReadUvarint, assignTargets, Env.get, Env.set, binop, convert, Fail, goDeserialize_header, hbuf, hoff, h]
  · obtain ⟨_, hp2, _⟩ := SJ.Rebuild.readUvarint_bounds _ _ _ _ h
    refine ⟨fun hc => ?_, fun hc => ?_⟩
    · have hc' : (f.src.size : Int) - (pc : Int) < toInt64 c := by omega
      simp [sA1, FS.env, exec, exec1, evalE, evalEs, ext_ReadUvarint, assignTargets, Env.get, Env.set, binop, convert, Fail, goDeserialize_header, hbuf, hoff, h, hc']
    · have hc' : ¬ ((f.src.size : Int) - (pc : Int) < toInt64 c) := by omega
      simp [sA1, FS.env, exec, exec1, evalE, evalEs, ext_ReadUvarint, assignTargets, Env.get, Env.set, binop, convert, Fail, goDeserialize_header, hbuf, hoff, h, hc']

/-- `// Tape size` -/
theorem sA2_exec (f : FS) (tp : Array UInt64) (fuel : Nat) (pos : Nat) (hbuf : f.buf = f.src) (hoff : f.off = pos)
    (htp : tp.size < 2^63) :
    (readUvarint f.src pos = none → Fail (exec goFuns fuel sA2 ⟨f.env, tp⟩)) ∧
    (∀ ts p, readUvarint f.src pos = some (ts, p) →
      (2^63 ≤ ts.toNat → exec goFuns fuel sA2 ⟨f.env, tp⟩ = .panic) ∧
      (ts.toNat < 2^63 →
        exec goFuns fuel sA2 ⟨f.env, tp⟩ =
          .normal ⟨{ f with ts := ts, err := false, off := p, lim := ts.toNat }.env, hdrTape tp ts⟩)) := by
  refine ⟨fun h => ?_, fun ts p h => ?_⟩
  · simp [sA2, FS.env, exec, exec1, evalE, evalEs, ext_ReadUvarint, assignTargets, Env.get, Env.set, binop, convert, Fail, goDeserialize_header, hbuf, hoff, h]
  · have hcap : UInt64.ofInt (tp.size : Int) = UInt64.ofNat tp.size := SJ.GoRebuild.ofInt_nat _
    refine ⟨fun hb => ?_, fun hs => ?_⟩
    · have hlt : UInt64.ofNat tp.size < ts := (ofNat_lt_iff _ _ htp).mpr (by omega)
      have hnb : ¬ (ts.toNat < 2^63) := by omega
      simp [sA2, FS.env, exec, exec1, evalE, evalEs, ext_ReadUvarint, assignTargets, Env.get, Env.set, binop, convert, Fail, goDeserialize_header, hbuf, hoff, h, hcap, hlt, hnb]
    · by_cases hlt : UInt64.ofNat tp.size < ts
      · have hn : tp.size < ts.toNat := (ofNat_lt_iff _ _ htp).mp hlt
        simp [sA2, FS.env, exec, exec1, evalE, evalEs, ext_ReadUvarint, assignTargets, Env.get, Env.set, binop, convert, Fail, goDeserialize_header, hbuf, hoff, h, hcap, hlt, hs, hdrTape, hn]
      · have hn : ¬ tp.size < ts.toNat := fun hh => hlt ((ofNat_lt_iff _ _ htp).mpr hh)
        have hle : ts.toNat ≤ tp.size := by omega
        simp [sA2, FS.env, exec, exec1, evalE, evalEs, ext_ReadUvarint, assignTargets, Env.get, Env.set, binop, convert, Fail, goDeserialize_header, hbuf, hoff, h, hcap, hlt, hs, hdrTape, hn, hle]

/-- `// String size`, then `var stringsErr, msgErr error` -/
theorem sA3_exec (f : FS) (tp : Array UInt64) (fuel : Nat) (pos : Nat) (hbuf : f.buf = f.src) (hoff : f.off = pos)
    (herr : f.err = false) (hcap : f.sB.size < 2^63) :
    (readUvarint f.src pos = none → Fail (exec goFuns fuel sA3 ⟨f.env, tp⟩)) ∧
    (∀ n p, readUvarint f.src pos = some (n, p) →
      (2^63 ≤ n.toNat → exec goFuns fuel sA3 ⟨f.env, tp⟩ = .panic) ∧
      (n.toNat < 2^63 → ∃ (d : Bytes) (fl : Bool), d.size = n.toNat ∧
        exec goFuns fuel sA3 ⟨f.env, tp⟩ = .normal ⟨{ f with ss := n, err := false, off := p, sn := fl, sB := d, rS := (⟨.bool false, .u8 0, .bytes #[], .int 0⟩ : Rec), rM := (⟨.bool false, .u8 0, .bytes #[], .int 0⟩ : Rec) }.env, tp⟩)) := by
  refine ⟨fun h => ?_, fun n p h => ?_⟩
  · simp [sA3, FS.env, exec, exec1, evalE, evalEs, ext_ReadUvarint, assignTargets, Env.get, Env.set, binop, convert, ofE, Fail, goDeserialize_header, hbuf, hoff, herr, h]
  · have hc : UInt64.ofInt (f.sB.size : Int) = UInt64.ofNat f.sB.size := SJ.GoRebuild.ofInt_nat _
    refine ⟨fun hb => ?_, fun hs => ?_⟩
    · have hlt : UInt64.ofNat f.sB.size < n := (ofNat_lt_iff _ _ hcap).mpr (by omega)
      have hneg : ¬ (0 ≤ toInt64 n) := by have := toInt64_big n hb; omega
      cases hfl : f.sn <;>
      simp [sA3, FS.env, exec, exec1, evalE, evalEs, ext_ReadUvarint, assignTargets, Env.get, Env.set, binop, convert, ofE, Fail, goDeserialize_header, hbuf, hoff, herr, h, hc, hlt, hneg, hfl]
    · have hconv := toInt64_small n hs
      by_cases hlt : UInt64.ofNat f.sB.size < n
      · refine ⟨(Array.replicate n.toNat 0).extract 0 n.toNat, false, by simp, ?_⟩
        cases hfl : f.sn <;>
        simp [sA3, FS.env, exec, exec1, evalE, evalEs, ext_ReadUvarint, assignTargets, Env.get, Env.set, binop, convert, ofE, Fail, goDeserialize_header, hbuf, hoff, herr, h, hc, hlt, hconv, hfl]
      · have hn : ¬ f.sB.size < n.toNat := fun hh => hlt ((ofNat_lt_iff _ _ hcap).mpr hh)
        have hle : n.toNat ≤ f.sB.size := by omega
        have hle' : (n.toNat : Int) ≤ (f.sB.size : Int) := by omega
        cases hfl : f.sn
        · refine ⟨f.sB.extract 0 n.toNat, false, by simp; omega, ?_⟩
          simp [sA3, FS.env, exec, exec1, evalE, evalEs, ext_ReadUvarint, assignTargets, Env.get, Env.set, binop, convert, ofE, Fail, goDeserialize_header, hbuf, hoff, herr, h, hc, hlt, hconv, hle, hle', hfl]
        · refine ⟨(Array.replicate n.toNat 0).extract 0 n.toNat, false, by simp, ?_⟩
          simp [sA3, FS.env, exec, exec1, evalE, evalEs, ext_ReadUvarint, assignTargets, Env.get, Env.set, binop, convert, ofE, Fail, goDeserialize_header, hbuf, hoff, herr, h, hc, hlt, hconv, hle, hle', hfl]

/-- `// Message size` -/
theorem segB_exec (f : FS) (tp : Array UInt64) (fuel : Nat) (pos : Nat) (hbuf : f.buf = f.src) (hoff : f.off = pos)
    (herr : f.err = false) (hcap : f.mB.size < 2^63) :
    (readUvarint f.src pos = none → Fail (exec goFuns fuel segB ⟨f.env, tp⟩)) ∧
    (∀ n p, readUvarint f.src pos = some (n, p) →
      (2^63 ≤ n.toNat → exec goFuns fuel segB ⟨f.env, tp⟩ = .panic) ∧
      (n.toNat < 2^63 → ∃ (d : Bytes) (fl : Bool), d.size = n.toNat ∧
        exec goFuns fuel segB ⟨f.env, tp⟩ = .normal ⟨{ f with ss := n, err := false, off := p, mn := fl, mB := d }.env, tp⟩)) := by
  refine ⟨fun h => ?_, fun n p h => ?_⟩
  · simp [segB, FS.env, exec, exec1, evalE, evalEs, ext_ReadUvarint, assignTargets, Env.get, Env.set, binop, convert, ofE, Fail, goDeserialize_header, hbuf, hoff, herr, h]
  · have hc : UInt64.ofInt (f.mB.size : Int) = UInt64.ofNat f.mB.size := SJ.GoRebuild.ofInt_nat _
    refine ⟨fun hb => ?_, fun hs => ?_⟩
    · have hlt : UInt64.ofNat f.mB.size < n := (ofNat_lt_iff _ _ hcap).mpr (by omega)
      have hneg : ¬ (0 ≤ toInt64 n) := by have := toInt64_big n hb; omega
      cases hfl : f.mn <;>
      simp [segB, FS.env, exec, exec1, evalE, evalEs, ext_ReadUvarint, assignTargets, Env.get, Env.set, binop, convert, ofE, Fail, goDeserialize_header, hbuf, hoff, herr, h, hc, hlt, hneg, hfl]
    · have hconv := toInt64_small n hs
      by_cases hlt : UInt64.ofNat f.mB.size < n
      · refine ⟨(Array.replicate n.toNat 0).extract 0 n.toNat, false, by simp, ?_⟩
        cases hfl : f.mn <;>
        simp [segB, FS.env, exec, exec1, evalE, evalEs, ext_ReadUvarint, assignTargets, Env.get, Env.set, binop, convert, ofE, Fail, goDeserialize_header, hbuf, hoff, herr, h, hc, hlt, hconv, hfl]
      · have hn : ¬ f.mB.size < n.toNat := fun hh => hlt ((ofNat_lt_iff _ _ hcap).mpr hh)
        have hle : n.toNat ≤ f.mB.size := by omega
        have hle' : (n.toNat : Int) ≤ (f.mB.size : Int) := by omega
        cases hfl : f.mn
        · refine ⟨f.mB.extract 0 n.toNat, false, by simp; omega, ?_⟩
          simp [segB, FS.env, exec, exec1, evalE, evalEs, ext_ReadUvarint, assignTargets, Env.get, Env.set, binop, convert, ofE, Fail, goDeserialize_header, hbuf, hoff, herr, h, hc, hlt, hconv, hle, hle', hfl]
        · refine ⟨(Array.replicate n.toNat 0).extract 0 n.toNat, false, by simp, ?_⟩
          simp [segB, FS.env, exec, exec1, evalE, evalEs, ext_ReadUvarint, assignTargets, Env.get, Env.set, binop, convert, ofE, Fail, goDeserialize_header, hbuf, hoff, herr, h, hc, hlt, hconv, hle, hle', hfl]

/-- `// Decompress tags`: size, `var tagsErr error` -/
theorem segC_exec (f : FS) (tp : Array UInt64) (fuel : Nat) (pos : Nat) (hbuf : f.buf = f.src) (hoff : f.off = pos)
    (herr : f.err = false) (hcap : f.tB.size < 2^63) :
    (readUvarint f.src pos = none → Fail (exec goFuns fuel segC ⟨f.env, tp⟩)) ∧
    (∀ n p, readUvarint f.src pos = some (n, p) →
      (2^63 ≤ n.toNat → exec goFuns fuel segC ⟨f.env, tp⟩ = .panic) ∧
      (n.toNat < 2^63 → ∃ (d : Bytes), d.size = n.toNat ∧
        exec goFuns fuel segC ⟨f.env, tp⟩ = .normal ⟨{ f with tags := n, err := false, off := p, tB := d, rT := (⟨.bool false, .u8 0, .bytes #[], .int 0⟩ : Rec) }.env, tp⟩)) := by
  refine ⟨fun h => ?_, fun n p h => ?_⟩
  · simp [segC, FS.env, exec, exec1, evalE, evalEs, ext_ReadUvarint, assignTargets, Env.get, Env.set, binop, convert, ofE, Fail, goDeserialize_header, hbuf, hoff, herr, h]
  · have hc : UInt64.ofInt (f.tB.size : Int) = UInt64.ofNat f.tB.size := SJ.GoRebuild.ofInt_nat _
    refine ⟨fun hb => ?_, fun hs => ?_⟩
    · have hlt : UInt64.ofNat f.tB.size < n := (ofNat_lt_iff _ _ hcap).mpr (by omega)
      have hneg : ¬ (0 ≤ toInt64 n) := by have := toInt64_big n hb; omega
      simp [segC, FS.env, exec, exec1, evalE, evalEs, ext_ReadUvarint, assignTargets, Env.get, Env.set, binop, convert, ofE, Fail, goDeserialize_header, hbuf, hoff, herr, h, hc, hlt, hneg]
    · have hconv := toInt64_small n hs
      by_cases hlt : UInt64.ofNat f.tB.size < n
      · refine ⟨(Array.replicate n.toNat 0).extract 0 n.toNat,  by simp, ?_⟩
        simp [segC, FS.env, exec, exec1, evalE, evalEs, ext_ReadUvarint, assignTargets, Env.get, Env.set, binop, convert, ofE, Fail, goDeserialize_header, hbuf, hoff, herr, h, hc, hlt, hconv]
      · have hn : ¬ f.tB.size < n.toNat := fun hh => hlt ((ofNat_lt_iff _ _ hcap).mpr hh)
        have hle : n.toNat ≤ f.tB.size := by omega
        have hle' : (n.toNat : Int) ≤ (f.tB.size : Int) := by omega
        refine ⟨f.tB.extract 0 n.toNat, by simp; omega, ?_⟩
        simp [segC, FS.env, exec, exec1, evalE, evalEs, ext_ReadUvarint, assignTargets, Env.get, Env.set, binop, convert, ofE, Fail, goDeserialize_header, hbuf, hoff, herr, h, hc, hlt, hconv, hle, hle']

/-- `// Decompress values`: size, `var valsErr error` -/
theorem segD_exec (f : FS) (tp : Array UInt64) (fuel : Nat) (pos : Nat) (hbuf : f.buf = f.src) (hoff : f.off = pos)
    (herr : f.err = false) (hcap : f.vB.size < 2^63) :
    (readUvarint f.src pos = none → Fail (exec goFuns fuel segD ⟨f.env, tp⟩)) ∧
    (∀ n p, readUvarint f.src pos = some (n, p) →
      (2^63 ≤ n.toNat → exec goFuns fuel segD ⟨f.env, tp⟩ = .panic) ∧
      (n.toNat < 2^63 → ∃ (d : Bytes), d.size = n.toNat ∧
        exec goFuns fuel segD ⟨f.env, tp⟩ = .normal ⟨{ f with vals := n, err := false, off := p, vB := d, rV := (⟨.bool false, .u8 0, .bytes #[], .int 0⟩ : Rec) }.env, tp⟩)) := by
  refine ⟨fun h => ?_, fun n p h => ?_⟩
  · simp [segD, FS.env, exec, exec1, evalE, evalEs, ext_ReadUvarint, assignTargets, Env.get, Env.set, binop, convert, ofE, Fail, goDeserialize_header, hbuf, hoff, herr, h]
  · have hc : UInt64.ofInt (f.vB.size : Int) = UInt64.ofNat f.vB.size := SJ.GoRebuild.ofInt_nat _
    refine ⟨fun hb => ?_, fun hs => ?_⟩
    · have hlt : UInt64.ofNat f.vB.size < n := (ofNat_lt_iff _ _ hcap).mpr (by omega)
      have hneg : ¬ (0 ≤ toInt64 n) := by have := toInt64_big n hb; omega
      simp [segD, FS.env, exec, exec1, evalE, evalEs, ext_ReadUvarint, assignTargets, Env.get, Env.set, binop, convert, ofE, Fail, goDeserialize_header, hbuf, hoff, herr, h, hc, hlt, hneg]
    · have hconv := toInt64_small n hs
      by_cases hlt : UInt64.ofNat f.vB.size < n
      · refine ⟨(Array.replicate n.toNat 0).extract 0 n.toNat,  by simp, ?_⟩
        simp [segD, FS.env, exec, exec1, evalE, evalEs, ext_ReadUvarint, assignTargets, Env.get, Env.set, binop, convert, ofE, Fail, goDeserialize_header, hbuf, hoff, herr, h, hc, hlt, hconv]
      · have hn : ¬ f.vB.size < n.toNat := fun hh => hlt ((ofNat_lt_iff _ _ hcap).mpr hh)
        have hle : n.toNat ≤ f.vB.size := by omega
        have hle' : (n.toNat : Int) ≤ (f.vB.size : Int) := by omega
        refine ⟨f.vB.extract 0 n.toNat, by simp; omega, ?_⟩
        simp [segD, FS.env, exec, exec1, evalE, evalEs, ext_ReadUvarint, assignTargets, Env.get, Env.set, binop, convert, ofE, Fail, goDeserialize_header, hbuf, hoff, herr, h, hc, hlt, hconv, hle, hle']

theorem call1_exec (f : FS) (tp : Array UInt64) (fuel : Nat) (pos : Nat) (hbuf : f.buf = f.src) (hoff : f.off = pos)
    (hpos : pos ≤ f.src.size) (hsz : f.src.size < 2^63) :
    ∃ (err : Bool) (d' : Bytes) (off : Int) (r' : Rec),
      exec1 goFuns (fuel + 1) call1 ⟨f.env, tp⟩ =
        .normal ⟨{ f with err := err, sB := d', off := off, rS := r' }.env, tp⟩ ∧
      match decBlockP f.src pos f.sB.size with
      | none => err = true
      | some (.data x, p') => err = false ∧ d' = x ∧ off = p' ∧ r' = f.rS
      | some (.req t c w, p') => err = false ∧ d' = f.sB ∧ off = p' ∧ r' = ⟨.bool true, .u8 t, .bytes c, .int w⟩ := by
  obtain ⟨err, d', off, st', ty', cp', wt', hcall, hm⟩ :=
    call_decBlock f.env tp "stringsErr" "Strings.B" f.src pos f.sB f.rS.st f.rS.ty f.rS.cp f.rS.wt (.bytes f.sB) (.bytes f.mB) fuel
      (by simp [FS.env, Env.get, hbuf]) (by simp [FS.env, Env.get, hoff]) (by simp [FS.env, Env.get])
      (by simp [FS.env, Env.get]) (by simp [FS.env, Env.get]) (by simp [FS.env, Env.get]) (by simp [FS.env, Env.get])
      (by simp [FS.env, Env.get]) (by simp [FS.env, Env.get]) hpos hsz
  refine ⟨err, d', off, ⟨st', ty', cp', wt'⟩, ?_, ?_⟩
  · rw [call1_eq, exec1, hcall]
    simp [assignTargets, backEnv, FS.env, Env.set, hbuf]
  · cases hP : decBlockP f.src pos f.sB.size with
    | none => rw [hP] at hm; exact hm
    | some r =>
      obtain ⟨q, p'⟩ := r
      rw [hP] at hm
      cases q with
      | data x =>
        obtain ⟨h1, h2, h3, rfl, rfl, rfl, rfl⟩ := hm
        exact ⟨h1, h2, h3, rfl⟩
      | req t c w =>
        obtain ⟨h1, h2, h3, rfl, rfl, rfl, rfl⟩ := hm
        exact ⟨h1, h2, h3, rfl⟩

theorem call2_exec (f : FS) (tp : Array UInt64) (fuel : Nat) (pos : Nat) (hbuf : f.buf = f.src) (hoff : f.off = pos)
    (hpos : pos ≤ f.src.size) (hsz : f.src.size < 2^63) :
    ∃ (err : Bool) (d' : Bytes) (off : Int) (r' : Rec),
      exec1 goFuns (fuel + 1) call2 ⟨f.env, tp⟩ =
        .normal ⟨{ f with err := err, mB := d', off := off, rM := r' }.env, tp⟩ ∧
      match decBlockP f.src pos f.mB.size with
      | none => err = true
      | some (.data x, p') => err = false ∧ d' = x ∧ off = p' ∧ r' = f.rM
      | some (.req t c w, p') => err = false ∧ d' = f.mB ∧ off = p' ∧ r' = ⟨.bool true, .u8 t, .bytes c, .int w⟩ := by
  obtain ⟨err, d', off, st', ty', cp', wt', hcall, hm⟩ :=
    call_decBlock f.env tp "msgErr" "Message" f.src pos f.mB f.rM.st f.rM.ty f.rM.cp f.rM.wt (.bytes f.sB) (.bytes f.mB) fuel
      (by simp [FS.env, Env.get, hbuf]) (by simp [FS.env, Env.get, hoff]) (by simp [FS.env, Env.get])
      (by simp [FS.env, Env.get]) (by simp [FS.env, Env.get]) (by simp [FS.env, Env.get]) (by simp [FS.env, Env.get])
      (by simp [FS.env, Env.get]) (by simp [FS.env, Env.get]) hpos hsz
  refine ⟨err, d', off, ⟨st', ty', cp', wt'⟩, ?_, ?_⟩
  · rw [call2_eq, exec1, hcall]
    simp [assignTargets, backEnv, FS.env, Env.set, hbuf]
  · cases hP : decBlockP f.src pos f.mB.size with
    | none => rw [hP] at hm; exact hm
    | some r =>
      obtain ⟨q, p'⟩ := r
      rw [hP] at hm
      cases q with
      | data x =>
        obtain ⟨h1, h2, h3, rfl, rfl, rfl, rfl⟩ := hm
        exact ⟨h1, h2, h3, rfl⟩
      | req t c w =>
        obtain ⟨h1, h2, h3, rfl, rfl, rfl, rfl⟩ := hm
        exact ⟨h1, h2, h3, rfl⟩

theorem call3_exec (f : FS) (tp : Array UInt64) (fuel : Nat) (pos : Nat) (hbuf : f.buf = f.src) (hoff : f.off = pos)
    (hpos : pos ≤ f.src.size) (hsz : f.src.size < 2^63) :
    ∃ (err : Bool) (d' : Bytes) (off : Int) (r' : Rec),
      exec1 goFuns (fuel + 1) call3 ⟨f.env, tp⟩ =
        .normal ⟨{ f with err := err, tB := d', off := off, rT := r' }.env, tp⟩ ∧
      match decBlockP f.src pos f.tB.size with
      | none => err = true
      | some (.data x, p') => err = false ∧ d' = x ∧ off = p' ∧ r' = f.rT
      | some (.req t c w, p') => err = false ∧ d' = f.tB ∧ off = p' ∧ r' = ⟨.bool true, .u8 t, .bytes c, .int w⟩ := by
  obtain ⟨err, d', off, st', ty', cp', wt', hcall, hm⟩ :=
    call_decBlock f.env tp "tagsErr" "s.tagsBuf" f.src pos f.tB f.rT.st f.rT.ty f.rT.cp f.rT.wt (.bytes f.sB) (.bytes f.mB) fuel
      (by simp [FS.env, Env.get, hbuf]) (by simp [FS.env, Env.get, hoff]) (by simp [FS.env, Env.get])
      (by simp [FS.env, Env.get]) (by simp [FS.env, Env.get]) (by simp [FS.env, Env.get]) (by simp [FS.env, Env.get])
      (by simp [FS.env, Env.get]) (by simp [FS.env, Env.get]) hpos hsz
  refine ⟨err, d', off, ⟨st', ty', cp', wt'⟩, ?_, ?_⟩
  · rw [call3_eq, exec1, hcall]
    simp [assignTargets, backEnv, FS.env, Env.set, hbuf]
  · cases hP : decBlockP f.src pos f.tB.size with
    | none => rw [hP] at hm; exact hm
    | some r =>
      obtain ⟨q, p'⟩ := r
      rw [hP] at hm
      cases q with
      | data x =>
        obtain ⟨h1, h2, h3, rfl, rfl, rfl, rfl⟩ := hm
        exact ⟨h1, h2, h3, rfl⟩
      | req t c w =>
        obtain ⟨h1, h2, h3, rfl, rfl, rfl, rfl⟩ := hm
        exact ⟨h1, h2, h3, rfl⟩

theorem call4_exec (f : FS) (tp : Array UInt64) (fuel : Nat) (pos : Nat) (hbuf : f.buf = f.src) (hoff : f.off = pos)
    (hpos : pos ≤ f.src.size) (hsz : f.src.size < 2^63) :
    ∃ (err : Bool) (d' : Bytes) (off : Int) (r' : Rec),
      exec1 goFuns (fuel + 1) call4 ⟨f.env, tp⟩ =
        .normal ⟨{ f with err := err, vB := d', off := off, rV := r' }.env, tp⟩ ∧
      match decBlockP f.src pos f.vB.size with
      | none => err = true
      | some (.data x, p') => err = false ∧ d' = x ∧ off = p' ∧ r' = f.rV
      | some (.req t c w, p') => err = false ∧ d' = f.vB ∧ off = p' ∧ r' = ⟨.bool true, .u8 t, .bytes c, .int w⟩ := by
  obtain ⟨err, d', off, st', ty', cp', wt', hcall, hm⟩ :=
    call_decBlock f.env tp "valsErr" "s.valuesBuf" f.src pos f.vB f.rV.st f.rV.ty f.rV.cp f.rV.wt (.bytes f.sB) (.bytes f.mB) fuel
      (by simp [FS.env, Env.get, hbuf]) (by simp [FS.env, Env.get, hoff]) (by simp [FS.env, Env.get])
      (by simp [FS.env, Env.get]) (by simp [FS.env, Env.get]) (by simp [FS.env, Env.get]) (by simp [FS.env, Env.get])
      (by simp [FS.env, Env.get]) (by simp [FS.env, Env.get]) hpos hsz
  refine ⟨err, d', off, ⟨st', ty', cp', wt'⟩, ?_, ?_⟩
  · rw [call4_eq, exec1, hcall]
    simp [assignTargets, backEnv, FS.env, Env.set, hbuf]
  · cases hP : decBlockP f.src pos f.vB.size with
    | none => rw [hP] at hm; exact hm
    | some r =>
      obtain ⟨q, p'⟩ := r
      rw [hP] at hm
      cases q with
      | data x =>
        obtain ⟨h1, h2, h3, rfl, rfl, rfl, rfl⟩ := hm
        exact ⟨h1, h2, h3, rfl⟩
      | req t c w =>
        obtain ⟨h1, h2, h3, rfl, rfl, rfl, rfl⟩ := hm
        exact ⟨h1, h2, h3, rfl⟩

theorem segB_err (f : FS) (tp : Array UInt64) (fuel : Nat) (herr : f.err = true) : Fail (exec goFuns fuel segB ⟨f.env, tp⟩) := by
  simp [segB, FS.env, exec, exec1, evalE, evalEs, assignTargets, Env.get, Env.set, Fail, goDeserialize_header, herr]

theorem segC_err (f : FS) (tp : Array UInt64) (fuel : Nat) (herr : f.err = true) : Fail (exec goFuns fuel segC ⟨f.env, tp⟩) := by
  simp [segC, FS.env, exec, exec1, evalE, evalEs, assignTargets, Env.get, Env.set, Fail, goDeserialize_header, herr]

theorem segD_err (f : FS) (tp : Array UInt64) (fuel : Nat) (herr : f.err = true) : Fail (exec goFuns fuel segD ⟨f.env, tp⟩) := by
  simp [segD, FS.env, exec, exec1, evalE, evalEs, assignTargets, Env.get, Env.set, Fail, goDeserialize_header, herr]

theorem segE_err (f : FS) (tp : Array UInt64) (fuel : Nat) (herr : f.err = true) : Fail (exec goFuns fuel segE ⟨f.env, tp⟩) := by
  simp [segE, FS.env, exec, exec1, evalE, evalEs, assignTargets, Env.get, Env.set, Fail, goDeserialize_header, herr]

theorem segE_ok (f : FS) (tp : Array UInt64) (fuel : Nat) (herr : f.err = false) :
    exec goFuns fuel segE ⟨f.env, tp⟩ = .normal ⟨f.env, tp⟩ := by
  simp [segE, FS.env, exec, exec1, evalE, evalEs, assignTargets, Env.get, Env.set, Fail, goDeserialize_header, herr]

/-! ### composition -/

/-- a destination buffer and the record of its goroutine, against the hand model's block -/
def Sect (buf : Bytes) (r : Rec) (p : Pending) : Prop :=
  match p with
  | .data x => buf = x ∧ r.st = .bool false
  | .req t c w => r = ⟨.bool true, .u8 t, .bytes c, .int w⟩ ∧ buf.size = w

def Good (f : FS) (h : Hdr) : Prop :=
  f.lim = h.ts.toNat ∧ f.ts = h.ts ∧ Sect f.sB f.rS h.pS ∧ Sect f.mB f.rM h.pM ∧ Sect f.tB f.rT h.pT ∧ Sect f.vB f.rV h.pV

def RestPost (r : HdrRes) (tp : Array UInt64) (out : Out) : Prop :=
  match r with
  | .err => Fail out
  | .tooBig => out = .panic
  | .ok h => ∃ f' : FS, out = .normal ⟨f'.env, tp⟩ ∧ Good f' h

def P4 : List Stmt := segD ++ (call4 :: segE)
def P3 : List Stmt := segC ++ (call3 :: P4)
def P2 : List Stmt := segB ++ (call2 :: P3)
def P1 : List Stmt := sA3 ++ (call1 :: P2)

theorem exec_cons (funs : String → Option FunDef) (fuel : Nat) (st : Stmt) (rest : List Stmt) (s : St) :
    exec funs fuel (st :: rest) s = match exec1 funs fuel st s with | .normal s' => exec funs fuel rest s' | o => o := by
  rw [exec]
  cases exec1 funs fuel st s <;> rfl

theorem stageV (f : FS) (tp : Array UInt64) (fuel : Nat) (pos : Nat) (src : Bytes) (hsrc : f.src = src) (ts ms : UInt64) (pS pM pT : Pending)
    (hbuf : f.buf = f.src) (hoff : f.off = pos) (herr : f.err = false) (hsz : f.src.size < 2^63)
    (hV : f.vB.size < 2^63)
    (hts : f.ts = ts) (hlim : f.lim = ts.toNat) (hS : Sect f.sB f.rS pS) (hM : Sect f.mB f.rM pM) (hT : Sect f.tB f.rT pT) :
    RestPost (restV src pos ts ms pS pM pT) tp (exec goFuns (fuel + 1) P4 ⟨f.env, tp⟩) := by
  subst hsrc
  unfold P4 restV
  rw [SJ.GoRebuild.exec_append]
  obtain ⟨hnone, hsome⟩ := segD_exec f tp (fuel + 1) pos hbuf hoff herr hV
  cases hr : readUvarint f.src pos with
  | none =>
    obtain ⟨s', hs⟩ := hnone hr
    rw [hs]; exact ⟨s', rfl⟩
  | some r =>
    obtain ⟨n, p⟩ := r
    obtain ⟨_, hp2, _⟩ := SJ.Rebuild.readUvarint_bounds _ _ _ _ hr
    obtain ⟨hbig, hok⟩ := hsome n p hr
    simp only []
    by_cases hb : 2^63 ≤ n.toNat
    · rw [if_pos hb, hbig hb]; rfl
    · rw [if_neg hb]
      obtain ⟨d, hd, he⟩ := hok (by omega)
      rw [he]
      simp only []
      rw [exec_cons]
      obtain ⟨err, d', off, r', hc, hm⟩ := call4_exec { f with vals := n, err := false, off := p, vB := d, rV := ⟨.bool false, .u8 0, .bytes #[], .int 0⟩ } tp fuel p hbuf rfl hp2 hsz
      rw [hc]
      simp only [hd] at hm ⊢
      cases hP : decBlockP f.src p n.toNat with
      | none =>
        rw [hP] at hm
        subst hm
        exact segE_err _ tp _ rfl
      | some r =>
        obtain ⟨q, p'⟩ := r
        rw [hP] at hm
        obtain ⟨hp', hq⟩ := decBlockP_spec _ _ _ _ _ hP
        cases q with
        | data x =>
          obtain ⟨rfl, rfl, rfl, rfl⟩ := hm
          rw [segE_ok _ tp _ rfl]
          exact ⟨_, rfl, hlim, hts, hS, hM, hT, rfl, rfl⟩
        | req t c w =>
          obtain ⟨rfl, rfl, rfl, rfl⟩ := hm
          rw [segE_ok _ tp _ rfl]
          have hq' : w = n.toNat := hq
          exact ⟨_, rfl, hlim, hts, hS, hM, hT, rfl, hd.trans hq'.symm⟩

theorem fail_append (funs : String → Option FunDef) (fuel : Nat) (a b : List Stmt) (s : St)
    (h : Fail (exec funs fuel a s)) : Fail (exec funs fuel (a ++ b) s) := by
  obtain ⟨s', hs⟩ := h
  rw [SJ.GoRebuild.exec_append, hs]
  exact ⟨s', rfl⟩

theorem stageT (f : FS) (tp : Array UInt64) (fuel : Nat) (pos : Nat) (src : Bytes) (hsrc : f.src = src) (ts ms : UInt64) (pS pM : Pending)
    (hbuf : f.buf = f.src) (hoff : f.off = pos) (herr : f.err = false) (hsz : f.src.size < 2^63)
    (hT : f.tB.size < 2^63) (hV : f.vB.size < 2^63)
    (hts : f.ts = ts) (hlim : f.lim = ts.toNat) (hS : Sect f.sB f.rS pS) (hM : Sect f.mB f.rM pM) :
    RestPost (restT src pos ts ms pS pM) tp (exec goFuns (fuel + 1) P3 ⟨f.env, tp⟩) := by
  subst hsrc
  unfold P3 restT
  rw [SJ.GoRebuild.exec_append]
  obtain ⟨hnone, hsome⟩ := segC_exec f tp (fuel + 1) pos hbuf hoff herr hT
  cases hr : readUvarint f.src pos with
  | none =>
    obtain ⟨s', hs⟩ := hnone hr
    rw [hs]; exact ⟨s', rfl⟩
  | some r =>
    obtain ⟨n, p⟩ := r
    obtain ⟨_, hp2, _⟩ := SJ.Rebuild.readUvarint_bounds _ _ _ _ hr
    obtain ⟨hbig, hok⟩ := hsome n p hr
    simp only []
    by_cases hb : 2^63 ≤ n.toNat
    · rw [if_pos hb, hbig hb]; rfl
    · rw [if_neg hb]
      obtain ⟨d, hd, he⟩ := hok (by omega)
      rw [he]
      simp only []
      rw [exec_cons]
      obtain ⟨err, d', off, r', hc, hm⟩ := call3_exec { f with tags := n, err := false, off := p, tB := d, rT := ⟨.bool false, .u8 0, .bytes #[], .int 0⟩ } tp fuel p hbuf rfl hp2 hsz
      rw [hc]
      simp only [hd] at hm ⊢
      cases hP : decBlockP f.src p n.toNat with
      | none =>
        rw [hP] at hm
        subst hm
        exact fail_append _ _ _ _ _ (segD_err _ tp _ rfl)
      | some r =>
        obtain ⟨q, p'⟩ := r
        rw [hP] at hm
        obtain ⟨hp', hq⟩ := decBlockP_spec _ _ _ _ _ hP
        cases q with
        | data x =>
          obtain ⟨rfl, rfl, rfl, rfl⟩ := hm
          simp only []
          refine stageV _ tp fuel p' f.src ?_ ts ms pS pM _ ?_ ?_ ?_ ?_ ?_ ?_ ?_ ?_ ?_ ?_
          exact rfl
          exact hbuf
          exact rfl
          exact rfl
          exact hsz
          exact hV
          exact hts
          exact hlim
          exact hS
          exact hM
          exact ⟨rfl, rfl⟩
        | req t c w =>
          obtain ⟨rfl, rfl, rfl, rfl⟩ := hm
          have hq' : w = n.toNat := hq
          simp only []
          refine stageV _ tp fuel p' f.src ?_ ts ms pS pM _ ?_ ?_ ?_ ?_ ?_ ?_ ?_ ?_ ?_ ?_
          exact rfl
          exact hbuf
          exact rfl
          exact rfl
          exact hsz
          exact hV
          exact hts
          exact hlim
          exact hS
          exact hM
          exact ⟨rfl, hd.trans hq'.symm⟩

theorem stageM (f : FS) (tp : Array UInt64) (fuel : Nat) (pos : Nat) (src : Bytes) (hsrc : f.src = src) (ts : UInt64) (pS : Pending)
    (hbuf : f.buf = f.src) (hoff : f.off = pos) (herr : f.err = false) (hsz : f.src.size < 2^63)
    (hMc : f.mB.size < 2^63) (hT : f.tB.size < 2^63) (hV : f.vB.size < 2^63)
    (hts : f.ts = ts) (hlim : f.lim = ts.toNat) (hS : Sect f.sB f.rS pS) (hrM : f.rM.st = .bool false) :
    RestPost (restM src pos ts pS) tp (exec goFuns (fuel + 1) P2 ⟨f.env, tp⟩) := by
  subst hsrc
  unfold P2 restM
  rw [SJ.GoRebuild.exec_append]
  obtain ⟨hnone, hsome⟩ := segB_exec f tp (fuel + 1) pos hbuf hoff herr hMc
  cases hr : readUvarint f.src pos with
  | none =>
    obtain ⟨s', hs⟩ := hnone hr
    rw [hs]; exact ⟨s', rfl⟩
  | some r =>
    obtain ⟨n, p⟩ := r
    obtain ⟨_, hp2, _⟩ := SJ.Rebuild.readUvarint_bounds _ _ _ _ hr
    obtain ⟨hbig, hok⟩ := hsome n p hr
    simp only []
    by_cases hb : 2^63 ≤ n.toNat
    · rw [if_pos hb, hbig hb]; rfl
    · rw [if_neg hb]
      obtain ⟨d, fl, hd, he⟩ := hok (by omega)
      rw [he]
      simp only []
      rw [exec_cons]
      obtain ⟨err, d', off, r', hc, hm⟩ := call2_exec { f with ss := n, err := false, off := p, mn := fl, mB := d } tp fuel p hbuf rfl hp2 hsz
      rw [hc]
      simp only [hd] at hm ⊢
      cases hP : decBlockP f.src p n.toNat with
      | none =>
        rw [hP] at hm
        subst hm
        exact fail_append _ _ _ _ _ (segC_err _ tp _ rfl)
      | some r =>
        obtain ⟨q, p'⟩ := r
        rw [hP] at hm
        obtain ⟨hp', hq⟩ := decBlockP_spec _ _ _ _ _ hP
        cases q with
        | data x =>
          obtain ⟨rfl, rfl, rfl, rfl⟩ := hm
          simp only []
          refine stageT _ tp fuel p' f.src ?_ ts n pS _ ?_ ?_ ?_ ?_ ?_ ?_ ?_ ?_ ?_ ?_
          exact rfl
          exact hbuf
          exact rfl
          exact rfl
          exact hsz
          exact hT
          exact hV
          exact hts
          exact hlim
          exact hS
          exact ⟨rfl, hrM⟩
        | req t c w =>
          obtain ⟨rfl, rfl, rfl, rfl⟩ := hm
          have hq' : w = n.toNat := hq
          simp only []
          refine stageT _ tp fuel p' f.src ?_ ts n pS _ ?_ ?_ ?_ ?_ ?_ ?_ ?_ ?_ ?_ ?_
          exact rfl
          exact hbuf
          exact rfl
          exact rfl
          exact hsz
          exact hT
          exact hV
          exact hts
          exact hlim
          exact hS
          exact ⟨rfl, hd.trans hq'.symm⟩

theorem stageS (f : FS) (tp : Array UInt64) (fuel : Nat) (pos : Nat) (src : Bytes) (hsrc : f.src = src) (ts : UInt64)
    (hbuf : f.buf = f.src) (hoff : f.off = pos) (herr : f.err = false) (hsz : f.src.size < 2^63)
    (hSc : f.sB.size < 2^63) (hMc : f.mB.size < 2^63) (hT : f.tB.size < 2^63) (hV : f.vB.size < 2^63)
    (hts : f.ts = ts) (hlim : f.lim = ts.toNat)  :
    RestPost (restS src pos ts) tp (exec goFuns (fuel + 1) P1 ⟨f.env, tp⟩) := by
  subst hsrc
  unfold P1 restS
  rw [SJ.GoRebuild.exec_append]
  obtain ⟨hnone, hsome⟩ := sA3_exec f tp (fuel + 1) pos hbuf hoff herr hSc
  cases hr : readUvarint f.src pos with
  | none =>
    obtain ⟨s', hs⟩ := hnone hr
    rw [hs]; exact ⟨s', rfl⟩
  | some r =>
    obtain ⟨n, p⟩ := r
    obtain ⟨_, hp2, _⟩ := SJ.Rebuild.readUvarint_bounds _ _ _ _ hr
    obtain ⟨hbig, hok⟩ := hsome n p hr
    simp only []
    by_cases hb : 2^63 ≤ n.toNat
    · rw [if_pos hb, hbig hb]; rfl
    · rw [if_neg hb]
      obtain ⟨d, fl, hd, he⟩ := hok (by omega)
      rw [he]
      simp only []
      rw [exec_cons]
      obtain ⟨err, d', off, r', hc, hm⟩ := call1_exec { f with ss := n, err := false, off := p, sn := fl, sB := d, rS := ⟨.bool false, .u8 0, .bytes #[], .int 0⟩, rM := ⟨.bool false, .u8 0, .bytes #[], .int 0⟩ } tp fuel p hbuf rfl hp2 hsz
      rw [hc]
      simp only [hd] at hm ⊢
      cases hP : decBlockP f.src p n.toNat with
      | none =>
        rw [hP] at hm
        subst hm
        exact fail_append _ _ _ _ _ (segB_err _ tp _ rfl)
      | some r =>
        obtain ⟨q, p'⟩ := r
        rw [hP] at hm
        obtain ⟨hp', hq⟩ := decBlockP_spec _ _ _ _ _ hP
        cases q with
        | data x =>
          obtain ⟨rfl, rfl, rfl, rfl⟩ := hm
          simp only []
          refine stageM _ tp fuel p' f.src ?_ ts _ ?_ ?_ ?_ ?_ ?_ ?_ ?_ ?_ ?_ ?_ ?_
          exact rfl
          exact hbuf
          exact rfl
          exact rfl
          exact hsz
          exact hMc
          exact hT
          exact hV
          exact hts
          exact hlim
          exact ⟨rfl, rfl⟩
          exact rfl
        | req t c w =>
          obtain ⟨rfl, rfl, rfl, rfl⟩ := hm
          have hq' : w = n.toNat := hq
          simp only []
          refine stageM _ tp fuel p' f.src ?_ ts _ ?_ ?_ ?_ ?_ ?_ ?_ ?_ ?_ ?_ ?_ ?_
          exact rfl
          exact hbuf
          exact rfl
          exact rfl
          exact hsz
          exact hMc
          exact hT
          exact hV
          exact hts
          exact hlim
          exact ⟨rfl, hd.trans hq'.symm⟩
          exact rfl

def HdrRes.tsIs (r : HdrRes) (ts : UInt64) : Prop := match r with | .ok h => h.ts = ts | _ => True

theorem restV_ts (src : Bytes) (pos : Nat) (ts ms : UInt64) (pS pM pT : Pending) : (restV src pos ts ms pS pM pT).tsIs ts := by
  unfold restV
  repeat' split
  all_goals simp [HdrRes.tsIs]

theorem restT_ts (src : Bytes) (pos : Nat) (ts ms : UInt64) (pS pM : Pending) : (restT src pos ts ms pS pM).tsIs ts := by
  unfold restT
  repeat' split
  all_goals first | exact restV_ts _ _ _ _ _ _ _ | simp [HdrRes.tsIs]

theorem restM_ts (src : Bytes) (pos : Nat) (ts : UInt64) (pS : Pending) : (restM src pos ts pS).tsIs ts := by
  unfold restM
  repeat' split
  all_goals first | exact restT_ts _ _ _ _ _ _ | simp [HdrRes.tsIs]

theorem restS_ts (src : Bytes) (pos : Nat) (ts : UInt64) : (restS src pos ts).tsIs ts := by
  unfold restS
  repeat' split
  all_goals first | exact restM_ts _ _ _ _ | simp [HdrRes.tsIs]

def TopPost (r : HdrRes) (tp : Array UInt64) (out : Out) : Prop :=
  match r with
  | .err => Fail out
  | .tooBig => out = .panic
  | .ok h => ∃ f' : FS, out = .normal ⟨f'.env, hdrTape tp h.ts⟩ ∧ Good f' h

theorem top_of_rest (r : HdrRes) (ts : UInt64) (tp : Array UInt64) (out : Out) (hr : r.tsIs ts)
    (h : RestPost r (hdrTape tp ts) out) : TopPost r tp out := by
  cases r with
  | err => exact h
  | tooBig => exact h
  | ok hh =>
    have : hh.ts = ts := hr
    subst this
    exact h

def P0 : List Stmt := sA1 ++ (sA2 ++ P1)

theorem stageP (f : FS) (tp : Array UInt64) (fuel : Nat)
    (hbuf : f.buf = f.src) (hoff : f.off = ((1 : Nat) : Int)) (herr : f.err = false) (hsz : f.src.size < 2^63)
    (htp : tp.size < 2^63)
    (hSc : f.sB.size < 2^63) (hMc : f.mB.size < 2^63) (hT : f.tB.size < 2^63) (hV : f.vB.size < 2^63) :
    TopPost (restP f.src) tp (exec goFuns (fuel + 1) P0 ⟨f.env, tp⟩) := by
  unfold P0 restP
  rw [SJ.GoRebuild.exec_append]
  obtain ⟨hnone, hsome⟩ := sA1_exec f tp (fuel + 1) 1 hbuf hoff
  cases hr : readUvarint f.src 1 with
  | none =>
    obtain ⟨s', hs⟩ := hnone hr
    rw [hs]; exact ⟨s', rfl⟩
  | some r =>
    obtain ⟨c, pc⟩ := r
    obtain ⟨hbad, hgood⟩ := hsome c pc hr
    simp only []
    by_cases hc : toInt64 c > ((f.src.size - pc : Nat) : Int)
    · rw [if_pos hc]
      obtain ⟨s', hs⟩ := hbad hc
      rw [hs]; exact ⟨s', rfl⟩
    · rw [if_neg hc, hgood hc]
      simp only []
      rw [SJ.GoRebuild.exec_append]
      obtain ⟨hnone2, hsome2⟩ := sA2_exec { f with c := c, err := false, off := pc } tp (fuel + 1) pc hbuf rfl htp
      cases hr2 : readUvarint f.src pc with
      | none =>
        obtain ⟨s', hs⟩ := hnone2 hr2
        rw [hs]; exact ⟨s', rfl⟩
      | some r =>
        obtain ⟨ts, p⟩ := r
        obtain ⟨hbig, hok⟩ := hsome2 ts p hr2
        simp only []
        by_cases hb : 2^63 ≤ ts.toNat
        · rw [if_pos hb, hbig hb]; rfl
        · rw [if_neg hb, hok (by omega)]
          simp only []
          refine top_of_rest _ ts tp _ (restS_ts _ _ _) ?_
          refine stageS _ (hdrTape tp ts) fuel p f.src ?_ ts ?_ ?_ ?_ ?_ ?_ ?_ ?_ ?_ ?_ ?_
          exact rfl
          exact hbuf
          exact rfl
          exact rfl
          exact hsz
          exact hSc
          exact hMc
          exact hT
          exact hV
          exact rfl
          exact rfl

theorem body_split' : goDeserialize_header.body = sPre ++ P0 := rfl

/-- what the framing block must leave, by the hand model's header `headerP f.src`:
    an error return exactly when the model fails, a panic exactly when a declared size is 2^63 or more, otherwise the
    store `f'` (tape: the destination's backing array, or a fresh zeroed one when it was too small; `len(dst.Tape)` the
    declared tape size; every buffer either filled by `decBlock` itself or re-sliced to the declared size with the
    goroutine's request — codec type, compressed bytes, wanted length — recorded) -/
def RunPost (r : HdrRes) (tp : Array UInt64) (out : Out) : Prop :=
  match r with
  | .err => Fail out
  | .tooBig => out = .panic
  | .ok h => ∃ f' : FS, out = .ret ⟨f'.env, hdrTape tp h.ts⟩ [] ∧ Good f' h

def HdrPost (f : FS) (prior : Array UInt64) (out : Out) : Prop :=
  RunPost (headerP f.src) (if f.dn then #[] else prior) out

theorem run_of_top (r : HdrRes) (tp : Array UInt64) (s : St) (fuel : Nat) (pre : List Stmt) (fd : FunDef)
    (hfd : fd.body = pre ++ P0)
    (o1 : Out) (h1 : exec goFuns fuel pre s = o1)
    (hcases : (Fail o1 ∧ r = .err) ∨ (∃ s1, o1 = .normal s1 ∧ TopPost r tp (exec goFuns fuel P0 s1))) :
    RunPost r tp (runFun goFuns fd fuel s) := by
  cases r with
  | err =>
    show Fail _
    unfold runFun
    rw [hfd, SJ.GoRebuild.exec_append, h1]
    rcases hcases with ⟨⟨s', hs⟩, _⟩ | ⟨s1, hs1, ht⟩
    · subst hs; exact ⟨s', rfl⟩
    · subst hs1
      obtain ⟨s', hs⟩ := ht
      simp only []
      rw [hs]; exact ⟨s', rfl⟩
  | tooBig =>
    show _ = Out.panic
    unfold runFun
    rw [hfd, SJ.GoRebuild.exec_append, h1]
    rcases hcases with ⟨_, hh⟩ | ⟨s1, hs1, ht⟩
    · cases hh
    · subst hs1
      simp only [TopPost] at ht
      simp only []
      rw [ht]
  | ok h =>
    show ∃ f' : FS, _ = _ ∧ _
    unfold runFun
    rw [hfd, SJ.GoRebuild.exec_append, h1]
    rcases hcases with ⟨_, hh⟩ | ⟨s1, hs1, ht⟩
    · cases hh
    · subst hs1
      obtain ⟨f', hs, hg⟩ := ht
      simp only []
      rw [hs]
      exact ⟨f', rfl, hg⟩

/-- **the framing part of `Deserialize` is the meaning of its source.**  For every input `src`, every destination
    (nil or not, buffers of any capacities below 2^63) and any initial values of the locals, running the regenerated
    block `goDeserialize_header` — from `br := bytes.NewBuffer(src)` to the last `decBlock` — ends as `headerP src` says
    (`HdrPost`): never `stuck`, never out of fuel with one unit. -/
theorem go_framing_source_tie (f : FS) (prior : Array UInt64) (fuel : Nat)
    (hsz : f.src.size < 2^63) (hprior : prior.size < 2^63)
    (hSc : f.sB.size < 2^63) (hMc : f.mB.size < 2^63) (hT : f.tB.size < 2^63) (hV : f.vB.size < 2^63) :
    HdrPost f prior (runFun goFuns goDeserialize_header (fuel + 1) ⟨f.env, prior⟩) := by
  unfold HdrPost headerP
  obtain ⟨h0, h1, h2⟩ := pre_exec f prior (fuel + 1)
  by_cases hz : f.src.size = 0
  · have hz' : (f.src.size == 0) = true := by simp [hz]
    rw [if_pos hz']
    exact run_of_top .err _ _ _ sPre _ body_split' _ rfl (Or.inl ⟨h0 hz, rfl⟩)
  · have hz' : ¬ (f.src.size == 0) = true := by simp [hz]
    rw [if_neg hz']
    by_cases hv : (f.src.getD 0 0).toNat > cserializedVersion
    · rw [if_pos hv]
      exact run_of_top .err _ _ _ sPre _ body_split' _ rfl (Or.inl ⟨h1 (by omega) hv, rfl⟩)
    · rw [if_neg hv]
      have h2' := h2 (by omega) hv
      cases hdn : f.dn with
      | false =>
        rw [hdn] at h2'
        simp only [Bool.false_eq_true, if_false] at h2'
        simp only [Bool.false_eq_true, if_false]
        refine run_of_top (restP f.src) prior _ _ sPre _ body_split' _ h2' (Or.inr ⟨_, rfl, ?_⟩)
        exact stageP f.start prior fuel rfl rfl rfl hsz hprior hSc hMc hT hV
      | true =>
        rw [hdn] at h2'
        simp only [if_true] at h2'
        simp only [if_true]
        refine run_of_top (restP f.src) #[] _ _ sPre _ body_split' _ h2' (Or.inr ⟨_, rfl, ?_⟩)
        exact stageP f.start.fresh #[] fuel rfl rfl rfl hsz (by simp) (by simp [FS.fresh]) (by simp [FS.fresh]) hT hV

/-- **`decBlock` is the meaning of its source** (the statement of `call_decBlock` with the hand model's `SJ.decBlock`):
    from any caller's store, `s.decBlock(br, buf, &wg, &X)` returns an error exactly when `SJ.decBlock codec` fails
    (for every codec: failing does not depend on it); otherwise the buffer position is the model's, and applying the
    codec's contract to what the call left (`d'` if no goroutine was started, else the recorded request) gives the
    model's block. -/
theorem decBlock_source_tie (codec : Codec) (e : Env) (tp : Array UInt64) (X buf : String) (b : Bytes) (pos : Nat) (d : Bytes)
    (ty cp wt sb m : Val) (fuel : Nat)
    (hb : e.get "br.buf" = some (.bytes b)) (ho : e.get "br.off" = some (.int pos))
    (h1 : e.get (X ++ "." ++ "started") = some (.bool false)) (h2 : e.get (X ++ "." ++ "typ") = some ty)
    (h3 : e.get (X ++ "." ++ "compressed") = some cp) (h4 : e.get (X ++ "." ++ "want") = some wt)
    (hS : e.get "Strings.B" = some sb) (hM : e.get "Message" = some m) (hd : e.get buf = some (.bytes d))
    (hpos : pos ≤ b.size) (hsz : b.size < 2^63) :
    ∃ (err : Bool) (d' : Bytes) (off : Int) (st' ty' cp' wt' : Val),
      callFun goFuns fuel "s" "Serializer.decBlock" ["br", X] [.v buf] ⟨e, tp⟩ =
        .ret ⟨backEnv e X b off st' ty' cp' wt' sb m, tp⟩ [.bool err, .bytes d'] ∧
      (err = true ↔ (decBlock codec b pos d.size).1 = .fail) ∧
      (err = false → off = (decBlock codec b pos d.size).2 ∧
        ((st' = .bool false ∧ (decBlock codec b pos d.size).1 = .data d') ∨
         (∃ t c, st' = .bool true ∧ ty' = .u8 t ∧ cp' = .bytes c ∧ wt' = .int d.size ∧ d' = d ∧
            (decBlock codec b pos d.size).1 = (Pending.req t c d.size).resolve codec))) := by
  obtain ⟨err, d', off, st', ty', cp', wt', hcall, hm⟩ :=
    call_decBlock e tp X buf b pos d (.bool false) ty cp wt sb m fuel hb ho h1 h2 h3 h4 hS hM hd hpos hsz
  obtain ⟨hfst, hsnd⟩ := decBlock_eq codec b pos d.size
  refine ⟨err, d', off, st', ty', cp', wt', hcall, ?_⟩
  cases hP : decBlockP b pos d.size with
  | none =>
    rw [hP] at hm hfst
    subst hm
    simp only [] at hfst
    exact ⟨⟨fun _ => hfst, fun _ => rfl⟩, fun h => by cases h⟩
  | some r =>
    obtain ⟨q, p'⟩ := r
    rw [hP] at hm hfst
    simp only [] at hfst
    have hs := hsnd q p' hP
    obtain ⟨_, hq⟩ := decBlockP_spec _ _ _ _ _ hP
    cases q with
    | data x =>
      obtain ⟨rfl, rfl, rfl, rfl, rfl, rfl, rfl⟩ := hm
      refine ⟨⟨fun h => (by cases h), fun h => ?_⟩, fun _ => ⟨by rw [hs], Or.inl ⟨rfl, hfst⟩⟩⟩
      rw [hfst] at h; cases h
    | req t c w =>
      obtain ⟨rfl, rfl, rfl, rfl, rfl, rfl, rfl⟩ := hm
      have hq' : w = d'.size := hq
      subst hq'
      refine ⟨⟨fun h => (by cases h), fun h => ?_⟩, fun _ => ⟨by rw [hs], Or.inr ⟨t, c, rfl, rfl, rfl, rfl, rfl, hfst⟩⟩⟩
      exact absurd (hfst ▸ h) (resolve_ne_fail codec _)

/-- **C19 at the source: no input makes the header parsing panic**, except by declaring a size of 2^63 or more
    (`make` of a declared size: `HdrRes.tooBig`). -/
theorem go_framing_no_panic (f : FS) (prior : Array UInt64) (fuel : Nat)
    (hsz : f.src.size < 2^63) (hprior : prior.size < 2^63)
    (hSc : f.sB.size < 2^63) (hMc : f.mB.size < 2^63) (hT : f.tB.size < 2^63) (hV : f.vB.size < 2^63) :
    runFun goFuns goDeserialize_header (fuel + 1) ⟨f.env, prior⟩ = .panic ↔ headerP f.src = .tooBig := by
  have key := go_framing_source_tie f prior fuel hsz hprior hSc hMc hT hV
  unfold HdrPost at key
  generalize runFun goFuns goDeserialize_header (fuel + 1) ⟨f.env, prior⟩ = out at key
  cases hh : headerP f.src with
  | err =>
    rw [hh] at key
    obtain ⟨s', rfl⟩ := key
    simp
  | tooBig =>
    rw [hh] at key
    simp only [RunPost] at key
    simp [key]
  | ok h =>
    rw [hh] at key
    obtain ⟨f', rfl, _⟩ := key
    simp

end SJ.GoFraming
