import SJ.Proofs.GoSet
import SJ.Proofs.GoArrMarshal
set_option autoImplicit false
set_option linter.unusedVariables false
set_option linter.unusedSimpArgs false
/-
GoWrappers — the thin wrappers of the public API, as printed by the translator (`Generated/GoSrc.lean`), against the
hand model:

  `Iter.SetString(v)`       = `return i.SetStringBytes([]byte(v))`     model `Iter.setStringBytes`
  `Iter.MarshalJSON()`      = `return i.MarshalJSONBuffer(nil)`        model `Iter.marshalBuf pj i #[]` (= `Iter.marshal`)
  `Array.MarshalJSON()`     = `return a.MarshalJSONBuffer(nil)`        model `View.arrMarshal`
  `Type.String()`           (switch over the ten `Type` constants)     `typeName` (defined here, checked against the Go text)
  `Tag.String()`            = `string([]byte{byte(t)})`                `#[t]`
  `FloatFlags.Contains(fl)` = `FloatFlag(f)&flag == flag`              `(f &&& flag) == flag`

The callees are NOT re-proved.  `wrapper_run` is the one generic fact: for a function whose body is the single statement
`return recv.fn(args…)`, `runFun` of the wrapper (one more unit of fuel: the call) is `runFun` of the callee on the frame
`callFun` builds, followed by `callFun`'s copy-back of the receiver's fields and the shared buffers (`Wrap`, `Back`).
The copy-back needs the receiver's fields bound in the store the callee returns in (`OutBound`): for `SetStringBytes` that
is part of `GoSet.SimSet`; for the two marshal functions the ties say nothing about the final store and it comes from the
syntactic "variables stay bound" property (`GoArrMarshal.KL_marshal`, `KL_arrMarshal` below).

Fuel: `.retCall` costs one unit, so every theorem asks for the callee's fuel + 1; with fuel 0 the wrapper is `.diverge`
(`retCall_zero`).  No other hypothesis is added to those of the callee's tie, and no model/Go difference was found.
-/
namespace SJ.GoWrappers
open SJ SJ.GoSem SJ.Generated SJ.GoIter SJ.GoObject
open SJ.GoPJForEach (KS KL OutKeeps copyFields_defined copyGlobals_get_ne)

/-! ## a function whose body is `return recv.fn(args…)` -/

/-- `callFun`'s copy-back: `st` is the state in which the callee returned, `st'` what the caller has afterwards -/
def Back (caller : Env) (recv : String) (callee : FunDef) (st st' : St) : Prop :=
  ∃ e2, copyFields st.env callee.recv caller recv callee.fields = some e2 ∧
    st' = ⟨copyGlobals st.env e2 globalVars, st.tape⟩

theorem Back.tape {caller : Env} {recv : String} {callee : FunDef} {st st' : St} (h : Back caller recv callee st st') :
    st'.tape = st.tape := by
  obtain ⟨e2, _, rfl⟩ := h; rfl

/-- outcome of the callee (`runFun` on its frame) vs outcome of the wrapper: same returned values, the store copied
    back; same failure otherwise.  (`runFun` never yields `normal`/`brk`/`cont`.) -/
def Wrap (caller : Env) (recv : String) (callee : FunDef) : Out → Out → Prop
  | .ret st rs, ow => ∃ st', ow = .ret st' rs ∧ Back caller recv callee st st'
  | .panic, ow => ow = .panic
  | .diverge, ow => ow = .diverge
  | .stuck w, ow => ow = .stuck w
  | _, _ => False

/-- the receiver's fields are bound in the store the callee stops in -/
def OutBound (callee : FunDef) : Out → Prop
  | .ret st _ | .normal st => ∀ f ∈ callee.fields, st.env.get (callee.recv ++ "." ++ f) ≠ none
  | _ => True

theorem OutBound_of_keeps (callee : FunDef) (frame : Env) (o : Out) (hk : OutKeeps frame o)
    (hb : ∀ f ∈ callee.fields, frame.get (callee.recv ++ "." ++ f) ≠ none) : OutBound callee o := by
  cases o with
  | ret st rs => exact fun f hf => hk _ (hb f hf)
  | normal st => exact fun f hf => hk _ (hb f hf)
  | brk _ => trivial
  | cont _ => trivial
  | panic => trivial
  | diverge => trivial
  | stuck _ => trivial

/-- with no fuel the call statement is `diverge` -/
theorem retCall_zero (fd : FunDef) (recv fn : String) (args : List Expr) (s : St)
    (hbody : fd.body = [.retCall recv fn [] args]) : runFun goFuns fd 0 s = .diverge := by
  unfold runFun
  rw [hbody, exec, exec1]

/-- **the wrapper is the callee.**  `fd` is `return recv.fn(args…)`; `frame` is the store `callFun` builds for the callee
    (receiver's fields, shared buffers, parameters). -/
theorem wrapper_run (fd callee : FunDef) (recv fn : String) (args : List Expr) (vs : List Val) (s : St)
    (e0 frame : Env) (F : Nat)
    (hbody : fd.body = [.retCall recv fn [] args])
    (hfn : goFuns fn = some callee) (hpp : callee.ptrParams = [])
    (hargs : evalEs s args = .ok vs)
    (he0 : copyFields s.env recv [] callee.recv callee.fields = some e0)
    (hfr : bindParams callee.params vs (copyGlobals s.env e0 globalVars) = some frame)
    (hB : OutBound callee (exec goFuns F callee.body ⟨frame, s.tape⟩)) :
    Wrap s.env recv callee (runFun goFuns callee F ⟨frame, s.tape⟩) (runFun goFuns fd (F + 1) s) := by
  unfold runFun
  rw [hbody, exec, exec1, callFun]
  simp only [hfn, hargs, he0, hpp, copyPtrs, hfr]
  generalize exec goFuns F callee.body ⟨frame, s.tape⟩ = o at hB ⊢
  cases o with
  | ret st rs =>
    obtain ⟨e2, he2, _⟩ := copyFields_defined st.env callee.recv recv callee.fields s.env hB
    simp only [he2, copyPtrsBack]
    exact ⟨_, rfl, e2, he2, rfl⟩
  | normal st =>
    obtain ⟨e2, he2, _⟩ := copyFields_defined st.env callee.recv recv callee.fields s.env hB
    simp only [he2, copyPtrsBack]
    exact ⟨_, rfl, e2, he2, rfl⟩
  | brk _ => exact rfl
  | cont _ => exact rfl
  | panic => exact rfl
  | diverge => exact rfl
  | stuck _ => exact rfl

/-- what `Wrap` transfers: every statement about the shape of the outcome -/
theorem Wrap.iffs {caller : Env} {recv : String} {callee : FunDef} {oc ow : Out} (h : Wrap caller recv callee oc ow) :
    (∀ rs tp, (∃ st, oc = .ret st rs ∧ st.tape = tp) ↔ ∃ st, ow = .ret st rs ∧ st.tape = tp) ∧
    (∀ rs, (∃ st, oc = .ret st rs) ↔ ∃ st, ow = .ret st rs) ∧
    (oc = .panic ↔ ow = .panic) ∧ (oc = .diverge ↔ ow = .diverge) ∧ (∀ w, oc = .stuck w ↔ ow = .stuck w) := by
  cases oc with
  | ret st rs =>
    obtain ⟨st', rfl, hb⟩ := h
    refine ⟨fun rs' tp => ⟨?_, ?_⟩, fun rs' => ⟨?_, ?_⟩, ⟨?_, ?_⟩, ⟨?_, ?_⟩, fun w => ⟨?_, ?_⟩⟩
    · rintro ⟨st1, h1, h2⟩
      injection h1 with h1 h3
      subst h1 h3
      exact ⟨st', rfl, hb.tape.trans h2⟩
    · rintro ⟨st1, h1, h2⟩
      injection h1 with h1 h3
      subst h1 h3
      exact ⟨st, rfl, hb.tape.symm.trans h2⟩
    · rintro ⟨st1, h1⟩
      injection h1 with h1 h3
      subst h3
      exact ⟨st', rfl⟩
    · rintro ⟨st1, h1⟩
      injection h1 with h1 h3
      subst h3
      exact ⟨st, rfl⟩
    all_goals (intro h'; cases h')
  | panic =>
    simp only [Wrap] at h
    subst h
    refine ⟨fun rs' tp => ⟨?_, ?_⟩, fun rs' => ⟨?_, ?_⟩, ⟨?_, ?_⟩, ⟨?_, ?_⟩, fun w => ⟨?_, ?_⟩⟩
    all_goals first | (rintro ⟨_, h', _⟩; cases h'; done) | (rintro ⟨_, h'⟩; cases h'; done) | (intro _; rfl) | (intro h'; cases h')
  | diverge =>
    simp only [Wrap] at h
    subst h
    refine ⟨fun rs' tp => ⟨?_, ?_⟩, fun rs' => ⟨?_, ?_⟩, ⟨?_, ?_⟩, ⟨?_, ?_⟩, fun w => ⟨?_, ?_⟩⟩
    all_goals first | (rintro ⟨_, h', _⟩; cases h'; done) | (rintro ⟨_, h'⟩; cases h'; done) | (intro _; rfl) | (intro h'; cases h')
  | stuck w0 =>
    simp only [Wrap] at h
    subst h
    refine ⟨fun rs' tp => ⟨?_, ?_⟩, fun rs' => ⟨?_, ?_⟩, ⟨?_, ?_⟩, ⟨?_, ?_⟩, fun w => ⟨?_, ?_⟩⟩
    all_goals first | (rintro ⟨_, h', _⟩; cases h'; done) | (rintro ⟨_, h'⟩; cases h'; done) | (intro h'; exact h') | (intro h'; cases h')
  | normal _ => exact h.elim
  | brk _ => exact h.elim
  | cont _ => exact h.elim

/-! ## what the copy-back does to an `Iter` receiver and to the shared buffers -/

theorem Back.get_global {caller : Env} {recv : String} {callee : FunDef} {st st' : St}
    (h : Back caller recv callee st st') (k : String) (hk : k ∈ globalVars) (x : Val) (hx : st.env.get k = some x) :
    st'.env.get k = some x := by
  obtain ⟨e2, _, rfl⟩ := h
  exact GoArrMarshal.copyGlobals_get_in _ _ _ hx _ _ hk

theorem Back.iterAt_i {caller : Env} {callee : FunDef} {st st' : St} {j : Iter}
    (hr : callee.recv = "i") (hf : callee.fields = iterFields)
    (h : Back caller "i" callee st st') (hj : iterAt st.env "i" = some j) : iterAt st'.env "i" = some j := by
  obtain ⟨e2, he2, rfl⟩ := h
  obtain ⟨d1, d2, d3, d4, d5⟩ := iterAt_get_i _ _ hj
  rw [hr, hf] at he2
  simp only [copyFields, iterFields, String.reduceAppend, d1, d2, d3, d4, d5, Option.some.injEq] at he2
  subst he2
  show iterAt (copyGlobals st.env _ globalVars) "i" = some j
  rw [iterAt_congr _ _ "i" (fun k hk => copyGlobals_get_ne _ _ _ _ (by revert k; decide))]
  simp [iterAt, Env.get_set]

theorem bound_of_iterAt (e : Env) (j : Iter) (hj : iterAt e "i" = some j) :
    ∀ f ∈ iterFields, e.get ("i" ++ "." ++ f) ≠ none := by
  obtain ⟨d1, d2, d3, d4, d5⟩ := iterAt_get_i _ _ hj
  intro f hf
  simp only [iterFields, List.mem_cons, List.not_mem_nil, or_false] at hf
  rcases hf with rfl | rfl | rfl | rfl | rfl <;> simp [d1, d2, d3, d4, d5]

/-! ## `Iter.SetString` -/

open SJ.GoSet (SimSet)

/-- `SimSet` says where the receiver is in the store the callee returns in: enough for the copy-back -/
theorem outBound_of_simSet (pj : PJ) (i : Iter) (fd : FunDef) (hr : fd.recv = "i") (hf : fd.fields = iterFields)
    (F : Nat) (s : St) (r : Res (PJ × Iter)) (h : SimSet pj i (runFun goFuns fd F s) r) :
    OutBound fd (exec goFuns F fd.body s) := by
  have key : ∀ st rs, SimSet pj i (.ret st rs) r → ∀ f ∈ fd.fields, st.env.get (fd.recv ++ "." ++ f) ≠ none := by
    intro st rs h
    rw [hr, hf]
    cases r with
    | ok p =>
      obtain ⟨pj', i'⟩ := p
      obtain ⟨s', heq, _, _, hI, _⟩ := h
      injection heq with h1 h2
      subst h1
      exact bound_of_iterAt _ _ hI
    | error er =>
      obtain ⟨s', heq, _, _, hI⟩ := h
      injection heq with h1 h2
      subst h1
      exact bound_of_iterAt _ _ hI
    | panic => simp only [SimSet] at h; cases h
    | diverge => exact h.elim
  unfold runFun at h
  generalize exec goFuns F fd.body s = o at h ⊢
  cases o with
  | ret st rs => exact key st rs h
  | normal st => exact key st [] h
  | brk _ => trivial
  | cont _ => trivial
  | panic => trivial
  | diverge => trivial
  | stuck _ => trivial

theorem simSet_wrap {pj : PJ} {i : Iter} {caller : Env} {callee : FunDef} {oc ow : Out} {r : Res (PJ × Iter)}
    (hr : callee.recv = "i") (hf : callee.fields = iterFields)
    (h : SimSet pj i oc r) (hw : Wrap caller "i" callee oc ow) : SimSet pj i ow r := by
  cases r with
  | ok p =>
    obtain ⟨pj', i'⟩ := p
    obtain ⟨s', rfl, ht, hS, hI, hm⟩ := h
    obtain ⟨st', rfl, hb⟩ := hw
    exact ⟨st', rfl, hb.tape.trans ht, hb.get_global _ (by decide) _ hS, hb.iterAt_i hr hf hI, hm⟩
  | error er =>
    obtain ⟨s', rfl, ht, hS, hI⟩ := h
    obtain ⟨st', rfl, hb⟩ := hw
    exact ⟨st', rfl, hb.tape.trans ht, hb.get_global _ (by decide) _ hS, hb.iterAt_i hr hf hI⟩
  | panic =>
    simp only [SimSet] at h
    subst h
    exact hw
  | diverge => exact h.elim

/-- **`Iter.SetString(v)` is `Iter.setStringBytes`** (`sv` = the bytes of the Go string `v`): the relation `GoSet.SimSet`
    of the callee's tie, on the same store, with one more unit of fuel for the call. -/
theorem setString_sim (pj : PJ) (i : Iter) (sv : Bytes) (fuel : Nat) (hl : i.lim ≤ pj.tape.size) :
    SimSet pj i (runFun goFuns goIter_SetString (fuel + 1)
        { env := envOf "i" i ++ [("Strings.B", .bytes pj.strings), ("v", .bytes sv)], tape := pj.tape })
      (i.setStringBytes pj sv) := by
  have hc := GoSet.setStringBytes_sim pj i sv fuel hl
  have hw := wrapper_run goIter_SetString goIter_SetStringBytes "i" "Iter.SetStringBytes" [.v "v"] [.bytes sv]
    ⟨envOf "i" i ++ [("Strings.B", .bytes pj.strings), ("v", .bytes sv)], pj.tape⟩ (envOf "i" i)
    (envOf "i" i ++ [("Strings.B", .bytes pj.strings), ("v", .bytes sv)]) fuel rfl rfl rfl
    (by simp [evalEs, evalE, envOf, Env.get])
    (by simp [copyFields, goIter_SetStringBytes, envOf, Env.get, Env.set])
    (by simp [bindParams, copyGlobals, globalVars, goIter_SetStringBytes, envOf, Env.get, Env.set])
    (outBound_of_simSet pj i goIter_SetStringBytes rfl rfl fuel _ _ hc)
  exact simSet_wrap rfl rfl hc hw

/-! ## the two `MarshalJSON` wrappers: `GoMarshal.MainSim` through the call, and read as equivalences -/

open SJ.GoMarshal (MainSim initEnv marshalBufN)

theorem mainSim_wrap {pj : PJ} {caller : Env} {recv : String} {callee : FunDef} {oc ow : Out} {r : Res Bytes}
    (h : MainSim pj oc r) (hw : Wrap caller recv callee oc ow) : MainSim pj ow r := by
  cases r with
  | ok out =>
    obtain ⟨st, rfl, ht⟩ := h
    obtain ⟨st', rfl, hb⟩ := hw
    exact ⟨st', rfl, hb.tape.trans ht⟩
  | error er =>
    obtain ⟨st, v, rfl⟩ := h
    obtain ⟨st', rfl, hb⟩ := hw
    exact ⟨st', v, rfl⟩
  | panic =>
    simp only [MainSim] at h
    subst h
    exact hw
  | diverge => trivial

/-- `MainSim` for a model result that is not `.diverge`, read as equivalences; the interpreter is then neither out of
    fuel nor stuck -/
theorem mainSim_iffs (pj : PJ) (o : Out) (r : Res Bytes) (h : MainSim pj o r) (hnd : r ≠ .diverge) :
    (∀ out, r = .ok out ↔ ∃ st, o = .ret st [.bytes out, .bool false] ∧ st.tape = pj.tape) ∧
    ((∃ er, r = .error er) ↔ ∃ st v, o = .ret st [v, .bool true]) ∧
    (r = .panic ↔ o = .panic) ∧ o ≠ .diverge ∧ (∀ w, o ≠ .stuck w) := by
  cases r with
  | ok out0 =>
    obtain ⟨st, rfl, hst⟩ := h
    refine ⟨fun out => ⟨?_, ?_⟩, ⟨?_, ?_⟩, ⟨?_, ?_⟩, ?_, ?_⟩
    · intro h'; injection h' with h'; subst h'; exact ⟨st, rfl, hst⟩
    · rintro ⟨st', h', _⟩
      simp only [Out.ret.injEq, List.cons.injEq, Val.bytes.injEq] at h'
      rw [h'.2.1]
    · rintro ⟨er, h'⟩; cases h'
    · rintro ⟨st', v, h'⟩; simp at h'
    · intro h'; cases h'
    · intro h'; cases h'
    · intro h'; cases h'
    · intro w h'; cases h'
  | error er =>
    obtain ⟨st, v, rfl⟩ := h
    refine ⟨fun out => ⟨?_, ?_⟩, ⟨?_, ?_⟩, ⟨?_, ?_⟩, ?_, ?_⟩
    · intro h'; cases h'
    · rintro ⟨st', h', _⟩; simp at h'
    · intro _; exact ⟨st, v, rfl⟩
    · intro _; exact ⟨er, rfl⟩
    · intro h'; cases h'
    · intro h'; cases h'
    · intro h'; cases h'
    · intro w h'; cases h'
  | panic =>
    simp only [MainSim] at h
    subst h
    refine ⟨fun out => ⟨?_, ?_⟩, ⟨?_, ?_⟩, ⟨?_, ?_⟩, ?_, ?_⟩
    · intro h'; cases h'
    · rintro ⟨st', h', _⟩; cases h'
    · rintro ⟨er, h'⟩; cases h'
    · rintro ⟨st', v, h'⟩; cases h'
    · intro _; rfl
    · intro _; rfl
    · intro h'; cases h'
    · intro w h'; cases h'
  | diverge => exact absurd rfl hnd

/-! ## `Iter.MarshalJSON` -/

/-- the wrapper run as the callee: the frame `callFun` builds from `envOf "i" i ++ bufEnv pj` for
    `i.MarshalJSONBuffer(nil)` is `GoMarshal.initEnv pj i #[]` -/
theorem iterMarshalJSON_wrap (pj : PJ) (i : Iter) (F : Nat) :
    Wrap (envOf "i" i ++ bufEnv pj) "i" goIter_MarshalJSONBuffer
      (runFun goFuns goIter_MarshalJSONBuffer F ⟨initEnv pj i #[], pj.tape⟩)
      (runFun goFuns goIter_MarshalJSON (F + 1) ⟨envOf "i" i ++ bufEnv pj, pj.tape⟩) :=
  wrapper_run goIter_MarshalJSON goIter_MarshalJSONBuffer "i" "Iter.MarshalJSONBuffer" [.nilB] [.bytes #[]]
    ⟨envOf "i" i ++ bufEnv pj, pj.tape⟩ (envOf "i" i) (initEnv pj i #[]) F rfl rfl rfl
    (by simp [evalEs, evalE])
    (by simp [copyFields, goIter_MarshalJSONBuffer, envOf, bufEnv, Env.get, Env.set])
    (by simp [bindParams, copyGlobals, globalVars, goIter_MarshalJSONBuffer, envOf, bufEnv, initEnv, Env.get, Env.set])
    (OutBound_of_keeps goIter_MarshalJSONBuffer (initEnv pj i #[]) _
      (GoArrMarshal.KL_marshal F ⟨initEnv pj i #[], pj.tape⟩) (GoArrMarshal.initEnv_bound pj i #[]))

/-- Sim-style, with the model's fuel `n` as a parameter (as `GoMarshal.marshal_sim`; `.diverge` of the MODEL claims
    nothing): the callee's fuel `n + i.lim + 9` and one unit for the call -/
theorem iterMarshalJSON_main (pj : PJ) (hb : BufOK pj) (i : Iter) (hl : i.lim ≤ pj.tape.size) (hcur : i.cur.toNat < 2^63)
    (n F : Nat) (hF : n + i.lim + 10 ≤ F) :
    MainSim pj (runFun goFuns goIter_MarshalJSON F ⟨envOf "i" i ++ bufEnv pj, pj.tape⟩) (marshalBufN pj i #[] n) := by
  obtain ⟨f, rfl⟩ : ∃ f, F = f + 1 := ⟨F - 1, by omega⟩
  exact mainSim_wrap (GoMarshal.marshal_sim pj hb i hl hcur #[] n f (by omega)) (iterMarshalJSON_wrap pj i f)

/-- **`Iter.MarshalJSON()` is `Iter.marshalBuf pj i #[]`** (= `Iter.marshal`, `iter_marshal_eq`): the equivalences of
    `GoMarshal.go_marshal_source_tie_valid` at `dst = nil`, on the store without `dst`, with one more unit of fuel.
    From a valid cursor neither side panics, the interpreter is neither out of fuel nor stuck. -/
theorem iterMarshalJSON_sim (pj : PJ) (hb : BufOK pj) (i : Iter) (hl : i.lim ≤ pj.tape.size) (ha : 0 ≤ i.addNext)
    (hcur : i.cur.toNat < 2^63) (F : Nat) (hF : fuelOf pj + i.lim + 10 ≤ F) :
    (∀ out, i.marshalBuf pj #[] = .ok out ↔
      ∃ st, runFun goFuns goIter_MarshalJSON F ⟨envOf "i" i ++ bufEnv pj, pj.tape⟩ = .ret st [.bytes out, .bool false] ∧
        st.tape = pj.tape) ∧
    ((∃ er, i.marshalBuf pj #[] = .error er) ↔
      ∃ st v, runFun goFuns goIter_MarshalJSON F ⟨envOf "i" i ++ bufEnv pj, pj.tape⟩ = .ret st [v, .bool true]) ∧
    i.marshalBuf pj #[] ≠ .panic ∧ i.marshalBuf pj #[] ≠ .diverge ∧
    runFun goFuns goIter_MarshalJSON F ⟨envOf "i" i ++ bufEnv pj, pj.tape⟩ ≠ .panic ∧
    runFun goFuns goIter_MarshalJSON F ⟨envOf "i" i ++ bufEnv pj, pj.tape⟩ ≠ .diverge ∧
    (∀ w, runFun goFuns goIter_MarshalJSON F ⟨envOf "i" i ++ bufEnv pj, pj.tape⟩ ≠ .stuck w) := by
  have hs := WalkSafe.marshalBuf_safe pj i #[] ⟨hl, ha⟩
  have hnd : i.marshalBuf pj #[] ≠ .diverge := by
    rcases hs with ⟨a, h⟩ | ⟨e, h⟩ <;> rw [h] <;> exact fun hh => by cases hh
  have hnp : i.marshalBuf pj #[] ≠ .panic := by
    rcases hs with ⟨a, h⟩ | ⟨e, h⟩ <;> rw [h] <;> exact fun hh => by cases hh
  have hm := iterMarshalJSON_main pj hb i hl hcur (fuelOf pj) F hF
  rw [← GoMarshal.marshalBuf_eq] at hm
  obtain ⟨h1, h2, h3, h4, h5⟩ := mainSim_iffs pj _ _ hm hnd
  exact ⟨h1, h2, hnp, hnd, fun hp => hnp (h3.mpr hp), h4, h5⟩

/-- the model's own name for the nil-destination version -/
theorem iter_marshal_eq (pj : PJ) (i : Iter) : i.marshal pj = i.marshalBuf pj #[] := rfl

/-- without `0 ≤ i.addNext`: the three equivalences (panic included) whenever the model's fuel suffices -/
theorem iterMarshalJSON_sim_nd (pj : PJ) (hb : BufOK pj) (i : Iter) (hl : i.lim ≤ pj.tape.size)
    (hcur : i.cur.toNat < 2^63) (F : Nat) (hF : fuelOf pj + i.lim + 10 ≤ F) (hnd : i.marshalBuf pj #[] ≠ .diverge) :
    (∀ out, i.marshalBuf pj #[] = .ok out ↔
      ∃ st, runFun goFuns goIter_MarshalJSON F ⟨envOf "i" i ++ bufEnv pj, pj.tape⟩ = .ret st [.bytes out, .bool false] ∧
        st.tape = pj.tape) ∧
    ((∃ er, i.marshalBuf pj #[] = .error er) ↔
      ∃ st v, runFun goFuns goIter_MarshalJSON F ⟨envOf "i" i ++ bufEnv pj, pj.tape⟩ = .ret st [v, .bool true]) ∧
    (i.marshalBuf pj #[] = .panic ↔
      runFun goFuns goIter_MarshalJSON F ⟨envOf "i" i ++ bufEnv pj, pj.tape⟩ = .panic) := by
  have hm := iterMarshalJSON_main pj hb i hl hcur (fuelOf pj) F hF
  rw [← GoMarshal.marshalBuf_eq] at hm
  obtain ⟨h1, h2, h3, _, _⟩ := mainSim_iffs pj _ _ hm hnd
  exact ⟨h1, h2, h3⟩

/-! ## `Array.MarshalJSON` -/

open SJ.GoArrMarshal (arrEnv)

/-- `Array.MarshalJSONBuffer` keeps every variable bound (syntactic, as `GoArrMarshal.KL_marshal`): the receiver's
    `a.off`, `a.lim` can be copied back whatever way the function returns -/
theorem KL_arrMarshal : KL goArray_MarshalJSONBuffer.body := by
  unfold goArray_MarshalJSONBuffer
  repeat (first
    | exact GoPJForEach.KL.nil
    | apply GoPJForEach.KL.cons
    | apply GoPJForEach.KS.assign | apply GoPJForEach.KS.ret | exact GoPJForEach.KS.brk | exact GoPJForEach.KS.cont
    | apply GoPJForEach.KS.ite | apply GoPJForEach.KS.loop
    | apply GoArrMarshal.KS_callAssign)

/-- the store `a.MarshalJSON()` starts in: the receiver's two fields and the shared buffers -/
def arrEnv0 (pj : PJ) (v : View) : Env := [("a.off", .int v.off), ("a.lim", .int v.lim)] ++ bufEnv pj

theorem arrMarshalJSON_wrap (pj : PJ) (v : View) (F : Nat) :
    Wrap (arrEnv0 pj v) "a" goArray_MarshalJSONBuffer
      (runFun goFuns goArray_MarshalJSONBuffer F ⟨arrEnv pj v #[], pj.tape⟩)
      (runFun goFuns goArray_MarshalJSON (F + 1) ⟨arrEnv0 pj v, pj.tape⟩) :=
  wrapper_run goArray_MarshalJSON goArray_MarshalJSONBuffer "a" "Array.MarshalJSONBuffer" [.nilB] [.bytes #[]]
    ⟨arrEnv0 pj v, pj.tape⟩ [("a.off", .int v.off), ("a.lim", .int v.lim)] (arrEnv pj v #[]) F rfl rfl rfl
    (by simp [evalEs, evalE])
    (by simp [copyFields, goArray_MarshalJSONBuffer, arrEnv0, bufEnv, Env.get, Env.set])
    (by simp [bindParams, copyGlobals, globalVars, goArray_MarshalJSONBuffer, arrEnv0, arrEnv, bufEnv, Env.get, Env.set])
    (OutBound_of_keeps goArray_MarshalJSONBuffer (arrEnv pj v #[]) _
      (KL_arrMarshal F ⟨arrEnv pj v #[], pj.tape⟩) (by
        intro f hf
        simp only [goArray_MarshalJSONBuffer, List.mem_cons, List.not_mem_nil, or_false] at hf
        rcases hf with rfl | rfl <;> simp [goArray_MarshalJSONBuffer, arrEnv, Env.get]))

/-- **`Array.MarshalJSON()` is `View.arrMarshal`** (the hand model IS the nil-destination version): all of
    `GoArrMarshal.go_arrmarshal_source_tie` at `dst = nil`, on the store without `dst`, with one more unit of fuel. -/
theorem arrMarshalJSON_sim (pj : PJ) (hb : BufOK pj) (v : View) (hl : v.lim ≤ pj.tape.size) (F : Nat)
    (hF : 2 * fuelOf pj + v.lim + 11 ≤ F) :
    (∀ out, View.arrMarshal pj v = .ok out ↔
      ∃ st, runFun goFuns goArray_MarshalJSON F ⟨arrEnv0 pj v, pj.tape⟩ = .ret st [.bytes out, .bool false] ∧
        st.tape = pj.tape) ∧
    ((∃ er, View.arrMarshal pj v = .error er) ↔
      ∃ st x, runFun goFuns goArray_MarshalJSON F ⟨arrEnv0 pj v, pj.tape⟩ = .ret st [x, .bool true]) ∧
    (View.arrMarshal pj v = .panic ↔ runFun goFuns goArray_MarshalJSON F ⟨arrEnv0 pj v, pj.tape⟩ = .panic) ∧
    View.arrMarshal pj v ≠ .panic ∧ View.arrMarshal pj v ≠ .diverge ∧
    runFun goFuns goArray_MarshalJSON F ⟨arrEnv0 pj v, pj.tape⟩ ≠ .panic ∧
    runFun goFuns goArray_MarshalJSON F ⟨arrEnv0 pj v, pj.tape⟩ ≠ .diverge ∧
    (∀ w, runFun goFuns goArray_MarshalJSON F ⟨arrEnv0 pj v, pj.tape⟩ ≠ .stuck w) := by
  obtain ⟨f, rfl⟩ : ∃ f, F = f + 1 := ⟨F - 1, by omega⟩
  obtain ⟨h1, h2, h3, h4, h5, h6, h7, h8⟩ := GoArrMarshal.go_arrmarshal_source_tie pj hb v hl #[] f (by omega)
  obtain ⟨w1, w2, w3, w4, w5⟩ := (arrMarshalJSON_wrap pj v f).iffs
  simp only [Array.empty_append] at h1
  refine ⟨fun out => (h1 out).trans (w1 _ _), h2.trans ⟨?_, ?_⟩, h3.trans w3, h4, h5, fun h => h6 (w3.mpr h),
    fun h => h7 (w4.mpr h), fun w h => h8 w ((w5 w).mpr h)⟩
  · rintro ⟨st, x, h⟩
    obtain ⟨st', h'⟩ := (w2 _).mp ⟨st, h⟩
    exact ⟨st', x, h'⟩
  · rintro ⟨st, x, h⟩
    obtain ⟨st', h'⟩ := (w2 _).mpr ⟨st, h⟩
    exact ⟨st', x, h'⟩

/-! ## `Type.String`, `Tag.String`, `FloatFlags.Contains` -/

/-- `func (t Type) String() string` (parsed_json.go l.1152): the name of the type, as bytes; the ten constants are the
    generated `Type` constants (`Generated/Consts.lean`) -/
def typeName (t : UInt8) : Bytes :=
  if t = typeNone then "(no type)".toUTF8.data
  else if t = typeNull then "null".toUTF8.data
  else if t = typeString then "string".toUTF8.data
  else if t = typeInt then "int".toUTF8.data
  else if t = typeUint then "uint".toUTF8.data
  else if t = typeFloat then "float".toUTF8.data
  else if t = typeBool then "bool".toUTF8.data
  else if t = typeObject then "object".toUTF8.data
  else if t = typeArray then "array".toUTF8.data
  else if t = typeRoot then "root".toUTF8.data
  else "(invalid)".toUTF8.data

/-- the names as byte literals (what the translator printed from the Go string literals) -/
theorem typeName_bytes (t : UInt8) : typeName t =
    if t = 0 then #[40, 110, 111, 32, 116, 121, 112, 101, 41]
    else if t = 1 then #[110, 117, 108, 108]
    else if t = 2 then #[115, 116, 114, 105, 110, 103]
    else if t = 3 then #[105, 110, 116]
    else if t = 4 then #[117, 105, 110, 116]
    else if t = 5 then #[102, 108, 111, 97, 116]
    else if t = 6 then #[98, 111, 111, 108]
    else if t = 7 then #[111, 98, 106, 101, 99, 116]
    else if t = 8 then #[97, 114, 114, 97, 121]
    else if t = 9 then #[114, 111, 111, 116]
    else #[40, 105, 110, 118, 97, 108, 105, 100, 41] := by
  have e0 : ("(no type)".toUTF8.data : Bytes) = #[40, 110, 111, 32, 116, 121, 112, 101, 41] := by decide
  have e1 : ("null".toUTF8.data : Bytes) = #[110, 117, 108, 108] := by decide
  have e2 : ("string".toUTF8.data : Bytes) = #[115, 116, 114, 105, 110, 103] := by decide
  have e3 : ("int".toUTF8.data : Bytes) = #[105, 110, 116] := by decide
  have e4 : ("uint".toUTF8.data : Bytes) = #[117, 105, 110, 116] := by decide
  have e5 : ("float".toUTF8.data : Bytes) = #[102, 108, 111, 97, 116] := by decide
  have e6 : ("bool".toUTF8.data : Bytes) = #[98, 111, 111, 108] := by decide
  have e7 : ("object".toUTF8.data : Bytes) = #[111, 98, 106, 101, 99, 116] := by decide
  have e8 : ("array".toUTF8.data : Bytes) = #[97, 114, 114, 97, 121] := by decide
  have e9 : ("root".toUTF8.data : Bytes) = #[114, 111, 111, 116] := by decide
  have e10 : ("(invalid)".toUTF8.data : Bytes) = #[40, 105, 110, 118, 97, 108, 105, 100, 41] := by decide
  simp only [typeName, e0, e1, e2, e3, e4, e5, e6, e7, e8, e9, e10, typeNone, typeNull, typeString, typeInt, typeUint,
    typeFloat, typeBool, typeObject, typeArray, typeRoot]

/-- **`Type.String()`**: for EVERY byte `t` (the ten constants and the 246 invalid values), any fuel, any tape: the
    function returns `typeName t` and leaves the store alone -/
theorem typeString_sim (t : UInt8) (fuel : Nat) (tape : Array UInt64) :
    runFun goFuns goType_String fuel ⟨[("t", .u8 t)], tape⟩ = .ret ⟨[("t", .u8 t)], tape⟩ [.bytes (typeName t)] := by
  rw [typeName_bytes]
  simp only [goType_String, runFun, exec, exec1, execCases, evalE, evalEs, isOneOf, Env.get]
  simp
  by_cases h0 : t = 0
  · subst h0; simp
  by_cases h1 : t = 1
  · subst h1; simp
  by_cases h2 : t = 2
  · subst h2; simp
  by_cases h3 : t = 3
  · subst h3; simp
  by_cases h4 : t = 4
  · subst h4; simp
  by_cases h5 : t = 5
  · subst h5; simp
  by_cases h6 : t = 6
  · subst h6; simp
  by_cases h7 : t = 7
  · subst h7; simp
  by_cases h8 : t = 8
  · subst h8; simp
  by_cases h9 : t = 9
  · subst h9; simp
  simp [h0, h1, h2, h3, h4, h5, h6, h7, h8, h9, Ne.symm h0, Ne.symm h1, Ne.symm h2, Ne.symm h3, Ne.symm h4, Ne.symm h5,
    Ne.symm h6, Ne.symm h7, Ne.symm h8, Ne.symm h9]

/-- **`Tag.String()`** = `string([]byte{byte(t)})`: the one-byte string -/
theorem tagString_sim (t : UInt8) (fuel : Nat) (tape : Array UInt64) :
    runFun goFuns goTag_String fuel ⟨[("t", .u8 t)], tape⟩ = .ret ⟨[("t", .u8 t)], tape⟩ [.bytes #[t]] := by
  simp [goTag_String, runFun, exec, exec1, evalE, evalEs, convert, Env.get]

/-- **`FloatFlags.Contains(flag)`** = `FloatFlag(f)&flag == flag` (both are `uint64`) -/
theorem contains_sim (f flag : UInt64) (fuel : Nat) (tape : Array UInt64) :
    runFun goFuns goFloatFlags_Contains fuel ⟨[("f", .u64 f), ("flag", .u64 flag)], tape⟩ =
      .ret ⟨[("f", .u64 f), ("flag", .u64 flag)], tape⟩ [.bool ((f &&& flag) == flag)] := by
  simp [goFloatFlags_Contains, runFun, exec, exec1, evalE, evalEs, convert, binop, Env.get]

/-! ## the fuel of the call is needed -/

/-- with fuel 0 each of the three calling wrappers is `.diverge` (the `return recv.fn(…)` statement costs one unit), so
    "the callee's fuel + 1" in the theorems above cannot be improved to "the callee's fuel" (`SetStringBytes` runs on 0) -/
theorem wrappers_fuel_zero (s : St) :
    runFun goFuns goIter_SetString 0 s = .diverge ∧ runFun goFuns goIter_MarshalJSON 0 s = .diverge ∧
    runFun goFuns goArray_MarshalJSON 0 s = .diverge :=
  ⟨retCall_zero _ _ _ _ s rfl, retCall_zero _ _ _ _ s rfl, retCall_zero _ _ _ _ s rfl⟩

/-! ## the bundle -/

/-- **The thin wrappers of the Go source mean what the hand model says.**
    1. `Iter.SetString` — `Iter.setStringBytes`, relation `GoSet.SimSet` (view inside the tape; any fuel ≥ 1);
    2. `Iter.MarshalJSON` — `Iter.marshalBuf pj i #[]` (`BufOK`, view inside the tape, valid cursor, `cur < 2^63`,
       `F ≥ fuelOf pj + i.lim + 10`): ok ⇔ `(out, nil)` with the tape unchanged, error ⇔ non-nil error, neither side
       panics, the model does not run out of its fuel, the interpreter is neither out of fuel nor stuck;
    3. `Array.MarshalJSON` — `View.arrMarshal` (`BufOK`, view inside the tape, `F ≥ 2 * fuelOf pj + v.lim + 11`): the same,
       with panic ⇔ panic stated as well;
    4. `Type.String`, `Tag.String`, `FloatFlags.Contains` — for every argument, any fuel, any tape. -/
theorem go_wrappers_source_tie (pj : PJ) :
    (∀ (i : Iter) (sv : Bytes) (fuel : Nat), i.lim ≤ pj.tape.size →
      SimSet pj i (runFun goFuns goIter_SetString (fuel + 1)
          { env := envOf "i" i ++ [("Strings.B", .bytes pj.strings), ("v", .bytes sv)], tape := pj.tape })
        (i.setStringBytes pj sv)) ∧
    (BufOK pj → ∀ (i : Iter) (F : Nat), i.lim ≤ pj.tape.size → 0 ≤ i.addNext → i.cur.toNat < 2^63 →
      fuelOf pj + i.lim + 10 ≤ F →
      (∀ out, i.marshalBuf pj #[] = .ok out ↔
        ∃ st, runFun goFuns goIter_MarshalJSON F ⟨envOf "i" i ++ bufEnv pj, pj.tape⟩ = .ret st [.bytes out, .bool false] ∧
          st.tape = pj.tape) ∧
      ((∃ er, i.marshalBuf pj #[] = .error er) ↔
        ∃ st v, runFun goFuns goIter_MarshalJSON F ⟨envOf "i" i ++ bufEnv pj, pj.tape⟩ = .ret st [v, .bool true]) ∧
      i.marshalBuf pj #[] ≠ .panic ∧ i.marshalBuf pj #[] ≠ .diverge ∧
      runFun goFuns goIter_MarshalJSON F ⟨envOf "i" i ++ bufEnv pj, pj.tape⟩ ≠ .panic ∧
      runFun goFuns goIter_MarshalJSON F ⟨envOf "i" i ++ bufEnv pj, pj.tape⟩ ≠ .diverge ∧
      (∀ w, runFun goFuns goIter_MarshalJSON F ⟨envOf "i" i ++ bufEnv pj, pj.tape⟩ ≠ .stuck w)) ∧
    (BufOK pj → ∀ (v : View) (F : Nat), v.lim ≤ pj.tape.size → 2 * fuelOf pj + v.lim + 11 ≤ F →
      (∀ out, View.arrMarshal pj v = .ok out ↔
        ∃ st, runFun goFuns goArray_MarshalJSON F ⟨arrEnv0 pj v, pj.tape⟩ = .ret st [.bytes out, .bool false] ∧
          st.tape = pj.tape) ∧
      ((∃ er, View.arrMarshal pj v = .error er) ↔
        ∃ st x, runFun goFuns goArray_MarshalJSON F ⟨arrEnv0 pj v, pj.tape⟩ = .ret st [x, .bool true]) ∧
      (View.arrMarshal pj v = .panic ↔ runFun goFuns goArray_MarshalJSON F ⟨arrEnv0 pj v, pj.tape⟩ = .panic) ∧
      View.arrMarshal pj v ≠ .panic ∧ View.arrMarshal pj v ≠ .diverge ∧
      runFun goFuns goArray_MarshalJSON F ⟨arrEnv0 pj v, pj.tape⟩ ≠ .panic ∧
      runFun goFuns goArray_MarshalJSON F ⟨arrEnv0 pj v, pj.tape⟩ ≠ .diverge ∧
      (∀ w, runFun goFuns goArray_MarshalJSON F ⟨arrEnv0 pj v, pj.tape⟩ ≠ .stuck w)) ∧
    (∀ (t : UInt8) (fuel : Nat) (tape : Array UInt64),
      runFun goFuns goType_String fuel ⟨[("t", .u8 t)], tape⟩ = .ret ⟨[("t", .u8 t)], tape⟩ [.bytes (typeName t)]) ∧
    (∀ (t : UInt8) (fuel : Nat) (tape : Array UInt64),
      runFun goFuns goTag_String fuel ⟨[("t", .u8 t)], tape⟩ = .ret ⟨[("t", .u8 t)], tape⟩ [.bytes #[t]]) ∧
    (∀ (f flag : UInt64) (fuel : Nat) (tape : Array UInt64),
      runFun goFuns goFloatFlags_Contains fuel ⟨[("f", .u64 f), ("flag", .u64 flag)], tape⟩ =
        .ret ⟨[("f", .u64 f), ("flag", .u64 flag)], tape⟩ [.bool ((f &&& flag) == flag)]) :=
  ⟨fun i sv fuel hl => setString_sim pj i sv fuel hl,
   fun hb i F hl ha hcur hF => iterMarshalJSON_sim pj hb i hl ha hcur F hF,
   fun hb v F hl hF => arrMarshalJSON_sim pj hb v hl F hF,
   typeString_sim, tagString_sim, contains_sim⟩

end SJ.GoWrappers
