import SJ.Proofs.ParseWF
import SJ.Proofs.MarshalExact
import SJ.Proofs.F64RoundDecNearest
import SJ.Proofs.FloatFmt
set_option linter.unusedVariables false
/-
Helper of `SourceLevelI`: **every float the parser model writes is finite**, so the located document of every parse result
satisfies `MarshalExact.FloatsOk` (the premise of the marshal theorems: `appendFloat` has a text for every float inside).

* `roundDecimal_finite`   : whatever `F64.roundDecimal` returns is a finite binary64 (its `none` is the overflow case);
* `parseNumber_floatsOk`  : the leaf stage 2 writes for a number (`numLeaf`) is `FloatsOk` — the float path of `parseNumber`
                            ends in `parseFloat64 = roundDecimal`;
* `runMG_floats`          : the invariant "every value recorded in the ghost is `FloatsOk`" over arbitrary runs of the machine;
* `parse_floatsOk`        : `parse_wf` with `∀ v ∈ lvs, FloatsOk v` added.
-/
namespace SJ.SourceLevelIFloats
open SJ SJ.Generated SJ.F64 SJ.Layout SJ.ParseDefs SJ.MarshalExact SJ.NumberProofs

/-! ## 1. `roundDecimal` returns finite floats -/

theorem isFinite_of_decode_fin {b : UInt64} {neg : Bool} {m : Nat} {e : Int} (h : decode b = .fin neg m e) :
    isFinite b = true := by
  unfold decode at h
  unfold isFinite
  generalize ((b >>> 52) &&& 0x7ff) = x at h ⊢
  by_cases hx : x = 0x7ff
  · subst hx
    simp only [show ((0x7ff : UInt64).toNat == 0x7ff) = true from by decide, if_true] at h
    split at h <;> cases h
  · simpa using hx

theorem roundDecimal_finite (neg : Bool) (m : Nat) (e : Int) (b : UInt64) (h : roundDecimal neg m e = some b) :
    isFinite b = true := by
  obtain ⟨b0, h0, hb⟩ := SJ.F64Round.roundDecimal_sign_split neg m e b h
  obtain ⟨m', e', hd, _⟩ := SJ.F64Round.roundDecimal_nearest_pos m e b0 h0
  cases neg
  · have : b = b0 := by rw [hb]; simp [signBit]
    rw [this]; exact isFinite_of_decode_fin hd
  · rw [hb]; exact isFinite_of_decode_fin (SJ.Numeric.decode_signed hd)

theorem appendFloat_ne_none (b : UInt64) (h : isFinite b = true) : FloatFmt.appendFloat b ≠ none := by
  rw [SJ.FloatFmtProofs.appendFloat_eq b h]
  exact fun h => by cases h

theorem parseFloat64_finite (s : List UInt8) (b : UInt64) (h : parseFloat64 s = some b) : isFinite b = true := by
  unfold parseFloat64 at h
  split at h
  · cases h
  · exact roundDecimal_finite _ _ _ _ h

/-! ## 2. The number leaf -/

theorem floatPath_finite (L : List UInt8) (pos : Nat) (tag tg v : UInt64) (h : floatPath L pos tag = some (tg, v)) :
    isFinite v = true := by
  cases hp : parseFloat64 (L.take pos) with
  | none => simp [floatPath, hp] at h
  | some bits =>
    simp [floatPath, hp] at h
    rw [← h.2.2]; exact parseFloat64_finite _ _ hp

theorem core_cases (L : List UInt8) (pos : Nat) (a b : Bool) (tg v : UInt64) (h : core L pos a b = some (tg, v)) :
    tagOf tg = tagInteger ∨ tagOf tg = tagUint ∨ isFinite v = true := by
  unfold core at h
  simp only [] at h
  split at h
  · cases h
  · split at h
    · split at h
      · cases h
      · split at h
        · cases h
        · split at h
          · cases h; exact Or.inl (by decide)
          · split at h
            · split at h
              · cases h; exact Or.inr (Or.inl (by decide))
              · exact Or.inr (Or.inr (floatPath_finite _ _ _ _ _ h))
            · exact Or.inr (Or.inr (floatPath_finite _ _ _ _ _ h))
    · split at h
      · exact Or.inr (Or.inr (floatPath_finite _ _ _ _ _ h))
      · exact Or.inr (Or.inr (floatPath_finite _ _ _ _ _ h))

theorem parseNumber_floatsOk (buf : Bytes) (idx : Nat) (tg v : UInt64) (L : Nat)
    (h : parseNumber buf idx = some (tg, v)) : FloatsOk (numLeaf tg v L) := by
  rw [parseNumber_eq] at h
  unfold parseNumberL at h
  split at h
  · cases h
  · rename_i pos found _
    have hc := core_cases _ _ _ _ _ _ h
    unfold numLeaf
    by_cases h1 : tagOf tg = tagInteger
    · simp only [h1, beq_self_eq_true, if_true, FloatsOk]
    · by_cases h2 : tagOf tg = tagUint
      · have h1' : (tagOf tg == tagInteger) = false := by simpa using h1
        simp only [h2, show (tagUint == tagInteger) = false from by decide, beq_self_eq_true, if_true, Bool.false_eq_true, if_false, FloatsOk]
      · have h1' : (tagOf tg == tagInteger) = false := by simpa using h1
        have h2' : (tagOf tg == tagUint) = false := by simpa using h2
        simp only [h1', h2', Bool.false_eq_true, if_false, FloatsOk]
        rcases hc with hc | hc | hc
        · exact absurd hc h1
        · exact absurd hc h2
        · exact appendFloat_ne_none v hc

/-! ## 3. The ghost only ever holds `FloatsOk` values -/

def FrameF : Frame → Prop
  | .arr _ r => ∀ v ∈ r, FloatsOk v
  | .obj _ r _ => ∀ x ∈ r, FloatsOk x.2.2

/-- every value recorded in the ghost has finite floats -/
def GF (g : Ghost) : Prop :=
  (∀ f ∈ g.frames, FrameF f) ∧ (∀ v, g.rootVal = some v → FloatsOk v) ∧ (∀ v ∈ g.done, FloatsOk v)

theorem floatsOkVs_toLVals : ∀ l : List LVal, (∀ v ∈ l, FloatsOk v) → FloatsOkVs (toLVals l)
  | [], _ => by simp only [toLVals, FloatsOkVs]
  | v :: vs, h => by
    simp only [toLVals, FloatsOkVs]
    exact ⟨h v (List.mem_cons_self ..), floatsOkVs_toLVals vs fun x hx => h x (List.mem_cons_of_mem _ hx)⟩

theorem floatsOkMs_toLMems : ∀ l : List (Nat × List UInt8 × LVal), (∀ x ∈ l, FloatsOk x.2.2) → FloatsOkMs (toLMems l)
  | [], _ => by simp only [toLMems, FloatsOkMs]
  | (pk, k, v) :: ms, h => by
    simp only [toLMems, FloatsOkMs]
    exact ⟨h (pk, k, v) (List.mem_cons_self ..), floatsOkMs_toLMems ms fun x hx => h x (List.mem_cons_of_mem _ hx)⟩

theorem GF_init : GF {} := ⟨fun _ h => (by cases h), fun _ h => (by cases h), fun _ h => (by cases h)⟩

theorem GF_addVal (g : Ghost) (v : LVal) (hg : GF g) (hv : FloatsOk v) : GF (g.addVal v) := by
  obtain ⟨frames, rootPos, rootVal, done⟩ := g
  obtain ⟨h1, h2, h3⟩ := hg
  simp only at h1 h2 h3
  unfold Ghost.addVal
  cases frames with
  | nil => exact ⟨h1, fun x hx => by simp only [Option.some.injEq] at hx; exact hx ▸ hv, h3⟩
  | cons f fs =>
    cases f with
    | arr p r =>
      refine ⟨?_, h2, h3⟩
      intro f hf
      simp only [List.mem_cons] at hf
      rcases hf with rfl | hf
      · intro x hx
        simp only [List.mem_cons] at hx
        rcases hx with rfl | hx
        · exact hv
        · exact h1 _ (List.mem_cons_self ..) x hx
      · exact h1 f (List.mem_cons_of_mem _ hf)
    | obj p r key =>
      cases key with
      | none => exact ⟨h1, h2, h3⟩
      | some pkk =>
        obtain ⟨pk, k⟩ := pkk
        refine ⟨?_, h2, h3⟩
        intro f hf
        simp only [List.mem_cons] at hf
        rcases hf with rfl | hf
        · intro x hx
          simp only [List.mem_cons] at hx
          rcases hx with rfl | hx
          · exact hv
          · exact h1 _ (List.mem_cons_self ..) x hx
        · exact h1 f (List.mem_cons_of_mem _ hf)

theorem GF_setKey (g : Ghost) (pk : Nat) (k : List UInt8) (hg : GF g) : GF (g.setKey pk k) := by
  obtain ⟨frames, rootPos, rootVal, done⟩ := g
  obtain ⟨h1, h2, h3⟩ := hg
  simp only at h1 h2 h3
  unfold Ghost.setKey
  cases frames with
  | nil => exact ⟨h1, h2, h3⟩
  | cons f fs =>
    cases f with
    | arr p r => exact ⟨h1, h2, h3⟩
    | obj p r key =>
      refine ⟨?_, h2, h3⟩
      intro f hf
      simp only [List.mem_cons] at hf
      rcases hf with rfl | hf
      · exact h1 (Frame.obj p r key) (List.mem_cons_self ..)
      · exact h1 f (List.mem_cons_of_mem _ hf)

theorem GF_openObj (g : Ghost) (pos : Nat) (hg : GF g) : GF (g.openObj pos) := by
  obtain ⟨h1, h2, h3⟩ := hg
  refine ⟨?_, h2, h3⟩
  intro f hf
  simp only [Ghost.openObj, List.mem_cons] at hf
  rcases hf with rfl | hf
  · intro x hx; cases hx
  · exact h1 f hf

theorem GF_openArr (g : Ghost) (pos : Nat) (hg : GF g) : GF (g.openArr pos) := by
  obtain ⟨h1, h2, h3⟩ := hg
  refine ⟨?_, h2, h3⟩
  intro f hf
  simp only [Ghost.openArr, List.mem_cons] at hf
  rcases hf with rfl | hf
  · intro x hx; cases hx
  · exact h1 f hf

theorem GF_close (g : Ghost) (e : Nat) (hg : GF g) : GF (g.close e) := by
  obtain ⟨frames, rootPos, rootVal, done⟩ := g
  obtain ⟨h1, h2, h3⟩ := hg
  simp only at h1 h2 h3
  unfold Ghost.close
  cases frames with
  | nil => exact ⟨h1, h2, h3⟩
  | cons f fs =>
    have hrest : GF { frames := fs, rootPos := rootPos, rootVal := rootVal, done := done } :=
      ⟨fun f hf => h1 f (List.mem_cons_of_mem _ hf), h2, h3⟩
    cases f with
    | arr p r =>
      refine GF_addVal _ _ hrest ?_
      simp only [FloatsOk]
      exact floatsOkVs_toLVals _ fun v hv => h1 _ (List.mem_cons_self ..) v (List.mem_reverse.mp hv)
    | obj p r key =>
      refine GF_addVal _ _ hrest ?_
      simp only [FloatsOk]
      exact floatsOkMs_toLMems _ fun v hv => h1 _ (List.mem_cons_self ..) v (List.mem_reverse.mp hv)

theorem GF_nextRoot (g : Ghost) (q : Nat) (hg : GF g) : GF (g.nextRoot q) := by
  obtain ⟨h1, h2, h3⟩ := hg
  unfold Ghost.nextRoot
  refine ⟨fun _ h => (by cases h), fun _ h => (by cases h), ?_⟩
  intro v hv
  simp only at hv
  cases hr : g.rootVal with
  | none => rw [hr] at hv; exact h3 v hv
  | some r =>
    rw [hr] at hv
    simp only [List.mem_cons] at hv
    rcases hv with rfl | hv
    · exact h2 _ hr
    · exact h3 v hv

theorem GF_roots (g : Ghost) (hg : GF g) : ∀ v ∈ g.roots, FloatsOk v := by
  obtain ⟨h1, h2, h3⟩ := hg
  intro v hv
  unfold Ghost.roots at hv
  rw [List.mem_reverse] at hv
  cases hr : g.rootVal with
  | none => rw [hr] at hv; exact h3 v hv
  | some r =>
    rw [hr] at hv
    simp only [List.mem_cons] at hv
    rcases hv with rfl | hv
    · exact h2 _ hr
    · exact h3 v hv

theorem GF_gvalue (m : M) (g : Ghost) (buf : Bytes) (idx peek : Nat) (hg : GF g) : GF (gvalue m g buf idx peek) := by
  unfold gvalue
  simp only []
  split
  · split
    · exact GF_addVal _ _ hg (by simp only [FloatsOk])
    · exact hg
  · split
    · exact GF_addVal _ _ hg (by simp only [FloatsOk])
    · split
      · exact GF_addVal _ _ hg (by simp only [FloatsOk])
      · split
        · exact GF_addVal _ _ hg (by simp only [FloatsOk])
        · split
          · split
            · rename_i tg v hp
              exact GF_addVal _ _ hg (parseNumber_floatsOk _ _ _ _ _ hp)
            · exact hg
          · split
            · exact GF_openObj _ _ hg
            · split
              · exact GF_openArr _ _ hg
              · exact hg

theorem GF_gkey (m : M) (g : Ghost) (buf : Bytes) (idx peek : Nat) (hg : GF g) : GF (gkey m g buf idx peek) := by
  unfold gkey
  split
  · exact GF_setKey _ _ _ hg
  · exact hg

theorem GF_groot (m : M) (g : Ghost) (c : UInt8) (hg : GF g) : GF (groot m g c) := by
  unfold groot
  split
  · exact GF_openObj _ _ hg
  · split
    · exact GF_openArr _ _ hg
    · exact hg

theorem GF_gstep (m : M) (g : Ghost) (buf : Bytes) (idx peek : Nat) (hg : GF g) : GF (gstep m g buf idx peek) := by
  unfold gstep
  simp only []
  split
  · exact GF_groot _ _ _ hg
  · split
    · exact GF_gkey _ _ _ _ _ hg
    · split
      · exact GF_close _ _ hg
      · exact hg
  · exact hg
  · exact GF_gvalue _ _ _ _ _ hg
  · split
    · exact GF_close _ _ hg
    · exact hg
  · split
    · exact GF_gkey _ _ _ _ _ hg
    · exact hg
  · split
    · exact GF_close _ _ hg
    · exact GF_gvalue _ _ _ _ _ hg
  · exact GF_gvalue _ _ _ _ _ hg
  · split
    · exact GF_close _ _ hg
    · exact hg
  · exact hg
  · split
    · exact hg
    · exact GF_groot _ _ _ (GF_nextRoot _ _ hg)

theorem runMG_floats (cfg : Cfg) (buf : Bytes) : ∀ (l : List (Nat × Nat)) (m : M) (g : Ghost) (m' : M) (g' : Ghost),
    GF g → runMG cfg buf m g l = some (m', g') → GF g'
  | [], m, g, m', g', hg, h => by simp only [runMG, Option.some.injEq, Prod.mk.injEq] at h; exact h.2 ▸ hg
  | (idx, peek) :: r, m, g, m', g', hg, h => by
    simp only [runMG] at h
    cases hs : m.step cfg buf idx peek with
    | none => rw [hs] at h; cases h
    | some m1 =>
      rw [hs] at h
      exact runMG_floats cfg buf r m1 _ m' g' (GF_gstep m g buf idx peek hg) h

/-! ## 4. Parse results -/

/-- `ParseWF.parseMsg_wf` with the finiteness of the floats added -/
theorem parseMsg_floats (cfg : Cfg) (nd : Bool) (msg : Bytes) (m : M) (hsz : SizeOK msg)
    (h : parseMsg cfg nd msg = some m) :
    ∃ lvs : List LVal, WalkLayout.OkRoots (pjOf m msg) lvs 0 ∧ (∀ v ∈ lvs, WalkLayout.Tight v) ∧
      (∀ v ∈ lvs, FloatsOk v) := by
  unfold parseMsg at h
  cases hs1 : stage1 nd msg with
  | none => rw [hs1] at h; cases h
  | some idx =>
    rw [hs1] at h
    simp only [] at h
    unfold stage2 at h
    cases hr : runM cfg msg M.init (pairsOf (rounds msg idx)) with
    | none => rw [hr] at h; cases h
    | some m' =>
      rw [hr] at h
      simp only [] at h
      obtain ⟨g, hg⟩ := SJ.ParseWF.runMG_of_runM cfg msg _ M.init {} m' hr
      obtain ⟨⟨h1, h2, _⟩, _⟩ := SJ.ParseWF.run_wf cfg nd msg idx m' m g hsz hs1 hg h
      exact ⟨g.roots, h1, h2, GF_roots g (runMG_floats cfg msg _ M.init {} m' g GF_init hg)⟩

/-- **Every float of every parse result is finite**: the located document the tape of a successful `Parse` / `ParseND` holds
    satisfies `FloatsOk` (every float inside has a text under `appendFloat`). -/
theorem parse_floatsOk (cfg : Cfg) (nd : Bool) (input : Bytes) (pj : PJ) (hsz : SizeOK (trimSpace input))
    (h : parseAny cfg nd input = .ok pj) :
    ∃ lvs : List LVal, WalkLayout.OkRoots pj lvs 0 ∧ (∀ v ∈ lvs, WalkLayout.Tight v) ∧ (∀ v ∈ lvs, FloatsOk v) := by
  rw [parseAny_eq] at h
  cases hp : parseMsg cfg nd (trimSpace input) with
  | none => rw [hp] at h; cases h
  | some m =>
    rw [hp] at h
    simp only [Res.ok.injEq] at h
    subst h
    exact parseMsg_floats cfg nd (trimSpace input) m hsz hp

end SJ.SourceLevelIFloats

#print axioms SJ.SourceLevelIFloats.parse_floatsOk
